/-
C05, parser = specification: the simulation step for the array functions (`array_initializer2`, `array_initializer1`).
-/
import ChibiVerif.Lemmas.InitSimLemmas

namespace ChibiVerif.InitSpec
open ChibiVerif.Init

theorem cursorIn_arr {root : Ty} {top : Bool} {p : List Nat} {elem : Ty} {len : Nat} (hg : growable root top p = false)
    (ht : subTy root p = some (.array elem len)) (i : Nat) :
    cursorIn root top p i = if i < len then some (p ++ [i]) else next root top p.reverse := by
  simp [cursorIn, ht, hg]

theorem childTy_arr (elem : Ty) (len k : Nat) : childTy (.array elem len) k = some elem := rfl

theorem sim_arr2loop {f : Nat} (ih : Sim f) : Arr2LoopSt (f+1) := by
  intro root top obj p elem len c toks i c' toks' hA hi h
  obtain ⟨cs, rfl, hlen, hall⟩ := arr_of_shaped hA.shapedc
  rw [arrayInit2Loop] at h
  split at h
  · rename_i hcond
    simp only [hi, ↓reduceIte] at h
    simp only [Init.children, Bool.and_eq_true, decide_eq_true_eq, Bool.not_eq_true'] at hcond
    obtain ⟨toks1, hcomma, h⟩ := bind_eq_ok h
    have htoks := skipTok_ok hcomma
    subst htoks
    by_cases hd : isDesg toks1 = true
    · simp only [hd, ↓reduceIte] at h
      cases h
      refine ⟨hA.shapedc, fun hM g fl => ⟨g, ?_⟩⟩
      simp only [After, hM]
      exact Imp.of_eq (initList_stopped _ _ _ _ _ _ _ _ (Or.inr ⟨toks1, rfl, hd⟩))
    · simp only [hd, Bool.false_eq_true, ↓reduceIte] at h
      obtain ⟨ci, hci, h⟩ := bind_eq_ok h
      obtain ⟨⟨ci', toks2⟩, hinit, h⟩ := bind_eq_ok h
      simp only at h
      have hk : (Init.arr cs).children[i]? = some ci := getChild_ok hci
      have hAi := hA.child (childTy_arr elem len i) hk
      obtain ⟨hsi, himp1⟩ := ih.init2 (top := top) hAi hinit
      obtain ⟨e1, hA1, hM1⟩ := hA.set_child (childTy_arr elem len i) hk hsi
      rw [setAtM_one_arr] at hA1 hM1 e1
      obtain ⟨hs', himp2⟩ := ih.arr2loop (top := top) hA1 (Nat.succ_pos i) h
      refine ⟨hs', fun hM g fl => ?_⟩
      cases g with
      | zero => exact ⟨0, Imp.of_error rfl⟩
      | succ g =>
        obtain ⟨g1, h1⟩ := himp1 g fl
        obtain ⟨g2, h2⟩ := himp2 hM1 g1 fl
        refine ⟨g2, ?_⟩
        have hne : consumeEnd (ITok.comma :: toks1) = none := consumeEnd_none_of_isEnd hcond.2
        have e0 : Imp (initList (g+1) root top obj (cursorIn root top p i) (.comma :: toks1) false fl)
            (initItem g root top obj [p ++ [i]] toks1 fl) := by
          refine Imp.of_item hne (Imp.of_eq ?_)
          have hil : i < len := hlen ▸ of_decide_eq_true hcond.1
          simp [skipTok, ok_bind, pathsOf, hd, cursorIn_arr hA.ng hA.sub, hil]
        refine e0.trans ?_
        simp only [After] at h1 h2 ⊢
        rw [List.reverse_append, List.reverse_singleton, List.singleton_append, next_snoc] at h1
        have e3 : setAtM (setAtM obj (p ++ [i]) ci') p c' = setAtM obj p c' := by rw [e1, setAtM_over hA]
        rw [e3] at h2
        exact h1.trans h2
  · rename_i hcond
    cases h
    refine ⟨hA.shapedc, fun hM g fl => ⟨g, ?_⟩⟩
    simp only [After, hM]
    simp only [Init.children, Bool.and_eq_true, decide_eq_true_eq, Bool.not_eq_true', not_and, Bool.not_eq_false] at hcond
    by_cases hil : i < cs.length
    · exact Imp.of_eq (initList_stopped _ _ _ _ _ _ _ _ (Or.inl (hcond (decide_eq_true hil))))
    · rw [cursorIn_arr hA.ng hA.sub]
      have : ¬ i < len := hlen ▸ hil
      simp [this]
      exact Imp.refl _


theorem Imp.of_lhs_error {x y : Except Fail Result} (h : ∃ e, x = .error e) : Imp x y := by
  obtain ⟨e, he⟩ := h; exact Imp.of_error he

theorem isEnd_not_startable {tok : ITok} {r : List ITok} (h : isEnd (tok :: r) = true) : startable tok = false := by
  cases tok <;> simp [isEnd] at h <;> rfl

theorem isDesg_not_startable {tok : ITok} {r : List ITok} (h : isDesg (tok :: r) = true) : startable tok = false := by
  cases tok <;> simp [isDesg] at h <;> rfl

theorem firstSub_arr {root : Ty} {top : Bool} {p : List Nat} {elem : Ty} {len : Nat} (hg : growable root top p = false) :
    firstSub root top p (.array elem len) = if len > 0 then some 0 else none := by
  simp [firstSub, hg]

theorem sim_arr2loop0 {f : Nat} (ih : Sim f) : Arr2Loop0St (f+1) := by
  intro root top obj p elem len c toks c' toks' hA hel h
  obtain ⟨cs, rfl, hlen, hall⟩ := arr_of_shaped hA.shapedc
  rw [arrayInit2Loop] at h
  split at h
  · rename_i hcond
    simp only [Init.children, Bool.and_eq_true, decide_eq_true_eq, Bool.not_eq_true'] at hcond
    simp only [gt_iff_lt, Nat.lt_irrefl, ↓reduceIte, pure_bind'] at h
    by_cases hd : isDesg toks = true
    · simp only [hd, ↓reduceIte] at h
      cases h
      refine ⟨hA.shapedc, fun g fl => ⟨g, ?_⟩⟩
      cases toks with
      | nil => simp [isDesg] at hd
      | cons tok r => exact Imp.of_lhs_error (initItem_not_startable _ _ _ _ _ _ _ _ (isDesg_not_startable hd))
    · simp only [hd, Bool.false_eq_true, ↓reduceIte] at h
      obtain ⟨c0, hc0, h⟩ := bind_eq_ok h
      obtain ⟨⟨c0', toks2⟩, hinit, h⟩ := bind_eq_ok h
      simp only at h
      have hk : (Init.arr cs).children[0]? = some c0 := getChild_ok hc0
      have hA0 := hA.child (childTy_arr elem len 0) hk
      obtain ⟨hs0, himp1⟩ := ih.init2 (top := top) hA0 hinit
      obtain ⟨e1, hA1, hM1⟩ := hA.set_child (childTy_arr elem len 0) hk hs0
      rw [setAtM_one_arr] at hA1 hM1 e1
      obtain ⟨hs', himp2⟩ := ih.arr2loop (top := top) hA1 (Nat.succ_pos 0) h
      refine ⟨hs', fun g fl => ?_⟩
      cases toks with
      | nil => exact ⟨0, Imp.of_error (initItem_nil _ _ _ _ _ _)⟩
      | cons tok r =>
        obtain ⟨hb, hst⟩ := hel tok r rfl
        obtain ⟨g1, h1⟩ := himp1 g fl
        obtain ⟨g2, h2⟩ := himp2 hM1 g1 fl
        refine ⟨g2, ?_⟩
        have hl0 : 0 < len := hlen ▸ of_decide_eq_true hcond.1
        have hfs : firstSub root top p (.array elem len) = some 0 := by
          rw [firstSub_arr hA.ng]; simp [hl0]
        have h0 := initItem_descend_step (g := g) (obj := obj) (r := r) (fl := fl) hb hA.sub hst hfs
        simp only [After] at h1 h2 ⊢
        rw [List.reverse_append, List.reverse_singleton, List.singleton_append, next_snoc] at h1
        have e3 : setAtM (setAtM obj (p ++ [0]) c0') p c' = setAtM obj p c' := by rw [e1, setAtM_over hA]
        rw [e3] at h2
        exact (h0.trans h1).trans h2
  · rename_i hcond
    cases h
    refine ⟨hA.shapedc, fun g fl => ⟨g, ?_⟩⟩
    simp only [Init.children, Bool.and_eq_true, decide_eq_true_eq, Bool.not_eq_true', not_and, Bool.not_eq_false] at hcond
    cases toks with
    | nil => exact Imp.of_error (initItem_nil _ _ _ _ _ _)
    | cons tok r =>
      obtain ⟨hb, hst⟩ := hel tok r rfl
      by_cases hl0 : 0 < cs.length
      · exact Imp.of_lhs_error (initItem_not_startable _ _ _ _ _ _ _ _ (isEnd_not_startable (hcond (decide_eq_true hl0))))
      · have hfs : firstSub root top p (.array elem len) = none := by
          rw [firstSub_arr hA.ng]; simp; omega
        exact Imp.of_lhs_error (initItem_descend_none hb hA.sub hst hfs)

theorem sim_arr2 {f : Nat} (ih : Sim f) : Arr2St (f+1) := by
  intro root top obj p elem len c toks i c' toks' hA hi h
  obtain ⟨cs, rfl, hlen, hall⟩ := arr_of_shaped hA.shapedc
  rw [arrayInit2] at h
  · simp only [pure_bind'] at h
    exact ih.arr2loop hA hi h
  · intro he; cases he

theorem sim_arr20 {f : Nat} (ih : Sim f) : Arr20St (f+1) := by
  intro root top obj p elem len c toks c' toks' hA hel h
  obtain ⟨cs, rfl, hlen, hall⟩ := arr_of_shaped hA.shapedc
  rw [arrayInit2] at h
  · simp only [pure_bind'] at h
    exact ih.arr2loop0 hA hel h
  · intro he; cases he


theorem foldlM_inv {α β : Type} {P : β → Prop} {step : β → α → Except Fail β}
    (hstep : ∀ b a b', step b a = .ok b' → P b → P b') : ∀ (l : List α) (b b' : β), l.foldlM step b = .ok b' → P b → P b'
  | [], b, b', h, hp => by simp [List.foldlM_nil, pure, Except.pure] at h; subst h; exact hp
  | a :: l, b, b', h, hp => by
    rw [List.foldlM_cons] at h
    obtain ⟨b1, h1, h⟩ := bind_eq_ok h
    exact foldlM_inv hstep l b1 b' h (hstep b a b1 h1 hp)

theorem foldlM_single {α β : Type} {step : β → α → Except Fail β} {a : α} {b b' : β} (h : [a].foldlM step b = .ok b') :
    step b a = .ok b' := by
  rw [List.foldlM_cons] at h
  obtain ⟨b1, h1, h⟩ := bind_eq_ok h
  simp [List.foldlM_nil, pure, Except.pure] at h
  rw [h1, h]

theorem range'_one (b e : Nat) (h : e = b) : List.range' b (e + 1 - b) = [b] := by
  subst h; simp

theorem At.root {ty : Ty} {top : Bool} {c : Init} (ho : subOk ty = true) (hs : shaped ty c = true) : At ty top c [] ty c where
  rootOk := subOk_tyOk ty ho
  topOk := fun h => by rw [isFlexRoot_subOk ho] at h; cases h
  pok := pathOk_of_not_flex (isFlexRoot_subOk ho) _
  shp := by rw [shapedR_of_not_flex (isFlexRoot_subOk ho)]; exact hs
  sub := rfl
  get := rfl
  ok := ho

theorem cursorIn_arr_root (elem : Ty) (len : Nat) (top : Bool) (i : Nat) (ho : subOk (.array elem len) = true) :
    cursorIn (.array elem len) top [] i = if i < len then some [i] else none := by
  rw [cursorIn_arr (by simp [growable]) rfl]; simp [next_nil]

theorem desigPaths_dot_arr (elem : Ty) (len : Nat) (top : Bool) (d : Nat) (n : String) (r : List ITok) :
    ∃ e, desigPaths (.array elem len) top d [[]] (.dot n :: r) = .error e := by
  cases d with
  | zero => exact ⟨_, rfl⟩
  | succ d => rw [desigPaths]; simp [headTy, subTy, findMember, Ty.isAgg]

theorem isDesg_cases {toks : List ITok} (h : isDesg toks = true) :
    isBracket toks = true ∨ ∃ n r, toks = .dot n :: r := by
  cases toks with
  | nil => simp [isDesg] at h
  | cons t r => cases t <;> simp [isDesg] at h <;> simp [isBracket]

/-- the per-element step of a designator (range) in `array_initializer1` and `designation` keeps the array shaped -/
theorem desgStep_shape {f : Nat} (ih : Sim f) {elem : Ty} {len : Nat} (ho : subOk (.array elem len) = true) (tok : List ITok)
    (acc : Init × List ITok) (j : Nat) (acc' : Init × List ITok)
    (h : (getChild acc.1.children j >>= fun c => designation f elem tok c >>= fun x =>
        (pure (acc.1.setChild j x.1, x.2) : Except Fail (Init × List ITok))) = .ok acc')
    (hs : shaped (.array elem len) acc.1 = true) : shaped (.array elem len) acc'.1 = true := by
  obtain ⟨cj, hcj, h⟩ := bind_eq_ok h
  obtain ⟨⟨cj', t2⟩, hd, h⟩ := bind_eq_ok h
  cases h
  obtain ⟨cs, hcs, hlen, hall⟩ := arr_of_shaped hs
  rw [hcs] at hcj ⊢
  have hk : (Init.arr cs).children[j]? = some cj := getChild_ok hcj
  have hA := (At.root (top := false) ho (hcs ▸ hs)).child (childTy_arr elem len j) hk
  obtain ⟨hsj, _⟩ := ih.desg (top := false) hA hd
  have := shaped_set_child (hcs ▸ hs) (childTy_arr elem len j) hk hsj
  rwa [setAtM_one_arr] at this


theorem ite_bind_pull {α β : Type} (b : Bool) (a : α) (x : Except Fail α) (k : α → Except Fail β) :
    (if b = true then (pure a >>= k) else (x >>= k)) = ((if b = true then pure a else x) >>= k) := by
  cases b <;> rfl

theorem firstCursor_arr (elem : Ty) (len : Nat) (top : Bool) (ho : subOk (.array elem len) = true) :
    firstCursor (.array elem len) = cursorIn (.array elem len) top [] 0 := by
  rw [cursorIn_arr_root elem len top 0 ho]; simp [firstCursor]

theorem sim_arr1 {f : Nat} (ih : Sim f) : Arr1St (f+1) := by
  intro elem len c toks c' rest ho hs h
  obtain ⟨cs, rfl, hlen, hall⟩ := arr_of_shaped hs
  rw [arrayInit1] at h
  obtain ⟨inner, hsk, h⟩ := bind_eq_ok h
  have := skipTok_ok hsk
  subst this
  simp only [pure_bind'] at h
  obtain ⟨hs', himp⟩ := ih.arr1loop ho hs h
  refine ⟨hs', inner, rfl, fun top g fl => ?_⟩
  rw [firstCursor_arr elem len top ho]
  exact himp top g fl

end ChibiVerif.InitSpec
