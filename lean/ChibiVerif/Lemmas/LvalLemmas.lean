/-
Helper lemmas for the lvalue-path family of C04: `get_struct_member` against the specification `locate`, the loop of
`struct_ref`, the run-time VLA size against `sizeof`, one postfix operator, whole paths.
-/
import ChibiVerif.Model.Lval
namespace ChibiVerif.Lval

theorem Members.has_eq : ∀ (ms : Members) (nm : String), ms.has nm = (ms.locate nm).isSome
  | .nil, _ => rfl
  | .cons none _ (.agg _ ms) rest, nm => by
    have h1 := Members.has_eq ms nm
    have h2 := Members.has_eq rest nm
    simp only [Members.has, Members.locate, h1, h2]
    cases ms.locate nm <;> simp
  | .cons none _ (.scalar _) rest, nm => by simp only [Members.has, Members.locate]; exact Members.has_eq rest nm
  | .cons none _ (.ptr _) rest, nm => by simp only [Members.has, Members.locate]; exact Members.has_eq rest nm
  | .cons none _ (.arr _ _) rest, nm => by simp only [Members.has, Members.locate]; exact Members.has_eq rest nm
  | .cons none _ (.vla _ _) rest, nm => by simp only [Members.has, Members.locate]; exact Members.has_eq rest nm
  | .cons (some n) _ _ rest, nm => by
    have h2 := Members.has_eq rest nm
    simp only [Members.has, Members.locate, h2]
    cases n == nm <;> simp

/-- what `get_struct_member` returns, in terms of the specification `locate` -/
theorem Members.get_spec : ∀ (ms : Members) (nm : String),
    match ms.get nm with
    | none => ms.locate nm = none
    | some m =>
      (m.name.isSome = true → ms.locate nm = some (m.offset, m.ty)) ∧
      (m.name.isSome = false → ∃ s ms', m.ty = .agg s ms' ∧ ms'.depth + 1 ≤ ms.depth ∧
          ∃ o t, ms'.locate nm = some (o, t) ∧ ms.locate nm = some (m.offset + o, t))
  | .nil, _ => rfl
  | .cons none off (.agg s ms) rest, nm => by
    have ih := Members.get_spec rest nm
    simp only [Members.get, Members.locate]
    rw [Members.has_eq]
    cases hl : ms.locate nm with
    | none =>
      simp only [Option.isSome_none, Bool.false_eq_true, if_false]
      cases hg : rest.get nm with
      | none => rw [hg] at ih; exact ih
      | some m =>
        rw [hg] at ih
        refine ⟨ih.1, fun h => ?_⟩
        obtain ⟨s', ms', e1, e2, o, t, e3, e4⟩ := ih.2 h
        exact ⟨s', ms', e1, by simp only [Members.depth]; omega, o, t, e3, e4⟩
    | some p =>
      obtain ⟨o, t⟩ := p
      simp only [Option.isSome_some, if_true]
      refine ⟨fun h => by simp at h, fun _ => ⟨s, ms, rfl, ?_, o, t, hl, rfl⟩⟩
      simp only [Members.depth, Ty.depth]; omega
  | .cons none _ (.scalar _) rest, nm => by
    have ih := Members.get_spec rest nm
    simp only [Members.get, Members.locate]
    cases hg : rest.get nm with
    | none => rw [hg] at ih; exact ih
    | some m =>
      rw [hg] at ih
      refine ⟨ih.1, fun h => ?_⟩
      obtain ⟨s', ms', e1, e2, o, t, e3, e4⟩ := ih.2 h
      exact ⟨s', ms', e1, by simp only [Members.depth]; omega, o, t, e3, e4⟩
  | .cons none _ (.ptr _) rest, nm => by
    have ih := Members.get_spec rest nm
    simp only [Members.get, Members.locate]
    cases hg : rest.get nm with
    | none => rw [hg] at ih; exact ih
    | some m =>
      rw [hg] at ih
      refine ⟨ih.1, fun h => ?_⟩
      obtain ⟨s', ms', e1, e2, o, t, e3, e4⟩ := ih.2 h
      exact ⟨s', ms', e1, by simp only [Members.depth]; omega, o, t, e3, e4⟩
  | .cons none _ (.arr _ _) rest, nm => by
    have ih := Members.get_spec rest nm
    simp only [Members.get, Members.locate]
    cases hg : rest.get nm with
    | none => rw [hg] at ih; exact ih
    | some m =>
      rw [hg] at ih
      refine ⟨ih.1, fun h => ?_⟩
      obtain ⟨s', ms', e1, e2, o, t, e3, e4⟩ := ih.2 h
      exact ⟨s', ms', e1, by simp only [Members.depth]; omega, o, t, e3, e4⟩
  | .cons none _ (.vla _ _) rest, nm => by
    have ih := Members.get_spec rest nm
    simp only [Members.get, Members.locate]
    cases hg : rest.get nm with
    | none => rw [hg] at ih; exact ih
    | some m =>
      rw [hg] at ih
      refine ⟨ih.1, fun h => ?_⟩
      obtain ⟨s', ms', e1, e2, o, t, e3, e4⟩ := ih.2 h
      exact ⟨s', ms', e1, by simp only [Members.depth]; omega, o, t, e3, e4⟩
  | .cons (some n) off t rest, nm => by
    have ih := Members.get_spec rest nm
    simp only [Members.get, Members.locate]
    cases hn : n == nm with
    | true => simp
    | false =>
      simp only [Bool.false_eq_true, if_false]
      cases hg : rest.get nm with
      | none => rw [hg] at ih; exact ih
      | some m =>
        rw [hg] at ih
        refine ⟨ih.1, fun h => ?_⟩
        obtain ⟨s', ms', e1, e2, o, t', e3, e4⟩ := ih.2 h
        exact ⟨s', ms', e1, by simp only [Members.depth]; omega, o, t', e3, e4⟩


theorem genAddr_member (env : Env) (l : Node) (off : Nat) (t : Ty) (a : Int) (h : genAddr env l = .ok a) :
    genAddr env (.member l off t) = .ok (a + off) := by
  simp only [genAddr, h]; rfl

/-- `struct_ref` finds exactly the member `locate` specifies, at the sum of the offsets along the path, and its loop
    ends within the nesting depth of the type -/
theorem structRef_spec (env : Env) : ∀ (fuel : Nat) (node : Node) (nm : String) (s : Nat) (ms : Members) (a : Int),
    node.ty = .agg s ms → ms.depth + 1 ≤ fuel → genAddr env node = .ok a →
    match ms.locate nm with
    | none => structRef fuel node nm = .error .noSuchMember
    | some (o, t) => ∃ n', structRef fuel node nm = .ok n' ∧ n'.ty = t ∧ genAddr env n' = .ok (a + o) := by
  intro fuel
  induction fuel with
  | zero => intro node nm s ms a _ h; omega
  | succ f ih =>
    intro node nm s ms a hty hfuel ha
    have hg := Members.get_spec ms nm
    simp only [structRef, hty]
    cases hget : ms.get nm with
    | none =>
      rw [hget] at hg
      simp only at hg
      rw [hg]
    | some m =>
      rw [hget] at hg
      simp only at hg
      cases hname : m.name.isSome with
      | true =>
        rw [hg.1 hname]
        simp only [hname, if_true]
        exact ⟨_, rfl, rfl, genAddr_member env node m.offset m.ty a ha⟩
      | false =>
        obtain ⟨s', ms', e1, e2, o, t, e3, e4⟩ := hg.2 hname
        rw [e4]
        simp only [hname, Bool.false_eq_true, if_false]
        have := ih (Node.member node m.offset m.ty) nm s' ms' (a + m.offset) (by simp only [Node.ty]; exact e1) (by omega)
          (genAddr_member env node m.offset m.ty a ha)
        rw [e3] at this
        obtain ⟨n', h1, h2, h3⟩ := this
        exact ⟨n', h1, h2, by rw [h3]; congr 1; omega⟩

/-- the hidden local `vla_size` holds `sizeof` of the VLA type -/
theorem implSize_eq_sizeof : ∀ (t : Ty), t.noInlineVla = true → t.implSize = t.sizeof
  | .scalar _, _ => rfl
  | .ptr _, _ => rfl
  | .arr b n, h => by
    simp only [Ty.noInlineVla] at h
    simp only [Ty.implSize, Ty.sizeof, implSize_eq_sizeof b h]
  | .vla _ _, h => by simp [Ty.noInlineVla] at h
  | .agg _ _, _ => rfl

theorem vlaSizeVal_eq_sizeof : ∀ (b : Ty) (n : Nat), (Ty.vla b n).wf = true → (Ty.vla b n).vlaSizeVal = (Ty.vla b n).sizeof
  | .vla b' n', n, h => by
    have ih := vlaSizeVal_eq_sizeof b' n' (by simpa [Ty.wf] using h)
    simp only [Ty.vlaSizeVal, Ty.sizeof] at ih ⊢
    rw [ih, Nat.mul_comm]
  | .scalar _, n, _ => by simp only [Ty.vlaSizeVal, Ty.sizeof, Ty.implSize, Nat.mul_comm]
  | .ptr _, n, _ => by simp only [Ty.vlaSizeVal, Ty.sizeof, Ty.implSize, Nat.mul_comm]
  | .arr b' n', n, h => by
    have : (Ty.arr b' n').noInlineVla = true := by simpa [Ty.wf] using h
    simp only [Ty.vlaSizeVal]
    rw [implSize_eq_sizeof _ this]
    simp only [Ty.sizeof]
    rw [Nat.mul_comm]
  | .agg _ _, n, _ => by simp only [Ty.vlaSizeVal, Ty.sizeof, Ty.implSize, Nat.mul_comm]

/-- the factor of `new_add` is `sizeof` of the element -/
theorem scaleOf_eq_sizeof (b : Ty) (h : b.wf = true) : scaleOf b = b.sizeof := by
  cases b with
  | vla b' n => simp only [scaleOf]; exact vlaSizeVal_eq_sizeof b' n h
  | scalar _ => rfl
  | ptr _ => rfl
  | arr b' n => simp only [scaleOf]; exact implSize_eq_sizeof _ (by simpa [Ty.wf] using h)
  | agg _ _ => rfl


theorem Members.locate_allWf : ∀ (ms : Members) (nm : String) (o : Nat) (t : Ty),
    ms.allWf = true → ms.locate nm = some (o, t) → t.wf = true ∧ t.allWf = true
  | .nil, _, _, _, _, h => by simp [Members.locate] at h
  | .cons none off (.agg s ms) rest, nm, o, t, hw, h => by
    simp only [Members.allWf, Ty.allWf, Bool.and_eq_true] at hw
    simp only [Members.locate] at h
    cases hl : ms.locate nm with
    | none => rw [hl] at h; exact Members.locate_allWf rest nm o t hw.2 h
    | some p =>
      obtain ⟨o', t'⟩ := p
      rw [hl] at h
      simp only [Option.some.injEq, Prod.mk.injEq] at h
      obtain ⟨_, rfl⟩ := h
      exact Members.locate_allWf ms nm o' t' hw.1.2 hl
  | .cons none _ (.scalar _) rest, nm, o, t, hw, h => by
    simp only [Members.allWf, Bool.and_eq_true] at hw
    exact Members.locate_allWf rest nm o t hw.2 (by simpa [Members.locate] using h)
  | .cons none _ (.ptr _) rest, nm, o, t, hw, h => by
    simp only [Members.allWf, Bool.and_eq_true] at hw
    exact Members.locate_allWf rest nm o t hw.2 (by simpa [Members.locate] using h)
  | .cons none _ (.arr _ _) rest, nm, o, t, hw, h => by
    simp only [Members.allWf, Bool.and_eq_true] at hw
    exact Members.locate_allWf rest nm o t hw.2 (by simpa [Members.locate] using h)
  | .cons none _ (.vla _ _) rest, nm, o, t, hw, h => by
    simp only [Members.allWf, Bool.and_eq_true] at hw
    exact Members.locate_allWf rest nm o t hw.2 (by simpa [Members.locate] using h)
  | .cons (some n) off t0 rest, nm, o, t, hw, h => by
    simp only [Members.allWf, Bool.and_eq_true] at hw
    simp only [Members.locate] at h
    cases hn : n == nm with
    | true =>
      rw [hn] at h
      simp only [if_true, Option.some.injEq, Prod.mk.injEq] at h
      obtain ⟨_, rfl⟩ := h
      exact ⟨hw.1.1, hw.1.2⟩
    | false =>
      rw [hn] at h
      exact Members.locate_allWf rest nm o t hw.2 (by simpa using h)

/-- the value of an lvalue node is `load` of its address -/
theorem genExpr_of_genAddr (env : Env) (node : Node) (a : Int) (h : genAddr env node = .ok a) :
    genExpr env node = .ok (load env node.ty a) := by
  cases node with
  | var a' t => simp only [genAddr, Except.ok.injEq] at h; subst h; rfl
  | vlaVar slot t => simp only [genAddr, Except.ok.injEq] at h; subst h; rfl
  | member l off t =>
    simp only [genAddr] at h
    cases hl : genAddr env l with
    | error e => rw [hl] at h; cases h
    | ok al =>
      rw [hl] at h
      have : a = al + off := by cases h; rfl
      subst this
      simp only [genExpr, hl]; rfl
  | deref l t =>
    simp only [genAddr] at h
    simp only [genExpr, h]; rfl
  | add l i sc t => simp [genAddr] at h


/-- one postfix operator: the node the parser builds computes the address C designates, with the designated type -/
theorem elabStep_spec (env : Env) (node : Node) (a : Int) (st : Step)
    (ha : genAddr env node = .ok a) (hwf : node.ty.allWf = true) :
    match designateStep env a node.ty st with
    | some (a', t') => ∃ n', elabStep node st = .ok n' ∧ n'.ty = t' ∧ genAddr env n' = .ok a' ∧ t'.wf = true ∧ t'.allWf = true
    | none => ∃ e, elabStep node st = .error e := by
  cases st with
  | dot nm =>
    simp only [designateStep, elabStep]
    cases hty : node.ty with
    | agg s ms =>
      have h := structRef_spec env (ms.depth + 1 + 1) node nm s ms a hty (by omega) ha
      rw [hty] at hwf
      simp only [Ty.depth]
      cases hl : ms.locate nm with
      | none => rw [hl] at h; exact ⟨_, h⟩
      | some p =>
        obtain ⟨o, t⟩ := p
        rw [hl] at h
        obtain ⟨n', h1, h2, h3⟩ := h
        obtain ⟨w1, w2⟩ := Members.locate_allWf ms nm o t (by simpa [Ty.allWf] using hwf) hl
        exact ⟨n', h1, h2, h3, w1, w2⟩
    | scalar _ => exact ⟨.notStruct, by simp only [structRef, hty]⟩
    | ptr _ => exact ⟨.notStruct, by simp only [structRef, hty]⟩
    | arr _ _ => exact ⟨.notStruct, by simp only [structRef, hty]⟩
    | vla _ _ => exact ⟨.notStruct, by simp only [structRef, hty]⟩
  | arrow nm =>
    have hv := genExpr_of_genAddr env node a ha
    simp only [designateStep, elabStep]
    cases hty : node.ty with
    | ptr b =>
      rw [hty] at hv hwf
      have hd : genAddr env (.deref node b) = .ok (env.ptrAt a) := by simp only [genAddr, hv]; rfl
      cases b with
      | agg s ms =>
        have h := structRef_spec env (ms.depth + 1 + 1) (.deref node (.agg s ms)) nm s ms (env.ptrAt a) rfl (by omega) hd
        simp only [Ty.depth]
        cases hl : ms.locate nm with
        | none => rw [hl] at h; exact ⟨_, h⟩
        | some p =>
          obtain ⟨o, t⟩ := p
          rw [hl] at h
          obtain ⟨n', h1, h2, h3⟩ := h
          obtain ⟨w1, w2⟩ := Members.locate_allWf ms nm o t (by simp only [Ty.allWf, Bool.and_eq_true] at hwf; exact hwf.2) hl
          exact ⟨n', h1, h2, h3, w1, w2⟩
      | scalar _ => exact ⟨.notStruct, by simp only [structRef, Node.ty]⟩
      | ptr _ => exact ⟨.notStruct, by simp only [structRef, Node.ty]⟩
      | arr _ _ => exact ⟨.notStruct, by simp only [structRef, Node.ty]⟩
      | vla _ _ => exact ⟨.notStruct, by simp only [structRef, Node.ty]⟩
    | arr b n =>
      rw [hty] at hv hwf
      have hd : genAddr env (.deref node b) = .ok a := by simp only [genAddr, hv]; rfl
      cases b with
      | agg s ms =>
        have h := structRef_spec env (ms.depth + 1 + 1) (.deref node (.agg s ms)) nm s ms a rfl (by omega) hd
        simp only [Ty.depth]
        cases hl : ms.locate nm with
        | none => rw [hl] at h; exact ⟨_, h⟩
        | some p =>
          obtain ⟨o, t⟩ := p
          rw [hl] at h
          obtain ⟨n', h1, h2, h3⟩ := h
          obtain ⟨w1, w2⟩ := Members.locate_allWf ms nm o t (by simp only [Ty.allWf, Bool.and_eq_true] at hwf; exact hwf.2) hl
          exact ⟨n', h1, h2, h3, w1, w2⟩
      | scalar _ => exact ⟨.notStruct, by simp only [structRef, Node.ty]⟩
      | ptr _ => exact ⟨.notStruct, by simp only [structRef, Node.ty]⟩
      | arr _ _ => exact ⟨.notStruct, by simp only [structRef, Node.ty]⟩
      | vla _ _ => exact ⟨.notStruct, by simp only [structRef, Node.ty]⟩
    | scalar _ => exact ⟨_, rfl⟩
    | vla _ _ => exact ⟨_, rfl⟩
    | agg _ _ => exact ⟨_, rfl⟩
  | index i =>
    have hv := genExpr_of_genAddr env node a ha
    simp only [designateStep, elabStep]
    cases hty : node.ty with
    | ptr b =>
      rw [hty] at hv hwf
      simp only [Ty.allWf, Bool.and_eq_true] at hwf
      refine ⟨_, rfl, rfl, ?_, hwf.1, hwf.2⟩
      simp only [genAddr, genExpr, hv, scaleOf_eq_sizeof b hwf.1]; rfl
    | arr b n =>
      rw [hty] at hv hwf
      simp only [Ty.allWf, Bool.and_eq_true] at hwf
      refine ⟨_, rfl, rfl, ?_, hwf.1, hwf.2⟩
      simp only [genAddr, genExpr, hv, scaleOf_eq_sizeof b hwf.1]; rfl
    | vla b n =>
      rw [hty] at hv hwf
      simp only [Ty.allWf, Bool.and_eq_true] at hwf
      refine ⟨_, rfl, rfl, ?_, hwf.1, hwf.2⟩
      simp only [genAddr, genExpr, hv, scaleOf_eq_sizeof b hwf.1]; rfl
    | scalar _ => exact ⟨_, rfl⟩
    | agg _ _ => exact ⟨_, rfl⟩

theorem elabPath_spec (env : Env) : ∀ (path : List Step) (node : Node) (a : Int),
    genAddr env node = .ok a → node.ty.allWf = true →
    match designate env a node.ty path with
    | some (a', t') => ∃ n', elabPath node path = .ok n' ∧ n'.ty = t' ∧ genAddr env n' = .ok a'
    | none => ∃ e, elabPath node path = .error e := by
  intro path
  induction path with
  | nil => intro node a ha _; exact ⟨node, rfl, rfl, ha⟩
  | cons st rest ih =>
    intro node a ha hwf
    have h := elabStep_spec env node a st ha hwf
    simp only [designate, elabPath]
    cases hd : designateStep env a node.ty st with
    | none =>
      rw [hd] at h
      obtain ⟨e, he⟩ := h
      exact ⟨e, by rw [he]⟩
    | some p =>
      obtain ⟨a1, t1⟩ := p
      rw [hd] at h
      obtain ⟨n1, h1, h2, h3, _, h5⟩ := h
      simp only [h1]
      have := ih n1 a1 h3 (by rw [h2]; exact h5)
      rw [h2] at this
      exact this

end ChibiVerif.Lval
