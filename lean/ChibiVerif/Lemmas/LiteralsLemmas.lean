/-
Helper lemmas for Props/C11.lean: bit-vector arithmetic of the translated UTF-8 / UTF-16 codecs
(Gen/LiteralsGen.lean) reduced to linear arithmetic over `Nat`.

Method: (1) facts about one byte are proved for all 256 values by kernel evaluation and lifted
(`forall_byte`); (2) `a ||| b = a + b` when the bits are disjoint (`or_eq_add_of_lt`), masks
`2^k - 1` are `% 2^k`, shifts are `* 2^k` / `/ 2^k`; (3) `omega`.
-/
import ChibiVerif.Gen.LiteralsGen
import ChibiVerif.Spec.LiteralsSpec
import ChibiVerif.Model.Literals

set_option linter.unusedSimpArgs false

namespace ChibiVerif.Lemmas.Literals
open ChibiVerif.Gen.Literals
open ChibiVerif.Spec.Literals
open ChibiVerif.Literals (collapse)

-- ------------------------------------------------------------------ Nat bit tricks

theorem or_eq_add_of_lt (a b k : Nat) (hb : b < 2 ^ k) (ha : a % 2 ^ k = 0) : a ||| b = a + b := by
  have : a = (a / 2^k) <<< k := by
    rw [Nat.shiftLeft_eq]; have := Nat.div_add_mod a (2^k); rw [ha] at this; rw [Nat.mul_comm]; omega
  rw [this, ← Nat.shiftLeft_add_eq_or_of_lt hb]

theorem and_63 (x : Nat) : x &&& 63 = x % 64 := Nat.and_two_pow_sub_one_eq_mod x 6
theorem and_1023 (x : Nat) : x &&& 1023 = x % 1024 := Nat.and_two_pow_sub_one_eq_mod x 10

theorem cont_byte (x : Nat) : (128 ||| x % 64) % 256 = 128 + x % 64 := by
  rw [or_eq_add_of_lt 128 (x % 64) 6 (by omega) (by decide)]; omega

theorem lead2 (n : Nat) (h : n < 0x800) : (192 ||| n / 64) % 256 = 192 + n / 64 := by
  rw [or_eq_add_of_lt 192 (n / 64) 6 (by omega) (by decide)]; omega

theorem lead3 (n : Nat) (h : n < 0x10000) : (224 ||| n / 4096) % 256 = 224 + n / 4096 := by
  rw [or_eq_add_of_lt 224 (n / 4096) 5 (by omega) (by decide)]; omega

theorem lead4 (n : Nat) (h : n < 0x200000) : (240 ||| n / 262144) % 256 = 240 + n / 262144 := by
  rw [or_eq_add_of_lt 240 (n / 262144) 4 (by omega) (by decide)]; omega

-- ------------------------------------------------------------------ encode_utf8

/-- `encode_utf8` writes exactly the RFC 3629 bytes (for every value below 2^21) -/
theorem encode_toNat (c : BitVec 32) (hc : c.toNat < 0x200000) :
    (encodeUtf8 c).map BitVec.toNat = utf8 c.toNat := by
  unfold encodeUtf8 utf8
  simp only [BitVec.le_def, BitVec.toNat_ofNat, Nat.reducePow, Nat.reduceMod]
  by_cases h1 : c.toNat ≤ 127
  · have : c.toNat < 128 := by omega
    simp only [h1, this, if_true, List.map, BitVec.toNat_setWidth]
    congr 1; omega
  · have h1' : ¬ c.toNat < 128 := by omega
    simp only [h1, h1', if_false]
    by_cases h2 : c.toNat ≤ 2047
    · have : c.toNat < 2048 := by omega
      simp only [h2, this, if_true, List.map, BitVec.toNat_setWidth, BitVec.toNat_or, BitVec.toNat_and,
        BitVec.toNat_ushiftRight, BitVec.toNat_ofNat, Nat.reducePow, Nat.reduceMod, Nat.shiftRight_eq_div_pow, and_63,
        cont_byte, lead2 _ this]
    · have h2' : ¬ c.toNat < 2048 := by omega
      simp only [h2, h2', if_false]
      by_cases h3 : c.toNat ≤ 65535
      · have : c.toNat < 65536 := by omega
        simp only [h3, this, if_true, List.map, BitVec.toNat_setWidth, BitVec.toNat_or, BitVec.toNat_and,
          BitVec.toNat_ushiftRight, BitVec.toNat_ofNat, Nat.reducePow, Nat.reduceMod, Nat.shiftRight_eq_div_pow, and_63,
          cont_byte, lead3 _ this]
      · have h3' : ¬ c.toNat < 65536 := by omega
        simp only [h3, h3', if_false, List.map, BitVec.toNat_setWidth, BitVec.toNat_or, BitVec.toNat_and,
          BitVec.toNat_ushiftRight, BitVec.toNat_ofNat, Nat.reducePow, Nat.reduceMod, Nat.shiftRight_eq_div_pow, and_63,
          cont_byte, lead4 _ hc]

theorem utf8_lt_256 (n : Nat) (h : n < 0x200000) : ∀ b ∈ utf8 n, b < 256 := by
  unfold utf8
  intro b hb
  split at hb
  · simp at hb; omega
  · split at hb
    · simp at hb; omega
    · split at hb
      · simp at hb; omega
      · simp at hb; omega

theorem map_ofNat_toNat (l : List (BitVec 8)) : (l.map BitVec.toNat).map (BitVec.ofNat 8) = l := by
  induction l with
  | nil => rfl
  | cons a t ih => simp only [List.map, BitVec.ofNat_toNat, BitVec.setWidth_eq, ih]

/-- the same fact with the bytes on the left -/
theorem encode_eq (c : BitVec 32) (hc : c.toNat < 0x200000) :
    encodeUtf8 c = (utf8 c.toNat).map (BitVec.ofNat 8) := by
  rw [← encode_toNat c hc, map_ofNat_toNat]

-- ------------------------------------------------------------------ one byte at a time

/-- lifting a fact about all 256 byte values -/
theorem forall_byte {P : BitVec 8 → Prop} (h : ∀ n, n < 256 → P (BitVec.ofNat 8 n)) (b : BitVec 8) : P b := by
  have := h b.toNat b.isLt
  simpa using this

theorem zext_toInt (b : BitVec 8) : (b.zeroExtend 32).toInt = (b.toNat : Int) := by
  revert b; apply forall_byte; decide +kernel

theorem sext_of_lt (b : BitVec 8) : b.toNat < 128 → (b.signExtend 32).toNat = b.toNat := by
  revert b; apply forall_byte; decide +kernel

theorem sext_and_7 (b : BitVec 8) : (b.signExtend 32 &&& 7#32).toNat = b.toNat % 8 := by
  revert b; apply forall_byte; decide +kernel

theorem sext_and_15 (b : BitVec 8) : (b.signExtend 32 &&& 0xF#32).toNat = b.toNat % 16 := by
  revert b; apply forall_byte; decide +kernel

theorem sext_and_31 (b : BitVec 8) : (b.signExtend 32 &&& 0x1F#32).toNat = b.toNat % 32 := by
  revert b; apply forall_byte; decide +kernel

theorem sext_and_63 (b : BitVec 8) : (b.signExtend 32 &&& 0x3F#32).toNat = b.toNat % 64 := by
  revert b; apply forall_byte; decide +kernel

theorem zext_sshr6_ne_2 (b : BitVec 8) : ((b.zeroExtend 32).sshiftRight 6 ≠ 2#32) ↔ b.toNat / 64 ≠ 2 := by
  revert b; apply forall_byte; decide +kernel

-- ------------------------------------------------------------------ decode_utf8

/-- lead-byte ladder in terms of the byte value -/
def leadSpec (b : BitVec 8) : Option (Nat × BitVec 32) :=
  if b.toNat ≥ 0xF0 then some (4, BitVec.ofNat 32 (b.toNat % 8))
  else if b.toNat ≥ 0xE0 then some (3, BitVec.ofNat 32 (b.toNat % 16))
  else if b.toNat ≥ 0xC0 then some (2, BitVec.ofNat 32 (b.toNat % 32))
  else none

theorem decodeLead_eq (p : List (BitVec 8)) : decodeLead p = leadSpec (byteAt p 0) := by
  unfold decodeLead
  generalize byteAt p 0 = b
  revert b; apply forall_byte; decide +kernel

theorem ascii_test (b : BitVec 8) : ((b.zeroExtend 32).toInt < (0x80#32).toInt) ↔ b.toNat < 128 := by
  revert b; apply forall_byte; decide +kernel

theorem sext_ascii (b : BitVec 8) : b.toNat < 128 → b.signExtend 32 = BitVec.ofNat 32 b.toNat := by
  revert b; apply forall_byte; decide +kernel

theorem sext_and_63_eq (b : BitVec 8) : (b.signExtend 32 &&& 0x3F#32) = BitVec.ofNat 32 (b.toNat % 64) := by
  revert b; apply forall_byte; decide +kernel

theorem decodeCont_succ (p : List (BitVec 8)) (fuel i : Nat) (c : BitVec 32) :
    decodeCont p (fuel + 1) i c =
      if (byteAt p i).toNat / 64 = 2 then
        decodeCont p fuel (i + 1) ((c <<< 6) ||| BitVec.ofNat 32 ((byteAt p i).toNat % 64))
      else .error .invalidUtf8 := by
  rw [decodeCont]
  simp only [zext_sshr6_ne_2, sext_and_63_eq]
  by_cases h : (byteAt p i).toNat / 64 = 2 <;> simp [h]

theorem shl6_or_toNat (c : BitVec 32) (x : Nat) (hc : c.toNat < 2 ^ 26) (hx : x < 64) :
    ((c <<< 6) ||| BitVec.ofNat 32 x).toNat = c.toNat * 64 + x := by
  simp only [BitVec.toNat_or, BitVec.toNat_shiftLeft, BitVec.toNat_ofNat, Nat.shiftLeft_eq, Nat.reducePow] at *
  rw [or_eq_add_of_lt _ _ 6 (by omega) (by omega)]
  omega

theorem byteAt_zero (a : BitVec 8) (l) : byteAt (a :: l) 0 = a := rfl
theorem byteAt_succ (a : BitVec 8) (l) (i) : byteAt (a :: l) (i+1) = byteAt l i := by
  simp [byteAt]

theorem ofNat8_toNat (x : Nat) (h : x < 256) : (BitVec.ofNat 8 x).toNat = x := by
  simp [BitVec.toNat_ofNat]; omega


theorem decode1 (b0 : BitVec 8) (rest : List (BitVec 8)) (h0 : b0.toNat < 0x80) :
    decodeUtf8 (b0 :: rest) = .ok (BitVec.ofNat 32 b0.toNat, 1) := by
  unfold decodeUtf8
  simp only [byteAt_zero, ascii_test, h0, if_true, sext_ascii _ h0]

theorem decode2 (b0 b1 : BitVec 8) (rest : List (BitVec 8)) (h0 : 0xC0 ≤ b0.toNat ∧ b0.toNat < 0xE0)
    (h1 : b1.toNat / 64 = 2) :
    decodeUtf8 (b0 :: b1 :: rest) = .ok (BitVec.ofNat 32 (b0.toNat % 32 * 64 + b1.toNat % 64), 2) := by
  unfold decodeUtf8
  have hna : ¬ (b0.toNat < 128) := by omega
  have g1 : ¬ (b0.toNat ≥ 0xF0) := by omega
  have g2 : ¬ (b0.toNat ≥ 0xE0) := by omega
  have g3 : (b0.toNat ≥ 0xC0) := by omega
  simp only [byteAt_zero, ascii_test, hna, if_false, decodeLead_eq, leadSpec, g1, g2, g3, if_true, Nat.reduceSub]
  rw [decodeCont_succ]
  simp only [byteAt_succ, byteAt_zero, h1, if_true, decodeCont, Except.map]
  congr 2
  apply BitVec.eq_of_toNat_eq
  rw [shl6_or_toNat _ _ (by simp; omega) (by omega)]
  simp; omega

theorem decode3 (b0 b1 b2 : BitVec 8) (rest : List (BitVec 8)) (h0 : 0xE0 ≤ b0.toNat ∧ b0.toNat < 0xF0)
    (h1 : b1.toNat / 64 = 2) (h2 : b2.toNat / 64 = 2) :
    decodeUtf8 (b0 :: b1 :: b2 :: rest) =
      .ok (BitVec.ofNat 32 (b0.toNat % 16 * 4096 + b1.toNat % 64 * 64 + b2.toNat % 64), 3) := by
  unfold decodeUtf8
  have hna : ¬ (b0.toNat < 128) := by omega
  have g1 : ¬ (b0.toNat ≥ 0xF0) := by omega
  have g2 : (b0.toNat ≥ 0xE0) := by omega
  simp only [byteAt_zero, ascii_test, hna, if_false, decodeLead_eq, leadSpec, g1, g2, if_true, Nat.reduceSub]
  rw [decodeCont_succ, decodeCont_succ]
  simp only [byteAt_succ, byteAt_zero, h1, h2, if_true, decodeCont, Except.map]
  congr 2
  apply BitVec.eq_of_toNat_eq
  have e1 := shl6_or_toNat (BitVec.ofNat 32 (b0.toNat % 16)) (b1.toNat % 64) (by simp; omega) (by omega)
  rw [shl6_or_toNat _ _ (by rw [e1]; simp; omega) (by omega), e1]
  simp; omega

theorem decode4 (b0 b1 b2 b3 : BitVec 8) (rest : List (BitVec 8)) (h0 : 0xF0 ≤ b0.toNat)
    (h1 : b1.toNat / 64 = 2) (h2 : b2.toNat / 64 = 2) (h3 : b3.toNat / 64 = 2) :
    decodeUtf8 (b0 :: b1 :: b2 :: b3 :: rest) =
      .ok (BitVec.ofNat 32 (b0.toNat % 8 * 262144 + b1.toNat % 64 * 4096 + b2.toNat % 64 * 64 + b3.toNat % 64), 4) := by
  unfold decodeUtf8
  have hna : ¬ (b0.toNat < 128) := by omega
  have g1 : (b0.toNat ≥ 0xF0) := by omega
  simp only [byteAt_zero, ascii_test, hna, if_false, decodeLead_eq, leadSpec, g1, if_true, Nat.reduceSub]
  rw [decodeCont_succ, decodeCont_succ, decodeCont_succ]
  simp only [byteAt_succ, byteAt_zero, h1, h2, h3, if_true, decodeCont, Except.map]
  congr 2
  apply BitVec.eq_of_toNat_eq
  have e1 := shl6_or_toNat (BitVec.ofNat 32 (b0.toNat % 8)) (b1.toNat % 64) (by simp; omega) (by omega)
  have e2 := shl6_or_toNat _ (b2.toNat % 64) (by rw [e1]; simp; omega) (by omega)
  rw [shl6_or_toNat _ _ (by rw [e2, e1]; simp; omega) (by omega), e2, e1]
  simp; omega

theorem roundtrip (c : BitVec 32) (hc : c.toNat < 0x200000) (rest : List (BitVec 8)) :
    decodeUtf8 (encodeUtf8 c ++ rest) = .ok (c, (encodeUtf8 c).length) := by
  rw [encode_eq c hc]
  generalize hn : c.toNat = n at hc
  have hcn : c = BitVec.ofNat 32 n := by rw [← hn]; simp
  unfold utf8
  by_cases h1 : n < 0x80
  · simp only [h1, if_true, List.map, List.cons_append, List.nil_append, List.length]
    have hb : (BitVec.ofNat 8 n).toNat = n := ofNat8_toNat n (by omega)
    rw [decode1 _ _ (by rw [hb]; exact h1), hb, hcn]
  · simp only [h1, if_false]
    by_cases h2 : n < 0x800
    · simp only [h2, if_true, List.map, List.cons_append, List.nil_append, List.length]
      have hb0 : (BitVec.ofNat 8 (0xC0 + n / 0x40)).toNat = 0xC0 + n / 0x40 := ofNat8_toNat _ (by omega)
      have hb1 : (BitVec.ofNat 8 (0x80 + n % 0x40)).toNat = 0x80 + n % 0x40 := ofNat8_toNat _ (by omega)
      rw [decode2 _ _ _ (by rw [hb0]; omega) (by rw [hb1]; omega), hb0, hb1, hcn]
      congr 3; omega
    · simp only [h2, if_false]
      by_cases h3 : n < 0x10000
      · simp only [h3, if_true, List.map, List.cons_append, List.nil_append, List.length]
        have hb0 : (BitVec.ofNat 8 (0xE0 + n / 0x1000)).toNat = 0xE0 + n / 0x1000 := ofNat8_toNat _ (by omega)
        have hb1 : (BitVec.ofNat 8 (0x80 + n / 0x40 % 0x40)).toNat = 0x80 + n / 0x40 % 0x40 := ofNat8_toNat _ (by omega)
        have hb2 : (BitVec.ofNat 8 (0x80 + n % 0x40)).toNat = 0x80 + n % 0x40 := ofNat8_toNat _ (by omega)
        rw [decode3 _ _ _ _ (by rw [hb0]; omega) (by rw [hb1]; omega) (by rw [hb2]; omega), hb0, hb1, hb2, hcn]
        congr 3; omega
      · simp only [h3, if_false, List.map, List.cons_append, List.nil_append, List.length]
        have hb0 : (BitVec.ofNat 8 (0xF0 + n / 0x40000)).toNat = 0xF0 + n / 0x40000 := ofNat8_toNat _ (by omega)
        have hb1 : (BitVec.ofNat 8 (0x80 + n / 0x1000 % 0x40)).toNat = 0x80 + n / 0x1000 % 0x40 := ofNat8_toNat _ (by omega)
        have hb2 : (BitVec.ofNat 8 (0x80 + n / 0x40 % 0x40)).toNat = 0x80 + n / 0x40 % 0x40 := ofNat8_toNat _ (by omega)
        have hb3 : (BitVec.ofNat 8 (0x80 + n % 0x40)).toNat = 0x80 + n % 0x40 := ofNat8_toNat _ (by omega)
        rw [decode4 _ _ _ _ _ (by rw [hb0]; omega) (by rw [hb1]; omega) (by rw [hb2]; omega) (by rw [hb3]; omega),
          hb0, hb1, hb2, hb3, hcn]
        congr 3; omega

-- ------------------------------------------------------------------ UTF-16 units

/-- the code units `read_utf16_string_literal` stores are those of RFC 2781 -/
theorem utf16_toNat (c : BitVec 32) (hc : c.toNat < 0x110000) :
    (utf16Units c).map BitVec.toNat = utf16 c.toNat := by
  unfold utf16Units utf16
  simp only [BitVec.lt_def, BitVec.toNat_ofNat, Nat.reducePow, Nat.reduceMod]
  by_cases h : c.toNat < 65536
  · simp only [h, if_true, List.map, BitVec.toNat_setWidth, List.cons.injEq, and_true]
    omega
  · have hsub : (c - 65536#32).toNat = c.toNat - 65536 := by
      rw [BitVec.toNat_sub_of_le (by simp [BitVec.le_def]; omega)]; simp
    simp only [h, if_false]
    simp only [List.map]
    simp only [BitVec.toNat_setWidth]
    simp only [BitVec.toNat_add, BitVec.toNat_and]
    simp only [BitVec.toNat_ushiftRight, hsub, BitVec.toNat_ofNat, Nat.shiftRight_eq_div_pow]
    simp only [Nat.reducePow, Nat.reduceMod]
    simp only [and_1023, List.cons.injEq, and_true]
    constructor <;> omega

-- ------------------------------------------------------------------ convert_pp_int type ladder

/-- truth value of `val >> k` for `int64_t val` (arithmetic shift) -/
theorem sshr_ne_zero (v : BitVec 64) (k : Nat) (hk : k < 64) : (v.sshiftRight k ≠ 0#64) ↔ v.toNat ≥ 2 ^ k := by
  cases hm : v.msb
  · rw [BitVec.sshiftRight_eq_of_msb_false hm]
    have hlt : v.toNat < 2 ^ 63 := by
      have := BitVec.msb_eq_decide v; rw [hm] at this; simp at this; omega
    rw [Ne, ← BitVec.toNat_inj, BitVec.toNat_ushiftRight, Nat.shiftRight_eq_div_pow]
    simp only [BitVec.toNat_ofNat, Nat.zero_mod]
    have hp : 0 < 2 ^ k := Nat.two_pow_pos k
    rw [Nat.div_eq_zero_iff]
    omega
  · have hge : v.toNat ≥ 2 ^ 63 := by
      have := BitVec.msb_eq_decide v; rw [hm] at this; simp at this; omega
    have hle : 2 ^ k ≤ 2 ^ 63 := Nat.pow_le_pow_right (by decide) (by omega)
    constructor
    · intro _; omega
    · intro _ h0
      have := BitVec.msb_sshiftRight (x := v) (n := k)
      rw [h0, hm] at this
      simp at this

/-- the ladder of `convert_pp_int` picks the first type of the 6.4.4.1p5 list that represents the value -/
theorem ladder_spec (base : Nat) (hb : base = 2 ∨ base = 8 ∨ base = 10 ∨ base = 16) (s : Suffix) (v : BitVec 64) (t : IntType)
    (h : litType (base == 10) s v.toNat = some t) : intLitType base s.hasL s.hasU v = collapse t := by
  have hv := v.isLt
  have e31 := sshr_ne_zero v 31 (by decide)
  have e32 := sshr_ne_zero v 32 (by decide)
  have e63 := sshr_ne_zero v 63 (by decide)
  unfold intLitType
  simp only [e31, e32, e63]
  by_cases h31 : v.toNat < 2^31
  · have h32 : v.toNat < 2^32 := by omega
    have h63 : v.toNat < 2^63 := by omega
    have n31 : ¬ v.toNat ≥ 2^31 := by omega
    have n32 : ¬ v.toNat ≥ 2^32 := by omega
    have n63 : ¬ v.toNat ≥ 2^63 := by omega
    rcases hb with rfl | rfl | rfl | rfl <;> cases s <;>
      simp [litType, candidates, IntType.represents, IntType.isSigned, IntType.bits, Suffix.hasL, Suffix.hasU,
        h31, h32, h63, hv, n31, n32, n63] at h ⊢ <;> subst h <;> rfl
  · have n31 : v.toNat ≥ 2^31 := by omega
    by_cases h32 : v.toNat < 2^32
    · have h63 : v.toNat < 2^63 := by omega
      have n32 : ¬ v.toNat ≥ 2^32 := by omega
      have n63 : ¬ v.toNat ≥ 2^63 := by omega
      rcases hb with rfl | rfl | rfl | rfl <;> cases s <;>
        simp [litType, candidates, IntType.represents, IntType.isSigned, IntType.bits, Suffix.hasL, Suffix.hasU,
          h31, h32, h63, hv, n31, n32, n63] at h ⊢ <;> subst h <;> rfl
    · have n32 : v.toNat ≥ 2^32 := by omega
      by_cases h63 : v.toNat < 2^63
      · have n63 : ¬ v.toNat ≥ 2^63 := by omega
        rcases hb with rfl | rfl | rfl | rfl <;> cases s <;>
          simp [litType, candidates, IntType.represents, IntType.isSigned, IntType.bits, Suffix.hasL, Suffix.hasU,
            h31, h32, h63, hv, n31, n32, n63] at h ⊢ <;> subst h <;> rfl
      · have n63 : v.toNat ≥ 2^63 := by omega
        rcases hb with rfl | rfl | rfl | rfl <;> cases s <;>
          simp [litType, candidates, IntType.represents, IntType.isSigned, IntType.bits, Suffix.hasL, Suffix.hasU,
            h31, h32, h63, hv, n32, n63] at h ⊢ <;> subst h <;> rfl

-- ------------------------------------------------------------------ identifier ranges (Annex D)
-- Both sides are unions of closed ranges, hence constant between consecutive range endpoints:
-- comparing them at every endpoint (kernel evaluation) decides them for every `c : Nat`.

/-- greatest element of `es` that is `≤ c`, or `m` -/
def floorFrom (c : Nat) : Nat → List Nat → Nat
  | m, [] => m
  | m, e :: es => floorFrom c (if e ≤ c ∧ m ≤ e then e else m) es

theorem floorFrom_spec (c : Nat) : ∀ (es : List Nat) (m : Nat), m ≤ c →
    floorFrom c m es ≤ c ∧ m ≤ floorFrom c m es ∧ (∀ e ∈ es, e ≤ c → e ≤ floorFrom c m es) ∧
    (floorFrom c m es = m ∨ floorFrom c m es ∈ es) := by
  intro es
  induction es with
  | nil => intro m hm; simp [floorFrom, hm]
  | cons e es ih =>
    intro m hm
    by_cases h : e ≤ c ∧ m ≤ e
    · have := ih e h.1
      simp only [floorFrom, h, and_self, if_true]
      refine ⟨this.1, by omega, ?_, ?_⟩
      · intro x hx hxc
        rcases List.mem_cons.mp hx with rfl | hx
        · exact this.2.1
        · exact this.2.2.1 x hx hxc
      · rcases this.2.2.2 with h1 | h1
        · right; rw [h1]; exact List.mem_cons_self
        · right; exact List.mem_cons_of_mem _ h1
    · have := ih m hm
      simp only [floorFrom, h, if_false]
      refine ⟨this.1, this.2.1, ?_, ?_⟩
      · intro x hx hxc
        rcases List.mem_cons.mp hx with rfl | hx
        · have := this.2.1; omega
        · exact this.2.2.1 x hx hxc
      · rcases this.2.2.2 with h1 | h1
        · left; exact h1
        · right; exact List.mem_cons_of_mem _ h1

def anyIn (t : List (Nat × Nat)) (c : Nat) : Bool := t.any (fun r => decide (r.1 ≤ c) && decide (c ≤ r.2))

theorem anyIn_floor (es : List Nat) (c : Nat) : ∀ (t : List (Nat × Nat)), (∀ r ∈ t, r.1 ∈ es ∧ r.2 + 1 ∈ es) →
    anyIn t c = anyIn t (floorFrom c 0 es) := by
  have sp := floorFrom_spec c es 0 (Nat.zero_le _)
  intro t
  induction t with
  | nil => intro _; rfl
  | cons r t ih =>
    intro h
    have hr := h r List.mem_cons_self
    have ih' := ih (fun x hx => h x (List.mem_cons_of_mem _ hx))
    have e1 : decide (r.1 ≤ c) = decide (r.1 ≤ floorFrom c 0 es) := by
      have := sp.2.2.1 r.1 hr.1
      apply decide_eq_decide.mpr; constructor <;> intro _ <;> omega
    have e2 : decide (c ≤ r.2) = decide (floorFrom c 0 es ≤ r.2) := by
      have := sp.2.2.1 (r.2 + 1) hr.2
      apply decide_eq_decide.mpr; constructor <;> intro _ <;> omega
    simp only [anyIn, List.any_cons] at ih' ⊢
    rw [e1, e2, ih']

def endpointsOf (t : List (Nat × Nat)) : List Nat := t.flatMap (fun r => [r.1, r.2 + 1])

def allEndpoints : List Nat :=
  endpointsOf (ident1Ranges ++ ident2Ranges ++ annexD1 ++ annexD2 ++ basicNondigit ++ [(0x30, 0x39)])

theorem ident_at_endpoints : ∀ a ∈ 0 :: allEndpoints, isIdent1 a = identStart a ∧ isIdent2 a = identContinue a := by
  decide +kernel

theorem tables_in_endpoints :
    ∀ t ∈ [ident1Ranges, ident2Ranges, annexD1, annexD2, basicNondigit, [(0x30, 0x39)]],
      ∀ r ∈ t, r.1 ∈ allEndpoints ∧ r.2 + 1 ∈ allEndpoints := by
  decide +kernel

theorem ident_ranges (c : Nat) : isIdent1 c = identStart c ∧ isIdent2 c = identContinue c := by
  have sp := floorFrom_spec c allEndpoints 0 (Nat.zero_le _)
  have hmem : floorFrom c 0 allEndpoints ∈ 0 :: allEndpoints := by
    rcases sp.2.2.2 with h | h
    · rw [h]; exact List.mem_cons_self
    · exact List.mem_cons_of_mem _ h
  have key := ident_at_endpoints _ hmem
  have f := fun t ht => anyIn_floor allEndpoints c t (tables_in_endpoints t ht)
  have f1 := f ident1Ranges (by simp)
  have f2 := f ident2Ranges (by simp)
  have f3 := f annexD1 (by simp)
  have f4 := f annexD2 (by simp)
  have f5 := f basicNondigit (by simp)
  have f6 := f [(0x30, 0x39)] (by simp)
  simp only [isIdent1, isIdent2, identStart, identContinue, isBasicNondigit, isDigit, inRange, inRanges] at key ⊢
  simp only [anyIn] at f1 f2 f3 f4 f5 f6
  rw [f1, f2, f3, f4, f5, f6]
  exact key

end ChibiVerif.Lemmas.Literals
