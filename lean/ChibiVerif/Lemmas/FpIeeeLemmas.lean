/-
C02 without an `FpuSpec`: the IEEE-754 binary32 / binary64 and x87 double-extended *bit layouts* themselves (Spec/FpuSpec.lean,
namespace `Ieee`: `decode32/64/80`, and the encoders `ofInt32/64/80` that `drv_c02 contract` compares bit for bit with what
`cvtsi2ss/sd` and `fild` produce on the host CPU) satisfy the integer contracts: decoding the encoding of an integer of
magnitude ≤ 2^64 gives that integer rounded to nearest-even to 24 / 53 / 64 significant bits; exactly the integer when it has
that few bits.  Pure `Nat`/`Int` arithmetic over the layouts; no assumption about any FPU.
-/
import ChibiVerif.Lemmas.FpRoundLemmas
namespace ChibiVerif.Spec.Fpu.Ieee
open ChibiVerif.Spec.Fpu

/-- the significand `encodeNat` stores for m ≠ 0: m shifted so that its leading bit is bit t -/
def sigOf (t m : Nat) : Nat :=
  if bitLen m ≤ t + 1 then m * 2 ^ (t + 1 - bitLen m) else m / 2 ^ (bitLen m - (t + 1))

theorem sigOf_bounds (t m : Nat) (hm : m ≠ 0) : 2 ^ t ≤ sigOf t m ∧ sigOf t m < 2 ^ (t + 1) := by
  have h1 := bitLen_pos_le m hm
  have h2 := bitLen_lt' m
  have hb : 1 ≤ bitLen m := by unfold bitLen; simp [hm]
  unfold sigOf
  split
  · rename_i hle
    constructor
    · have : 2 ^ t = 2 ^ (bitLen m - 1) * 2 ^ (t + 1 - bitLen m) := by
        rw [← Nat.pow_add]; congr 1; omega
      rw [this]; exact Nat.mul_le_mul_right _ h1
    · have : 2 ^ (t + 1) = 2 ^ bitLen m * 2 ^ (t + 1 - bitLen m) := by
        rw [← Nat.pow_add]; congr 1; omega
      rw [this]; exact Nat.mul_lt_mul_of_pos_right h2 (Nat.two_pow_pos _)
  · rename_i hgt
    have hk : bitLen m - (t + 1) + (t + 1) = bitLen m := by omega
    constructor
    · have : 2 ^ t = 2 ^ (bitLen m - 1) / 2 ^ (bitLen m - (t + 1)) := by
        rw [Nat.pow_div (by omega) (by omega)]; congr 1; omega
      rw [this]; exact Nat.div_le_div_right h1
    · rw [Nat.div_lt_iff_lt_mul (Nat.two_pow_pos _), ← Nat.pow_add]
      have : t + 1 + (bitLen m - (t + 1)) = bitLen m := by omega
      rw [this]; exact h2

/-- the decoded datum (sign, sigOf, bitLen − 1 − t) denotes ±m when the bits shifted out are zero -/
theorem sigOf_toInt (t m : Nat) (neg : Bool) (hm : m ≠ 0) (hdvd : 2 ^ (bitLen m - (t + 1)) ∣ m) :
    (Val.fin neg (sigOf t m) ((bitLen m : Int) - 1 - t)).toInt? = some (if neg then -(m : Int) else (m : Int)) := by
  have hb : 1 ≤ bitLen m := by unfold bitLen; simp [hm]
  simp only [Val.toInt?, Val.magTrunc]
  by_cases hle : bitLen m ≤ t + 1
  · by_cases heq : bitLen m = t + 1
    · have e0 : ((bitLen m : Int) - 1 - t) = 0 := by omega
      simp [sigOf, heq]
    · have hneg : ¬ (0 ≤ ((bitLen m : Int) - 1 - t)) := by omega
      have hk : (-((bitLen m : Int) - 1 - t)).toNat = t + 1 - bitLen m := by omega
      have hs : sigOf t m = m * 2 ^ (t + 1 - bitLen m) := by simp [sigOf, hle]
      rw [hk, hs, Nat.mul_mod_left]
      simp only [hneg, false_or, if_true, if_false, Nat.mul_div_cancel _ (Nat.two_pow_pos _)]
  · have hpos : 0 ≤ ((bitLen m : Int) - 1 - t) := by omega
    have hk : ((bitLen m : Int) - 1 - t).toNat = bitLen m - (t + 1) := by omega
    have hs : sigOf t m = m / 2 ^ (bitLen m - (t + 1)) := by simp [sigOf, hle]
    simp only [hpos, true_or, if_true, hk, hs, Nat.div_mul_cancel hdvd]


/-! ### decoding the assembled fields -/

theorem decodeIeee_of_fields (w t B E F : Nat) (neg : Bool) (hex : B / 2 ^ t % 2 ^ w = E) (hfr : B % 2 ^ t = F)
    (hsg : decide (B / 2 ^ (t + w) % 2 = 1) = neg) (hE0 : E ≠ 0) (hE1 : E ≠ 2 ^ w - 1) :
    decodeIeee w t B = .fin neg (2 ^ t + F) ((E : Int) - ((2 : Int) ^ (w - 1) - 1) - t) := by
  simp only [decodeIeee, hex, hfr, hsg, hE0, hE1, if_false]

theorem decode_fields32 (neg : Bool) (E F : Nat) (hE : 0 < E) (hE2 : E < 255) (hF : F < 2 ^ 23) :
    decodeIeee 8 23 ((if neg then 2 ^ (8 + 23) else 0) + E * 2 ^ 23 + F) = .fin neg (2 ^ 23 + F) ((E : Int) - 127 - 23) := by
  have := decodeIeee_of_fields 8 23 ((if neg then 2 ^ (8 + 23) else 0) + E * 2 ^ 23 + F) E F neg
    (by cases neg <;> simp <;> omega) (by cases neg <;> simp <;> omega) (by cases neg <;> simp <;> omega) (by omega) (by omega)
  simpa using this

theorem decode_fields64 (neg : Bool) (E F : Nat) (hE : 0 < E) (hE2 : E < 2047) (hF : F < 2 ^ 52) :
    decodeIeee 11 52 ((if neg then 2 ^ (11 + 52) else 0) + E * 2 ^ 52 + F) = .fin neg (2 ^ 52 + F) ((E : Int) - 1023 - 52) := by
  have := decodeIeee_of_fields 11 52 ((if neg then 2 ^ (11 + 52) else 0) + E * 2 ^ 52 + F) E F neg
    (by cases neg <;> simp <;> omega) (by cases neg <;> simp <;> omega) (by cases neg <;> simp <;> omega) (by omega) (by omega)
  simpa using this


theorem decode80_of_fields (neg : Bool) (E S : Nat) (hE : 0 < E) (hE2 : E < 32767) (hS1 : 2 ^ 63 ≤ S) (hS2 : S < 2 ^ 64) :
    decode80 (BitVec.ofNat 80 ((if neg then 2 ^ 79 else 0) + E * 2 ^ 64 + S)) = .fin neg S ((E : Int) - 16383 - 63) := by
  have hlt : (if neg then 2 ^ 79 else 0) + E * 2 ^ 64 + S < 2 ^ 80 := by cases neg <;> simp <;> omega
  have h1 : ((if neg then 2 ^ 79 else 0) + E * 2 ^ 64 + S) % 2 ^ 64 = S := by cases neg <;> simp <;> omega
  have h2 : ((if neg then 2 ^ 79 else 0) + E * 2 ^ 64 + S) / 2 ^ 64 % 2 ^ 15 = E := by cases neg <;> simp <;> omega
  have h3 : decide (((if neg then 2 ^ 79 else 0) + E * 2 ^ 64 + S) / 2 ^ 79 % 2 = 1) = neg := by cases neg <;> simp <;> omega
  have hE' : E ≠ 32767 := by omega
  have hE0 : E ≠ 0 := by omega
  have hS : ¬ S < 2 ^ 63 := by omega
  simp only [decode80, BitVec.toNat_ofNat, Nat.mod_eq_of_lt hlt, h1, h2, h3, hE', hE0, hS, if_false]

/-- the rounded integer has no non-zero bit below its top `p` bits -/
theorem roundNat_dvd (p k : Nat) (hp : 1 ≤ p) : 2 ^ (bitLen (roundNat p k) - p) ∣ roundNat p k := by
  have hq := roundQS_fst_le p k
  unfold roundNat
  generalize (roundQS p k).1 = q at *
  generalize (roundQS p k).2 = s at *
  by_cases h0 : q = 0
  · subst h0; simp
  rw [bitLen_mul_pow q s h0]
  have hq1 := bitLen_pos_le q h0
  by_cases hk : bitLen q + s - p ≤ s
  · exact Nat.dvd_trans (Nat.pow_dvd_pow 2 hk) (Nat.dvd_mul_left _ _)
  · have hblq : bitLen q ≤ p + 1 := by
      by_cases hle : bitLen q ≤ p + 1
      · exact hle
      · have : 2 ^ (p + 1) ≤ 2 ^ (bitLen q - 1) := Nat.pow_le_pow_right (by omega) (by omega)
        have : (2:Nat) ^ p < 2 ^ (p + 1) := Nat.pow_lt_pow_right (by omega) (by omega)
        omega
    have hbq : bitLen q = p + 1 := by omega
    have : 2 ^ p ≤ q := by rw [hbq] at hq1; simpa using hq1
    have hqe : q = 2 ^ p := by omega
    have hk2 : bitLen q + s - p = s + 1 := by omega
    have hqs : q * 2 ^ s = 2 ^ (p + s) := by rw [hqe, Nat.pow_add]
    rw [hk2, hqs]
    exact Nat.pow_dvd_pow 2 (by omega)

theorem bitLen_le_of_le (m : Nat) (h : m ≤ 2 ^ 64) : bitLen m ≤ 65 := by
  unfold bitLen
  split
  · omega
  · rename_i h0
    have := (Nat.log2_lt h0).2 (show m < 2 ^ 65 by omega)
    omega

theorem roundInt_of_nat (p : Nat) (n : Int) :
    roundInt p n = (if decide (n < 0) = true then -(roundNat p n.natAbs : Int) else (roundNat p n.natAbs : Int)) := by
  simp [roundInt]

theorem toInt_zero (neg : Bool) (e : Int) : (Val.fin neg 0 e).toInt? = some (if neg = true then -((0 : Nat) : Int) else ((0 : Nat) : Int)) := by
  cases neg <;> simp [Val.toInt?, Val.magTrunc]

/-- **binary32**: decoding the encoding of an integer of magnitude ≤ 2^64 gives the integer rounded to 24 bits -/
theorem decode_ofInt32 (n : Int) (h : n.natAbs ≤ 2 ^ 64) : (decode32 (ofInt32 n)).toInt? = some (roundInt 24 n) := by
  have hm := roundNat_le64 24 n.natAbs (by decide) (by decide) h
  have hdvd := roundNat_dvd 24 n.natAbs (by decide)
  rw [roundInt_of_nat]
  simp only [decode32, ofInt32, encodeNat]
  generalize roundNat 24 n.natAbs = m at *
  generalize decide (n < 0) = neg
  by_cases h0 : m = 0
  · subst h0; cases neg <;> decide
  · have hl := bitLen_le_of_le m hm
    have hb : 1 ≤ bitLen m := by unfold bitLen; simp [h0]
    obtain ⟨s1, s2⟩ := sigOf_bounds 23 m h0
    have hsig : (if bitLen m ≤ 23 + 1 then m * 2 ^ (23 + 1 - bitLen m) else m / 2 ^ (bitLen m - (23 + 1))) = sigOf 23 m := rfl
    simp only [h0, if_false, hsig]
    have hlt : (if neg = true then 2 ^ (8 + 23) else 0) + (bitLen m - 1 + (2 ^ (8 - 1) - 1)) * 2 ^ 23 + (sigOf 23 m - 2 ^ 23) < 2 ^ 32 := by
      cases neg <;> simp <;> omega
    rw [BitVec.toNat_ofNat, Nat.mod_eq_of_lt hlt, decode_fields32 neg _ _ (by omega) (by omega) (by omega)]
    have e1 : 2 ^ 23 + (sigOf 23 m - 2 ^ 23) = sigOf 23 m := by omega
    have e2 : (((bitLen m - 1 + (2 ^ (8 - 1) - 1) : Nat) : Int) - 127 - 23) = (bitLen m : Int) - 1 - (23 : Nat) := by omega
    rw [e1, e2]
    exact sigOf_toInt 23 m neg h0 hdvd

/-- **binary64** -/
theorem decode_ofInt64 (n : Int) (h : n.natAbs ≤ 2 ^ 64) : (decode64 (ofInt64 n)).toInt? = some (roundInt 53 n) := by
  have hm := roundNat_le64 53 n.natAbs (by decide) (by decide) h
  have hdvd := roundNat_dvd 53 n.natAbs (by decide)
  rw [roundInt_of_nat]
  simp only [decode64, ofInt64, encodeNat]
  generalize roundNat 53 n.natAbs = m at *
  generalize decide (n < 0) = neg
  by_cases h0 : m = 0
  · subst h0
    have : decodeIeee 11 52 (BitVec.ofNat 64 (if neg = true then 2 ^ (11 + 52) else 0)).toNat = .fin neg 0 (1 - 1023 - 52) := by
      cases neg <;> simp [decodeIeee]
    simp only [if_true, this]
    exact toInt_zero neg _
  · have hl := bitLen_le_of_le m hm
    have hb : 1 ≤ bitLen m := by unfold bitLen; simp [h0]
    obtain ⟨s1, s2⟩ := sigOf_bounds 52 m h0
    have hsig : (if bitLen m ≤ 52 + 1 then m * 2 ^ (52 + 1 - bitLen m) else m / 2 ^ (bitLen m - (52 + 1))) = sigOf 52 m := rfl
    simp only [h0, if_false, hsig]
    have hlt : (if neg = true then 2 ^ (11 + 52) else 0) + (bitLen m - 1 + (2 ^ (11 - 1) - 1)) * 2 ^ 52 + (sigOf 52 m - 2 ^ 52) < 2 ^ 64 := by
      cases neg <;> simp <;> omega
    rw [BitVec.toNat_ofNat, Nat.mod_eq_of_lt hlt, decode_fields64 neg _ _ (by omega) (by omega) (by omega)]
    have e1 : 2 ^ 52 + (sigOf 52 m - 2 ^ 52) = sigOf 52 m := by omega
    have e2 : (((bitLen m - 1 + (2 ^ (11 - 1) - 1) : Nat) : Int) - 1023 - 52) = (bitLen m : Int) - 1 - (52 : Nat) := by omega
    rw [e1, e2]
    exact sigOf_toInt 52 m neg h0 hdvd

/-- **x87 double extended** -/
theorem decode_ofInt80 (n : Int) (h : n.natAbs ≤ 2 ^ 64) : (decode80 (ofInt80 n)).toInt? = some (roundInt 64 n) := by
  have hm := roundNat_le64 64 n.natAbs (by decide) (by decide) h
  have hdvd := roundNat_dvd 64 n.natAbs (by decide)
  rw [roundInt_of_nat]
  simp only [ofInt80, encodeNat80]
  generalize roundNat 64 n.natAbs = m at *
  generalize decide (n < 0) = neg
  by_cases h0 : m = 0
  · subst h0
    have : decode80 (BitVec.ofNat 80 (if neg = true then 2 ^ 79 else 0)) = .fin neg 0 (1 - 16383 - 63) := by
      cases neg <;> simp [decode80]
    simp only [if_true, this]
    exact toInt_zero neg _
  · have hl := bitLen_le_of_le m hm
    have hb : 1 ≤ bitLen m := by unfold bitLen; simp [h0]
    obtain ⟨s1, s2⟩ := sigOf_bounds 63 m h0
    have hsig : (if bitLen m ≤ 64 then m * 2 ^ (64 - bitLen m) else m / 2 ^ (bitLen m - 64)) = sigOf 63 m := rfl
    simp only [h0, if_false, hsig]
    rw [decode80_of_fields neg _ _ (by omega) (by omega) s1 s2]
    have e2 : (((bitLen m - 1 + 16383 : Nat) : Int) - 16383 - 63) = (bitLen m : Int) - 1 - (63 : Nat) := by omega
    rw [e2]
    exact sigOf_toInt 63 m neg h0 hdvd


/-- an integer with at most `p` significant bits (|n| ≤ 2^p) is its own rounding -/
theorem roundInt_exact (p : Nat) (n : Int) (hp : 1 ≤ p) (h : n.natAbs ≤ 2 ^ p) : roundInt p n = n := by
  have e := roundNat_exact p n.natAbs 0 hp h
  simp only [Nat.pow_zero, Nat.mul_one] at e
  simp only [roundInt, e]
  split <;> omega

/-- `cvtt*2si` / `fistp` of a datum that denotes an integer in range returns that integer -/
theorem truncTo_of_toInt (w : Nat) (v : Val) (i : Int) (h : v.toInt? = some i)
    (lo : -(2 ^ (w - 1) : Int) ≤ i) (hi : i < 2 ^ (w - 1)) : truncTo w v = BitVec.ofInt w i := by
  have ht : v.trunc? = some i := by
    cases v with
    | nan => simp [Val.toInt?] at h
    | inf n => simp [Val.toInt?] at h
    | fin n m e =>
      simp only [Val.toInt?] at h
      split at h
      · simpa [Val.trunc?] using h
      · simp at h
  simp [truncTo, ht, lo, hi]

end ChibiVerif.Spec.Fpu.Ieee
