/-
C05, parser = specification: the simulation step for `designation` and `initializer2`, and the induction.
-/
import ChibiVerif.Lemmas.InitSimRange

namespace ChibiVerif.InitSpec
open ChibiVerif.Init

/-- `[a]` / `[a ... b]` in `designation` -/
theorem sim_desg_bracket {f : Nat} (ih : Sim f) {root : Ty} {top : Bool} {obj : Init} {p : List Nat} {elem : Ty} {len : Nat}
    {cs : List Init} {toks : List ITok} {c' : Init} {toks' : List ITok} (hA : At root top obj p (.array elem len) (.arr cs))
    (h : (arrayDesignator cs.length toks >>= fun x =>
        (List.range' x.1 (x.2.1 + 1 - x.1)).foldlM (fun (acc : Init × List ITok) i =>
            getChild acc.1.children i >>= fun c => designation f elem x.2.2 c >>= fun y =>
              (pure (acc.1.setChild i y.1, y.2) : Except Fail (Init × List ITok))) (Init.arr cs, x.2.2) >>= fun z =>
          arrayInit2 f elem z.2 z.1 (x.2.1 + 1)) = .ok (c', toks')) :
    shaped (.array elem len) c' = true ∧ ∀ g d fl, ∃ g',
      Imp (afterDesg g root top obj fl (desigPaths root top d [p] toks)) (After root top obj p c' toks' fl g') := by
  obtain ⟨⟨b, e, tok⟩, had, h⟩ := bind_eq_ok h
  obtain ⟨⟨c1, tok2⟩, hfold, h⟩ := bind_eq_ok h
  simp only at hfold h
  have harr2 : arrayInit2 f elem tok2 c1 (e + 1) = .ok (c', toks') := h
  have hs : shaped (.array elem len) (.arr cs) = true := hA.shapedc
  have hlen : cs.length = len := by
    obtain ⟨cs', h1, h2, _⟩ := arr_of_shaped hs
    cases h1; exact h2
  have hs1 : shaped (.array elem len) c1 = true :=
    foldlM_inv (P := fun acc => shaped (.array elem len) acc.1 = true)
      (fun acc j acc' hh hp => desgStep_shape ih hA.ok tok acc j acc' hh hp) _ _ _ hfold hs
  obtain ⟨hs', _⟩ := ih.arr2 (top := top) (At.root hA.ok hs1) (Nat.succ_pos e) h
  refine ⟨hs', fun g d fl => ?_⟩
  cases d with
  | zero => exact ⟨0, Imp.of_error rfl⟩
  | succ d =>
    have single : ∀ (a : Int), 0 ≤ a → a < len → b = a.toNat → e = a.toNat →
        ∃ g', Imp (afterDesg g root top obj fl (desigPaths root top d [p ++ [a.toNat]] tok))
          (After root top obj p c' toks' fl g') := by
      intro a h0 h1 hb he
      subst hb he
      rw [range'_one _ _ rfl] at hfold
      have hstep := foldlM_single hfold
      obtain ⟨ca, hca, hstep⟩ := bind_eq_ok hstep
      obtain ⟨⟨ca', t2⟩, hd, hstep⟩ := bind_eq_ok hstep
      cases hstep
      have hk : (Init.arr cs).children[a.toNat]? = some ca := getChild_ok hca
      have hAa := hA.child (childTy_arr elem len a.toNat) hk
      obtain ⟨hsa, himp1⟩ := ih.desg (top := top) hAa hd
      obtain ⟨e1, hA1, hM1⟩ := hA.set_child (childTy_arr elem len a.toNat) hk hsa
      rw [setAtM_one_arr] at hA1 hM1 e1
      obtain ⟨_, himp2⟩ := ih.arr2 (top := top) hA1 (Nat.succ_pos a.toNat) h
      obtain ⟨g1, h1'⟩ := himp1 g d fl
      obtain ⟨g2, h2⟩ := himp2 hM1 g1 fl
      refine ⟨g2, ?_⟩
      simp only [After] at h1' h2 ⊢
      rw [List.reverse_append, List.reverse_singleton, List.singleton_append, next_snoc] at h1'
      have e3 : setAtM (setAtM obj (p ++ [a.toNat]) ca') p c' = setAtM obj p c' := by rw [e1, setAtM_over hA]
      rw [e3] at h2
      exact h1'.trans h2
    have hg := growable_false (top := top) hA
    rcases arrayDesignator_ok had with ⟨a, rfl, h0, h1, hb, he⟩ | ⟨a, a2, rfl, h0, h1, h2, hb, he⟩
    · rw [hlen] at h1
      rw [desigPaths_idx_arr _ _ hA.sub hg h0 h1]
      exact single a h0 h1 hb he
    · rw [hlen] at h2
      rw [desigPaths_range_arr _ _ hA.sub hg h0 h1 h2]
      by_cases heq : a2 = a
      · subst heq
        have : a2.toNat + 1 - a2.toNat = 1 := by omega
        simp only [this, List.range'_one, List.map_cons, List.map_nil]
        exact single a2 h0 h2 hb he
      · subst hb he
        have hA1 := hA.set hs1
        obtain ⟨_, himp2⟩ := ih.arr2 (top := top) hA1 (Nat.succ_pos a2.toNat) harr2
        obtain ⟨g2, h2'⟩ := himp2 (hA.marked_set c1) g fl
        refine ⟨g2, fun res hres hcl => ?_⟩
        have hrw := range_whole ih hA a.toNat (a2.toNat + 1 - a.toNat) (by omega) (by omega) tok c1 tok2 hfold
          g d fl res hres hcl
        have hidx : a.toNat + (a2.toNat + 1 - a.toNat) = a2.toNat + 1 := by omega
        rw [hidx] at hrw
        have := h2' res hrw hcl
        simp only [After] at this ⊢
        rw [setAtM_over hA] at this
        exact this


theorem sim_desg {f : Nat} (ih : Sim f) : DesgSt (f+1) := by
  intro root top obj p ty c toks c' toks' hA h
  unfold designation at h
  split at h
  ·
    cases ty with
    | scalar => simp [Ty.elem?] at h
    | struct => simp [Ty.elem?] at h
    | union => simp [Ty.elem?] at h
    | inc => have := hA.ok; simp [subOk] at this
    | array elem len =>
      obtain ⟨cs, rfl, _, _⟩ := arr_of_shaped hA.shapedc
      simp only [Ty.elem?] at h
      exact sim_desg_bracket ih hA h
  ·
    cases ty with
    | scalar => simp [Ty.elem?] at h
    | struct => simp [Ty.elem?] at h
    | union => simp [Ty.elem?] at h
    | inc => have := hA.ok; simp [subOk] at this
    | array elem len =>
      obtain ⟨cs, rfl, _, _⟩ := arr_of_shaped hA.shapedc
      simp only [Ty.elem?] at h
      exact sim_desg_bracket ih hA h
  · -- `.name`
    rename_i name r
    cases ty with
    | scalar => cases h
    | array => cases h
    | inc => cases h
    | struct ms sz fl0 =>
      obtain ⟨e, cs, rfl, hms⟩ := struct_of_shaped hA.shapedc
      simp only at h
      obtain ⟨⟨k, anon⟩, hsd, h⟩ := bind_eq_ok h
      obtain ⟨mty, hmty, h⟩ := bind_eq_ok h
      obtain ⟨ck, hck, h⟩ := bind_eq_ok h
      obtain ⟨⟨ck', tok2⟩, hd, h⟩ := bind_eq_ok h
      simp only at hmty hck hd h
      obtain ⟨mi, hm⟩ := memTy_ok hmty
      have hk : (Init.struct e cs).children[k]? = some ck := getChild_ok hck
      have hAk := hA.child (childTy_struct hm) hk
      obtain ⟨hsk, himp1⟩ := ih.desg (top := top) hAk hd
      obtain ⟨e1, hA1, hM1⟩ := hA.set_child (childTy_struct hm) hk hsk
      have e2 : setAtM (Init.struct e cs) [k] ck' = ((Init.struct e cs).setChild k ck').setExpr none := by
        simp [setAtM, Init.setChild, Init.withChildren, Init.children, Init.setExpr]
      rw [e2] at hA1 hM1 e1
      obtain ⟨hs', himp2⟩ := ih.struct2 (top := top) hA1 h
      refine ⟨hs', fun g d fl => ?_⟩
      cases d with
      | zero => exact ⟨0, Imp.of_error rfl⟩
      | succ d =>
        obtain ⟨j, mi', t', hkj, hmj, hcase⟩ := structDesignator_spec name ms 0 k anon hsd
        have hkj' : k = j := by omega
        subst hkj'
        rw [hm] at hmj
        cases hmj
        have fin : ∀ g1, Imp (afterDesg g root top obj fl (desigPaths root top (d + 1) [p] (.dot name :: r)))
            (After root top obj (p ++ [k]) ck' tok2 fl g1) → ∃ g', Imp
              (afterDesg g root top obj fl (desigPaths root top (d + 1) [p] (.dot name :: r)))
              (After root top obj p c' toks' fl g') := by
          intro g1 h1
          obtain ⟨g2, h2⟩ := himp2 hM1 (by simp [Init.setExpr, Init.setChild, Init.withChildren, hasAggExpr]) g1 fl
          refine ⟨g2, ?_⟩
          simp only [After] at h1 h2 ⊢
          rw [List.reverse_append, List.reverse_singleton, List.singleton_append, next_snoc] at h1
          have e3 : setAtM (setAtM obj (p ++ [k]) ck') p c' = setAtM obj p c' := by rw [e1, setAtM_over hA]
          rw [e3] at h2
          exact h1.trans h2
        rcases hcase with ⟨ha, hfm⟩ | ⟨ha, hagg, mp, hfm1, hfm⟩
        · subst ha
          obtain ⟨g1, h1⟩ := himp1 g d fl
          simp only [Bool.false_eq_true, ↓reduceIte] at h1
          rw [← desigPaths_dot (p := p) (t := .struct ms sz fl0) d r hA.sub (by rw [findMember]; exact hfm) rfl] at h1
          exact fin g1 h1
        · subst ha
          obtain ⟨g1, h1⟩ := himp1 g (d+1) fl
          simp only [↓reduceIte] at h1
          rw [desigPaths_dot (p := p ++ [k]) d r hAk.sub hfm1 hagg, List.append_assoc, List.singleton_append,
            ← desigPaths_dot (p := p) (t := .struct ms sz fl0) d r hA.sub (by rw [findMember]; exact hfm) rfl] at h1
          exact fin g1 h1
    | union ms sz fl0 =>
      obtain ⟨e, m, cs, rfl, hms⟩ := union_of_shaped hA.shapedc
      simp only at h
      obtain ⟨⟨k, anon⟩, hsd, h⟩ := bind_eq_ok h
      obtain ⟨mty, hmty, h⟩ := bind_eq_ok h
      obtain ⟨ck, hck, h⟩ := bind_eq_ok h
      obtain ⟨⟨ck', tok2⟩, hd, h⟩ := bind_eq_ok h
      cases h
      simp only at hmty hck hd
      obtain ⟨mi, hm⟩ := memTy_ok hmty
      have hk : (Init.union e m cs).children[k]? = some ck := by
        have := getChild_ok hck
        simpa [Init.setMem, Init.children] using this
      have hAk := hA.child (childTy_union hm) hk
      obtain ⟨hsk, himp1⟩ := ih.desg (top := top) hAk hd
      have hs' : shaped (.union ms sz fl0) (((Init.union e m cs).setMem k).setChild k ck') = true := by
        simp only [Init.setMem, Init.setChild, Init.withChildren, Init.children, shaped, Bool.and_eq_true]
        exact ⟨shapedMs_set ms cs k mi mty ck' hms hm hsk, by simp⟩
      refine ⟨hs', fun g d fl => ?_⟩
      cases d with
      | zero => exact ⟨0, Imp.of_error rfl⟩
      | succ d =>
        obtain ⟨j, mi', t', hkj, hmj, hcase⟩ := structDesignator_spec name ms 0 k anon hsd
        have hkj' : k = j := by omega
        subst hkj'
        rw [hm] at hmj
        cases hmj
        cases e with
        | some e0 =>
          refine ⟨0, fun res hres hcl => ?_⟩
          have hx : ∃ s, desigPaths root top (d + 1) [p] (.dot name :: r) = desigPaths root top d [p ++ k :: s] r := by
            rcases hcase with ⟨_, hfm⟩ | ⟨_, _, mp, _, hfm⟩
            · exact ⟨[], desigPaths_dot (p := p) (t := .union ms sz fl0) d r hA.sub (by rw [findMember]; exact hfm) rfl⟩
            · exact ⟨mp, desigPaths_dot (p := p) (t := .union ms sz fl0) d r hA.sub (by rw [findMember]; exact hfm) rfl⟩
          obtain ⟨s, hx⟩ := hx
          rw [hx] at hres
          rw [afterDesg_xover_dirty hA.get rfl hres] at hcl
          cases hcl
        | none =>
          obtain ⟨e1, _, _⟩ := hA.set_child (childTy_union hm) hk hsk
          rw [setAtM_one_union] at e1
          have fin : ∀ g1, Imp (afterDesg g root top obj fl (desigPaths root top (d + 1) [p] (.dot name :: r)))
              (After root top obj (p ++ [k]) ck' tok2 fl g1) → ∃ g', Imp
                (afterDesg g root top obj fl (desigPaths root top (d + 1) [p] (.dot name :: r)))
                (After root top obj p (((Init.union none m cs).setMem k).setChild k ck') tok2 fl g') := by
            intro g1 h1
            refine ⟨g1, ?_⟩
            simp only [After] at h1 ⊢
            rw [List.reverse_append, List.reverse_singleton, List.singleton_append, next_snoc, cursorIn_union hA.sub, e1] at h1
            exact h1
          rcases hcase with ⟨ha, hfm⟩ | ⟨ha, hagg, mp, hfm1, hfm⟩
          · subst ha
            obtain ⟨g1, h1⟩ := himp1 g d fl
            simp only [Bool.false_eq_true, ↓reduceIte] at h1
            rw [← desigPaths_dot (p := p) (t := .union ms sz fl0) d r hA.sub (by rw [findMember]; exact hfm) rfl] at h1
            exact fin g1 h1
          · subst ha
            obtain ⟨g1, h1⟩ := himp1 g (d+1) fl
            simp only [↓reduceIte] at h1
            rw [desigPaths_dot (p := p ++ [k]) d r hAk.sub hfm1 hagg, List.append_assoc, List.singleton_append,
              ← desigPaths_dot (p := p) (t := .union ms sz fl0) d r hA.sub (by rw [findMember]; exact hfm) rfl] at h1
            exact fin g1 h1
  · -- `= initializer`
    rename_i r
    obtain ⟨hs', himp⟩ := ih.init2 (top := top) hA h
    refine ⟨hs', fun g d fl => ?_⟩
    cases d with
    | zero => exact ⟨0, Imp.of_error rfl⟩
    | succ d =>
      obtain ⟨g', h'⟩ := himp g fl
      refine ⟨g', ?_⟩
      rw [desigPaths_eq]
      exact h'
  · -- no (further) designator
    rename_i hn1 hn2 hn3 hn4
    obtain ⟨hs', himp⟩ := ih.init2 (top := top) hA h
    refine ⟨hs', fun g d fl => ?_⟩
    cases d with
    | zero => exact ⟨0, Imp.of_error rfl⟩
    | succ d =>
      obtain ⟨g', h'⟩ := himp g fl
      refine ⟨g', ?_⟩
      have hnd : isDesg toks = false := by
        cases toks with
        | nil => rfl
        | cons t r =>
          cases t <;> first | rfl | exact absurd rfl (hn1 _ _) | exact absurd rfl (hn2 _ _ _) | exact absurd rfl (hn3 _ _)
      rw [desigPaths_plain _ _ _ _ _ hnd (fun r hr => hn4 r hr)]
      exact h'


/-- a string literal for the character array at `p` (p14): the parser's `string_initializer` against the specification's item -/
theorem sim_init2_str {root : Ty} {top : Bool} {obj : Init} {p : List Nat} {elem : Ty} {len : Nat} {c : Init} {id : Nat}
    {bytes : List Nat} {esz : Nat} {r : List ITok} {c' : Init} {toks' : List ITok}
    (hA : At root top obj p (.array elem len) c) (hint : elem.isInteger = true)
    (h : stringInitializer elem bytes esz r c = .ok (c', toks')) :
    shaped (.array elem len) c' = true ∧
      ∀ g fl, ∃ g', Imp (initItem g root top obj [p] (.str id bytes esz :: r) fl) (After root top obj p c' toks' fl g') := by
  obtain ⟨cs, rfl, hlen, hall⟩ := arr_of_shaped hA.shapedc
  obtain ⟨hs', htoks, hsz⟩ := stringInitializer_shape hlen hall hint h
  subst htoks
  refine ⟨hs', init2_stop hA (by simp) (by simp [stopsAt, strFits, hint, hsz]) (fun hne => ?_)⟩
  have hz := hne rfl (by intro sz k hh; cases hh)
  obtain ⟨_, _, hsv, _⟩ := stringInitializer_spec hA.shapedc hz hint h
  simp only [storeTok, growable_false hA, Bool.false_eq_true, ↓reduceIte]
  exact hsv

theorem sim_init2 {f : Nat} (ih : Sim f) : Init2St (f+1) := by
  intro root top obj p ty c toks c' toks' hA h
  cases ty with
  | inc => have := hA.ok; simp [subOk] at this
  | array elem len =>
    obtain ⟨cs, rfl, hlen, hall⟩ := arr_of_shaped hA.shapedc
    unfold initializer2 at h
    simp only at h
    split at h
    · -- string literal
      rename_i id bytes esz r
      split at h
      · rename_i hint
        -- shape: via the untouched/any node
        have hshape : shaped (.array elem len) c' = true ∧ toks' = r := by
          unfold stringInitializer at h
          split at h
          · cases h
          · simp only [Init.children, Init.withChildren] at h
            split at h
            · obtain ⟨cs', hf, h⟩ := bind_eq_ok h
              cases h
              obtain ⟨sz, kd, rfl⟩ := isInteger_scalar hint
              refine ⟨?_, rfl⟩
              have key : ∀ (n : Nat) (cs cs' : List Init) (i : Nat), strFill bytes (Ty.scalar sz kd).size.toNat cs i n = .ok cs' →
                  shapedAll (.scalar sz kd) cs = true → cs'.length = cs.length ∧ shapedAll (.scalar sz kd) cs' = true := by
                intro n
                induction n with
                | zero => intro cs cs' i h _; rw [strFill] at h; cases h; exact ⟨rfl, ‹_›⟩
                | succ n ihn =>
                  intro cs cs' i h hsa
                  cases cs with
                  | nil => rw [strFill] at h; cases h
                  | cons c0 cs0 =>
                    rw [strFill] at h
                    split at h
                    · cases h
                    · obtain ⟨rest, hr, h⟩ := bind_eq_ok h
                      cases h
                      simp only [shapedAll, Bool.and_eq_true] at hsa
                      obtain ⟨h1, h2⟩ := ihn cs0 rest (i+1) hr hsa.2
                      obtain ⟨e0, rfl⟩ := leaf_of_shaped hsa.1
                      simp [shapedAll, h1, h2, Init.setExpr, shaped]
              obtain ⟨h1, h2⟩ := key _ cs cs' 0 hf hall
              simp [shaped, h1, hlen, h2]
            · cases h
        obtain ⟨hs', htoks⟩ := hshape
        subst htoks
        -- element sizes agree (else the parser reports an error)
        have hsz : elem.size = (esz : Int) := by
          unfold stringInitializer at h
          split at h
          · cases h
          · rename_i hsz; simpa using hsz
        refine ⟨hs', init2_stop hA (by simp) (by simp [stopsAt, strFits, hint, hsz]) (fun hne => ?_)⟩
        have hz := hne rfl (by intro sz k hh; cases hh)
        obtain ⟨_, _, hsv, _⟩ := stringInitializer_spec hA.shapedc hz hint h
        simp only [storeTok, growable_false hA, Bool.false_eq_true, ↓reduceIte]
        exact hsv
      · rename_i hint
        refine ih.arr20 hA (fun tok r' heq => ?_) h
        cases heq
        refine ⟨by simp, ?_⟩
        simp only [stopsAt, strFits]
        simp [hint]
    · -- braces
      rename_i inner
      split at h
      · -- p14/p15: a string literal in braces: the literal alone
        rename_i id bytes esz rest hbs
        obtain ⟨_, _, _, hi, _⟩ := bracedStr_some hbs
        have hbl := bracedLit_of_bracedStr (t := .array elem len) rfl hbs
        obtain ⟨hs', himp⟩ := sim_init2_str (id := id) hA (isIntNotBool_isInteger hi) h
        refine ⟨hs', fun g fl => ?_⟩
        rw [initItem_bracedLit _ _ _ _ _ _ _ _ hA.sub hA.ng hbl]
        exact himp g fl
      · rename_i hbs
        obtain ⟨hs', inner', heq, himp⟩ := ih.arr1 hA.ok hA.shapedc h
        cases heq
        refine ⟨hs', init2_brace hA (bracedLit_none_of_bracedStr rfl hbs) (fun _ top g fl res hres hcl => ?_)⟩
        have := himp top g fl res hres hcl
        cases this
        rw [unflex_shaped hs']
        exact ⟨rfl, rfl, rfl⟩
    · -- elided
      rename_i hn1 hn2
      refine ih.arr20 hA (fun tok r' heq => ?_) h
      subst heq
      refine ⟨fun hh => hn2 _ (by rw [hh]), ?_⟩
      cases tok <;> first | rfl | exact absurd rfl (hn1 _ _ _ _)
  | struct ms sz fl0 =>
    obtain ⟨e, cs, rfl, hms⟩ := struct_of_shaped hA.shapedc
    unfold initializer2 at h
    simp only at h
    split at h
    · rename_i hsb
      obtain ⟨hs', inner, heq, himp⟩ := ih.struct1 hA.ok hA.shapedc h
      subst heq
      refine ⟨hs', init2_brace hA (bracedLit_non_array _ rfl) (fun hne top g fl res hres hcl => ?_)⟩
      have hE : hasAggExpr (Init.struct e cs) = false := by
        simp only [hasExpr, Bool.or_eq_false_iff] at hne
        cases e <;> simp_all [hasAggExpr]
      have := himp hE top g fl res hres hcl
      cases this
      rw [unflex_shaped hs']
      exact ⟨rfl, rfl, rfl⟩
    · rename_i hsb
      obtain ⟨⟨ex, rest⟩, hpa, h⟩ := bind_eq_ok h
      simp only at h
      obtain ⟨tok, htoks, hte, hbr, hstart, hkind⟩ := parseAssign_ok hpa
      subst htoks
      split at h
      · rename_i hisS
        cases h
        refine ⟨by simpa [Init.setExpr, shaped] using hms, ?_⟩
        rcases hkind with ⟨e', rfl, rfl⟩ | ⟨_, hns, _⟩
        · exact init2_stop hA hbr (by simp [stopsAt, hisS]) (fun _ => rfl)
        · rw [hns] at hisS; cases hisS
      · rename_i hisS
        refine ih.struct20 hA hbr hstart ?_ (fun j hj => by omega) h
        rcases hkind with ⟨e', rfl, rfl⟩ | ⟨hstr, _, _⟩
        · simpa [stopsAt] using hisS
        · cases tok <;> simp [isStrTok] at hstr; rfl
  | union ms sz fl0 =>
    obtain ⟨e, m, cs, rfl, hms⟩ := union_of_shaped hA.shapedc
    unfold initializer2 at h
    simp only at h
    split at h
    · rename_i hsb
      cases toks with
      | nil => simp [startsBrace] at hsb
      | cons t inner =>
        cases t <;> simp [startsBrace] at hsb
        obtain ⟨hs', himp⟩ := ih.union1 hA.ok hA.shapedc h
        refine ⟨hs', init2_brace hA (bracedLit_non_array _ rfl) (fun hne top g fl res hres hcl => ?_)⟩
        have hz := zero_of_shaped _ _ hA.ok hA.shapedc hne
        obtain ⟨h1, h2, h3⟩ := himp hz top g fl res hres hcl
        have hus : unflex res.obj = res.obj := by
          cases hro : res.obj with
          | flex => rw [hro] at h1; simp [defaultMember] at h1; rw [← h1] at hs'; simp [shaped] at hs'
          | _ => rfl
        rw [hus]
        exact ⟨h1, h2, h3⟩
    · rename_i hsb
      obtain ⟨⟨ex, rest⟩, hpa, h⟩ := bind_eq_ok h
      simp only at h
      obtain ⟨tok, htoks, hte, hbr, hstart, hkind⟩ := parseAssign_ok hpa
      subst htoks
      split at h
      · rename_i hisU
        cases h
        refine ⟨by simpa [Init.setExpr, shaped] using hA.shapedc, ?_⟩
        rcases hkind with ⟨e', rfl, rfl⟩ | ⟨_, _, hnu⟩
        · exact init2_stop hA hbr (by simp [stopsAt, hisU]) (fun _ => rfl)
        · rw [hnu] at hisU; cases hisU
      · rename_i hisU
        refine ih.union0 hA hbr hstart ?_ h
        rcases hkind with ⟨e', rfl, rfl⟩ | ⟨hstr, _, _⟩
        · simpa [stopsAt] using hisU
        · cases tok <;> simp [isStrTok] at hstr; rfl
  | scalar sz k =>
    obtain ⟨e, rfl⟩ := leaf_of_shaped hA.shapedc
    unfold initializer2 at h
    simp only at h
    split at h
    · -- `{ scalar }`
      rename_i inner
      obtain ⟨⟨c1, tok⟩, hinit, h⟩ := bind_eq_ok h
      obtain ⟨rest, hrb, h⟩ := bind_eq_ok h
      cases h
      simp only at hrb
      have hend := strip_comma_rbrace hrb
      have hAr : ∀ top, At (.scalar sz k) top (.leaf e) [] (.scalar sz k) (.leaf e) := fun _ => At.root hA.ok hA.shapedc
      obtain ⟨hs', _⟩ := ih.init2 (top := false) (hAr false) hinit
      refine ⟨hs', init2_brace hA (bracedLit_non_array _ rfl) (fun hne top g fl res hres hcl => ?_)⟩
      obtain ⟨_, himp⟩ := ih.init2 (top := top) (hAr top) hinit
      have fin : ∀ g1 cur first, initList g1 (.scalar sz k) top c1 cur tok first fl = .ok res →
          defaultMember (.scalar sz k) (unflex res.obj) = c1 ∧ res.rest = toks' ∧ res.fl = fl := by
        intro g1 cur first hh
        cases g1 with
        | zero => cases hh
        | succ g1 =>
          rw [initList_end _ _ _ _ _ _ _ _ _ hend] at hh
          cases hh
          obtain ⟨e1, rfl⟩ := leaf_of_shaped hs'
          exact ⟨rfl, rfl, rfl⟩
      cases g with
      | zero => cases hres
      | succ g =>
        cases hce : consumeEnd inner with
        | some rest0 =>
          obtain ⟨e1, e2⟩ := init2_nothing hA.shapedc hA.ok (consumeEnd_some_isEnd hce) hinit
          subst e1 e2
          exact fin (g+1) _ _ hres
        | none =>
          replace hres := initList_item_imp _ _ _ _ _ _ _ _ hce hres hcl
          simp only [↓reduceIte, pure_bind'] at hres
          by_cases hdg : isDesg inner = true
          · exfalso
            obtain ⟨e', he'⟩ := desigPaths_scalar sz k top (inner.length + 1) inner hdg
            simp only [pathsOf, hdg, ↓reduceIte, he'] at hres
            cases hres
          · simp only [pathsOf, hdg, Bool.false_eq_true, ↓reduceIte, pure_bind', firstCursor] at hres
            obtain ⟨g1, h1⟩ := himp g fl
            have hh := h1 res hres hcl
            simp only [After, setAtM] at hh
            exact fin g1 _ _ hh
    · -- a scalar
      rename_i hnb
      obtain ⟨⟨ex, rest⟩, hpa, h⟩ := bind_eq_ok h
      cases h
      obtain ⟨tok, htoks, hte, hbr, hstart, hkind⟩ := parseAssign_ok hpa
      subst htoks
      refine ⟨by simp [Init.setExpr, shaped], init2_stop hA hbr (by simp [stopsAt]) (fun _ => ?_)⟩
      simp [storeTok, hte, Init.setExpr]
      rfl


theorem sim_succ (f : Nat) (ih : Sim f) : Sim (f+1) where
  init2 := sim_init2 ih
  desg := sim_desg ih
  arr2loop := sim_arr2loop ih
  arr2loop0 := sim_arr2loop0 ih
  arr2 := sim_arr2 ih
  arr20 := sim_arr20 ih
  struct2 := sim_struct2 ih
  struct20 := sim_struct20 ih
  union0 := sim_union0 ih
  arr1loop := sim_arr1loop ih
  arr1 := sim_arr1 ih
  struct1loop := sim_struct1loop ih
  struct1 := sim_struct1 ih
  union1 := sim_union1 ih
  unionrest := sim_unionrest ih

/-- the simulation holds for every function of the parser and every fuel -/
theorem sim_all : ∀ f, Sim f
  | 0 => sim_zero
  | f+1 => sim_succ f (sim_all f)

/-- a brace-enclosed initializer for an object of type `t`: `initializer2` with the node `c` against the list of the specification -/
theorem braceSim_init2 {f : Nat} {t : Ty} {c : Init} {inner : List ITok} {c' : Init} {rest : List ITok} (ho : subOk t = true)
    (hs : shaped t c = true) (hbl : bracedLit t inner = none) (h : initializer2 f t (.lbrace :: inner) c = .ok (c', rest)) :
    shaped t c' = true ∧ (hasExpr c = false → BraceSim t c inner c' rest) := by
  cases f with
  | zero => cases h
  | succ f => exact braceSim_step (sim_all f) ho hs hbl h

end ChibiVerif.InitSpec
