/-
C20: the labels of generated code are pairwise distinct.

From the freshness invariant `LabsR` (Lemmas/C20Labels.lean: the counter labels of a piece of code are
pairwise distinct, numbered from the monotone counter `count()`; every other label is a numeric local
label or a parser label) and `userDistinct` (the parser's labels occur once each in the code) to
`labelsDistinct`: after `Effect.renameLocals` has given every definition of a numeric local label
(`1:`, `2:`) its own name `1#k`, all label names of the skeleton are pairwise distinct, none is the
function's return label, none is spelled `.L.return.*`.
-/
import ChibiVerif.Lemmas.C20Labels

namespace ChibiVerif.Lemmas.C20
open ChibiVerif ChibiVerif.Codegen ChibiVerif.Effect ChibiVerif.Asm ChibiVerif.Ast ChibiVerif.C20Scope

/-- the name `renameLocals` gives to the `c`-th definition of the numeric label `d` -/
def numName (d : String) (c : Nat) : String := s!"{d}#{c}"

/-- what `renameLocals` does to the list of label names -/
def renNames : List String → List (String × Nat) → List String
  | [], _ => []
  | l :: r, seen =>
    if isNumLabel l then
      numName l ((seen.lookup l).getD 0 + 1) :: renNames r ((l, (seen.lookup l).getD 0 + 1) :: seen)
    else l :: renNames r seen

theorem labelNames_renameLocals (ss : List Step) (seen : List (String × Nat)) :
    labelNames (renameLocals ss seen) = renNames (labelNames ss) seen := by
  induction ss generalizing seen with
  | nil => rfl
  | cons s r ih =>
    cases s with
    | label l =>
      by_cases hl : isNumLabel l = true
      · simp only [renameLocals, hl, if_true, labelNames, renNames, ih]
        rfl
      · have hl' : isNumLabel l = false := by simpa using hl
        simp only [renameLocals, hl', Bool.false_eq_true, if_false, labelNames, renNames, ih]
    | delta d => simp only [renameLocals, labelNames, ih]
    | cond l => simp only [renameLocals, labelNames, ih]
    | jump l => simp only [renameLocals, labelNames, ih]
    | leave => simp only [renameLocals, labelNames, ih]
    | bad w => simp only [renameLocals, labelNames, ih]

/-! ### spelling of the renamed numeric labels -/

theorem numLabel_toList {d : String} (h : isNumLabel d = true) : ∃ c, d.toList = [c] ∧ c.isDigit = true := by
  unfold isNumLabel at h
  split at h
  · rename_i c hc; exact ⟨c, hc, h⟩
  · cases h

theorem numName_toList (d : String) (c : Nat) : (numName d c).toList = d.toList ++ ('#' :: (toString c).toList) := by
  show (toString d ++ toString "#" ++ toString c).toList = _
  rw [String.toList_append, String.toList_append]
  simp only [List.append_assoc]
  rfl

theorem numName_inj {d d' : String} {c c' : Nat} (hd : isNumLabel d = true) (hd' : isNumLabel d' = true)
    (h : numName d c = numName d' c') : d = d' ∧ c = c' := by
  obtain ⟨x, hx, _⟩ := numLabel_toList hd
  obtain ⟨x', hx', _⟩ := numLabel_toList hd'
  have hl : (numName d c).toList = (numName d' c').toList := by rw [h]
  rw [numName_toList, numName_toList, hx, hx'] at hl
  simp only [List.cons_append, List.nil_append, List.cons.injEq, true_and] at hl
  obtain ⟨e1, e2⟩ := hl
  have edd : d = d' := by
    rw [← String.ofList_toList (s := d), ← String.ofList_toList (s := d'), hx, hx', e1]
  refine ⟨edd, ?_⟩
  have hs : toString c = toString c' := by
    rw [← String.ofList_toList (s := toString c), ← String.ofList_toList (s := toString c'), e2]
  exact Nat.repr_inj.mp hs

theorem numName_not_startsDot {d : String} (hd : isNumLabel d = true) (c : Nat) :
    startsDot (numName d c) = false := by
  obtain ⟨x, hx, hdig⟩ := numLabel_toList hd
  unfold startsDot
  rw [numName_toList, hx]
  simp only [List.cons_append, List.nil_append]
  split
  · rename_i rest heq
    simp only [List.cons.injEq] at heq
    rw [heq.1] at hdig
    exact absurd hdig (by decide)
  · rfl

theorem not_return_of_not_startsDot {l : String} (h : startsDot l = false) : isReturnLabel l = false := by
  unfold isReturnLabel
  unfold startsDot at h
  split at h
  · cases h
  · rename_i hne
    cases hl : l.toList with
    | nil => rfl
    | cons c r =>
      have : c ≠ '.' := by
        intro e
        subst e
        exact hne r hl
      have hc : ('.' == c) = false := by
        simp only [beq_eq_false_iff_ne, ne_eq]
        exact fun e => this e.symm
      show List.isPrefixOf ('.' :: _) (c :: r) = false
      simp [List.isPrefixOf, hc]

/-! ### renamed names -/

/-- a renamed name is an original non-numeric label or a fresh numeric name -/
theorem mem_renNames : ∀ (L : List String) (seen : List (String × Nat)) (n : String), n ∈ renNames L seen →
    (n ∈ L ∧ isNumLabel n = false) ∨
      (∃ d c, isNumLabel d = true ∧ n = numName d c ∧ (seen.lookup d).getD 0 < c)
  | [], _, _, h => by cases h
  | l :: r, seen, n, h => by
    by_cases hl : isNumLabel l = true
    · simp only [renNames, hl, if_true, List.mem_cons] at h
      rcases h with rfl | h
      · exact Or.inr ⟨l, _, hl, rfl, Nat.lt_succ_self _⟩
      · rcases mem_renNames r _ n h with ⟨h1, h2⟩ | ⟨d, c, h1, h2, h3⟩
        · exact Or.inl ⟨List.mem_cons_of_mem _ h1, h2⟩
        · refine Or.inr ⟨d, c, h1, h2, ?_⟩
          by_cases hdl : d = l
          · subst hdl
            simp only [List.lookup, beq_self_eq_true, Option.getD_some] at h3
            omega
          · have : (d == l) = false := by simpa using hdl
            simpa only [List.lookup, this] using h3
    · have hl' : isNumLabel l = false := by simpa using hl
      simp only [renNames, hl', Bool.false_eq_true, if_false, List.mem_cons] at h
      rcases h with rfl | h
      · exact Or.inl ⟨List.mem_cons_self, hl'⟩
      · rcases mem_renNames r _ n h with ⟨h1, h2⟩ | h'
        · exact Or.inl ⟨List.mem_cons_of_mem _ h1, h2⟩
        · exact Or.inr h'

theorem nodup_renNames : ∀ (L : List String) (seen : List (String × Nat)),
    (L.filter (fun l => !isNumLabel l)).Nodup →
    (∀ l, l ∈ L → isNumLabel l = false → startsDot l = true) → (renNames L seen).Nodup
  | [], _, _, _ => List.nodup_nil
  | l :: r, seen, hn, hs => by
    have hs' : ∀ l', l' ∈ r → isNumLabel l' = false → startsDot l' = true :=
      fun l' h1 h2 => hs l' (List.mem_cons_of_mem _ h1) h2
    by_cases hl : isNumLabel l = true
    · simp only [List.filter, hl, Bool.not_true] at hn
      simp only [renNames, hl, if_true, List.nodup_cons]
      refine ⟨?_, nodup_renNames r _ hn hs'⟩
      intro hmem
      rcases mem_renNames r _ _ hmem with ⟨h1, h2⟩ | ⟨d, c, h1, h2, h3⟩
      · have := hs' _ h1 h2
        rw [numName_not_startsDot hl] at this
        cases this
      · obtain ⟨e1, e2⟩ := numName_inj hl h1 h2
        subst e1
        simp only [List.lookup, beq_self_eq_true, Option.getD_some] at h3
        omega
    · have hl' : isNumLabel l = false := by simpa using hl
      simp only [List.filter, hl', Bool.not_false, List.nodup_cons] at hn
      simp only [renNames, hl', Bool.false_eq_true, if_false, List.nodup_cons]
      refine ⟨?_, nodup_renNames r _ hn.2 hs'⟩
      intro hmem
      rcases mem_renNames r _ _ hmem with ⟨h1, h2⟩ | ⟨d, c, h1, h2, _⟩
      · exact hn.1 (List.mem_filter.mpr ⟨h1, by simp [h2]⟩)
      · have := hs l List.mem_cons_self hl'
        rw [h2, numName_not_startsDot h1] at this
        cases this

/-! ### two disjoint classes -/

theorem nodup_of_classes (p q : String → Bool) : ∀ (M : List String),
    (∀ l, l ∈ M → p l = true ∨ q l = true) → (∀ l, p l = true → q l = false) →
    (M.filter p).Nodup → (M.filter q).Nodup → M.Nodup
  | [], _, _, _, _ => List.nodup_nil
  | l :: r, hc, hx, hp, hq => by
    have hc' : ∀ l', l' ∈ r → p l' = true ∨ q l' = true := fun l' h => hc l' (List.mem_cons_of_mem _ h)
    rw [List.nodup_cons]
    rcases hc l List.mem_cons_self with h | h
    · have hql := hx l h
      simp only [List.filter, h, List.nodup_cons] at hp
      simp only [List.filter, hql] at hq
      exact ⟨fun hm => hp.1 (List.mem_filter.mpr ⟨hm, h⟩), nodup_of_classes p q r hc' hx hp.2 hq⟩
    · have hpl : p l = false := by
        cases hpl : p l with
        | false => rfl
        | true => rw [hx l hpl] at h; cases h
      simp only [List.filter, hpl] at hp
      simp only [List.filter, h, List.nodup_cons] at hq
      exact ⟨fun hm => hq.1 (List.mem_filter.mpr ⟨hm, h⟩), nodup_of_classes p q r hc' hx hp hq.2⟩

theorem isNum_not_startsDot {l : String} (h : isNumLabel l = true) : startsDot l = false := by
  obtain ⟨x, hx, hd⟩ := numLabel_toList h
  unfold startsDot
  rw [hx]
  split
  · rename_i rest heq
    simp only [List.cons.injEq] at heq
    rw [heq.1] at hd
    exact absurd hd (by decide)
  · rfl

/-- **the labels of generated code are pairwise distinct** -/
theorem labelsDistinct_of_LabsR {ret : String} {ls : List Line} {lo hi : Nat} (hr : isReturnLabel ret = true)
    (h : LabsR (ls.flatMap classify) [] lo hi) (hu : userDistinct ls = true) :
    labelsDistinct ret ls = true := by
  obtain ⟨_, hok, F, hp, hnF, _⟩ := h
  simp only [userDistinct, decide_eq_true_eq] at hu
  have hctr : ((labelNames (ls.flatMap classify)).filter isCtr).Nodup := by
    have : (ctrLabels (ls.flatMap classify)).Perm F := by simpa using hp
    exact this.nodup_iff.mpr hnF
  -- the labels that are not numeric: counter labels and parser labels
  have hnonnum : ((labelNames (ls.flatMap classify)).filter (fun l => !isNumLabel l)).Nodup := by
    refine nodup_of_classes isCtr userLabel _ ?_ ?_ ?_ ?_
    · intro l hl
      obtain ⟨h1, h2⟩ := List.mem_filter.mp hl
      rcases hok l h1 with h | h | h
      · exact Or.inl h
      · simp [h] at h2
      · exact Or.inr h
    · intro l hl
      simp [userLabel, hl]
    · rw [List.filter_filter]
      have : (fun a => isCtr a && !isNumLabel a) = isCtr := by
        funext a
        cases hc : isCtr a with
        | false => simp
        | true =>
          have := isCtr_startsDot hc
          cases hn : isNumLabel a with
          | false => rfl
          | true => rw [isNum_not_startsDot hn] at this; cases this
      rw [this]
      exact hctr
    · rw [List.filter_filter]
      have : (fun a => userLabel a && !isNumLabel a) = userLabel := by
        funext a
        cases hc : userLabel a with
        | false => simp
        | true =>
          have := (userLabel_elim hc).1
          cases hn : isNumLabel a with
          | false => rfl
          | true => rw [isNum_not_startsDot hn] at this; cases this
      rw [this]
      exact hu
  have hdot : ∀ l, l ∈ labelNames (ls.flatMap classify) → isNumLabel l = false → startsDot l = true := by
    intro l hl hn
    rcases hok l hl with h | h | h
    · exact isCtr_startsDot h
    · rw [hn] at h; cases h
    · exact (userLabel_elim h).1
  have hnames : labelNames (steps ls) = renNames (labelNames (ls.flatMap classify)) [] :=
    labelNames_renameLocals _ _
  have hnd := nodup_renNames _ [] hnonnum hdot
  have hnr : ∀ n, n ∈ labelNames (steps ls) → isReturnLabel n = false := by
    intro n hn
    rw [hnames] at hn
    rcases mem_renNames _ _ _ hn with ⟨h1, h2⟩ | ⟨d, c, h1, h2, _⟩
    · rcases hok n h1 with h | h | h
      · exact isCtr_not_return h
      · rw [h2] at h; cases h
      · exact (userLabel_elim h).2.2
    · rw [h2]
      exact not_return_of_not_startsDot (numName_not_startsDot h1 c)
  simp only [labelsDistinct, Bool.and_eq_true, decide_eq_true_eq, List.all_eq_true, Bool.not_eq_true',
    List.nodup_cons]
  refine ⟨⟨?_, hnames ▸ hnd⟩, hnr⟩
  intro hm
  rw [hnr ret hm] at hr
  cases hr

end ChibiVerif.Lemmas.C20
