/- A witness that the contract structure `C07Float.Sound` is satisfiable, so that `C07_fold_float` (Props/C07Float.lean) is not
   vacuous.  It is a *toy* FPU, not IEEE-754 (as Lemmas/FpToy.lean is for C02): a `long double` datum is sign | 79-bit
   magnitude and denotes the integer ±magnitude; a `float` (`double`) datum is the top 32 (64) bits of a `long double`, so that
   widening appends zero bits and narrowing drops them; integer → floating conversions and the SSE conversions are *defined*
   through widening and narrowing; the arithmetic operations, which no contract constrains beyond "the result survives the
   round trip", return their first operand.  The real x87/SSE unit is validated against the folder on every run of the
   check (the software FPU Model/SoftFp.lean against the CPU, bit for bit). -/
import ChibiVerif.Lemmas.C07FloatLemmas

namespace ChibiVerif.C07Float.Toy
open ChibiVerif.Spec.Fpu

def fld32 (x : BitVec 32) : BitVec 80 := (x.setWidth 80) <<< 48
def fst32 (y : BitVec 80) : BitVec 32 := (y >>> 48).setWidth 32
def fld64 (x : BitVec 64) : BitVec 80 := (x.setWidth 80) <<< 16
def fst64 (y : BitVec 80) : BitVec 64 := (y >>> 16).setWidth 64

def val80 (y : BitVec 80) : Val := .fin y.msb (y.toNat % 2 ^ 79) 0
def ofInt80 (v : Int) : BitVec 80 := BitVec.ofNat 80 (v.natAbs % 2 ^ 79 + (if v < 0 then 2 ^ 79 else 0))

theorem rt32 (x : BitVec 32) : fst32 (fld32 x) = x := by
  apply BitVec.eq_of_getLsbD_eq
  intro i hi
  simp only [fst32, fld32, BitVec.getLsbD_setWidth, BitVec.getLsbD_ushiftRight, BitVec.getLsbD_shiftLeft]
  have h1 : 48 + i < 80 := by omega
  have h2 : ¬ (48 + i < 48) := by omega
  simp [hi, h1, h2]
  intro _; omega

theorem rt64 (x : BitVec 64) : fst64 (fld64 x) = x := by
  apply BitVec.eq_of_getLsbD_eq
  intro i hi
  simp only [fst64, fld64, BitVec.getLsbD_setWidth, BitVec.getLsbD_ushiftRight, BitVec.getLsbD_shiftLeft]
  have h1 : 16 + i < 80 := by omega
  have h2 : ¬ (16 + i < 16) := by omega
  simp [hi, h1, h2]
  intro _; omega

theorem neg32 (x : BitVec 32) : fst32 (fld32 x ^^^ (1#80 <<< 79)) = x ^^^ (1#32 <<< 31) := by
  apply BitVec.eq_of_getLsbD_eq
  intro i hi
  simp only [fst32, fld32, BitVec.getLsbD_setWidth, BitVec.getLsbD_ushiftRight, BitVec.getLsbD_shiftLeft, BitVec.getLsbD_xor,
    BitVec.getLsbD_one]
  have h1 : 48 + i < 80 := by omega
  have h2 : ¬ (48 + i < 48) := by omega
  by_cases h31 : i = 31
  · subst h31; simp
  · have e1 : i < 80 := by omega
    have e2 : 48 + i < 79 := by omega
    have e3 : i < 31 := by omega
    simp [hi, h1, h2, e1, e2, e3]

theorem neg64 (x : BitVec 64) : fst64 (fld64 x ^^^ (1#80 <<< 79)) = x ^^^ (1#64 <<< 63) := by
  apply BitVec.eq_of_getLsbD_eq
  intro i hi
  simp only [fst64, fld64, BitVec.getLsbD_setWidth, BitVec.getLsbD_ushiftRight, BitVec.getLsbD_shiftLeft, BitVec.getLsbD_xor,
    BitVec.getLsbD_one]
  have h1 : 16 + i < 80 := by omega
  have h2 : ¬ (16 + i < 16) := by omega
  by_cases h63 : i = 63
  · subst h63; simp
  · have e1 : i < 80 := by omega
    have e2 : 16 + i < 79 := by omega
    have e3 : i < 63 := by omega
    simp [hi, h1, h2, e1, e2, e3]

theorem ofInt80_val (v : Int) (hv : v.natAbs < 2 ^ 64) : (val80 (ofInt80 v)).toInt? = some v := by
  have hm : v.natAbs % 2 ^ 79 = v.natAbs := Nat.mod_eq_of_lt (by omega)
  have hlt : v.natAbs + (if v < 0 then 2 ^ 79 else 0) < 2 ^ 80 := by split <;> omega
  have htn : (ofInt80 v).toNat = v.natAbs + (if v < 0 then 2 ^ 79 else 0) := by
    simp only [ofInt80, BitVec.toNat_ofNat, hm]
    exact Nat.mod_eq_of_lt hlt
  have hmsb : (ofInt80 v).msb = decide (v < 0) := by
    rw [BitVec.msb_eq_decide, htn]
    by_cases h : v < 0
    · simp [h]
    · simp [h]; omega
  have hlow : (ofInt80 v).toNat % 2 ^ 79 = v.natAbs := by
    rw [htn]
    by_cases h : v < 0
    · simp only [h, ite_true]; rw [Nat.add_mod_right]; exact Nat.mod_eq_of_lt (by omega)
    · simp only [h, ite_false, Nat.add_zero]; exact Nat.mod_eq_of_lt (by omega)
  simp only [val80, hmsb, hlow, Val.toInt?, Int.le_refl, true_or, ite_true, Val.magTrunc, Int.toNat_zero, Nat.pow_zero, Nat.mul_one]
  by_cases h : v < 0
  · simp only [h, decide_true, ite_true]; congr 1; omega
  · simp only [h, decide_false, Bool.false_eq_true, ite_false]; congr 1; omega

/-- **the toy FPU** -/
def ops : FpOps where
  val32 := fun x => val80 (fld32 x)
  val64 := fun x => val80 (fld64 x)
  val80 := val80
  addss := fun a _ => a
  subss := fun a _ => a
  mulss := fun a _ => a
  divss := fun a _ => a
  addsd := fun a _ => a
  subsd := fun a _ => a
  mulsd := fun a _ => a
  divsd := fun a _ => a
  fadd := fun a _ => a
  fsub := fun a _ => a
  fmul := fun a _ => a
  fdiv := fun a _ => a
  fchs := fun x => x ^^^ (1#80 <<< 79)
  ofInt32 := fun v => fst32 (ofInt80 v)
  ofInt64 := fun v => fst64 (ofInt80 v)
  ofInt80 := ofInt80
  cvtss2sd := fun x => fst64 (fld32 x)
  cvtsd2ss := fun x => fst32 (fld64 x)
  fld32 := fld32
  fld64 := fld64
  fst32 := fst32
  fst64 := fst64

/-- every contract holds for the toy FPU -/
theorem sound : Sound ops where
  fld32_exact := fun _ => same_refl _
  fld64_exact := fun _ => same_refl _
  ofInt80_val := ofInt80_val
  fchs_spec := fun _ => rfl
  narrow_int32 := fun _ _ => rfl
  narrow_int64 := fun _ _ => rfl
  narrow_64_32 := fun _ _ => rfl
  widen_32_64 := fun _ _ => rfl
  neg_32 := fun x _ => neg32 x
  neg_64 := fun x _ => neg64 x
  rt_neg32 := fun _ _ => rt32 _
  rt_neg64 := fun _ _ => rt64 _
  rt_fst32 := fun _ => rt32 _
  rt_fst64 := fun _ => rt64 _
  rt_addss := fun _ _ _ _ => rt32 _
  rt_subss := fun _ _ _ _ => rt32 _
  rt_mulss := fun _ _ _ _ => rt32 _
  rt_divss := fun _ _ _ _ => rt32 _
  rt_addsd := fun _ _ _ _ => rt64 _
  rt_subsd := fun _ _ _ _ => rt64 _
  rt_mulsd := fun _ _ _ _ => rt64 _
  rt_divsd := fun _ _ _ _ => rt64 _

end ChibiVerif.C07Float.Toy
