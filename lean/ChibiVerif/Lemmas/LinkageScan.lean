/-
Helper lemmas for C15_tentative: what `scanLoop` (parse.c scan_globals) keeps.

`scanLoop` mutates the type of a later node while it walks the list.  Which nodes it keeps does not depend
on types, so up to types (`TyRel`) it equals the mutation-free filter `scanPure`; the counting facts are
proved on `scanPure` and carried over.
-/
import ChibiVerif.Model.Linkage

namespace ChibiVerif.Linkage

variable [Rules]

/-- two objects that differ at most in their type -/
def SameButTy (b a : Obj) : Prop := ∃ t, b = { a with ty := t }

omit [Rules] in
theorem SameButTy.rfl' (a : Obj) : SameButTy a a := ⟨a.ty, rfl⟩

omit [Rules] in
theorem SameButTy.trans {a b c : Obj} (h1 : SameButTy b a) (h2 : SameButTy c b) : SameButTy c a := by
  obtain ⟨t1, rfl⟩ := h1
  obtain ⟨t2, rfl⟩ := h2
  exact ⟨t2, rfl⟩

/-- position by position the same objects up to their types -/
inductive TyRel : List Obj → List Obj → Prop where
  | nil : TyRel [] []
  | cons {a b : Obj} {as bs : List Obj} : SameButTy b a → TyRel as bs → TyRel (a :: as) (b :: bs)

omit [Rules] in
theorem TyRel.rfl' : ∀ l, TyRel l l
  | [] => .nil
  | a :: as => .cons (SameButTy.rfl' a) (TyRel.rfl' as)

omit [Rules] in
theorem TyRel.trans : ∀ {a b c : List Obj}, TyRel a b → TyRel b c → TyRel a c := by
  intro a b c h1
  induction h1 generalizing c with
  | nil => intro h2; exact h2
  | cons h _ ih =>
    intro h2
    cases h2 with
    | cons h' hs' => exact .cons (h.trans h') (ih hs')

omit [Rules] in
theorem tyRel_updFirst (p : Obj → Bool) (t : ObjTy) : ∀ l, TyRel l (updFirst p (fun o => { o with ty := t }) l)
  | [] => .nil
  | a :: as => by
    unfold updFirst
    split
    · exact .cons ⟨t, rfl⟩ (TyRel.rfl' as)
    · exact .cons (SameButTy.rfl' a) (tyRel_updFirst p t as)

/-- a predicate on objects that does not look at the type -/
def TyBlind (q : Obj → Bool) : Prop := ∀ o t, q { o with ty := t } = q o

omit [Rules] in
theorem TyRel.filter_length {q : Obj → Bool} (hq : TyBlind q) {l l' : List Obj} (h : TyRel l l') :
    (l'.filter q).length = (l.filter q).length := by
  induction h with
  | nil => rfl
  | @cons a b as bs hab _ ih =>
    have hqb : q b = q a := by obtain ⟨t, rfl⟩ := hab; exact hq a t
    simp only [List.filter, hqb]
    split <;> simp [ih]

omit [Rules] in
theorem TyRel.any {q : Obj → Bool} (hq : TyBlind q) {l l' : List Obj} (h : TyRel l l') : l'.any q = l.any q := by
  induction h with
  | nil => rfl
  | @cons a b as bs hab _ ih =>
    have hqb : q b = q a := by obtain ⟨t, rfl⟩ := hab; exact hq a t
    simp only [List.any, hqb, ih]

omit [Rules] in
theorem TyRel.length {l l' : List Obj} (h : TyRel l l') : l'.length = l.length := by
  induction h with
  | nil => rfl
  | cons _ _ ih => simp [ih]

omit [Rules] in
theorem TyRel.mem {l l' : List Obj} (h : TyRel l l') {b : Obj} (hb : b ∈ l') : ∃ a, a ∈ l ∧ SameButTy b a := by
  induction h with
  | nil => cases hb
  | cons hab _ ih =>
    rcases List.mem_cons.mp hb with rfl | hb
    · exact ⟨_, List.mem_cons_self, hab⟩
    · obtain ⟨a, ha, hh⟩ := ih hb
      exact ⟨a, List.mem_cons_of_mem _ ha, hh⟩

def realDefOf (s : Sym) (o : Obj) : Bool := o.isDefinition && !o.isTentative && o.sym == s

omit [Rules] in
theorem tyBlind_isTentOf (s : Sym) : TyBlind (isTentOf s) := fun _ _ => rfl
omit [Rules] in
theorem tyBlind_realDefOf (s : Sym) : TyBlind (realDefOf s) := fun _ _ => rfl

/-- `scan_globals` without the type mutation -/
def scanPure (all : List Obj) : List Obj → List Obj
  | [] => []
  | var :: rest =>
    if !var.isTentative then var :: scanPure all rest
    else if all.any (realDefOf var.sym) then scanPure all rest
    else if rest.any (isTentOf var.sym) then scanPure all rest
    else var :: scanPure all rest

omit [Rules] in
theorem completeArray_same (o : Obj) : SameButTy (completeArray o) o := by
  unfold completeArray
  split
  · exact ⟨_, rfl⟩
  · exact SameButTy.rfl' o

omit [Rules] in
theorem scan_tyRel (all : List Obj) : ∀ (n : Nat) (l l' : List Obj), TyRel l l' → l.length ≤ n →
    TyRel (scanPure all l) (scanLoop all n l') := by
  intro n
  induction n with
  | zero =>
    intro l l' h hn
    cases h with
    | nil => exact .nil
    | cons _ _ => simp at hn
  | succ n ih =>
    intro l l' h hn
    cases h with
    | nil => exact .nil
    | @cons a b as bs hab hrest =>
      have hbt : b.isTentative = a.isTentative := by obtain ⟨t, rfl⟩ := hab; rfl
      have hbs : b.sym = a.sym := by obtain ⟨t, rfl⟩ := hab; rfl
      have hn' : as.length ≤ n := by simp at hn; omega
      unfold scanPure scanLoop
      rw [← hbt, ← hbs]
      cases ht : b.isTentative
      · -- not tentative: kept
        simp only [Bool.not_false, if_true]
        exact .cons hab (ih as bs hrest hn')
      · simp only [Bool.not_true, Bool.false_eq_true, if_false]
        have hsame : SameButTy (completeArray b) a := hab.trans (completeArray_same b)
        have hsym : (completeArray b).sym = b.sym := by
          obtain ⟨t', ht'⟩ := completeArray_same b
          rw [ht']
        rw [hsym]
        have hall : (all.any fun o => o.isDefinition && !o.isTentative && o.sym == b.sym) = all.any (realDefOf b.sym) := rfl
        rw [hall]
        cases hreal : all.any (realDefOf b.sym)
        · simp only [Bool.false_eq_true, if_false]
          have hany : bs.any (isTentOf b.sym) = as.any (isTentOf b.sym) := hrest.any (tyBlind_isTentOf _)
          cases hf : bs.find? (isTentOf b.sym) with
          | none =>
            have : as.any (isTentOf b.sym) = false := by
              rw [← hany]
              rw [List.find?_eq_none] at hf
              rw [List.any_eq_false]
              exact hf
            simp only [this, Bool.false_eq_true, if_false]
            exact .cons hsame (ih as bs hrest hn')
          | some var2 =>
            have : as.any (isTentOf b.sym) = true := by
              rw [← hany, List.any_eq_true]
              exact ⟨var2, List.mem_of_find?_eq_some hf, List.find?_some hf⟩
            simp only [this, if_true]
            split
            · exact ih as _ (hrest.trans (tyRel_updFirst _ _ bs)) hn'
            · exact ih as bs hrest hn'
        · simp only [if_true]
          exact ih as bs hrest hn'

omit [Rules] in
theorem scanCore_tyRel (gs : List Obj) : TyRel (scanPure gs gs) (scanCore gs) :=
  scan_tyRel gs gs.length gs gs (TyRel.rfl' gs) (Nat.le_refl _)

/-! ### counting on `scanPure` -/

omit [Rules] in
theorem scanPure_notTent (all : List Obj) : ∀ l : List Obj,
    (scanPure all l).filter (fun o => !o.isTentative) = l.filter (fun o => !o.isTentative)
  | [] => rfl
  | a :: as => by
    unfold scanPure
    cases ht : a.isTentative
    · simp [List.filter, ht, scanPure_notTent all as]
    · simp only [Bool.not_true, Bool.false_eq_true, if_false]
      split
      · simp [List.filter, ht, scanPure_notTent all as]
      · split
        · simp [List.filter, ht, scanPure_notTent all as]
        · simp [List.filter, ht, scanPure_notTent all as]

omit [Rules] in
theorem isTentOf_tent {s : Sym} {o : Obj} (h : isTentOf s o = true) : o.isTentative = true := by
  unfold isTentOf at h
  simp only [Bool.and_eq_true] at h
  exact h.1

omit [Rules] in
theorem isTentOf_sym {s : Sym} {o : Obj} (h : isTentOf s o = true) : o.sym = s := by
  unfold isTentOf at h
  simp only [Bool.and_eq_true, beq_iff_eq] at h
  exact h.2

omit [Rules] in
/-- of the tentative definitions of one name, `scanPure` keeps at most as many as there are -/
theorem scanPure_tent_le (all : List Obj) (s : Sym) : ∀ l : List Obj,
    ((scanPure all l).filter (isTentOf s)).length ≤ (l.filter (isTentOf s)).length
  | [] => Nat.le_refl _
  | a :: as => by
    have ih := scanPure_tent_le all s as
    unfold scanPure
    cases ht : a.isTentative
    · have : isTentOf s a = false := by simp [isTentOf, ht]
      simp [List.filter, this, ih]
    · simp only [Bool.not_true, Bool.false_eq_true, if_false]
      cases hp : isTentOf s a
      · split
        · simp [List.filter, hp, ih]
        · split
          · simp [List.filter, hp, ih]
          · simp [List.filter, hp, ih]
      · split
        · simp only [List.filter, hp]; simp; omega
        · split
          · simp only [List.filter, hp]; simp; omega
          · simp only [List.filter, hp]; simp; omega

omit [Rules] in
/-- ... and at most one -/
theorem scanPure_tent_le_one (all : List Obj) (s : Sym) : ∀ l : List Obj,
    ((scanPure all l).filter (isTentOf s)).length ≤ 1
  | [] => by simp [scanPure]
  | a :: as => by
    have ih := scanPure_tent_le_one all s as
    unfold scanPure
    cases ht : a.isTentative
    · have : isTentOf s a = false := by simp [isTentOf, ht]
      simp [this, ih]
    · simp only [Bool.not_true, Bool.false_eq_true, if_false]
      split
      · exact ih
      · split
        · exact ih
        · rename_i _ hno
          cases hp : isTentOf s a
          · simp [List.filter, hp, ih]
          · -- kept, and no later tentative definition of the same name exists
            have hsym : a.sym = s := isTentOf_sym hp
            have h0 : (as.filter (isTentOf s)).length = 0 := by
              rw [hsym] at hno
              simp only [Bool.not_eq_true] at hno
              rw [List.any_eq_false] at hno
              rw [List.length_eq_zero_iff, List.filter_eq_nil_iff]
              intro x hx
              exact hno x hx
            have hle := scanPure_tent_le all s as
            rw [h0] at hle
            have h1 : ((scanPure all as).filter (isTentOf s)).length = 0 := Nat.le_zero.mp hle
            rw [List.filter_cons_of_pos hp, List.length_cons, h1]
            exact Nat.le_refl _

omit [Rules] in
/-- a real definition of the name makes every tentative one redundant -/
theorem scanPure_tent_none (all : List Obj) (s : Sym) (hreal : all.any (realDefOf s) = true) : ∀ l : List Obj,
    (scanPure all l).filter (isTentOf s) = []
  | [] => rfl
  | a :: as => by
    have ih := scanPure_tent_none all s hreal as
    unfold scanPure
    cases ht : a.isTentative
    · have : isTentOf s a = false := by simp [isTentOf, ht]
      simp [this, ih]
    · simp only [Bool.not_true, Bool.false_eq_true, if_false]
      split
      · exact ih
      · rename_i hnr
        cases hp : isTentOf s a
        · split
          · exact ih
          · simp [List.filter, hp, ih]
        · exfalso
          rw [isTentOf_sym hp] at hnr
          exact hnr hreal

omit [Rules] in
/-- without a real definition, one tentative definition survives -/
theorem scanPure_tent_some (all : List Obj) (s : Sym) (hreal : all.any (realDefOf s) = false) : ∀ l : List Obj,
    l.any (isTentOf s) = true → (scanPure all l).any (isTentOf s) = true
  | [] => by simp
  | a :: as => by
    intro h
    have ih := scanPure_tent_some all s hreal as
    unfold scanPure
    cases ht : a.isTentative
    · have hp : isTentOf s a = false := by simp [isTentOf, ht]
      simp only [List.any, hp, Bool.false_or] at h
      simp only [Bool.not_false, if_true, List.any, hp, Bool.false_or]
      exact ih h
    · simp only [Bool.not_true, Bool.false_eq_true, if_false]
      cases hp : isTentOf s a
      · simp only [List.any, hp, Bool.false_or] at h
        split
        · exact ih h
        · split
          · exact ih h
          · simp only [List.any, hp, Bool.false_or]; exact ih h
      · have hsym : a.sym = s := isTentOf_sym hp
        rw [hsym, hreal]
        simp only [Bool.false_eq_true, if_false]
        split
        · rename_i hlater
          exact ih hlater
        · simp [List.any, hp]

end ChibiVerif.Linkage
