/-
The hand-written cursor functions of Model/Literals.lean and Model/Text.lean are equal, on every input, to the
functions translated from tokenize.c (Gen/LitReadersGen.lean): `from_hex`, `read_escaped_char` (octal arm, hexadecimal
arm with its loop, simple escapes), `read_universal_char`, `string_literal_end`.
-/
import ChibiVerif.Model.LitReaders
import ChibiVerif.Model.Text
import ChibiVerif.Lemmas.LiteralsReaderLemmas

set_option linter.unusedSimpArgs false
set_option linter.unusedVariables false

namespace ChibiVerif.Lemmas.Translated
open ChibiVerif.Gen.Literals
open ChibiVerif.Literals
open ChibiVerif.LitReaders
open ChibiVerif.Lemmas.Literals
open ChibiVerif.Lemmas.Readers

namespace T
export ChibiVerif.Gen.LitReaders (isxdigit fromHex escapeSwitch readEscapedChar readEscapedChar_loop1 readUniversalChar
  readUniversalChar_loop1 stringLiteralEnd stringLiteralEnd_loop1 ReadErr)
end T

theorem mapError_ok {ε ε' α : Type} (f : ε → ε') (x : Except ε α) (v : α) (h : x.mapError f = .ok v) : x = .ok v := by
  cases x with
  | error e => simp [Except.mapError] at h
  | ok a => simpa [Except.mapError] using h

-- ------------------------------------------------------------------ byte-level facts (all 256 values)

theorem isxdigit_eq (b : Byte) : T.isxdigit b = isXDigit b := rfl

theorem fromHex_eq (b : Byte) : T.fromHex b = ChibiVerif.Literals.fromHex b := by
  revert b; apply forall_byte; decide +kernel

theorem oct_cond (b : Byte) :
    (((0x30#32).toInt ≤ (b.signExtend 32).toInt) ∧ ((b.signExtend 32).toInt ≤ (0x37#32).toInt)) ↔ isOctDigit b = true := by
  revert b; apply forall_byte; decide +kernel

theorem sext_eq_iff (b : Byte) :
    (b.signExtend 32 = 0x78#32 ↔ b = 120#8) ∧ (b.signExtend 32 = 0x22#32 ↔ b = 34#8) ∧
    (b.signExtend 32 = 0xA#32 ↔ b = 10#8) ∧ (b.signExtend 32 = 0#32 ↔ b = 0#8) ∧ (b.signExtend 32 = 0x5C#32 ↔ b = 92#8) := by
  revert b; apply forall_byte; decide +kernel

theorem escapeSwitch_eq (b : Byte) : T.escapeSwitch b = escapeValue b := rfl

-- ------------------------------------------------------------------ read_escaped_char

theorem hexLoop_eq (p : List Byte) : ∀ (fuel i : Nat) (c : BitVec 32),
    T.readEscapedChar_loop1 p fuel i c = .ok (hexLoop p fuel i c) := by
  intro fuel
  induction fuel with
  | zero => intro i c; rfl
  | succ fuel ih =>
    intro i c
    simp only [ChibiVerif.Gen.LitReaders.readEscapedChar_loop1, hexLoop, isxdigit_eq, fromHex_eq]
    split
    · exact ih _ _
    · rfl

/-- `read_escaped_char`: hand model = translation, for every text -/
theorem readEscapedChar_eq (p : List Byte) :
    ChibiVerif.Literals.readEscapedChar p = (T.readEscapedChar p).mapError ofReadErr := by
  unfold ChibiVerif.Literals.readEscapedChar ChibiVerif.Gen.LitReaders.readEscapedChar
  simp only [oct_cond, (sext_eq_iff _).1, isxdigit_eq, escapeSwitch_eq, hexLoop_eq]
  by_cases h0 : isOctDigit (byteAt p 0) = true
  · simp only [h0, if_true]
    by_cases h1 : isOctDigit (byteAt p 1) = true
    · simp only [h1, if_true]
      by_cases h2 : isOctDigit (byteAt p 2) = true
      · simp only [h2, if_true]; rfl
      · simp only [h2, if_false, Bool.false_eq_true]; rfl
    · simp only [h1, if_false, Bool.false_eq_true]; rfl
  · simp only [h0, if_false, Bool.false_eq_true]
    by_cases hx : byteAt p 0 = 120#8
    · simp only [hx, if_true]
      by_cases hd : isXDigit (byteAt p 1) = true
      · simp [hd, Except.mapError]
      · simp [hd, Except.mapError, ofReadErr]
    · simp only [hx, if_false]; rfl

-- ------------------------------------------------------------------ read_universal_char

theorem drop_eq_nil_byteAt (p : List Byte) (i : Nat) (h : p.drop i = []) : byteAt p i = 0#8 := by
  have : p.length ≤ i := List.drop_eq_nil_iff.mp h
  simp [byteAt, List.getD_eq_getElem?_getD, List.getElem?_eq_none this]

theorem drop_cons_byteAt (p : List Byte) (i : Nat) (b : Byte) (rest : List Byte) (h : p.drop i = b :: rest) :
    byteAt p i = b ∧ p.drop (i + 1) = rest := by
  refine ⟨byteAt_of_drop p i b rest h, ?_⟩
  have := congrArg (List.drop 1) h
  rw [List.drop_drop] at this
  simpa [Nat.add_comm] using this

theorem ruc_loop_eq (p : List Byte) (len : Nat) : ∀ (rem i : Nat) (c : BitVec 32),
    T.readUniversalChar_loop1 p len rem i c = ChibiVerif.Text.readUniversalChar (p.drop i) rem c := by
  intro rem
  induction rem with
  | zero => intro i c; simp only [ChibiVerif.Gen.LitReaders.readUniversalChar_loop1, ChibiVerif.Text.readUniversalChar]
  | succ rem ih =>
    intro i c
    cases hd : p.drop i with
    | nil =>
      have hb := drop_eq_nil_byteAt p i hd
      simp [ChibiVerif.Gen.LitReaders.readUniversalChar_loop1, ChibiVerif.Text.readUniversalChar, hb,
        ChibiVerif.Gen.LitReaders.isxdigit]
    | cons b rest =>
      obtain ⟨hb, hr⟩ := drop_cons_byteAt p i b rest hd
      simp only [ChibiVerif.Gen.LitReaders.readUniversalChar_loop1, ChibiVerif.Text.readUniversalChar, isxdigit_eq,
        fromHex_eq, hb]
      by_cases hx : isXDigit b = true
      · simp only [hx, not_true_eq_false, if_false, Bool.not_true, Bool.false_eq_true]
        rw [ih, hr]
      · simp [hx]

/-- `read_universal_char`: hand model = translation -/
theorem readUniversalChar_eq (p : List Byte) (len : Nat) :
    ChibiVerif.Text.readUniversalChar p len 0 = T.readUniversalChar p len := by
  unfold ChibiVerif.Gen.LitReaders.readUniversalChar
  rw [ruc_loop_eq]; rfl

-- ------------------------------------------------------------------ string_literal_end

theorem byteAt_ne_zero_lt (p : List Byte) (i : Nat) (h : byteAt p i ≠ 0#8) : i < p.length := by
  apply Nat.lt_of_not_le
  intro hle
  apply h
  simp [byteAt, List.getD_eq_getElem?_getD, List.getElem?_eq_none hle]

theorem strEnd_eq (p : List Byte) : ∀ (f1 f2 i : Nat), 1 ≤ f1 → p.length + 1 - i ≤ f1 → 1 ≤ f2 → p.length + 1 - i ≤ f2 →
    strEnd p f1 i = (T.stringLiteralEnd_loop1 p f2 i).mapError ofReadErr := by
  intro f1
  induction f1 with
  | zero => intro f2 i h; omega
  | succ f1 ih =>
    intro f2 i _ h1 h2 h3
    cases f2 with
    | zero => omega
    | succ f2 =>
      simp only [strEnd, ChibiVerif.Gen.LitReaders.stringLiteralEnd_loop1, (sext_eq_iff _).2.1, (sext_eq_iff _).2.2.1,
        (sext_eq_iff _).2.2.2.1, (sext_eq_iff _).2.2.2.2, ne_eq]
      by_cases hq : byteAt p i = 34#8
      · simp [hq, Except.mapError]
      · simp only [hq, not_false_eq_true, if_true, if_false]
        by_cases hz : byteAt p i = 10#8 ∨ byteAt p i = 0#8
        · simp [hz, Except.mapError, ofReadErr]
        · simp only [hz, if_false]
          have hlt : i < p.length := byteAt_ne_zero_lt p i (fun h => hz (Or.inr h))
          by_cases hb : byteAt p i = 92#8 ∧ ¬ byteAt p (i + 1) = 0#8
          · have hlt2 : i + 1 < p.length := byteAt_ne_zero_lt p (i + 1) hb.2
            simp only [hb, and_self, not_false_eq_true, if_true]
            exact ih f2 (i + 2) (by omega) (by omega) (by omega) (by omega)
          · simp only [hb, if_false]
            exact ih f2 (i + 1) (by omega) (by omega) (by omega) (by omega)

/-- `string_literal_end`: hand model = translation -/
theorem stringLiteralEnd_eq (p : List Byte) (i : Nat) :
    ChibiVerif.Literals.stringLiteralEnd p i = (T.stringLiteralEnd p i).mapError ofReadErr := by
  unfold ChibiVerif.Literals.stringLiteralEnd ChibiVerif.Gen.LitReaders.stringLiteralEnd
  exact strEnd_eq p _ _ i (by omega) (by omega) (by omega) (by omega)

end ChibiVerif.Lemmas.Translated
