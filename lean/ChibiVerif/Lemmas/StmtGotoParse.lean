/-
C03 — what `parseFn` (parse.c `stmt` + `resolve_goto_labels`) guarantees about user labels, and the
assembly of the simulation for a whole function: every `goto l` / `goto *&&l` of the parsed tree is
resolved to the unique label of a labelled statement named `l` of the same function; if that name
is defined once (6.8.1p3) the jump arrives at the statement `Spec.Ctl.find` designates.
-/
import ChibiVerif.Lemmas.StmtGotoSim

set_option linter.unusedSimpArgs false
set_option linter.unusedVariables false
namespace ChibiVerif.Ctl
open ChibiVerif.Spec.Ctl

/-- the relation a resolved jump satisfies: `(name, unique label)` is a labelled statement of the function -/
def RPairs (fbT : Stmt) : Nat → Nat → Prop := fun l t => (l, t) ∈ labelPairs fbT

/-! ### `parseStmt` records exactly the labelled statements -/

theorem parse_labels (s : SStmt) : ∀ (σ : PState) (st : Stmt) (σ' : PState),
    parseStmt s σ = .ok (st, σ') → ∀ p ∈ σ'.labels, p ∈ σ.labels ∨ p ∈ labelPairs st := by
  induction s with
  | skip =>
    intro σ st σ' h
    simp only [parseStmt, Except.ok.injEq, Prod.mk.injEq] at h
    obtain ⟨rfl, rfl⟩ := h
    exact fun p hp => Or.inl hp
  | marker k =>
    intro σ st σ' h
    simp only [parseStmt, Except.ok.injEq, Prod.mk.injEq] at h
    obtain ⟨rfl, rfl⟩ := h
    exact fun p hp => Or.inl hp
  | ret =>
    intro σ st σ' h
    simp only [parseStmt, Except.ok.injEq, Prod.mk.injEq] at h
    obtain ⟨rfl, rfl⟩ := h
    exact fun p hp => Or.inl hp
  | goto_ l =>
    intro σ st σ' h
    simp only [parseStmt, Except.ok.injEq, Prod.mk.injEq] at h
    obtain ⟨rfl, rfl⟩ := h
    exact fun p hp => Or.inl hp
  | gotoVal l =>
    intro σ st σ' h
    simp only [parseStmt, Except.ok.injEq, Prod.mk.injEq] at h
    obtain ⟨rfl, rfl⟩ := h
    exact fun p hp => Or.inl hp
  | break_ =>
    intro σ st σ' h
    simp only [parseStmt] at h
    split at h
    · cases h
    · simp only [Except.ok.injEq, Prod.mk.injEq] at h
      obtain ⟨rfl, rfl⟩ := h
      exact fun p hp => Or.inl hp
  | continue_ =>
    intro σ st σ' h
    simp only [parseStmt] at h
    split at h
    · cases h
    · simp only [Except.ok.injEq, Prod.mk.injEq] at h
      obtain ⟨rfl, rfl⟩ := h
      exact fun p hp => Or.inl hp
  | seq a b iha ihb =>
    intro σ st σ' h
    simp only [parseStmt] at h
    split at h
    · cases h
    · rename_i a' σ1 ha
      split at h
      · cases h
      · rename_i b' σ2 hb
        simp only [Except.ok.injEq, Prod.mk.injEq] at h
        obtain ⟨rfl, rfl⟩ := h
        intro p hp
        simp only [labelPairs, List.mem_append]
        rcases ihb _ _ _ hb p hp with h | h
        · rcases iha _ _ _ ha p h with h | h
          · exact Or.inl h
          · exact Or.inr (Or.inl h)
        · exact Or.inr (Or.inr h)
  | ifte c a b iha ihb =>
    intro σ st σ' h
    simp only [parseStmt] at h
    split at h
    · cases h
    · rename_i a' σ1 ha
      split at h
      · cases h
      · rename_i b' σ2 hb
        simp only [Except.ok.injEq, Prod.mk.injEq] at h
        obtain ⟨rfl, rfl⟩ := h
        intro p hp
        simp only [labelPairs, List.mem_append]
        rcases ihb _ _ _ hb p hp with h | h
        · rcases iha _ _ _ ha p h with h | h
          · exact Or.inl h
          · exact Or.inr (Or.inl h)
        · exact Or.inr (Or.inr h)
  | block s ih =>
    intro σ st σ' h
    simp only [parseStmt] at h
    split at h
    · cases h
    · rename_i s' σ1 hs
      simp only [Except.ok.injEq, Prod.mk.injEq] at h
      obtain ⟨rfl, rfl⟩ := h
      exact fun p hp => ih _ _ _ hs p hp
  | for_ i c n body ih =>
    intro σ st σ' h
    simp only [parseStmt] at h
    split at h
    · cases h
    · rename_i s' σ1 hs
      simp only [Except.ok.injEq, Prod.mk.injEq] at h
      obtain ⟨rfl, rfl⟩ := h
      exact fun p hp => ih _ _ _ hs p hp
  | doWhile body c ih =>
    intro σ st σ' h
    simp only [parseStmt] at h
    split at h
    · cases h
    · rename_i s' σ1 hs
      simp only [Except.ok.injEq, Prod.mk.injEq] at h
      obtain ⟨rfl, rfl⟩ := h
      exact fun p hp => ih _ _ _ hs p hp
  | label l s ih =>
    intro σ st σ' h
    simp only [parseStmt] at h
    split at h
    · cases h
    · rename_i s' σ1 hs
      simp only [Except.ok.injEq, Prod.mk.injEq] at h
      obtain ⟨rfl, rfl⟩ := h
      intro p hp
      simp only [List.mem_cons] at hp
      simp only [labelPairs, List.mem_cons]
      rcases hp with hp | hp
      · exact Or.inr (Or.inl hp)
      · rcases ih _ _ _ hs p hp with h | h
        · exact Or.inl h
        · exact Or.inr (Or.inr h)
  | switch_ w u k body ih =>
    intro σ st σ' h
    simp only [parseStmt] at h
    split at h
    · cases h
    · rename_i s' σ1 hs
      split at h
      · cases h
      · simp only [Except.ok.injEq, Prod.mk.injEq] at h
        obtain ⟨rfl, rfl⟩ := h
        exact fun p hp => ih _ _ _ hs p hp
  | case_ lo hi s ih =>
    intro σ st σ' h
    simp only [parseStmt] at h
    split at h
    · cases h
    · split at h
      · cases h
      · split at h
        · cases h
        · rename_i s' σ1 hs
          split at h
          · cases h
          · simp only [Except.ok.injEq, Prod.mk.injEq] at h
            obtain ⟨rfl, rfl⟩ := h
            exact fun p hp => ih _ _ _ hs p hp
  | default_ s ih =>
    intro σ st σ' h
    simp only [parseStmt] at h
    split at h
    · cases h
    · split at h
      · cases h
      · rename_i s' σ1 hs
        split at h
        · cases h
        · simp only [Except.ok.injEq, Prod.mk.injEq] at h
          obtain ⟨rfl, rfl⟩ := h
          exact fun p hp => ih _ _ _ hs p hp

/-! ### `resolve_goto_labels` -/

theorem lookupLabel_pair {L : List (Nat × Nat)} {l u : Nat} (h : lookupLabel L l = some u) : (l, u) ∈ L := by
  unfold lookupLabel at h
  cases hf : L.find? (fun p => p.1 == l) with
  | none => rw [hf] at h; cases h
  | some p =>
    rw [hf] at h
    simp only [Option.map_some, Option.some.injEq] at h
    have h1 := List.find?_some hf
    have h2 := List.mem_of_find?_eq_some hf
    simp only [beq_iff_eq] at h1
    obtain ⟨p1, p2⟩ := p
    simp only at h h1
    subst h; subst h1
    exact h2

structure RInv2 (L : List (Nat × Nat)) (st st' : Stmt) : Prop where
  pairs : labelPairs st' = labelPairs st
  goto : GotoR (fun l t => (l, t) ∈ L) True st'

theorem resolve_inv2 (L : List (Nat × Nat)) (st : Stmt) : ∀ st', resolve L st = .ok st' → RInv2 L st st' := by
  induction st with
  | skip => intro st' h; simp only [resolve, Except.ok.injEq] at h; subst h; exact ⟨rfl, trivial⟩
  | marker k => intro st' h; simp only [resolve, Except.ok.injEq] at h; subst h; exact ⟨rfl, trivial⟩
  | ret => intro st' h; simp only [resolve, Except.ok.injEq] at h; subst h; exact ⟨rfl, trivial⟩
  | goto_ k t =>
    intro st' h
    cases k with
    | brk => simp only [resolve, Except.ok.injEq] at h; subst h; exact ⟨rfl, trivial⟩
    | cont => simp only [resolve, Except.ok.injEq] at h; subst h; exact ⟨rfl, trivial⟩
    | user l =>
      simp only [resolve] at h
      split at h
      · cases h
      · rename_i u hu
        simp only [Except.ok.injEq] at h
        subst h
        exact ⟨rfl, lookupLabel_pair hu⟩
  | gotoN l =>
    intro st' h
    simp only [resolve] at h
    split at h
    · cases h
    · rename_i u hu
      simp only [Except.ok.injEq] at h
      subst h
      exact ⟨rfl, lookupLabel_pair hu⟩
  | gotoVal l t =>
    intro st' h
    simp only [resolve] at h
    split at h
    · cases h
    · rename_i u hu
      simp only [Except.ok.injEq] at h
      subst h
      exact ⟨rfl, lookupLabel_pair hu, trivial⟩
  | gotoValN l =>
    intro st' h
    simp only [resolve] at h
    split at h
    · cases h
    · rename_i u hu
      simp only [Except.ok.injEq] at h
      subst h
      exact ⟨rfl, lookupLabel_pair hu, trivial⟩
  | seq a b iha ihb =>
    intro st' h
    simp only [resolve] at h
    split at h
    · cases h
    · rename_i a' ha
      split at h
      · cases h
      · rename_i b' hb
        simp only [Except.ok.injEq] at h
        subst h
        have A := iha _ ha
        have B := ihb _ hb
        exact ⟨by simp only [labelPairs, A.pairs, B.pairs], A.goto, B.goto⟩
  | ifte k a b iha ihb =>
    intro st' h
    simp only [resolve] at h
    split at h
    · cases h
    · rename_i a' ha
      split at h
      · cases h
      · rename_i b' hb
        simp only [Except.ok.injEq] at h
        subst h
        have A := iha _ ha
        have B := ihb _ hb
        exact ⟨by simp only [labelPairs, A.pairs, B.pairs], A.goto, B.goto⟩
  | block s ih =>
    intro st' h
    simp only [resolve] at h
    split at h
    · cases h
    · rename_i s' hs
      simp only [Except.ok.injEq] at h
      subst h
      have A := ih _ hs
      exact ⟨by simp only [labelPairs, A.pairs], A.goto⟩
  | for_ i cn inc brk cont body ih =>
    intro st' h
    simp only [resolve] at h
    split at h
    · cases h
    · rename_i s' hs
      simp only [Except.ok.injEq] at h
      subst h
      have A := ih _ hs
      exact ⟨by simp only [labelPairs, A.pairs], A.goto⟩
  | doWhile brk cont body k ih =>
    intro st' h
    simp only [resolve] at h
    split at h
    · cases h
    · rename_i s' hs
      simp only [Except.ok.injEq] at h
      subst h
      have A := ih _ hs
      exact ⟨by simp only [labelPairs, A.pairs], A.goto⟩
  | case_ l lo hi s ih =>
    intro st' h
    simp only [resolve] at h
    split at h
    · cases h
    · rename_i s' hs
      simp only [Except.ok.injEq] at h
      subst h
      have A := ih _ hs
      exact ⟨by simp only [labelPairs, A.pairs], A.goto⟩
  | default_ l s ih =>
    intro st' h
    simp only [resolve] at h
    split at h
    · cases h
    · rename_i s' hs
      simp only [Except.ok.injEq] at h
      subst h
      have A := ih _ hs
      exact ⟨by simp only [labelPairs, A.pairs], A.goto⟩
  | label l u s ih =>
    intro st' h
    simp only [resolve] at h
    split at h
    · cases h
    · rename_i s' hs
      simp only [Except.ok.injEq] at h
      subst h
      have A := ih _ hs
      exact ⟨by simp only [labelPairs, A.pairs], A.goto⟩
  | switch_ w u k cs d brk body ih =>
    intro st' h
    simp only [resolve] at h
    split at h
    · cases h
    · rename_i s' hs
      simp only [Except.ok.injEq] at h
      subst h
      have A := ih _ hs
      exact ⟨by simp only [labelPairs, A.pairs], A.goto⟩

theorem GotoR.mono {R R' : Nat → Nat → Prop} {V V' : Prop} (hR : ∀ l t, R l t → R' l t) (hV : V → V') (st : Stmt) :
    GotoR R V st → GotoR R' V' st := by
  induction st with
  | seq a b iha ihb => intro h; exact ⟨iha h.1, ihb h.2⟩
  | ifte c a b iha ihb => intro h; exact ⟨iha h.1, ihb h.2⟩
  | block s ih => intro h; exact ih h
  | for_ i cn inc brk cont body ih => intro h; exact ih h
  | doWhile brk cont body k ih => intro h; exact ih h
  | switch_ w u k cs d brk body ih => intro h; exact ih h
  | case_ l lo hi s ih => intro h; exact ih h
  | default_ l s ih => intro h; exact ih h
  | label l u s ih => intro h; exact ih h
  | goto_ k t =>
    intro h
    cases k with
    | brk => trivial
    | cont => trivial
    | user l => exact hR _ _ h
  | gotoVal l t => intro h; exact ⟨hR _ _ h.1, hV h.2⟩
  | gotoN l => intro h; exact h
  | gotoValN l => intro h; exact h
  | skip => intro _; trivial
  | marker k => intro _; trivial
  | ret => intro _; trivial

/-- the side condition on code size is only needed if the function has a computed goto -/
theorem GotoR.addV {R : Nat → Nat → Prop} {V : Prop} (st : Stmt) :
    GotoR R True st → (hasGotoVal (erase st) = true → V) → GotoR R V st := by
  induction st with
  | seq a b iha ihb =>
    intro h hv
    simp only [erase, hasGotoVal, Bool.or_eq_true] at hv
    exact ⟨iha h.1 (fun x => hv (Or.inl x)), ihb h.2 (fun x => hv (Or.inr x))⟩
  | ifte c a b iha ihb =>
    intro h hv
    simp only [erase, hasGotoVal, Bool.or_eq_true] at hv
    exact ⟨iha h.1 (fun x => hv (Or.inl x)), ihb h.2 (fun x => hv (Or.inr x))⟩
  | block s ih => intro h hv; exact ih h hv
  | for_ i cn inc brk cont body ih => intro h hv; exact ih h hv
  | doWhile brk cont body k ih => intro h hv; exact ih h hv
  | switch_ w u k cs d brk body ih => intro h hv; exact ih h hv
  | case_ l lo hi s ih => intro h hv; exact ih h hv
  | default_ l s ih => intro h hv; exact ih h hv
  | label l u s ih => intro h hv; exact ih h hv
  | goto_ k t =>
    intro h _
    cases k with
    | brk => trivial
    | cont => trivial
    | user l => exact h
  | gotoVal l t => intro h hv; exact ⟨h.1, hv rfl⟩
  | gotoN l => intro h _; exact h
  | gotoValN l => intro h _; exact h
  | skip => intro _ _; trivial
  | marker k => intro _ _; trivial
  | ret => intro _ _; trivial

/-- **parse.c resolves every jump to a labelled statement of that name in the same function** -/
theorem parseFn_gotoR {u0 u1 : Nat} {s : SStmt} {st : Stmt} (h : parseFn u0 s = .ok (st, u1)) :
    GotoR (RPairs st) True st := by
  unfold parseFn at h
  split at h
  · cases h
  · rename_i st0 σ1 hp
    split at h
    · cases h
    · rename_i st' hr
      simp only [Except.ok.injEq, Prod.mk.injEq] at h
      obtain ⟨rfl, rfl⟩ := h
      have A := parse_labels s _ st0 σ1 hp
      have B := resolve_inv2 σ1.labels st0 _ hr
      refine GotoR.mono (fun l t hlt => ?_) id _ B.goto
      unfold RPairs
      rw [B.pairs]
      rcases A (l, t) hlt with h | h
      · simp [PState.init] at h
      · exact h

/-! ### a jump binds to the labelled statement of exactly its own name -/

theorem labelPairs_sublist (st : Stmt) : ((labelPairs st).map (·.2)).Sublist (defs st) := by
  induction st with
  | seq a b iha ihb => simp only [labelPairs, defs, List.map_append]; exact List.Sublist.append iha ihb
  | ifte c a b iha ihb => simp only [labelPairs, defs, List.map_append]; exact List.Sublist.append iha ihb
  | block s ih => exact ih
  | for_ i cn inc brk cont body ih =>
    simp only [labelPairs, defs]
    exact ih.trans (List.sublist_append_left _ _)
  | doWhile brk cont body k ih =>
    simp only [labelPairs, defs]
    exact ih.trans (List.sublist_append_left _ _)
  | switch_ w u k cs d brk body ih =>
    simp only [labelPairs, defs]
    exact ih.trans (List.sublist_append_left _ _)
  | case_ l lo hi s ih => simp only [labelPairs, defs]; exact List.Sublist.cons _ ih
  | default_ l s ih => simp only [labelPairs, defs]; exact List.Sublist.cons _ ih
  | label l u s ih => simp only [labelPairs, defs, List.map_cons]; exact List.Sublist.cons_cons _ ih
  | _ => simp [labelPairs, defs]

theorem parseFn_defs_nodup {u0 u1 : Nat} {s : SStmt} {st : Stmt} (h : parseFn u0 s = .ok (st, u1)) : (defs st).Nodup := by
  unfold parseFn at h
  split at h
  · cases h
  · rename_i st0 σ1 hp
    split at h
    · cases h
    · rename_i st' hr
      simp only [Except.ok.injEq, Prod.mk.injEq] at h
      obtain ⟨rfl, rfl⟩ := h
      have A2 := parse_inv2 s _ st0 σ1 hp
      have R := resolve_inv (defs st0) σ1.labels (fun p hp' => by
        rcases A2.labels p hp' with h | h
        · simp [PState.init] at h
        · exact h) st0 _ hr
      rw [R.defs]; exact A2.nodup

theorem gotoR_names {R : Nat → Nat → Prop} {V : Prop} (st : Stmt) :
    GotoR R V st → ∀ l ∈ jumpNames (erase st), ∃ t, R l t := by
  induction st with
  | seq a b iha ihb =>
    intro h l hl
    simp only [erase, jumpNames, List.mem_append] at hl
    rcases hl with hl | hl
    · exact iha h.1 l hl
    · exact ihb h.2 l hl
  | ifte c a b iha ihb =>
    intro h l hl
    simp only [erase, jumpNames, List.mem_append] at hl
    rcases hl with hl | hl
    · exact iha h.1 l hl
    · exact ihb h.2 l hl
  | block s ih => intro h l hl; exact ih h l hl
  | for_ i cn inc brk cont body ih => intro h l hl; exact ih h l hl
  | doWhile brk cont body k ih => intro h l hl; exact ih h l hl
  | switch_ w u k cs d brk body ih => intro h l hl; exact ih h l hl
  | case_ l' lo hi s ih => intro h l hl; exact ih h l hl
  | default_ l' s ih => intro h l hl; exact ih h l hl
  | label l' u s ih => intro h l hl; exact ih h l hl
  | goto_ k t =>
    intro h l hl
    cases k with
    | brk => simp [erase, jumpNames] at hl
    | cont => simp [erase, jumpNames] at hl
    | user l' =>
      simp only [erase, jumpNames, List.mem_singleton] at hl
      subst hl; exact ⟨t, h⟩
  | gotoVal l' t =>
    intro h l hl
    simp only [erase, jumpNames, List.mem_singleton] at hl
    subst hl; exact ⟨t, h.1⟩
  | gotoN l' => intro h; exact absurd h (by simp [GotoR])
  | gotoValN l' => intro h; exact absurd h (by simp [GotoR])
  | skip => intro _ l hl; simp [erase, jumpNames] at hl
  | marker k => intro _ l hl; simp [erase, jumpNames] at hl
  | ret => intro _ l hl; simp [erase, jumpNames] at hl

/-! ### named labels: `find` and the resolved label agree when the name is defined once -/

theorem labelNames_erase (st : Stmt) : labelNames (erase st) = (labelPairs st).map (·.1) := by
  induction st with
  | seq a b iha ihb => simp only [erase, labelNames, labelPairs, List.map_append, iha, ihb]
  | block s ih => simpa only [erase, labelNames, labelPairs] using ih
  | ifte c a b iha ihb => simp only [erase, labelNames, labelPairs, List.map_append, iha, ihb]
  | for_ i cnd inc brk cont body ih => simpa only [erase, labelNames, labelPairs] using ih
  | doWhile brk cont body c ih => simpa only [erase, labelNames, labelPairs] using ih
  | switch_ w u key cs d brk body ih => simpa only [erase, labelNames, labelPairs] using ih
  | case_ l lo hi s ih => simpa only [erase, labelNames, labelPairs] using ih
  | default_ l s ih => simpa only [erase, labelNames, labelPairs] using ih
  | label l u s ih => simp only [erase, labelNames, labelPairs, List.map_cons, ih]
  | goto_ kind t => cases kind <;> rfl
  | _ => rfl

theorem hitLabels_lbl (l : Nat) (st : Stmt) :
    hitLabels (.lbl l) st = ((labelPairs st).filter (fun p => l == p.1)).map (·.2) := by
  induction st with
  | seq a b iha ihb => simp only [hitLabels, labelPairs, List.filter_append, List.map_append, iha, ihb]
  | block s ih => simpa only [hitLabels, labelPairs] using ih
  | ifte c a b iha ihb => simp only [hitLabels, labelPairs, List.filter_append, List.map_append, iha, ihb]
  | for_ i cnd inc brk cont body ih => simpa only [hitLabels, labelPairs] using ih
  | doWhile brk cont body c ih => simpa only [hitLabels, labelPairs] using ih
  | switch_ w u key cs d brk body ih => simpa [hitLabels, labelPairs, Target.enters] using ih
  | case_ l' lo hi s ih => simpa [hitLabels, labelPairs, Target.hitCase] using ih
  | default_ l' s ih => simpa [hitLabels, labelPairs, Target.hitDflt] using ih
  | label l' u s ih =>
    simp only [hitLabels, labelPairs, Target.hitLabel, List.filter_cons]
    by_cases h : (l == l') = true <;> simp [h, ih]
  | _ => simp [hitLabels, labelPairs]

theorem filter_of_count_one (l t : Nat) : ∀ L : List (Nat × Nat), (L.map (·.1)).count l = 1 → (l, t) ∈ L →
    (L.filter (fun p => l == p.1)).map (·.2) = [t] := by
  intro L
  induction L with
  | nil => intro _ h; cases h
  | cons a r ih =>
    intro hc hm
    obtain ⟨a1, a2⟩ := a
    simp only [List.map_cons, List.count_cons] at hc
    by_cases ha : a1 = l
    · subst ha
      simp only [beq_self_eq_true, if_true] at hc
      have h0 : (r.map (·.1)).count a1 = 0 := by omega
      have hnot : ∀ p ∈ r, p.1 ≠ a1 := by
        intro p hp he
        have hmem : a1 ∈ r.map (·.1) := by rw [← he]; exact List.mem_map_of_mem hp
        exact (List.count_eq_zero.1 h0) hmem
      have hf : r.filter (fun p => a1 == p.1) = [] := by
        rw [List.filter_eq_nil_iff]
        intro p hp
        simp only [beq_iff_eq]
        exact fun h => hnot p hp h.symm
      simp only [List.filter_cons, beq_self_eq_true, if_true, hf, List.map_cons, List.map_nil]
      rcases List.mem_cons.1 hm with h | h
      · cases h; rfl
      · exact absurd rfl (hnot _ h)
    · have hb : (a1 == l) = false := by simpa using ha
      have hb' : (l == a1) = false := by simpa using fun h : l = a1 => ha h.symm
      simp only [hb, Bool.false_eq_true, if_false, Nat.add_zero] at hc
      simp only [List.filter_cons, hb', Bool.false_eq_true, if_false]
      rcases List.mem_cons.1 hm with h | h
      · cases h; exact absurd rfl ha
      · exact ih hc h

/-! ### the whole function -/

/-- **forward simulation, all statements.**  `st` is the parsed body of a function (jumps bound,
    user jumps resolved to labelled statements of the function), its labels are unique in the
    code, the source satisfies the constraints `validG`, and code addresses fit a register if a
    computed goto occurs: whatever `execG` answers after any number of steps, the code does. -/
theorem goto_sim (ω : Nat → Val) {s : SStmt} {st : Stmt} (c0 : Nat)
    (hu : UniqueLabels (genFn st c0)) (hB : Bound none none st) (he : erase st = s)
    (hgr : GotoR (RPairs st) True st) (hv : validG s = true)
    (hsz : hasGotoVal s = true → (genFn st c0).length < 2 ^ 64) (fuel : Nat) (σ : SState) :
    match execG ω fuel s σ with
    | .done _ σ' => Runs ω (genFn st c0) (0, σ) ((genFn st c0).length, σ')
    | .timeout σ' => ∃ q, Runs ω (genFn st c0) (0, σ) (q, σ')
    | .unsupported => False := by
  subst he
  have hcode : CodeAt (genFn st c0) 0 (genStmt st c0).1 := ⟨[], [.label .ret], by simp [genFn], rfl⟩
  have hret : (genFn st c0)[(genStmt st c0).1.length]? = some (CIns.label .ret) := by simp [genFn]
  have hlen : (genFn st c0).length = (genStmt st c0).1.length + 1 := by simp [genFn]
  have hgood : Good (erase st) (RPairs st) ((genFn st c0).length < 2 ^ 64) none none st :=
    ⟨hB, GotoR.addV st hgr hsz, hv⟩
  have hk0 : MatchK ω (genFn st c0) (erase st) (RPairs st) ((genFn st c0).length < 2 ^ 64) .stop
      (0 + (genStmt st c0).1.length) none none :=
    .stop (by rw [Nat.zero_add]; exact Silent.refl ω _ _) hret
  have H : FnOK ω (genFn st c0) (erase st) (RPairs st) ((genFn st c0).length < 2 ^ 64) (genStmt st c0).1.length := by
    refine ⟨hu, hret, hlen, id, ?_⟩
    intro l t hR hok
    have hhit : hitLabels (.lbl l) st = [t] := by
      rw [hitLabels_lbl]
      apply filter_of_count_one l t _ _ hR
      rw [← labelNames_erase]
      simpa [labelOK] using hok
    cases hf : find (.lbl l) (erase st) .stop with
    | none =>
      have := find_none _ st _ hf
      rw [hhit] at this; cases this
    | some r =>
      obtain ⟨u, rest, q, h1, h2, h3⟩ := find_entry hu (.lbl l) st c0 0 .stop none none r.1 r.2 hcode hgood hk0 hf
      rw [hhit] at h1
      simp only [List.cons.injEq] at h1
      obtain ⟨rfl, _⟩ := h1
      exact ⟨r, q, rfl, h2, h3⟩
  exact run_sim H fuel (erase st) .stop 0 σ ⟨st, c0, none, none, rfl, hcode, hgood, hk0⟩

end ChibiVerif.Ctl
