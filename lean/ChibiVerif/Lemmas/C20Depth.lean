/-
C20: `depth` (the code generator's count of 8-byte slots pushed) is unchanged by the code of every
node of every kind — control flow, statement expressions, calls, atomics, alloca included.

This is the invariant behind `assert(depth == 0)` in `emit_text` and behind the parity that
`push_args` uses to align the stack at a call.  It needs no semantics of the printed lines (only
the bookkeeping of the generator), so it reaches all 47 node kinds; the only side condition is
that the sizes of struct/union arguments of calls are not negative.
-/
import ChibiVerif.Lemmas.C20Induction

namespace ChibiVerif.Lemmas.C20
open ChibiVerif ChibiVerif.Codegen ChibiVerif.Effect ChibiVerif.Asm ChibiVerif.Ast ChibiVerif.C20Scope

/-- whenever `m` succeeds, `depth` has changed by `d` -/
def Dep (m : M α) (d : Int) : Prop :=
  ∀ (s : St) (a : α) (s' : St) (ls : List Line), m s = .ok (a, s', ls) → s'.depth = s.depth + d

theorem Dep.cast {m : M α} (h : Dep m d) (hd : d = d') : Dep m d' := by subst hd; exact h

theorem Dep_of_Sem {m : M α} (h : Sem m r x d) : Dep m d := fun s a s' ls hm => (h.elim hm).2

theorem Dep_pure (a : α) : Dep (pure a : M α) 0 := Dep_of_Sem (Sem_pure a)
theorem Dep_fail (msg : String) : Dep (fail msg : M α) d := Dep_of_Sem (Sem_fail (r := 0) (x := 0) msg)
theorem Dep_nullDeref (w : String) : Dep (nullDeref w : M α) d := Dep_fail _
theorem Dep_emit (l : Line) : Dep (emit l) 0 := by
  intro s a s' ls hm
  simp only [emit, Except.ok.injEq, Prod.mk.injEq] at hm
  rw [← hm.2.1]; simp
theorem Dep_emits (l : List Line) : Dep (emits l) 0 := by
  intro s a s' ls hm
  simp only [emits, Except.ok.injEq, Prod.mk.injEq] at hm
  rw [← hm.2.1]; simp
theorem Dep_addDepth (k : Int) : Dep (addDepth k) k := Dep_of_Sem (Sem_addDepth k)

theorem Dep_bind {m : M α} {f : α → M β} (h1 : Dep m d1) (h2 : ∀ a, Dep (f a) d2) :
    Dep (m >>= f) (d1 + d2) := by
  intro s b s' ls h
  simp only [bind, M.bind] at h
  split at h
  · cases h
  · rename_i a s1 l1 hm
    split at h
    · cases h
    · rename_i b' s2 l2 hf
      simp only [Except.ok.injEq, Prod.mk.injEq] at h
      obtain ⟨_, rfl, _⟩ := h
      rw [h2 a _ _ _ _ hf, h1 _ _ _ _ hm, Int.add_assoc]

theorem Dep_bind_td {m : M α} {f : α → M β} {d d1 : Int} (h1 : Dep m d1) (h2 : ∀ a, Dep (f a) (d - d1)) :
    Dep (m >>= f) d :=
  (Dep_bind h1 h2).cast (by omega)

attribute [irreducible] Dep

/-- a leaf of the `depth` derivation -/
syntax "dep_leaf" : tactic
macro_rules
  | `(tactic| dep_leaf) => `(tactic| first
      | assumption
      | exact Dep_pure _
      | exact Dep_emit _
      | exact Dep_emits _
      | exact Dep_addDepth _
      | exact Dep_of_Sem Sem_getDepth
      | exact Dep_of_Sem Sem_count
      | exact Dep_of_Sem (Sem_needTy _ _)
      | exact Dep_of_Sem (Sem_needVar _ _)
      | exact Dep_of_Sem (Sem_liftE _)
      | exact Dep_of_Sem (Sem_regAx _)
      | exact Dep_of_Sem (Sem_regDx _)
      | exact Dep_of_Sem Sem_push
      | exact Dep_of_Sem Sem_pushf
      | exact Dep_of_Sem (Sem_popf _)
      | exact Dep_of_Sem (Sem_pop _ (by decide))
      | exact Dep_of_Sem (Sem_discard _)
      | exact Dep_of_Sem (Sem_loc _)
      | exact Dep_of_Sem (Sem_load _)
      | exact Dep_of_Sem (Sem_store _)
      | exact Dep_of_Sem (Sem_cmpZero _)
      | exact Dep_of_Sem (Sem_cast _ _)
      | exact Dep_of_Sem (Sem_addrVar _ _ _)
      | exact Dep_of_Sem (Sem_bitfieldExtract _ _)
      | exact Dep_of_Sem (Sem_memzeroArm _ _)
      | exact Dep_of_Sem (Sem_numArm _ _ _ _ _ _))

/-- derive `Dep m d`: peel the `do` block action by action, split every `if`/`match` -/
syntax "dep" : tactic
macro_rules
  | `(tactic| dep) => `(tactic| repeat' (first
      | exact Dep_fail _
      | exact Dep_nullDeref _
      | (refine Dep.cast (by assumption) ?_ <;> (first | rfl | omega))
      | (refine Dep_bind_td (by dep_leaf) (fun _ => ?_))
      | (refine Dep.cast (by dep_leaf) ?_ <;> (first | rfl | omega))
      | dsimp only
      | split))

/-! ### arms -/

theorem Dep_addrMember {a : M Unit} (h : Dep a 0) (mem : Option Member) : Dep (addrMember a mem) 0 := by
  unfold addrMember; dep

theorem Dep_negArm (i : NInfo) {lhs : M Unit} (h : Dep lhs 0) : Dep (negArm i lhs) 0 := by
  unfold negArm; dep

theorem Dep_memberArm (i : NInfo) {a : M Unit} (h : Dep a 0) (mem : Option Member) (env : Env) :
    Dep (memberArm i a mem env) 0 := by
  unfold memberArm
  have := Dep_addrMember h mem
  dep

theorem Dep_assignArm (env : Env) (i : NInfo) (bf : Option Member) {a r : M Unit} (ha : Dep a 0) (hr : Dep r 0) :
    Dep (assignArm env i bf a r) 0 := by
  unfold assignArm; dep

theorem Dep_condArm {c t e : M Unit} (cty : Option Ty) (hc : Dep c 0) (ht : Dep t 0) (he : Dep e 0) :
    Dep (condArm c cty t e) 0 := by
  unfold condArm; dep

theorem Dep_notArm {lhs : M Unit} (lty : Option Ty) (h : Dep lhs 0) : Dep (notArm lhs lty) 0 := by
  unfold notArm; dep

theorem Dep_logandArm {lhs rhs : M Unit} (lty rty : Option Ty) (hl : Dep lhs 0) (hr : Dep rhs 0) :
    Dep (logandArm lhs lty rhs rty) 0 := by
  unfold logandArm; dep

theorem Dep_logorArm {lhs rhs : M Unit} (lty rty : Option Ty) (hl : Dep lhs 0) (hr : Dep rhs 0) :
    Dep (logorArm lhs lty rhs rty) 0 := by
  unfold logorArm; dep

set_option maxHeartbeats 1000000 in
theorem Dep_casArm (env : Env) {addr old new : M Unit} (aty oty nty : Option Ty) (ha : Dep addr 0) (ho : Dep old 0)
    (hn : Dep new 0) : Dep (casArm env addr aty old oty new nty) 0 := by
  unfold casArm; dep

theorem Dep_exchArm (env : Env) {lhs rhs : M Unit} (lty : Option Ty) (hl : Dep lhs 0) (hr : Dep rhs 0) :
    Dep (exchArm env lhs lty rhs) 0 := by
  unfold exchArm; dep

set_option maxHeartbeats 2000000 in
theorem Dep_binopArm (i : NInfo) (op : BinOp) {lhs rhs : M Unit} (lty : Option Ty) (hl : Dep lhs 0) (hr : Dep rhs 0) :
    Dep (binopArm i op lhs lty rhs) 0 := by
  unfold binopArm
  refine Dep_bind_td (d1 := 0) (by dep_leaf) (fun lty' => ?_)
  have h1 : ∀ sz, Dep (binopFlo sz op lhs rhs) 0 := by
    intro sz; unfold binopFlo; cases op <;> dep
  have h2 : Dep (binopLd op lhs rhs) 0 := by
    unfold binopLd; cases op <;> dep
  have h3 : Dep (binopInt i op lty' lhs rhs) 0 := by
    unfold binopInt; cases op <;> dep
  split <;> first | exact (h1 _).cast (by omega) | exact h2.cast (by omega) | exact h3.cast (by omega)

theorem Dep_ifArm {c t : M Unit} (cty : Option Ty) (e : Option (M Unit)) (hc : Dep c 0) (ht : Dep t 0)
    (he : ∀ x, e = some x → Dep x 0) : Dep (ifArm c cty t e) 0 := by
  unfold ifArm
  cases e with
  | none => dep
  | some x => have := he x rfl; dep

theorem Dep_forArm {t : M Unit} (init : Option (M Unit)) (c inc : Option (M Unit × Option Ty)) (brk cont : Option String)
    (hi : ∀ x, init = some x → Dep x 0) (hc : ∀ x, c = some x → Dep x.1 0) (ht : Dep t 0)
    (hinc : ∀ x, inc = some x → Dep x.1 0) : Dep (forArm init c t inc brk cont) 0 := by
  unfold forArm
  cases init with
  | none =>
    cases c with
    | none =>
      cases inc with
      | none => dep
      | some z => obtain ⟨z1, z2⟩ := z; have := hinc _ rfl; dep
    | some y =>
      obtain ⟨y1, y2⟩ := y
      have := hc _ rfl
      cases inc with
      | none => dep
      | some z => obtain ⟨z1, z2⟩ := z; have := hinc _ rfl; dep
  | some x =>
    have := hi x rfl
    cases c with
    | none =>
      cases inc with
      | none => dep
      | some z => obtain ⟨z1, z2⟩ := z; have := hinc _ rfl; dep
    | some y =>
      obtain ⟨y1, y2⟩ := y
      have := hc _ rfl
      cases inc with
      | none => dep
      | some z => obtain ⟨z1, z2⟩ := z; have := hinc _ rfl; dep

theorem Dep_doArm {t c : M Unit} (cty : Option Ty) (brk cont : Option String) (ht : Dep t 0) (hc : Dep c 0) :
    Dep (doArm t c cty brk cont) 0 := by
  unfold doArm; dep

theorem Dep_switchArm {c t : M Unit} (cty : Option Ty) (brk : Option String) (cases : List Case)
    (dflt : Option (Option String)) (hc : Dep c 0) (ht : Dep t 0) : Dep (switchArm c cty t brk cases dflt) 0 := by
  unfold switchArm; dep

theorem Dep_copyStructReg (env : Env) : Dep (copyStructReg env) 0 := by
  unfold copyStructReg; dep

theorem Dep_copyStructMem (env : Env) : Dep (copyStructMem env) 0 := by
  unfold copyStructMem; dep

theorem Dep_returnArm (env : Env) (lhs : Option (M Unit × Option Ty)) (h : ∀ x, lhs = some x → Dep x.1 0) :
    Dep (returnArm env lhs) 0 := by
  unfold returnArm
  have h1 := Dep_copyStructReg env
  have h2 := Dep_copyStructMem env
  cases lhs with
  | none => dep
  | some x => obtain ⟨x1, x2⟩ := x; have := h _ rfl; dep

theorem Dep_builtinAlloca (env : Env) : Dep (builtinAlloca env) 0 := by
  unfold builtinAlloca; dep


/-! ### calls -/

theorem Dep_bind_ret {m : M α} {f : α → M β} {P : α → Prop} (h1 : Dep m d1) (hr : Ret m P)
    (h2 : ∀ a, P a → Dep (f a) d2) : Dep (m >>= f) (d1 + d2) := by
  unfold Dep at *
  intro s b s' ls h
  simp only [bind, M.bind] at h
  split at h
  · cases h
  · rename_i a s1 l1 hm
    split at h
    · cases h
    · rename_i b' s2 l2 hf
      simp only [Except.ok.injEq, Prod.mk.injEq] at h
      obtain ⟨_, rfl, _⟩ := h
      rw [h2 a (hr _ _ _ _ hm) _ _ _ _ hf, h1 _ _ _ _ hm, Int.add_assoc]

theorem Dep_pushArgs2 : ∀ (l : List (Arg × Bool)) (p : Bool), (∀ ab ∈ l, Dep ab.1.gen 0) →
    Dep (pushArgs2 l p) (selSlots l p)
  | [], p, _ => by
    unfold pushArgs2 selSlots
    exact Dep_pure ()
  | (arg, b) :: rest, p, h => by
    unfold pushArgs2
    have ih := Dep_pushArgs2 rest p (fun ab hab => h ab (List.mem_cons_of_mem _ hab))
    have hg := h (arg, b) List.mem_cons_self
    simp only at hg
    simp only [selSlots]
    refine Dep_bind_td ih (fun _ => ?_)
    by_cases hbp : b = p
    · subst hbp
      have hskip : ((b && !b) || (!b && b)) = false := by cases b <;> rfl
      simp only [hskip, Bool.false_eq_true, if_false, beq_self_eq_true, if_true]
      refine Dep_bind_td hg (fun _ => ?_)
      refine (Dep_bind_ret (d1 := 0) (d2 := slotsO arg.ty) (Dep_of_Sem (Sem_needTy _ _))
        (fun s a s' l hm => needTy_eq hm) (fun ty hty => ?_)).cast (by omega)
      rw [hty]
      simp only [slotsO, slots]
      have hps := Dep_of_Sem (Sem_pushStruct ty)
      cases hk : ty.kind <;> simp only <;> first | exact hps | dep
    · have hskip : ((p && !b) || (!p && b)) = true := by cases b <;> cases p <;> simp_all
      have hbp' : (b == p) = false := by simpa using hbp
      simp only [hskip, if_true, hbp', Bool.false_eq_true, if_false]
      exact (Dep_pure ()).cast (by omega)

theorem Dep_callRest (env : Env) (i : NInfo) {fn : M Unit} (rb : Option Var) (args : List Arg) (st pops : Int)
    (hfn : Dep fn 0)
    (hpop : Dep (popArgs env args (if bigV i rb = true then 1 else 0) 0) (-pops)) :
    Dep (callRest env i fn rb args st) (-(st + pops + (if bigV i rb = true then 1 else 0))) := by
  unfold callRest
  refine Dep_bind_td hfn (fun _ => ?_)
  refine (Dep_bind_ret (Dep_of_Sem (Sem_bigRet i rb)) (Ret_bigRet i rb) (fun big hbig => ?_)).cast (d := 0 + _)
    (Int.zero_add _)
  subst hbig
  have key : ∀ (gf : Int × Int), Dep (do
      emit (ins2 "mov" rax (.r "%r10"))
      emit (ins2 "mov" (.i gf.2) rax)
      let ty ← needTy "node->ty" i.ty
      callTail env rb ty st) (-st) := by
    intro gf
    refine Dep_bind_td (Dep_emit _) (fun _ => ?_)
    refine Dep_bind_td (Dep_emit _) (fun _ => ?_)
    refine Dep_bind_td (d1 := 0) (Dep_of_Sem (Sem_needTy _ _)) (fun ty => ?_)
    exact (Dep_of_Sem (Sem_callTail env rb ty st)).cast (by omega)
  cases hb : bigV i rb <;> simp only [hb, Bool.false_eq_true, if_false, if_true] at hpop ⊢ <;>
    simp only [M_bind_assoc, M_pure_bind]
  · exact (Dep_bind hpop key).cast (by omega)
  · exact (Dep_bind (Dep_of_Sem (Sem_popGp 0)) (fun _ => Dep_bind hpop key)).cast (by omega)

/-- `depth` after a call is `depth` before it, for every argument list whose struct argument sizes are
    not negative — whatever is inside the arguments and the callee expression -/
theorem Dep_funcallArm (env : Env) (i : NInfo) {isAlloca : M Bool} {fn : M Unit} (rb : Option Var)
    (args : List Arg) (hia : Dep isAlloca 0) (hfn : Dep fn 0) (hargs : ∀ a ∈ args, Dep a.gen 0)
    (hs : StructArgsOK (args.map (·.ty))) : Dep (funcallArm env i isAlloca fn rb args) 0 := by
  unfold funcallArm
  refine Dep_bind_td hia (fun b => ?_)
  cases b with
  | true =>
    simp only [if_true]
    have hba := Dep_builtinAlloca env
    cases args with
    | nil => dep
    | cons a rest => have := hargs a List.mem_cons_self; dep
  | false =>
    simp only [Bool.false_eq_true, if_false]
    unfold pushArgs
    simp only [M_bind_assoc]
    refine (Dep_bind_ret (Dep_of_Sem (Sem_bigRet i rb)) (Ret_bigRet i rb) (fun big hbig => ?_)).cast (d := 0 + (0 - 0))
      (by omega)
    subst hbig
    unfold classifyArgs
    refine (Dep_bind_ret (Dep_of_Sem (Sem_liftE _)) (Ret_liftE _) (fun fs hfs => ?_)).cast (d := 0 + (0 - 0)) (by omega)
    obtain ⟨flags, stack⟩ := fs
    simp only
    have heqv : Eqv (if bigV i rb = true then 1 else 0) 0 (if bigV i rb = true then 1 else 0) 0 := by
      cases bigV i rb <;> exact ⟨by decide, by decide, by decide, by decide⟩
    obtain ⟨_, hst, hpop⟩ := popArgs_spec (K := Straight) env args _ 0 _ 0 0 flags stack heqv hs hfs
    have hz : ∀ ab ∈ args.zip flags, Dep ab.1.gen 0 :=
      fun ab hab => hargs ab.1 (mem_zip_fst (b := ab.2) hab)
    have hp1 := Dep_pushArgs2 (args.zip flags) true hz
    have hp2 := Dep_pushArgs2 (args.zip flags) false hz
    have hrest := fun st => Dep_callRest env i rb args st (selSlots (args.zip flags) false) hfn (Dep_of_Sem hpop)
    refine Dep_bind_td (d1 := 0) (Dep_of_Sem Sem_getDepth) (fun depth => ?_)
    have h1 := hrest (stack + 1)
    have h0 := hrest stack
    cases hb : bigV i rb <;> simp only [hb, Bool.false_eq_true, if_false, if_true] at h0 h1 ⊢ <;>
      split <;> simp only [M_bind_assoc, M_pure_bind]
    · exact (Dep_bind (Dep_emit _) fun _ => Dep_bind (Dep_addDepth 1) fun _ => Dep_bind hp1 fun _ =>
        Dep_bind hp2 fun _ => h1).cast (by omega)
    · exact (Dep_bind hp1 fun _ => Dep_bind hp2 fun _ => h0).cast (by omega)
    · exact (Dep_bind (Dep_emit _) fun _ => Dep_bind (Dep_addDepth 1) fun _ => Dep_bind hp1 fun _ =>
        Dep_bind hp2 fun _ => Dep_bind (Dep_of_Sem (Sem_needVar _ _)) fun _ => Dep_bind (Dep_emit _) fun _ =>
        Dep_bind (Dep_of_Sem Sem_push) fun _ => h1).cast (by omega)
    · exact (Dep_bind hp1 fun _ => Dep_bind hp2 fun _ => Dep_bind (Dep_of_Sem (Sem_needVar _ _)) fun _ =>
        Dep_bind (Dep_emit _) fun _ => Dep_bind (Dep_of_Sem Sem_push) fun _ => h0).cast (by omega)


/-! ### every node kind -/

theorem optGen_dep {n : Node} {g : M Unit} (h : Dep g 0) : ∀ x, optGen n g = some x → Dep x 0 := by
  intro x hx
  cases n <;> simp only [optGen, Option.some.injEq, reduceCtorEq] at hx <;> (subst hx; exact h)

theorem optGenMap_dep {n : Node} {g : M Unit} {t : Option Ty} (h : Dep g 0) :
    ∀ x, (optGen n g).map (·, t) = some x → Dep x.1 0 := by
  intro x hx
  cases hg : optGen n g with
  | none => simp [hg] at hx
  | some y =>
    simp only [hg, Option.map_some, Option.some.injEq] at hx
    subst hx
    exact optGen_dep h y hg

set_option maxHeartbeats 2000000 in
mutual
theorem dexpr (env : Env) : (n : Node) → okN n = true → Dep (genExpr env n) 0
  | .null, _ => by rw [genExpr]; exact Dep_nullDeref _
  | .nullExpr i, _ => by rw [genExpr]; dep
  | .num i a b c d e, _ => by rw [genExpr]; dep
  | .neg i lhs, h => by
    rw [genExpr]; simp only [okN] at h
    have := Dep_negArm i (dexpr env lhs h); dep
  | .var i v, _ => by rw [genExpr]; dep
  | .member i lhs mem, h => by
    rw [genExpr]; simp only [okN] at h
    have := Dep_memberArm i (daddr env lhs h) mem env; dep
  | .deref i lhs, h => by
    rw [genExpr]; simp only [okN] at h
    have := dexpr env lhs h; dep
  | .addr i lhs, h => by
    rw [genExpr]; simp only [okN] at h
    have := daddr env lhs h; dep
  | .assign i lhs rhs, h => by
    rw [genExpr]; simp only [okN, Bool.and_eq_true] at h
    have := Dep_assignArm env i (bitfieldOf lhs) (daddr env lhs h.1) (dexpr env rhs h.2); dep
  | .stmtExpr i body, h => by
    rw [genExpr]; simp only [okN] at h
    have := dbody env body h; dep
  | .comma i lhs rhs, h => by
    rw [genExpr]; simp only [okN, Bool.and_eq_true] at h
    have h1 := dexpr env lhs h.1
    have h2 := dexpr env rhs h.2
    dep
  | .cast i lhs, h => by
    rw [genExpr]; simp only [okN] at h
    have := dexpr env lhs h; dep
  | .memzero i v, _ => by rw [genExpr]; dep
  | .cond i c t e, h => by
    rw [genExpr]; simp only [okN, Bool.and_eq_true] at h
    have := Dep_condArm c.ty? (dexpr env c h.1.1) (dexpr env t h.1.2) (dexpr env e h.2); dep
  | .not i lhs, h => by
    rw [genExpr]; simp only [okN] at h
    have := Dep_notArm lhs.ty? (dexpr env lhs h); dep
  | .bitnot i lhs, h => by
    rw [genExpr]; simp only [okN] at h
    have := dexpr env lhs h; dep
  | .logand i lhs rhs, h => by
    rw [genExpr]; simp only [okN, Bool.and_eq_true] at h
    have := Dep_logandArm lhs.ty? rhs.ty? (dexpr env lhs h.1) (dexpr env rhs h.2); dep
  | .logor i lhs rhs, h => by
    rw [genExpr]; simp only [okN, Bool.and_eq_true] at h
    have := Dep_logorArm lhs.ty? rhs.ty? (dexpr env lhs h.1) (dexpr env rhs h.2); dep
  | .funcall i lhs fty rb args, h => by
    rw [genExpr]; simp only [okN, Bool.and_eq_true] at h
    have hs : StructArgsOK ((genArgs env args).map (·.ty)) := by
      rw [genArgs_tys]; exact structArgsOK_of_b args h.2
    have := Dep_funcallArm env i rb (genArgs env args) (Dep_of_Sem (Sem_isAllocaCall lhs)) (dexpr env lhs h.1.1)
      (dargs env args h.1.2) hs
    dep
  | .labelVal i a b, _ => by rw [genExpr]; dep
  | .cas i addr old new, h => by
    rw [genExpr]; simp only [okN, Bool.and_eq_true] at h
    have := Dep_casArm env addr.ty? old.ty? new.ty? (dexpr env addr h.1.1) (dexpr env old h.1.2) (dexpr env new h.2)
    dep
  | .exch i lhs rhs, h => by
    rw [genExpr]; simp only [okN, Bool.and_eq_true] at h
    have := Dep_exchArm env lhs.ty? (dexpr env lhs h.1) (dexpr env rhs h.2); dep
  | .binop i op lhs rhs, h => by
    simp only [okN, Bool.and_eq_true] at h
    have := Dep_binopArm i op lhs.ty? (dexpr env lhs h.1) (dexpr env rhs h.2)
    cases lhs <;> (rw [genExpr] <;> first | (intro hh; cases hh) | dep)
  | .vlaPtr i _, _ | .ret i _, _ | .if_ i _ _ _, _ | .for_ i _ _ _ _ _ _, _ | .do_ i _ _ _ _, _
  | .switch_ i _ _ _ _ _, _ | .case_ i _ _ _ _, _ | .block i _, _ | .goto_ i _ _, _ | .gotoExpr i _, _
  | .label i _ _ _, _ | .exprStmt i _, _ | .asm_ i _, _ => by rw [genExpr]; dep
theorem daddr (env : Env) : (n : Node) → okN n = true → Dep (genAddr env n) 0
  | .null, _ => by rw [genAddr]; exact Dep_nullDeref _
  | .var i v, _ => by rw [genAddr]; dep
  | .deref i lhs, h => by
    rw [genAddr]; simp only [okN] at h
    exact dexpr env lhs h
  | .comma i lhs rhs, h => by
    rw [genAddr]; simp only [okN, Bool.and_eq_true] at h
    have h1 := dexpr env lhs h.1
    have h2 := daddr env rhs h.2
    dep
  | .member i lhs mem, h => by
    rw [genAddr]; simp only [okN] at h
    exact Dep_addrMember (daddr env lhs h) mem
  | .funcall i lhs fty rb args, h => by
    simp only [okN, Bool.and_eq_true] at h
    have hs : StructArgsOK ((genArgs env args).map (·.ty)) := by
      rw [genArgs_tys]; exact structArgsOK_of_b args h.2
    have := Dep_funcallArm env i rb (genArgs env args) (Dep_of_Sem (Sem_isAllocaCall lhs)) (dexpr env lhs h.1.1)
      (dargs env args h.1.2) hs
    cases rb with
    | none => rw [genAddr]; exact Dep_fail _
    | some v => rw [genAddr]; dep
  | .assign i lhs rhs, h => by
    rw [genAddr]; simp only [okN, Bool.and_eq_true] at h
    have := Dep_assignArm env i (bitfieldOf lhs) (daddr env lhs h.1) (dexpr env rhs h.2); dep
  | .cond i c t e, h => by
    rw [genAddr]; simp only [okN, Bool.and_eq_true] at h
    have := Dep_condArm c.ty? (dexpr env c h.1.1) (dexpr env t h.1.2) (dexpr env e h.2); dep
  | .vlaPtr i v, _ => by rw [genAddr]; dep
  | .nullExpr .., _ | .num .., _ | .neg .., _ | .addr .., _ | .binop .., _ | .not .., _ | .bitnot .., _
  | .logand .., _ | .logor .., _ | .ret .., _ | .if_ .., _ | .for_ .., _ | .do_ .., _ | .switch_ .., _
  | .case_ .., _ | .block .., _ | .goto_ .., _ | .gotoExpr .., _ | .label .., _ | .labelVal .., _
  | .exprStmt .., _ | .stmtExpr .., _ | .cast .., _ | .memzero .., _ | .asm_ .., _ | .cas .., _
  | .exch .., _ => by simp only [genAddr]; exact Dep_fail _
theorem dstmt (env : Env) : (n : Node) → okN n = true → Dep (genStmt env n) 0
  | .null, _ => by rw [genStmt]; exact Dep_nullDeref _
  | .if_ i c t e, h => by
    rw [genStmt]; simp only [okN, Bool.and_eq_true] at h
    have := Dep_ifArm c.ty? (optGen e (genStmt env e)) (dexpr env c h.1.1) (dstmt env t h.1.2)
      (optGen_dep (dstmt env e h.2))
    dep
  | .for_ i init c inc t brk cont, h => by
    rw [genStmt]; simp only [okN, Bool.and_eq_true] at h
    have := Dep_forArm (t := genStmt env t) (optGen init (genStmt env init))
      ((optGen c (genExpr env c)).map (·, c.ty?)) ((optGen inc (genExpr env inc)).map (·, inc.ty?)) brk cont
      (optGen_dep (dstmt env init h.1.1.1)) (optGenMap_dep (dexpr env c h.1.1.2)) (dstmt env t h.2)
      (optGenMap_dep (dexpr env inc h.1.2))
    dep
  | .do_ i t c brk cont, h => by
    rw [genStmt]; simp only [okN, Bool.and_eq_true] at h
    have := Dep_doArm c.ty? brk cont (dstmt env t h.1) (dexpr env c h.2); dep
  | .switch_ i c t brk cases dflt, h => by
    rw [genStmt]; simp only [okN, Bool.and_eq_true] at h
    have := Dep_switchArm c.ty? brk cases dflt (dexpr env c h.1) (dstmt env t h.2); dep
  | .case_ i _ _ lbl lhs, h => by
    rw [genStmt]; simp only [okN] at h
    have := dstmt env lhs h; dep
  | .block i body, h => by
    rw [genStmt]; simp only [okN] at h
    have := dstmts env body h; dep
  | .goto_ i _ ul, _ => by rw [genStmt]; dep
  | .gotoExpr i lhs, h => by
    rw [genStmt]; simp only [okN] at h
    have := dexpr env lhs h; dep
  | .label i _ ul lhs, h => by
    rw [genStmt]; simp only [okN] at h
    have := dstmt env lhs h; dep
  | .ret i lhs, h => by
    rw [genStmt]; simp only [okN] at h
    have := Dep_returnArm env ((optGen lhs (genExpr env lhs)).map (·, lhs.ty?)) (optGenMap_dep (dexpr env lhs h))
    dep
  | .exprStmt i lhs, h => by
    rw [genStmt]; simp only [okN] at h
    have := dexpr env lhs h; dep
  | .asm_ i s, _ => by rw [genStmt]; dep
  | .nullExpr i, _ | .binop i _ _ _, _ | .neg i _, _ | .assign i _ _, _ | .cond i _ _ _, _ | .comma i _ _, _
  | .member i _ _, _ | .addr i _, _ | .deref i _, _ | .not i _, _ | .bitnot i _, _ | .logand i _ _, _
  | .logor i _ _, _ | .labelVal i _ _, _ | .funcall i _ _ _ _, _ | .stmtExpr i _, _ | .var i _, _
  | .vlaPtr i _, _ | .num i _ _ _ _ _, _ | .cast i _, _ | .memzero i _, _ | .cas i _ _ _, _
  | .exch i _ _, _ => by rw [genStmt]; dep
theorem dstmts (env : Env) : (l : NodeList) → okL l = true → Dep (genStmts env l) 0
  | .nil, _ => by rw [genStmts]; exact Dep_pure ()
  | .cons n rest, h => by
    rw [genStmts]; simp only [okL, Bool.and_eq_true] at h
    have h1 := dstmt env n h.1
    have h2 := dstmts env rest h.2
    dep
theorem dbody (env : Env) : (l : NodeList) → okL l = true → Dep (genStmtExprBody env l) 0
  | .nil, _ => by rw [genStmtExprBody]; exact Dep_pure ()
  | .cons n rest, h => by
    simp only [okL, Bool.and_eq_true] at h
    have h2 := dbody env rest h.2
    have h1 := dstmt env n h.1
    cases rest with
    | cons m rest' =>
      rw [genStmtExprBody] <;> first | (intro _ _ ha hb; cases hb) | dep
    | nil =>
      cases n with
      | exprStmt i lhs =>
        rw [genStmtExprBody]
        simp only [okN] at h
        have := dexpr env lhs h.1
        dep
      | _ => rw [genStmtExprBody] <;> first | (intro _ _ ha hb; cases ha) | dep
theorem dargs (env : Env) : (l : NodeList) → okL l = true → ∀ a ∈ genArgs env l, Dep a.gen 0
  | .nil, _ => by
    rw [genArgs]; intro a ha; cases ha
  | .cons n rest, h => by
    rw [genArgs]
    simp only [okL, Bool.and_eq_true] at h
    intro a ha
    simp only [List.mem_cons] at ha
    rcases ha with rfl | ha
    · exact dexpr env n h.1
    · exact dargs env rest h.2 a ha
end


theorem Dep.elim {m : M α} (h : Dep m d) {s : St} {a : α} {s' : St} {ls : List Line}
    (hm : m s = .ok (a, s', ls)) : s'.depth = s.depth + d := by
  unfold Dep at h
  exact h s a s' ls hm

end ChibiVerif.Lemmas.C20
