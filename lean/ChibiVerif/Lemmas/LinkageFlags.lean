/-
Helper lemmas for C15: the linkage flags `function()` ends up with (`fnFlags`) encode the class C11 gives the function
(`Spec.fnClass`): always for the repaired code (`Rules.flagsFollow`), and outside `flagsFrozenDefRegion` for the code that
takes the flags from the first declaration only.
-/
import ChibiVerif.Lemmas.LinkageDecls

namespace ChibiVerif.Linkage
open ChibiVerif.Spec.Linkage

variable [Rules]

/-- how `emit_text` / the root loop read (`is_static`, `is_inline`) -/
def classOf (stc inl : Bool) : FnClass :=
  if stc then (if inl then .localIfNeeded else .localAlways) else .globalAlways

omit [Rules] in
theorem classOf_ne_ifNeeded (stc inl : Bool) : (classOf stc inl != .localIfNeeded) = !(stc && inl) := by
  cases stc <;> cases inl <;> rfl

omit [Rules] in
theorem classOf_first (d : FnDecl) (rest : List FnDecl) : classOf (effFlags d).1 (effFlags d).2 = fnClassFirst (d :: rest) := rfl

/-! ### `fnFlags` in terms of `fnDecls` -/

/-- one more declaration of the function -/
def stepD (cur : Option Flags) (d : FnDecl) : Option Flags :=
  some (match cur with
    | some q => redeclF d.isExtern d.isInline d.body.isSome q
    | none => newFlags d.isStatic d.isExtern d.isInline d.body.isSome)

theorem flagsAfter_eq : ∀ (ds : List Decl) (f : Name) (cur : Option Flags),
    flagsAfter ds f cur = (fnDecls ds f).foldl stepD cur
  | [], _, _ => rfl
  | d :: ds, f, cur => by
    simp only [flagsAfter, List.foldl_cons]
    have ih := flagsAfter_eq ds f (stepFlags d f cur)
    simp only [flagsAfter] at ih
    rw [ih]
    cases d with
    | func g n s e i body =>
      rw [fnDecls_cons_func]
      by_cases hg : g = f
      · subst hg
        simp only [stepFlags, if_true, List.foldl_cons]
        rfl
      · have : ¬ f = g := fun e' => hg e'.symm
        simp [stepFlags, hg, this]
    | obj x s e t ty init =>
      rw [fnDecls_cons_obj]; rfl

def foldF (D : List FnDecl) (q : Flags) : Flags := D.foldl (fun q d => redeclF d.isExtern d.isInline d.body.isSome q) q

theorem foldl_stepD_some : ∀ (D : List FnDecl) (q : Flags), D.foldl stepD (some q) = some (foldF D q)
  | [], _ => rfl
  | d :: D, q => by
    simp only [List.foldl_cons, stepD, foldF]
    exact foldl_stepD_some D _

theorem fnFlags_eq (ds : List Decl) (f : Name) :
    fnFlags ds f = match fnDecls ds f with
      | [] => none
      | d :: r =>
        let q := foldF r (newFlags d.isStatic d.isExtern d.isInline d.body.isSome)
        some (q.isStatic, q.isInline) := by
  unfold fnFlags
  rw [flagsAfter_eq]
  cases fnDecls ds f with
  | nil => rfl
  | cons d r =>
    simp only [List.foldl_cons, stepD]
    rw [foldl_stepD_some]
    rfl

/-! ### the automaton against `Spec.fnClass` (repaired code) -/

section
variable (hB : Rules.flagsFollow = true)
include hB

theorem redeclF_B (e i b : Bool) (q : Flags) :
    redeclF e i b q =
      (let q1 : Flags := if q.isInlineDef && (!i || e) then { q with isInlineDef := false, isStatic := false } else q
       let q2 : Flags := if q1.isStatic && !q1.isInlineDef && i && !q1.isDefinition then { q1 with isInline := true } else q1
       { q2 with isDefinition := q2.isDefinition || b }) := by
  simp [redeclF, hB]

/-- internal linkage: `is_inline` becomes true if a declaration up to the definition says `inline` -/
theorem foldF_internal : ∀ (r : List FnDecl) (q : Flags), q.isStatic = true → q.isInlineDef = false →
    (foldF r q).isStatic = true ∧
    (foldF r q).isInline = (q.isInline || (!q.isDefinition && (uptoDef r).any (·.isInline)))
  | [], q, hs, _ => ⟨hs, by simp [foldF, uptoDef]⟩
  | n :: r, q, hs, hd => by
    have h1 := redeclF_B hB n.isExtern n.isInline n.body.isSome q
    obtain ⟨qs, qi, qd, qf⟩ := q
    simp only at hs hd
    subst hs hd
    have hstep : redeclF n.isExtern n.isInline n.body.isSome ⟨true, qi, false, qf⟩ =
        ⟨true, qi || (n.isInline && !qf), false, qf || n.body.isSome⟩ := by
      rw [h1]
      cases n.isInline <;> cases n.isExtern <;> cases qf <;> cases qi <;> rfl
    obtain ⟨ih1, ih2⟩ := foldF_internal r ⟨true, qi || (n.isInline && !qf), false, qf || n.body.isSome⟩ rfl rfl
    simp only [foldF, List.foldl_cons] at ih1 ih2 ⊢
    rw [hstep]
    refine ⟨ih1, ?_⟩
    rw [ih2]
    clear h1 hstep ih1 ih2
    have hup : (uptoDef (n :: r)).any (·.isInline) = (n.isInline || (!n.body.isSome && (uptoDef r).any (·.isInline))) := by
      simp only [uptoDef]
      cases hb : n.body.isSome <;> simp
    rw [hup]
    generalize n.isInline = ni
    generalize n.body.isSome = nb
    generalize (uptoDef r).any (·.isInline) = X
    cases nb <;> cases qf <;> cases qi <;> cases ni <;> cases X <;> rfl

/-- external linkage, settled: nothing changes any more -/
theorem foldF_global : ∀ (r : List FnDecl) (q : Flags), q.isStatic = false → q.isInlineDef = false →
    (foldF r q).isStatic = false
  | [], _, hs, _ => hs
  | n :: r, q, hs, hd => by
    have h1 := redeclF_B hB n.isExtern n.isInline n.body.isSome q
    obtain ⟨qs, qi, qd, qf⟩ := q
    simp only at hs hd
    subst hs hd
    have hstep : redeclF n.isExtern n.isInline n.body.isSome ⟨false, qi, false, qf⟩ = ⟨false, qi, false, qf || n.body.isSome⟩ := by
      rw [h1]; rfl
    simp only [foldF, List.foldl_cons]
    rw [hstep]
    exact foldF_global r _ rfl rfl

/-- an inline definition stays one as long as every declaration says `inline` without `extern` -/
theorem foldF_inlineDef : ∀ (r : List FnDecl) (q : Flags), q.isStatic = true → q.isInline = true → q.isInlineDef = true →
    (r.all (fun d => d.isInline && !d.isExtern) = true → (foldF r q).isStatic = true ∧ (foldF r q).isInline = true) ∧
    (r.all (fun d => d.isInline && !d.isExtern) = false → (foldF r q).isStatic = false)
  | [], q, hs, hi, _ => ⟨fun _ => ⟨hs, hi⟩, fun h => by simp at h⟩
  | n :: r, q, hs, hi, hd => by
    have h1 := redeclF_B hB n.isExtern n.isInline n.body.isSome q
    obtain ⟨qs, qi, qd, qf⟩ := q
    simp only at hs hi hd
    subst hs hi hd
    have hcons : ∀ q0, foldF (n :: r) q0 = foldF r (redeclF n.isExtern n.isInline n.body.isSome q0) := fun _ => rfl
    rw [hcons, List.all_cons]
    cases hk : (n.isInline && !n.isExtern)
    · -- this declaration makes the definition external
      have hstep : redeclF n.isExtern n.isInline n.body.isSome ⟨true, true, true, qf⟩ = ⟨false, true, false, qf || n.body.isSome⟩ := by
        rw [h1]
        cases hi' : n.isInline <;> cases he' : n.isExtern <;> simp_all
      rw [hstep]
      refine ⟨fun h => by simp at h, fun _ => ?_⟩
      exact foldF_global hB r _ rfl rfl
    · have hstep : redeclF n.isExtern n.isInline n.body.isSome ⟨true, true, true, qf⟩ = ⟨true, true, true, qf || n.body.isSome⟩ := by
        rw [h1]
        cases hi' : n.isInline <;> cases he' : n.isExtern <;> simp_all
      rw [hstep, Bool.true_and]
      exact foldF_inlineDef r ⟨true, true, true, qf || n.body.isSome⟩ rfl rfl rfl

/-- **the repaired `function()` computes the class C11 gives the function** -/
theorem foldF_class (d : FnDecl) (r : List FnDecl) (hv : fnValid (d :: r) = true) :
    classOf (foldF r (newFlags d.isStatic d.isExtern d.isInline d.body.isSome)).isStatic
      (foldF r (newFlags d.isStatic d.isExtern d.isInline d.body.isSome)).isInline = fnClass (d :: r) := by
  simp only [fnValid, Bool.and_eq_true, decide_eq_true_eq, Bool.or_eq_true] at hv
  obtain ⟨⟨_, hse⟩, _⟩ := hv
  have hse0 : (!(d.isStatic && d.isExtern)) = true := by
    rw [List.all_eq_true] at hse; exact hse d List.mem_cons_self
  cases hs : d.isStatic
  · -- external linkage
    have hint : fnInternal (d :: r) = false := by simp [fnInternal, hs]
    cases hk : (d.isInline && !d.isExtern)
    · -- not an inline definition: global from the start
      have hq : newFlags false d.isExtern d.isInline d.body.isSome = ⟨false, d.isInline, false, d.body.isSome⟩ := by
        simp only [newFlags, hB, Bool.false_or, Bool.not_false, Bool.and_true, Bool.true_and]
        rw [hk]
      rw [hq, foldF_global hB r _ rfl rfl]
      have : fnInlineDefOnly (d :: r) = false := by simp [fnInlineDefOnly, hk]
      simp [classOf, fnClass, hint, this]
    · simp only [Bool.and_eq_true, Bool.not_eq_true'] at hk
      have hq : newFlags false d.isExtern d.isInline d.body.isSome = ⟨true, true, true, d.body.isSome⟩ := by
        simp [newFlags, hB, hk.1, hk.2]
      rw [hq]
      obtain ⟨h1, h2⟩ := foldF_inlineDef hB r ⟨true, true, true, d.body.isSome⟩ rfl rfl rfl
      cases hall : r.all (fun d => d.isInline && !d.isExtern)
      · rw [h2 hall]
        have : fnInlineDefOnly (d :: r) = false := by simp [fnInlineDefOnly, hall]
        simp [classOf, fnClass, hint, this]
      · obtain ⟨e1, e2⟩ := h1 hall
        rw [e1, e2]
        have : fnInlineDefOnly (d :: r) = true := by simp [fnInlineDefOnly, hall, hk.1, hk.2]
        simp [classOf, fnClass, hint, this]
  · -- internal linkage
    have hint : fnInternal (d :: r) = true := by simp [fnInternal, hs]
    have he : d.isExtern = false := by
      cases he : d.isExtern
      · rfl
      · rw [hs, he] at hse0; cases hse0
    have hq : newFlags true d.isExtern d.isInline d.body.isSome = ⟨true, d.isInline, false, d.body.isSome⟩ := by
      simp [newFlags, he]
    rw [hq]
    obtain ⟨e1, e2⟩ := foldF_internal hB r ⟨true, d.isInline, false, d.body.isSome⟩ rfl rfl
    rw [e1, e2]
    have : fnInlineAny (d :: r) = (d.isInline || (!d.body.isSome && (uptoDef r).any (·.isInline))) := by
      simp only [fnInlineAny, uptoDef]
      cases hb : d.body.isSome <;> simp [hb]
    simp only [classOf, fnClass, hint, this, if_true]

end

/-- **the class the recorded flags encode** is the class C11 gives the function: for the repaired code always, for the
    code as it was when the class of the first declaration is the C11 class (outside `flagsFrozenDefRegion`) -/
theorem fnFlags_class {ds : List Decl} {f : Name} {S I : Bool} (hv : fnValid (fnDecls ds f) = true)
    (hc : Rules.flagsFollow = true ∨ fnClass (fnDecls ds f) = fnClassFirst (fnDecls ds f))
    (hfl : fnFlags ds f = some (S, I)) : classOf S I = fnClass (fnDecls ds f) := by
  cases hB : Rules.flagsFollow
  · rw [fnFlags_noB hB, firstFlags_eq] at hfl
    cases hD : fnDecls ds f with
    | nil => rw [hD] at hfl; cases hfl
    | cons d r =>
      rw [hD] at hfl hc
      simp only [List.head?_cons, Option.map_some, Option.some.injEq] at hfl
      rcases hc with h | h
      · rw [hB] at h; cases h
      · rw [h, ← classOf_first d r, hfl]
  · rw [fnFlags_eq] at hfl
    cases hD : fnDecls ds f with
    | nil => rw [hD] at hfl; cases hfl
    | cons d r =>
      rw [hD] at hfl hv
      simp only [Option.some.injEq, Prod.mk.injEq] at hfl
      rw [← hfl.1, ← hfl.2]
      exact foldF_class hB d r hv

end ChibiVerif.Linkage
