/-
Helper lemmas for the containment half of the lvalue-path family of C04 (`Model/LvalBounds.lean`): a located member lies
inside its aggregate; one in-range step stays inside the enclosing object; whole paths by induction; the offset sum of
pointer-free paths.
-/
import ChibiVerif.Model.LvalBounds
import ChibiVerif.Lemmas.LvalLemmas

namespace ChibiVerif.Lval

/-- a member found by `locate` (through any number of anonymous levels) lies, with its whole size, inside the aggregate -/
theorem Members.locate_fits : ∀ (ms : Members) (s : Nat) (nm : String) (o : Nat) (t : Ty),
    ms.fits s = true → ms.locate nm = some (o, t) → o + t.sizeof ≤ s ∧ t.fits = true
  | .nil, _, _, _, _, _, h => by simp [Members.locate] at h
  | .cons none off (.agg s' ms') rest, s, nm, o, t, hf, h => by
    simp only [Members.fits, Ty.fits, Ty.sizeof, Bool.and_eq_true] at hf
    simp only [Members.locate] at h
    cases hl : ms'.locate nm with
    | none => rw [hl] at h; exact Members.locate_fits rest s nm o t hf.2 h
    | some p =>
      obtain ⟨o', t'⟩ := p
      rw [hl] at h
      simp only [Option.some.injEq, Prod.mk.injEq] at h
      obtain ⟨rfl, rfl⟩ := h
      obtain ⟨h1, h2⟩ := Members.locate_fits ms' s' nm o' t' hf.1.2 hl
      have h3 : off + s' ≤ s := of_decide_eq_true hf.1.1
      exact ⟨by omega, h2⟩
  | .cons none _ (.scalar _) rest, s, nm, o, t, hf, h => by
    simp only [Members.fits, Bool.and_eq_true] at hf
    exact Members.locate_fits rest s nm o t hf.2 (by simpa [Members.locate] using h)
  | .cons none _ (.ptr _) rest, s, nm, o, t, hf, h => by
    simp only [Members.fits, Bool.and_eq_true] at hf
    exact Members.locate_fits rest s nm o t hf.2 (by simpa [Members.locate] using h)
  | .cons none _ (.arr _ _) rest, s, nm, o, t, hf, h => by
    simp only [Members.fits, Bool.and_eq_true] at hf
    exact Members.locate_fits rest s nm o t hf.2 (by simpa [Members.locate] using h)
  | .cons none _ (.vla _ _) rest, s, nm, o, t, hf, h => by
    simp only [Members.fits, Bool.and_eq_true] at hf
    exact Members.locate_fits rest s nm o t hf.2 (by simpa [Members.locate] using h)
  | .cons (some n) off t0 rest, s, nm, o, t, hf, h => by
    simp only [Members.fits, Bool.and_eq_true, decide_eq_true_eq] at hf
    simp only [Members.locate] at h
    cases hn : n == nm with
    | true =>
      rw [hn] at h
      simp only [if_true, Option.some.injEq, Prod.mk.injEq] at h
      obtain ⟨rfl, rfl⟩ := h
      exact ⟨hf.1.1, hf.1.2⟩
    | false =>
      rw [hn] at h
      exact Members.locate_fits rest s nm o t hf.2 (by simpa using h)

/-- element `i` of `n` elements of size `sz` starting at `a` lies inside `[a, a + sz·n)` -/
theorem elem_bounds (i : Int) (sz n : Nat) (h0 : 0 ≤ i) (h1 : i < (n : Int)) :
    0 ≤ i * (sz : Int) ∧ i * (sz : Int) + (sz : Int) ≤ ((sz * n : Nat) : Int) := by
  have hs : (0 : Int) ≤ (sz : Int) := Int.natCast_nonneg sz
  refine ⟨Int.mul_nonneg h0 hs, ?_⟩
  have h2 : (i + 1) * (sz : Int) ≤ (n : Int) * (sz : Int) := Int.mul_le_mul_of_nonneg_right (by omega) hs
  rw [Int.add_mul, Int.one_mul] at h2
  rw [Int.natCast_mul, Int.mul_comm (sz : Int) (n : Int)]
  exact h2

/-- one in-range step stays inside the enclosing object -/
theorem designateStep_bounds (env : Env) (B : Int) (S : Nat) (a : Int) (ty : Ty) (st : Step) (a' : Int) (t' : Ty)
    (hlo : B ≤ a) (hhi : a + (ty.sizeof : Int) ≤ B + (S : Int)) (hf : ty.fits = true) (hok : stepOk ty st = true)
    (hd : designateStep env a ty st = some (a', t')) :
    (encloseStep env B S a ty st).1 ≤ a' ∧
    a' + (t'.sizeof : Int) ≤ (encloseStep env B S a ty st).1 + ((encloseStep env B S a ty st).2 : Int) ∧ t'.fits = true := by
  cases st with
  | dot nm =>
    cases ty with
    | agg s ms =>
      simp only [designateStep] at hd
      cases hl : ms.locate nm with
      | none => rw [hl] at hd; simp at hd
      | some p =>
        obtain ⟨o, t⟩ := p
        rw [hl] at hd
        simp only [Option.map_some, Option.some.injEq, Prod.mk.injEq] at hd
        obtain ⟨rfl, rfl⟩ := hd
        obtain ⟨h1, h2⟩ := Members.locate_fits ms s nm o t hf hl
        simp only [encloseStep, Ty.sizeof] at hhi ⊢
        exact ⟨by omega, by omega, h2⟩
    | scalar _ => simp [designateStep] at hd
    | ptr _ => simp [designateStep] at hd
    | arr _ _ => simp [designateStep] at hd
    | vla _ _ => simp [designateStep] at hd
  | arrow nm =>
    cases ty with
    | ptr b =>
      cases b with
      | agg s ms =>
        simp only [designateStep] at hd
        cases hl : ms.locate nm with
        | none => rw [hl] at hd; simp at hd
        | some p =>
          obtain ⟨o, t⟩ := p
          rw [hl] at hd
          simp only [Option.map_some, Option.some.injEq, Prod.mk.injEq] at hd
          obtain ⟨rfl, rfl⟩ := hd
          obtain ⟨h1, h2⟩ := Members.locate_fits ms s nm o t hf hl
          simp only [encloseStep, Ty.sizeof]
          exact ⟨by omega, by omega, h2⟩
      | scalar _ => simp [designateStep] at hd
      | ptr _ => simp [designateStep] at hd
      | arr _ _ => simp [designateStep] at hd
      | vla _ _ => simp [designateStep] at hd
    | arr b n =>
      cases b with
      | agg s ms =>
        simp only [designateStep] at hd
        cases hl : ms.locate nm with
        | none => rw [hl] at hd; simp at hd
        | some p =>
          obtain ⟨o, t⟩ := p
          rw [hl] at hd
          simp only [Option.map_some, Option.some.injEq, Prod.mk.injEq] at hd
          obtain ⟨rfl, rfl⟩ := hd
          obtain ⟨h1, h2⟩ := Members.locate_fits ms s nm o t hf hl
          simp only [stepOk, decide_eq_true_eq] at hok
          have hn : s ≤ s * n := Nat.le_mul_of_pos_right s hok
          simp only [encloseStep, Ty.sizeof] at hhi ⊢
          have : ((s : Int)) ≤ ((s * n : Nat) : Int) := Int.ofNat_le.mpr hn
          exact ⟨by omega, by omega, h2⟩
      | scalar _ => simp [designateStep] at hd
      | ptr _ => simp [designateStep] at hd
      | arr _ _ => simp [designateStep] at hd
      | vla _ _ => simp [designateStep] at hd
    | scalar _ => simp [designateStep] at hd
    | vla _ _ => simp [designateStep] at hd
    | agg _ _ => simp [designateStep] at hd
  | index i =>
    cases ty with
    | ptr b =>
      simp only [designateStep, Option.some.injEq, Prod.mk.injEq] at hd
      obtain ⟨rfl, rfl⟩ := hd
      simp only [encloseStep]
      exact ⟨Int.le_refl _, Int.le_refl _, hf⟩
    | arr b n =>
      simp only [designateStep, Option.some.injEq, Prod.mk.injEq] at hd
      obtain ⟨rfl, rfl⟩ := hd
      simp only [stepOk, Bool.and_eq_true, decide_eq_true_eq] at hok
      obtain ⟨e1, e2⟩ := elem_bounds i b.sizeof n hok.1 hok.2
      simp only [encloseStep, Ty.sizeof] at hhi ⊢
      exact ⟨by omega, by omega, hf⟩
    | vla b n =>
      simp only [designateStep, Option.some.injEq, Prod.mk.injEq] at hd
      obtain ⟨rfl, rfl⟩ := hd
      simp only [stepOk, Bool.and_eq_true, decide_eq_true_eq] at hok
      obtain ⟨e1, e2⟩ := elem_bounds i b.sizeof n hok.1 hok.2
      simp only [encloseStep, Ty.sizeof] at hhi ⊢
      exact ⟨by omega, by omega, hf⟩
    | scalar _ => simp [designateStep] at hd
    | agg _ _ => simp [designateStep] at hd

/-- whole paths: the designated sub-object lies inside the enclosing object -/
theorem designate_bounds (env : Env) : ∀ (path : List Step) (B : Int) (S : Nat) (a : Int) (ty : Ty) (a' : Int) (t' : Ty),
    B ≤ a → a + (ty.sizeof : Int) ≤ B + (S : Int) → ty.fits = true → pathOk env a ty path = true →
    designate env a ty path = some (a', t') →
    (enclosing env B S a ty path).1 ≤ a' ∧
    a' + (t'.sizeof : Int) ≤ (enclosing env B S a ty path).1 + ((enclosing env B S a ty path).2 : Int) ∧ t'.fits = true := by
  intro path
  induction path with
  | nil =>
    intro B S a ty a' t' hlo hhi hf _ hd
    simp only [designate, Option.some.injEq, Prod.mk.injEq] at hd
    obtain ⟨rfl, rfl⟩ := hd
    exact ⟨hlo, hhi, hf⟩
  | cons st rest ih =>
    intro B S a ty a' t' hlo hhi hf hok hd
    simp only [designate] at hd
    simp only [pathOk, Bool.and_eq_true] at hok
    cases hs : designateStep env a ty st with
    | none => rw [hs] at hd; simp at hd
    | some p =>
      obtain ⟨a1, t1⟩ := p
      rw [hs] at hd hok
      simp only at hd hok
      obtain ⟨b1, b2, b3⟩ := designateStep_bounds env B S a ty st a1 t1 hlo hhi hf hok.1 hs
      have := ih _ _ a1 t1 a' t' b1 b2 b3 hok.2 hd
      simp only [enclosing, hs]
      exact this

/-- one pointer-free step: the address C designates is the old one plus the summand, the enclosing object stays -/
theorem offsetStep_spec (env : Env) (B : Int) (S : Nat) (a : Int) (ty : Ty) (st : Step) (k : Int) (t1 : Ty)
    (h1 : offsetStep ty st = some (k, t1)) :
    designateStep env a ty st = some (a + k, t1) ∧ encloseStep env B S a ty st = (B, S) := by
  cases st with
  | dot nm =>
    cases ty with
    | agg s ms =>
      simp only [offsetStep] at h1
      cases hl : ms.locate nm with
      | none => rw [hl] at h1; simp at h1
      | some p =>
        obtain ⟨o, t⟩ := p
        rw [hl] at h1
        simp only [Option.map_some, Option.some.injEq, Prod.mk.injEq] at h1
        obtain ⟨rfl, rfl⟩ := h1
        simp [designateStep, hl, encloseStep]
    | scalar _ => simp [offsetStep] at h1
    | ptr _ => simp [offsetStep] at h1
    | arr _ _ => simp [offsetStep] at h1
    | vla _ _ => simp [offsetStep] at h1
  | arrow nm =>
    cases ty with
    | arr b n =>
      cases b with
      | agg s ms =>
        simp only [offsetStep] at h1
        cases hl : ms.locate nm with
        | none => rw [hl] at h1; simp at h1
        | some p =>
          obtain ⟨o, t⟩ := p
          rw [hl] at h1
          simp only [Option.map_some, Option.some.injEq, Prod.mk.injEq] at h1
          obtain ⟨rfl, rfl⟩ := h1
          simp [designateStep, hl, encloseStep]
      | scalar _ => simp [offsetStep] at h1
      | ptr _ => simp [offsetStep] at h1
      | arr _ _ => simp [offsetStep] at h1
      | vla _ _ => simp [offsetStep] at h1
    | scalar _ => simp [offsetStep] at h1
    | ptr _ => simp [offsetStep] at h1
    | vla _ _ => simp [offsetStep] at h1
    | agg _ _ => simp [offsetStep] at h1
  | index i =>
    cases ty with
    | arr b n =>
      simp only [offsetStep, Option.some.injEq, Prod.mk.injEq] at h1
      obtain ⟨rfl, rfl⟩ := h1
      simp [designateStep, encloseStep]
    | vla b n =>
      simp only [offsetStep, Option.some.injEq, Prod.mk.injEq] at h1
      obtain ⟨rfl, rfl⟩ := h1
      simp [designateStep, encloseStep]
    | scalar _ => simp [offsetStep] at h1
    | ptr _ => simp [offsetStep] at h1
    | agg _ _ => simp [offsetStep] at h1

/-- a path through no pointer: the designated address is the base plus the sum of the summands, for every base and every
    memory, and the root object stays the enclosing object -/
theorem designate_of_offsetTerms (env : Env) : ∀ (path : List Step) (B : Int) (S : Nat) (a : Int) (ty : Ty) (ks : List Int) (t' : Ty),
    offsetTerms ty path = some (ks, t') →
    designate env a ty path = some (a + ks.sum, t') ∧ enclosing env B S a ty path = (B, S) := by
  intro path
  induction path with
  | nil =>
    intro B S a ty ks t' h
    simp only [offsetTerms, Option.some.injEq, Prod.mk.injEq] at h
    obtain ⟨rfl, rfl⟩ := h
    simp [designate, enclosing]
  | cons st rest ih =>
    intro B S a ty ks t' h
    simp only [offsetTerms] at h
    cases hone : offsetStep ty st with
    | none => rw [hone] at h; simp at h
    | some q1 =>
      obtain ⟨k, t1⟩ := q1
      rw [hone] at h
      simp only at h
      cases hr : offsetTerms t1 rest with
      | none => rw [hr] at h; simp at h
      | some q =>
        obtain ⟨ks', t''⟩ := q
        rw [hr] at h
        simp only [Option.map_some, Option.some.injEq, Prod.mk.injEq] at h
        obtain ⟨rfl, rfl⟩ := h
        obtain ⟨d1, d2⟩ := offsetStep_spec env B S a ty st k t1 hone
        obtain ⟨i1, i2⟩ := ih B S (a + k) t1 ks' t'' hr
        simp only [designate, enclosing, d1, d2, i1, i2, List.sum_cons]
        exact ⟨by rw [Int.add_assoc], trivial⟩

end ChibiVerif.Lval
