/-
C01: the machine with labels and jumps (Model/X86Jump) — execution lemmas.

* `stepsJ_add`, `runJ_of_steps`: `n` steps compose; a run that reaches the end of the program in `n` steps is what `runJ`
  computes with any fuel `≥ n`.
* `runJ_ins`: **on jump-free code `runJ` is `X86.run`** (so every theorem about `X86.run` is a theorem about `runJ`).
* `At p pos c`: the code `c` sits in the program `p` at position `pos`.
* `Exec p pc s pc' s'`: from `(pc, s)` the program reaches `(pc', s')`, `pc ≤ pc'`, in at most `pc' - pc` steps (every jump
  taken goes forward): what bounds the fuel by the code length.
* `findLbl_at`: label resolution by position under the freshness invariant `(defs p).Nodup`.
* `JRun c m m'`: wherever `c` sits in a program with fresh labels, execution entering `c` at its first line in state `m`
  leaves it after its last line in state `m'`.  `JRun.append`, `JRun.ins` (straight-line code: `X86.run`), `JRun.lbl`,
  `JRun.jcc_fall`, `JRun.jcc_skip`, `JRun.jmp_skip` (a taken forward jump to a label defined later in the same piece).
-/
import ChibiVerif.Model.X86Jump
import ChibiVerif.Lemmas.C01Value

namespace ChibiVerif.X86J
open ChibiVerif.Asm ChibiVerif.X86

/-! ### steps -/

theorem stepsJ_add (p : List JI) (a b : Nat) (x : Nat × State) :
    stepsJ p (a + b) x = (stepsJ p a x).bind (stepsJ p b) := by
  induction a generalizing x with
  | zero => simp [stepsJ]
  | succ a ih =>
    rw [Nat.succ_add]
    simp only [stepsJ]
    cases h : stepJ p x.1 x.2 with
    | none => simp
    | some y => simp [ih]

theorem stepJ_lt {p : List JI} {pc : Nat} {s : State} {y : Nat × State} (h : stepJ p pc s = some y) : pc < p.length := by
  unfold stepJ at h
  by_cases hl : pc < p.length
  · exact hl
  · rw [List.getElem?_eq_none (Nat.le_of_not_lt hl)] at h
    simp at h

/-- a run of `n` steps that ends past the last line is what `runJ` computes, with any fuel `≥ n` -/
theorem runJ_of_steps (p : List JI) : ∀ (n fuel pc : Nat) (s : State) (pc' : Nat) (s' : State),
    stepsJ p n (pc, s) = some (pc', s') → p.length ≤ pc' → n ≤ fuel → runJ fuel p pc s = some s' := by
  intro n
  induction n with
  | zero =>
    intro fuel pc s pc' s' h hl _
    simp only [stepsJ, Option.some.injEq, Prod.mk.injEq] at h
    obtain ⟨rfl, rfl⟩ := h
    cases fuel <;> simp [runJ, hl]
  | succ n ih =>
    intro fuel pc s pc' s' h hl hf
    simp only [stepsJ] at h
    cases hs : stepJ p pc s with
    | none => simp [hs] at h
    | some y =>
      simp only [hs, Option.bind_some] at h
      have hlt := stepJ_lt hs
      obtain ⟨f, rfl⟩ : ∃ f, fuel = f + 1 := ⟨fuel - 1, by omega⟩
      simp only [runJ, Nat.not_le.2 hlt, if_false, hs]
      exact ih f y.1 y.2 pc' s' h hl (by omega)

/-! ### code in a program -/

/-- the code `c` sits in `p` at position `pos` -/
def At (p : List JI) : Nat → List JI → Prop
  | _, [] => True
  | pos, x :: r => p[pos]? = some x ∧ At p (pos + 1) r

theorem At_append {p : List JI} : ∀ {pos : Nat} {a b : List JI}, At p pos (a ++ b) ↔ At p pos a ∧ At p (pos + a.length) b := by
  intro pos a
  induction a generalizing pos with
  | nil => intro b; simp [At]
  | cons x r ih =>
    intro b
    simp only [List.cons_append, At, List.length_cons]
    rw [ih]
    have : pos + 1 + r.length = pos + (r.length + 1) := by omega
    rw [this]
    exact and_assoc.symm

theorem At_self (p : List JI) : At p 0 p := by
  have key : ∀ (pre c : List JI), At (pre ++ c) pre.length c := by
    intro pre c
    induction c generalizing pre with
    | nil => trivial
    | cons x r ih =>
      refine ⟨by simp, ?_⟩
      have := ih (pre ++ [x])
      simpa using this
  simpa using key [] p

/-- `c` between `pre` and `post` sits at position `pre.length` -/
theorem At_mid (pre c post : List JI) : At (pre ++ c ++ post) pre.length c := by
  induction c generalizing pre with
  | nil => trivial
  | cons x r ih =>
    refine ⟨by simp, ?_⟩
    have := ih (pre ++ [x])
    simpa using this

theorem At_head {p : List JI} {pos : Nat} {x : JI} {r : List JI} (h : At p pos (x :: r)) : p[pos]? = some x := h.1

/-! ### straight-line code -/

/-- **on jump-free code `runJ` is `X86.run`**, from any position of the jump-free program -/
theorem runJ_ins_from (pre rest : List Ins) (s : State) :
    runJ rest.length (J (pre ++ rest)) pre.length s = X86.run rest s := by
  induction rest generalizing pre s with
  | nil => simp [runJ, J, X86.run]
  | cons i r ih =>
    have hlen : ¬ (J (pre ++ i :: r)).length ≤ pre.length := by simp [J]
    have hget : (J (pre ++ i :: r))[pre.length]? = some (JI.ins i) := by simp [J]
    simp only [List.length_cons, runJ, hlen, if_false, stepJ, hget, X86.run]
    cases hs : X86.step i s with
    | none => simp
    | some s1 =>
      simp only [Option.map_some]
      have := ih (pre ++ [i]) s1
      simpa using this

/-- **on jump-free code `runJ` is `X86.run`** -/
theorem runJ_ins (is : List Ins) (s : State) : runJ is.length (J is) 0 s = X86.run is s := by
  simpa using runJ_ins_from [] is s

/-! ### bounded forward execution -/

/-- from `(pc, s)` the program reaches `(pc', s')`, going forward, in at most `pc' - pc` steps -/
def Exec (p : List JI) (pc : Nat) (s : State) (pc' : Nat) (s' : State) : Prop :=
  pc ≤ pc' ∧ ∃ n, n ≤ pc' - pc ∧ stepsJ p n (pc, s) = some (pc', s')

theorem Exec.refl (p : List JI) (pc : Nat) (s : State) : Exec p pc s pc s := ⟨Nat.le_refl _, 0, by omega, rfl⟩

theorem Exec.trans {p : List JI} {a b c : Nat} {s1 s2 s3 : State} (h1 : Exec p a s1 b s2) (h2 : Exec p b s2 c s3) :
    Exec p a s1 c s3 := by
  obtain ⟨l1, n1, b1, r1⟩ := h1
  obtain ⟨l2, n2, b2, r2⟩ := h2
  refine ⟨by omega, n1 + n2, by omega, ?_⟩
  rw [stepsJ_add, r1]; exact r2

theorem Exec.step {p : List JI} {pc pc' : Nat} {s s' : State} (h : stepJ p pc s = some (pc', s')) (hlt : pc < pc') :
    Exec p pc s pc' s' :=
  ⟨by omega, 1, by omega, by simp [stepsJ, h]⟩

/-- straight-line code executes as `X86.run` -/
theorem Exec.ins {p : List JI} : ∀ {is : List Ins} {pos : Nat} {s s' : State}, At p pos (J is) → X86.run is s = some s' →
    Exec p pos s (pos + is.length) s' := by
  intro is
  induction is with
  | nil => intro pos s s' _ h; simp only [X86.run, Option.some.injEq] at h; subst h; exact Exec.refl _ _ _
  | cons i r ih =>
    intro pos s s' hat h
    simp only [X86.run] at h
    cases hs : X86.step i s with
    | none => simp [hs] at h
    | some s1 =>
      simp only [hs] at h
      have h0 : p[pos]? = some (JI.ins i) := hat.1
      have st : stepJ p pos s = some (pos + 1, s1) := by simp [stepJ, h0, hs]
      have := (Exec.step st (by omega)).trans (ih hat.2 h)
      have e : pos + 1 + r.length = pos + (i :: r).length := by simp; omega
      rw [e] at this; exact this

/-! ### labels by position -/

theorem mem_defs_of_get {p : List JI} {t : Nat} {l : Lbl} (h : p[t]? = some (.lbl l)) : l ∈ defs p := by
  induction p generalizing t with
  | nil => simp at h
  | cons x r ih =>
    cases t with
    | zero =>
      simp only [List.getElem?_cons_zero, Option.some.injEq] at h
      subst h; simp [defs]
    | succ t =>
      simp only [List.getElem?_cons_succ] at h
      have := ih h
      cases x <;> simp [defs, this]

/-- **label resolution by position under freshness**: if every label is defined once, the first definition of `l` is the
    line `l:` -/
theorem findLbl_at {p : List JI} {t : Nat} {l : Lbl} (hn : (defs p).Nodup) (h : p[t]? = some (.lbl l)) :
    findLbl p l = some t := by
  induction p generalizing t with
  | nil => simp at h
  | cons x r ih =>
    cases t with
    | zero =>
      simp only [List.getElem?_cons_zero, Option.some.injEq] at h
      subst h; simp [findLbl]
    | succ t =>
      simp only [List.getElem?_cons_succ] at h
      cases x with
      | lbl l' =>
        simp only [defs, List.nodup_cons] at hn
        have hne : l' ≠ l := fun e => hn.1 (e ▸ mem_defs_of_get h)
        simp [findLbl, hne, ih hn.2 h]
      | ins i => simp only [defs] at hn; simp [findLbl, ih hn h]
      | jmp l' => simp only [defs] at hn; simp [findLbl, ih hn h]
      | jcc c l' => simp only [defs] at hn; simp [findLbl, ih hn h]

theorem defs_append (a b : List JI) : defs (a ++ b) = defs a ++ defs b := by
  induction a with
  | nil => rfl
  | cons x r ih => cases x <;> simp [defs, ih]

theorem defs_J (is : List Ins) : defs (J is) = [] := by
  induction is with
  | nil => rfl
  | cons i r ih => simpa [J, defs] using ih

theorem length_J (is : List Ins) : (J is).length = is.length := by simp [J]

theorem J_append (a b : List Ins) : J (a ++ b) = J a ++ J b := by simp [J]
theorem J_cons (i : Ins) (r : List Ins) : J (i :: r) = JI.ins i :: J r := rfl
theorem J_nil : J [] = [] := rfl

/-! ### running a piece of code wherever it sits -/

/-- wherever `c` sits in a program whose labels are defined once, execution entering `c` in state `m` leaves it after its
    last line in state `m'`, going forward, in at most `c.length` steps -/
def JRun (c : List JI) (m m' : State) : Prop :=
  ∀ (p : List JI) (pos : Nat), At p pos c → (defs p).Nodup → Exec p pos m (pos + c.length) m'

theorem JRun.nil (m : State) : JRun [] m m := fun _ _ _ _ => Exec.refl _ _ _

theorem JRun.append {a b : List JI} {m m1 m2 : State} (h1 : JRun a m m1) (h2 : JRun b m1 m2) : JRun (a ++ b) m m2 := by
  intro p pos hat hn
  rw [At_append] at hat
  have := (h1 p pos hat.1 hn).trans (h2 p (pos + a.length) hat.2 hn)
  rw [List.length_append, ← Nat.add_assoc]; exact this

theorem JRun.ins {is : List Ins} {m m' : State} (h : X86.run is m = some m') : JRun (J is) m m' := by
  intro p pos hat _
  rw [length_J]; exact Exec.ins hat h

theorem JRun.ins1 {i : Ins} {m m' : State} (h : X86.step i m = some m') : JRun [JI.ins i] m m' :=
  JRun.ins (is := [i]) (by simp [X86.run, h])

theorem JRun.cons_ins {i : Ins} {r : List JI} {m m1 m2 : State} (h1 : X86.step i m = some m1) (h2 : JRun r m1 m2) :
    JRun (JI.ins i :: r) m m2 := JRun.append (a := [JI.ins i]) (JRun.ins1 h1) h2

/-- a label definition is a no-op -/
theorem JRun.lbl (l : Lbl) (m : State) : JRun [JI.lbl l] m m := by
  intro p pos hat _
  show Exec p pos m (pos + 1) m
  exact Exec.step (by simp [stepJ, hat.1]) (by omega)

/-- a conditional jump whose condition is false falls through -/
theorem JRun.jcc_fall {c : CC} (l : Lbl) {m : State} (hv : m.flagsValid = true) (hc : m.cond c = false) :
    JRun [JI.jcc c l] m m := by
  intro p pos hat _
  show Exec p pos m (pos + 1) m
  exact Exec.step (by simp [stepJ, hat.1, hv, hc]) (by omega)

/-- a conditional jump whose condition is true, to a label defined later in the same piece: skips `mid` -/
theorem JRun.jcc_skip {c : CC} (l : Lbl) (mid : List JI) {m : State} (hv : m.flagsValid = true) (hc : m.cond c = true) :
    JRun (JI.jcc c l :: (mid ++ [JI.lbl l])) m m := by
  intro p pos hat hn
  have h0 : p[pos]? = some (JI.jcc c l) := hat.1
  have h1 : At p (pos + 1) (mid ++ [JI.lbl l]) := hat.2
  rw [At_append] at h1
  have ht : p[pos + 1 + mid.length]? = some (JI.lbl l) := h1.2.1
  have hf := findLbl_at hn ht
  have e1 : Exec p pos m (pos + 1 + mid.length) m := Exec.step (by simp [stepJ, h0, hv, hc, hf]) (by omega)
  have e2 : Exec p (pos + 1 + mid.length) m (pos + 1 + mid.length + 1) m := Exec.step (by simp [stepJ, ht]) (by omega)
  have := e1.trans e2
  have e : pos + 1 + mid.length + 1 = pos + (JI.jcc c l :: (mid ++ [JI.lbl l])).length := by simp; omega
  rw [e] at this; exact this

/-- `jmp` to a label defined later in the same piece: skips `mid` -/
theorem JRun.jmp_skip (l : Lbl) (mid : List JI) (m : State) : JRun (JI.jmp l :: (mid ++ [JI.lbl l])) m m := by
  intro p pos hat hn
  have h0 : p[pos]? = some (JI.jmp l) := hat.1
  have h1 : At p (pos + 1) (mid ++ [JI.lbl l]) := hat.2
  rw [At_append] at h1
  have ht : p[pos + 1 + mid.length]? = some (JI.lbl l) := h1.2.1
  have hf := findLbl_at hn ht
  have e1 : Exec p pos m (pos + 1 + mid.length) m := Exec.step (by simp [stepJ, h0, hf]) (by omega)
  have e2 : Exec p (pos + 1 + mid.length) m (pos + 1 + mid.length + 1) m := Exec.step (by simp [stepJ, ht]) (by omega)
  have := e1.trans e2
  have e : pos + 1 + mid.length + 1 = pos + (JI.jmp l :: (mid ++ [JI.lbl l])).length := by simp; omega
  rw [e] at this; exact this

/-- the whole program, entered at its first line: `runJ` with fuel = number of lines -/
theorem JRun.runJ {code : List JI} {m m' : State} (h : JRun code m m') (hn : (defs code).Nodup) :
    runJ code.length code 0 m = some m' := by
  obtain ⟨_, n, hb, hs⟩ := h code 0 (At_self code) hn
  exact runJ_of_steps code n code.length 0 m _ m' hs (by omega) (by omega)

end ChibiVerif.X86J
