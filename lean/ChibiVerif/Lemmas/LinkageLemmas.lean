/-
Helper lemmas for C15 (Props/C15.lean): the view of an `Obj` list as a graph, correctness of `markLive`.
-/
import ChibiVerif.Model.Linkage

namespace ChibiVerif.Linkage

variable [Rules]

/-- evaluate a check on the result of a parse (for `decide`d examples and findings) -/
def holdsOn {ε α : Type} (r : Except ε α) (p : α → Bool) : Bool :=
  match r with
  | .ok a => p a
  | .error _ => false

/-! ### the graph an `Obj` list denotes -/

/-- `find_func(f) != NULL` -/
def isFn (gs : List Obj) (f : Name) : Bool := (findFunc gs f).isSome

/-- `find_func(f)->is_live` -/
def liveFn (gs : List Obj) (f : Name) : Bool :=
  match findFunc gs f with | some o => o.isLive | none => false

/-- `find_func(f)->refs` -/
def refsOf (gs : List Obj) (f : Name) : List Name :=
  match findFunc gs f with | some o => o.refs | none => []

/-- number of function objects whose `is_live` is still clear -/
def unmarked (gs : List Obj) : Nat := (gs.filter (fun o => o.isFunction && !o.isLive)).length

/-- reachability through recorded references; names that `find_func` does not resolve are skipped,
    exactly as `if (fn) mark_live(fn)` does -/
inductive Reach (gs : List Obj) : Name → Name → Prop where
  | refl {a} : isFn gs a = true → Reach gs a a
  | step {a b c} : Reach gs a b → c ∈ refsOf gs b → isFn gs c = true → Reach gs a c

omit [Rules] in
theorem Reach.isFn_right {gs : List Obj} {a b : Name} (h : Reach gs a b) : isFn gs b = true := by
  cases h with
  | refl h => exact h
  | step _ _ h => exact h

omit [Rules] in
theorem Reach.trans {gs : List Obj} {a b c : Name} (h1 : Reach gs a b) (h2 : Reach gs b c) : Reach gs a c := by
  induction h2 with
  | refl _ => exact h1
  | step _ hm hf ih => exact Reach.step ih hm hf

/-! ### `updFunc` seen through `findFunc` -/

def fnPred (f : Name) : Obj → Bool := fun o => o.isFunction && o.sym == .named f

omit [Rules] in
theorem findFunc_eq (gs : List Obj) (f : Name) : findFunc gs f = gs.find? (fnPred f) := rfl

omit [Rules] in
theorem fnPred_ne {f g : Name} {o : Obj} (h : g ≠ f) (hf : fnPred f o = true) : fnPred g o = false := by
  unfold fnPred at *
  cases hfun : o.isFunction
  · simp
  · simp only [hfun, Bool.true_and, beq_iff_eq] at hf
    simp only [Bool.true_and, hf, beq_eq_false_iff_ne, ne_eq, Sym.named.injEq]
    exact fun e => h e.symm

/-- an update that keeps an object a function with the same name -/
def KeepsId (u : Obj → Obj) : Prop := ∀ o, (u o).isFunction = o.isFunction ∧ (u o).sym = o.sym

omit [Rules] in
theorem fnPred_keeps {u : Obj → Obj} (hu : KeepsId u) (g : Name) (o : Obj) : fnPred g (u o) = fnPred g o := by
  unfold fnPred
  rw [(hu o).1, (hu o).2]

omit [Rules] in
theorem find_updFirst_fnPred {u : Obj → Obj} (hu : KeepsId u) (gs : List Obj) (f g : Name) :
    (updFirst (fnPred f) u gs).find? (fnPred g) =
      if g = f then (gs.find? (fnPred f)).map u else gs.find? (fnPred g) := by
  induction gs with
  | nil => simp [updFirst]
  | cons o os ih =>
    unfold updFirst
    by_cases hp : fnPred f o = true
    · simp only [hp, if_true]
      by_cases hgf : g = f
      · subst hgf
        simp [List.find?, fnPred_keeps hu, hp]
      · simp only [hgf, if_false]
        simp [List.find?, fnPred_keeps hu, fnPred_ne hgf hp]
    · simp only [hp]
      simp only [Bool.false_eq_true, if_false, List.find?]
      simp only [Bool.not_eq_true] at hp
      by_cases hgf : g = f
      · subst hgf
        simp only [hp, if_true]
        simpa using ih
      · simp only [hgf, if_false] at ih ⊢
        cases hq : fnPred g o
        · simpa using ih
        · simp

omit [Rules] in
theorem findFunc_updFunc {u : Obj → Obj} (hu : KeepsId u) (gs : List Obj) (f g : Name) :
    findFunc (updFunc gs f u) g = if g = f then (findFunc gs f).map u else findFunc gs g :=
  find_updFirst_fnPred hu gs f g

omit [Rules] in
theorem length_updFirst (p : Obj → Bool) (u : Obj → Obj) (gs : List Obj) : (updFirst p u gs).length = gs.length := by
  induction gs with
  | nil => rfl
  | cons o os ih =>
    unfold updFirst
    split <;> simp [ih]

omit [Rules] in
theorem length_setLive (gs : List Obj) (f : Name) : (setLive gs f).length = gs.length :=
  length_updFirst _ _ _

omit [Rules] in
theorem keepsId_setLive : KeepsId (fun o => { o with isLive := true }) := fun _ => ⟨rfl, rfl⟩

omit [Rules] in
theorem isFn_setLive (gs : List Obj) (f g : Name) : isFn (setLive gs f) g = isFn gs g := by
  unfold isFn setLive
  rw [findFunc_updFunc keepsId_setLive]
  by_cases h : g = f
  · subst h; simp
  · simp [h]

omit [Rules] in
theorem refsOf_setLive (gs : List Obj) (f g : Name) : refsOf (setLive gs f) g = refsOf gs g := by
  unfold refsOf setLive
  rw [findFunc_updFunc keepsId_setLive]
  by_cases h : g = f
  · subst h
    cases findFunc gs g <;> simp
  · simp [h]

omit [Rules] in
theorem liveFn_setLive (gs : List Obj) (f g : Name) :
    liveFn (setLive gs f) g = ((decide (g = f) && isFn gs f) || liveFn gs g) := by
  unfold liveFn setLive isFn
  rw [findFunc_updFunc keepsId_setLive]
  by_cases h : g = f
  · subst h
    cases findFunc gs g <;> simp
  · simp [h]

omit [Rules] in
/-- marking a function that was not live strictly decreases the number of unmarked functions -/
theorem unmarked_setLive (gs : List Obj) (f : Name) (o : Obj) (hf : findFunc gs f = some o) (hl : o.isLive = false) :
    unmarked (setLive gs f) + 1 = unmarked gs := by
  induction gs with
  | nil => simp [findFunc] at hf
  | cons a as ih =>
    simp only [findFunc_eq, List.find?] at hf
    unfold setLive updFunc updFirst
    show unmarked (if fnPred f a = true then _ else _) + 1 = _
    cases hp : fnPred f a
    · simp only [hp] at hf
      simp only [Bool.false_eq_true, if_false]
      have := ih hf
      unfold unmarked at this ⊢
      unfold setLive updFunc at this
      simp only [List.filter]
      split <;> simp_all <;> omega
    · simp only [hp, Option.some.injEq] at hf
      subst hf
      simp only [if_true]
      unfold unmarked
      have hfun : a.isFunction = true := by
        unfold fnPred at hp
        simp only [Bool.and_eq_true] at hp
        exact hp.1
      simp [List.filter, hfun, hl]

/-! ### how a run of `markLive` relates the list before and after -/

/-- `gs'` is `gs` with some `is_live` flags set, position by position -/
inductive LiveUpd : List Obj → List Obj → Prop where
  | nil : LiveUpd [] []
  | cons {o o' : Obj} {os os' : List Obj} : (o' = o ∨ o' = { o with isLive := true }) → LiveUpd os os' →
      LiveUpd (o :: os) (o' :: os')

omit [Rules] in
theorem LiveUpd.rfl' : ∀ (gs : List Obj), LiveUpd gs gs
  | [] => .nil
  | _ :: os => .cons (Or.inl rfl) (LiveUpd.rfl' os)

omit [Rules] in
theorem LiveUpd.trans : ∀ {a b c : List Obj}, LiveUpd a b → LiveUpd b c → LiveUpd a c := by
  intro a b c h1
  induction h1 generalizing c with
  | nil => intro h2; exact h2
  | cons h hs ih =>
    intro h2
    cases h2 with
    | cons h' hs' =>
      refine .cons ?_ (ih hs')
      rcases h with rfl | rfl <;> rcases h' with rfl | rfl <;> simp

omit [Rules] in
theorem liveUpd_setLive (gs : List Obj) (f : Name) : LiveUpd gs (setLive gs f) := by
  unfold setLive updFunc
  induction gs with
  | nil => exact .nil
  | cons o os ih =>
    unfold updFirst
    split
    · exact .cons (Or.inr rfl) (LiveUpd.rfl' os)
    · exact .cons (Or.inl rfl) ih

omit [Rules] in
theorem LiveUpd.mem {gs gs' : List Obj} (h : LiveUpd gs gs') {o' : Obj} (ho : o' ∈ gs') :
    ∃ o, o ∈ gs ∧ (o' = o ∨ o' = { o with isLive := true }) := by
  induction h with
  | nil => cases ho
  | cons hr _ ih =>
    rcases List.mem_cons.mp ho with rfl | ho
    · exact ⟨_, List.mem_cons_self, hr⟩
    · obtain ⟨o, hm, hh⟩ := ih ho
      exact ⟨o, List.mem_cons_of_mem _ hm, hh⟩

structure Ext (gs gs' : List Obj) : Prop where
  upd : LiveUpd gs gs'
  isFn : ∀ g, isFn gs' g = isFn gs g
  refs : ∀ g, refsOf gs' g = refsOf gs g
  mono : ∀ g, liveFn gs g = true → liveFn gs' g = true
  unm : unmarked gs' ≤ unmarked gs
  len : gs'.length = gs.length

omit [Rules] in
theorem Ext.rfl' (gs : List Obj) : Ext gs gs := ⟨LiveUpd.rfl' gs, fun _ => rfl, fun _ => rfl, fun _ h => h, Nat.le_refl _, rfl⟩

omit [Rules] in
theorem Ext.trans {a b c : List Obj} (h1 : Ext a b) (h2 : Ext b c) : Ext a c :=
  ⟨h1.upd.trans h2.upd, fun g => (h2.isFn g).trans (h1.isFn g), fun g => (h2.refs g).trans (h1.refs g),
   fun g h => h2.mono g (h1.mono g h), Nat.le_trans h2.unm h1.unm, h2.len.trans h1.len⟩

omit [Rules] in
theorem Reach.ext {a b : List Obj} (h : Ext a b) {x y : Name} : Reach a x y ↔ Reach b x y := by
  constructor
  · intro r
    induction r with
    | refl hf => exact Reach.refl (by rw [h.isFn]; exact hf)
    | step _ hm hf ih => exact Reach.step ih (by rw [h.refs]; exact hm) (by rw [h.isFn]; exact hf)
  · intro r
    induction r with
    | refl hf => exact Reach.refl (by rw [← h.isFn]; exact hf)
    | step _ hm hf ih => exact Reach.step ih (by rw [← h.refs]; exact hm) (by rw [← h.isFn]; exact hf)

/-- every live function outside `S` has all its resolvable references live -/
def ClosedExcept (gs : List Obj) (S : Name → Prop) : Prop :=
  ∀ x, liveFn gs x = true → ¬ S x → ∀ y, y ∈ refsOf gs x → isFn gs y = true → liveFn gs y = true

omit [Rules] in
theorem liveFn_isFn {gs : List Obj} {f : Name} (h : liveFn gs f = true) : isFn gs f = true := by
  unfold liveFn at h
  unfold isFn
  cases hf : findFunc gs f
  · simp [hf] at h
  · rfl

omit [Rules] in
/-- the specification of one `mark_live` call, for every graph and every fuel that covers the functions that
    are still unmarked -/
theorem markLive_spec : ∀ (n : Nat) (gs : List Obj) (f : Name) (S : Name → Prop),
    unmarked gs ≤ n → ClosedExcept gs S →
    ∃ gs', markLive n gs f = some gs' ∧ Ext gs gs' ∧ (isFn gs f = true → liveFn gs' f = true) ∧
      ClosedExcept gs' S ∧ (∀ x, liveFn gs' x = true → liveFn gs x = true ∨ Reach gs f x) := by
  intro n
  induction n with
  | zero =>
    intro gs f S hn hc
    unfold markLive
    cases hf : findFunc gs f with
    | none =>
      refine ⟨gs, rfl, Ext.rfl' gs, ?_, hc, fun x h => Or.inl h⟩
      intro h; simp [isFn, hf] at h
    | some o =>
      cases hl : o.isLive
      · -- an unmarked function exists, so `unmarked gs ≥ 1`
        exfalso
        have := unmarked_setLive gs f o hf hl
        omega
      · simp only [hl, if_true]
        refine ⟨gs, rfl, Ext.rfl' gs, ?_, hc, fun x h => Or.inl h⟩
        intro _; simp [liveFn, hf, hl]
  | succ n ih =>
    intro gs f S hn hc
    unfold markLive
    cases hf : findFunc gs f with
    | none =>
      refine ⟨gs, rfl, Ext.rfl' gs, ?_, hc, fun x h => Or.inl h⟩
      intro h; simp [isFn, hf] at h
    | some o =>
      cases hl : o.isLive
      · simp only [hl, Bool.false_eq_true, if_false]
        have hisfn : isFn gs f = true := by simp [isFn, hf]
        have hrefs : refsOf gs f = o.refs := by simp [refsOf, hf]
        -- after setting the flag
        let g0 := setLive gs f
        have hunm0 : unmarked g0 ≤ n := by
          have := unmarked_setLive gs f o hf hl
          show unmarked (setLive gs f) ≤ n
          omega
        have hext0 : Ext gs g0 :=
          ⟨liveUpd_setLive gs f, isFn_setLive gs f, refsOf_setLive gs f,
           fun g h => by show liveFn (setLive gs f) g = true; rw [liveFn_setLive]; simp [h],
           by have := unmarked_setLive gs f o hf hl; show unmarked (setLive gs f) ≤ _; omega,
           length_setLive gs f⟩
        have hlive0 : liveFn g0 f = true := by
          show liveFn (setLive gs f) f = true
          rw [liveFn_setLive]; simp [hisfn]
        let S' : Name → Prop := fun x => x = f ∨ S x
        have hc0 : ClosedExcept g0 S' := by
          intro x hx hns y hy hfy
          have hxf : x ≠ f := fun e => hns (Or.inl e)
          have hx' : liveFn gs x = true := by
            have : liveFn (setLive gs f) x = true := hx
            rw [liveFn_setLive] at this
            simpa [hxf] using this
          have hy' : y ∈ refsOf gs x := by rw [← hext0.refs]; exact hy
          have hfy' : isFn gs y = true := by rw [← hext0.isFn]; exact hfy
          exact hext0.mono y (hc x hx' (fun h => hns (Or.inr h)) y hy' hfy')
        -- the loop over the references
        have loop : ∀ (l : List Name) (g : List Obj), Ext g0 g → ClosedExcept g S' →
            ∃ g', l.foldlM (fun gs r => markLive n gs r) g = some g' ∧ Ext g g' ∧
              (∀ r, r ∈ l → isFn gs r = true → liveFn g' r = true) ∧ ClosedExcept g' S' ∧
              (∀ x, liveFn g' x = true → liveFn g x = true ∨ ∃ r, r ∈ l ∧ isFn gs r = true ∧ Reach gs r x) := by
          intro l
          induction l with
          | nil =>
            intro g _ hcg
            exact ⟨g, rfl, Ext.rfl' g, fun r hr _ => absurd hr List.not_mem_nil, hcg, fun x h => Or.inl h⟩
          | cons r rs ihl =>
            intro g hg hcg
            have hung : unmarked g ≤ n := Nat.le_trans hg.unm hunm0
            obtain ⟨g1, hm1, he1, hl1, hc1, hs1⟩ := ih g r S' hung hcg
            obtain ⟨g2, hm2, he2, hl2, hc2, hs2⟩ := ihl g1 (hg.trans he1) hc1
            refine ⟨g2, ?_, he1.trans he2, ?_, hc2, ?_⟩
            · simp only [List.foldlM_cons, hm1]
              exact hm2
            · intro r' hr' hfr'
              cases hr' with
              | head =>
                have : isFn g r = true := by rw [hg.isFn, hext0.isFn]; exact hfr'
                exact he2.mono r (hl1 this)
              | tail _ hmem => exact hl2 r' hmem hfr'
            · intro x hx
              rcases hs2 x hx with h | ⟨r', hr', hfr', hreach⟩
              · rcases hs1 x h with h' | hreach
                · exact Or.inl h'
                · refine Or.inr ⟨r, List.mem_cons_self, ?_, ?_⟩
                  · have := hreach.isFn_right
                    cases hreach with
                    | refl hfr => rw [hg.isFn, hext0.isFn] at hfr; exact hfr
                    | step h1 _ _ =>
                      -- the start of a path is a function
                      have start : ∀ {a b}, Reach g a b → isFn g a = true := by
                        intro a b hr
                        induction hr with
                        | refl hf => exact hf
                        | step _ _ _ ih => exact ih
                      have := start h1
                      rw [hg.isFn, hext0.isFn] at this; exact this
                  · exact (Reach.ext (hext0.trans hg)).mpr hreach
              · exact Or.inr ⟨r', List.mem_cons_of_mem _ hr', hfr', hreach⟩
        obtain ⟨g', hm, he, hl', hc', hs'⟩ := loop o.refs g0 (Ext.rfl' g0) hc0
        refine ⟨g', hm, hext0.trans he, fun _ => he.mono f hlive0, ?_, ?_⟩
        · -- closed except S: f's references have all been visited
          intro x hx hns y hy hfy
          by_cases hxf : x = f
          · subst hxf
            have hy' : y ∈ o.refs := by
              rw [← hrefs, ← (hext0.trans he).refs]; exact hy
            have hfy' : isFn gs y = true := by rw [← (hext0.trans he).isFn]; exact hfy
            exact hl' y hy' hfy'
          · exact hc' x hx (fun h => h.elim hxf hns) y hy hfy
        · intro x hx
          rcases hs' x hx with h | ⟨r, hr, hfr, hreach⟩
          · have : liveFn (setLive gs f) x = true := h
            rw [liveFn_setLive] at this
            by_cases hxf : x = f
            · subst hxf; exact Or.inr (Reach.refl hisfn)
            · simp [hxf] at this; exact Or.inl this
          · refine Or.inr (Reach.trans (Reach.step (Reach.refl hisfn) ?_ hfr) hreach)
            rw [hrefs]; exact hr
      · simp only [hl, if_true]
        refine ⟨gs, rfl, Ext.rfl' gs, ?_, hc, fun x h => Or.inl h⟩
        intro _; simp [liveFn, hf, hl]

/-! ### the root loop of `parse` -/

omit [Rules] in
theorem unmarked_le_length (gs : List Obj) : unmarked gs ≤ gs.length := List.length_filter_le _ _

omit [Rules] in
theorem reach_start_isFn {gs : List Obj} {a b : Name} (h : Reach gs a b) : isFn gs a = true := by
  induction h with
  | refl hf => exact hf
  | step _ _ _ ih => exact ih

/-- no `is_live` flag is set (the state `parse` is in before the root loop) -/
def NoneLive (gs : List Obj) : Prop := ∀ o, o ∈ gs → o.isLive = false

omit [Rules] in
theorem liveFn_of_noneLive {gs : List Obj} (h : NoneLive gs) (f : Name) : liveFn gs f = false := by
  unfold liveFn
  cases hf : findFunc gs f with
  | none => rfl
  | some o => exact h o (List.mem_of_find?_eq_some hf)

omit [Rules] in
theorem closed_of_reach {gs : List Obj} (hc : ClosedExcept gs (fun _ => False)) {r x : Name}
    (hr : liveFn gs r = true) (h : Reach gs r x) : liveFn gs x = true := by
  induction h with
  | refl _ => exact hr
  | step _ hm hf ih => exact hc _ ih (fun h => h) _ hm hf

omit [Rules] in
theorem markRoots_loop (gs : List Obj) : ∀ (l : List Name) (g : List Obj), Ext gs g → ClosedExcept g (fun _ => False) →
    ∃ g', l.foldlM (fun gs r => markLive gs.length gs r) g = some g' ∧ Ext g g' ∧
      (∀ r, r ∈ l → isFn gs r = true → liveFn g' r = true) ∧ ClosedExcept g' (fun _ => False) ∧
      (∀ x, liveFn g' x = true → liveFn g x = true ∨ ∃ r, r ∈ l ∧ Reach gs r x) := by
  intro l
  induction l with
  | nil =>
    intro g _ hc
    exact ⟨g, rfl, Ext.rfl' g, fun r hr _ => absurd hr List.not_mem_nil, hc, fun x h => Or.inl h⟩
  | cons r rs ih =>
    intro g hg hc
    obtain ⟨g1, hm1, he1, hl1, hc1, hs1⟩ := markLive_spec g.length g r (fun _ => False) (unmarked_le_length g) hc
    obtain ⟨g2, hm2, he2, hl2, hc2, hs2⟩ := ih g1 (hg.trans he1) hc1
    refine ⟨g2, ?_, he1.trans he2, ?_, hc2, ?_⟩
    · simp only [List.foldlM_cons, hm1]
      exact hm2
    · intro r' hr' hfr'
      cases hr' with
      | head => exact he2.mono r (hl1 (by rw [hg.isFn]; exact hfr'))
      | tail _ hmem => exact hl2 r' hmem hfr'
    · intro x hx
      rcases hs2 x hx with h | ⟨r', hr', hreach⟩
      · rcases hs1 x h with h' | hreach
        · exact Or.inl h'
        · exact Or.inr ⟨r, List.mem_cons_self, (Reach.ext hg).mpr hreach⟩
      · exact Or.inr ⟨r', List.mem_cons_of_mem _ hr', hreach⟩

/-- `markRoots` never runs out of fuel and marks exactly what is reachable from the roots -/
theorem markRoots_spec (gs : List Obj) (h0 : NoneLive gs) :
    ∃ gs', markRoots gs = some gs' ∧ Ext gs gs' ∧
      ∀ x, liveFn gs' x = true ↔ ∃ r, r ∈ rootNames gs ∧ Reach gs r x := by
  have hc0 : ClosedExcept gs (fun _ => False) := by
    intro x hx
    rw [liveFn_of_noneLive h0] at hx
    cases hx
  obtain ⟨g', hm, he, hl, hc, hs⟩ := markRoots_loop gs (rootNames gs) gs (Ext.rfl' gs) hc0
  refine ⟨g', hm, he, fun x => ⟨fun hx => ?_, fun ⟨r, hr, hreach⟩ => ?_⟩⟩
  · rcases hs x hx with h | h
    · rw [liveFn_of_noneLive h0] at h; cases h
    · exact h
  · have hfr : isFn gs r = true := reach_start_isFn hreach
    exact closed_of_reach hc (hl r hr hfr) ((Reach.ext he).mp hreach)

end ChibiVerif.Linkage
