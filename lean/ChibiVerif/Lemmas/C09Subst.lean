/-
C09 — termination of `preprocess2` for every macro table: `subst` with arguments.

`subst` itself never runs out of fuel (its loop consumes the replacement list), hands the pre-expander only token
lists of arguments, and returns at most `|replacement list| * M` tokens when every argument and every pre-expanded
argument has at most `M` tokens.
-/
import ChibiVerif.Model.PP
import ChibiVerif.Lemmas.PPLemmas
import ChibiVerif.Lemmas.PPTerm
import ChibiVerif.Lemmas.C09Skip

namespace ChibiVerif.PP

/-- every argument, raw and pre-expanded, has at most `M` tokens -/
def ArgsLen (M : Nat) (args : List MacroArg) : Prop :=
  ∀ a ∈ args, a.toks.length ≤ M ∧ ∀ e, a.expanded = some e → e.length ≤ M

/-- the pre-expander, run on this token list from any state satisfying `I`, does not run out of fuel, returns at
    most `W` tokens and keeps `I` -/
def PPArgOK (pp : PreExpand) (I : St → Prop) (W : Nat) (ts : List Tok) : Prop :=
  ∀ st, I st → match pp st ts with
    | .error e => e ≠ .fuel
    | .ok (e, st') => e.length ≤ W ∧ I st'

theorem length_setHeadFlags (ts : List Tok) (b s : Bool) : (setHeadFlags ts b s).length = ts.length := by
  cases ts <;> simp [setHeadFlags]

theorem argsLen_setExpanded {M : Nat} : ∀ {args : List MacroArg} {n : String} {e : List Tok},
    ArgsLen M args → e.length ≤ M → ArgsLen M (setExpanded args n e) := by
  intro args
  induction args with
  | nil => intro n e h _; simpa [setExpanded] using h
  | cons a as ih =>
    intro n e h he
    unfold setExpanded
    split
    · intro x hx
      simp only [List.mem_cons] at hx
      rcases hx with rfl | hx
      · refine ⟨(h a (by simp)).1, ?_⟩
        intro e' he'
        simp only [Option.some.injEq] at he'
        exact he' ▸ he
      · exact h x (by simp [hx])
    · intro x hx
      simp only [List.mem_cons] at hx
      rcases hx with rfl | hx
      · exact h _ (by simp)
      · exact ih (fun y hy => h y (by simp [hy])) he x hx

theorem len_key {o a a' b b' M : Nat} (hb : b' ≤ b) (ha : a' ≤ a + M) (ho : o ≤ a' + b' * M) : o ≤ a + (b + 1) * M := by
  have h1 : b' * M ≤ b * M := Nat.mul_le_mul_right _ hb
  have h2 : (b + 1) * M = b * M + M := Nat.succ_mul b M
  omega

theorem drop_cons_length {α : Type} {l r : List α} {x : α} {k : Nat} (h : l.drop k = x :: r) : r.length + 1 ≤ l.length := by
  have := congrArg List.length h
  simp only [List.length_drop, List.length_cons] at this
  omega

theorem drop_cons_skip {args : List MacroArg} {l r : List Tok} {x : Tok} {k : Nat} (h : l.drop k = x :: r) :
    (skipEmptyOperands args x r).2.length + 1 ≤ l.length := by
  have h1 := drop_cons_length h
  have h2 := skipEmptyOperands_length args r x
  omega

section
variable (lx : String → LexOne) (pp : PreExpand) (I : St → Prop) (W M : Nat)

/-- what a successful run of the loop of `subst` guarantees -/
theorem substLoop_len (hW : W ≤ M) (hM : 1 ≤ M) :
    ∀ (fuel : Nat) (isObj : Bool) (st : St) (args : List MacroArg) (body acc out : List Tok) (args' : List MacroArg) (st' : St),
      I st → ArgsQ (PPArgOK pp I W) args → ArgsLen M args →
      substLoop lx pp isObj fuel st args body acc = .ok (out, args', st') →
      I st' ∧ ArgsQ (PPArgOK pp I W) args' ∧ ArgsLen M args' ∧ out.length ≤ acc.length + body.length * M := by
  intro fuel
  induction fuel with
  | zero =>
    intro isObj st args body acc out args' st' hI hQ hA h
    cases body with
    | nil =>
      simp only [substLoop, Except.ok.injEq, Prod.mk.injEq] at h
      obtain ⟨rfl, rfl, rfl⟩ := h
      exact ⟨hI, hQ, hA, by simp⟩
    | cons t r => simp [substLoop] at h
  | succ n ih =>
    intro isObj st args body acc out args' st' hI hQ hA h
    cases body with
    | nil =>
      simp only [substLoop, Except.ok.injEq, Prod.mk.injEq] at h
      obtain ⟨rfl, rfl, rfl⟩ := h
      exact ⟨hI, hQ, hA, by simp⟩
    | cons tok rest =>
      unfold substLoop at h
      simp only [List.length_cons]
      repeat' split at h
      all_goals try (simp at h; done)
      all_goals try (have hmA := hA _ (findArg_mem ‹findArg args (some _) = some _›))
      -- 1-3: `#`, GNU comma
      · obtain ⟨h1, h2, h3, h4⟩ := ih _ _ _ _ _ _ _ _ hI hQ hA h
        refine ⟨h1, h2, h3, len_key (b' := (List.drop 1 rest).length) (a' := acc.length + 1) ?_ ?_ (by simpa using h4)⟩
        · simp only [List.length_drop]; omega
        · omega
      · obtain ⟨h1, h2, h3, h4⟩ := ih _ _ _ _ _ _ _ _ hI hQ hA h
        refine ⟨h1, h2, h3, len_key (b' := (List.drop 2 rest).length) (a' := acc.length) ?_ ?_ h4⟩
        · simp only [List.length_drop]; omega
        · omega
      · obtain ⟨h1, h2, h3, h4⟩ := ih _ _ _ _ _ _ _ _ hI hQ hA h
        refine ⟨h1, h2, h3, len_key (b' := (List.drop 1 rest).length) (a' := acc.length + 1) ?_ ?_ (by simpa using h4)⟩
        · simp only [List.length_drop]; omega
        · omega
      -- 4-6: `##`
      · obtain ⟨h1, h2, h3, h4⟩ := ih _ _ _ _ _ _ _ _ hI hQ hA h
        refine ⟨h1, h2, h3, len_key (by simp) ?_ h4⟩
        omega
      · obtain ⟨h1, h2, h3, h4⟩ := ih _ _ _ _ _ _ _ _ hI hQ hA h
        refine ⟨h1, h2, h3, len_key (by simp) ?_ h4⟩
        have := hmA.1
        rw [‹MacroArg.toks _ = _ :: _›] at this
        simp only [List.length_cons, List.length_append, List.length_reverse] at this ⊢
        omega
      · obtain ⟨h1, h2, h3, h4⟩ := ih _ _ _ _ _ _ _ _ hI hQ hA h
        refine ⟨h1, h2, h3, len_key (by simp) ?_ h4⟩
        simp only [List.length_cons]
        omega
      -- 7-9: a parameter before `##`
      · obtain ⟨h1, h2, h3, h4⟩ := ih _ _ _ _ _ _ _ _ hI hQ hA h
        have hd := drop_cons_length ‹List.drop 1 rest = _ :: _›
        have hsk := drop_cons_skip (args := args) ‹List.drop 1 rest = _ :: _›
        refine ⟨h1, h2, h3, len_key (by omega) ?_ h4⟩
        have := hmA.1
        simp only [List.length_append, List.length_reverse]
        omega
      · obtain ⟨h1, h2, h3, h4⟩ := ih _ _ _ _ _ _ _ _ hI hQ hA h
        have hd := drop_cons_length ‹List.drop 1 rest = _ :: _›
        have hsk := drop_cons_skip (args := args) ‹List.drop 1 rest = _ :: _›
        refine ⟨h1, h2, h3, len_key (by omega) ?_ h4⟩
        simp only [List.length_cons]
        omega
      · obtain ⟨h1, h2, h3, h4⟩ := ih _ _ _ _ _ _ _ _ hI hQ hA h
        refine ⟨h1, h2, h3, len_key (Nat.le_refl _) ?_ h4⟩
        have := hmA.1
        simp only [List.length_append, List.length_reverse, length_setHeadFlags]
        omega
      -- 10-11: a parameter, pre-expanded
      · obtain ⟨h1, h2, h3, h4⟩ := ih _ _ _ _ _ _ _ _ hI hQ hA h
        refine ⟨h1, h2, h3, len_key (Nat.le_refl _) ?_ h4⟩
        have := hmA.2 _ ‹_ = some _›
        simp only [List.length_append, List.length_reverse, length_setHeadFlags]
        omega
      · have hp := hQ _ (findArg_mem ‹findArg args (some tok) = some _›) st hI
        rw [‹pp st _ = Except.ok _›] at hp
        have hle := Nat.le_trans hp.1 hW
        obtain ⟨h1, h2, h3, h4⟩ := ih _ _ _ _ _ _ _ _ hp.2 (argsQ_setExpanded hQ) (argsLen_setExpanded hA hle) h
        refine ⟨h1, h2, h3, len_key (Nat.le_refl _) ?_ h4⟩
        simp only [List.length_append, List.length_reverse, length_setHeadFlags]
        omega
      -- 12-13: __VA_OPT__
      · rename_i content r _ _ _ _ _ _ _
        obtain ⟨g1, g2, g3, g4⟩ := ih _ _ _ _ _ _ _ _ hI hQ hA ‹substLoop lx pp false n st args _ [] = _›
        obtain ⟨h1, h2, h3, h4⟩ := ih _ _ _ _ _ _ _ _ g1 g2 g3 h
        obtain ⟨e1, _, _, _⟩ := argOne_sound _ _ _ _ _ ‹readMacroArgOne true 0 _ = _›
        refine ⟨h1, h2, h3, ?_⟩
        have e2 := congrArg List.length e1
        simp only [List.length_drop, List.length_append, List.length_reverse, List.length_nil] at e2 h4 g4
        have e3 : (content.length + (r.length - 1)) * M ≤ rest.length * M := Nat.mul_le_mul_right _ (by omega)
        rw [Nat.add_mul] at e3
        have e4 : (rest.length + 1) * M = rest.length * M + M := Nat.succ_mul _ _
        omega
      · obtain ⟨h1, h2, h3, h4⟩ := ih _ _ _ _ _ _ _ _ hI hQ hA h
        obtain ⟨e1, _, _, _⟩ := argOne_sound _ _ _ _ _ ‹readMacroArgOne true 0 _ = _›
        have e2 := congrArg List.length e1
        simp only [List.length_drop, List.length_append] at e2
        refine ⟨h1, h2, h3, len_key (b' := _) (a' := acc.length) ?_ (by omega) h4⟩
        simp only [List.length_drop]; omega
      -- 14: any other token
      · obtain ⟨h1, h2, h3, h4⟩ := ih _ _ _ _ _ _ _ _ hI hQ hA h
        refine ⟨h1, h2, h3, len_key (Nat.le_refl _) ?_ h4⟩
        simp only [List.length_cons]
        omega

/-- the loop of `subst` does not run out of fuel when it starts with more fuel than the replacement list has tokens -/
theorem substLoop_nofuel (hW : W ≤ M) (hM : 1 ≤ M) :
    ∀ (fuel : Nat) (isObj : Bool) (st : St) (args : List MacroArg) (body acc : List Tok),
      body.length < fuel → I st → ArgsQ (PPArgOK pp I W) args → ArgsLen M args →
      substLoop lx pp isObj fuel st args body acc ≠ .error .fuel := by
  intro fuel
  induction fuel with
  | zero => intro isObj st args body acc hlen; omega
  | succ n ih =>
    intro isObj st args body acc hlen hI hQ hA h
    cases body with
    | nil => simp [substLoop] at h
    | cons tok rest =>
      simp only [List.length_cons] at hlen
      unfold substLoop at h
      repeat' split at h
      all_goals try (simp at h; done)
      -- 1-3
      · exact ih _ _ _ _ _ (by simp only [List.length_drop]; omega) hI hQ hA h
      · exact ih _ _ _ _ _ (by simp only [List.length_drop]; omega) hI hQ hA h
      · exact ih _ _ _ _ _ (by simp only [List.length_drop]; omega) hI hQ hA h
      -- 4-8: `##`
      · exact ih _ _ _ _ _ (by simp only [List.length_cons] at hlen; omega) hI hQ hA h
      · simp only [Except.error.injEq] at h
        exact paste_error_ne_fuel ‹paste lx _ _ = Except.error _› h
      · exact ih _ _ _ _ _ (by simp only [List.length_cons] at hlen; omega) hI hQ hA h
      · simp only [Except.error.injEq] at h
        exact paste_error_ne_fuel ‹paste lx _ _ = Except.error _› h
      · exact ih _ _ _ _ _ (by simp only [List.length_cons] at hlen; omega) hI hQ hA h
      -- 9-11: a parameter before `##`
      · have hd := drop_cons_length ‹List.drop 1 rest = _ :: _›
        have hsk := drop_cons_skip (args := args) ‹List.drop 1 rest = _ :: _›
        exact ih _ _ _ _ _ (by omega) hI hQ hA h
      · have hd := drop_cons_length ‹List.drop 1 rest = _ :: _›
        have hsk := drop_cons_skip (args := args) ‹List.drop 1 rest = _ :: _›
        exact ih _ _ _ _ _ (by omega) hI hQ hA h
      · exact ih _ _ _ _ _ (by omega) hI hQ hA h
      -- 12-14: a parameter, pre-expanded
      · exact ih _ _ _ _ _ (by omega) hI hQ hA h
      · have hp := hQ _ (findArg_mem ‹findArg args (some tok) = some _›) st hI
        rw [‹pp st _ = Except.error _›] at hp
        simp only [Except.error.injEq] at h
        exact hp h
      · have hp := hQ _ (findArg_mem ‹findArg args (some tok) = some _›) st hI
        rw [‹pp st _ = Except.ok _›] at hp
        exact ih _ _ _ _ _ (by omega) hp.2 (argsQ_setExpanded hQ) (argsLen_setExpanded hA (Nat.le_trans hp.1 hW)) h
      -- 15-18: __VA_OPT__
      · simp only [Except.error.injEq] at h
        have := argOne_error _ _ _ _ ‹readMacroArgOne true 0 _ = Except.error _›
        rw [this] at h
        simp at h
      · obtain ⟨e1, _, _, _⟩ := argOne_sound _ _ _ _ _ ‹readMacroArgOne true 0 _ = Except.ok _›
        have e2 := congrArg List.length e1
        simp only [List.length_drop, List.length_append] at e2
        simp only [Except.error.injEq] at h
        subst h
        have hsub := ‹substLoop lx pp false n st args _ [] = _›
        exact ih _ _ _ _ _ (by omega) hI hQ hA hsub
      · obtain ⟨e1, _, _, _⟩ := argOne_sound _ _ _ _ _ ‹readMacroArgOne true 0 _ = Except.ok _›
        have e2 := congrArg List.length e1
        simp only [List.length_drop, List.length_append] at e2
        obtain ⟨g1, g2, g3, _⟩ := substLoop_len lx pp I W M hW hM _ _ _ _ _ _ _ _ _ hI hQ hA
          ‹substLoop lx pp false n st args _ [] = _›
        exact ih _ _ _ _ _ (by simp only [List.length_drop]; omega) g1 g2 g3 h
      · obtain ⟨e1, _, _, _⟩ := argOne_sound _ _ _ _ _ ‹readMacroArgOne true 0 _ = Except.ok _›
        have e2 := congrArg List.length e1
        simp only [List.length_drop, List.length_append] at e2
        exact ih _ _ _ _ _ (by simp only [List.length_drop]; omega) hI hQ hA h
      -- 19
      · exact ih _ _ _ _ _ (by omega) hI hQ hA h

/-- `subst`: no fuel error; at most `|body| * M` tokens; the invariant of the state is kept -/
theorem subst_fuel (hW : W ≤ M) (hM : 1 ≤ M) (st : St) (body : List Tok) (args : List MacroArg) (isObj : Bool)
    (hI : I st) (hQ : ArgsQ (PPArgOK pp I W) args) (hA : ArgsLen M args) :
    match subst lx pp st body args isObj with
    | .error e => e ≠ .fuel
    | .ok (out, st') => out.length ≤ body.length * M ∧ I st' := by
  unfold subst
  cases h : substLoop lx pp isObj (body.length + 1) st args body [] with
  | error e =>
    simp only [Except.map]
    intro he
    subst he
    exact substLoop_nofuel lx pp I W M hW hM _ _ _ _ _ _ (by omega) hI hQ hA h
  | ok v =>
    obtain ⟨out, args', st'⟩ := v
    obtain ⟨h1, _, _, h4⟩ := substLoop_len lx pp I W M hW hM _ _ _ _ _ _ _ _ _ hI hQ hA h
    simp only [Except.map]
    exact ⟨by simpa using h4, h1⟩

end

end ChibiVerif.PP
