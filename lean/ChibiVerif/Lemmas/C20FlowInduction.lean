/-
C20: the structural induction over the Node tree for ALL node kinds, in the label-height calculus
(Lemmas/C20Flow.lean, Lemmas/C20FlowArms.lean).

  fexpr : typedE env n → flowE n → SemP FlowP (genExpr env n) 0 (xOf n.ty?) 0
  faddr : typedA env n → flowA n → SemP FlowP (genAddr env n) 0 0 0
  fstmt : typedS env n → flowS R rl n → SemF [] A 0 0 (genStmt env n) (at0 (defsS n)) 0 0 0
          (A holds the labels of the region R at the height of the region's statements and, where
           `return` is allowed, the function's return label at x87 height 1 iff it returns long double)
  fbody : the body of a statement expression, a region of its own

`SemP FlowP m 0 x 0` says: whenever `m` succeeds, the code it printed has one (rsp, x87) height per
label such that every jump and every fall-through arrives at its label's height and control falls
out of the end at (0, x); `depth` is unchanged.
-/
import ChibiVerif.Lemmas.C20FlowArms
import ChibiVerif.Lemmas.C20Induction

namespace ChibiVerif.Lemmas.C20
open ChibiVerif ChibiVerif.Codegen ChibiVerif.Effect ChibiVerif.Asm ChibiVerif.Ast ChibiVerif.C20Scope

theorem SemF.congrG {own : List String} {A : List (String × H)} {ro xo : Int} {m : M α} {G G' : List (String × H)}
    {r x dd : Int} (h : SemF own A ro xo m G r x dd) (e : G = G') : SemF own A ro xo m G' r x dd := e ▸ h

/-- `loc` in front of a statement -/
theorem SemF_loc {A : List (String × H)} (i : NInfo) {m : M Unit} {G : List (String × H)} {x : Int}
    (h : SemF [] A 0 0 m G 0 x 0) : SemF [] A 0 0 (loc i >>= fun _ => m) G 0 x 0 :=
  (cl (Sem_loc i) ⨾ h.weak (fun _ _ h => h) (by omega) (by omega)).conv rfl rfl (by omega) (by omega) (by omega)
    (fun _ _ h => Or.inr h) (fun _ _ h => by simpa using h)

/-- two statements in sequence -/
theorem SemF_seq {A : List (String × H)} {m1 m2 : M Unit} {G1 G2 : List (String × H)} {x : Int}
    (h1 : SemF [] A 0 0 m1 G1 0 0 0) (h2 : SemF [] A 0 0 m2 G2 0 x 0) :
    SemF [] A 0 0 (m1 >>= fun _ => m2) (G1 ++ G2) 0 x 0 :=
  SemF.conv (h1 ⨾ h2.weak (fun _ _ h => h) (by omega) (by omega)) rfl rfl (by omega) (Int.zero_add _) (by omega)
    (fun _ _ h => Or.inr h) (fun _ _ h => h)

theorem Ret_isAllocaCall_true {lhs : Node} (h : notAlloca lhs = false) :
    Ret (isAllocaCall lhs) (fun b => b = true) := by
  unfold isAllocaCall
  cases lhs <;> first | (simp [notAlloca] at h; done) | skip
  rename_i i v
  cases v with
  | none => simp [notAlloca] at h
  | some v =>
    simp only [needVar, M_pure_bind]
    cases hn : v.name with
    | none => exact Ret_fail _
    | some n =>
      simp only [notAlloca, hn, bne_eq_false_iff_eq, Option.some.injEq] at h
      exact Ret_pure (by simp [h])

theorem optRun_optGen {A : List (String × H)} {e : Node} {g : M Unit}
    (h : isNull e = false → SemF [] A 0 0 g (at0 (defsS e)) 0 0 0) :
    SemF [] A 0 0 (optRun (optGen e g)) (at0 (defsS e)) 0 0 0 := by
  cases e <;> first
    | exact cl (Sem_pure ())
    | exact h rfl

theorem optGenMap_sem {n : Node} {g : M Unit} {t : Option Ty}
    (h : isNull n = false → SemP FlowP g 0 (xOf t) 0) :
    ∀ y, (optGen n g).map (·, t) = some y → SemP FlowP y.1 0 (xOf y.2) 0 := by
  intro y hy
  cases n <;> simp only [optGen, Option.map_none, Option.map_some, Option.some.injEq, reduceCtorEq] at hy <;>
    (subst hy; exact h rfl)

theorem retX_optGen (lhs : Node) (g : M Unit) :
    retX ((optGen lhs g).map (·, lhs.ty?)) = if isNull lhs then 0 else xOf lhs.ty? := by
  cases lhs <;> rfl

theorem rlabel_elim {R : List String} {l : String} (h : rlabel R l = true) : l ∈ R ∧ startsDot l = true := by
  simp only [rlabel, Bool.and_eq_true, List.contains_iff_mem] at h
  exact h

theorem or_isNull {n : Node} {b : Bool} (h : (isNull n || b) = true) (hn : isNull n = false) : b = true := by
  simpa [hn] using h

theorem casesOK_elim {R : List String} {A : List (String × H)} {cases : List Case} {dflt : Option (Option String)}
    (hR : ∀ l, l ∈ R → (l, (⟨0, 0⟩ : H)) ∈ A) (h : casesOK R cases dflt = true) :
    (∀ c ∈ cases, startsDot (cstr c.label) = true ∧ (cstr c.label, (⟨0, 0⟩ : H)) ∈ A) ∧
    (∀ l, dflt = some l → startsDot (cstr l) = true ∧ (cstr l, (⟨0, 0⟩ : H)) ∈ A) := by
  simp only [casesOK, Bool.and_eq_true, List.all_eq_true] at h
  constructor
  · intro c hc
    obtain ⟨h1, h2⟩ := rlabel_elim (h.1 c hc)
    exact ⟨h2, hR _ h1⟩
  · intro l hl
    subst hl
    obtain ⟨h1, h2⟩ := rlabel_elim h.2
    exact ⟨h2, hR _ h1⟩

set_option maxHeartbeats 1600000 in
mutual
theorem fexpr (env : Env) : (n : Node) → typedE env n = true → flowE n = true →
    SemP FlowP (genExpr env n) 0 (xOf n.ty?) 0
  | .nullExpr i, ht, _ => by
    rw [genExpr]
    simp only [typedE, Bool.not_eq_true'] at ht
    simp only [ty?_nullExpr, xOf_zero ht]
    exact Sem_loc i
  | .num i a b c d e, _, _ => by
    rw [genExpr]
    have := Sem_numArm (K := FlowP) i a b c d e
    simp only [ty?_num]
    sem
  | .neg i lhs, ht, hf => by
    rw [genExpr]
    simp only [typedE, Bool.and_eq_true, beq_iff_eq] at ht
    simp only [flowE] at hf
    have ih := fexpr env lhs ht.1 hf
    have := Sem_negArm (K := FlowP) i ih
    simp only [ty?_neg, xOf_eq_of_isLD ht.2]
    sem
  | .var i v, _, _ => by
    rw [genExpr]
    simp only [ty?_var]
    sem
  | .member i lhs mem, ht, hf => by
    rw [genExpr]
    simp only [typedE] at ht
    simp only [flowE] at hf
    have := Sem_memberArm (K := FlowP) i (faddr env lhs ht hf) mem env
    simp only [ty?_member]
    sem
  | .deref i lhs, ht, hf => by
    rw [genExpr]
    simp only [typedE, Bool.and_eq_true, Bool.not_eq_true'] at ht
    simp only [flowE] at hf
    have ih := fexpr env lhs ht.1 hf
    rw [xOf_zero ht.2] at ih
    simp only [ty?_deref]
    sem
  | .addr i lhs, ht, hf => by
    rw [genExpr]
    simp only [typedE, Bool.and_eq_true, Bool.not_eq_true'] at ht
    simp only [flowE] at hf
    have ih := faddr env lhs ht.1 hf
    simp only [ty?_addr, xOf_zero ht.2]
    sem
  | .assign i lhs rhs, ht, hf => by
    rw [genExpr]
    simp only [typedE, Bool.and_eq_true, beq_iff_eq] at ht
    simp only [flowE, Bool.and_eq_true] at hf
    obtain ⟨⟨⟨h1, h2⟩, h3⟩, h4⟩ := ht
    have := Sem_assignArm (K := FlowP) env i (bitfieldOf lhs) (faddr env lhs h1 hf.1) (fexpr env rhs h2 hf.2)
    rw [bfX_zero h4] at this
    simp only [ty?_assign, xOf_eq_of_isLD h3]
    sem
  | .stmtExpr i body, ht, hf => by
    rw [genExpr]
    simp only [typedE] at ht
    simp only [flowE] at hf
    have hb := fbody env (defsSs body) (at0 (defsSs body)) (fun l hl => mem_at0.mpr ⟨hl, rfl⟩) body (isLD i.ty) ht hf
    have := SemP_of_region hb (fun l hl => mem_at0.mpr ⟨hl, rfl⟩)
    simp only [ty?_stmtExpr, xOf]
    exact (Sem_bind (Sem_loc i) (fun _ => this)).cast (by omega) (Int.zero_add _) (by omega)
  | .comma i lhs rhs, ht, hf => by
    rw [genExpr]
    simp only [typedE, Bool.and_eq_true, beq_iff_eq] at ht
    simp only [flowE, Bool.and_eq_true] at hf
    obtain ⟨⟨h1, h2⟩, h3⟩ := ht
    have ih1 := fexpr env lhs h1 hf.1
    have ih2 := fexpr env rhs h2 hf.2
    simp only [ty?_comma, xOf_eq_of_isLD h3]
    sem
  | .cast i lhs, ht, hf => by
    rw [genExpr]
    simp only [typedE] at ht
    simp only [flowE] at hf
    have ih := fexpr env lhs ht hf
    simp only [ty?_cast]
    sem
  | .memzero i v, ht, _ => by
    rw [genExpr]
    simp only [typedE, Bool.not_eq_true'] at ht
    have := Sem_memzeroArm (K := FlowP) env v
    simp only [ty?_memzero, xOf_zero ht]
    sem
  | .cond i c t e, ht, hf => by
    rw [genExpr]
    simp only [typedE, Bool.and_eq_true, beq_iff_eq] at ht
    simp only [flowE, Bool.and_eq_true] at hf
    obtain ⟨⟨⟨⟨h1, h2⟩, h3⟩, h4⟩, h5⟩ := ht
    have ihc := fexpr env c h1 hf.1.1
    have iht := fexpr env t h2 hf.1.2
    have ihe := fexpr env e h3 hf.2
    rw [← xOf_eq_of_isLD h4] at iht
    rw [← xOf_eq_of_isLD h5] at ihe
    have := SemP_condArm c.ty? ihc iht ihe
    simp only [ty?_cond]
    sem
  | .not i lhs, ht, hf => by
    rw [genExpr]
    simp only [typedE, Bool.and_eq_true, Bool.not_eq_true'] at ht
    simp only [flowE] at hf
    have := Sem_notArm (K := FlowP) lhs.ty? (fexpr env lhs ht.1 hf)
    simp only [ty?_not, xOf_zero ht.2]
    sem
  | .bitnot i lhs, ht, hf => by
    rw [genExpr]
    simp only [typedE, Bool.and_eq_true, Bool.not_eq_true'] at ht
    simp only [flowE] at hf
    obtain ⟨⟨h1, h2⟩, h3⟩ := ht
    have ih := fexpr env lhs h1 hf
    rw [xOf_zero h2] at ih
    simp only [ty?_bitnot, xOf_zero h3]
    sem
  | .logand i lhs rhs, ht, hf => by
    rw [genExpr]
    simp only [typedE, Bool.and_eq_true, Bool.not_eq_true'] at ht
    simp only [flowE, Bool.and_eq_true] at hf
    have := SemP_logandArm lhs.ty? rhs.ty? (fexpr env lhs ht.1.1 hf.1) (fexpr env rhs ht.1.2 hf.2)
    simp only [ty?_logand, xOf_zero ht.2]
    sem
  | .logor i lhs rhs, ht, hf => by
    rw [genExpr]
    simp only [typedE, Bool.and_eq_true, Bool.not_eq_true'] at ht
    simp only [flowE, Bool.and_eq_true] at hf
    have := SemP_logorArm lhs.ty? rhs.ty? (fexpr env lhs ht.1.1 hf.1) (fexpr env rhs ht.1.2 hf.2)
    simp only [ty?_logor, xOf_zero ht.2]
    sem
  | .funcall i lhs fty rb args, ht, hf => by
    rw [genExpr]
    simp only [typedE, Bool.and_eq_true, Bool.not_eq_true'] at ht
    simp only [flowE, Bool.and_eq_true, Bool.or_eq_true] at hf
    obtain ⟨⟨h1, h2⟩, h3⟩ := ht
    obtain ⟨⟨⟨f1, f2⟩, f3⟩, f4⟩ := hf
    have ih := fexpr env lhs h1 f1
    rw [xOf_zero h2] at ih
    have hargs := fargs env args h3 f2
    simp only [ty?_funcall]
    by_cases hna : notAlloca lhs = true
    · have hs : StructArgsOK ((genArgs env args).map (·.ty)) := by
        rw [genArgs_tys]; exact structArgsOK_of_b args f3
      have := Sem_funcallArm (K := FlowP) env i rb (genArgs env args) (Sem_isAllocaCall (K := FlowP) lhs)
        (Ret_isAllocaCall hna) ih hargs hs
      sem
    · have hna' : notAlloca lhs = false := by simpa using hna
      have hok : allocaOK i args = true := by
        rcases f4 with f4 | f4
        · exact absurd f4 hna
        · exact f4
      simp only [allocaOK, Bool.and_eq_true, Bool.not_eq_true'] at hok
      have harg : ∀ a rest, genArgs env args = a :: rest → SemP FlowP a.gen 0 0 0 := by
        intro a rest he
        cases args with
        | nil => rw [genArgs] at he; cases he
        | cons n r =>
          rw [genArgs] at he
          simp only [List.cons.injEq] at he
          have := hargs a (by rw [genArgs]; rw [← he.1]; exact List.mem_cons_self)
          rw [← he.1] at this ⊢
          simp only at this ⊢
          have hz : isLD n.ty? = false := by simpa using hok.2
          rw [xOf_zero hz] at this
          exact this
      have := SemP_funcallArm_alloca env i (fn := genExpr env lhs) rb (genArgs env args) (Sem_isAllocaCall (K := FlowP) lhs)
        (Ret_isAllocaCall_true hna') harg
      rw [xOf_zero hok.1]
      sem
  | .labelVal i a b, ht, _ => by
    rw [genExpr]
    simp only [typedE, Bool.not_eq_true'] at ht
    simp only [ty?_labelVal, xOf_zero ht]
    sem
  | .cas i addr old new, ht, hf => by
    rw [genExpr]
    simp only [typedE, Bool.and_eq_true, Bool.not_eq_true'] at ht
    simp only [flowE, Bool.and_eq_true] at hf
    obtain ⟨⟨⟨⟨⟨⟨h1, h2⟩, h3⟩, h4⟩, h5⟩, h6⟩, h7⟩ := ht
    have ih1 := fexpr env addr h1 hf.1.1
    have ih2 := fexpr env old h2 hf.1.2
    have ih3 := fexpr env new h3 hf.2
    rw [xOf_zero h4] at ih1
    rw [xOf_zero h5] at ih2
    rw [xOf_zero h6] at ih3
    have := SemP_casArm env addr.ty? old.ty? new.ty? ih1 ih2 ih3
    simp only [ty?_cas, xOf_zero h7]
    sem
  | .exch i lhs rhs, ht, hf => by
    rw [genExpr]
    simp only [typedE, Bool.and_eq_true, Bool.not_eq_true'] at ht
    simp only [flowE, Bool.and_eq_true] at hf
    obtain ⟨⟨⟨⟨h1, h2⟩, h3⟩, h4⟩, h5⟩ := ht
    have ih1 := fexpr env lhs h1 hf.1
    have ih2 := fexpr env rhs h2 hf.2
    rw [xOf_zero h3] at ih1
    rw [xOf_zero h4] at ih2
    have := Sem_exchArm (K := FlowP) env lhs.ty? ih1 ih2
    simp only [ty?_exch, xOf_zero h5]
    sem
  | .binop i op lhs rhs, ht, hf => by
    have hnn : lhs = Node.null → False := by
      intro e; subst e; simp [typedE, notNull] at ht
    rw [genExpr]
    case x_2 => exact hnn
    simp only [typedE, Bool.and_eq_true, binopTyped, beq_iff_eq] at ht
    simp only [flowE, Bool.and_eq_true] at hf
    obtain ⟨⟨⟨h1, h2⟩, h3⟩, h4, h5⟩ := ht
    have ih1 := fexpr env lhs h1 hf.1
    have ih2 := fexpr env rhs h2 hf.2
    simp only [ty?_binop]
    refine Sem_bind_td (Sem_loc i) (fun _ => ?_)
    unfold binopArm
    refine Sem_needTy_bind fun lty hty => ?_
    by_cases hld : isLD lhs.ty? = true
    · have hk : lty.kind = .ldouble := by simpa [hty, isLD] using hld
      have hr : isLD rhs.ty? = true := by rw [← h4]; exact hld
      rw [xOf_one hld] at ih1
      rw [xOf_one hr] at ih2
      have := Sem_binopLd (K := FlowP) op ih1 ih2
      simp only [hk]
      refine this.cast (by omega) ?_ (by omega)
      by_cases hc : isCmp op = true
      · have : isLD i.ty = false := by rw [h5, hld, hc]; rfl
        simp [hc, xOf_zero this]
      · have hc' : isCmp op = false := by simpa using hc
        have : isLD i.ty = true := by rw [h5, hld, hc']; rfl
        simp [hc', xOf_one this]
    · have hld' : isLD lhs.ty? = false := by simpa using hld
      have hk : lty.kind ≠ .ldouble := by
        intro hk; rw [hty] at hld'; simp [isLD, hk] at hld'
      have hr : isLD rhs.ty? = false := by rw [← h4]; exact hld'
      have hi : isLD i.ty = false := by rw [h5, hld']; rfl
      rw [xOf_zero hld'] at ih1
      rw [xOf_zero hr] at ih2
      have f1 := Sem_binopFlo (K := FlowP) "ss" (Or.inl rfl) op ih1 ih2
      have f2 := Sem_binopFlo (K := FlowP) "sd" (Or.inr rfl) op ih1 ih2
      have f3 := Sem_binopInt (K := FlowP) i op lty ih1 ih2
      rw [xOf_zero hi]
      split
      · exact f1.cast (by omega) (by omega) (by omega)
      · exact f2.cast (by omega) (by omega) (by omega)
      · rename_i hk'; exact absurd hk' hk
      · exact f3.cast (by omega) (by omega) (by omega)
  | .null, ht, _ | .ret .., ht, _ | .if_ .., ht, _ | .for_ .., ht, _
  | .do_ .., ht, _ | .switch_ .., ht, _ | .case_ .., ht, _ | .block .., ht, _ | .goto_ .., ht, _
  | .gotoExpr .., ht, _ | .label .., ht, _ | .exprStmt .., ht, _ | .vlaPtr .., ht, _
  | .asm_ .., ht, _ => by simp [typedE] at ht
theorem faddr (env : Env) : (n : Node) → typedA env n = true → flowA n = true →
    SemP FlowP (genAddr env n) 0 0 0
  | .var i v, _, _ => by
    rw [genAddr]
    exact Sem_addrVar env i v
  | .deref i lhs, ht, hf => by
    rw [genAddr]
    simp only [typedA, Bool.and_eq_true, Bool.not_eq_true'] at ht
    simp only [flowA] at hf
    have ih := fexpr env lhs ht.1 hf
    rw [xOf_zero ht.2] at ih
    exact ih
  | .comma i lhs rhs, ht, hf => by
    rw [genAddr]
    simp only [typedA, Bool.and_eq_true] at ht
    simp only [flowA, Bool.and_eq_true] at hf
    have ih1 := fexpr env lhs ht.1 hf.1
    have ih2 := faddr env rhs ht.2 hf.2
    sem
  | .member i lhs mem, ht, hf => by
    rw [genAddr]
    simp only [typedA] at ht
    simp only [flowA] at hf
    exact Sem_addrMember (faddr env lhs ht hf) mem
  | .vlaPtr i v, _, _ => by
    rw [genAddr]
    sem
  | .assign i lhs rhs, ht, hf => by
    rw [genAddr]
    simp only [typedA, Bool.and_eq_true, Bool.not_eq_true'] at ht
    simp only [flowA, Bool.and_eq_true] at hf
    obtain ⟨⟨⟨h1, h2⟩, h3⟩, h4⟩ := ht
    have ih2 := fexpr env rhs h2 hf.2
    rw [xOf_zero h3] at ih2
    have := Sem_assignArm (K := FlowP) env i (bitfieldOf lhs) (faddr env lhs h1 hf.1) ih2
    rw [bfX_zero h4] at this
    sem
  | .cond i c t e, ht, hf => by
    rw [genAddr]
    simp only [typedA, Bool.and_eq_true, Bool.not_eq_true'] at ht
    simp only [flowA, Bool.and_eq_true] at hf
    obtain ⟨⟨⟨⟨⟨h1, h2⟩, h3⟩, h4⟩, h5⟩, h6⟩ := ht
    have ihc := fexpr env c h1 hf.1.1
    have iht := fexpr env t h2 hf.1.2
    have ihe := fexpr env e h3 hf.2
    rw [xOf_zero h4] at iht
    rw [xOf_zero h5] at ihe
    have := SemP_condArm c.ty? ihc iht ihe
    sem
  | .funcall i lhs fty rb args, ht, hf => by
    simp only [typedA, Bool.and_eq_true, Bool.not_eq_true'] at ht
    simp only [flowA, Bool.and_eq_true, Bool.or_eq_true, Bool.not_eq_true'] at hf
    obtain ⟨⟨h1, h2⟩, h3⟩ := ht
    obtain ⟨⟨⟨⟨f1, f2⟩, f3⟩, f4⟩, f5⟩ := hf
    have ih := fexpr env lhs h1 f1
    rw [xOf_zero h2] at ih
    have hargs := fargs env args h3 f2
    cases rb with
    | none => rw [genAddr]; exact Sem_fail _
    | some v =>
      rw [genAddr]
      by_cases hna : notAlloca lhs = true
      · have hs : StructArgsOK ((genArgs env args).map (·.ty)) := by
          rw [genArgs_tys]; exact structArgsOK_of_b args f3
        have := Sem_funcallArm (K := FlowP) env i (some v) (genArgs env args) (Sem_isAllocaCall (K := FlowP) lhs)
          (Ret_isAllocaCall hna) ih hargs hs
        rw [xOf_zero f5] at this
        sem
      · have hna' : notAlloca lhs = false := by simpa using hna
        have hok : allocaOK i args = true := by
          rcases f4 with f4 | f4
          · exact absurd f4 hna
          · exact f4
        simp only [allocaOK, Bool.and_eq_true, Bool.not_eq_true'] at hok
        have harg : ∀ a rest, genArgs env args = a :: rest → SemP FlowP a.gen 0 0 0 := by
          intro a rest he
          cases args with
          | nil => rw [genArgs] at he; cases he
          | cons n r =>
            rw [genArgs] at he
            simp only [List.cons.injEq] at he
            have := hargs a (by rw [genArgs]; rw [← he.1]; exact List.mem_cons_self)
            rw [← he.1] at this ⊢
            simp only at this ⊢
            have hz : isLD n.ty? = false := by simpa using hok.2
            rw [xOf_zero hz] at this
            exact this
        have := SemP_funcallArm_alloca env i (fn := genExpr env lhs) (some v) (genArgs env args)
          (Sem_isAllocaCall (K := FlowP) lhs) (Ret_isAllocaCall_true hna') harg
        sem
  | .null, ht, _ | .nullExpr .., ht, _ | .num .., ht, _ | .neg .., ht, _ | .addr .., ht, _ | .binop .., ht, _
  | .not .., ht, _ | .bitnot .., ht, _ | .logand .., ht, _ | .logor .., ht, _ | .ret .., ht, _ | .if_ .., ht, _
  | .for_ .., ht, _ | .do_ .., ht, _ | .switch_ .., ht, _ | .case_ .., ht, _ | .block .., ht, _
  | .goto_ .., ht, _ | .gotoExpr .., ht, _ | .label .., ht, _ | .labelVal .., ht, _ | .exprStmt .., ht, _
  | .stmtExpr .., ht, _ | .cast .., ht, _ | .memzero .., ht, _ | .asm_ .., ht, _ | .cas .., ht, _
  | .exch .., ht, _ => by simp [typedA] at ht
theorem fargs (env : Env) : (l : NodeList) → typedArgs env l = true → flowArgs l = true →
    ∀ a ∈ genArgs env l, SemP FlowP a.gen 0 (xOf a.ty) 0
  | .nil, _, _ => by
    rw [genArgs]
    intro a ha
    cases ha
  | .cons n rest, ht, hf => by
    rw [genArgs]
    simp only [typedArgs, Bool.and_eq_true] at ht
    simp only [flowArgs, Bool.and_eq_true] at hf
    intro a ha
    simp only [List.mem_cons] at ha
    rcases ha with rfl | ha
    · exact fexpr env n ht.1 hf.1
    · exact fargs env rest ht.2 hf.2 a ha
theorem fstmt (env : Env) (R : List String) (rl : Option Bool) (A : List (String × H))
    (hR : ∀ l, l ∈ R → (l, (⟨0, 0⟩ : H)) ∈ A)
    (hret : ∀ ld, rl = some ld → (retLabel env, (⟨0, if ld then 1 else 0⟩ : H)) ∈ A) :
    (n : Node) → typedS env n = true → flowS R rl n = true →
    SemF [] A 0 0 (genStmt env n) (at0 (defsS n)) 0 0 0
  | .if_ i c t e, ht, hf => by
    rw [genStmt]
    simp only [typedS, Bool.and_eq_true] at ht
    simp only [flowS, Bool.and_eq_true] at hf
    have hc := fexpr env c ht.1.1 hf.1.1
    have h1 := fstmt env R rl A hR hret t ht.1.2 hf.1.2
    have he : SemF [] A 0 0 (optRun (optGen e (genStmt env e))) (at0 (defsS e)) 0 0 0 :=
      optRun_optGen (fun hn => fstmt env R rl A hR hret e (or_isNull ht.2 hn) (or_isNull hf.2 hn))
    refine (SemF_loc i (SemF_ifArm c.ty? _ hc h1 he)).congrG ?_
    simp only [defsS, at0_append]
  | .for_ i init c inc t brk cont, ht, hf => by
    rw [genStmt]
    simp only [typedS, Bool.and_eq_true] at ht
    simp only [flowS, Bool.and_eq_true] at hf
    obtain ⟨⟨⟨t1, t2⟩, t3⟩, t4⟩ := ht
    obtain ⟨⟨⟨⟨⟨⟨f1, f2⟩, f3⟩, f4⟩, f5⟩, f7⟩, f6⟩ := hf
    obtain ⟨b1, _⟩ := rlabel_elim f5
    have b2 := f7
    have hi : SemF [] A 0 0 (optRun (optGen init (genStmt env init))) (at0 (defsS init)) 0 0 0 :=
      optRun_optGen (fun hn => fstmt env R rl A hR hret init (or_isNull t1 hn) (or_isNull f1 hn))
    have hc := optGenMap_sem (n := c) (g := genExpr env c) (t := c.ty?)
      (fun hn => fexpr env c (or_isNull t2 hn) (or_isNull f2 hn))
    have hinc := optGenMap_sem (n := inc) (g := genExpr env inc) (t := inc.ty?)
      (fun hn => fexpr env inc (or_isNull t3 hn) (or_isNull f3 hn))
    have h1 := fstmt env R rl A hR hret t t4 f4
    refine (SemF_loc i (SemF_forArm _ _ _ brk cont hi hc h1 hinc b2 f6 (hR _ b1))).congrG ?_
    simp only [defsS, at0_append]
    rfl
  | .do_ i t c brk cont, ht, hf => by
    rw [genStmt]
    simp only [typedS, Bool.and_eq_true] at ht
    simp only [flowS, Bool.and_eq_true] at hf
    obtain ⟨⟨⟨f1, f2⟩, f3⟩, f4⟩ := hf
    have h1 := fstmt env R rl A hR hret t ht.1 f1
    have hc := fexpr env c ht.2 f2
    refine (SemF_loc i (SemF_doArm c.ty? brk cont h1 hc f3 f4)).congrG ?_
    simp only [defsS, at0_append]
    rfl
  | .switch_ i c t brk cases dflt, ht, hf => by
    rw [genStmt]
    simp only [typedS, Bool.and_eq_true, Bool.not_eq_true'] at ht
    simp only [flowS, Bool.and_eq_true] at hf
    obtain ⟨⟨⟨⟨f1, f2⟩, f3⟩, f5⟩, f4⟩ := hf
    obtain ⟨b1, _⟩ := rlabel_elim f3
    have b2 := f5
    obtain ⟨hcs, hd⟩ := casesOK_elim hR f4
    have hc := fexpr env c ht.1.1 f1
    rw [xOf_zero ht.1.2] at hc
    have h1 := fstmt env R rl A hR hret t ht.2 f2
    refine (SemF_loc i (SemF_switchArm c.ty? brk cases dflt hc h1 b2 (hR _ b1) hcs hd)).congrG ?_
    simp only [defsS, at0_append]
    rfl
  | .case_ i b e lbl lhs, ht, hf => by
    rw [genStmt]
    simp only [typedS] at ht
    simp only [flowS, Bool.and_eq_true] at hf
    have h1 := fstmt env R rl A hR hret lhs ht hf.2
    exact SemF_labelled i (cstr lbl) hf.1 h1
  | .block i body, ht, hf => by
    rw [genStmt]
    simp only [typedS] at ht
    simp only [flowS] at hf
    exact SemF_loc i (fstmts env R rl A hR hret body ht hf)
  | .goto_ i l ul, _, hf => by
    rw [genStmt]
    simp only [flowS] at hf
    obtain ⟨b1, b2⟩ := rlabel_elim hf
    exact SemF_goto i (cstr ul) b2 (hR _ b1)
  | .gotoExpr i lhs, ht, hf => by
    rw [genStmt]
    simp only [typedS, Bool.and_eq_true, Bool.not_eq_true'] at ht
    simp only [flowS] at hf
    have ih := fexpr env lhs ht.1 hf
    rw [xOf_zero ht.2] at ih
    exact SemF_gotoExpr i ih
  | .label i l ul lhs, ht, hf => by
    rw [genStmt]
    simp only [typedS] at ht
    simp only [flowS, Bool.and_eq_true] at hf
    have h1 := fstmt env R rl A hR hret lhs ht hf.2
    exact SemF_labelled i (cstr ul) hf.1 h1
  | .ret i lhs, ht, hf => by
    rw [genStmt]
    simp only [typedS] at ht
    simp only [flowS, Bool.and_eq_true] at hf
    obtain ⟨f1, f2⟩ := hf
    cases hrl : rl with
    | none => simp [retOK, hrl] at f1
    | some ld =>
      have hm := hret ld hrl
      have hx := optGenMap_sem (n := lhs) (g := genExpr env lhs) (t := lhs.ty?)
        (fun hn => fexpr env lhs (or_isNull ht hn) (or_isNull f2 hn))
      refine SemF_loc i (SemF_returnArm env _ hx ?_ hm)
      rw [retX_optGen]
      simp only [retOK, hrl] at f1
      by_cases hn : isNull lhs = true
      · simp only [hn, if_true, Bool.not_eq_true'] at f1 ⊢
        simp [f1]
      · simp only [hn, Bool.false_eq_true, if_false, beq_iff_eq] at f1 ⊢
        simp [xOf, f1]
  | .exprStmt i lhs, ht, hf => by
    rw [genStmt]
    simp only [typedS] at ht
    simp only [flowS] at hf
    have ih := fexpr env lhs ht hf
    exact cl (by sem)
  | .asm_ i s, _, _ => by
    rw [genStmt]
    exact cl (by sem)
  | .null, _, hf | .nullExpr .., _, hf | .num .., _, hf | .neg .., _, hf | .addr .., _, hf | .binop .., _, hf
  | .cond .., _, hf | .not .., _, hf | .bitnot .., _, hf | .logand .., _, hf | .logor .., _, hf
  | .assign .., _, hf | .labelVal .., _, hf | .funcall .., _, hf | .stmtExpr .., _, hf | .cast .., _, hf
  | .comma .., _, hf | .memzero .., _, hf | .cas .., _, hf | .exch .., _, hf | .var .., _, hf
  | .vlaPtr .., _, hf | .member .., _, hf | .deref .., _, hf => by simp [flowS] at hf
theorem fstmts (env : Env) (R : List String) (rl : Option Bool) (A : List (String × H))
    (hR : ∀ l, l ∈ R → (l, (⟨0, 0⟩ : H)) ∈ A)
    (hret : ∀ ld, rl = some ld → (retLabel env, (⟨0, if ld then 1 else 0⟩ : H)) ∈ A) :
    (l : NodeList) → typedSs env l = true → flowSs R rl l = true →
    SemF [] A 0 0 (genStmts env l) (at0 (defsSs l)) 0 0 0
  | .nil, _, _ => by
    rw [genStmts]
    exact cl (Sem_pure ())
  | .cons n rest, ht, hf => by
    rw [genStmts]
    simp only [typedSs, Bool.and_eq_true] at ht
    simp only [flowSs, Bool.and_eq_true] at hf
    have h1 := fstmt env R rl A hR hret n ht.1 hf.1
    have h2 := fstmts env R rl A hR hret rest ht.2 hf.2
    refine SemF.congrG (SemF_seq h1 h2) ?_
    simp only [defsSs, at0_append]
theorem fbody (env : Env) (R : List String) (A : List (String × H))
    (hR : ∀ l, l ∈ R → (l, (⟨0, 0⟩ : H)) ∈ A) :
    (l : NodeList) → (ld : Bool) → typedBody env l ld = true → flowBody R l = true →
    SemF [] A 0 0 (genStmtExprBody env l) (at0 (defsSs l)) 0 (if ld then 1 else 0) 0
  | .nil, ld, ht, _ => by
    rw [genStmtExprBody]
    simp only [typedBody, Bool.not_eq_true'] at ht
    subst ht
    exact cl (Sem_pure ())
  | .cons n rest, ld, ht, hf => by
    cases rest with
    | cons m rest' =>
      rw [typedBody] at ht <;> first | (intro _ _ ha hb; first | (cases hb; done) | (cases ha; done)) | skip
      rw [flowBody] at hf <;> first | (intro _ _ ha hb; first | (cases hb; done) | (cases ha; done)) | skip
      rw [genStmtExprBody] <;> first | (intro _ _ ha hb; first | (cases hb; done) | (cases ha; done)) | skip
      simp only [Bool.and_eq_true] at ht hf
      have h1 := fstmt env R none A hR (fun _ h => by cases h) _ ht.1 hf.1
      have h2 := fbody env R A hR _ ld ht.2 hf.2
      refine SemF.congrG (SemF_seq h1 h2) ?_
      simp only [defsSs, at0_append]
    | nil =>
      cases n with
      | exprStmt i lhs =>
        rw [typedBody] at ht
        rw [flowBody] at hf
        rw [genStmtExprBody]
        simp only [Bool.and_eq_true, beq_iff_eq] at ht
        have ih := fexpr env lhs ht.1 hf
        have hx : xOf lhs.ty? = if ld then 1 else 0 := by
          rw [xOf, ← ht.2]
        rw [← hx]
        exact cl (by sem)
      | _ =>
        rw [typedBody] at ht <;> first | (intro _ _ ha hb; first | (cases hb; done) | (cases ha; done)) | skip
        rw [flowBody] at hf <;> first | (intro _ _ ha hb; first | (cases hb; done) | (cases ha; done)) | skip
        rw [genStmtExprBody] <;> first | (intro _ _ ha hb; first | (cases hb; done) | (cases ha; done)) | skip
        simp only [Bool.and_eq_true] at ht hf
        have h1 := fstmt env R none A hR (fun _ h => by cases h) _ ht.1 hf.1
        have h2 := fbody env R A hR _ ld ht.2 hf.2
        refine SemF.congrG (SemF_seq h1 h2) ?_
        simp only [defsSs, at0_append]
end

end ChibiVerif.Lemmas.C20
