/-
Sequence-level lemmas for C19: the scanning loop over a text made of self-lexing spellings
separated by blanks/newlines or by nothing where `need_space` says nothing is needed.
-/
import ChibiVerif.Lemmas.LexLemmas

namespace ChibiVerif.Lex
open ChibiVerif.LexChar ChibiVerif.Gen.Lex

/-! ### fuel -/

theorem lexLoop_mono (n : Nat) : ∀ (s : List Nat) (bol sp : Bool) (ts : List Tok) (m : Nat),
    lexLoop n s bol sp = .ok ts → n ≤ m → lexLoop m s bol sp = .ok ts := by
  induction n with
  | zero => intro s bol sp ts m h; simp [lexLoop] at h
  | succ n ih =>
    intro s bol sp ts m h hm
    obtain ⟨m', rfl⟩ : ∃ m', m = m' + 1 := ⟨m - 1, by omega⟩
    have hm' : n ≤ m' := by omega
    rw [lexLoop] at h ⊢
    cases hs : lexStep s bol sp with
    | done => rw [hs] at h; exact h
    | skip r b p => rw [hs] at h; exact ih r b p ts m' h hm'
    | tok t r =>
      rw [hs] at h
      simp only at h ⊢
      cases hl : lexLoop n r false false with
      | error e => rw [hl] at h; cases h
      | ok ts' => rw [hl] at h; rw [ih r false false ts' m' hl hm']; exact h
    | err e => rw [hs] at h; exact h

/-! ### self-lexing spellings -/

/-- the kind the scanner gives to a self-lexing spelling -/
def kindOf (a : List Nat) : Kind :=
  match lexStep a true false with
  | .tok t _ => t.kind
  | _ => .punct

theorem selfLexing_step (a : List Nat) (h : selfLexing a = true) :
    ∃ c a', a = c :: a' ∧ lexStep (c :: a') true false = .tok ⟨kindOf a, c :: a', true, false⟩ [] := by
  unfold selfLexing at h
  cases a with
  | nil => simp [lexStep] at h
  | cons c a' =>
    refine ⟨c, a', rfl, ?_⟩
    unfold kindOf
    cases hs : lexStep (c :: a') true false with
    | done => rw [hs] at h; cases h
    | skip r b p => rw [hs] at h; cases h
    | err e => rw [hs] at h; cases h
    | tok t r =>
      rw [hs] at h
      cases r with
      | cons x r' => cases h
      | nil =>
        simp only [beq_iff_eq] at h
        sorry

end ChibiVerif.Lex
