/-
Sequence-level lemmas for C19: the scanning loop over a text made of self-lexing spellings
separated by blanks/newlines or by nothing where `need_space` says nothing is needed.
-/
import ChibiVerif.Lemmas.LexLemmas
import ChibiVerif.Model.PrintTokens

namespace ChibiVerif.Lex
open ChibiVerif.LexChar ChibiVerif.Gen.Lex

/-! ### fuel -/

theorem lexLoop_mono (n : Nat) : ∀ (s : List Nat) (bol sp : Bool) (ts : List Tok) (m : Nat),
    lexLoop n s bol sp = .ok ts → n ≤ m → lexLoop m s bol sp = .ok ts := by
  induction n with
  | zero => intro s bol sp ts m h; simp [lexLoop] at h
  | succ n ih =>
    intro s bol sp ts m h hm
    obtain ⟨m', rfl⟩ : ∃ m', m = m' + 1 := ⟨m - 1, by omega⟩
    have hm' : n ≤ m' := by omega
    rw [lexLoop] at h ⊢
    cases hs : lexStep s bol sp with
    | done => rw [hs] at h; exact h
    | skip r b p => rw [hs] at h; exact ih r b p ts m' h hm'
    | tok t r =>
      rw [hs] at h
      simp only at h ⊢
      cases hl : lexLoop n r false false with
      | error e => rw [hl] at h; cases h
      | ok ts' => rw [hl] at h; rw [ih r false false ts' m' hl hm']; exact h
    | err e => rw [hs] at h; exact h

/-! ### self-lexing spellings -/

/-- the kind the scanner gives to a self-lexing spelling -/
def kindOf (a : List Nat) : Kind :=
  match lexStep a true false with
  | .tok t _ => t.kind
  | _ => .punct

theorem selfLexing_step (a : List Nat) (h : selfLexing a = true) :
    ∃ c a', a = c :: a' ∧ lexStep (c :: a') true false = .tok ⟨kindOf a, c :: a', true, false⟩ [] := by
  unfold selfLexing at h
  cases a with
  | nil => simp [lexStep] at h
  | cons c a' =>
    refine ⟨c, a', rfl, ?_⟩
    unfold kindOf
    cases hs : lexStep (c :: a') true false with
    | done => rw [hs] at h; cases h
    | skip r b p => rw [hs] at h; cases h
    | err e => rw [hs] at h; cases h
    | tok t r =>
      rw [hs] at h
      cases r with
      | cons x r' => cases h
      | nil =>
        simp only [beq_iff_eq] at h
        have inv := lexStep_tok_inv _ _ _ _ _ hs
        obtain ⟨k, x, b, p⟩ := t
        simp only at h inv ⊢
        have h1 := inv.bol
        have h2 := inv.sp
        simp only at h1 h2
        subst h; subst h1; subst h2
        rfl

theorem selfLexing_of_step (c : Nat) (a : List Nat) (k : Kind) (b p : Bool)
    (h : lexStep (c :: a) b p = .tok ⟨k, c :: a, b, p⟩ []) : selfLexing (c :: a) = true := by
  have := lexStep_append c a [] k b p true false h (noFuse_nil c a)
  rw [List.append_nil] at this
  unfold selfLexing
  rw [this]
  simp

/-- the step on a self-lexing spelling followed by anything that does not fuse with it -/
theorem selfLexing_append (a rest : List Nat) (h : selfLexing a = true)
    (hf : ∀ c a', a = c :: a' → noFuse c a' rest) (bol sp : Bool) :
    lexStep (a ++ rest) bol sp = .tok ⟨kindOf a, a, bol, sp⟩ rest := by
  obtain ⟨c, a', rfl, hs⟩ := selfLexing_step a h
  exact lexStep_append c a' rest _ true false bol sp hs (hf c a' rfl)

/-! ### blanks -/

/-- a separator as `print_tokens` writes them: blanks and newlines only -/
def isBlank (w : List Nat) : Bool := w.all (fun r => r == 32 || r == 10)

/-- `at_bol` / `has_space` after scanning the blank string `w` from the state `(bol, sp)` -/
def blankFlags : List Nat → Bool × Bool → Bool × Bool
  | [], f => f
  | r :: w, f => blankFlags w (if r == 10 then (true, false) else (f.1, true))

theorem lexStep_blank (r : Nat) (t : List Nat) (bol sp : Bool) (hr : r = 32 ∨ r = 10) :
    lexStep (r :: t) bol sp = .skip t (if r == 10 then (true, false) else (bol, true)).1
      (if r == 10 then (true, false) else (bol, true)).2 := by
  rcases hr with rfl | rfl <;> rfl

/-- scanning a blank prefix costs one iteration per character and only changes the flags -/
theorem lexLoop_blank (w : List Nat) (hw : isBlank w = true) : ∀ (n : Nat) (s : List Nat) (f : Bool × Bool),
    lexLoop (n + w.length) (w ++ s) f.1 f.2 = lexLoop n s (blankFlags w f).1 (blankFlags w f).2 := by
  induction w with
  | nil => intro n s f; rfl
  | cons r w ih =>
    intro n s f
    simp only [isBlank, List.all_cons, Bool.and_eq_true, Bool.or_eq_true, beq_iff_eq] at hw
    have hw' : isBlank w = true := by simpa [isBlank] using hw.2
    rw [List.length_cons, ← Nat.add_assoc, List.cons_append, lexLoop, lexStep_blank r _ _ _ hw.1]
    exact ih hw' n s _

/-! ### texts made of separators and self-lexing spellings -/

/-- (separator written before the spelling, spelling) -/
abbrev Item := List Nat × List Nat

def render : List Item → List Nat
  | [] => []
  | it :: r => it.1 ++ it.2 ++ render r

/-- every separator is blank, every spelling is self-lexing, and where the separator is empty `need_space` said
    that none is needed -/
def okItems : List Item → Prop
  | [] => True
  | it :: r => isBlank it.1 = true ∧ selfLexing it.2 = true ∧
      (match r with
        | [] => True
        | it2 :: _ => it2.1 = [] → needSpace it.2 it2.2 = false) ∧ okItems r

/-- the tokens `tokenize` produces for such a text, started with the flags `f` -/
def tokensOf (f : Bool × Bool) : List Item → List Tok
  | [] => []
  | it :: r => ⟨kindOf it.2, it.2, (blankFlags it.1 f).1, (blankFlags it.1 f).2⟩ :: tokensOf (false, false) r

theorem lexLoop_items (items : List Item) : ∀ (w : List Nat) (f : Bool × Bool),
    okItems items → isBlank w = true →
    ∃ n, n ≤ (render items ++ w).length + 1 ∧
      lexLoop n (render items ++ w) f.1 f.2 = .ok (tokensOf f items) := by
  induction items with
  | nil =>
    intro w f _ hw
    refine ⟨1 + w.length, by simp [render]; omega, ?_⟩
    have := lexLoop_blank w hw 1 [] f
    rw [List.append_nil] at this
    simp only [render, List.nil_append, tokensOf]
    rw [this]
    rfl
  | cons it r ih =>
    intro w f hok hw
    obtain ⟨hs, ha, hnext, hr⟩ := hok
    obtain ⟨nR, hnR, hR⟩ := ih w (false, false) hr hw
    have hfuse : ∀ c a', it.2 = c :: a' → noFuse c a' (render r ++ w) := by
      intro c a' hca
      cases r with
      | nil =>
        cases w with
        | nil => exact noFuse_nil c a'
        | cons x w' =>
          simp only [isBlank, List.all_cons, Bool.and_eq_true, Bool.or_eq_true, beq_iff_eq] at hw
          exact noFuse_blank c a' x _ hw.1
      | cons it2 r' =>
        obtain ⟨hs2, hb, _, _⟩ := hr
        simp only at hnext
        cases hs2e : it2.1 with
        | nil =>
          obtain ⟨cb, b', hb', _⟩ := selfLexing_step it2.2 hb
          have hns := hnext hs2e
          rw [hca, hb'] at hns
          simp only [render, hs2e, List.nil_append, hb', List.cons_append, List.append_assoc]
          exact noFuse_of_needSpace c a' cb b' _ hns
        | cons x s2' =>
          rw [hs2e] at hs2
          simp only [isBlank, List.all_cons, Bool.and_eq_true, Bool.or_eq_true, beq_iff_eq] at hs2
          simp only [render, hs2e, List.cons_append, List.append_assoc]
          exact noFuse_blank c a' x _ hs2.1
    obtain ⟨c, a', hca, _⟩ := selfLexing_step it.2 ha
    refine ⟨(nR + 1) + it.1.length, ?_, ?_⟩
    · simp only [render, List.length_append] at hnR ⊢
      have : it.2.length ≥ 1 := by rw [hca]; simp
      omega
    · have hb := lexLoop_blank it.1 hs (nR + 1) (it.2 ++ (render r ++ w)) f
      simp only [render, List.append_assoc]
      rw [hb, lexLoop, selfLexing_append it.2 (render r ++ w) ha hfuse]
      simp only
      rw [hR]
      rfl

/-- `tokenize` on a text of self-lexing spellings, separated by blanks or by nothing where `need_space` allows it,
    followed by blanks: exactly those spellings, with the flags the separators determine -/
theorem lex_items (items : List Item) (w : List Nat) (hok : okItems items) (hw : isBlank w = true) :
    lex (render items ++ w) = .ok (tokensOf (true, false) items) := by
  obtain ⟨n, hn, h⟩ := lexLoop_items items w (true, false) hok hw
  exact lexLoop_mono n _ _ _ _ _ h hn

theorem tokensOf_text (f : Bool × Bool) (items : List Item) :
    (tokensOf f items).map (·.text) = items.map (·.2) := by
  induction items generalizing f with
  | nil => rfl
  | cons it r ih => simp [tokensOf, ih]

/-! ### `print_tokens` writes such a text -/

def itemsOf (prev : Option Tok) : List Tok → List Item
  | [] => []
  | t :: ts => (sepBefore prev t, t.text) :: itemsOf (some t) ts

theorem printFrom_render (prev : Option Tok) (ts : List Tok) :
    printFrom prev ts = render (itemsOf prev ts) ++ [10] := by
  induction ts generalizing prev with
  | nil => rfl
  | cons t ts ih => simp [printFrom, itemsOf, render, ih]

theorem sepBefore_blank (prev : Option Tok) (t : Tok) : isBlank (sepBefore prev t) = true := by
  unfold sepBefore
  split
  · rfl
  · split
    · rfl
    · cases prev with
      | none => rfl
      | some p => simp only; split <;> rfl

theorem sepBefore_nil (p t : Tok) (h : sepBefore (some p) t = []) : needSpace p.text t.text = false := by
  unfold sepBefore at h
  cases hb : t.atBol <;> cases hs : t.hasSpace <;> cases hn : needSpace p.text t.text <;>
    simp [hb, hs, hn] at h ⊢

theorem okItems_itemsOf (ts : List Tok) (h : ∀ t ∈ ts, selfLexing t.text = true) :
    ∀ prev, okItems (itemsOf prev ts) := by
  induction ts with
  | nil => intro prev; trivial
  | cons t ts ih =>
    intro prev
    refine ⟨sepBefore_blank prev t, h t (List.mem_cons_self ..), ?_,
      ih (fun x hx => h x (List.mem_cons_of_mem _ hx)) (some t)⟩
    cases ts with
    | nil => trivial
    | cons t2 ts' => exact fun h0 => sepBefore_nil t t2 h0

/-- the token list a second `tokenize` reads from the printed text -/
def relexed (ts : List Tok) : List Tok := tokensOf (true, false) (itemsOf none ts)

theorem lex_printTokens (ts : List Tok) (h : ∀ t ∈ ts, selfLexing t.text = true) :
    lex (printTokens ts) = .ok (relexed ts) := by
  unfold printTokens relexed
  rw [printFrom_render]
  exact lex_items _ [10] (okItems_itemsOf ts h none) rfl

theorem relexed_text (ts : List Tok) : (relexed ts).map (·.text) = ts.map (·.text) := by
  unfold relexed
  rw [tokensOf_text]
  generalize (none : Option Tok) = prev
  induction ts generalizing prev with
  | nil => rfl
  | cons t ts ih => simp [itemsOf, ih]

/-- the flags the scanner has when it reaches the token after `prev` -/
def startFlags (prev : Option Tok) : Bool × Bool := if prev.isSome then (false, false) else (true, false)

/-- re-reading the separator reproduces the decision of `print_tokens` -/
theorem sepBefore_relex (prev prev' : Option Tok) (t : Tok) (k : Kind)
    (hp : prev'.map (·.text) = prev.map (·.text))
    (hfirst : prev = none → t.atBol = true) :
    sepBefore prev' ⟨k, t.text, (blankFlags (sepBefore prev t) (startFlags prev)).1,
      (blankFlags (sepBefore prev t) (startFlags prev)).2⟩ = sepBefore prev t ∧
    (blankFlags (sepBefore prev t) (startFlags prev)).1 = t.atBol := by
  cases prev with
  | none =>
    cases prev' with
    | some p' => simp at hp
    | none =>
      have hb := hfirst rfl
      simp [sepBefore, startFlags, blankFlags, hb]
  | some p =>
    cases prev' with
    | none => simp at hp
    | some p' =>
      simp only [Option.map_some, Option.some.injEq] at hp
      cases hb : t.atBol <;> cases hs : t.hasSpace <;> cases hn : needSpace p.text t.text <;>
        simp [sepBefore, startFlags, blankFlags, hb, hs, hn, hp]

theorem printFrom_relex (ts : List Tok) : ∀ (prev prev' : Option Tok),
    prev'.map (·.text) = prev.map (·.text) →
    (prev = none → ∀ t ∈ ts.head?, t.atBol = true) →
    printFrom prev' (tokensOf (startFlags prev) (itemsOf prev ts)) = printFrom prev ts ∧
    (tokensOf (startFlags prev) (itemsOf prev ts)).map (·.atBol) = ts.map (·.atBol) := by
  induction ts with
  | nil => intro prev prev' _ _; exact ⟨rfl, rfl⟩
  | cons t ts ih =>
    intro prev prev' hp hfirst
    have hsep := sepBefore_relex prev prev' t (kindOf t.text) hp (fun e => hfirst e t rfl)
    have hi := ih (some t) (some ⟨kindOf t.text, t.text, (blankFlags (sepBefore prev t) (startFlags prev)).1,
      (blankFlags (sepBefore prev t) (startFlags prev)).2⟩) rfl (fun e => by cases e)
    simp only [itemsOf, tokensOf, printFrom, List.map_cons]
    have hsf : startFlags (some t) = (false, false) := rfl
    rw [hsf] at hi
    rw [hsep.1, hi.1, hi.2, hsep.2]
    exact ⟨rfl, rfl⟩

theorem all_congr_of_maps {p : Tok → Bool} (q : List Nat → Bool → Bool) (hp : ∀ t, p t = q t.text t.atBol) :
    ∀ (us ts : List Tok), us.map (·.text) = ts.map (·.text) → us.map (·.atBol) = ts.map (·.atBol) →
      us.all p = ts.all p := by
  intro us
  induction us with
  | nil => intro ts h1 _; cases ts with
    | nil => rfl
    | cons t ts => simp at h1
  | cons u us ih =>
    intro ts h1 h2
    cases ts with
    | nil => simp at h1
    | cons t ts =>
      simp only [List.map_cons, List.cons.injEq] at h1 h2
      simp only [List.all_cons, hp, h1.1, h2.1, ih ts h1.2 h2.2]

end ChibiVerif.Lex
