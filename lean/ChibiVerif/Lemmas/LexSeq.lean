/-
Sequence-level lemmas for C19: the scanning loop over a text made of self-lexing spellings
separated by blanks/newlines or by nothing where `need_space` says nothing is needed.
-/
import ChibiVerif.Lemmas.LexLemmas

namespace ChibiVerif.Lex
open ChibiVerif.LexChar ChibiVerif.Gen.Lex

/-! ### fuel -/

theorem lexLoop_mono (n : Nat) : ∀ (s : List Nat) (bol sp : Bool) (ts : List Tok) (m : Nat),
    lexLoop n s bol sp = .ok ts → n ≤ m → lexLoop m s bol sp = .ok ts := by
  induction n with
  | zero => intro s bol sp ts m h; simp [lexLoop] at h
  | succ n ih =>
    intro s bol sp ts m h hm
    obtain ⟨m', rfl⟩ : ∃ m', m = m' + 1 := ⟨m - 1, by omega⟩
    have hm' : n ≤ m' := by omega
    rw [lexLoop] at h ⊢
    cases hs : lexStep s bol sp with
    | done => rw [hs] at h; exact h
    | skip r b p => rw [hs] at h; exact ih r b p ts m' h hm'
    | tok t r =>
      rw [hs] at h
      simp only at h ⊢
      cases hl : lexLoop n r false false with
      | error e => rw [hl] at h; cases h
      | ok ts' => rw [hl] at h; rw [ih r false false ts' m' hl hm']; exact h
    | err e => rw [hs] at h; exact h

/-! ### self-lexing spellings -/

/-- the kind the scanner gives to a self-lexing spelling -/
def kindOf (a : List Nat) : Kind :=
  match lexStep a true false with
  | .tok t _ => t.kind
  | _ => .punct

theorem selfLexing_step (a : List Nat) (h : selfLexing a = true) :
    ∃ c a', a = c :: a' ∧ lexStep (c :: a') true false = .tok ⟨kindOf a, c :: a', true, false⟩ [] := by
  unfold selfLexing at h
  cases a with
  | nil => simp [lexStep] at h
  | cons c a' =>
    refine ⟨c, a', rfl, ?_⟩
    unfold kindOf
    cases hs : lexStep (c :: a') true false with
    | done => rw [hs] at h; cases h
    | skip r b p => rw [hs] at h; cases h
    | err e => rw [hs] at h; cases h
    | tok t r =>
      rw [hs] at h
      cases r with
      | cons x r' => cases h
      | nil =>
        simp only [beq_iff_eq] at h
        have inv := lexStep_tok_inv _ _ _ _ _ hs
        obtain ⟨k, x, b, p⟩ := t
        simp only at h inv ⊢
        have h1 := inv.bol
        have h2 := inv.sp
        simp only at h1 h2
        subst h; subst h1; subst h2
        rfl

theorem selfLexing_of_step (c : Nat) (a : List Nat) (k : Kind) (b p : Bool)
    (h : lexStep (c :: a) b p = .tok ⟨k, c :: a, b, p⟩ []) : selfLexing (c :: a) = true := by
  have := lexStep_append c a [] k b p true false h (noFuse_nil c a)
  rw [List.append_nil] at this
  unfold selfLexing
  rw [this]
  simp

/-- the step on a self-lexing spelling followed by anything that does not fuse with it -/
theorem selfLexing_append (a rest : List Nat) (h : selfLexing a = true)
    (hf : ∀ c a', a = c :: a' → noFuse c a' rest) (bol sp : Bool) :
    lexStep (a ++ rest) bol sp = .tok ⟨kindOf a, a, bol, sp⟩ rest := by
  obtain ⟨c, a', rfl, hs⟩ := selfLexing_step a h
  exact lexStep_append c a' rest _ true false bol sp hs (hf c a' rfl)

/-! ### blanks -/

/-- a separator as `print_tokens` writes them: blanks and newlines only -/
def isBlank (w : List Nat) : Bool := w.all (fun r => r == 32 || r == 10)

/-- `at_bol` / `has_space` after scanning the blank string `w` from the state `(bol, sp)` -/
def blankFlags : List Nat → Bool × Bool → Bool × Bool
  | [], f => f
  | r :: w, f => blankFlags w (if r == 10 then (true, false) else (f.1, true))

theorem lexStep_blank (r : Nat) (t : List Nat) (bol sp : Bool) (hr : r = 32 ∨ r = 10) :
    lexStep (r :: t) bol sp = .skip t (if r == 10 then (true, false) else (bol, true)).1
      (if r == 10 then (true, false) else (bol, true)).2 := by
  rcases hr with rfl | rfl <;> rfl

/-- scanning a blank prefix costs one iteration per character and only changes the flags -/
theorem lexLoop_blank (w : List Nat) (hw : isBlank w = true) : ∀ (n : Nat) (s : List Nat) (f : Bool × Bool),
    lexLoop (n + w.length) (w ++ s) f.1 f.2 = lexLoop n s (blankFlags w f).1 (blankFlags w f).2 := by
  induction w with
  | nil => intro n s f; rfl
  | cons r w ih =>
    intro n s f
    simp only [isBlank, List.all_cons, Bool.and_eq_true, Bool.or_eq_true, beq_iff_eq] at hw
    have hw' : isBlank w = true := by simpa [isBlank] using hw.2
    rw [List.length_cons, ← Nat.add_assoc, List.cons_append, lexLoop, lexStep_blank r _ _ _ hw.1]
    exact ih hw' n s _

end ChibiVerif.Lex
