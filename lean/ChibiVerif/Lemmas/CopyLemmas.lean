/-
Helper lemmas for the copy family of C04: the byte loops of store/push_struct/copy_struct_mem and `rep stosb`.
-/
import ChibiVerif.Model.Copy
namespace ChibiVerif.Copy

theorem copyBytes_succ (m : Mem) (src dst : Int) (n : Nat) :
    copyBytes m src dst (n + 1) = moveByte src dst (copyBytes m src dst n) n := by
  simp only [copyBytes, List.range_succ, List.foldl_append, List.foldl_cons, List.foldl_nil]

/-- byte i goes to byte i and nothing else is written, whenever the destination does not start inside the source
    above its first byte (disjoint objects, the same object, or a destination below the source) -/
theorem copyBytes_spec : ∀ (size : Nat) (m : Mem) (src dst : Int), (dst ≤ src ∨ src + size ≤ dst) →
    (∀ i : Nat, i < size → copyBytes m src dst size (dst + i) = m (src + i)) ∧
    (∀ a : Int, a < dst ∨ dst + size ≤ a → copyBytes m src dst size a = m a) := by
  intro size
  induction size with
  | zero => intro m src dst _; exact ⟨fun i hi => absurd hi (Nat.not_lt_zero _), fun a _ => rfl⟩
  | succ n ih =>
    intro m src dst h
    obtain ⟨ih1, ih2⟩ := ih m src dst (by omega)
    constructor
    · intro i hi
      rw [copyBytes_succ]
      simp only [moveByte]
      by_cases hin : i = n
      · subst hin
        simp only [if_true]
        exact ih2 _ (by omega)
      · have : ¬ (dst + (i : Int) = dst + (n : Int)) := by omega
        simp only [this, if_false]
        exact ih1 i (by omega)
    · intro a ha
      rw [copyBytes_succ]
      simp only [moveByte]
      have : ¬ (a = dst + (n : Int)) := by omega
      simp only [this, if_false]
      exact ih2 a (by omega)

theorem repStosb_spec : ∀ (rcx : Nat) (m : Mem) (al : BitVec 8) (rdi : Int) (a : Int),
    repStosb m al rdi rcx a = if rdi ≤ a ∧ a < rdi + rcx then al else m a := by
  intro rcx
  induction rcx with
  | zero => intro m al rdi a; simp only [repStosb]; have : ¬ (rdi ≤ a ∧ a < rdi + ((0 : Nat) : Int)) := by omega
            simp only [this, if_false]
  | succ n ih =>
    intro m al rdi a
    simp only [repStosb]
    rw [ih]
    by_cases h1 : a = rdi
    · subst h1
      have c1 : ¬ (a + 1 ≤ a ∧ a < a + 1 + (n : Int)) := by omega
      have c2 : (a ≤ a ∧ a < a + ((n + 1 : Nat) : Int)) := by omega
      rw [if_neg c1, if_pos c2]; simp
    · by_cases h2 : rdi + 1 ≤ a ∧ a < rdi + 1 + (n : Int)
      · have c2 : (rdi ≤ a ∧ a < rdi + ((n + 1 : Nat) : Int)) := by omega
        rw [if_pos h2, if_pos c2]
      · have c2 : ¬ (rdi ≤ a ∧ a < rdi + ((n + 1 : Nat) : Int)) := by omega
        rw [if_neg h2, if_neg c2]; simp [h1]

end ChibiVerif.Copy
