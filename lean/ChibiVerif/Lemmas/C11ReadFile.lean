/-
`read_file` as translated from tokenize.c (Gen/StrJoinGen.lean `readFileBuf`: the statements after the read loop) is the
final-newline rule `ensureFinalNewline` of Model/Text.lean followed by the terminator; composed with the translated
`tokenize_file` (Lemmas/C11Phases.lean) it gives, for every file content without NUL, the text `phase12` that every
`C11_text_*` theorem is about.
-/
import ChibiVerif.Model.StrJoin
import ChibiVerif.Lemmas.C11Phases

set_option linter.unusedSimpArgs false

namespace ChibiVerif.Lemmas.ReadFile
open ChibiVerif.Gen.Literals
open ChibiVerif.Gen.StrJoin
open ChibiVerif.StrJoin
open ChibiVerif.Literals
open ChibiVerif.Text
open ChibiVerif.PpNumber

/-- the final-newline rule written out: a newline is appended iff the file is empty or does not end in one -/
def withFinalNewline (s : List Byte) : List Byte := if s = [] ∨ s.getLast? ≠ some LF then s ++ [LF] else s

theorem ensureFinalNewline_eq (s : List Byte) : ensureFinalNewline s = withFinalNewline s := by
  unfold ensureFinalNewline withFinalNewline
  rcases List.eq_nil_or_concat s with rfl | ⟨l, b, rfl⟩
  · simp
  · by_cases hb : b = LF <;> simp [hb]

theorem readFileBuf_eq (s : List Byte) : readFileBuf s = ensureFinalNewline s ++ [0#8] := by
  unfold readFileBuf ensureFinalNewline
  rcases List.eq_nil_or_concat s with rfl | ⟨l, b, rfl⟩
  · simp [LF]
  · have hb : byteAt (l ++ [b]) l.length = b := by simp [byteAt]
    by_cases hl : b = LF
    · subst hl
      have hb' : byteAt (l ++ [10#8]) l.length = 10#8 := hb
      simp [hb', LF]
    · have hl' : b ≠ 0xA#8 := hl
      simp [hb, hl, hl', LF]

theorem cString_append_nul : ∀ t : List Byte, (0#8 : Byte) ∉ t → cString (t ++ [0#8]) = t
  | [], _ => by simp [cString]
  | a :: t, h => by
    have ha : a ≠ 0#8 := fun e => h (by simp [e])
    have ht : (0#8 : Byte) ∉ t := fun e => h (by simp [e])
    have ih := cString_append_nul t ht
    unfold cString at ih ⊢
    rw [List.cons_append, List.takeWhile_cons, if_pos (by simpa using ha), ih]

theorem ensureFinalNewline_no_nul (s : List Byte) (h0 : (0#8 : Byte) ∉ s) : (0#8 : Byte) ∉ ensureFinalNewline s := by
  rw [ensureFinalNewline_eq]
  unfold withFinalNewline
  split
  · simp [h0, LF]
  · exact h0

/-- the text `tokenize_file` works on is `read_file`'s array up to its terminator: the file with the final-newline rule applied -/
theorem read_file_text (s : List Byte) (h0 : (0#8 : Byte) ∉ s) : cString (readFileBuf s) = ensureFinalNewline s := by
  rw [readFileBuf_eq, cString_append_nul _ (ensureFinalNewline_no_nul s h0)]

/-- file bytes ↦ tokenizer text, every step translated -/
theorem source_text (s : List Byte) (h0 : (0#8 : Byte) ∉ s) : sourceText s = some (phase12 s) := by
  unfold sourceText
  rw [read_file_text s h0]
  exact ChibiVerif.Lemmas.Phases.phase_order s h0

end ChibiVerif.Lemmas.ReadFile
