/-
C05, back-end agreement, part 1: both back ends are folds over the same list of initialised scalar leaves.

`leaves init ty off` lists, in the order both `write_gvar_data` and `create_lvar_init` visit them, the scalar leaves of the
initializer tree that carry an expression, each with the place it is stored to.  `writeGvar_leaves` / `createLvar_leaves`
are proved by structural recursion over the tree, without any reasoning about memory.
-/
import ChibiVerif.Model.Init

namespace ChibiVerif.Init

inductive Leaf where
  | val (off sz : Nat) (kind : SKind) (e : Expr)                 -- ordinary scalar member/element
  | bf (off sz : Nat) (kind : SKind) (bo bw : Nat) (e : Expr)    -- bit-field member; `off`,`sz`: its storage unit
  deriving Repr, DecidableEq

/-- the leaf of a bit-field member -/
def bfLeaf (c : Init) (t : Ty) (loc bo bw : Nat) : List Leaf :=
  match c, t with
  | .leaf (some e), .scalar sz kind => [Leaf.bf loc sz kind bo bw e]
  | _, _ => []

mutual
  def leaves : Init → Ty → Nat → List Leaf
    | .arr cs, .array elem _, off => leavesArr cs elem off
    | .struct _ cs, .struct ms _ _, off => leavesMs cs ms off
    | .union none (some k) cs, .union ms _ _, off => leavesNth cs ms k off
    | .leaf (some e), .scalar sz kind, off => [.val off sz kind e]
    | _, _, _ => []
  def leavesArr : List Init → Ty → Nat → List Leaf
    | [], _, _ => []
    | c :: cs, elem, off => leaves c elem off ++ leavesArr cs elem (off + elem.size.toNat)
  def leavesMs : List Init → Members → Nat → List Leaf
    | c :: cs, (mi, t) :: ms, off =>
      (match mi.bf with
       | some (bo, bw) => bfLeaf c t (off + mi.offset) bo bw
       | none => leaves c t (off + mi.offset)) ++ leavesMs cs ms off
    | _, _, _ => []
  def leavesNth : List Init → Members → Nat → Nat → List Leaf
    | c :: _, (_, t) :: _, 0, off => leaves c t off
    | _ :: cs, _ :: ms, k+1, off => leavesNth cs ms k off
    | _, _, _, _ => []
end

/-- a scalar may be initialised by this expression in both storage classes: no struct-valued expression; an address constant
    only where a relocation fits (8-byte integer or pointer) -/
def leafOK (sz : Nat) (kind : SKind) (e : Expr) : Bool :=
  !e.isStruct && (e.label.isNone || (sz == 8 && (kind == .int || kind == .ptr)))

/-- `mask` of the bit-field arms: `(1L << bit_width) - 1` -/
def bfMask (bw : Nat) : Nat := (2 ^ bw - 1) % 18446744073709551616

/-- a bit-field may be initialised by this expression: an integer constant expression -/
def bfOK (kind : SKind) (e : Expr) : Bool :=
  !e.isStruct && e.label.isNone && (kind == .int || kind == .bool)

mutual
  /-- the tree has the shape of the (resolved) type and every expression is admissible for its leaf -/
  def fits : Init → Ty → Bool
    | .arr cs, .array elem n => cs.length == n && fitsArr cs elem
    | .flex, .array _ _ => true
    | .struct none cs, .struct ms _ _ => fitsMs cs ms
    | .union none none cs, .union ms _ _ => fitsNth cs ms 0 && !(hasExprList cs)
    | .union none (some k) cs, .union ms _ _ => fitsNth cs ms k
    | .leaf none, .scalar _ _ => true
    | .leaf (some e), .scalar sz kind => leafOK sz kind e
    | _, _ => false
  def fitsArr : List Init → Ty → Bool
    | [], _ => true
    | c :: cs, e => fits c e && fitsArr cs e
  def fitsMs : List Init → Members → Bool
    | [], [] => true
    | c :: cs, (mi, t) :: ms =>
      (match mi.bf with
       | some _ => (match c, t with
         | .leaf none, .scalar _ _ => true
         | .leaf (some e), .scalar _ kind => bfOK kind e
         | _, _ => false)
       | none => fits c t) && fitsMs cs ms
    | _, _ => false
  def fitsNth : List Init → Members → Nat → Bool
    | c :: _, (mi, t) :: _, 0 => mi.bf.isNone && mi.offset == 0 && fits c t
    | _ :: cs, _ :: ms, k+1 => fitsNth cs ms k
    | _, _, _ => false
end

theorem fitsNth_ne {cs : List Init} {ms : Members} {k : Nat} (h : fitsNth cs ms k = true) : ms.isEmpty = false := by
  cases ms with
  | nil => cases cs <;> cases k <;> simp [fitsNth] at h
  | cons m r => rfl

/-! ### static storage -/

/-- what `write_gvar_data` does at one leaf -/
def staticLeaf (im : Image) : Leaf → Except Fail Image
  | .val off sz kind e => writeGvarLeaf e sz kind im off
  | .bf loc sz kind bo bw e =>
    if e.label.isSome then .error (.diag "not a compile-time constant")
    else do
      let oldval ← readBuf im.bytes loc sz
      let newval := if kind = .bool then (if e.nz then 1 else 0) else u64 e.ival
      let mask := (2 ^ bw - 1) % 18446744073709551616
      let combined := oldval ||| (((newval &&& mask) <<< bo) % 18446744073709551616)
      let bytes ← writeBuf im.bytes loc combined sz
      pure { im with bytes := bytes }

mutual
  theorem writeGvar_leaves : ∀ (init : Init) (ty : Ty) (im : Image) (off : Nat), fits init ty = true →
      writeGvar init ty im off = (leaves init ty off).foldlM staticLeaf im
    | .arr cs, .array elem n, im, off, h => by
      simp only [fits, Bool.and_eq_true] at h
      simp only [writeGvar, leaves]
      exact writeGvarArr_leaves cs elem im off h.2
    | .flex, .array _ _, im, off, _ => by simp only [writeGvar, leaves, List.foldlM_nil]; rfl
    | .struct none cs, .struct ms _ _, im, off, h => by
      simp only [fits] at h
      simp only [writeGvar, leaves]
      exact writeGvarMs_leaves cs ms im off h
    | .union none none cs, .union ms _ _, im, off, _ => by simp only [writeGvar, leaves, List.foldlM_nil]; rfl
    | .union none (some k) cs, .union ms _ _, im, off, h => by
      simp only [fits] at h
      simp only [writeGvar, leaves]
      exact writeGvarNth_leaves cs ms k im off h
    | .leaf none, .scalar _ _, im, off, _ => by simp only [writeGvar, leaves, List.foldlM_nil]; rfl
    | .leaf (some e), .scalar sz kind, im, off, _ => by
      simp [writeGvar, leaves, staticLeaf]
    | .arr _, .scalar _ _, _, _, h => by simp [fits] at h
    | .arr _, .inc _, _, _, h => by simp [fits] at h
    | .arr _, .struct _ _ _, _, _, h => by simp [fits] at h
    | .arr _, .union _ _ _, _, _, h => by simp [fits] at h
    | .flex, .scalar _ _, _, _, h => by simp [fits] at h
    | .flex, .inc _, _, _, h => by simp [fits] at h
    | .flex, .struct _ _ _, _, _, h => by simp [fits] at h
    | .flex, .union _ _ _, _, _, h => by simp [fits] at h
    | .struct none _, .scalar _ _, _, _, h => by simp [fits] at h
    | .struct none _, .array _ _, _, _, h => by simp [fits] at h
    | .struct none _, .inc _, _, _, h => by simp [fits] at h
    | .struct none _, .union _ _ _, _, _, h => by simp [fits] at h
    | .struct (some _) _, .scalar _ _, _, _, h => by simp [fits] at h
    | .struct (some _) _, .array _ _, _, _, h => by simp [fits] at h
    | .struct (some _) _, .inc _, _, _, h => by simp [fits] at h
    | .struct (some _) _, .struct _ _ _, _, _, h => by simp [fits] at h
    | .struct (some _) _, .union _ _ _, _, _, h => by simp [fits] at h
    | .union none none _, .scalar _ _, _, _, h => by simp [fits] at h
    | .union none none _, .array _ _, _, _, h => by simp [fits] at h
    | .union none none _, .inc _, _, _, h => by simp [fits] at h
    | .union none none _, .struct _ _ _, _, _, h => by simp [fits] at h
    | .union none (some _) _, .scalar _ _, _, _, h => by simp [fits] at h
    | .union none (some _) _, .array _ _, _, _, h => by simp [fits] at h
    | .union none (some _) _, .inc _, _, _, h => by simp [fits] at h
    | .union none (some _) _, .struct _ _ _, _, _, h => by simp [fits] at h
    | .union (some _) _ _, .scalar _ _, _, _, h => by simp [fits] at h
    | .union (some _) _ _, .array _ _, _, _, h => by simp [fits] at h
    | .union (some _) _ _, .inc _, _, _, h => by simp [fits] at h
    | .union (some _) _ _, .struct _ _ _, _, _, h => by simp [fits] at h
    | .union (some _) _ _, .union _ _ _, _, _, h => by simp [fits] at h
    | .leaf none, .array _ _, _, _, h => by simp [fits] at h
    | .leaf none, .inc _, _, _, h => by simp [fits] at h
    | .leaf none, .struct _ _ _, _, _, h => by simp [fits] at h
    | .leaf none, .union _ _ _, _, _, h => by simp [fits] at h
    | .leaf (some _), .array _ _, _, _, h => by simp [fits] at h
    | .leaf (some _), .inc _, _, _, h => by simp [fits] at h
    | .leaf (some _), .struct _ _ _, _, _, h => by simp [fits] at h
    | .leaf (some _), .union _ _ _, _, _, h => by simp [fits] at h
  theorem writeGvarArr_leaves : ∀ (cs : List Init) (elem : Ty) (im : Image) (off : Nat), fitsArr cs elem = true →
      writeGvarArr cs elem im off = (leavesArr cs elem off).foldlM staticLeaf im
    | [], _, im, _, _ => by simp only [writeGvarArr, leavesArr, List.foldlM_nil]; rfl
    | c :: cs, elem, im, off, h => by
      simp only [fitsArr, Bool.and_eq_true] at h
      simp only [writeGvarArr, leavesArr, List.foldlM_append]
      rw [writeGvar_leaves c elem im off h.1]
      congr 1
      funext im'
      exact writeGvarArr_leaves cs elem im' _ h.2
  theorem writeGvarMs_leaves : ∀ (cs : List Init) (ms : Members) (im : Image) (off : Nat), fitsMs cs ms = true →
      writeGvarMs cs ms im off = (leavesMs cs ms off).foldlM staticLeaf im
    | [], [], im, _, _ => by simp only [writeGvarMs, leavesMs, List.foldlM_nil]; rfl
    | [], _ :: _, _, _, h => by simp [fitsMs] at h
    | _ :: _, [], _, _, h => by simp [fitsMs] at h
    | c :: cs, (mi, t) :: ms, im, off, h => by
      simp only [fitsMs, Bool.and_eq_true] at h
      obtain ⟨h1, h2⟩ := h
      simp only [writeGvarMs, leavesMs, List.foldlM_append]
      cases hbf : mi.bf with
      | none =>
        simp only [hbf] at h1 ⊢
        rw [writeGvar_leaves c t im _ h1]
        congr 1
        funext im'
        exact writeGvarMs_leaves cs ms im' off h2
      | some p =>
        obtain ⟨bo, bw⟩ := p
        simp only [hbf] at h1 ⊢
        match c, t, h1 with
        | .leaf none, .scalar _ _, _ =>
          simp only [Init.expr?, bfLeaf, List.foldlM_nil, pure_bind]
          exact writeGvarMs_leaves cs ms im off h2
        | .leaf (some e), .scalar sz kind, _ =>
          simp only [Init.expr?, bfLeaf, List.foldlM_cons, List.foldlM_nil, staticLeaf, Ty.size, Int.toNat_natCast]
          by_cases hl : e.label.isSome = true
          · simp only [hl, ↓reduceIte]; rfl
          · simp only [hl, Bool.false_eq_true, ↓reduceIte, bind_assoc, pure_bind]
            congr 1; funext o
            cases kind <;> simp only [reduceCtorEq, ↓reduceIte] <;>
              (congr 1; funext b; exact writeGvarMs_leaves cs ms _ off h2)
  theorem writeGvarNth_leaves : ∀ (cs : List Init) (ms : Members) (k : Nat) (im : Image) (off : Nat), fitsNth cs ms k = true →
      writeGvarNth cs ms k im off = (leavesNth cs ms k off).foldlM staticLeaf im
    | c :: _, (mi, t) :: _, 0, im, off, h => by
      simp only [fitsNth, Bool.and_eq_true] at h
      simp only [writeGvarNth, leavesNth]
      exact writeGvar_leaves c t im off h.2
    | _ :: cs, _ :: ms, k+1, im, off, h => by
      simp only [fitsNth] at h
      simp only [writeGvarNth, leavesNth]
      exact writeGvarNth_leaves cs ms k im off h
    | [], _, _, _, _, h => by simp [fitsNth] at h
    | _ :: _, [], _, _, _, h => by simp [fitsNth] at h
end

end ChibiVerif.Init

namespace ChibiVerif.Init

/-! ### automatic storage -/

def pathAddr (path : List Desg) : Nat := (path.map Desg.disp).foldl (· + ·) 0

theorem pathAddr_snoc (p : List Desg) (d : Desg) : pathAddr (p ++ [d]) = pathAddr p + d.disp := by
  simp [pathAddr, List.foldl_append]

theorem Assign.addr_eq (a : Assign) : a.addr = pathAddr a.path := rfl

def Leaf.off : Leaf → Nat
  | .val off _ _ _ => off
  | .bf off _ _ _ _ _ => off

def Leaf.kind : Leaf → StoreKind
  | .val _ sz kind _ => .scalar sz kind
  | .bf _ sz kind bo bw _ => .bitfield sz kind bo bw

def Leaf.e : Leaf → Expr
  | .val _ _ _ e => e
  | .bf _ _ _ _ _ e => e

def Leaf.key (l : Leaf) : Nat × StoreKind × Expr := (l.off, l.kind, l.e)
def Assign.key (a : Assign) : Nat × StoreKind × Expr := (a.addr, a.kind, a.e)

/-- the assignment chain stores exactly at the leaves -/
def SameAs (as : List Assign) (ls : List Leaf) : Prop := as.map Assign.key = ls.map Leaf.key

theorem SameAs.append {a1 a2 : List Assign} {l1 l2 : List Leaf} (h1 : SameAs a1 l1) (h2 : SameAs a2 l2) :
    SameAs (a1 ++ a2) (l1 ++ l2) := by
  simp only [SameAs, List.map_append] at *
  rw [h1, h2]

mutual
  /-- a tree without expressions generates no assignment -/
  theorem createLvar_noExpr : ∀ (init : Init) (ty : Ty) (path : List Desg) (bf : Option (Nat × Nat)),
      fits init ty = true → hasExpr init = false → createLvarInit init ty path bf = .ok []
    | .arr cs, .array elem n, path, _, h, hn => by
      simp only [fits, Bool.and_eq_true] at h
      simp only [hasExpr] at hn
      simp only [createLvarInit]
      exact createLvarArr_noExpr cs elem path 0 h.2 hn
    | .flex, .array _ _, _, _, _, _ => by simp [createLvarInit]
    | .struct none cs, .struct ms _ _, path, _, h, hn => by
      simp only [fits] at h
      simp only [hasExpr, Option.isSome_none, Bool.false_or] at hn
      simp only [createLvarInit]
      exact createLvarMs_noExpr cs ms path h hn
    | .union none none cs, .union ms _ _, path, _, h, hn => by
      simp only [fits, Bool.and_eq_true] at h
      simp only [hasExpr, Option.isSome_none, Bool.false_or] at hn
      simp only [createLvarInit, Option.getD_none, fitsNth_ne h.1, Bool.false_eq_true, ↓reduceIte]
      exact createLvarNth_noExpr cs ms 0 path h.1 hn
    | .union none (some k) cs, .union ms _ _, _, _, _, hn => by simp [hasExpr] at hn
    | .leaf none, .scalar _ _, _, _, _, _ => by simp [createLvarInit]
    | .leaf (some e), .scalar _ _, _, _, _, hn => by simp [hasExpr] at hn
    | .arr _, .scalar _ _, _, _, h, _ => by simp [fits] at h
    | .arr _, .inc _, _, _, h, _ => by simp [fits] at h
    | .arr _, .struct _ _ _, _, _, h, _ => by simp [fits] at h
    | .arr _, .union _ _ _, _, _, h, _ => by simp [fits] at h
    | .flex, .scalar _ _, _, _, h, _ => by simp [fits] at h
    | .flex, .inc _, _, _, h, _ => by simp [fits] at h
    | .flex, .struct _ _ _, _, _, h, _ => by simp [fits] at h
    | .flex, .union _ _ _, _, _, h, _ => by simp [fits] at h
    | .struct none _, .scalar _ _, _, _, h, _ => by simp [fits] at h
    | .struct none _, .array _ _, _, _, h, _ => by simp [fits] at h
    | .struct none _, .inc _, _, _, h, _ => by simp [fits] at h
    | .struct none _, .union _ _ _, _, _, h, _ => by simp [fits] at h
    | .struct (some _) _, _, _, _, _, hn => by simp [hasExpr] at hn
    | .union (some _) _ _, _, _, _, _, hn => by simp [hasExpr] at hn
    | .union none none _, .scalar _ _, _, _, h, _ => by simp [fits] at h
    | .union none none _, .array _ _, _, _, h, _ => by simp [fits] at h
    | .union none none _, .inc _, _, _, h, _ => by simp [fits] at h
    | .union none none _, .struct _ _ _, _, _, h, _ => by simp [fits] at h
    | .leaf none, .array _ _, _, _, h, _ => by simp [fits] at h
    | .leaf none, .inc _, _, _, h, _ => by simp [fits] at h
    | .leaf none, .struct _ _ _, _, _, h, _ => by simp [fits] at h
    | .leaf none, .union _ _ _, _, _, h, _ => by simp [fits] at h
  theorem createLvarArr_noExpr : ∀ (cs : List Init) (elem : Ty) (path : List Desg) (i : Nat),
      fitsArr cs elem = true → hasExprList cs = false → createLvarArr cs elem path i = .ok []
    | [], _, _, _, _, _ => by simp [createLvarArr]
    | c :: cs, elem, path, i, h, hn => by
      simp only [fitsArr, Bool.and_eq_true] at h
      simp only [hasExprList, Bool.or_eq_false_iff] at hn
      simp only [createLvarArr]
      rw [createLvar_noExpr c elem _ none h.1 hn.1, createLvarArr_noExpr cs elem path (i+1) h.2 hn.2]
      rfl
  theorem createLvarMs_noExpr : ∀ (cs : List Init) (ms : Members) (path : List Desg),
      fitsMs cs ms = true → hasExprList cs = false → createLvarMs cs ms path = .ok []
    | [], [], _, _, _ => by simp [createLvarMs]
    | [], _ :: _, _, h, _ => by simp [fitsMs] at h
    | _ :: _, [], _, h, _ => by simp [fitsMs] at h
    | c :: cs, (mi, t) :: ms, path, h, hn => by
      simp only [fitsMs, Bool.and_eq_true] at h
      simp only [hasExprList, Bool.or_eq_false_iff] at hn
      simp only [createLvarMs]
      have hc : createLvarInit c t (path ++ [.mem mi.offset]) mi.bf = .ok [] := by
        cases hbf : mi.bf with
        | none => simp only [hbf] at h; exact createLvar_noExpr c t _ none h.1 hn.1
        | some p =>
          simp only [hbf] at h
          match c, t, h.1, hn.1 with
          | .leaf none, .scalar _ _, _, _ => simp [createLvarInit]
          | .leaf (some e), .scalar _ _, _, hx => simp [hasExpr] at hx
      rw [hc, createLvarMs_noExpr cs ms path h.2 hn.2]
      rfl
  theorem createLvarNth_noExpr : ∀ (cs : List Init) (ms : Members) (k : Nat) (path : List Desg),
      fitsNth cs ms k = true → hasExprList cs = false → createLvarNth cs ms k path = .ok []
    | c :: _, (mi, t) :: _, 0, path, h, hn => by
      simp only [fitsNth, Bool.and_eq_true] at h
      simp only [hasExprList, Bool.or_eq_false_iff] at hn
      simp only [createLvarNth]
      have : mi.bf = none := by simpa using h.1.1
      rw [this]
      exact createLvar_noExpr c t _ none h.2 hn.1
    | _ :: cs, _ :: ms, k+1, path, h, hn => by
      simp only [fitsNth] at h
      simp only [hasExprList, Bool.or_eq_false_iff] at hn
      simp only [createLvarNth]
      exact createLvarNth_noExpr cs ms k path h hn.2
    | [], _, _, _, h, _ => by simp [fitsNth] at h
    | _ :: _, [], _, _, h, _ => by simp [fitsNth] at h
end

end ChibiVerif.Init

namespace ChibiVerif.Init

mutual
  /-- `create_lvar_init` produces one assignment per leaf, addressed at the leaf's offset -/
  theorem createLvar_leaves : ∀ (init : Init) (ty : Ty) (path : List Desg), fits init ty = true →
      ∃ as, createLvarInit init ty path none = .ok as ∧ SameAs as (leaves init ty (pathAddr path))
    | .arr cs, .array elem n, path, h => by
      simp only [fits, Bool.and_eq_true] at h
      simp only [createLvarInit, leaves]
      have := createLvarArr_leaves cs elem path 0 (pathAddr path) h.2
      simpa using this
    | .flex, .array _ _, _, _ => ⟨[], by simp [createLvarInit], by simp [leaves, SameAs]⟩
    | .struct none cs, .struct ms _ _, path, h => by
      simp only [fits] at h
      simp only [createLvarInit, leaves]
      exact createLvarMs_leaves cs ms path h
    | .union none none cs, .union ms _ _, path, h => by
      simp only [fits, Bool.and_eq_true, Bool.not_eq_true'] at h
      refine ⟨[], ?_, by simp [leaves, SameAs]⟩
      simp only [createLvarInit, Option.getD_none, fitsNth_ne h.1, Bool.false_eq_true, ↓reduceIte]
      exact createLvarNth_noExpr cs ms 0 path h.1 h.2
    | .union none (some k) cs, .union ms _ _, path, h => by
      simp only [fits] at h
      simp only [createLvarInit, leaves, Option.getD_some, fitsNth_ne h, Bool.false_eq_true, ↓reduceIte]
      exact createLvarNth_leaves cs ms k path h
    | .leaf none, .scalar _ _, _, _ => ⟨[], by simp [createLvarInit], by simp [leaves, SameAs]⟩
    | .leaf (some e), .scalar sz kind, path, _ =>
      ⟨[{ path := path, kind := .scalar sz kind, e := e }], by simp [createLvarInit],
        by simp [leaves, SameAs, Assign.key, Leaf.key, Assign.addr, pathAddr, Leaf.off, Leaf.kind, Leaf.e]⟩
    | .arr _, .scalar _ _, _, h => by simp [fits] at h
    | .arr _, .inc _, _, h => by simp [fits] at h
    | .arr _, .struct _ _ _, _, h => by simp [fits] at h
    | .arr _, .union _ _ _, _, h => by simp [fits] at h
    | .flex, .scalar _ _, _, h => by simp [fits] at h
    | .flex, .inc _, _, h => by simp [fits] at h
    | .flex, .struct _ _ _, _, h => by simp [fits] at h
    | .flex, .union _ _ _, _, h => by simp [fits] at h
    | .struct none _, .scalar _ _, _, h => by simp [fits] at h
    | .struct none _, .array _ _, _, h => by simp [fits] at h
    | .struct none _, .inc _, _, h => by simp [fits] at h
    | .struct none _, .union _ _ _, _, h => by simp [fits] at h
    | .struct (some _) _, .scalar _ _, _, h => by simp [fits] at h
    | .struct (some _) _, .array _ _, _, h => by simp [fits] at h
    | .struct (some _) _, .inc _, _, h => by simp [fits] at h
    | .struct (some _) _, .struct _ _ _, _, h => by simp [fits] at h
    | .struct (some _) _, .union _ _ _, _, h => by simp [fits] at h
    | .union none none _, .scalar _ _, _, h => by simp [fits] at h
    | .union none none _, .array _ _, _, h => by simp [fits] at h
    | .union none none _, .inc _, _, h => by simp [fits] at h
    | .union none none _, .struct _ _ _, _, h => by simp [fits] at h
    | .union none (some _) _, .scalar _ _, _, h => by simp [fits] at h
    | .union none (some _) _, .array _ _, _, h => by simp [fits] at h
    | .union none (some _) _, .inc _, _, h => by simp [fits] at h
    | .union none (some _) _, .struct _ _ _, _, h => by simp [fits] at h
    | .union (some _) _ _, .scalar _ _, _, h => by simp [fits] at h
    | .union (some _) _ _, .array _ _, _, h => by simp [fits] at h
    | .union (some _) _ _, .inc _, _, h => by simp [fits] at h
    | .union (some _) _ _, .struct _ _ _, _, h => by simp [fits] at h
    | .union (some _) _ _, .union _ _ _, _, h => by simp [fits] at h
    | .leaf none, .array _ _, _, h => by simp [fits] at h
    | .leaf none, .inc _, _, h => by simp [fits] at h
    | .leaf none, .struct _ _ _, _, h => by simp [fits] at h
    | .leaf none, .union _ _ _, _, h => by simp [fits] at h
    | .leaf (some _), .array _ _, _, h => by simp [fits] at h
    | .leaf (some _), .inc _, _, h => by simp [fits] at h
    | .leaf (some _), .struct _ _ _, _, h => by simp [fits] at h
    | .leaf (some _), .union _ _ _, _, h => by simp [fits] at h
  /-- element `i` is addressed at `base + i * size`; `off` is that address for the first remaining element -/
  theorem createLvarArr_leaves : ∀ (cs : List Init) (elem : Ty) (path : List Desg) (i off : Nat), fitsArr cs elem = true →
      off = pathAddr path + i * elem.size.toNat →
      ∃ as, createLvarArr cs elem path i = .ok as ∧ SameAs as (leavesArr cs elem off)
    | [], _, _, _, _, _, _ => ⟨[], by simp [createLvarArr], by simp [leavesArr, SameAs]⟩
    | c :: cs, elem, path, i, off, h, ho => by
      simp only [fitsArr, Bool.and_eq_true] at h
      obtain ⟨a1, e1, s1⟩ := createLvar_leaves c elem (path ++ [.idx i elem.size.toNat]) h.1
      obtain ⟨a2, e2, s2⟩ := createLvarArr_leaves cs elem path (i+1) (off + elem.size.toNat) h.2
        (by rw [ho, Nat.add_mul]; omega)
      refine ⟨a1 ++ a2, ?_, ?_⟩
      · simp only [createLvarArr, e1, e2]; rfl
      · simp only [leavesArr]
        rw [pathAddr_snoc] at s1
        simp only [Desg.disp] at s1
        rw [← ho] at s1
        exact s1.append s2
  theorem createLvarMs_leaves : ∀ (cs : List Init) (ms : Members) (path : List Desg), fitsMs cs ms = true →
      ∃ as, createLvarMs cs ms path = .ok as ∧ SameAs as (leavesMs cs ms (pathAddr path))
    | [], [], _, _ => ⟨[], by simp [createLvarMs], by simp [leavesMs, SameAs]⟩
    | [], _ :: _, _, h => by simp [fitsMs] at h
    | _ :: _, [], _, h => by simp [fitsMs] at h
    | c :: cs, (mi, t) :: ms, path, h => by
      simp only [fitsMs, Bool.and_eq_true] at h
      obtain ⟨a2, e2, s2⟩ := createLvarMs_leaves cs ms path h.2
      have hc : ∃ a1, createLvarInit c t (path ++ [.mem mi.offset]) mi.bf = .ok a1 ∧
          SameAs a1 (match mi.bf with
            | some (bo, bw) => bfLeaf c t (pathAddr path + mi.offset) bo bw
            | none => leaves c t (pathAddr path + mi.offset)) := by
        cases hbf : mi.bf with
        | none =>
          simp only [hbf] at h
          obtain ⟨a1, e1, s1⟩ := createLvar_leaves c t (path ++ [.mem mi.offset]) h.1
          rw [pathAddr_snoc] at s1
          exact ⟨a1, e1, s1⟩
        | some p =>
          obtain ⟨bo, bw⟩ := p
          simp only [hbf] at h
          match c, t, h.1 with
          | .leaf none, .scalar _ _, _ => exact ⟨[], by simp [createLvarInit], by simp [SameAs, bfLeaf]⟩
          | .leaf (some e), .scalar sz kind, _ =>
            exact ⟨[{ path := path ++ [.mem mi.offset], kind := .bitfield sz kind bo bw, e := e }], by simp [createLvarInit],
              by simp [SameAs, bfLeaf, Assign.key, Leaf.key, Assign.addr_eq, pathAddr_snoc, Desg.disp, Leaf.off, Leaf.kind, Leaf.e]⟩
      obtain ⟨a1, e1, s1⟩ := hc
      refine ⟨a1 ++ a2, ?_, ?_⟩
      · simp only [createLvarMs, e1, e2]; rfl
      · simp only [leavesMs]
        exact s1.append s2
  theorem createLvarNth_leaves : ∀ (cs : List Init) (ms : Members) (k : Nat) (path : List Desg), fitsNth cs ms k = true →
      ∃ as, createLvarNth cs ms k path = .ok as ∧ SameAs as (leavesNth cs ms k (pathAddr path))
    | c :: _, (mi, t) :: _, 0, path, h => by
      simp only [fitsNth, Bool.and_eq_true] at h
      have hbf : mi.bf = none := by simpa using h.1.1
      have ho : mi.offset = 0 := by simpa using h.1.2
      obtain ⟨a1, e1, s1⟩ := createLvar_leaves c t (path ++ [.mem mi.offset]) h.2
      rw [pathAddr_snoc] at s1
      simp only [Desg.disp, ho, Nat.add_zero] at s1
      exact ⟨a1, by simp only [createLvarNth, hbf]; exact e1, by simpa [leavesNth] using s1⟩
    | _ :: cs, _ :: ms, k+1, path, h => by
      simp only [fitsNth] at h
      simp only [createLvarNth, leavesNth]
      exact createLvarNth_leaves cs ms k path h
    | [], _, _, _, h => by simp [fitsNth] at h
    | _ :: _, [], _, _, h => by simp [fitsNth] at h
end

end ChibiVerif.Init
