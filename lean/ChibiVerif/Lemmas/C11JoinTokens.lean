/-
`join_adjacent_string_literals` on a whole token list (Model/StrJoin.lean `joinTokens`: the translated first pass over every
maximal run of adjacent string literals, then the translated second pass over every run — the structure of the C function)
returns exactly what the run-by-run composition `joinTokensPerRun` returns (both passes on one run at a time), so that the
per-run theorems (`C11_translated_join`, `C11_strings_join_translated`, `C11_join_bytes`) speak about every run of a token list.
Reason: the first pass keeps the number of tokens of a run and every token a string literal, so the second outer loop finds
the same runs.
-/
import ChibiVerif.Model.StrJoin

set_option linter.unusedSimpArgs false
set_option linter.unusedVariables false

namespace ChibiVerif.Lemmas.JoinTokens
open ChibiVerif.Gen.Literals
open ChibiVerif.Gen.StrJoin
open ChibiVerif.StrJoin

abbrev isS (t : Tok) : Bool := t.isStr

-- ------------------------------------------------------------------ lists

theorem takeWhile_append_all (p : Tok → Bool) : ∀ (l₁ l₂ : List Tok), (∀ a ∈ l₁, p a = true) →
    (l₁ ++ l₂).takeWhile p = l₁ ++ l₂.takeWhile p
  | [], l₂, _ => rfl
  | a :: l₁, l₂, h => by
    rw [List.cons_append, List.takeWhile_cons, if_pos (h a (by simp)), takeWhile_append_all p l₁ l₂ (fun x hx => h x (by simp [hx]))]
    rfl

theorem dropWhile_append_all (p : Tok → Bool) : ∀ (l₁ l₂ : List Tok), (∀ a ∈ l₁, p a = true) →
    (l₁ ++ l₂).dropWhile p = l₂.dropWhile p
  | [], l₂, _ => rfl
  | a :: l₁, l₂, h => by
    rw [List.cons_append, List.dropWhile_cons, if_pos (h a (by simp)), dropWhile_append_all p l₁ l₂ (fun x hx => h x (by simp [hx]))]

theorem noStrHead_dropWhile : ∀ l : List Tok, NoStrHead (l.dropWhile (fun t => t.isStr))
  | [] => by simp [NoStrHead]
  | a :: l => by
    rw [List.dropWhile_cons]
    by_cases h : a.isStr = true
    · rw [if_pos h]; exact noStrHead_dropWhile l
    · rw [if_neg h]; simp [NoStrHead]; simpa using h

theorem takeWhile_noStrHead (l : List Tok) (h : NoStrHead l) : l.takeWhile (fun t => t.isStr) = [] := by
  cases l with
  | nil => rfl
  | cons a l => have := h a (by simp); simp [List.takeWhile_cons, this]

theorem dropWhile_noStrHead (l : List Tok) (h : NoStrHead l) : l.dropWhile (fun t => t.isStr) = l := by
  cases l with
  | nil => rfl
  | cons a l => have := h a (by simp); simp [List.dropWhile_cons, this]

theorem all_takeWhile : ∀ (l : List Tok), ∀ x ∈ l.takeWhile (fun t => t.isStr), x.isStr = true
  | [], x, hx => by simp at hx
  | a :: l, x, hx => by
    rw [List.takeWhile_cons] at hx
    by_cases h : a.isStr = true
    · rw [if_pos h] at hx
      rcases List.mem_cons.mp hx with rfl | hx
      · exact h
      · exact all_takeWhile l x hx
    · rw [if_neg h] at hx; simp at hx

theorem length_dropWhile_le (p : Tok → Bool) : ∀ l : List Tok, (l.dropWhile p).length ≤ l.length
  | [] => by simp
  | a :: l => by
    rw [List.dropWhile_cons]
    split
    · have := length_dropWhile_le p l; simp; omega
    · simp

-- ------------------------------------------------------------------ overRuns

variable (f : Tok → List Tok → Except JoinErr (List Tok))

theorem overRuns_nil (k : Nat) : overRuns f (k + 1) [] = .ok [] := by simp [overRuns]

/-- more fuel than tokens: the amount does not matter -/
theorem overRuns_fuel : ∀ (n : Nat) (l : List Tok) (k1 k2 : Nat), l.length ≤ n → l.length < k1 → l.length < k2 →
    overRuns f k1 l = overRuns f k2 l := by
  intro n
  induction n with
  | zero =>
    intro l k1 k2 hl h1 h2
    have : l = [] := List.length_eq_zero_iff.mp (by omega)
    subst this
    obtain ⟨a, rfl⟩ : ∃ a, k1 = a + 1 := ⟨k1 - 1, by simp at h1; omega⟩
    obtain ⟨b, rfl⟩ : ∃ b, k2 = b + 1 := ⟨k2 - 1, by simp at h2; omega⟩
    rw [overRuns_nil, overRuns_nil]
  | succ n ih =>
    intro l k1 k2 hl h1 h2
    obtain ⟨a, rfl⟩ : ∃ a, k1 = a + 1 := ⟨k1 - 1, by omega⟩
    obtain ⟨b, rfl⟩ : ∃ b, k2 = b + 1 := ⟨k2 - 1, by omega⟩
    cases l with
    | nil => rw [overRuns_nil, overRuns_nil]
    | cons t ts =>
      simp only [List.length_cons] at hl h1 h2
      have hd : (ts.dropWhile (fun x => x.isStr)).length ≤ ts.length := length_dropWhile_le _ _
      simp only [overRuns]
      rw [ih (ts.dropWhile (fun x => x.isStr)) a b (by omega) (by omega) (by omega), ih ts a b (by omega) (by omega) (by omega)]

/-- a token that does not begin a run of two string literals is kept -/
theorem overRuns_keep (t : Tok) (ts : List Tok) (k : Nat) (h : ¬ (t.isStr = true ∧ (ts.head?.map (·.isStr)) = some true)) :
    overRuns f (k + 1) (t :: ts) =
      match overRuns f k ts with
      | .error e => .error e
      | .ok r' => .ok (t :: r') := by
  simp only [overRuns, if_neg h]
  cases overRuns f k ts <;> rfl

/-- a run of at least two string literals followed by something that is not a string literal -/
theorem overRuns_run (a b : Tok) (r rest : List Tok) (k : Nat) (ha : a.isStr = true) (hb : b.isStr = true)
    (hr : ∀ x ∈ r, x.isStr = true) (hrest : NoStrHead rest) :
    overRuns f (k + 1) (a :: b :: r ++ rest) =
      match f a (b :: r) with
      | .error e => .error e
      | .ok x =>
        match overRuns f k rest with
        | .error e => .error e
        | .ok y => .ok (x ++ y) := by
  have hall : ∀ x ∈ b :: r, (fun t : Tok => t.isStr) x = true := by
    intro x hx
    rcases List.mem_cons.mp hx with rfl | hx
    · exact hb
    · exact hr x hx
  have hc : a.isStr = true ∧ (((b :: r) ++ rest).head?.map (·.isStr)) = some true := ⟨ha, by simp [hb]⟩
  show overRuns f (k + 1) (a :: ((b :: r) ++ rest)) = _
  simp only [overRuns, if_pos hc]
  rw [takeWhile_append_all _ _ _ hall, dropWhile_append_all _ _ _ hall, takeWhile_noStrHead rest hrest, dropWhile_noStrHead rest hrest,
    List.append_nil]
  cases f a (b :: r) with
  | error e => rfl
  | ok x => cases overRuns f k rest <;> rfl

/-- the first token of the result is the first token of the list when that is not a string literal -/
theorem overRuns_noStrHead (l : List Tok) (k : Nat) (hk : l.length < k) (h : NoStrHead l) (l1 : List Tok)
    (h1 : overRuns f k l = .ok l1) : NoStrHead l1 := by
  obtain ⟨a, rfl⟩ : ∃ a, k = a + 1 := ⟨k - 1, by omega⟩
  cases l with
  | nil => rw [overRuns_nil] at h1; cases h1; simp [NoStrHead]
  | cons t ts =>
    have ht : t.isStr = false := h t (by simp)
    rw [overRuns_keep f t ts a (by simp [ht])] at h1
    cases hh : overRuns f a ts with
    | error e => rw [hh] at h1; cases h1
    | ok r' => rw [hh] at h1; cases h1; simp [NoStrHead, ht]

-- ------------------------------------------------------------------ the first pass keeps the shape of a run

theorem tokenizeStringLiteral_isStr (t : Tok) (basety : Ty) (t' : Tok) (h : tokenizeStringLiteral t basety = .ok t') :
    t'.isStr = true := by
  unfold tokenizeStringLiteral at h
  split at h
  · cases hr : ChibiVerif.Gen.LitReaders.readUtf16StringLiteral t.loc 0 with
    | error e => rw [hr] at h; cases h
    | ok v => obtain ⟨u, n⟩ := v; rw [hr] at h; cases h; rfl
  · cases hr : ChibiVerif.Gen.LitReaders.readUtf32StringLiteral t.loc 0 with
    | error e => rw [hr] at h; cases h
    | ok v => obtain ⟨u, n⟩ := v; rw [hr] at h; cases h; rfl

theorem loop2_shape (b : Ty) : ∀ (l l' : List Tok), joinPass1_loop2 b l = .ok l' →
    l'.length = l.length ∧ ((∀ x ∈ l, x.isStr = true) → ∀ x ∈ l', x.isStr = true)
  | [], l', h => by
    simp only [joinPass1_loop2] at h
    cases h
    simp
  | t :: ts, l', h => by
    simp only [joinPass1_loop2] at h
    split at h
    · cases ht : tokenizeStringLiteral t b with
      | error e => rw [ht] at h; cases h
      | ok t' =>
        rw [ht] at h
        simp only at h
        cases hr : joinPass1_loop2 b ts with
        | error e => rw [hr] at h; cases h
        | ok ts' =>
          rw [hr] at h
          cases h
          obtain ⟨h1, h2⟩ := loop2_shape b ts ts' hr
          refine ⟨by simp [h1], fun hall x hx => ?_⟩
          rcases List.mem_cons.mp hx with rfl | hx
          · exact tokenizeStringLiteral_isStr t b _ ht
          · exact h2 (fun y hy => hall y (by simp [hy])) x hx
    · cases hr : joinPass1_loop2 b ts with
      | error e => rw [hr] at h; cases h
      | ok ts' =>
        rw [hr] at h
        cases h
        obtain ⟨h1, h2⟩ := loop2_shape b ts ts' hr
        refine ⟨by simp [h1], fun hall x hx => ?_⟩
        rcases List.mem_cons.mp hx with rfl | hx
        · exact hall _ (by simp)
        · exact h2 (fun y hy => hall y (by simp [hy])) x hx

/-- the first pass returns as many tokens as the run has, all of them string literals -/
theorem pass1_shape (t : Tok) (r run' : List Tok) (h : joinPass1 t r = .ok run') :
    run'.length = r.length + 1 ∧ (t.isStr = true → (∀ x ∈ r, x.isStr = true) → ∀ x ∈ run', x.isStr = true) := by
  unfold joinPass1 at h
  cases hk : ChibiVerif.Gen.StrJoin.getStringKind t with
  | error e => rw [hk] at h; cases h
  | ok kind =>
    rw [hk] at h
    simp only at h
    cases hl : joinPass1_loop1 r kind t.base with
    | error e => rw [hl] at h; cases h
    | ok v =>
      obtain ⟨kind', basety⟩ := v
      rw [hl] at h
      simp only at h
      split at h
      · cases h2 : joinPass1_loop2 basety (t :: r) with
        | error e => rw [h2] at h; cases h
        | ok run =>
          rw [h2] at h
          cases h
          obtain ⟨h3, h4⟩ := loop2_shape basety (t :: r) run' h2
          refine ⟨by simpa using h3, fun ht hr => h4 (fun x hx => ?_)⟩
          rcases List.mem_cons.mp hx with rfl | hx
          · exact ht
          · exact hr x hx
      · cases h
        refine ⟨by simp, fun ht hr x hx => ?_⟩
        rcases List.mem_cons.mp hx with rfl | hx
        · exact ht
        · exact hr x hx

-- ------------------------------------------------------------------ two passes over all runs = both passes run by run

/-- the list a function returned, if it returned -/
def okOf : Except JoinErr (List Tok) → Option (List Tok)
  | .ok r => some r
  | .error _ => none

/-- both results are failures, or both are the same list -/
def SameOk (x y : Except JoinErr (List Tok)) : Prop := okOf x = okOf y

theorem sameOk_cons (t : Tok) (x y : Except JoinErr (List Tok)) : SameOk x y →
    SameOk (match x with | .error e => .error e | .ok r => .ok (t :: r)) (match y with | .error e => .error e | .ok r => .ok (t :: r)) := by
  unfold SameOk
  cases x <;> cases y <;> simp [okOf]

theorem sameOk_append (p : List Tok) (x y : Except JoinErr (List Tok)) : SameOk x y →
    SameOk (match x with | .error e => .error e | .ok r => .ok (p ++ r)) (match y with | .error e => .error e | .ok r => .ok (p ++ r)) := by
  unfold SameOk
  cases x <;> cases y <;> simp [okOf]

/-- the second pass over the output of the first pass, against the run-by-run composition (any sufficient fuel) -/
theorem two_passes : ∀ (n : Nat) (l : List Tok), l.length ≤ n → ∀ k1 k3, l.length < k1 → l.length < k3 →
    SameOk (match overRuns joinPass1 k1 l with
            | .error e => .error e
            | .ok l1 => overRuns pass2Step (l1.length + 1) l1)
           (overRuns runStep k3 l) := by
  intro n
  induction n with
  | zero =>
    intro l hl k1 k3 h1 h3
    have : l = [] := List.length_eq_zero_iff.mp (by omega)
    subst this
    obtain ⟨a, rfl⟩ : ∃ a, k1 = a + 1 := ⟨k1 - 1, by simp at h1; omega⟩
    obtain ⟨c, rfl⟩ : ∃ c, k3 = c + 1 := ⟨k3 - 1, by simp at h3; omega⟩
    simp [overRuns_nil, SameOk, okOf]
  | succ n ih =>
    intro l hl k1 k3 h1 h3
    obtain ⟨a, rfl⟩ : ∃ a, k1 = a + 1 := ⟨k1 - 1, by omega⟩
    obtain ⟨c, rfl⟩ : ∃ c, k3 = c + 1 := ⟨k3 - 1, by omega⟩
    cases l with
    | nil => simp [overRuns_nil, SameOk, okOf]
    | cons t ts =>
      simp only [List.length_cons] at hl h1 h3
      by_cases hc : t.isStr = true ∧ (ts.head?.map (·.isStr)) = some true
      · -- a run starts here
        obtain ⟨ht, hts⟩ := hc
        obtain ⟨u, ts', rfl⟩ : ∃ u ts', ts = u :: ts' := by
          cases ts with
          | nil => simp at hts
          | cons u ts' => exact ⟨u, ts', rfl⟩
        have hu : u.isStr = true := by simpa using hts
        -- split the list into the run and what follows
        have hsplit : u :: ts' = (u :: ts').takeWhile (fun x => x.isStr) ++ (u :: ts').dropWhile (fun x => x.isStr) :=
          (List.takeWhile_append_dropWhile).symm
        have htw : (u :: ts').takeWhile (fun x => x.isStr) = u :: ts'.takeWhile (fun x => x.isStr) := by
          rw [List.takeWhile_cons, if_pos hu]
        have hdw : (u :: ts').dropWhile (fun x => x.isStr) = ts'.dropWhile (fun x => x.isStr) := by
          rw [List.dropWhile_cons, if_pos hu]
        generalize hrun : ts'.takeWhile (fun x => x.isStr) = run at htw
        generalize hrest : ts'.dropWhile (fun x => x.isStr) = rest at hdw
        have hrunall : ∀ x ∈ run, x.isStr = true := by rw [← hrun]; exact all_takeWhile ts'
        have hrestns : NoStrHead rest := by rw [← hrest]; exact noStrHead_dropWhile ts'
        have hlist : t :: u :: ts' = t :: u :: run ++ rest := by
          rw [htw, hdw] at hsplit
          rw [hsplit]; rfl
        have hlen : rest.length ≤ ts'.length := by rw [← hrest]; exact length_dropWhile_le _ _
        have hlen2 : ts'.length = run.length + rest.length := by
          have := congrArg List.length hsplit
          rw [htw, hdw] at this
          simp at this
          omega
        rw [hlist, overRuns_run joinPass1 t u run rest a ht hu hrunall hrestns,
          overRuns_run runStep t u run rest c ht hu hrunall hrestns]
        have ihrest := ih rest (by simp at hl; omega) a c (by simp at h1; omega) (by simp at h3; omega)
        cases hp1 : joinPass1 t (u :: run) with
        | error e =>
          simp [runStep, joinRun, hp1, SameOk, Except.map, okOf]
        | ok r1 =>
          obtain ⟨hl1, hs1⟩ := pass1_shape t (u :: run) r1 hp1
          have hall1 := hs1 ht (by
            intro x hx
            rcases List.mem_cons.mp hx with rfl | hx
            · exact hu
            · exact hrunall x hx)
          obtain ⟨a1, b1, r1', rfl⟩ : ∃ a1 b1 r1', r1 = a1 :: b1 :: r1' := by
            match r1, hl1 with
            | a1 :: b1 :: r1', _ => exact ⟨a1, b1, r1', rfl⟩
            | [_], h => simp at h
            | [], h => simp at h
          have hrs : runStep t (u :: run) = pass2Step a1 (b1 :: r1') := by
            simp [runStep, pass2Step, joinRun, hp1]
          rw [hrs]
          simp only []
          cases hA : overRuns joinPass1 a rest with
          | error e =>
            rw [hA] at ihrest
            simp only [] at ihrest ⊢
            -- the run-by-run composition fails on the rest as well
            have : okOf (overRuns runStep c rest) = none := by
              have := ihrest; unfold SameOk at this; simpa [okOf] using this.symm
            cases hC : overRuns runStep c rest with
            | error e' => cases pass2Step a1 (b1 :: r1') <;> simp [SameOk, okOf]
            | ok y => rw [hC] at this; simp [okOf] at this
          | ok rest1 =>
            rw [hA] at ihrest
            simp only [] at ihrest ⊢
            have hns1 : NoStrHead rest1 := overRuns_noStrHead joinPass1 rest a (by simp at h1; omega) hrestns rest1 hA
            have hfuel : overRuns pass2Step ((a1 :: b1 :: r1' ++ rest1).length + 1) (a1 :: b1 :: r1' ++ rest1) =
                overRuns pass2Step ((a1 :: b1 :: r1' ++ rest1).length + 1) (a1 :: b1 :: r1' ++ rest1) := rfl
            obtain ⟨m, hm⟩ : ∃ m, (a1 :: b1 :: r1' ++ rest1).length + 1 = m + 1 ∧ rest1.length < m := ⟨_, rfl, by simp; omega⟩
            rw [hm.1, overRuns_run pass2Step a1 b1 r1' rest1 m (hall1 a1 (by simp)) (hall1 b1 (by simp))
              (fun x hx => hall1 x (by simp [hx])) hns1]
            cases pass2Step a1 (b1 :: r1') with
            | error e => simp [SameOk, okOf]
            | ok x =>
              simp only []
              rw [overRuns_fuel pass2Step rest1.length rest1 m (rest1.length + 1) (Nat.le_refl _) hm.2 (Nat.lt_succ_self _)]
              exact sameOk_append x _ _ ihrest
      · -- the token is kept
        rw [overRuns_keep joinPass1 t ts a hc, overRuns_keep runStep t ts c hc]
        have ihts := ih ts (by omega) a c (by omega) (by omega)
        cases hA : overRuns joinPass1 a ts with
        | error e =>
          rw [hA] at ihts
          simp only [] at ihts ⊢
          exact sameOk_cons t (.error e) _ ihts
        | ok ts1 =>
          rw [hA] at ihts
          simp only [] at ihts ⊢
          -- the second outer loop keeps the token too: what follows it starts as before
          have hc1 : ¬ (t.isStr = true ∧ (ts1.head?.map (·.isStr)) = some true) := by
            rintro ⟨ht, h1s⟩
            apply hc
            refine ⟨ht, ?_⟩
            -- ts does not start with a string literal, so neither does ts1
            exfalso
            have hns : NoStrHead ts := by
              cases ts with
              | nil => intro x hx; simp at hx
              | cons y ys =>
                intro x hx
                have hxy : y = x := by simpa using hx
                subst hxy
                by_cases hy : y.isStr = true
                · exact absurd ⟨ht, by simp [hy]⟩ hc
                · simpa using hy
            have := overRuns_noStrHead joinPass1 ts a (by omega) hns ts1 hA
            cases ts1 with
            | nil => simp at h1s
            | cons y ys => have := this y (by simp); simp [this] at h1s
          rw [show (t :: ts1).length + 1 = (ts1.length + 1) + 1 by simp, overRuns_keep pass2Step t ts1 (ts1.length + 1) hc1]
          exact sameOk_cons t _ _ ihts

/-- **two passes over all runs = both passes run by run** -/
theorem join_tokens (l : List Tok) : SameOk (joinTokens l) (joinTokensPerRun l) :=
  two_passes l.length l (Nat.le_refl _) (l.length + 1) (l.length + 1) (Nat.lt_succ_self _) (Nat.lt_succ_self _)

theorem join_tokens_iff (l out : List Tok) : joinTokens l = .ok out ↔ joinTokensPerRun l = .ok out := by
  have := join_tokens l
  unfold SameOk at this
  cases h1 : joinTokens l <;> cases h2 : joinTokensPerRun l <;> rw [h1, h2] at this <;> simp [okOf] at this ⊢
  exact ⟨fun h => by rw [← this, h], fun h => by rw [this, h]⟩

/-- run by run, unfolded: a token that does not begin a run of two string literals is kept -/
theorem perRun_keep (t : Tok) (ts : List Tok) (h : ¬ (t.isStr = true ∧ (ts.head?.map (·.isStr)) = some true)) :
    joinTokensPerRun (t :: ts) =
      match joinTokensPerRun ts with
      | .error e => .error e
      | .ok r' => .ok (t :: r') := by
  unfold joinTokensPerRun
  rw [show (t :: ts).length + 1 = (ts.length + 1) + 1 by simp, overRuns_keep runStep t ts (ts.length + 1) h]

/-- run by run, unfolded: a maximal run of at least two string literals is replaced by the token `joinRun` makes of it -/
theorem perRun_run (a b : Tok) (r rest : List Tok) (ha : a.isStr = true) (hb : b.isStr = true)
    (hr : ∀ x ∈ r, x.isStr = true) (hrest : NoStrHead rest) :
    joinTokensPerRun (a :: b :: r ++ rest) =
      match joinRun a (b :: r) with
      | .error e => .error e
      | .ok x =>
        match joinTokensPerRun rest with
        | .error e => .error e
        | .ok y => .ok (x :: y) := by
  unfold joinTokensPerRun
  obtain ⟨m, hm⟩ : ∃ m, (a :: b :: r ++ rest).length + 1 = m + 1 ∧ rest.length < m := ⟨_, rfl, by simp; omega⟩
  rw [hm.1, overRuns_run runStep a b r rest m ha hb hr hrest,
    overRuns_fuel runStep rest.length rest m (rest.length + 1) (Nat.le_refl _) hm.2 (Nat.lt_succ_self _)]
  unfold runStep
  cases joinRun a (b :: r) with
  | error e => rfl
  | ok x => simp only [Except.map]; cases overRuns _ (rest.length + 1) rest <;> rfl

end ChibiVerif.Lemmas.JoinTokens
