/-
`join_adjacent_string_literals` on a whole token list (Model/StrJoin.lean `joinTokens`: the translated first pass over every
maximal run of adjacent string literals, then the translated second pass over every run — the structure of the C function)
returns exactly what the run-by-run composition `joinTokensPerRun` returns (both passes on one run at a time), so that the
per-run theorems (`C11_translated_join`, `C11_strings_join_translated`, `C11_join_bytes`) speak about every run of a token list.
Reason: the first pass keeps the number of tokens of a run and every token a string literal, so the second outer loop finds
the same runs.
-/
import ChibiVerif.Model.StrJoin

set_option linter.unusedSimpArgs false
set_option linter.unusedVariables false

namespace ChibiVerif.Lemmas.JoinTokens
open ChibiVerif.Gen.Literals
open ChibiVerif.Gen.StrJoin
open ChibiVerif.StrJoin

abbrev isS (t : Tok) : Bool := t.isStr

-- ------------------------------------------------------------------ lists

theorem takeWhile_append_all (p : Tok → Bool) : ∀ (l₁ l₂ : List Tok), (∀ a ∈ l₁, p a = true) →
    (l₁ ++ l₂).takeWhile p = l₁ ++ l₂.takeWhile p
  | [], l₂, _ => rfl
  | a :: l₁, l₂, h => by
    rw [List.cons_append, List.takeWhile_cons, if_pos (h a (by simp)), takeWhile_append_all p l₁ l₂ (fun x hx => h x (by simp [hx]))]
    rfl

theorem dropWhile_append_all (p : Tok → Bool) : ∀ (l₁ l₂ : List Tok), (∀ a ∈ l₁, p a = true) →
    (l₁ ++ l₂).dropWhile p = l₂.dropWhile p
  | [], l₂, _ => rfl
  | a :: l₁, l₂, h => by
    rw [List.cons_append, List.dropWhile_cons, if_pos (h a (by simp)), dropWhile_append_all p l₁ l₂ (fun x hx => h x (by simp [hx]))]

/-- the list is empty or its first token is not a string literal -/
def NoStrHead (l : List Tok) : Prop := ∀ t ∈ l.head?, t.isStr = false

theorem noStrHead_dropWhile : ∀ l : List Tok, NoStrHead (l.dropWhile (fun t => t.isStr))
  | [] => by simp [NoStrHead]
  | a :: l => by
    rw [List.dropWhile_cons]
    by_cases h : a.isStr = true
    · rw [if_pos h]; exact noStrHead_dropWhile l
    · rw [if_neg h]; simp [NoStrHead]; simpa using h

theorem takeWhile_noStrHead (l : List Tok) (h : NoStrHead l) : l.takeWhile (fun t => t.isStr) = [] := by
  cases l with
  | nil => rfl
  | cons a l => have := h a (by simp); simp [List.takeWhile_cons, this]

theorem dropWhile_noStrHead (l : List Tok) (h : NoStrHead l) : l.dropWhile (fun t => t.isStr) = l := by
  cases l with
  | nil => rfl
  | cons a l => have := h a (by simp); simp [List.dropWhile_cons, this]

theorem all_takeWhile : ∀ (l : List Tok), ∀ x ∈ l.takeWhile (fun t => t.isStr), x.isStr = true
  | [], x, hx => by simp at hx
  | a :: l, x, hx => by
    rw [List.takeWhile_cons] at hx
    by_cases h : a.isStr = true
    · rw [if_pos h] at hx
      rcases List.mem_cons.mp hx with rfl | hx
      · exact h
      · exact all_takeWhile l x hx
    · rw [if_neg h] at hx; simp at hx

theorem length_dropWhile_le (p : Tok → Bool) : ∀ l : List Tok, (l.dropWhile p).length ≤ l.length
  | [] => by simp
  | a :: l => by
    rw [List.dropWhile_cons]
    split
    · have := length_dropWhile_le p l; simp; omega
    · simp

-- ------------------------------------------------------------------ overRuns

variable (f : Tok → List Tok → Except JoinErr (List Tok))

theorem overRuns_nil (k : Nat) : overRuns f (k + 1) [] = .ok [] := by simp [overRuns]

/-- more fuel than tokens: the amount does not matter -/
theorem overRuns_fuel : ∀ (n : Nat) (l : List Tok) (k1 k2 : Nat), l.length ≤ n → l.length < k1 → l.length < k2 →
    overRuns f k1 l = overRuns f k2 l := by
  intro n
  induction n with
  | zero =>
    intro l k1 k2 hl h1 h2
    have : l = [] := List.length_eq_zero_iff.mp (by omega)
    subst this
    obtain ⟨a, rfl⟩ : ∃ a, k1 = a + 1 := ⟨k1 - 1, by simp at h1; omega⟩
    obtain ⟨b, rfl⟩ : ∃ b, k2 = b + 1 := ⟨k2 - 1, by simp at h2; omega⟩
    rw [overRuns_nil, overRuns_nil]
  | succ n ih =>
    intro l k1 k2 hl h1 h2
    obtain ⟨a, rfl⟩ : ∃ a, k1 = a + 1 := ⟨k1 - 1, by omega⟩
    obtain ⟨b, rfl⟩ : ∃ b, k2 = b + 1 := ⟨k2 - 1, by omega⟩
    cases l with
    | nil => rw [overRuns_nil, overRuns_nil]
    | cons t ts =>
      simp only [List.length_cons] at hl h1 h2
      have hd : (ts.dropWhile (fun x => x.isStr)).length ≤ ts.length := length_dropWhile_le _ _
      simp only [overRuns]
      rw [ih (ts.dropWhile (fun x => x.isStr)) a b (by omega) (by omega) (by omega), ih ts a b (by omega) (by omega) (by omega)]

/-- a token that does not begin a run of two string literals is kept -/
theorem overRuns_keep (t : Tok) (ts : List Tok) (k : Nat) (h : ¬ (t.isStr = true ∧ (ts.head?.map (·.isStr)) = some true)) :
    overRuns f (k + 1) (t :: ts) =
      match overRuns f k ts with
      | .error e => .error e
      | .ok r' => .ok (t :: r') := by
  simp only [overRuns, if_neg h]
  cases overRuns f k ts <;> rfl

/-- a run of at least two string literals followed by something that is not a string literal -/
theorem overRuns_run (a b : Tok) (r rest : List Tok) (k : Nat) (ha : a.isStr = true) (hb : b.isStr = true)
    (hr : ∀ x ∈ r, x.isStr = true) (hrest : NoStrHead rest) :
    overRuns f (k + 1) (a :: b :: r ++ rest) =
      match f a (b :: r) with
      | .error e => .error e
      | .ok x =>
        match overRuns f k rest with
        | .error e => .error e
        | .ok y => .ok (x ++ y) := by
  have hall : ∀ x ∈ b :: r, (fun t : Tok => t.isStr) x = true := by
    intro x hx
    rcases List.mem_cons.mp hx with rfl | hx
    · exact hb
    · exact hr x hx
  have hc : a.isStr = true ∧ (((b :: r) ++ rest).head?.map (·.isStr)) = some true := ⟨ha, by simp [hb]⟩
  show overRuns f (k + 1) (a :: ((b :: r) ++ rest)) = _
  simp only [overRuns, if_pos hc]
  rw [takeWhile_append_all _ _ _ hall, dropWhile_append_all _ _ _ hall, takeWhile_noStrHead rest hrest, dropWhile_noStrHead rest hrest,
    List.append_nil]
  cases f a (b :: r) with
  | error e => rfl
  | ok x => cases overRuns f k rest <;> rfl

/-- the first token of the result is the first token of the list when that is not a string literal -/
theorem overRuns_noStrHead (l : List Tok) (k : Nat) (hk : l.length < k) (h : NoStrHead l) (l1 : List Tok)
    (h1 : overRuns f k l = .ok l1) : NoStrHead l1 := by
  obtain ⟨a, rfl⟩ : ∃ a, k = a + 1 := ⟨k - 1, by omega⟩
  cases l with
  | nil => rw [overRuns_nil] at h1; cases h1; simp [NoStrHead]
  | cons t ts =>
    have ht : t.isStr = false := h t (by simp)
    rw [overRuns_keep f t ts a (by simp [ht])] at h1
    cases hh : overRuns f a ts with
    | error e => rw [hh] at h1; cases h1
    | ok r' => rw [hh] at h1; cases h1; simp [NoStrHead, ht]

end ChibiVerif.Lemmas.JoinTokens
