/-
Flag lemmas for C02: the `setcc` / `jcc` combinations chibicc prints after `ucomis*` / `fcomip` / `cmp_zero`, evaluated
with the flag semantics of Model/X86 on the (ZF, PF, CF) triple the compare instruction leaves for each of the four
relation outcomes (`Rel.flags`, Intel SDM).  All lemmas are for every start state.
-/
import ChibiVerif.Lemmas.FpCellLemmas
import ChibiVerif.Model.FpCodegen
import ChibiVerif.Spec.FpC11Spec

set_option linter.unusedSimpArgs false

namespace ChibiVerif.Fp
open ChibiVerif.Asm ChibiVerif.X86 ChibiVerif.Spec.Fpu ChibiVerif.FpCodegen ChibiVerif.Spec.FpC11

/-- instruction list of model lines -/
def instrsOf (ls : List Line) : List Ins := ls.flatMap Line.instrs

def b2bv (b : Bool) : BitVec 64 := if b then 1#64 else 0#64

/-- the C11 answer of the node-level operator when the flags describe `rhs ? lhs` (the order in which both the SSE and the
    x87 arm compare: `ucomis %xmm0, %xmm1` with lhs in %xmm0; `fcomip` with rhs in %st(0)) -/
def _root_.ChibiVerif.FpCodegen.FOp.cmpOp : FOp → CmpOp
  | .eq => .eq | .ne => .ne | .lt => .lt | .le => .le
  | _ => .eq

/-- the low byte written by `setcc`/`and`/`or`/`xor` on `%al`/`%dl` is what is read back -/
theorem low8_write (r : BitVec 64) (b : BitVec 8) :
    (BitVec.ofNat 64 (r.toNat / 256 * 256 + b.toNat)).setWidth 8 = b := by
  apply BitVec.eq_of_toNat_eq
  have := b.isLt
  simp only [BitVec.toNat_setWidth, BitVec.toNat_ofNat]
  omega

macro "flag_cases" s:ident : tactic => `(tactic| (
  refine ⟨_, rfl, ?_⟩
  simp [State.get, State.set, State.setW, State.getW, State.src, State.cond, State.flags, aluExec, FState.setRel,
    Rel.flags, low8_write, b2bv, CmpOp.holds, Rel.swap, FOp.cmpOp]
  try (apply BitVec.eq_of_toNat_eq
       simp only [BitVec.toNat_setWidth, BitVec.toNat_ofNat]
       have := (($s).x.regs Reg.rax).isLt
       omega)))

/-- **SSE path**: after `ucomis*` left the flags of relation `r` (= rhs ? lhs), the `setcc` lines of the operator,
    `and $1, %al` and `movzb %al, %rax` leave the C11 value of `lhs OP rhs` in %rax. -/
theorem sse_tail (F : FpuSpec) (op : FOp) (hop : op.isCmp = true) (r : Rel) (s : FState) :
    ∃ s', Fp.run F (instrsOf (setccLines op ++ [ins2 "and" (.i 1) (.r "%al"), ins2 "movzb" (.r "%al") (.r "%rax")]))
        (s.setRel r) = some s' ∧
      s'.x.get .rax = b2bv (op.cmpOp.holds r.swap) := by
  cases op <;> simp [FOp.isCmp] at hop <;> cases r <;> flag_cases s

/-- **x87 path**: the same after `fcomip; fstp %st(0)` (no `and $1`) -/
theorem x87_tail (F : FpuSpec) (op : FOp) (hop : op.isCmp = true) (r : Rel) (s : FState) :
    ∃ s', Fp.run F (instrsOf (setccLines op ++ [ins2 "movzb" (.r "%al") (.r "%rax")])) (s.setRel r) = some s' ∧
      s'.x.get .rax = b2bv (op.cmpOp.holds r.swap) := by
  cases op <;> simp [FOp.isCmp] at hop <;> cases r <;> flag_cases s


theorem ofNat8_mul256_add (n k : Nat) : BitVec.ofNat 8 (n / 256 * 256 + k) = BitVec.ofNat 8 k := by
  apply BitVec.eq_of_toNat_eq; simp only [BitVec.toNat_ofNat]; omega

theorem ofNat8_mul256 (n : Nat) : BitVec.ofNat 8 (n / 256 * 256) = 0#8 := by
  apply BitVec.eq_of_toNat_eq; simp only [BitVec.toNat_ofNat]; omega

/-! ### truth tests: `cmp_zero` leaves the flags of `e ? 0` (SSE) or `0 ? e` (x87); its tail
    `sete %al; setnp %dl; and %dl, %al; xor $1, %al` turns them into ZF = "ordered and equal" -/

/-- `!e`: `cmp_zero` tail, `sete %al; movzx %al, %rax` -/
theorem truth_not (F : FpuSpec) (r : Rel) (s : FState) :
    ∃ s', Fp.run F (instrsOf (cmpZeroTail ++ [ins1 "sete" (.r "%al"), ins2 "movzx" (.r "%al") (.r "%rax")]))
        (s.setRel r) = some s' ∧
      s'.x.get .rax = b2bv (!truth r) ∧ s'.st = s.st ∧ s'.cw = s.cw ∧ s'.x.get .rsp = s.x.get .rsp := by
  cases r <;>
  ( refine ⟨_, rfl, ?_, rfl, rfl, rfl⟩
    simp [State.get, State.set, State.setW, State.getW, State.src, State.cond, State.flags, aluExec, FState.setRel,
      Rel.flags, low8_write, b2bv, truth]
    try (repeat' split) <;> bv_omega)

/-- `(_Bool)e`: `cmp_zero` tail, `setne %al; movzx %al, %eax` -/
theorem truth_bool (F : FpuSpec) (r : Rel) (s : FState) :
    ∃ s', Fp.run F (instrsOf (cmpZeroTail ++ [ins1 "setne" (.r "%al"), ins2 "movzx" (.r "%al") (.r "%eax")]))
        (s.setRel r) = some s' ∧
      s'.x.get .rax = b2bv (truth r) ∧ s'.st = s.st ∧ s'.cw = s.cw ∧ s'.x.get .rsp = s.x.get .rsp := by
  cases r <;>
  ( refine ⟨_, rfl, ?_, rfl, rfl, rfl⟩
    simp [State.get, State.set, State.setW, State.getW, State.src, State.cond, State.flags, aluExec, FState.setRel,
      Rel.flags, low8_write, b2bv, truth]
    try (repeat' split) <;> bv_omega)

/-- the branches: after the `cmp_zero` tail ZF is set exactly when `e` is false, the flags are defined, so
    `je` is taken iff `e` is false and `jne` iff `e` is true (a NaN is true) -/
theorem truth_jcc (F : FpuSpec) (r : Rel) (s : FState) (l : String) :
    ∃ s', Fp.run F (instrsOf cmpZeroTail) (s.setRel r) = some s' ∧
      jumpOf ⟨"je", [.s l]⟩ s' = some (true, !truth r, l) ∧
      jumpOf ⟨"jne", [.s l]⟩ s' = some (true, truth r, l) ∧
      s'.x.flagsValid = true ∧ s'.xmm0 = s.xmm0 ∧ s'.xmm1 = s.xmm1 ∧ s'.st = s.st ∧ s'.cw = s.cw ∧
      s'.x.get .rsp = s.x.get .rsp := by
  cases r <;>
  ( refine ⟨_, rfl, ?_⟩
    simp [jumpOf, State.get, State.set, State.setW, State.getW, State.src, State.cond, State.flags, aluExec, FState.setRel,
      Rel.flags, low8_write, truth, ofNat8_mul256_add, ofNat8_mul256])

end ChibiVerif.Fp
