/-
Helper lemmas for C15_symbols_partial: which data objects `parse` creates (`allNews`), by membership:
every one of them comes from a file-scope object declaration, a block-scope `extern`, a static local or a
string literal of the unit, and each of those declarations has its object.
-/
import ChibiVerif.Lemmas.LinkageExact

namespace ChibiVerif.Linkage
open ChibiVerif.Spec.Linkage

variable [Rules]

/-- the visible declarations after the file-scope declarations `ds` -/
def envAfter (env : SEnv) (ds : List Decl) : SEnv := ds.foldl envDecl env

theorem envAfter_snoc (env : SEnv) (pre : List Decl) (d : Decl) : envAfter env (pre ++ [d]) = envDecl (envAfter env pre) d := by
  simp [envAfter, List.foldl_append]

/-- where a data object of the unit comes from.  For a file-scope object declaration the value `global_variable` stores in
    `is_static` is given by the declarations in front of it (`varStatic` of the environment they leave). -/
inductive NewsKind (ds : List Decl) : Obj → Prop where
  | var {x : Name} {s e t : Bool} {ty : ObjTy} {init : Option (List InitItem)} {k : Nat} (pre post : List Decl) :
      ds = pre ++ Decl.obj x s e t ty init :: post →
      NewsKind ds (varObj k x (varStatic (envAfter env0 pre) x s e) e t ty init)
  | ext {f : Name} {n : Nat} {s e i : Bool} {b : List BodyItem} {x : Name} {tls : Bool} {ty : ObjTy} (stc : Bool) :
      Decl.func f n s e i (some b) ∈ ds → BodyItem.externObj x tls ty ∈ b → NewsKind ds (externO x tls ty stc)
  | sl {f : Name} {n : Nat} {s e i : Bool} {b : List BodyItem} {tls : Bool} {ty : ObjTy} {init : Option (List InitItem)} {k : Nat} :
      Decl.func f n s e i (some b) ∈ ds → BodyItem.staticLocal tls ty init ∈ b → NewsKind ds (slObj f k tls ty init)
  | str {cur : Option Name} {k n : Nat} : NewsKind ds (strObj cur k n)

omit [Rules] in
theorem mem_of_split {ds pre post : List Decl} {d : Decl} (h : ds = pre ++ d :: post) : d ∈ ds := by
  rw [h]; exact List.mem_append_right _ List.mem_cons_self

theorem initNews_str {cur : Option Name} {items : List InitItem} {k : Nat} {o : Obj} (h : o ∈ initNews cur k items) :
    ∃ j n, o = strObj cur j n := by
  obtain ⟨_, j, n, _, rfl⟩ := initNews_spec items k o h
  exact ⟨j, n, rfl⟩

/-- the objects one body pushes -/
theorem bodyNews_kind (f : Name) : ∀ (b : List BodyItem) (env : SEnv) (k : Nat) (o : Obj), o ∈ bodyNews f env k b →
    (∃ cur j n, o = strObj cur j n) ∨ (∃ x tls ty stc, BodyItem.externObj x tls ty ∈ b ∧ o = externO x tls ty stc) ∨
    (∃ tls ty init j, BodyItem.staticLocal tls ty init ∈ b ∧ o = slObj f j tls ty init)
  | [], _, _, _, h => by simp [bodyNews] at h
  | i :: rest, env, k, o, h => by
    simp only [bodyNews, List.mem_append] at h
    rcases h with h | h
    · rcases bodyNews_kind f rest _ _ o h with h | ⟨x, tls, ty, stc, hm, ho⟩ | ⟨tls, ty, init, j, hm, ho⟩
      · exact Or.inl h
      · exact Or.inr (Or.inl ⟨x, tls, ty, stc, List.mem_cons_of_mem _ hm, ho⟩)
      · exact Or.inr (Or.inr ⟨tls, ty, init, j, List.mem_cons_of_mem _ hm, ho⟩)
    · cases i with
      | ref r => simp [bodyItemNews] at h
      | staticLocal tls ty init =>
        cases init with
        | none =>
          simp only [bodyItemNews, List.mem_singleton] at h
          exact Or.inr (Or.inr ⟨tls, ty, none, k, List.mem_cons_self, h⟩)
        | some items =>
          simp only [bodyItemNews, List.mem_append, List.mem_singleton] at h
          rcases h with h | h
          · obtain ⟨j, n, hh⟩ := initNews_str h
            exact Or.inl ⟨_, j, n, hh⟩
          · exact Or.inr (Or.inr ⟨tls, ty, some items, k, List.mem_cons_self, h⟩)
      | str n =>
        simp only [bodyItemNews, List.mem_singleton] at h
        exact Or.inl ⟨_, k, n, h⟩
      | externObj x tls ty =>
        simp only [bodyItemNews, List.mem_singleton] at h
        exact Or.inr (Or.inl ⟨x, tls, ty, _, List.mem_cons_self, h⟩)

theorem declNews_kind (pre post : List Decl) (d : Decl) (k : Nat) (o : Obj) (h : o ∈ declNews k (envAfter env0 pre) d) :
    NewsKind (pre ++ d :: post) o := by
  have hmem : d ∈ pre ++ d :: post := List.mem_append_right _ List.mem_cons_self
  cases d with
  | func f n s e i body =>
    cases body with
    | none => simp [declNews] at h
    | some b =>
      simp only [declNews, List.mem_append, List.mem_cons, List.not_mem_nil, or_false] at h
      rcases h with h | h | h
      · rcases bodyNews_kind f b _ _ o h with ⟨cur, j, m, rfl⟩ | ⟨x, tls, ty, stc, hm, rfl⟩ | ⟨tls, ty, init, j, hm, rfl⟩
        · exact .str
        · exact .ext stc hmem hm
        · exact .sl hmem hm
      · subst h; exact .str
      · subst h; exact .str
  | obj x s e t ty init =>
    cases init with
    | none =>
      simp only [declNews, List.mem_singleton] at h
      subst h
      exact .var pre post rfl
    | some items =>
      simp only [declNews, List.mem_append, List.mem_singleton] at h
      rcases h with h | h
      · obtain ⟨j, n, rfl⟩ := initNews_str h
        exact .str
      · subst h
        exact .var pre post rfl

/-- **every data object of the unit has a source** (with the declarations `pre` already processed) -/
theorem allNews_kind_gen : ∀ (post pre : List Decl) (k : Nat) (o : Obj), o ∈ allNews k (envAfter env0 pre) post →
    NewsKind (pre ++ post) o
  | [], _, _, _, h => by simp [allNews] at h
  | d :: ds, pre, k, o, h => by
    simp only [allNews, List.mem_append] at h
    rcases h with h | h
    · rw [← envAfter_snoc] at h
      have := allNews_kind_gen ds (pre ++ [d]) _ o h
      simpa [List.append_assoc] using this
    · exact declNews_kind pre ds d k o h

theorem allNews_kind (ds : List Decl) (k : Nat) (o : Obj) (h : o ∈ allNews k env0 ds) : NewsKind ds o := by
  have := allNews_kind_gen ds [] k o (by simpa [envAfter] using h)
  simpa using this

/-- **every file-scope object declaration has its object** -/
theorem var_mem_allNews : ∀ (ds : List Decl) (k : Nat) (env : SEnv) {x : Name} {s e t : Bool} {ty : ObjTy} {init : Option (List InitItem)},
    Decl.obj x s e t ty init ∈ ds → ∃ k' stc, varObj k' x stc e t ty init ∈ allNews k env ds
  | [], _, _, _, _, _, _, _, _, h => by cases h
  | d :: ds, k, env, x, s, e, t, ty, init, h => by
    rcases List.mem_cons.mp h with h | h
    · subst h
      refine ⟨k, varStatic env x s e, ?_⟩
      simp only [allNews, List.mem_append]
      right
      cases init <;> simp [declNews]
    · obtain ⟨k', stc, hk⟩ := var_mem_allNews ds (k + declCount d) (envDecl env d) h
      exact ⟨k', stc, by simp only [allNews, List.mem_append]; exact Or.inl hk⟩

theorem sl_mem_bodyNews (f : Name) : ∀ (b : List BodyItem) (env : SEnv) (k : Nat) {tls : Bool} {ty : ObjTy} {init : Option (List InitItem)},
    BodyItem.staticLocal tls ty init ∈ b → ∃ k', slObj f k' tls ty init ∈ bodyNews f env k b
  | [], _, _, _, _, _, h => by cases h
  | i :: rest, env, k, tls, ty, init, h => by
    rcases List.mem_cons.mp h with h | h
    · subst h
      refine ⟨k, ?_⟩
      simp only [bodyNews, List.mem_append]
      right
      cases init <;> simp [bodyItemNews]
    · obtain ⟨k', hk⟩ := sl_mem_bodyNews f rest (envItem env i) (k + bodyItemCount i) h
      exact ⟨k', by simp only [bodyNews, List.mem_append]; exact Or.inl hk⟩

/-- **every static local has its object** -/
theorem sl_mem_allNews : ∀ (ds : List Decl) (k : Nat) (env : SEnv) {f : Name} {n : Nat} {s e i : Bool} {b : List BodyItem} {tls : Bool}
    {ty : ObjTy} {init : Option (List InitItem)}, Decl.func f n s e i (some b) ∈ ds → BodyItem.staticLocal tls ty init ∈ b →
    ∃ k', slObj f k' tls ty init ∈ allNews k env ds
  | [], _, _, _, _, _, _, _, _, _, _, _, h, _ => by cases h
  | d :: ds, k, env, f, n, s, e, i, b, tls, ty, init, h, hb => by
    rcases List.mem_cons.mp h with h | h
    · subst h
      obtain ⟨k', hk⟩ := sl_mem_bodyNews f b env (k + 2) hb
      refine ⟨k', ?_⟩
      simp only [allNews, List.mem_append, declNews]
      exact Or.inr (Or.inl hk)
    · obtain ⟨k', hk⟩ := sl_mem_allNews ds (k + declCount d) (envDecl env d) h hb
      exact ⟨k', by simp only [allNews, List.mem_append]; exact Or.inl hk⟩

/-! ### fields of the objects -/

omit [Rules] in
theorem varObj_sym (k : Nat) (x : Name) (s e t : Bool) (ty : ObjTy) (init : Option (List InitItem)) :
    (varObj k x s e t ty init).sym = .named x := by cases init <;> rfl
omit [Rules] in
theorem varObj_isFunction (k : Nat) (x : Name) (s e t : Bool) (ty : ObjTy) (init : Option (List InitItem)) :
    (varObj k x s e t ty init).isFunction = false := by cases init <;> rfl
omit [Rules] in
theorem varObj_isStatic (k : Nat) (x : Name) (s e t : Bool) (ty : ObjTy) (init : Option (List InitItem)) :
    (varObj k x s e t ty init).isStatic = s := by cases init <;> rfl
omit [Rules] in
theorem varObj_isTls (k : Nat) (x : Name) (s e t : Bool) (ty : ObjTy) (init : Option (List InitItem)) :
    (varObj k x s e t ty init).isTls = t := by cases init <;> rfl
omit [Rules] in
theorem varObj_ty (k : Nat) (x : Name) (s e t : Bool) (ty : ObjTy) (init : Option (List InitItem)) :
    (varObj k x s e t ty init).ty = ty := by cases init <;> rfl
omit [Rules] in
theorem varObj_hasInit (k : Nat) (x : Name) (s e t : Bool) (ty : ObjTy) (init : Option (List InitItem)) :
    (varObj k x s e t ty init).hasInit = init.isSome := by cases init <;> rfl
omit [Rules] in
theorem varObj_isDefinition (k : Nat) (x : Name) (s e t : Bool) (ty : ObjTy) (init : Option (List InitItem)) :
    (varObj k x s e t ty init).isDefinition = (init.isSome || !e) := by cases init <;> rfl
omit [Rules] in
theorem varObj_isTentative (k : Nat) (x : Name) (s e t : Bool) (ty : ObjTy) (init : Option (List InitItem)) :
    (varObj k x s e t ty init).isTentative = (init.isNone && !e) := by cases init <;> rfl
omit [Rules] in
theorem varObj_uses (k : Nat) (x : Name) (s e t : Bool) (ty : ObjTy) (init : Option (List InitItem)) :
    (varObj k x s e t ty init).uses = match init with | none => [] | some items => initLabels k items := by cases init <;> rfl

/-- a named data object is a file-scope variable or a block-scope extern -/
theorem NewsKind.named {ds : List Decl} {o : Obj} {x : Name} (h : NewsKind ds o) (hs : o.sym = .named x) :
    (∃ s e t ty init k pre post, ds = pre ++ Decl.obj x s e t ty init :: post ∧
      o = varObj k x (varStatic (envAfter env0 pre) x s e) e t ty init) ∨
    (∃ f n s e i b tls ty stc, Decl.func f n s e i (some b) ∈ ds ∧ BodyItem.externObj x tls ty ∈ b ∧ o = externO x tls ty stc) := by
  cases h with
  | @var y s e t ty init k pre post hd =>
    rw [varObj_sym] at hs
    cases hs
    exact Or.inl ⟨s, e, t, ty, init, k, pre, post, hd, rfl⟩
  | @ext f n s e i b y tls ty stc hd hb =>
    have : y = x := by simpa [externO] using hs
    subst this
    exact Or.inr ⟨f, n, s, e, i, b, tls, ty, stc, hd, hb, rfl⟩
  | sl hd hb => simp [slObj] at hs
  | str => simp [strObj] at hs

/-- an anonymous data object is a static local or a string literal: always a definition, never tentative -/
theorem NewsKind.anon {ds : List Decl} {o : Obj} {j : Nat} (h : NewsKind ds o) (hs : o.sym = .anon j) :
    o.isDefinition = true ∧ o.isTentative = false ∧
    (o.uses = [] ∨ ∃ f n s e i b tls ty items k, Decl.func f n s e i (some b) ∈ ds ∧
      BodyItem.staticLocal tls ty (some items) ∈ b ∧ o.uses = initLabels k items) := by
  cases h with
  | var pre post hd => rw [varObj_sym] at hs; cases hs
  | ext stc hd hb => simp [externO] at hs
  | @sl f n s e i b tls ty init k hd hb =>
    refine ⟨rfl, rfl, ?_⟩
    cases init with
    | none => exact Or.inl rfl
    | some items => exact Or.inr ⟨f, n, s, e, i, b, tls, ty, items, k + 1, hd, hb, rfl⟩
  | str => exact ⟨rfl, rfl, Or.inl rfl⟩

omit [Rules] in
theorem mem_objDecls {ds : List Decl} {x : Name} {d : ObjDecl} :
    d ∈ objDecls ds x ↔ Decl.obj x d.isStatic d.isExtern d.isTls d.ty d.init ∈ ds := by
  unfold objDecls
  rw [List.mem_filterMap]
  constructor
  · rintro ⟨dd, hd, hh⟩
    cases dd with
    | func => cases hh
    | obj y s e t ty init =>
      by_cases hy : y = x
      · subst hy
        simp only [if_true, Option.some.injEq] at hh
        subst hh
        exact hd
      · simp [hy] at hh
  · intro h
    exact ⟨_, h, by simp⟩

omit [Rules] in
theorem mem_fnDecls {ds : List Decl} {f : Name} {d : FnDecl} :
    d ∈ fnDecls ds f ↔ ∃ n, Decl.func f n d.isStatic d.isExtern d.isInline d.body ∈ ds := by
  unfold fnDecls
  rw [List.mem_filterMap]
  constructor
  · rintro ⟨dd, hd, hh⟩
    cases dd with
    | obj => cases hh
    | func g n s e i b =>
      by_cases hy : g = f
      · subst hy
        simp only [if_true, Option.some.injEq] at hh
        subst hh
        exact ⟨n, hd⟩
      · simp [hy] at hh
  · rintro ⟨n, h⟩
    exact ⟨_, h, by simp⟩

end ChibiVerif.Linkage
