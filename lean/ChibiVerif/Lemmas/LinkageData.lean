/-
Helper lemmas for C15_symbols_partial: which data objects `parse` creates (`allNews`), by membership:
every one of them comes from a file-scope object declaration, a block-scope `extern`, a static local or a
string literal of the unit, and each of those declarations has its object.
-/
import ChibiVerif.Lemmas.LinkageExact

namespace ChibiVerif.Linkage
open ChibiVerif.Spec.Linkage

/-- where a data object of the unit comes from -/
inductive NewsKind (ds : List Decl) : Obj → Prop where
  | var {x : Name} {s e t : Bool} {ty : ObjTy} {init : Option (List InitItem)} {k : Nat} :
      Decl.obj x s e t ty init ∈ ds → NewsKind ds (varObj k x s e t ty init)
  | ext {f : Name} {n : Nat} {s e i : Bool} {b : List BodyItem} {x : Name} {tls : Bool} {ty : ObjTy} :
      Decl.func f n s e i (some b) ∈ ds → BodyItem.externObj x tls ty ∈ b → NewsKind ds (externO x tls ty)
  | sl {f : Name} {n : Nat} {s e i : Bool} {b : List BodyItem} {tls : Bool} {ty : ObjTy} {init : Option (List InitItem)} {k : Nat} :
      Decl.func f n s e i (some b) ∈ ds → BodyItem.staticLocal tls ty init ∈ b → NewsKind ds (slObj k tls ty init)
  | str {k n : Nat} : NewsKind ds (strObj k n)

theorem NewsKind.mono {ds ds' : List Decl} (h : ∀ d, d ∈ ds → d ∈ ds') {o : Obj} (k : NewsKind ds o) : NewsKind ds' o := by
  cases k with
  | var hd => exact .var (h _ hd)
  | ext hd hb => exact .ext (h _ hd) hb
  | sl hd hb => exact .sl (h _ hd) hb
  | str => exact .str

theorem initNews_str {items : List InitItem} {k : Nat} {o : Obj} (h : o ∈ initNews k items) : ∃ j n, o = strObj j n := by
  obtain ⟨_, j, n, _, rfl⟩ := initNews_spec items k o h
  exact ⟨j, n, rfl⟩

/-- the objects one body pushes -/
theorem bodyNews_kind : ∀ (b : List BodyItem) (k : Nat) (o : Obj), o ∈ bodyNews k b →
    (∃ j n, o = strObj j n) ∨ (∃ x tls ty, BodyItem.externObj x tls ty ∈ b ∧ o = externO x tls ty) ∨
    (∃ tls ty init j, BodyItem.staticLocal tls ty init ∈ b ∧ o = slObj j tls ty init)
  | [], _, _, h => by simp [bodyNews] at h
  | i :: rest, k, o, h => by
    simp only [bodyNews, List.mem_append] at h
    rcases h with h | h
    · rcases bodyNews_kind rest _ o h with h | ⟨x, tls, ty, hm, ho⟩ | ⟨tls, ty, init, j, hm, ho⟩
      · exact Or.inl h
      · exact Or.inr (Or.inl ⟨x, tls, ty, List.mem_cons_of_mem _ hm, ho⟩)
      · exact Or.inr (Or.inr ⟨tls, ty, init, j, List.mem_cons_of_mem _ hm, ho⟩)
    · cases i with
      | ref r => simp [bodyItemNews] at h
      | staticLocal tls ty init =>
        cases init with
        | none =>
          simp only [bodyItemNews, List.mem_singleton] at h
          exact Or.inr (Or.inr ⟨tls, ty, none, k, List.mem_cons_self, h⟩)
        | some items =>
          simp only [bodyItemNews, List.mem_append, List.mem_singleton] at h
          rcases h with h | h
          · exact Or.inl (initNews_str h)
          · exact Or.inr (Or.inr ⟨tls, ty, some items, k, List.mem_cons_self, h⟩)
      | str n =>
        simp only [bodyItemNews, List.mem_singleton] at h
        exact Or.inl ⟨k, n, h⟩
      | externObj x tls ty =>
        simp only [bodyItemNews, List.mem_singleton] at h
        exact Or.inr (Or.inl ⟨x, tls, ty, List.mem_cons_self, h⟩)

theorem declNews_kind (d : Decl) (k : Nat) (o : Obj) (h : o ∈ declNews k d) : NewsKind [d] o := by
  cases d with
  | func f n s e i body =>
    cases body with
    | none => simp [declNews] at h
    | some b =>
      simp only [declNews, List.mem_append, List.mem_cons, List.not_mem_nil, or_false] at h
      rcases h with h | h | h
      · rcases bodyNews_kind b _ o h with ⟨j, m, rfl⟩ | ⟨x, tls, ty, hm, rfl⟩ | ⟨tls, ty, init, j, hm, rfl⟩
        · exact .str
        · exact .ext List.mem_cons_self hm
        · exact .sl List.mem_cons_self hm
      · subst h; exact .str
      · subst h; exact .str
  | obj x s e t ty init =>
    cases init with
    | none =>
      simp only [declNews, List.mem_singleton] at h
      subst h
      exact .var List.mem_cons_self
    | some items =>
      simp only [declNews, List.mem_append, List.mem_singleton] at h
      rcases h with h | h
      · obtain ⟨j, n, rfl⟩ := initNews_str h
        exact .str
      · subst h
        exact .var List.mem_cons_self

/-- **every data object of the unit has a source** -/
theorem allNews_kind : ∀ (ds : List Decl) (k : Nat) (o : Obj), o ∈ allNews k ds → NewsKind ds o
  | [], _, _, h => by simp [allNews] at h
  | d :: ds, k, o, h => by
    simp only [allNews, List.mem_append] at h
    rcases h with h | h
    · exact (allNews_kind ds _ o h).mono (fun _ hd => List.mem_cons_of_mem _ hd)
    · exact (declNews_kind d k o h).mono (fun d' hd => by
        rw [List.mem_singleton] at hd; subst hd; exact List.mem_cons_self)

/-- **every file-scope object declaration has its object** -/
theorem var_mem_allNews : ∀ (ds : List Decl) (k : Nat) {x : Name} {s e t : Bool} {ty : ObjTy} {init : Option (List InitItem)},
    Decl.obj x s e t ty init ∈ ds → ∃ k', varObj k' x s e t ty init ∈ allNews k ds
  | [], _, _, _, _, _, _, _, h => by cases h
  | d :: ds, k, x, s, e, t, ty, init, h => by
    rcases List.mem_cons.mp h with h | h
    · subst h
      refine ⟨k, ?_⟩
      simp only [allNews, List.mem_append]
      right
      cases init <;> simp [declNews]
    · obtain ⟨k', hk⟩ := var_mem_allNews ds (k + declCount d) h
      exact ⟨k', by simp only [allNews, List.mem_append]; exact Or.inl hk⟩

theorem sl_mem_bodyNews : ∀ (b : List BodyItem) (k : Nat) {tls : Bool} {ty : ObjTy} {init : Option (List InitItem)},
    BodyItem.staticLocal tls ty init ∈ b → ∃ k', slObj k' tls ty init ∈ bodyNews k b
  | [], _, _, _, _, h => by cases h
  | i :: rest, k, tls, ty, init, h => by
    rcases List.mem_cons.mp h with h | h
    · subst h
      refine ⟨k, ?_⟩
      simp only [bodyNews, List.mem_append]
      right
      cases init <;> simp [bodyItemNews]
    · obtain ⟨k', hk⟩ := sl_mem_bodyNews rest (k + bodyItemCount i) h
      exact ⟨k', by simp only [bodyNews, List.mem_append]; exact Or.inl hk⟩

/-- **every static local has its object** -/
theorem sl_mem_allNews : ∀ (ds : List Decl) (k : Nat) {f : Name} {n : Nat} {s e i : Bool} {b : List BodyItem} {tls : Bool}
    {ty : ObjTy} {init : Option (List InitItem)}, Decl.func f n s e i (some b) ∈ ds → BodyItem.staticLocal tls ty init ∈ b →
    ∃ k', slObj k' tls ty init ∈ allNews k ds
  | [], _, _, _, _, _, _, _, _, _, _, h, _ => by cases h
  | d :: ds, k, f, n, s, e, i, b, tls, ty, init, h, hb => by
    rcases List.mem_cons.mp h with h | h
    · subst h
      obtain ⟨k', hk⟩ := sl_mem_bodyNews b (k + 2) hb
      refine ⟨k', ?_⟩
      simp only [allNews, List.mem_append, declNews]
      exact Or.inr (Or.inl hk)
    · obtain ⟨k', hk⟩ := sl_mem_allNews ds (k + declCount d) h hb
      exact ⟨k', by simp only [allNews, List.mem_append]; exact Or.inl hk⟩

/-! ### fields of the objects -/

theorem varObj_sym (k : Nat) (x : Name) (s e t : Bool) (ty : ObjTy) (init : Option (List InitItem)) :
    (varObj k x s e t ty init).sym = .named x := by cases init <;> rfl
theorem varObj_isFunction (k : Nat) (x : Name) (s e t : Bool) (ty : ObjTy) (init : Option (List InitItem)) :
    (varObj k x s e t ty init).isFunction = false := by cases init <;> rfl
theorem varObj_isStatic (k : Nat) (x : Name) (s e t : Bool) (ty : ObjTy) (init : Option (List InitItem)) :
    (varObj k x s e t ty init).isStatic = s := by cases init <;> rfl
theorem varObj_isTls (k : Nat) (x : Name) (s e t : Bool) (ty : ObjTy) (init : Option (List InitItem)) :
    (varObj k x s e t ty init).isTls = t := by cases init <;> rfl
theorem varObj_ty (k : Nat) (x : Name) (s e t : Bool) (ty : ObjTy) (init : Option (List InitItem)) :
    (varObj k x s e t ty init).ty = ty := by cases init <;> rfl
theorem varObj_hasInit (k : Nat) (x : Name) (s e t : Bool) (ty : ObjTy) (init : Option (List InitItem)) :
    (varObj k x s e t ty init).hasInit = init.isSome := by cases init <;> rfl
theorem varObj_isDefinition (k : Nat) (x : Name) (s e t : Bool) (ty : ObjTy) (init : Option (List InitItem)) :
    (varObj k x s e t ty init).isDefinition = (init.isSome || !e) := by cases init <;> rfl
theorem varObj_isTentative (k : Nat) (x : Name) (s e t : Bool) (ty : ObjTy) (init : Option (List InitItem)) :
    (varObj k x s e t ty init).isTentative = (init.isNone && !e) := by cases init <;> rfl
theorem varObj_uses (k : Nat) (x : Name) (s e t : Bool) (ty : ObjTy) (init : Option (List InitItem)) :
    (varObj k x s e t ty init).uses = match init with | none => [] | some items => initLabels k items := by cases init <;> rfl

/-- a named data object is a file-scope variable or a block-scope extern -/
theorem NewsKind.named {ds : List Decl} {o : Obj} {x : Name} (h : NewsKind ds o) (hs : o.sym = .named x) :
    (∃ s e t ty init k, Decl.obj x s e t ty init ∈ ds ∧ o = varObj k x s e t ty init) ∨
    (∃ f n s e i b tls ty, Decl.func f n s e i (some b) ∈ ds ∧ BodyItem.externObj x tls ty ∈ b ∧ o = externO x tls ty) := by
  cases h with
  | @var y s e t ty init k hd =>
    rw [varObj_sym] at hs
    cases hs
    exact Or.inl ⟨s, e, t, ty, init, k, hd, rfl⟩
  | @ext f n s e i b y tls ty hd hb =>
    have : y = x := by simpa [externO] using hs
    subst this
    exact Or.inr ⟨f, n, s, e, i, b, tls, ty, hd, hb, rfl⟩
  | sl hd hb => simp [slObj] at hs
  | str => simp [strObj] at hs

/-- an anonymous data object is a static local or a string literal: always a definition, never tentative -/
theorem NewsKind.anon {ds : List Decl} {o : Obj} {j : Nat} (h : NewsKind ds o) (hs : o.sym = .anon j) :
    o.isDefinition = true ∧ o.isTentative = false ∧
    (o.uses = [] ∨ ∃ f n s e i b tls ty items k, Decl.func f n s e i (some b) ∈ ds ∧
      BodyItem.staticLocal tls ty (some items) ∈ b ∧ o.uses = initLabels k items) := by
  cases h with
  | var hd => rw [varObj_sym] at hs; cases hs
  | ext hd hb => simp [externO] at hs
  | @sl f n s e i b tls ty init k hd hb =>
    refine ⟨rfl, rfl, ?_⟩
    cases init with
    | none => exact Or.inl rfl
    | some items => exact Or.inr ⟨f, n, s, e, i, b, tls, ty, items, k + 1, hd, hb, rfl⟩
  | str => exact ⟨rfl, rfl, Or.inl rfl⟩

theorem mem_objDecls {ds : List Decl} {x : Name} {d : ObjDecl} :
    d ∈ objDecls ds x ↔ Decl.obj x d.isStatic d.isExtern d.isTls d.ty d.init ∈ ds := by
  unfold objDecls
  rw [List.mem_filterMap]
  constructor
  · rintro ⟨dd, hd, hh⟩
    cases dd with
    | func => cases hh
    | obj y s e t ty init =>
      by_cases hy : y = x
      · subst hy
        simp only [if_true, Option.some.injEq] at hh
        subst hh
        exact hd
      · simp [hy] at hh
  · intro h
    exact ⟨_, h, by simp⟩

theorem mem_fnDecls {ds : List Decl} {f : Name} {d : FnDecl} :
    d ∈ fnDecls ds f ↔ ∃ n, Decl.func f n d.isStatic d.isExtern d.isInline d.body ∈ ds := by
  unfold fnDecls
  rw [List.mem_filterMap]
  constructor
  · rintro ⟨dd, hd, hh⟩
    cases dd with
    | obj => cases hh
    | func g n s e i b =>
      by_cases hy : g = f
      · subst hy
        simp only [if_true, Option.some.injEq] at hh
        subst hh
        exact ⟨n, hd⟩
      · simp [hy] at hh
  · rintro ⟨n, h⟩
    exact ⟨_, h, by simp⟩

end ChibiVerif.Linkage
