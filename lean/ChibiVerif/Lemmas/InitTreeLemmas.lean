/-
C05, back-end agreement, part 4: for a well-formed (laid-out) type the leaves of a fitting tree are admissible, lie inside the
object and are pairwise compatible.  Only interval arithmetic; no memory.
-/
import ChibiVerif.Lemmas.InitAgreeLemmas

namespace ChibiVerif.Init

def Ty.sz (t : Ty) : Nat := t.size.toNat

/-- a bit-field's declared type: an integer type or `_Bool`, with the field inside its storage unit -/
def bfTyOK (t : Ty) (bo bw : Nat) : Bool :=
  match t with
  | .scalar sz kind => (kind == .int || kind == .bool) && (sz == 1 || sz == 2 || sz == 4 || sz == 8) && decide (bo + bw ≤ 8 * sz)
  | _ => false

/-- bit range of a member inside its struct -/
def memBitLo (m : MemInfo × Ty) : Nat := match m.1.bf with | some (bo, _) => 8 * m.1.offset + bo | none => 8 * m.1.offset
def memBitHi (m : MemInfo × Ty) : Nat :=
  match m.1.bf with | some (bo, bw) => 8 * m.1.offset + bo + bw | none => 8 * (m.1.offset + m.2.sz)

/-- two members of one struct do not interfere: disjoint bits; a member of 8 bytes or more (the only place a relocation can be)
    shares no byte with the storage unit of a bit-field -/
def memSep (a b : MemInfo × Ty) : Bool :=
  (decide (memBitHi a ≤ memBitLo b) || decide (memBitHi b ≤ memBitLo a)) &&
  ((a.1.bf.isSome && b.1.bf.isNone && decide (8 ≤ b.2.sz)) →
      (decide (a.1.offset + a.2.sz ≤ b.1.offset) || decide (b.1.offset + b.2.sz ≤ a.1.offset))) &&
  ((b.1.bf.isSome && a.1.bf.isNone && decide (8 ≤ a.2.sz)) →
      (decide (a.1.offset + a.2.sz ≤ b.1.offset) || decide (b.1.offset + b.2.sz ≤ a.1.offset)))

def layoutOK : Members → Nat → Bool
  | [], _ => true
  | m :: ms, sz => decide (m.1.offset + m.2.sz ≤ sz) && ms.all (memSep m) && layoutOK ms sz

mutual
  /-- a laid-out object type as struct_decl/union_decl produce it (for every non-packed declaration) -/
  def wf : Ty → Bool
    | .scalar sz kind => scalarOK sz kind
    | .array e _ => wf e
    | .inc _ => false
    | .struct ms sz _ => wfMs ms && layoutOK ms sz
    | .union ms sz _ => wfMs ms && layoutOK' ms sz
  def wfMs : Members → Bool
    | [] => true
    | (mi, t) :: ms => wf t && (match mi.bf with | some (bo, bw) => bfTyOK t bo bw | none => true) && wfMs ms
  /-- union: every member inside the union -/
  def layoutOK' : Members → Nat → Bool
    | [], _ => true
    | (_, t) :: ms, sz => decide (t.sz ≤ sz) && layoutOK' ms sz
end

def Leaf.sz : Leaf → Nat
  | .val _ sz _ _ => sz
  | .bf _ sz _ _ _ _ => sz

/-- leaf inside the byte window `[lo, hi)` and admissible -/
def Leaf.inWin (lo hi : Nat) (l : Leaf) : Prop := lo ≤ l.off ∧ l.off + l.sz ≤ hi ∧ l.ok (l.off + l.sz)

theorem Leaf.ok_mono {l : Leaf} {a b : Nat} (h : a ≤ b) (hok : l.ok a) : l.ok b := by
  cases l with
  | val off sz kind e => exact ⟨hok.1, hok.2.1, Nat.le_trans hok.2.2 h⟩
  | bf off sz kind bo bw e => exact ⟨hok.1, hok.2.1, hok.2.2.1, Nat.le_trans hok.2.2.2 h⟩

theorem Leaf.inWin.mono {l : Leaf} {lo hi lo' hi' : Nat} (h : l.inWin lo hi) (h1 : lo' ≤ lo) (h2 : hi ≤ hi') : l.inWin lo' hi' :=
  ⟨Nat.le_trans h1 h.1, Nat.le_trans h.2.1 h2, h.2.2⟩

theorem storeWidth_le (sz : Nat) (kind : SKind) : storeWidth sz kind ≤ sz := by
  simp only [storeWidth]; split <;> omega

/-- footprints lie inside the scalar -/
theorem Leaf.foot {l : Leaf} (hok : l.ok (l.off + l.sz)) :
    l.bLo = l.off ∧ l.bHi ≤ l.off + l.sz ∧ 8 * l.off ≤ l.bitLo ∧ l.bitHi ≤ 8 * (l.off + l.sz) := by
  cases l with
  | val off sz kind e =>
    have := storeWidth_le sz kind
    refine ⟨rfl, ?_, ?_, ?_⟩
    · show off + storeWidth sz kind ≤ off + sz; omega
    · show 8 * off ≤ 8 * off; omega
    · show 8 * (off + storeWidth sz kind) ≤ 8 * (off + sz); omega
  | bf off sz kind bo bw e =>
    have h : bo + bw ≤ 8 * sz := hok.2.2.1
    refine ⟨rfl, ?_, ?_, ?_⟩
    · show off + sz ≤ off + sz; omega
    · show 8 * off ≤ 8 * off + bo; omega
    · show 8 * off + bo + bw ≤ 8 * (off + sz); omega

/-- leaves in disjoint byte windows are compatible -/
theorem compat_of_windows {a b : Leaf} {lo1 hi1 lo2 hi2 : Nat} (ha : a.inWin lo1 hi1) (hb : b.inWin lo2 hi2)
    (h : hi1 ≤ lo2 ∨ hi2 ≤ lo1) : a.compat b := by
  have fa := Leaf.foot ha.2.2
  have fb := Leaf.foot hb.2.2
  obtain ⟨a1, a2, _⟩ := ha
  obtain ⟨b1, b2, _⟩ := hb
  refine ⟨?_, fun _ => ?_⟩ <;> omega

theorem Leaf.compat.symm {a b : Leaf} (h : a.compat b) : b.compat a :=
  ⟨h.1.symm, fun hr => (h.2 hr.symm).symm⟩

theorem wf_size_nonneg : ∀ (t : Ty), wf t = true → 0 ≤ t.size
  | .scalar _ _, _ => by simp [Ty.size]
  | .array e n, h => by
    simp only [wf] at h
    have := wf_size_nonneg e h
    simp only [Ty.size]
    exact Int.mul_nonneg this (Int.natCast_nonneg n)
  | .inc _, h => by simp [wf] at h
  | .struct _ _ _, _ => by simp [Ty.size]
  | .union _ _ _, _ => by simp [Ty.size]

theorem array_sz (e : Ty) (n : Nat) (h : wf e = true) : (Ty.array e n).sz = e.sz * n := by
  have := wf_size_nonneg e h
  simp only [Ty.sz, Ty.size]
  rw [Int.toNat_mul this (Int.natCast_nonneg n)]
  simp



/-- where a leaf produced by member `m` of a struct at `off` lies -/
def InMem (off : Nat) (m : MemInfo × Ty) (l : Leaf) : Prop :=
  match m.1.bf with
  | some (bo, bw) => l.off = off + m.1.offset ∧ l.sz = m.2.sz ∧ l.bitLo = 8 * (off + m.1.offset) + bo ∧
      l.bitHi = 8 * (off + m.1.offset) + bo + bw ∧ l.isReloc = false ∧ l.bHi = off + m.1.offset + m.2.sz ∧ l.ok (l.off + l.sz)
  | none => l.inWin (off + m.1.offset) (off + m.1.offset + m.2.sz)

theorem reloc_sz {l : Leaf} {n : Nat} (hok : l.ok n) (hr : l.isReloc = true) : l.sz = 8 := by
  cases l with
  | val off sz kind e =>
    simp only [Leaf.isReloc] at hr
    obtain ⟨h, _⟩ := hok
    simp only [leafOK, Bool.and_eq_true, Bool.or_eq_true, beq_iff_eq] at h
    rcases h.2 with h | h
    · simp [Option.isNone_iff_eq_none] at h; simp [h] at hr
    · exact h.1
  | bf => simp [Leaf.isReloc] at hr

theorem compat_of_members {off : Nat} {m1 m2 : MemInfo × Ty} {a b : Leaf} (hs : memSep m1 m2 = true)
    (ha : InMem off m1 a) (hb : InMem off m2 b) : a.compat b := by
  simp only [memSep, Bool.and_eq_true, Bool.or_eq_true, decide_eq_true_eq, Bool.decide_and, Bool.decide_or,
    Bool.decide_eq_true, decide_implies, dite_eq_ite, Bool.if_true_right, Bool.not_and, Bool.not_eq_true'] at hs
  simp only [InMem, memBitLo, memBitHi] at *
  cases h1 : m1.1.bf with
  | none =>
    cases h2 : m2.1.bf with
    | none =>
      simp only [h1, h2] at *
      exact compat_of_windows ha hb (by omega)
    | some p2 =>
      obtain ⟨bo2, bw2⟩ := p2
      simp only [h1, h2] at *
      obtain ⟨b1, b2, b3, b4, b5, b6, b7⟩ := hb
      have fa := Leaf.foot ha.2.2
      obtain ⟨a1, a2, a3⟩ := ha
      refine ⟨by omega, ?_⟩
      intro hr
      rcases hr with hr | hr
      · have := reloc_sz a3 hr
        have hbLo : b.bLo = b.off := rfl
        simp at hs
        omega
      · simp [b5] at hr
  | some p1 =>
    obtain ⟨bo1, bw1⟩ := p1
    cases h2 : m2.1.bf with
    | none =>
      simp only [h1, h2] at *
      obtain ⟨a1, a2, a3, a4, a5, a6, a7⟩ := ha
      have fb := Leaf.foot hb.2.2
      obtain ⟨b1, b2, b3⟩ := hb
      refine ⟨by omega, ?_⟩
      intro hr
      rcases hr with hr | hr
      · simp [a5] at hr
      · have := reloc_sz b3 hr
        have haLo : a.bLo = a.off := rfl
        simp at hs
        omega
    | some p2 =>
      obtain ⟨bo2, bw2⟩ := p2
      simp only [h1, h2] at *
      obtain ⟨a1, a2, a3, a4, a5, a6, a7⟩ := ha
      obtain ⟨b1, b2, b3, b4, b5, b6, b7⟩ := hb
      refine ⟨by omega, ?_⟩
      intro hr
      rcases hr with hr | hr
      · simp [a5] at hr
      · simp [b5] at hr


theorem layoutOK_mem {ms : Members} {sz : Nat} (h : layoutOK ms sz = true) : ∀ m ∈ ms, m.1.offset + m.2.sz ≤ sz := by
  induction ms with
  | nil => intro m hm; cases hm
  | cons m0 ms ih =>
    simp only [layoutOK, Bool.and_eq_true, decide_eq_true_eq] at h
    intro m hm
    rcases List.mem_cons.mp hm with rfl | hm
    · exact h.1.1
    · exact ih h.2 m hm

theorem InMem.inWin {off sz : Nat} {m : MemInfo × Ty} {l : Leaf} (h : InMem off m l) (hm : m.1.offset + m.2.sz ≤ sz) :
    l.inWin off (off + sz) := by
  simp only [InMem] at h
  cases hbf : m.1.bf with
  | none => simp only [hbf] at h; exact h.mono (by omega) (by omega)
  | some p =>
    obtain ⟨bo, bw⟩ := p
    simp only [hbf] at h
    obtain ⟨h1, h2, _, _, _, _, h7⟩ := h
    exact ⟨by omega, by omega, h7⟩

mutual
  theorem leaves_wf : ∀ (init : Init) (ty : Ty) (off : Nat), wf ty = true → fits init ty = true →
      (∀ l ∈ leaves init ty off, l.inWin off (off + ty.sz)) ∧ (leaves init ty off).Pairwise Leaf.compat
    | .arr cs, .array elem n, off, hw, hf => by
      simp only [wf] at hw
      simp only [fits, Bool.and_eq_true, beq_iff_eq] at hf
      simp only [leaves]
      have := leavesArr_wf cs elem off hw hf.2
      rw [array_sz elem n hw, ← hf.1]
      exact this
    | .flex, .array _ _, _, _, _ => by simp [leaves]
    | .struct none cs, .struct ms sz _, off, hw, hf => by
      simp only [wf, Bool.and_eq_true] at hw
      simp only [fits] at hf
      simp only [leaves]
      obtain ⟨h1, h2⟩ := leavesMs_wf cs ms off hw.1 hf
      refine ⟨?_, h2 sz hw.2⟩
      intro l hl
      obtain ⟨m, hm, hin⟩ := h1 l hl
      have : (Ty.struct ms sz ‹_›).sz = sz := by simp [Ty.sz, Ty.size]
      rw [this]
      exact hin.inWin (layoutOK_mem hw.2 m hm)
    | .union none none _, .union _ _ _, _, _, _ => by simp [leaves]
    | .union none (some k) cs, .union ms sz _, off, hw, hf => by
      simp only [wf, Bool.and_eq_true] at hw
      simp only [fits] at hf
      simp only [leaves]
      have : (Ty.union ms sz ‹_›).sz = sz := by simp [Ty.sz, Ty.size]
      rw [this]
      exact leavesNth_wf cs ms k off sz hw.1 hw.2 hf
    | .leaf none, .scalar _ _, _, _, _ => by simp [leaves]
    | .leaf (some e), .scalar sz kind, off, hw, hf => by
      simp only [wf] at hw
      simp only [fits] at hf
      simp only [leaves, List.mem_singleton, forall_eq, List.pairwise_singleton, and_true]
      exact ⟨Nat.le_refl _, by simp [Leaf.off, Leaf.sz, Ty.sz, Ty.size], hf, hw, Nat.le_refl _⟩
    | .arr _, .scalar _ _, _, _, h => by simp [fits] at h
    | .arr _, .inc _, _, _, h => by simp [fits] at h
    | .arr _, .struct _ _ _, _, _, h => by simp [fits] at h
    | .arr _, .union _ _ _, _, _, h => by simp [fits] at h
    | .flex, .scalar _ _, _, _, h => by simp [fits] at h
    | .flex, .inc _, _, _, h => by simp [fits] at h
    | .flex, .struct _ _ _, _, _, h => by simp [fits] at h
    | .flex, .union _ _ _, _, _, h => by simp [fits] at h
    | .struct none _, .scalar _ _, _, _, h => by simp [fits] at h
    | .struct none _, .array _ _, _, _, h => by simp [fits] at h
    | .struct none _, .inc _, _, _, h => by simp [fits] at h
    | .struct none _, .union _ _ _, _, _, h => by simp [fits] at h
    | .struct (some _) _, .scalar _ _, _, _, h => by simp [fits] at h
    | .struct (some _) _, .array _ _, _, _, h => by simp [fits] at h
    | .struct (some _) _, .inc _, _, _, h => by simp [fits] at h
    | .struct (some _) _, .struct _ _ _, _, _, h => by simp [fits] at h
    | .struct (some _) _, .union _ _ _, _, _, h => by simp [fits] at h
    | .union none none _, .scalar _ _, _, _, h => by simp [fits] at h
    | .union none none _, .array _ _, _, _, h => by simp [fits] at h
    | .union none none _, .inc _, _, _, h => by simp [fits] at h
    | .union none none _, .struct _ _ _, _, _, h => by simp [fits] at h
    | .union none (some _) _, .scalar _ _, _, _, h => by simp [fits] at h
    | .union none (some _) _, .array _ _, _, _, h => by simp [fits] at h
    | .union none (some _) _, .inc _, _, _, h => by simp [fits] at h
    | .union none (some _) _, .struct _ _ _, _, _, h => by simp [fits] at h
    | .union (some _) _ _, .scalar _ _, _, _, h => by simp [fits] at h
    | .union (some _) _ _, .array _ _, _, _, h => by simp [fits] at h
    | .union (some _) _ _, .inc _, _, _, h => by simp [fits] at h
    | .union (some _) _ _, .struct _ _ _, _, _, h => by simp [fits] at h
    | .union (some _) _ _, .union _ _ _, _, _, h => by simp [fits] at h
    | .leaf none, .array _ _, _, _, h => by simp [fits] at h
    | .leaf none, .inc _, _, _, h => by simp [fits] at h
    | .leaf none, .struct _ _ _, _, _, h => by simp [fits] at h
    | .leaf none, .union _ _ _, _, _, h => by simp [fits] at h
    | .leaf (some _), .array _ _, _, _, h => by simp [fits] at h
    | .leaf (some _), .inc _, _, _, h => by simp [fits] at h
    | .leaf (some _), .struct _ _ _, _, _, h => by simp [fits] at h
    | .leaf (some _), .union _ _ _, _, _, h => by simp [fits] at h
  theorem leavesArr_wf : ∀ (cs : List Init) (elem : Ty) (off : Nat), wf elem = true → fitsArr cs elem = true →
      (∀ l ∈ leavesArr cs elem off, l.inWin off (off + elem.sz * cs.length)) ∧ (leavesArr cs elem off).Pairwise Leaf.compat
    | [], _, _, _, _ => by simp [leavesArr]
    | c :: cs, elem, off, hw, hf => by
      simp only [fitsArr, Bool.and_eq_true] at hf
      obtain ⟨a1, a2⟩ := leaves_wf c elem off hw hf.1
      obtain ⟨b1, b2⟩ := leavesArr_wf cs elem (off + elem.sz) hw hf.2
      simp only [leavesArr, List.length_cons]
      have he : elem.size.toNat = elem.sz := rfl
      rw [he]
      refine ⟨?_, ?_⟩
      · intro l hl
        rcases List.mem_append.mp hl with hl | hl
        · exact (a1 l hl).mono (Nat.le_refl _) (by rw [Nat.mul_succ]; omega)
        · exact (b1 l hl).mono (by omega) (by rw [Nat.mul_succ]; omega)
      · rw [List.pairwise_append]
        exact ⟨a2, b2, fun a ha b hb => compat_of_windows (a1 a ha) (b1 b hb) (Or.inl (Nat.le_refl _))⟩
  theorem leavesMs_wf : ∀ (cs : List Init) (ms : Members) (off : Nat), wfMs ms = true → fitsMs cs ms = true →
      (∀ l ∈ leavesMs cs ms off, ∃ m ∈ ms, InMem off m l) ∧
      (∀ sz, layoutOK ms sz = true → (leavesMs cs ms off).Pairwise Leaf.compat)
    | [], [], _, _, _ => by simp [leavesMs]
    | [], _ :: _, _, _, h => by simp [fitsMs] at h
    | _ :: _, [], _, _, h => by simp [fitsMs] at h
    | c :: cs, (mi, t) :: ms, off, hw, hf => by
      simp only [wfMs, Bool.and_eq_true] at hw
      simp only [fitsMs, Bool.and_eq_true] at hf
      obtain ⟨⟨hwt, hbfty⟩, hwms⟩ := hw
      obtain ⟨b1, b2⟩ := leavesMs_wf cs ms off hwms hf.2
      simp only [leavesMs]
      -- the leaves of the first member
      have hfirst : (∀ l ∈ (match mi.bf with
            | some (bo, bw) => bfLeaf c t (off + mi.offset) bo bw
            | none => leaves c t (off + mi.offset)), InMem off (mi, t) l) ∧
          (match mi.bf with
            | some (bo, bw) => bfLeaf c t (off + mi.offset) bo bw
            | none => leaves c t (off + mi.offset)).Pairwise Leaf.compat := by
        cases hbf : mi.bf with
        | none =>
          simp only [hbf] at hf ⊢
          obtain ⟨a1, a2⟩ := leaves_wf c t (off + mi.offset) hwt hf.1
          exact ⟨fun l hl => by simp only [InMem, hbf]; exact a1 l hl, a2⟩
        | some p =>
          obtain ⟨bo, bw⟩ := p
          simp only [hbf] at hf hbfty ⊢
          match c, t, hf.1, hbfty with
          | .leaf none, .scalar _ _, _, _ => simp [bfLeaf]
          | .leaf (some e), .scalar sz kind, hx, hy =>
            simp only [bfTyOK, Bool.and_eq_true, Bool.or_eq_true, beq_iff_eq, decide_eq_true_eq] at hy
            simp only [bfLeaf, List.mem_singleton, forall_eq, List.pairwise_singleton, and_true, InMem, hbf]
            refine ⟨rfl, by simp [Leaf.sz, Ty.sz, Ty.size], rfl, rfl, rfl, by simp [Leaf.bHi, Ty.sz, Ty.size], hx, ?_, hy.2, Nat.le_refl _⟩
            rcases hy.1.2 with ((h | h) | h) | h <;> simp [h]
      obtain ⟨a1, a2⟩ := hfirst
      refine ⟨?_, ?_⟩
      · intro l hl
        rcases List.mem_append.mp hl with hl | hl
        · exact ⟨(mi, t), List.mem_cons_self .., a1 l hl⟩
        · obtain ⟨m, hm, hin⟩ := b1 l hl
          exact ⟨m, List.mem_cons_of_mem _ hm, hin⟩
      · intro sz hlay
        simp only [layoutOK, Bool.and_eq_true, List.all_eq_true] at hlay
        rw [List.pairwise_append]
        refine ⟨a2, b2 sz hlay.2, ?_⟩
        intro a ha b hb
        obtain ⟨m, hm, hin⟩ := b1 b hb
        exact compat_of_members (hlay.1.2 m hm) (a1 a ha) hin
  theorem leavesNth_wf : ∀ (cs : List Init) (ms : Members) (k off sz : Nat), wfMs ms = true → layoutOK' ms sz = true →
      fitsNth cs ms k = true →
      (∀ l ∈ leavesNth cs ms k off, l.inWin off (off + sz)) ∧ (leavesNth cs ms k off).Pairwise Leaf.compat
    | c :: _, (mi, t) :: _, 0, off, sz, hw, hl, hf => by
      simp only [wfMs, Bool.and_eq_true] at hw
      simp only [layoutOK', Bool.and_eq_true, decide_eq_true_eq] at hl
      simp only [fitsNth, Bool.and_eq_true] at hf
      simp only [leavesNth]
      obtain ⟨a1, a2⟩ := leaves_wf c t off hw.1.1 hf.2
      exact ⟨fun l h => (a1 l h).mono (Nat.le_refl _) (by omega), a2⟩
    | _ :: cs, (_, _) :: ms, k+1, off, sz, hw, hl, hf => by
      simp only [wfMs, Bool.and_eq_true] at hw
      simp only [layoutOK', Bool.and_eq_true] at hl
      simp only [fitsNth] at hf
      simp only [leavesNth]
      exact leavesNth_wf cs ms k off sz hw.2 hl.2 hf
    | [], _, _, _, _, _, _, h => by simp [fitsNth] at h
    | _ :: _, [], _, _, _, _, _, h => by simp [fitsNth] at h
end

/-! ### both back ends from the zero image -/

/-- the zeroed image `gvar_initializer` starts from; its cells are what ND_MEMZERO leaves -/
theorem zero_image_cells (n : Nat) : (Image.mk (List.replicate n 0) []).cells = zeroCells n := by
  simp [Image.cells, overlay, zeroCells]

theorem bitOf_zero (n p : Nat) : bitOf (List.replicate n 0) p = false := by
  simp only [bitOf, List.getD_eq_getElem?_getD, List.getElem?_replicate]
  split <;> simp

/-- both back ends as folds over the leaves, run from the zero image -/
theorem both_from_leaves (ty : Ty) (init : Init) (hw : wf ty = true) (hf : fits init ty = true) :
    ∃ im', gvarInit init ty = .ok im' ∧ autoObject init ty = .ok im'.cells ∧
      im'.bytes.length = ty.sz ∧ (∀ r ∈ im'.relocs, r.offset + 8 ≤ ty.sz) ∧
      (∀ p, (∀ l ∈ leaves init ty 0, p < l.bitLo ∨ l.bitHi ≤ p) → bitOf im'.bytes p = false) ∧
      (∀ r ∈ im'.relocs, ∃ l ∈ leaves init ty 0, l.isReloc = true ∧ r.offset = l.bLo ∧ r.offset + 8 = l.bHi) := by
  obtain ⟨hwin, hpair⟩ := leaves_wf init ty 0 hw hf
  let im0 : Image := ⟨List.replicate ty.sz 0, []⟩
  obtain ⟨im', hs, ha, hlen, hrel, hbits, hnew⟩ := flat_agree ty.sz (leaves init ty 0) im0 (by simp [im0]) (by simp [im0])
    (fun l hl => by
      have := hwin l hl
      exact Leaf.ok_mono (by have := this.2.1; omega) this.2.2)
    hpair
    (fun l hl => by
      cases l with
      | val => intro r hr; simp [im0] at hr
      | bf off sz kind bo bw e => exact ⟨by intro r hr; simp [im0] at hr, fun j _ _ => bitOf_zero _ _⟩)
  refine ⟨im', ?_, ?_, hlen, hrel, ?_, ?_⟩
  · simp only [gvarInit]
    rw [writeGvar_leaves init ty _ 0 hf]
    exact hs
  · obtain ⟨as, has, hsame⟩ := createLvar_leaves init ty [] hf
    simp only [autoObject, lvarInit, has]
    show runAssigns (zeroCells ty.size.toNat) as = _
    rw [runAssigns_leaves as _ _ hsame, ← zero_image_cells]
    exact ha
  · intro p hp
    rw [hbits p hp]
    exact bitOf_zero _ _
  · intro r hr
    rcases hnew r hr with h | h
    · simp [im0] at h
    · exact h

end ChibiVerif.Init
