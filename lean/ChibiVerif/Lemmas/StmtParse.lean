/-
C03 — invariants of `parseStmt` (Model/Stmt.lean), by induction on the source statement with
the parser state as the invariant: the break/continue/switch context is restored, break /
continue / case / default bind to the innermost construct (`Bound`), the tree erases to
the source, unique names are allocated monotonically so that the labels a statement
defines are pairwise distinct and lie in the interval of names allocated while parsing it.
-/
import ChibiVerif.Model.Stmt
namespace ChibiVerif.Ctl
open ChibiVerif.Spec.Ctl (Val SStmt Event SState truth)

/-- how the `current_switch` context after a statement relates to the one before -/
def SwFrame (sw sw' : Option SwCtx) (st : Stmt) : Prop :=
  match sw with
  | none => sw' = none ∧ caseEnts st = [] ∧ dflts st = []
  | some ctx => ∃ ctx', sw' = some ctx' ∧
      (∀ e, e ∈ ctx'.cases ↔ e ∈ caseEnts st ∨ e ∈ ctx.cases) ∧
      ((dflts st = [] ∧ ctx'.dflt = ctx.dflt) ∨ (∃ d, ctx'.dflt = some d ∧ d ∈ dflts st))

structure PInv (s : SStmt) (σ : PState) (st : Stmt) (σ' : PState) : Prop where
  brk : σ'.brk = σ.brk
  cont : σ'.cont = σ.cont
  erase : erase st = s
  bound : Bound σ.brk σ.cont st
  sw : SwFrame σ.sw σ'.sw st

theorem SwFrame.refl (sw : Option SwCtx) (st : Stmt) (h1 : caseEnts st = []) (h2 : dflts st = []) :
    SwFrame sw sw st := by
  cases sw with
  | none => exact ⟨rfl, h1, h2⟩
  | some ctx => exact ⟨ctx, rfl, by simp [h1], Or.inl ⟨h2, rfl⟩⟩

theorem SwFrame.congr {sw sw' : Option SwCtx} {a st : Stmt} (h : SwFrame sw sw' a)
    (hc : caseEnts st = caseEnts a) (hd : dflts st = dflts a) : SwFrame sw sw' st := by
  unfold SwFrame at h ⊢
  rw [hc, hd]; exact h

theorem SwFrame.comp {sw sw1 sw2 : Option SwCtx} {a b st : Stmt} (h1 : SwFrame sw sw1 a)
    (h2 : SwFrame sw1 sw2 b) (hc : caseEnts st = caseEnts a ++ caseEnts b)
    (hd : dflts st = dflts a ++ dflts b) : SwFrame sw sw2 st := by
  cases sw with
  | none =>
    obtain ⟨rfl, ha1, ha2⟩ := h1
    obtain ⟨rfl, hb1, hb2⟩ := h2
    exact ⟨rfl, by simp [hc, ha1, hb1], by simp [hd, ha2, hb2]⟩
  | some ctx =>
    obtain ⟨ctx1, rfl, hc1, hd1⟩ := h1
    obtain ⟨ctx2, rfl, hc2, hd2⟩ := h2
    refine ⟨ctx2, rfl, ?_, ?_⟩
    · intro e
      rw [hc2, hc1, hc, List.mem_append]
      constructor
      · rintro (h | h | h)
        · exact Or.inl (Or.inr h)
        · exact Or.inl (Or.inl h)
        · exact Or.inr h
      · rintro ((h | h) | h)
        · exact Or.inr (Or.inl h)
        · exact Or.inl h
        · exact Or.inr (Or.inr h)
    · rcases hd2 with ⟨hb0, hb1⟩ | ⟨d, hb1, hb2⟩
      · rcases hd1 with ⟨ha0, ha1⟩ | ⟨d, ha1, ha2⟩
        · exact Or.inl ⟨by simp [hd, ha0, hb0], by rw [hb1, ha1]⟩
        · exact Or.inr ⟨d, by rw [hb1, ha1], by simp [hd, ha2]⟩
      · exact Or.inr ⟨d, hb1, by simp [hd, hb2]⟩

theorem parse_inv (s : SStmt) : ∀ (σ : PState) (st : Stmt) (σ' : PState),
    parseStmt s σ = .ok (st, σ') → PInv s σ st σ' := by
  induction s with
  | skip =>
    intro σ st σ' h
    simp only [parseStmt, Except.ok.injEq, Prod.mk.injEq] at h
    obtain ⟨rfl, rfl⟩ := h
    exact ⟨rfl, rfl, rfl, trivial, SwFrame.refl _ _ rfl rfl⟩
  | marker k =>
    intro σ st σ' h
    simp only [parseStmt, Except.ok.injEq, Prod.mk.injEq] at h
    obtain ⟨rfl, rfl⟩ := h
    exact ⟨rfl, rfl, rfl, trivial, SwFrame.refl _ _ rfl rfl⟩
  | ret =>
    intro σ st σ' h
    simp only [parseStmt, Except.ok.injEq, Prod.mk.injEq] at h
    obtain ⟨rfl, rfl⟩ := h
    exact ⟨rfl, rfl, rfl, trivial, SwFrame.refl _ _ rfl rfl⟩
  | goto_ l =>
    intro σ st σ' h
    simp only [parseStmt, Except.ok.injEq, Prod.mk.injEq] at h
    obtain ⟨rfl, rfl⟩ := h
    exact ⟨rfl, rfl, rfl, trivial, SwFrame.refl _ _ rfl rfl⟩
  | gotoVal l =>
    intro σ st σ' h
    simp only [parseStmt, Except.ok.injEq, Prod.mk.injEq] at h
    obtain ⟨rfl, rfl⟩ := h
    exact ⟨rfl, rfl, rfl, trivial, SwFrame.refl _ _ rfl rfl⟩
  | break_ =>
    intro σ st σ' h
    simp only [parseStmt] at h
    split at h
    · cases h
    · rename_i b hb
      simp only [Except.ok.injEq, Prod.mk.injEq] at h
      obtain ⟨rfl, rfl⟩ := h
      exact ⟨rfl, rfl, rfl, hb, SwFrame.refl _ _ rfl rfl⟩
  | continue_ =>
    intro σ st σ' h
    simp only [parseStmt] at h
    split at h
    · cases h
    · rename_i b hb
      simp only [Except.ok.injEq, Prod.mk.injEq] at h
      obtain ⟨rfl, rfl⟩ := h
      exact ⟨rfl, rfl, rfl, hb, SwFrame.refl _ _ rfl rfl⟩
  | seq a b iha ihb =>
    intro σ st σ' h
    simp only [parseStmt] at h
    split at h
    · cases h
    · rename_i a' σ1 ha
      split at h
      · cases h
      · rename_i b' σ2 hb
        simp only [Except.ok.injEq, Prod.mk.injEq] at h
        obtain ⟨rfl, rfl⟩ := h
        have A := iha _ _ _ ha
        have B := ihb _ _ _ hb
        refine ⟨by rw [B.brk, A.brk], by rw [B.cont, A.cont], by simp [erase, A.erase, B.erase], ?_, ?_⟩
        · exact ⟨A.bound, by have := B.bound; rwa [A.brk, A.cont] at this⟩
        · exact SwFrame.comp A.sw B.sw rfl rfl
  | ifte c t e iht ihe =>
    intro σ st σ' h
    simp only [parseStmt] at h
    split at h
    · cases h
    · rename_i a' σ1 ha
      split at h
      · cases h
      · rename_i b' σ2 hb
        simp only [Except.ok.injEq, Prod.mk.injEq] at h
        obtain ⟨rfl, rfl⟩ := h
        have A := iht _ _ _ ha
        have B := ihe _ _ _ hb
        refine ⟨by rw [B.brk, A.brk], by rw [B.cont, A.cont], by simp [erase, A.erase, B.erase], ?_, ?_⟩
        · exact ⟨A.bound, by have := B.bound; rwa [A.brk, A.cont] at this⟩
        · exact SwFrame.comp A.sw B.sw rfl rfl
  | block s ih =>
    intro σ st σ' h
    simp only [parseStmt] at h
    split at h
    · cases h
    · rename_i s' σ1 hs
      simp only [Except.ok.injEq, Prod.mk.injEq] at h
      obtain ⟨rfl, rfl⟩ := h
      have A := ih _ _ _ hs
      exact ⟨A.brk, A.cont, by simp [erase, A.erase], A.bound, A.sw.congr rfl rfl⟩
  | for_ i c n body ih =>
    intro σ st σ' h
    simp only [parseStmt] at h
    split at h
    · cases h
    · rename_i s' σ1 hs
      simp only [Except.ok.injEq, Prod.mk.injEq] at h
      obtain ⟨rfl, rfl⟩ := h
      have A := ih _ _ _ hs
      exact ⟨rfl, rfl, by simp [erase, A.erase], A.bound, A.sw.congr rfl rfl⟩
  | doWhile body c ih =>
    intro σ st σ' h
    simp only [parseStmt] at h
    split at h
    · cases h
    · rename_i s' σ1 hs
      simp only [Except.ok.injEq, Prod.mk.injEq] at h
      obtain ⟨rfl, rfl⟩ := h
      have A := ih _ _ _ hs
      exact ⟨rfl, rfl, by simp [erase, A.erase], A.bound, A.sw.congr rfl rfl⟩
  | label l s ih =>
    intro σ st σ' h
    simp only [parseStmt] at h
    split at h
    · cases h
    · rename_i s' σ1 hs
      simp only [Except.ok.injEq, Prod.mk.injEq] at h
      obtain ⟨rfl, rfl⟩ := h
      have A := ih _ _ _ hs
      exact ⟨A.brk, A.cont, by simp [erase, A.erase], A.bound, A.sw.congr rfl rfl⟩
  | switch_ w u k body ih =>
    intro σ st σ' h
    simp only [parseStmt] at h
    split at h
    · cases h
    · rename_i body' σ1 hs
      split at h
      · cases h
      · rename_i ctx hctx
        simp only [Except.ok.injEq, Prod.mk.injEq] at h
        obtain ⟨rfl, rfl⟩ := h
        have A := ih _ _ _ hs
        obtain ⟨ctx', hc', hcases, hd⟩ := A.sw
        rw [hctx] at hc'
        cases hc'
        refine ⟨rfl, A.cont, by simp [erase, A.erase], ⟨A.bound, ?_, ?_⟩, SwFrame.refl _ _ rfl rfl⟩
        · intro e; rw [hcases]; simp
        · rcases hd with ⟨h0, h1⟩ | ⟨d, h1, h2⟩
          · simp only at h1; rw [h1]; exact h0
          · rw [h1]; exact h2
  | case_ lo hi s ih =>
    intro σ st σ' h
    simp only [parseStmt] at h
    split at h
    · cases h
    · rename_i ctx0 hctx0
      split at h
      · cases h
      · split at h
        · cases h
        · rename_i s' σ1 hs
          split at h
          · cases h
          · rename_i ctx1 hctx1
            simp only [Except.ok.injEq, Prod.mk.injEq] at h
            obtain ⟨rfl, rfl⟩ := h
            have A := ih _ _ _ hs
            refine ⟨A.brk, A.cont, by simp [erase, A.erase], A.bound, ?_⟩
            have hsw := A.sw
            simp only [hctx0] at hsw ⊢
            obtain ⟨ctx', hc', hcases, hd⟩ := hsw
            rw [hctx1] at hc'
            cases hc'
            refine ⟨_, rfl, ?_, ?_⟩
            · intro e
              simp only [caseEnts, List.mem_cons, hcases]
              constructor
              · rintro (h | h | h)
                · exact Or.inl (Or.inl h)
                · exact Or.inl (Or.inr h)
                · exact Or.inr h
              · rintro ((h | h) | h)
                · exact Or.inl h
                · exact Or.inr (Or.inl h)
                · exact Or.inr (Or.inr h)
            · exact hd
  | default_ s ih =>
    intro σ st σ' h
    simp only [parseStmt] at h
    split at h
    · cases h
    · rename_i ctx0 hctx0
      split at h
      · cases h
      · rename_i s' σ1 hs
        split at h
        · cases h
        · rename_i ctx1 hctx1
          simp only [Except.ok.injEq, Prod.mk.injEq] at h
          obtain ⟨rfl, rfl⟩ := h
          have A := ih _ _ _ hs
          refine ⟨A.brk, A.cont, by simp [erase, A.erase], A.bound, ?_⟩
          have hsw := A.sw
          simp only [hctx0] at hsw ⊢
          obtain ⟨ctx', hc', hcases, hd⟩ := hsw
          rw [hctx1] at hc'
          cases hc'
          exact ⟨_, rfl, hcases, Or.inr ⟨_, rfl, by simp [dflts]⟩⟩


structure PInv2 (σ : PState) (st : Stmt) (σ' : PState) : Prop where
  le : σ.uniq ≤ σ'.uniq
  nodup : (defs st).Nodup
  range : ∀ n ∈ defs st, σ.uniq ≤ n ∧ n < σ'.uniq
  labels : ∀ p ∈ σ'.labels, p ∈ σ.labels ∨ p.2 ∈ defs st

theorem nodup_append_of_ranges {a b : List Nat} {u0 u1 u2 : Nat} (ha : a.Nodup) (hb : b.Nodup)
    (ra : ∀ n ∈ a, u0 ≤ n ∧ n < u1) (rb : ∀ n ∈ b, u1 ≤ n ∧ n < u2) : (a ++ b).Nodup := by
  rw [List.nodup_append]
  refine ⟨ha, hb, ?_⟩
  intro x hx y hy
  have := ra x hx
  have := rb y hy
  omega

theorem parse_inv2 (s : SStmt) : ∀ (σ : PState) (st : Stmt) (σ' : PState),
    parseStmt s σ = .ok (st, σ') → PInv2 σ st σ' := by
  induction s with
  | skip =>
    intro σ st σ' h
    simp only [parseStmt, Except.ok.injEq, Prod.mk.injEq] at h
    obtain ⟨rfl, rfl⟩ := h
    exact ⟨Nat.le_refl _, List.nodup_nil, by simp [defs], fun p hp => Or.inl hp⟩
  | seq a b iha ihb =>
    intro σ st σ' h
    simp only [parseStmt] at h
    split at h
    · cases h
    · rename_i a' σ1 ha
      split at h
      · cases h
      · rename_i b' σ2 hb
        simp only [Except.ok.injEq, Prod.mk.injEq] at h
        obtain ⟨rfl, rfl⟩ := h
        have A := iha _ _ _ ha
        have B := ihb _ _ _ hb
        refine ⟨Nat.le_trans A.le B.le, nodup_append_of_ranges A.nodup B.nodup A.range B.range, ?_, ?_⟩
        · intro n hn
          simp only [defs, List.mem_append] at hn
          rcases hn with hn | hn
          · have := A.range n hn; have := B.le; omega
          · have := B.range n hn; have := A.le; omega
        · intro p hp
          rcases B.labels p hp with h | h
          · rcases A.labels p h with h | h
            · exact Or.inl h
            · exact Or.inr (by simp [defs, h])
          · exact Or.inr (by simp [defs, h])
  | for_ i c n body ih =>
    intro σ st σ' h
    simp only [parseStmt] at h
    split at h
    · cases h
    · rename_i s' σ1 hs
      simp only [Except.ok.injEq, Prod.mk.injEq] at h
      obtain ⟨rfl, rfl⟩ := h
      have A := ih _ _ _ hs
      have hle : σ.uniq + 2 ≤ σ1.uniq := A.le
      have hr : ∀ n ∈ defs s', σ.uniq + 2 ≤ n ∧ n < σ1.uniq := A.range
      refine ⟨by show σ.uniq ≤ σ1.uniq; omega, ?_, ?_, ?_⟩
      · simp only [defs]
        rw [List.nodup_append]
        refine ⟨A.nodup, by simp, ?_⟩
        intro x hx y hy
        have := hr x hx
        simp at hy
        omega
      · intro n hn
        show σ.uniq ≤ n ∧ n < σ1.uniq
        simp only [defs, List.mem_append, List.mem_cons, List.not_mem_nil, or_false] at hn
        rcases hn with hn | hn | hn
        · have := hr n hn; omega
        · omega
        · omega
      · intro p hp
        rcases A.labels p hp with h | h
        · exact Or.inl h
        · exact Or.inr (by simp [defs, h])
  | marker k =>
    intro σ st σ' h
    simp only [parseStmt, Except.ok.injEq, Prod.mk.injEq] at h
    obtain ⟨rfl, rfl⟩ := h
    exact ⟨Nat.le_refl _, List.nodup_nil, by simp [defs], fun p hp => Or.inl hp⟩
  | ret =>
    intro σ st σ' h
    simp only [parseStmt, Except.ok.injEq, Prod.mk.injEq] at h
    obtain ⟨rfl, rfl⟩ := h
    exact ⟨Nat.le_refl _, List.nodup_nil, by simp [defs], fun p hp => Or.inl hp⟩
  | goto_ l =>
    intro σ st σ' h
    simp only [parseStmt, Except.ok.injEq, Prod.mk.injEq] at h
    obtain ⟨rfl, rfl⟩ := h
    exact ⟨Nat.le_refl _, List.nodup_nil, by simp [defs], fun p hp => Or.inl hp⟩
  | gotoVal l =>
    intro σ st σ' h
    simp only [parseStmt, Except.ok.injEq, Prod.mk.injEq] at h
    obtain ⟨rfl, rfl⟩ := h
    exact ⟨Nat.le_refl _, List.nodup_nil, by simp [defs], fun p hp => Or.inl hp⟩
  | break_ =>
    intro σ st σ' h
    simp only [parseStmt] at h
    split at h
    · cases h
    · simp only [Except.ok.injEq, Prod.mk.injEq] at h
      obtain ⟨rfl, rfl⟩ := h
      exact ⟨Nat.le_refl _, List.nodup_nil, by simp [defs], fun p hp => Or.inl hp⟩
  | continue_ =>
    intro σ st σ' h
    simp only [parseStmt] at h
    split at h
    · cases h
    · simp only [Except.ok.injEq, Prod.mk.injEq] at h
      obtain ⟨rfl, rfl⟩ := h
      exact ⟨Nat.le_refl _, List.nodup_nil, by simp [defs], fun p hp => Or.inl hp⟩
  | ifte c a b iha ihb =>
    intro σ st σ' h
    simp only [parseStmt] at h
    split at h
    · cases h
    · rename_i a' σ1 ha
      split at h
      · cases h
      · rename_i b' σ2 hb
        simp only [Except.ok.injEq, Prod.mk.injEq] at h
        obtain ⟨rfl, rfl⟩ := h
        have A := iha _ _ _ ha
        have B := ihb _ _ _ hb
        refine ⟨Nat.le_trans A.le B.le, nodup_append_of_ranges A.nodup B.nodup A.range B.range, ?_, ?_⟩
        · intro n hn
          simp only [defs, List.mem_append] at hn
          rcases hn with hn | hn
          · have := A.range n hn; have := B.le; omega
          · have := B.range n hn; have := A.le; omega
        · intro p hp
          rcases B.labels p hp with h | h
          · rcases A.labels p h with h | h
            · exact Or.inl h
            · exact Or.inr (by simp [defs, h])
          · exact Or.inr (by simp [defs, h])
  | doWhile body c ih =>
    intro σ st σ' h
    simp only [parseStmt] at h
    split at h
    · cases h
    · rename_i s' σ1 hs
      simp only [Except.ok.injEq, Prod.mk.injEq] at h
      obtain ⟨rfl, rfl⟩ := h
      have A := ih _ _ _ hs
      have hle : σ.uniq + 2 ≤ σ1.uniq := A.le
      have hr : ∀ n ∈ defs s', σ.uniq + 2 ≤ n ∧ n < σ1.uniq := A.range
      refine ⟨by show σ.uniq ≤ σ1.uniq; omega, ?_, ?_, ?_⟩
      · simp only [defs]
        rw [List.nodup_append]
        refine ⟨A.nodup, by simp, ?_⟩
        intro x hx y hy
        have := hr x hx
        simp at hy
        omega
      · intro n hn
        show σ.uniq ≤ n ∧ n < σ1.uniq
        simp only [defs, List.mem_append, List.mem_cons, List.not_mem_nil, or_false] at hn
        rcases hn with hn | hn | hn
        · have := hr n hn; omega
        · omega
        · omega
      · intro p hp
        rcases A.labels p hp with h | h
        · exact Or.inl h
        · exact Or.inr (by simp [defs, h])
  | block s ih =>
    intro σ st σ' h
    simp only [parseStmt] at h
    split at h
    · cases h
    · rename_i s' σ1 hs
      simp only [Except.ok.injEq, Prod.mk.injEq] at h
      obtain ⟨rfl, rfl⟩ := h
      have A := ih _ _ _ hs
      exact ⟨A.le, A.nodup, A.range, A.labels⟩
  | label l s ih =>
    intro σ st σ' h
    simp only [parseStmt] at h
    split at h
    · cases h
    · rename_i s' σ1 hs
      simp only [Except.ok.injEq, Prod.mk.injEq] at h
      obtain ⟨rfl, rfl⟩ := h
      have A := ih _ _ _ hs
      have hle : σ.uniq + 1 ≤ σ1.uniq := A.le
      have hr : ∀ n ∈ defs s', σ.uniq + 1 ≤ n ∧ n < σ1.uniq := A.range
      refine ⟨by show σ.uniq ≤ σ1.uniq; omega, ?_, ?_, ?_⟩
      · simp only [defs, List.nodup_cons]
        exact ⟨fun hm => by have := hr _ hm; omega, A.nodup⟩
      · intro n hn
        show σ.uniq ≤ n ∧ n < σ1.uniq
        simp only [defs, List.mem_cons] at hn
        rcases hn with hn | hn
        · omega
        · have := hr n hn; omega
      · intro p hp
        simp only [List.mem_cons] at hp
        rcases hp with hp | hp
        · subst hp; exact Or.inr (by simp [defs])
        · rcases A.labels p hp with h | h
          · exact Or.inl h
          · exact Or.inr (by simp [defs, h])
  | switch_ w u k body ih =>
    intro σ st σ' h
    simp only [parseStmt] at h
    split at h
    · cases h
    · rename_i s' σ1 hs
      split at h
      · cases h
      · simp only [Except.ok.injEq, Prod.mk.injEq] at h
        obtain ⟨rfl, rfl⟩ := h
        have A := ih _ _ _ hs
        have hle : σ.uniq + 1 ≤ σ1.uniq := A.le
        have hr : ∀ n ∈ defs s', σ.uniq + 1 ≤ n ∧ n < σ1.uniq := A.range
        refine ⟨by show σ.uniq ≤ σ1.uniq; omega, ?_, ?_, ?_⟩
        · simp only [defs]
          rw [List.nodup_append]
          refine ⟨A.nodup, by simp, ?_⟩
          intro x hx y hy
          have := hr x hx
          simp at hy
          omega
        · intro n hn
          show σ.uniq ≤ n ∧ n < σ1.uniq
          simp only [defs, List.mem_append, List.mem_cons, List.not_mem_nil, or_false] at hn
          rcases hn with hn | hn
          · have := hr n hn; omega
          · omega
        · intro p hp
          rcases A.labels p hp with h | h
          · exact Or.inl h
          · exact Or.inr (by simp [defs, h])
  | case_ lo hi s ih =>
    intro σ st σ' h
    simp only [parseStmt] at h
    split at h
    · cases h
    · split at h
      · cases h
      · split at h
        · cases h
        · rename_i s' σ1 hs
          split at h
          · cases h
          · simp only [Except.ok.injEq, Prod.mk.injEq] at h
            obtain ⟨rfl, rfl⟩ := h
            have A := ih _ _ _ hs
            have hle : σ.uniq + 1 ≤ σ1.uniq := A.le
            have hr : ∀ n ∈ defs s', σ.uniq + 1 ≤ n ∧ n < σ1.uniq := A.range
            refine ⟨by show σ.uniq ≤ σ1.uniq; omega, ?_, ?_, ?_⟩
            · simp only [defs, List.nodup_cons]
              exact ⟨fun hm => by have := hr _ hm; omega, A.nodup⟩
            · intro n hn
              show σ.uniq ≤ n ∧ n < σ1.uniq
              simp only [defs, List.mem_cons] at hn
              rcases hn with hn | hn
              · omega
              · have := hr n hn; omega
            · intro p hp
              rcases A.labels p hp with h | h
              · exact Or.inl h
              · exact Or.inr (by simp [defs, h])
  | default_ s ih =>
    intro σ st σ' h
    simp only [parseStmt] at h
    split at h
    · cases h
    · split at h
      · cases h
      · rename_i s' σ1 hs
        split at h
        · cases h
        · simp only [Except.ok.injEq, Prod.mk.injEq] at h
          obtain ⟨rfl, rfl⟩ := h
          have A := ih _ _ _ hs
          have hle : σ.uniq + 1 ≤ σ1.uniq := A.le
          have hr : ∀ n ∈ defs s', σ.uniq + 1 ≤ n ∧ n < σ1.uniq := A.range
          refine ⟨by show σ.uniq ≤ σ1.uniq; omega, ?_, ?_, ?_⟩
          · simp only [defs, List.nodup_cons]
            exact ⟨fun hm => by have := hr _ hm; omega, A.nodup⟩
          · intro n hn
            show σ.uniq ≤ n ∧ n < σ1.uniq
            simp only [defs, List.mem_cons] at hn
            rcases hn with hn | hn
            · omega
            · have := hr n hn; omega
          · intro p hp
            rcases A.labels p hp with h | h
            · exact Or.inl h
            · exact Or.inr (by simp [defs, h])
end ChibiVerif.Ctl
