/-
The pp-number scan of the code-point lexer model (Model/Lex.lean `ppTake`, used by C19/C13/C18) is the scan translated from
tokenize.c (Gen/PpNumGen.lean), read on bytes: for every text, `ppTake` on the bytes after the first character takes exactly
the bytes the translated loop takes.  (A byte >= 0x80 ends the scan in both: it is no ASCII letter or digit, and neither is
the code point it belongs to.)
-/
import ChibiVerif.Lemmas.C11PpNumber
import ChibiVerif.Model.Lex

set_option linter.unusedSimpArgs false
set_option linter.unusedVariables false

namespace ChibiVerif.Lemmas.PpNumLex
open ChibiVerif.Gen.Literals
open ChibiVerif.Literals
open ChibiVerif.Spec.PpNumber
open ChibiVerif.Lemmas.Literals
open ChibiVerif.Lemmas.PpNum

theorem class_eq (c : Byte) :
    ChibiVerif.Gen.Lex.ppExpChars.contains c.toNat = isExp c ∧ ChibiVerif.Gen.Lex.ppSignChars.contains c.toNat = isSign c ∧
    (ChibiVerif.LexChar.isAlnum c.toNat || c.toNat == 46) = cont c := by
  revert c; apply forall_byte; decide +kernel

theorem headIs_sign (t : List Byte) :
    ChibiVerif.Lex.headIs (fun d => ChibiVerif.Gen.Lex.ppSignChars.contains d) (t.map BitVec.toNat) =
      match t with
      | [] => false
      | d :: _ => isSign d := by
  cases t with
  | nil => rfl
  | cons d t => simp only [List.map_cons, ChibiVerif.Lex.headIs, (class_eq d).2.1]

/-- `ppTake` on the bytes of a text = the greedy scan `scanLen` -/
theorem ppTake_eq : ∀ t : List Byte,
    ChibiVerif.Lex.ppTake (t.map BitVec.toNat) = ((t.take (scanLen t)).map BitVec.toNat, (t.drop (scanLen t)).map BitVec.toNat) := by
  intro t
  induction t using scanLen.induct with
  | case1 => simp [ChibiVerif.Lex.ppTake, scanLen]
  | case2 c hc =>
    have h3 := (class_eq c).2.2
    rw [hc] at h3
    simp only [List.map_cons, List.map_nil, ChibiVerif.Lex.ppTake, ChibiVerif.Lex.headIs, Bool.and_false, Bool.false_eq_true,
      if_false, h3, if_true, scanLen, hc, List.take_succ_cons, List.take_zero, List.drop_succ_cons, List.drop_zero]
  | case3 c hc =>
    have h3 := (class_eq c).2.2
    have hc' : cont c = false := by simpa using hc
    rw [hc'] at h3
    simp only [List.map_cons, List.map_nil, ChibiVerif.Lex.ppTake, ChibiVerif.Lex.headIs, Bool.and_false, Bool.false_eq_true,
      if_false, h3, scanLen, hc, List.take_zero, List.drop_zero]
  | case4 c d t hcd ih =>
    simp only [Bool.and_eq_true] at hcd
    simp only [List.map_cons, ChibiVerif.Lex.ppTake, ChibiVerif.Lex.headIs, (class_eq c).1, (class_eq d).2.1, hcd.1, hcd.2,
      Bool.and_self, if_true, scanLen]
    rw [ih]
    have : 2 + scanLen t = scanLen t + 2 := Nat.add_comm _ _
    rw [this]; rfl
  | case5 c d t hcd hc ih =>
    have h3 := (class_eq c).2.2
    rw [hc] at h3
    have hf : (isExp c && isSign d) = false := by simpa using hcd
    simp only [List.map_cons, ChibiVerif.Lex.ppTake, ChibiVerif.Lex.headIs, (class_eq c).1, (class_eq d).2.1, hf,
      Bool.false_eq_true, if_false, h3, if_true, scanLen, hc]
    have e : d.toNat :: List.map BitVec.toNat t = List.map BitVec.toNat (d :: t) := rfl
    rw [e, ih]
    have : 1 + scanLen (d :: t) = scanLen (d :: t) + 1 := Nat.add_comm _ _
    rw [this]; rfl
  | case6 c d t hcd hc =>
    have h3 := (class_eq c).2.2
    have hc' : cont c = false := by simpa using hc
    rw [hc'] at h3
    have hf : (isExp c && isSign d) = false := by simpa using hcd
    simp only [List.map_cons, ChibiVerif.Lex.ppTake, ChibiVerif.Lex.headIs, (class_eq c).1, (class_eq d).2.1, hf,
      Bool.false_eq_true, if_false, h3, scanLen, hc, List.take_zero, List.drop_zero, List.map_nil, List.map_cons]

/-- the translated scan ends where `ppTake`, started after the first character, stops -/
theorem ppNumberEnd_lex (p : List Byte) (start : Nat) :
    ChibiVerif.Gen.PpNum.ppNumberEnd p start =
      start + 1 + (ChibiVerif.Lex.ppTake ((p.drop (start + 1)).map BitVec.toNat)).1.length := by
  rw [end_eq, ppTake_eq]
  simp only [List.length_map, List.length_take]
  have := scanLen_le (p.drop (start + 1))
  omega

end ChibiVerif.Lemmas.PpNumLex
