/-
C03 — where a control transfer of the abstract machine arrives in the code: if `Spec.Ctl.find`
returns the statement following a label (named label, `case`, `default`) together with its
continuation, then the unique label of that node is defined in the code, and the configuration
`find` returns is matched at the position after it.
-/
import ChibiVerif.Lemmas.StmtGotoDefs

set_option linter.unusedSimpArgs false
set_option linter.unusedVariables false
namespace ChibiVerif.Ctl
open ChibiVerif.Spec.Ctl

/-- `find` fails only if the target designates no label node -/
theorem find_none (t : Target) (st : Stmt) : ∀ k, find t (erase st) k = none → hitLabels t st = [] := by
  induction st with
  | seq a b iha ihb =>
    intro k h
    simp only [erase, find] at h
    cases ha : find t (erase a) (.seq (erase b) k) with
    | some r => rw [ha] at h; cases h
    | none =>
      rw [ha] at h
      simp only [hitLabels, iha _ ha, ihb _ h, List.append_nil]
  | block s ih => intro k h; exact ih k h
  | ifte c a b iha ihb =>
    intro k h
    simp only [erase, find] at h
    cases ha : find t (erase a) k with
    | some r => rw [ha] at h; cases h
    | none =>
      rw [ha] at h
      simp only [hitLabels, iha _ ha, ihb _ h, List.append_nil]
  | for_ i cnd inc brk cont body ih => intro k h; exact ih _ h
  | doWhile brk cont body c ih => intro k h; exact ih _ h
  | switch_ w u key cs d brk body ih =>
    intro k h
    simp only [erase, find] at h
    simp only [hitLabels]
    by_cases he : t.enters = true
    · simp only [he, if_true] at h ⊢; exact ih _ h
    · simp only [he]; rfl
  | case_ l lo hi s ih =>
    intro k h
    simp only [erase, find] at h
    simp only [hitLabels]
    by_cases hh : t.hitCase lo hi = true
    · simp [hh] at h
    · simp only [hh] at h ⊢; exact ih _ h
  | default_ l s ih =>
    intro k h
    simp only [erase, find] at h
    simp only [hitLabels]
    by_cases hh : t.hitDflt = true
    · simp [hh] at h
    · simp only [hh] at h ⊢; exact ih _ h
  | label l u s ih =>
    intro k h
    simp only [erase, find] at h
    simp only [hitLabels]
    by_cases hh : t.hitLabel l = true
    · simp [hh] at h
    · simp only [hh] at h ⊢; exact ih _ h
  | _ => intro k h; rfl

section
variable {ω : Nat → Val} {P : Prog} {fb : SStmt} {R : Nat → Nat → Prop} {V : Prop}

theorem find_entry (hu : UniqueLabels P) (t : Target) (st : Stmt) :
    ∀ (c p : Nat) (k : Cont) (b ct : Option Nat) (s' : SStmt) (k' : Cont),
      CodeAt P p (genStmt st c).1 → Good fb R V b ct st →
      MatchK ω P fb R V k (p + (genStmt st c).1.length) b ct →
      find t (erase st) k = some (s', k') →
      ∃ (u : Nat) (rest : List Nat) (q : Nat), hitLabels t st = u :: rest ∧ P[q]? = some (.label (.u u)) ∧
        MatchS ω P fb R V s' k' (q + 1) := by
  induction st with
  | skip => intro c p k b ct s' k' _ _ _ h; simp [erase, find] at h
  | marker m => intro c p k b ct s' k' _ _ _ h; simp [erase, find] at h
  | ret => intro c p k b ct s' k' _ _ _ h; simp [erase, find] at h
  | gotoN l => intro c p k b ct s' k' _ _ _ h; simp [erase, find] at h
  | gotoValN l => intro c p k b ct s' k' _ _ _ h; simp [erase, find] at h
  | gotoVal l u => intro c p k b ct s' k' _ _ _ h; simp [erase, find] at h
  | goto_ kind u => intro c p k b ct s' k' _ _ _ h; cases kind <;> simp [erase, find] at h
  | block s ih =>
    intro c p k b ct s' k' hcode hg hk h
    exact ih c p k b ct s' k' hcode hg.block hk h
  | seq x y ihx ihy =>
    intro c p k b ct s' k' hcode hg hk h
    simp only [genStmt, List.length_append] at hcode hk
    simp only [erase, find] at h
    simp only [hitLabels]
    cases hx : find t (erase x) (.seq (erase y) k) with
    | some r =>
      rw [hx] at h
      simp only [Option.some.injEq] at h
      subst h
      have hk' : MatchK ω P fb R V (.seq (erase y) k) (p + (genStmt x c).1.length) b ct :=
        .seq (Silent.refl ω P _) rfl hcode.right hg.seq.2 (by rw [Nat.add_assoc]; exact hk)
      obtain ⟨u, rest, q, h1, h2, h3⟩ := ihx c p _ b ct s' k' hcode.left hg.seq.1 hk' hx
      exact ⟨u, rest ++ hitLabels t y, q, by rw [h1]; rfl, h2, h3⟩
    | none =>
      rw [hx] at h
      obtain ⟨u, rest, q, h1, h2, h3⟩ := ihy (genStmt x c).2 (p + (genStmt x c).1.length) k b ct s' k' hcode.right hg.seq.2
        (by rw [Nat.add_assoc]; exact hk) h
      exact ⟨u, rest, q, by rw [find_none t x _ hx, h1]; rfl, h2, h3⟩
  | ifte cnd x y ihx ihy =>
    intro c p k b ct s' k' hcode hg hk h
    obtain ⟨hT, hX, hJ, hEl, hY, hEnd, hlen⟩ := if_layout hcode
    rw [hlen] at hk
    simp only [erase, find] at h
    simp only [hitLabels]
    have hTail : Silent ω P (p + 3 + (genStmt x (c + 1)).1.length + 2 + (genStmt y (genStmt x (c + 1)).2).1.length)
        (p + (3 + (genStmt x (c + 1)).1.length + 2 + (genStmt y (genStmt x (c + 1)).2).1.length + 1)) := by
      have := Silent.label (ω := ω) hEnd
      rwa [show p + 3 + (genStmt x (c + 1)).1.length + 2 + (genStmt y (genStmt x (c + 1)).2).1.length + 1 =
        p + (3 + (genStmt x (c + 1)).1.length + 2 + (genStmt y (genStmt x (c + 1)).2).1.length + 1) by omega] at this
    cases hx : find t (erase x) k with
    | some r =>
      rw [hx] at h
      simp only [Option.some.injEq] at h
      subst h
      have hk' : MatchK ω P fb R V k (p + 3 + (genStmt x (c + 1)).1.length) b ct :=
        hk.prepend ((Silent.jmp hJ (findLabel_of_unique hu hEnd)).trans hTail)
      obtain ⟨u, rest, q, h1, h2, h3⟩ := ihx (c + 1) (p + 3) k b ct s' k' hX hg.ifte.1 hk' hx
      exact ⟨u, rest ++ hitLabels t y, q, by rw [h1]; rfl, h2, h3⟩
    | none =>
      rw [hx] at h
      obtain ⟨u, rest, q, h1, h2, h3⟩ := ihy (genStmt x (c + 1)).2 (p + 3 + (genStmt x (c + 1)).1.length + 2) k b ct s' k' hY
        hg.ifte.2 (hk.prepend hTail) h
      exact ⟨u, rest, q, by rw [find_none t x _ hx, h1]; rfl, h2, h3⟩
  | for_ i cnd inc brk cont body ih =>
    intro c p k b ct s' k' hcode hg hk h
    simp only [erase, find] at h
    simp only [hitLabels]
    -- the code of the loop proper (after the init call, if any)
    have hloop : ∃ pf, CodeAt P pf (genStmt (.for_ none cnd inc brk cont body) c).1 ∧
        pf + (genStmt (.for_ none cnd inc brk cont body) c).1.length =
          p + (genStmt (.for_ i cnd inc brk cont body) c).1.length := by
      cases i with
      | none => exact ⟨p, hcode, rfl⟩
      | some i =>
        rw [gen_for_some] at hcode ⊢
        refine ⟨p + 1, hcode.right, ?_⟩
        simp only [List.length_append, List.length_singleton]; omega
    obtain ⟨pf, hcf, hlf⟩ := hloop
    obtain ⟨_, _, hX, _, _, _, _, _⟩ := for_layout hcf
    rw [← hlf] at hk
    have hk' : MatchK ω P fb R V (.forK cnd inc (erase body) k)
        (pf + 1 + (condCode cnd brk).length + (genStmt body (c + 1)).1.length) (some brk) (some cont) :=
      .forK (Silent.refl ω P _) rfl hcf rfl hg.for_ hk
    exact ih (c + 1) _ _ _ _ s' k' hX hg.for_ hk' h
  | doWhile brk cont body cnd ih =>
    intro c p k b ct s' k' hcode hg hk h
    simp only [erase, find] at h
    simp only [hitLabels]
    obtain ⟨_, hX, _, _, _, _⟩ := do_layout hcode
    have hk' : MatchK ω P fb R V (.doK (erase body) cnd k) (p + 1 + (genStmt body (c + 1)).1.length) (some brk) (some cont) :=
      .doK (Silent.refl ω P _) rfl hcode rfl hg.doWhile hk
    exact ih (c + 1) _ _ _ _ s' k' hX hg.doWhile hk' h
  | switch_ w u key cs d brk body ih =>
    intro c p k b ct s' k' hcode hg hk h
    simp only [erase, find] at h
    simp only [hitLabels]
    by_cases he : t.enters = true
    · simp only [he, if_true] at h ⊢
      obtain ⟨_, hX, hB, hlen⟩ := switch_layout hcode
      rw [hlen] at hk
      have hk' : MatchK ω P fb R V (.swK k) (p + (1 + (ladder w cs d brk).length) + (genStmt body c).1.length) (some brk) ct :=
        .swK (Silent.refl ω P _) hB (by
          rw [show p + (1 + (ladder w cs d brk).length) + (genStmt body c).1.length + 1 =
            p + (1 + (ladder w cs d brk).length + (genStmt body c).1.length + 1) by omega]
          exact hk)
      exact ih c _ _ _ _ s' k' hX hg.switch_ hk' h
    · simp [he] at h
  | case_ l lo hi s ih =>
    intro c p k b ct s' k' hcode hg hk h
    simp only [genStmt, List.length_cons] at hcode hk
    simp only [erase, find] at h
    simp only [hitLabels]
    have hk1 : MatchK ω P fb R V k (p + 1 + (genStmt s c).1.length) b ct := by
      rw [show p + 1 + (genStmt s c).1.length = p + ((genStmt s c).1.length + 1) by omega]; exact hk
    by_cases hh : t.hitCase lo hi = true
    · simp only [hh, if_true, Option.some.injEq, Prod.mk.injEq] at h ⊢
      obtain ⟨rfl, rfl⟩ := h
      exact ⟨l, _, p, rfl, hcode.head, s, c, b, ct, rfl, hcode.tail, hg.case_, hk1⟩
    · simp only [hh] at h ⊢
      exact ih c (p + 1) k b ct s' k' hcode.tail hg.case_ hk1 h
  | default_ l s ih =>
    intro c p k b ct s' k' hcode hg hk h
    simp only [genStmt, List.length_cons] at hcode hk
    simp only [erase, find] at h
    simp only [hitLabels]
    have hk1 : MatchK ω P fb R V k (p + 1 + (genStmt s c).1.length) b ct := by
      rw [show p + 1 + (genStmt s c).1.length = p + ((genStmt s c).1.length + 1) by omega]; exact hk
    by_cases hh : t.hitDflt = true
    · simp only [hh, if_true, Option.some.injEq, Prod.mk.injEq] at h ⊢
      obtain ⟨rfl, rfl⟩ := h
      exact ⟨l, _, p, rfl, hcode.head, s, c, b, ct, rfl, hcode.tail, hg.default_, hk1⟩
    · simp only [hh] at h ⊢
      exact ih c (p + 1) k b ct s' k' hcode.tail hg.default_ hk1 h
  | label l u s ih =>
    intro c p k b ct s' k' hcode hg hk h
    simp only [genStmt, List.length_cons] at hcode hk
    simp only [erase, find] at h
    simp only [hitLabels]
    have hk1 : MatchK ω P fb R V k (p + 1 + (genStmt s c).1.length) b ct := by
      rw [show p + 1 + (genStmt s c).1.length = p + ((genStmt s c).1.length + 1) by omega]; exact hk
    by_cases hh : t.hitLabel l = true
    · simp only [hh, if_true, Option.some.injEq, Prod.mk.injEq] at h ⊢
      obtain ⟨rfl, rfl⟩ := h
      exact ⟨u, _, p, rfl, hcode.head, s, c, b, ct, rfl, hcode.tail, hg.label, hk1⟩
    · simp only [hh] at h ⊢
      exact ih c (p + 1) k b ct s' k' hcode.tail hg.label hk1 h

end

end ChibiVerif.Ctl
