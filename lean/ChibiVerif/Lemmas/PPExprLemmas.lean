/-
Helper lemmas for C10, controlling expressions (Model/PPExpr.lean):
* `evalN_narrow_eq`  chibicc's narrowing, wrapping evaluation = the C11 evaluation whenever C11 defines
                     the outcome and no `int`-typed intermediate result leaves the 32-bit range
                     (outside the region of C10-ppif-int-result-shift)
* token layer: `readDefined` / `identToZero`
-/
import ChibiVerif.Model.PPExpr
namespace ChibiVerif.PPExpr
open ChibiVerif.CondIncl

/-- where C11 defines the result (or asks for the division-by-zero diagnostic), wrap-around arithmetic gives it -/
theorem arith_wrap_eq (op : BinOp) (a b : Val) (h : arith true op a b ≠ .error .undefinedBeh) :
    arith false op a b = arith true op a b := by
  cases op <;> simp only [arith, Bool.not_false, Bool.not_true, Bool.true_or, Bool.false_or, if_true, Bool.false_and, Bool.true_and] at h ⊢
  all_goals try rfl
  all_goals (repeat' split) <;> simp_all

theorem unop_wrap_eq (op : UnOp) (v : Val) (h : unop true op v ≠ .error .undefinedBeh) :
    unop false op v = unop true op v := by
  cases op <;> simp only [unop, Bool.not_false, Bool.not_true, Bool.true_or, Bool.false_or, if_true] at h ⊢
  split <;> simp_all

theorem fin_eq (ty : CTy) (r : Except PPErr Val) (fl : Bool) (h : (fin false ty r fl).2 = false) :
    fin true ty r fl = fin false ty r fl := by
  cases r with
  | error x => rfl
  | ok v =>
    simp only [fin, narrowAt] at h ⊢
    by_cases hty : ty = .int
    · simp only [hty, if_true, Bool.or_eq_false_iff] at h ⊢
      obtain ⟨h1, h2⟩ := h
      have hb : (v.bits.setWidth 32).signExtend 64 = v.bits := by simpa using h2
      simp [hb]
    · simp [hty]

theorem fin_flag_left (n : Bool) (ty : CTy) (r : Except PPErr Val) (fl : Bool) (h : (fin n ty r fl).2 = false) : fl = false := by
  cases r with
  | error x => simpa [fin] using h
  | ok v => simp only [fin, Bool.or_eq_false_iff] at h; exact h.1

theorem fin_fst_error (n : Bool) (ty : CTy) (x : PPErr) (fl : Bool) : (fin n ty (.error x) fl).1 = .error x := rfl

theorem fin_ne_ub (ty : CTy) (r : Except PPErr Val) (fl : Bool) (h : (fin false ty r fl).1 ≠ .error .undefinedBeh) :
    r ≠ .error .undefinedBeh := by
  intro hr; subst hr; exact h rfl

/-- Where C11 6.10.1p4 defines the outcome (a value, or the division-by-zero diagnostic) and no
    `int`-typed intermediate result leaves the 32-bit range, chibicc's narrowing, wrapping
    evaluation computes the same thing. -/
theorem evalN_narrow_eq (defs : Defs Body) : ∀ (f : Nat) (h : List String) (e : Expr),
    (evalN false defs f h e).2 = false → (evalN false defs f h e).1 ≠ .error .undefinedBeh →
    evalN true defs f h e = evalN false defs f h e := by
  intro f
  induction f with
  | zero => intro h e _ _; rfl
  | succ f ih =>
    intro h e hfl hne
    cases e with
    | num v u => rfl
    | defined n => rfl
    | ident n =>
      simp only [evalN] at hfl hne ⊢
      by_cases hh : h.contains n = true
      · rw [if_pos hh, if_pos hh]
      · rw [if_neg hh] at hfl hne
        rw [if_neg hh, if_neg hh]
        cases hl : defs.lookup n with
        | none => rfl
        | some b =>
          cases b with
          | none => rfl
          | some e' =>
            rw [hl] at hfl hne
            exact ih (n :: h) e' hfl hne
    | un op a =>
      simp only [evalN, Bool.not_false, Bool.not_true] at hfl hne ⊢
      cases hA : evalN false defs f h a with
      | mk ra fa =>
        rw [hA] at hfl hne
        cases ra with
        | error x =>
          simp only at hfl hne
          rw [ih h a (by rw [hA]; exact hfl) (by rw [hA]; exact hne), hA]
        | ok v =>
          simp only at hfl hne
          have hfa := fin_flag_left _ _ _ _ hfl
          rw [ih h a (by rw [hA]; exact hfa) (by rw [hA]; simp), hA]
          simp only
          rw [unop_wrap_eq op v (fin_ne_ub _ _ _ hne)]
          exact fin_eq _ _ _ hfl
    | cond c a b =>
      simp only [evalN] at hfl hne ⊢
      cases hC : evalN false defs f h c with
      | mk rc fc =>
        rw [hC] at hfl hne
        cases rc with
        | error x =>
          simp only at hfl hne
          rw [ih h c (by rw [hC]; exact hfl) (by rw [hC]; exact hne), hC]
        | ok vc =>
          simp only at hfl hne
          cases hS : (if vc.truth = true then evalN false defs f h a else evalN false defs f h b) with
          | mk rs fs =>
            rw [hS] at hfl hne
            have hfs : (fc || fs) = false := by
              cases rs with
              | error x => exact hfl
              | ok v => exact fin_flag_left _ _ _ _ hfl
            simp only [Bool.or_eq_false_iff] at hfs
            have hrs : rs ≠ .error .undefinedBeh := by
              cases rs with
              | error x => simpa using hne
              | ok v => simp
            have hST : (if vc.truth = true then evalN true defs f h a else evalN true defs f h b) = (rs, fs) := by
              cases ht : vc.truth with
              | true =>
                simp only [ht, if_true] at hS ⊢
                rw [ih h a (by rw [hS]; exact hfs.2) (by rw [hS]; exact hrs), hS]
              | false =>
                simp only [ht, Bool.false_eq_true, if_false] at hS ⊢
                rw [ih h b (by rw [hS]; exact hfs.2) (by rw [hS]; exact hrs), hS]
            rw [ih h c (by rw [hC]; exact hfs.1) (by rw [hC]; simp), hC]
            simp only
            rw [hST, hS]
            cases rs with
            | error x => rfl
            | ok v => exact fin_eq _ _ _ hfl
    | bin op a b =>
      have hgen : ∀ (hop : op ≠ .land) (hop2 : op ≠ .lor),
          evalN true defs (f+1) h (.bin op a b) = evalN false defs (f+1) h (.bin op a b) := by
        intro hop hop2
        have e1 : ∀ nb, evalN nb defs (f+1) h (.bin op a b) =
            (match evalN nb defs f h a with
             | (.error x, fl) => (.error x, fl)
             | (.ok va, fl) =>
               match evalN nb defs f h b with
               | (.error x, fl2) => (.error x, fl || fl2)
               | (.ok vb, fl2) => fin nb (ctyOf defs (f+1) h (.bin op a b)) (arith (!nb) op va vb) (fl || fl2)) := by
          intro nb; cases op <;> first | rfl | exact absurd rfl hop | exact absurd rfl hop2
        rw [e1 false] at hfl hne
        rw [e1 true, e1 false]
        simp only [Bool.not_false, Bool.not_true] at hfl hne ⊢
        cases hA : evalN false defs f h a with
        | mk ra fa =>
          rw [hA] at hfl hne
          cases ra with
          | error x =>
            simp only at hfl hne
            rw [ih h a (by rw [hA]; exact hfl) (by rw [hA]; exact hne), hA]
          | ok va =>
            simp only at hfl hne
            cases hB : evalN false defs f h b with
            | mk rb fb =>
              rw [hB] at hfl hne
              have hfl2 : (fa || fb) = false := by
                cases rb with
                | error x => exact hfl
                | ok vb => exact fin_flag_left _ _ _ _ hfl
              have hrb : rb ≠ .error .undefinedBeh := by
                cases rb with
                | error x => simpa using hne
                | ok v => simp
              simp only [Bool.or_eq_false_iff] at hfl2
              rw [ih h a (by rw [hA]; exact hfl2.1) (by rw [hA]; simp), hA]
              simp only
              rw [ih h b (by rw [hB]; exact hfl2.2) (by rw [hB]; exact hrb), hB]
              cases rb with
              | error x => rfl
              | ok vb =>
                simp only at hfl hne ⊢
                rw [arith_wrap_eq op va vb (fin_ne_ub _ _ _ hne)]
                exact fin_eq _ _ _ hfl
      have hlog : ∀ (isAnd : Bool), op = (if isAnd then .land else .lor) →
          evalN true defs (f+1) h (.bin op a b) = evalN false defs (f+1) h (.bin op a b) := by
        intro isAnd hop
        have e1 : ∀ nb, evalN nb defs (f+1) h (.bin op a b) =
            (match evalN nb defs f h a with
             | (.error x, fl) => (.error x, fl)
             | (.ok va, fl) =>
               if (if isAnd then !va.truth else va.truth) then (.ok (.ofBool (!isAnd)), fl)
               else match evalN nb defs f h b with
                 | (.error x, fl2) => (.error x, fl || fl2)
                 | (.ok vb, fl2) => (.ok (.ofBool vb.truth), fl || fl2)) := by
          intro nb; subst hop; cases isAnd <;> rfl
        rw [e1 false] at hfl hne
        rw [e1 true, e1 false]
        cases hA : evalN false defs f h a with
        | mk ra fa =>
          rw [hA] at hfl hne
          cases ra with
          | error x =>
            simp only at hfl hne
            rw [ih h a (by rw [hA]; exact hfl) (by rw [hA]; exact hne), hA]
          | ok va =>
            simp only at hfl hne
            by_cases hs : (if isAnd then !va.truth else va.truth) = true
            · rw [if_pos hs] at hfl
              simp only at hfl
              rw [ih h a (by rw [hA]; exact hfl) (by rw [hA]; simp), hA]
              simp only [if_pos hs]
            · rw [if_neg hs] at hfl hne
              cases hB : evalN false defs f h b with
              | mk rb fb =>
                rw [hB] at hfl hne
                have hfl2 : (fa || fb) = false := by cases rb <;> exact hfl
                have hrb : rb ≠ .error .undefinedBeh := by
                  cases rb with
                  | error x => simpa using hne
                  | ok v => simp
                simp only [Bool.or_eq_false_iff] at hfl2
                rw [ih h a (by rw [hA]; exact hfl2.1) (by rw [hA]; simp), hA]
                simp only
                rw [if_neg hs, ih h b (by rw [hB]; exact hfl2.2) (by rw [hB]; exact hrb), hB, if_neg hs]
      by_cases h1 : op = .land
      · exact hlog true (by simpa using h1)
      · by_cases h2 : op = .lor
        · exact hlog false (by simpa using h2)
        · exact hgen h1 h2

/-- C11 leaves the value of the controlling expression undefined (signed overflow, shift count out
    of range, …): nothing is required of the implementation -/
def undefinedByC11 (defs : Defs Body) (e : Expr) : Bool :=
  decide ((evalN false defs FUEL [] e).1 = .error .undefinedBeh)

theorem evC_eq_ev_of_no_overflow (defs : Defs Body) (e : Expr) (h : intResultOverflows defs e = false)
    (hu : undefinedByC11 defs e = false) :
    evC e defs = ev e defs := by
  unfold evC ev evalTopC evalTop
  rw [evalN_narrow_eq defs FUEL [] e h (by simpa [undefinedByC11] using hu)]

-- ------------------------------------------------------------------ token layer

def Tok.isIdent : Tok → Bool
  | .ident _ => true
  | _ => false

theorem identToZero_no_ident (ts : List Tok) : ∀ t ∈ identToZero ts, t.isIdent = false := by
  intro t ht
  simp only [identToZero, List.mem_map] at ht
  obtain ⟨a, _, rfl⟩ := ht
  cases a <;> rfl

theorem identToZero_length (ts : List Tok) : (identToZero ts).length = ts.length := by
  simp [identToZero]

/-- a line without the word `defined` is left alone -/
theorem readDefined_no_defined (isDef : String → Bool) (ts : List Tok)
    (h : ∀ t ∈ ts, t ≠ .ident "defined") : readDefined isDef ts = .ok ts := by
  induction ts with
  | nil => rfl
  | cons t ts ih =>
    have ht : t ≠ .ident "defined" := h t (by simp)
    have ih' := ih (fun t' ht' => h t' (by simp [ht']))
    unfold readDefined
    split <;> simp_all

-- ------------------------------------------------------------------ closed expressions

/-- no identifier and no `defined`: the value cannot depend on the macro table -/
def Expr.closed : Expr → Bool
  | .num _ _ => true
  | .ident _ => false
  | .defined _ => false
  | .un _ e => e.closed
  | .bin _ a b => a.closed && b.closed
  | .cond c a b => c.closed && a.closed && b.closed

theorem ctyOf_closed (d d' : Defs Body) : ∀ (f : Nat) (h : List String) (e : Expr), e.closed = true →
    ctyOf d f h e = ctyOf d' f h e := by
  intro f
  induction f with
  | zero => intro h e _; rfl
  | succ f ih =>
    intro h e hc
    cases e with
    | num v u => rfl
    | ident n => simp [Expr.closed] at hc
    | defined n => rfl
    | un op a =>
      simp only [Expr.closed] at hc
      cases op <;> simp only [ctyOf, ih h a hc]
    | bin op a b =>
      simp only [Expr.closed, Bool.and_eq_true] at hc
      cases op <;> simp only [ctyOf, ih h a hc.1, ih h b hc.2]
    | cond c a b =>
      simp only [Expr.closed, Bool.and_eq_true] at hc
      simp only [ctyOf, ih h a hc.1.2, ih h b hc.2]

theorem evalN_closed (nb : Bool) (d d' : Defs Body) : ∀ (f : Nat) (h : List String) (e : Expr), e.closed = true →
    evalN nb d f h e = evalN nb d' f h e := by
  intro f
  induction f with
  | zero => intro h e _; rfl
  | succ f ih =>
    intro h e hc
    cases e with
    | num v u => rfl
    | ident n => simp [Expr.closed] at hc
    | defined n => simp [Expr.closed] at hc
    | un op a =>
      have hc' : a.closed = true := by simpa [Expr.closed] using hc
      simp only [evalN, ih h a hc', ctyOf_closed d d' (f+1) h (.un op a) hc]
    | bin op a b =>
      have hc' : a.closed = true ∧ b.closed = true := by simpa [Expr.closed] using hc
      cases op <;> simp only [evalN, ih h a hc'.1, ih h b hc'.2, ctyOf_closed d d' (f+1) h (.bin _ a b) hc]
    | cond c a b =>
      have hc' : (c.closed = true ∧ a.closed = true) ∧ b.closed = true := by simpa [Expr.closed] using hc
      simp only [evalN, ih h c hc'.1.1, ih h a hc'.1.2, ih h b hc'.2, ctyOf_closed d d' (f+1) h (.cond c a b) hc]

theorem intResultOverflows_closed (d : Defs Body) (e : Expr) (hc : e.closed = true) :
    intResultOverflows d e = intResultOverflows [] e := by
  unfold intResultOverflows; rw [evalN_closed false d [] FUEL [] e hc]

theorem undefinedByC11_closed (d : Defs Body) (e : Expr) (hc : e.closed = true) :
    undefinedByC11 d e = undefinedByC11 [] e := by
  unfold undefinedByC11; rw [evalN_closed false d [] FUEL [] e hc]


-- ------------------------------------------------------------------ a static criterion for "outside the region"

def BinOp.isTruth : BinOp → Bool
  | .lt | .le | .gt | .ge | .eq | .ne | .land | .lor => true
  | _ => false

/-- static criterion (chibicc's own typing, no evaluation): the only nodes typed `int` are the results of
    `< <= > >= == != ! && ||` themselves – every unary `- + ~`, every arithmetic, bitwise and shift operator and
    every `?:` has type long or unsigned long.  (A comparison result used as an operand of arithmetic is converted to
    the other operand's type; it is `(a < b) << n`, `-(a < b)`, `(a < b) + (c < d)`, `c ? (a < b) : (c < d)` that are typed `int`.) -/
def intArithFree (defs : Defs Body) : Nat → List String → Expr → Bool
  | 0, _, _ => true
  | _+1, _, .num _ _ => true
  | f+1, hide, .ident n =>
    if hide.contains n then true else
    match defs.lookup n with
    | some (some e) => intArithFree defs f (n :: hide) e
    | _ => true
  | _+1, _, .defined _ => true
  | f+1, h, .un .lnot e => intArithFree defs f h e
  | f+1, h, .un op e => intArithFree defs f h e && (ctyOf defs (f+1) h (.un op e) != .int)
  | f+1, h, .bin op a b =>
    intArithFree defs f h a && intArithFree defs f h b && (op.isTruth || (ctyOf defs (f+1) h (.bin op a b) != .int))
  | f+1, h, .cond c a b =>
    intArithFree defs f h c && intArithFree defs f h a && intArithFree defs f h b && (ctyOf defs (f+1) h (.cond c a b) != .int)

theorem narrowAt_ofBool (ty : CTy) (b : Bool) : (narrowAt false ty (.ofBool b)).2 = false := by
  cases b <;> cases ty <;> decide

theorem narrowAt_notInt (ty : CTy) (v : Val) (h : (ty != .int) = true) : (narrowAt false ty v).2 = false := by
  have : ty ≠ .int := by simpa using h
  simp [narrowAt, this]

theorem fin_flag_notInt (ty : CTy) (r : Except PPErr Val) (fl : Bool) (h : (ty != .int) = true) : (fin false ty r fl).2 = fl := by
  cases r with
  | error x => rfl
  | ok v => simp [fin, narrowAt_notInt ty v h]

theorem arith_truth (op : BinOp) (a b : Val) (hop : op.isTruth = true) (hl : op ≠ .land) (hr : op ≠ .lor) :
    ∃ t, arith true op a b = .ok (.ofBool t) := by
  cases op <;> simp [BinOp.isTruth] at hop hl hr <;> exact ⟨_, rfl⟩

/-- outside the static criterion's complement nothing is narrowed: the flag of the known finding stays clear -/
theorem intArithFree_flag (defs : Defs Body) : ∀ (f : Nat) (h : List String) (e : Expr),
    intArithFree defs f h e = true → (evalN false defs f h e).2 = false := by
  intro f
  induction f with
  | zero => intro h e _; rfl
  | succ f ih =>
    intro h e hs
    cases e with
    | num v u => rfl
    | defined n => rfl
    | ident n =>
      simp only [intArithFree] at hs
      simp only [evalN]
      by_cases hh : h.contains n = true
      · rw [if_pos hh]
      · rw [if_neg hh] at hs ⊢
        cases hl : defs.lookup n with
        | none => rfl
        | some b =>
          cases b with
          | none => rfl
          | some e' => rw [hl] at hs; exact ih (n :: h) e' hs
    | un op a =>
      have ha : intArithFree defs f h a = true := by
        cases op <;> simp only [intArithFree, Bool.and_eq_true] at hs <;> first | exact hs.1 | exact hs
      have iha := ih h a ha
      simp only [evalN, Bool.not_false]
      cases hA : evalN false defs f h a with
      | mk ra fa =>
        rw [hA] at iha; simp only at iha; subst iha
        cases ra with
        | error x => rfl
        | ok v =>
          simp only
          cases op with
          | lnot =>
            simp only [unop, fin]
            rw [narrowAt_ofBool]; rfl
          | neg => simp only [intArithFree, Bool.and_eq_true] at hs; exact fin_flag_notInt _ _ _ hs.2
          | plus => simp only [intArithFree, Bool.and_eq_true] at hs; exact fin_flag_notInt _ _ _ hs.2
          | bnot => simp only [intArithFree, Bool.and_eq_true] at hs; exact fin_flag_notInt _ _ _ hs.2
    | cond c a b =>
      simp only [intArithFree, Bool.and_eq_true] at hs
      obtain ⟨⟨⟨hc, ha⟩, hb⟩, hty⟩ := hs
      have ihc := ih h c hc
      have iha := ih h a ha
      have ihb := ih h b hb
      simp only [evalN]
      cases hC : evalN false defs f h c with
      | mk rc fc =>
        rw [hC] at ihc; simp only at ihc; subst ihc
        cases rc with
        | error x => rfl
        | ok vc =>
          simp only
          cases hS : (if vc.truth = true then evalN false defs f h a else evalN false defs f h b) with
          | mk rs fs =>
            have hfs : fs = false := by
              cases ht : vc.truth with
              | true => simp only [ht, if_true] at hS; rw [hS] at iha; exact iha
              | false => simp only [ht, Bool.false_eq_true, if_false] at hS; rw [hS] at ihb; exact ihb
            subst hfs
            cases rs with
            | error x => rfl
            | ok v => simp only; rw [fin_flag_notInt _ _ _ hty]; rfl
    | bin op a b =>
      simp only [intArithFree, Bool.and_eq_true] at hs
      obtain ⟨⟨ha, hb⟩, hty⟩ := hs
      have iha := ih h a ha
      have ihb := ih h b hb
      by_cases h1 : op = .land
      · subst h1
        simp only [evalN]
        cases hA : evalN false defs f h a with
        | mk ra fa =>
          rw [hA] at iha; simp only at iha; subst iha
          cases ra with
          | error x => rfl
          | ok va =>
            simp only
            split
            · rfl
            · cases hB : evalN false defs f h b with
              | mk rb fb =>
                rw [hB] at ihb; simp only at ihb; subst ihb
                cases rb <;> rfl
      · by_cases h2 : op = .lor
        · subst h2
          simp only [evalN]
          cases hA : evalN false defs f h a with
          | mk ra fa =>
            rw [hA] at iha; simp only at iha; subst iha
            cases ra with
            | error x => rfl
            | ok va =>
              simp only
              split
              · rfl
              · cases hB : evalN false defs f h b with
                | mk rb fb =>
                  rw [hB] at ihb; simp only at ihb; subst ihb
                  cases rb <;> rfl
        · have e1 : evalN false defs (f+1) h (.bin op a b) =
              (match evalN false defs f h a with
               | (.error x, fl) => (.error x, fl)
               | (.ok va, fl) =>
                 match evalN false defs f h b with
                 | (.error x, fl2) => (.error x, fl || fl2)
                 | (.ok vb, fl2) => fin false (ctyOf defs (f+1) h (.bin op a b)) (arith (!false) op va vb) (fl || fl2)) := by
            cases op <;> first | rfl | exact absurd rfl h1 | exact absurd rfl h2
          rw [e1]
          cases hA : evalN false defs f h a with
          | mk ra fa =>
            rw [hA] at iha; simp only at iha; subst iha
            cases ra with
            | error x => rfl
            | ok va =>
              simp only
              cases hB : evalN false defs f h b with
              | mk rb fb =>
                rw [hB] at ihb; simp only at ihb; subst ihb
                cases rb with
                | error x => rfl
                | ok vb =>
                  simp only [Bool.not_false, Bool.or_false]
                  cases hop : op.isTruth with
                  | true =>
                    obtain ⟨t, ht⟩ := arith_truth op va vb hop h1 h2
                    rw [ht]
                    simp only [fin, Bool.false_or]
                    exact narrowAt_ofBool _ t
                  | false =>
                    rw [hop] at hty
                    simp only [Bool.false_or] at hty
                    exact fin_flag_notInt _ _ _ hty

/-- the static criterion implies "outside the region" -/
theorem intArithFree_outside_region (defs : Defs Body) (e : Expr) (h : intArithFree defs FUEL [] e = true) :
    intResultOverflows defs e = false :=
  intArithFree_flag defs FUEL [] e h

end ChibiVerif.PPExpr
