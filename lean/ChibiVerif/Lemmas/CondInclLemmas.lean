/-
Helper lemmas for C10 (conditional inclusion): the machine of Model/CondIncl.lean against the
grammar tree of Spec/CondInclSpec.lean.

* `run_append`                     sequential composition of `run`
* `run_skip_item(s)/run_skip_parts`  in skip mode a closed group / the rest of a section is stepped over and
                                   leaves the state untouched (this is the "skip returns at the matching
                                   #elif/#else/#endif of that nesting level" lemma in machine form)
* `run_item(s)/run_parts`          in `proc` mode the machine computes `Item.eval/Items.eval/Parts.eval`
* `parse_spec`                     `flatten (parse ls) = ls` (++ the supplied #endif lines)
* `run_depth`, `run_endifs`        nesting depth bookkeeping for unterminated input
* `condMachine_eq_groups`          the main theorem
-/
import ChibiVerif.Spec.CondInclSpec
namespace ChibiVerif.CondIncl
open ChibiVerif.Spec.CondIncl
variable {ε β : Type}

theorem run_nil (ev : ε → Defs β → Except Diag Bool) (m : Mode) (s : St β) : run ev [] m s = .ok (s, m) := rfl

theorem run_cons (ev : ε → Defs β → Except Diag Bool) (l : Line ε β) (ls) (m : Mode) (s : St β) :
    run ev (l :: ls) m s = (match stepLine ev l m s with | .error e => .error e | .ok (s', m') => run ev ls m' s') := rfl

/-- sequential composition of `run` -/
theorem run_append (ev : ε → Defs β → Except Diag Bool) (a b : List (Line ε β)) (m : Mode) (s : St β) :
    run ev (a ++ b) m s = (match run ev a m s with | .error e => .error e | .ok (s', m') => run ev b m' s') := by
  induction a generalizing m s with
  | nil => simp [run]
  | cons l ls ih =>
    simp only [List.cons_append, run]
    cases h : stepLine ev l m s with
    | error e => simp
    | ok p => obtain ⟨s', m'⟩ := p; simp [ih]

mutual
theorem run_skip_item (ev : ε → Defs β → Except Diag Bool) :
    ∀ (t : Item ε β) (d : Nat) (s : St β), run ev t.flatten (.skip d) s = .ok (s, .skip d)
  | .plain p, d, s => by cases d <;> simp [Item.flatten, run, stepLine]
  | .sec h body rest, d, s => by
    have h1 : run ev (Item.sec h body rest).flatten (.skip d) s
        = run ev (body.flatten ++ rest.flatten) (.skip (d+1)) s := by
      cases d <;> simp [Item.flatten, run, stepLine]
    rw [h1, run_append, run_skip_items ev body (d+1) s]
    simp only
    exact run_skip_parts ev rest d s
theorem run_skip_items (ev : ε → Defs β → Except Diag Bool) :
    ∀ (t : Items ε β) (d : Nat) (s : St β), run ev t.flatten (.skip d) s = .ok (s, .skip d)
  | .nil, d, s => by simp [Items.flatten, run]
  | .cons i is, d, s => by
    simp only [Items.flatten]
    rw [run_append, run_skip_item ev i d s]
    simp only
    exact run_skip_items ev is d s
theorem run_skip_parts (ev : ε → Defs β → Except Diag Bool) :
    ∀ (t : Parts ε β) (d : Nat) (s : St β), run ev t.flatten (.skip (d+1)) s = .ok (s, .skip d)
  | .endif x, d, s => by simp [Parts.flatten, run, stepLine]
  | .part h body rest, d, s => by
    have h1 : run ev (Parts.part h body rest).flatten (.skip (d+1)) s
        = run ev (body.flatten ++ rest.flatten) (.skip (d+1)) s := by
      simp [Parts.flatten, run, stepLine]
    rw [h1, run_append, run_skip_items ev body (d+1) s]
    simp only
    exact run_skip_parts ev rest d s
end

/-- lift a result on the observable part to a machine result with stack `st`, mode `proc` -/
def liftObs (st : List Frame) (r : Except Diag (Obs β)) : Except Diag (St β × Mode) :=
  match r with
  | .error e => .error e
  | .ok o => .ok (⟨o, st⟩, .proc)

@[simp] theorem liftObs_ok (st : List Frame) (o : Obs β) : liftObs st (.ok o) = .ok (⟨o, st⟩, .proc) := rfl
@[simp] theorem liftObs_error (st : List Frame) (e : Diag) : liftObs (β := β) st (.error e) = .error e := rfl

/-- once the #else of a section has been passed, `taken` no longer matters -/
theorem Parts.eval_seenElse (ev : ε → Defs β → Except Diag Bool) (ps : Parts ε β) (t t' : Bool) (o : Obs β) :
    ps.eval ev t true o = ps.eval ev t' true o := by
  cases ps with
  | endif x => simp [Parts.eval]
  | part h body rest => cases h <;> simp [Parts.eval]

mutual
theorem run_item (ev : ε → Defs β → Except Diag Bool) :
    ∀ (t : Item ε β) (o : Obs β) (st : List Frame),
      run ev t.flatten .proc ⟨o, st⟩ = liftObs st (t.eval ev o)
  | .plain p, o, st => by
    simp only [Item.flatten, run, stepLine, procLine, Item.eval]
    cases procPlain p o <;> rfl
  | .sec h body rest, o, st => by
    simp only [Item.flatten, run, stepLine, procLine, Item.eval]
    cases hv : evalHead ev h o.defs with
    | error e => rfl
    | ok v =>
      cases v with
      | true =>
        simp only [bind, Except.bind, pure, Except.pure, if_true]
        rw [run_append, run_items ev body o (⟨.inThen, true⟩ :: st)]
        cases hb : body.eval ev o with
        | error e => rfl
        | ok o' =>
          simp only [liftObs_ok]
          exact run_parts ev rest o' ⟨.inThen, true⟩ st .proc (Or.inl rfl)
      | false =>
        simp only [bind, Except.bind, pure, Except.pure, Bool.false_eq_true, if_false]
        rw [run_append, run_skip_items ev body 0]
        simp only
        exact run_parts ev rest o ⟨.inThen, false⟩ st (.skip 0) (Or.inr rfl)
theorem run_items (ev : ε → Defs β → Except Diag Bool) :
    ∀ (t : Items ε β) (o : Obs β) (st : List Frame),
      run ev t.flatten .proc ⟨o, st⟩ = liftObs st (t.eval ev o)
  | .nil, o, st => by simp [Items.flatten, run, Items.eval]
  | .cons i is, o, st => by
    simp only [Items.flatten, Items.eval]
    rw [run_append, run_item ev i o st]
    cases i.eval ev o with
    | error e => rfl
    | ok o' => simp only [liftObs_ok]; exact run_items ev is o' st
/-- the remaining groups of a section, reached either after a processed group (`proc`) or at the
    end of a skipped one (`skip 0`): the machine's frame `(ctx, included)` plays the role of the
    specification's `(seenElse, taken)` -/
theorem run_parts (ev : ε → Defs β → Except Diag Bool) :
    ∀ (t : Parts ε β) (o : Obs β) (f : Frame) (st : List Frame) (m : Mode), (m = .proc ∨ m = .skip 0) →
      run ev t.flatten m ⟨o, f :: st⟩ = liftObs st (t.eval ev f.included (f.ctx == .inElse) o)
  | .endif x, o, f, st, m, hm => by
    rcases hm with rfl | rfl <;> simp [Parts.flatten, run, stepLine, procLine, Parts.eval, pure, Except.pure]
  | .part (.elif c) body rest, o, f, st, m, hm => by
    have h1 : run ev (Parts.part (.elif c) body rest).flatten m ⟨o, f :: st⟩ =
        (match procLine ev (.part (.elif c)) ⟨o, f :: st⟩ with
         | .error e => .error e
         | .ok (s', m') => run ev (body.flatten ++ rest.flatten) m' s') := by
      rcases hm with rfl | rfl <;> (simp only [Parts.flatten]; rfl)
    rw [h1]
    obtain ⟨ctx, inc⟩ := f
    simp only [procLine, Parts.eval]
    by_cases hc : ctx = .inElse
    · subst hc; simp
    · have hc' : (ctx == Ctx.inElse) = false := by cases ctx <;> simp_all
      simp only [hc, if_false, hc', Bool.false_eq_true]
      cases inc with
      | true =>
        simp only [if_true, pure, Except.pure]
        rw [run_append, run_skip_items ev body 0]
        simp only
        exact run_parts ev rest o ⟨.inElif, true⟩ st (.skip 0) (Or.inr rfl)
      | false =>
        simp only [Bool.false_eq_true, if_false, bind, Except.bind]
        cases hv : ev c o.defs with
        | error e => rfl
        | ok v =>
          cases v with
          | true =>
            simp only [if_true, pure, Except.pure]
            rw [run_append, run_items ev body o (⟨.inElif, true⟩ :: st)]
            cases hb : body.eval ev o with
            | error e => rfl
            | ok o' =>
              simp only [liftObs_ok]
              exact run_parts ev rest o' ⟨.inElif, true⟩ st .proc (Or.inl rfl)
          | false =>
            simp only [Bool.false_eq_true, if_false, pure, Except.pure]
            rw [run_append, run_skip_items ev body 0]
            simp only
            exact run_parts ev rest o ⟨.inElif, false⟩ st (.skip 0) (Or.inr rfl)
  | .part (.els x) body rest, o, f, st, m, hm => by
    have h1 : run ev (Parts.part (.els x) body rest).flatten m ⟨o, f :: st⟩ =
        (match procLine ev (.part (.els x)) ⟨o, f :: st⟩ with
         | .error e => .error e
         | .ok (s', m') => run ev (body.flatten ++ rest.flatten) m' s') := by
      rcases hm with rfl | rfl <;> (simp only [Parts.flatten]; rfl)
    rw [h1]
    obtain ⟨ctx, inc⟩ := f
    simp only [procLine, Parts.eval]
    by_cases hc : ctx = .inElse
    · subst hc; simp
    · have hc' : (ctx == Ctx.inElse) = false := by cases ctx <;> simp_all
      simp only [hc, if_false, hc', Bool.false_eq_true, pure, Except.pure]
      cases inc with
      | true =>
        simp only [if_true]
        rw [run_append, run_skip_items ev body 0]
        simp only
        exact run_parts ev rest o ⟨.inElse, true⟩ st (.skip 0) (Or.inr rfl)
      | false =>
        simp only [Bool.false_eq_true, if_false]
        rw [run_append, run_items ev body o (⟨.inElse, false⟩ :: st)]
        cases hb : body.eval ev o with
        | error e => rfl
        | ok o' =>
          simp only [liftObs_ok]
          rw [run_parts ev rest o' ⟨.inElse, false⟩ st .proc (Or.inl rfl)]
          simp only [beq_self_eq_true]
          rw [Parts.eval_seenElse ev rest false true]
end




-- ------------------------------------------------------------------ parser: flatten ∘ parse

mutual
theorem Items.flatten_append : ∀ (a b : Items ε β), (a.append b).flatten = a.flatten ++ b.flatten
  | .nil, b => by simp [Items.append, Items.flatten]
  | .cons i is, b => by simp [Items.append, Items.flatten, Items.flatten_append is b]
end

theorem Items.flatten_snoc (a : Items ε β) (i : Item ε β) : (a.snoc i).flatten = a.flatten ++ i.flatten := by
  simp [Items.snoc, Items.flatten_append, Items.flatten]

/-- the lines of the completed groups of a section under construction -/
def groupLines (gs : List (Items ε β × PartHead ε)) : List (Line ε β) :=
  gs.flatMap (fun g => g.1.flatten ++ [.part g.2])

/-- the lines read so far for a section under construction -/
def frameLines (f : PFrame ε β) : List (Line ε β) :=
  .opens f.head :: (groupLines f.groups ++ f.cur.flatten)

/-- the lines read so far -/
def unparse : List (PFrame ε β) → Items ε β → List (Line ε β)
  | [], top => top.flatten
  | f :: fs, top => unparse fs top ++ frameLines f

theorem mkParts_flatten (h : PartHead ε) (gs : List (Items ε β × PartHead ε)) (cur : Items ε β) (fin : Parts ε β) :
    (mkParts h gs cur fin).flatten = .part h :: (groupLines gs ++ cur.flatten ++ fin.flatten) := by
  induction gs generalizing h with
  | nil => simp [mkParts, Parts.flatten, groupLines]
  | cons g gs ih =>
    obtain ⟨b, h'⟩ := g
    simp [mkParts, Parts.flatten, ih, groupLines]

theorem close_flatten (f : PFrame ε β) (fin : Parts ε β) :
    (f.close fin).flatten = frameLines f ++ fin.flatten := by
  obtain ⟨head, groups, cur⟩ := f
  cases groups with
  | nil => simp [PFrame.close, Item.flatten, frameLines, groupLines]
  | cons g gs =>
    obtain ⟨b0, h1⟩ := g
    simp [PFrame.close, Item.flatten, frameLines, mkParts_flatten, groupLines]

theorem unparse_addItem (i : Item ε β) (fs : List (PFrame ε β)) (top : Items ε β) :
    unparse (addItem i fs top).1 (addItem i fs top).2 = unparse fs top ++ i.flatten := by
  cases fs with
  | nil => simp [addItem, unparse, Items.flatten_snoc]
  | cons f fs => simp [addItem, unparse, frameLines, Items.flatten_snoc]

theorem addItem_length (i : Item ε β) (fs : List (PFrame ε β)) (top : Items ε β) :
    (addItem i fs top).1.length = fs.length := by
  cases fs <;> simp [addItem]

theorem closeWith_flatten (i : Item ε β) (fs : List (PFrame ε β)) (top : Items ε β) :
    (closeWith i fs top).flatten = unparse fs top ++ i.flatten ++ List.replicate fs.length (.endif false) := by
  induction fs generalizing i with
  | nil => simp [closeWith, unparse, Items.flatten_snoc]
  | cons g fs ih =>
    simp only [closeWith, ih, close_flatten, unparse, frameLines, Items.flatten_snoc, Parts.flatten,
      List.length_cons, List.replicate_succ]
    simp

theorem closeAll_flatten (fs : List (PFrame ε β)) (top : Items ε β) :
    (closeAll fs top).flatten = unparse fs top ++ List.replicate fs.length (.endif false) := by
  cases fs with
  | nil => simp [closeAll, unparse]
  | cons f fs =>
    simp only [closeAll, closeWith_flatten, close_flatten, unparse, Parts.flatten, List.length_cons,
      List.replicate_succ]
    simp

/-- nesting depth after `ls`, started at depth `k`; `none` if a #elif/#else/#endif occurs at depth 0 -/
def sdepth : List (Line ε β) → Nat → Option Nat
  | [], k => some k
  | l :: ls, k =>
    match l with
    | .plain _ => sdepth ls k
    | .opens _ => sdepth ls (k+1)
    | .part _ => if k = 0 then none else sdepth ls k
    | .endif _ => if k = 0 then none else sdepth ls (k-1)

def isCloser : Line ε β → Bool
  | .part _ => true
  | .endif _ => true
  | _ => false

/-- what the parser returns, in terms of the lines it was given -/
theorem parseGo_spec (ls : List (Line ε β)) (fs : List (PFrame ε β)) (top : Items ε β) :
    match parseGo ls fs top with
    | .done is n => is.flatten = unparse fs top ++ ls ++ List.replicate n (.endif false) ∧ sdepth ls fs.length = some n
    | .stray is l rest => is.flatten ++ l :: rest = unparse fs top ++ ls ∧ isCloser l = true := by
  induction ls generalizing fs top with
  | nil => simp [parseGo, closeAll_flatten, sdepth]
  | cons l ls ih =>
    cases l with
    | plain p =>
      have := ih (addItem (.plain p) fs top).1 (addItem (.plain p) fs top).2
      simp only [parseGo, sdepth]
      rw [unparse_addItem, addItem_length] at this
      simpa [Item.flatten] using this
    | opens h =>
      have := ih (⟨h, [], .nil⟩ :: fs) top
      simp only [parseGo, sdepth]
      simpa [unparse, frameLines, groupLines, Items.flatten] using this
    | part h =>
      cases fs with
      | nil => simp [parseGo, unparse, isCloser]
      | cons f fs' =>
        have := ih ({ f with groups := f.groups ++ [(f.cur, h)], cur := .nil } :: fs') top
        simp only [parseGo, sdepth]
        simpa [unparse, frameLines, groupLines, Items.flatten] using this
    | endif x =>
      cases fs with
      | nil => simp [parseGo, unparse, isCloser]
      | cons f fs' =>
        have := ih (addItem (f.close (.endif x)) fs' top).1 (addItem (f.close (.endif x)) fs' top).2
        simp only [parseGo, sdepth]
        rw [unparse_addItem, addItem_length, close_flatten] at this
        simpa [unparse, Parts.flatten] using this

theorem parse_spec (ls : List (Line ε β)) :
    match parse ls with
    | .done is n => is.flatten = ls ++ List.replicate n (.endif false) ∧ sdepth ls 0 = some n
    | .stray is l rest => is.flatten ++ l :: rest = ls ∧ isCloser l = true := by
  have := parseGo_spec ls [] (.nil : Items ε β)
  simpa [parse, unparse, Items.flatten] using this


-- ------------------------------------------------------------------ nesting depth of the machine

/-- open conditionals as the machine sees them: `cond_incl` records + activations of skip_cond_incl2 -/
def depthOf (m : Mode) (s : St β) : Nat :=
  s.stack.length + (match m with | .proc => 0 | .skip d => d)

theorem procLine_depth (ev : ε → Defs β → Except Diag Bool) (l : Line ε β) (s s' : St β) (m' : Mode) (rest : List (Line ε β))
    (h : procLine ev l s = .ok (s', m')) :
    sdepth (l :: rest) s.stack.length = sdepth rest (depthOf m' s') ∧ (m' = .proc ∨ m' = .skip 0) := by
  cases l with
  | plain p =>
    simp only [procLine, bind, Except.bind, pure, Except.pure] at h
    cases hp : procPlain p s.obs with
    | error e => simp [hp] at h
    | ok o => simp [hp] at h; obtain ⟨rfl, rfl⟩ := h; simp [sdepth, depthOf]
  | opens hd =>
    simp only [procLine, bind, Except.bind, pure, Except.pure] at h
    cases hv : evalHead ev hd s.obs.defs with
    | error e => simp [hv] at h
    | ok v =>
      simp [hv] at h; obtain ⟨rfl, rfl⟩ := h
      cases v <;> simp [sdepth, depthOf]
  | part ph =>
    cases hs : s.stack with
    | nil => cases ph <;> simp [procLine, hs] at h
    | cons f st =>
      cases ph with
      | elif c =>
        simp only [procLine, hs] at h
        split at h
        · simp at h
        · split at h
          · simp [pure, Except.pure] at h; obtain ⟨rfl, rfl⟩ := h; simp [sdepth, depthOf]
          · simp only [bind, Except.bind] at h
            cases hv : ev c s.obs.defs with
            | error e => simp [hv] at h
            | ok v =>
              cases v <;> (simp [hv, pure, Except.pure] at h; obtain ⟨rfl, rfl⟩ := h; simp [sdepth, depthOf])
      | els x =>
        simp only [procLine, hs] at h
        split at h
        · simp at h
        · simp [pure, Except.pure] at h; obtain ⟨rfl, rfl⟩ := h
          cases f.included <;> simp [sdepth, depthOf]
  | endif x =>
    cases hs : s.stack with
    | nil => simp [procLine, hs] at h
    | cons f st =>
      simp [procLine, hs, pure, Except.pure] at h; obtain ⟨rfl, rfl⟩ := h
      simp [sdepth, depthOf]

theorem stepLine_depth (ev : ε → Defs β → Except Diag Bool) (l : Line ε β) (m m' : Mode) (s s' : St β) (rest : List (Line ε β))
    (h : stepLine ev l m s = .ok (s', m')) :
    sdepth (l :: rest) (depthOf m s) = sdepth rest (depthOf m' s') := by
  cases m with
  | proc =>
    have := (procLine_depth ev l s s' m' rest h).1
    simpa [depthOf] using this
  | skip d =>
    cases d with
    | zero =>
      cases l with
      | plain p => simp [stepLine] at h; obtain ⟨rfl, rfl⟩ := h; simp [sdepth, depthOf]
      | opens hd => simp [stepLine] at h; obtain ⟨rfl, rfl⟩ := h; simp [sdepth, depthOf]
      | part ph =>
        have := (procLine_depth ev (.part ph) s s' m' rest (by simpa [stepLine] using h)).1
        simpa [depthOf] using this
      | endif x =>
        have := (procLine_depth ev (.endif x) s s' m' rest (by simpa [stepLine] using h)).1
        simpa [depthOf] using this
    | succ d =>
      cases l with
      | plain p => simp [stepLine] at h; obtain ⟨rfl, rfl⟩ := h; simp [sdepth, depthOf]
      | opens hd => simp [stepLine] at h; obtain ⟨rfl, rfl⟩ := h; simp [sdepth, depthOf]; rfl
      | part ph => simp [stepLine] at h; obtain ⟨rfl, rfl⟩ := h; simp [sdepth, depthOf]
      | endif x => simp [stepLine] at h; obtain ⟨rfl, rfl⟩ := h; simp [sdepth, depthOf]

theorem run_depth (ev : ε → Defs β → Except Diag Bool) (ls : List (Line ε β)) (m m' : Mode) (s s' : St β)
    (h : run ev ls m s = .ok (s', m')) : sdepth ls (depthOf m s) = some (depthOf m' s') := by
  induction ls generalizing m s with
  | nil => simp [run] at h; obtain ⟨rfl, rfl⟩ := h; simp [sdepth]
  | cons l ls ih =>
    simp only [run] at h
    cases hst : stepLine ev l m s with
    | error e => simp [hst] at h
    | ok p =>
      obtain ⟨s1, m1⟩ := p
      simp only [hst] at h
      rw [stepLine_depth ev l m m1 s s1 ls hst]
      exact ih m1 s1 h

/-- `n` #endif lines from a state of nesting depth `n` -/
theorem run_endifs (ev : ε → Defs β → Except Diag Bool) (m : Mode) (s : St β) :
    run ev (List.replicate (depthOf m s) (.endif false : Line ε β)) m s =
      .ok (if s.stack = [] then (s, match m with | .proc => .proc | .skip _ => .skip 0) else (⟨s.obs, []⟩, .proc)) := by
  obtain ⟨o, stack⟩ := s
  cases m with
  | proc =>
    induction stack with
    | nil => simp [depthOf, run]
    | cons f st ih =>
      simp only [depthOf, List.length_cons, Nat.add_zero, List.replicate_succ, run, stepLine, procLine, pure, Except.pure]
      cases st with
      | nil => simp [run]
      | cons g st' => simpa [depthOf] using ih
  | skip d =>
    induction d with
    | zero =>
      induction stack with
      | nil => simp [depthOf, run]
      | cons f st ih =>
        simp only [depthOf, List.length_cons, Nat.add_zero, List.replicate_succ, run, stepLine, procLine, pure, Except.pure]
        -- after the first #endif the machine is in `proc`; reuse the `proc` case
        have hp : run ev (List.replicate st.length (.endif false : Line ε β)) .proc ⟨o, st⟩ =
            .ok (if st = [] then (⟨o, st⟩, .proc) else (⟨o, []⟩, .proc)) := by
          clear ih
          induction st with
          | nil => simp [run]
          | cons g st' ih2 =>
            simp only [List.length_cons, List.replicate_succ, run, stepLine, procLine, pure, Except.pure]
            cases st' with
            | nil => simp [run]
            | cons g' st'' => simpa using ih2
        rw [hp]; cases st <;> simp
    | succ d ih =>
      have : depthOf (.skip (d+1)) (⟨o, stack⟩ : St β) = depthOf (.skip d) (⟨o, stack⟩ : St β) + 1 := by
        simp [depthOf]; omega
      rw [this, List.replicate_succ]
      simp only [run, stepLine]
      rw [ih]

theorem procLine_closer_empty (ev : ε → Defs β → Except Diag Bool) (l : Line ε β) (o : Obs β)
    (hl : isCloser l = true) : procLine ev l ⟨o, []⟩ = .error (strayDiag l) := by
  cases l with
  | plain p => simp [isCloser] at hl
  | opens h => simp [isCloser] at hl
  | part h => cases h <;> simp [procLine, strayDiag]
  | endif x => simp [procLine, strayDiag]

/-- machine = specification, for every line list, macro table and evaluator -/
theorem condMachine_eq_groups (ev : ε → Defs β → Except Diag Bool) (ls : List (Line ε β)) (d : Defs β) :
    condMachine ev ls d = groups ev ls d := by
  have hp := parse_spec ls
  unfold groups condMachine
  cases hparse : parse ls with
  | done is n =>
    rw [hparse] at hp
    obtain ⟨hfl, hdep⟩ := hp
    have hrun := run_items ev is ⟨d, []⟩ []
    rw [hfl, run_append] at hrun
    simp only [Top.eval]
    cases hR : run ev ls .proc ⟨⟨d, []⟩, []⟩ with
    | error e =>
      rw [hR] at hrun
      cases hX : is.eval ev ⟨d, []⟩ with
      | error e' => rw [hX] at hrun; simp at hrun; simp [finish, hrun]
      | ok o' => rw [hX] at hrun; simp at hrun
    | ok p =>
      obtain ⟨s', m'⟩ := p
      rw [hR] at hrun
      simp only at hrun
      have hd := run_depth ev ls .proc m' ⟨⟨d, []⟩, []⟩ s' hR
      have hn : n = depthOf m' s' := by
        have : depthOf .proc (⟨⟨d, []⟩, []⟩ : St β) = 0 := by simp [depthOf]
        rw [this, hdep] at hd
        exact Option.some.inj hd
      subst hn
      rw [run_endifs] at hrun
      by_cases hst : s'.stack = []
      · simp only [hst, if_true] at hrun
        cases hX : is.eval ev ⟨d, []⟩ with
        | error e' => rw [hX] at hrun; simp at hrun
        | ok o' =>
          rw [hX] at hrun
          simp only [liftObs_ok, Except.ok.injEq, Prod.mk.injEq] at hrun
          obtain ⟨hs, hm⟩ := hrun
          have hmp : m' = .proc := by cases m' <;> simp_all
          subst hmp
          have : depthOf .proc s' = 0 := by simp [depthOf, hst]
          subst hs
          simp [finish, this]
      · simp only [hst, if_false] at hrun
        cases hX : is.eval ev ⟨d, []⟩ with
        | error e' => rw [hX] at hrun; simp at hrun
        | ok o' =>
          have hpos : depthOf m' s' ≠ 0 := by
            have : s'.stack.length ≠ 0 := by simpa using hst
            unfold depthOf; omega
          have hne : s'.stack.isEmpty = false := by cases h : s'.stack <;> simp_all
          simp [finish, hne, hpos]
  | stray is l rest =>
    rw [hparse] at hp
    obtain ⟨hfl, hcl⟩ := hp
    have hrun := run_items ev is ⟨d, []⟩ []
    simp only [Top.eval]
    rw [← hfl, run_append, hrun]
    cases hX : is.eval ev ⟨d, []⟩ with
    | error e' => simp [finish]
    | ok o' =>
      simp only [liftObs_ok, run, stepLine, procLine_closer_empty ev l o' hcl, finish]


-- ------------------------------------------------------------------ the skip functions themselves

mutual
theorem skipFrom_item : ∀ (t : Item ε β) (d : Nat) (r : List (Line ε β)),
    skipFrom d (t.flatten ++ r) = skipFrom d r
  | .plain p, d, r => by cases d <;> simp [Item.flatten, skipFrom]
  | .sec h body rest, d, r => by
    have h1 : skipFrom d ((Item.sec h body rest).flatten ++ r)
        = skipFrom (d+1) (body.flatten ++ (rest.flatten ++ r)) := by
      cases d <;> simp [Item.flatten, skipFrom]
    rw [h1, skipFrom_items body (d+1), skipFrom_parts rest d]
theorem skipFrom_items : ∀ (t : Items ε β) (d : Nat) (r : List (Line ε β)),
    skipFrom d (t.flatten ++ r) = skipFrom d r
  | .nil, d, r => by simp [Items.flatten]
  | .cons i is, d, r => by
    simp only [Items.flatten, List.append_assoc]
    rw [skipFrom_item i d, skipFrom_items is d]
theorem skipFrom_parts : ∀ (t : Parts ε β) (d : Nat) (r : List (Line ε β)),
    skipFrom (d+1) (t.flatten ++ r) = skipFrom d r
  | .endif x, d, r => by simp [Parts.flatten, skipFrom]
  | .part h body rest, d, r => by
    have h1 : skipFrom (d+1) ((Parts.part h body rest).flatten ++ r)
        = skipFrom (d+1) (body.flatten ++ (rest.flatten ++ r)) := by
      simp [Parts.flatten, skipFrom]
    rw [h1, skipFrom_items body (d+1), skipFrom_parts rest d]
end

theorem skipFrom_zero_parts (ps : Parts ε β) (r : List (Line ε β)) :
    skipFrom 0 (ps.flatten ++ r) = ps.flatten ++ r := by
  cases ps <;> simp [Parts.flatten, skipFrom]

/-- the machine's skip modes are the function `skipFrom` (up to the mode at end of input, which
    `finish` ignores) -/
theorem run_skip_eq_skipFrom (ev : ε → Defs β → Except Diag Bool) (ls : List (Line ε β)) (d : Nat) (s : St β) :
    finish (run ev ls (.skip d) s) = finish (run ev (skipFrom d ls) .proc s) := by
  induction ls generalizing d with
  | nil => simp [skipFrom, run, finish]
  | cons l ls ih =>
    cases d with
    | zero =>
      cases l with
      | plain p => simpa [run, stepLine, skipFrom] using ih 0
      | opens h => simpa [run, stepLine, skipFrom] using ih 1
      | part h => simp [run, stepLine, skipFrom]
      | endif x => simp [run, stepLine, skipFrom]
    | succ d =>
      cases l with
      | plain p => simpa [run, stepLine, skipFrom] using ih (d+1)
      | opens h => simpa [run, stepLine, skipFrom] using ih (d+2)
      | part h => simpa [run, stepLine, skipFrom] using ih (d+1)
      | endif x => simpa [run, stepLine, skipFrom] using ih d

-- ------------------------------------------------------------------ trailing tokens

def PartHead.clearExtra : PartHead ε → PartHead ε
  | .elif c => .elif c
  | .els _ => .els false

def IfHead.clearExtra : IfHead ε → IfHead ε
  | .ifE c => .ifE c
  | .ifdef n _ => .ifdef n false
  | .ifndef n _ => .ifndef n false
  | .noName => .noName

def Plain.clearExtra : Plain β → Plain β
  | .undef n _ => .undef n false
  | p => p

/-- the same line without the tokens `skip_line` drops -/
def Line.clearExtra : Line ε β → Line ε β
  | .plain p => .plain p.clearExtra
  | .opens h => .opens h.clearExtra
  | .part h => .part h.clearExtra
  | .endif _ => .endif false

theorem stepLine_clearExtra (ev : ε → Defs β → Except Diag Bool) (l : Line ε β) (m : Mode) (s : St β) :
    stepLine ev l.clearExtra m s = stepLine ev l m s := by
  cases m with
  | proc =>
    cases l with
    | plain p => cases p <;> rfl
    | opens h => cases h <;> rfl
    | part h => cases h <;> rfl
    | endif x => rfl
  | skip d =>
    cases d with
    | zero =>
      cases l with
      | plain p => cases p <;> rfl
      | opens h => cases h <;> rfl
      | part h => cases h <;> rfl
      | endif x => rfl
    | succ d =>
      cases l with
      | plain p => cases p <;> rfl
      | opens h => cases h <;> rfl
      | part h => cases h <;> rfl
      | endif x => rfl

theorem run_clearExtra (ev : ε → Defs β → Except Diag Bool) (ls : List (Line ε β)) (m : Mode) (s : St β) :
    run ev (ls.map Line.clearExtra) m s = run ev ls m s := by
  induction ls generalizing m s with
  | nil => rfl
  | cons l ls ih =>
    simp only [List.map_cons, run, stepLine_clearExtra]
    cases stepLine ev l m s with
    | error e => rfl
    | ok p => exact ih p.2 p.1

-- ------------------------------------------------------------------ include guards

/-- `detect_include_guard`'s scan at depth `k+1` succeeded: from inside the skipped #ifndef group
    (`skip k`) the machine runs to the end of the file, pops exactly the #ifndef's record and changes
    nothing else -/
theorem run_guardScan (ev : ε → Defs β → Except Diag Bool) (ls : List (Line ε β)) (k : Nat)
    (o : Obs β) (f : Frame) (st : List Frame) (h : guardScan (k+1) ls = true) :
    run ev ls (.skip k) ⟨o, f :: st⟩ = .ok (⟨o, st⟩, .proc) := by
  induction ls generalizing k with
  | nil => simp [guardScan] at h
  | cons l ls ih =>
    cases l with
    | plain p =>
      simp only [guardScan] at h
      cases k <;> simpa [run, stepLine] using ih _ h
    | opens hd =>
      simp only [guardScan] at h
      cases k <;> simpa [run, stepLine] using ih _ h
    | part ph =>
      simp only [guardScan] at h
      cases k with
      | zero => simp at h
      | succ k => simp at h; simpa [run, stepLine] using ih _ h
    | endif x =>
      simp only [guardScan] at h
      cases k with
      | zero =>
        simp at h
        obtain ⟨hx, hl⟩ := h
        subst hl
        simp [run, stepLine, procLine, pure, Except.pure]
      | succ k =>
        simp at h
        simpa [run, stepLine] using ih _ h

/-- a file that `detect_include_guard` accepts, processed while its guard macro is defined:
    no output, no change of the macro table, no change of the conditional stack -/
theorem run_guarded_file (ev : ε → Defs β → Except Diag Bool) (fl : List (Line ε β)) (g : String)
    (hg : detectGuard fl = some g) (s : St β) (hdef : s.obs.defs.isDef g = true) :
    run ev fl .proc s = .ok (s, .proc) := by
  obtain ⟨o, st⟩ := s
  match fl, hg with
  | .opens (.ifndef g0 false) :: .plain (.define g' b) :: rest, hg =>
    simp only [detectGuard] at hg
    split at hg
    · rename_i hgg
      split at hg
      · rename_i hscan
        simp at hg
        subst hgg; subst hg
        simp only [run, stepLine, procLine, evalHead, bind, Except.bind, pure, Except.pure]
        simp only at hdef
        simp only [hdef, Bool.not_true, Bool.false_eq_true, if_false]
        have := run_guardScan ev (.plain (.define g0 b) :: rest) 0 o ⟨.inThen, false⟩ st hscan
        simpa [run, stepLine] using this
      · simp at hg
    · simp at hg


-- ------------------------------------------------------------------ the evaluator only matters on the conditions that occur

def Line.cond? : Line ε β → Option ε
  | .opens (.ifE c) => some c
  | .part (.elif c) => some c
  | _ => none

/-- the controlling expressions of #if / #elif lines -/
def conds (ls : List (Line ε β)) : List ε := ls.filterMap Line.cond?

theorem procLine_congr (ev₁ ev₂ : ε → Defs β → Except Diag Bool) (l : Line ε β)
    (h : ∀ c, l.cond? = some c → ∀ d, ev₁ c d = ev₂ c d) (s : St β) :
    procLine ev₁ l s = procLine ev₂ l s := by
  cases l with
  | plain p => rfl
  | endif x => rfl
  | opens hd =>
    cases hd with
    | ifE c => simp only [procLine, evalHead, h c rfl]
    | ifdef n x => rfl
    | ifndef n x => rfl
    | noName => rfl
  | part ph =>
    cases ph with
    | els x => rfl
    | elif c => simp only [procLine, h c rfl]

theorem stepLine_congr (ev₁ ev₂ : ε → Defs β → Except Diag Bool) (l : Line ε β)
    (h : ∀ c, l.cond? = some c → ∀ d, ev₁ c d = ev₂ c d) (m : Mode) (s : St β) :
    stepLine ev₁ l m s = stepLine ev₂ l m s := by
  cases m with
  | proc => exact procLine_congr ev₁ ev₂ l h s
  | skip d =>
    cases d with
    | zero =>
      cases l with
      | plain p => rfl
      | opens hd => rfl
      | part ph => exact procLine_congr ev₁ ev₂ _ h s
      | endif x => rfl
    | succ d => cases l <;> rfl

theorem run_congr (ev₁ ev₂ : ε → Defs β → Except Diag Bool) (ls : List (Line ε β))
    (h : ∀ c ∈ conds ls, ∀ d, ev₁ c d = ev₂ c d) (m : Mode) (s : St β) :
    run ev₁ ls m s = run ev₂ ls m s := by
  induction ls generalizing m s with
  | nil => rfl
  | cons l ls ih =>
    have hl : ∀ c, l.cond? = some c → ∀ d, ev₁ c d = ev₂ c d := by
      intro c hc
      exact h c (by simp [conds, hc])
    have hrest : ∀ c ∈ conds ls, ∀ d, ev₁ c d = ev₂ c d := by
      intro c hc
      apply h c
      simp only [conds, List.filterMap_cons] at hc ⊢
      cases l.cond? <;> simp_all
    simp only [run, stepLine_congr ev₁ ev₂ l hl]
    cases stepLine ev₂ l m s with
    | error e => rfl
    | ok p => exact ih hrest p.2 p.1

theorem condMachine_congr (ev₁ ev₂ : ε → Defs β → Except Diag Bool) (ls : List (Line ε β))
    (h : ∀ c ∈ conds ls, ∀ d, ev₁ c d = ev₂ c d) (d : Defs β) :
    condMachine ev₁ ls d = condMachine ev₂ ls d := by
  unfold condMachine; rw [run_congr ev₁ ev₂ ls h]

-- ------------------------------------------------------------------ the skip functions as written in C

theorem skipCondIncl2C_length (f : Nat) (ls : List (Line ε β)) : (skipCondIncl2C f ls).length ≤ ls.length := by
  induction f generalizing ls with
  | zero => simp [skipCondIncl2C]
  | succ f ih =>
    cases ls with
    | nil => simp [skipCondIncl2C]
    | cons l ls =>
      cases l with
      | opens h =>
        simp only [skipCondIncl2C, List.length_cons]
        exact Nat.le_succ_of_le (Nat.le_trans (ih _) (ih _))
      | endif x => simp [skipCondIncl2C]
      | part h => simp only [skipCondIncl2C, List.length_cons]; exact Nat.le_succ_of_le (ih _)
      | plain p => simp only [skipCondIncl2C, List.length_cons]; exact Nat.le_succ_of_le (ih _)

/-- with enough fuel, `d+1` nested activations of the C function are `skipFrom (d+1)` followed by … -/
theorem skipFrom_succ_eq (f : Nat) : ∀ (ls : List (Line ε β)) (d : Nat), ls.length ≤ f →
    skipFrom (d+1) ls = skipFrom d (skipCondIncl2C f ls) := by
  induction f with
  | zero =>
    intro ls d h
    have : ls = [] := by cases ls <;> simp_all
    subst this; cases d <;> simp [skipFrom, skipCondIncl2C]
  | succ f ih =>
    intro ls d h
    cases ls with
    | nil => cases d <;> simp [skipFrom, skipCondIncl2C]
    | cons l ls =>
      have hl : ls.length ≤ f := by simpa using h
      cases l with
      | opens hd =>
        simp only [skipFrom, skipCondIncl2C]
        rw [ih ls (d+1) hl, ih (skipCondIncl2C f ls) d (Nat.le_trans (skipCondIncl2C_length f ls) hl)]
      | endif x => simp [skipFrom, skipCondIncl2C]
      | part hd => simp only [skipFrom, skipCondIncl2C]; exact ih ls d hl
      | plain p => simp only [skipFrom, skipCondIncl2C]; exact ih ls d hl

/-- the flattened function `skipFrom 0` is the C function `skip_cond_incl` (given fuel ≥ number of lines) -/
theorem skipCondIncl_eq_C (f : Nat) : ∀ (ls : List (Line ε β)), ls.length ≤ f →
    skipCondIncl ls = skipCondInclC f ls := by
  unfold skipCondIncl
  induction f with
  | zero =>
    intro ls h
    have : ls = [] := by cases ls <;> simp_all
    subst this; simp [skipFrom, skipCondInclC]
  | succ f ih =>
    intro ls h
    cases ls with
    | nil => simp [skipFrom, skipCondInclC]
    | cons l ls =>
      have hl : ls.length ≤ f := by simpa using h
      cases l with
      | opens hd =>
        simp only [skipFrom, skipCondInclC]
        rw [skipFrom_succ_eq f ls 0 hl]
        exact ih _ (Nat.le_trans (skipCondIncl2C_length f ls) hl)
      | endif x => simp [skipFrom, skipCondInclC]
      | part hd => simp [skipFrom, skipCondInclC]
      | plain p => simp only [skipFrom, skipCondInclC]; exact ih ls hl


-- ------------------------------------------------------------------ the evaluator only matters where it is called

/-- `ev` with a tripwire: the marker diagnostic `mark` as soon as a condition is *evaluated* under a macro table where
    `P` holds -/
def guardEv (P : ε → Defs β → Bool) (mark : Diag) (ev : ε → Defs β → Except Diag Bool) : ε → Defs β → Except Diag Bool :=
  fun c d => if P c d then .error mark else ev c d

theorem procLine_guard (ev₁ ev₂ : ε → Defs β → Except Diag Bool) (P : ε → Defs β → Bool) (mark : Diag)
    (hagree : ∀ c d, P c d = false → ev₁ c d = ev₂ c d) (l : Line ε β) (s : St β) :
    procLine (guardEv P mark ev₁) l s = .error mark ∨ procLine ev₁ l s = procLine ev₂ l s ∧ procLine (guardEv P mark ev₁) l s = procLine ev₁ l s := by
  cases l with
  | plain p => right; exact ⟨rfl, rfl⟩
  | endif x => right; exact ⟨rfl, rfl⟩
  | opens hd =>
    cases hd with
    | ifdef n x => right; exact ⟨rfl, rfl⟩
    | ifndef n x => right; exact ⟨rfl, rfl⟩
    | noName => right; exact ⟨rfl, rfl⟩
    | ifE c =>
      cases hp : P c s.obs.defs with
      | true => left; simp [procLine, evalHead, guardEv, hp, bind, Except.bind]
      | false => right; constructor <;> simp [procLine, evalHead, guardEv, hp, hagree c _ hp]
  | part ph =>
    cases ph with
    | els x => right; exact ⟨rfl, rfl⟩
    | elif c =>
      cases hp : P c s.obs.defs with
      | false => right; constructor <;> simp [procLine, guardEv, hp, hagree c _ hp]
      | true =>
        -- the condition is evaluated only if the section is open, not in its #else group, and no group was taken yet
        cases hs : s.stack with
        | nil => right; constructor <;> simp [procLine, hs]
        | cons f st =>
          by_cases h1 : f.ctx = .inElse
          · right; constructor <;> simp [procLine, hs, h1]
          · by_cases h2 : f.included = true
            · right; constructor <;> simp [procLine, hs, h1, h2]
            · left; simp [procLine, hs, h1, h2, guardEv, hp, bind, Except.bind]

theorem stepLine_guard (ev₁ ev₂ : ε → Defs β → Except Diag Bool) (P : ε → Defs β → Bool) (mark : Diag)
    (hagree : ∀ c d, P c d = false → ev₁ c d = ev₂ c d) (l : Line ε β) (m : Mode) (s : St β) :
    stepLine (guardEv P mark ev₁) l m s = .error mark ∨ stepLine ev₁ l m s = stepLine ev₂ l m s ∧ stepLine (guardEv P mark ev₁) l m s = stepLine ev₁ l m s := by
  cases m with
  | proc => exact procLine_guard ev₁ ev₂ P mark hagree l s
  | skip d =>
    cases d with
    | zero =>
      cases l with
      | plain p => right; exact ⟨rfl, rfl⟩
      | opens hd => right; exact ⟨rfl, rfl⟩
      | part ph => exact procLine_guard ev₁ ev₂ P mark hagree (.part ph) s
      | endif x => right; exact ⟨rfl, rfl⟩
    | succ d => right; cases l <;> exact ⟨rfl, rfl⟩

/-- if the tripwire is never hit, two evaluators that agree outside `P` drive the machine the same way -/
theorem run_guard (ev₁ ev₂ : ε → Defs β → Except Diag Bool) (P : ε → Defs β → Bool) (mark : Diag)
    (hagree : ∀ c d, P c d = false → ev₁ c d = ev₂ c d) (ls : List (Line ε β)) (m : Mode) (s : St β)
    (h : run (guardEv P mark ev₁) ls m s ≠ .error mark) :
    run ev₁ ls m s = run ev₂ ls m s ∧ run (guardEv P mark ev₁) ls m s = run ev₁ ls m s := by
  induction ls generalizing m s with
  | nil => exact ⟨rfl, rfl⟩
  | cons l ls ih =>
    simp only [run] at h ⊢
    rcases stepLine_guard ev₁ ev₂ P mark hagree l m s with hm | ⟨h12, hg⟩
    · rw [hm] at h; exact absurd rfl h
    · rw [hg] at h ⊢
      rw [← h12]
      cases hs : stepLine ev₁ l m s with
      | error e => exact ⟨rfl, rfl⟩
      | ok p => rw [hs] at h; exact ih p.2 p.1 h

theorem condMachine_guard (ev₁ ev₂ : ε → Defs β → Except Diag Bool) (P : ε → Defs β → Bool) (mark : Diag)
    (hagree : ∀ c d, P c d = false → ev₁ c d = ev₂ c d) (ls : List (Line ε β)) (d : Defs β)
    (h : condMachine (guardEv P mark ev₁) ls d ≠ .error mark) :
    condMachine ev₁ ls d = condMachine ev₂ ls d := by
  unfold condMachine at h ⊢
  have hr : run (guardEv P mark ev₁) ls .proc ⟨⟨d, []⟩, []⟩ ≠ .error mark := by
    intro hr; rw [hr] at h; exact h rfl
  rw [(run_guard ev₁ ev₂ P mark hagree ls .proc _ hr).1]

end ChibiVerif.CondIncl
