/-
C01: facts about `compileJ` (Model/C01ExprJ.lean).

* `compileJ_facts`: the temporaries counter only grows, the label counter advances by exactly `nlbl e`, the type is the C11
  type (`typeOf`), and — the **freshness invariant** of `count()` — every label the code defines has its number in
  `[c0, c1)` and is defined exactly once (`(defs code).Nodup`).  This is what label resolution by position rests on
  (`findLbl_at`, Lemmas/C01Jump.lean).
* `compileJ_of_compileX`: on expressions `compileX` handles (no `&&` `||` `?:`) `compileJ` gives the same code, no labels.
* `depthJ_of_compileX`: … and `depthJ` is `depthX`.
-/
import ChibiVerif.Lemmas.C01Jump
import ChibiVerif.Lemmas.C01EffectsValue
import ChibiVerif.Model.C01ExprJ

namespace ChibiVerif.C01
open ChibiVerif.X86 ChibiVerif.Asm ChibiVerif.Spec.IntSpec ChibiVerif.Gen.CommonType ChibiVerif.C01Codegen ChibiVerif.X86J

/-- every label of the list has its number in `[lo, hi)` -/
def InR (lo hi : Nat) (L : List Lbl) : Prop := ∀ l ∈ L, lo ≤ l.n ∧ l.n < hi

theorem InR.nil (lo hi : Nat) : InR lo hi [] := fun _ h => by simp at h
theorem InR.mono {lo hi lo' hi' : Nat} {L : List Lbl} (h : InR lo hi L) (h0 : lo' ≤ lo) (h1 : hi ≤ hi') : InR lo' hi' L :=
  fun l hl => by have := h l hl; omega
theorem InR.append {lo hi : Nat} {a b : List Lbl} (ha : InR lo hi a) (hb : InR lo hi b) : InR lo hi (a ++ b) := by
  intro l hl; rcases List.mem_append.1 hl with h | h
  · exact ha l h
  · exact hb l h

theorem nodup_append_n {a b : List Lbl} (ha : a.Nodup) (hb : b.Nodup) (h : ∀ x ∈ a, ∀ y ∈ b, x.n ≠ y.n) : (a ++ b).Nodup :=
  List.nodup_append.2 ⟨ha, hb, fun x hx y hy e => h x hx y hy (by rw [e])⟩

/-- labels of disjoint number ranges -/
theorem nodup_append_InR {a b : List Lbl} {lo mid hi : Nat} (ha : a.Nodup) (hb : b.Nodup) (ra : InR lo mid a) (rb : InR mid hi b) :
    (a ++ b).Nodup :=
  nodup_append_n ha hb (fun x hx y hy => by have := ra x hx; have := rb y hy; omega)

/-- ND_LOGAND / ND_LOGOR: the labels of the two operands and the node's own two labels -/
theorem nodup_land {A B : List Lbl} {c c1 c2 : Nat} {k1 k2 : LKind} (hk : k1 ≠ k2) (hc : c + 1 ≤ c1) (hA : A.Nodup) (hB : B.Nodup)
    (rA : InR (c + 1) c1 A) (rB : InR c1 c2 B) : (A ++ (B ++ [Lbl.mk k1 c, Lbl.mk k2 c])).Nodup := by
  have own : ([Lbl.mk k1 c, Lbl.mk k2 c] : List Lbl).Nodup := by simp [hk]
  have nB : (B ++ [Lbl.mk k1 c, Lbl.mk k2 c]).Nodup := nodup_append_n hB own (fun x hx y hy => by
    have := rB x hx
    simp only [List.mem_cons, List.not_mem_nil, or_false] at hy
    rcases hy with rfl | rfl <;> simp only <;> omega)
  refine nodup_append_n hA nB (fun x hx y hy => ?_)
  have := rA x hx
  simp only [List.mem_append, List.mem_cons, List.not_mem_nil, or_false] at hy
  rcases hy with hy | rfl | rfl
  · have := rB y hy; omega
  · simp only; omega
  · simp only; omega

/-- ND_COND: the labels of the three operands, `.L.else.c` between the second and the third, `.L.end.c` last -/
theorem nodup_cond {C A B : List Lbl} {c c1 c2 c3 : Nat} {k1 k2 : LKind} (hk : k1 ≠ k2) (hc : c + 1 ≤ c1) (hc2 : c1 ≤ c2)
    (hC : C.Nodup) (hA : A.Nodup) (hB : B.Nodup) (rC : InR (c + 1) c1 C) (rA : InR c1 c2 A) (rB : InR c2 c3 B) :
    (C ++ (A ++ (Lbl.mk k1 c :: (B ++ [Lbl.mk k2 c])))).Nodup := by
  have n1 : (B ++ [Lbl.mk k2 c]).Nodup := nodup_append_n hB (by simp) (fun x hx y hy => by
    have := rB x hx
    simp only [List.mem_cons, List.not_mem_nil, or_false] at hy
    subst hy; simp only; omega)
  have n2 : (Lbl.mk k1 c :: (B ++ [Lbl.mk k2 c])).Nodup := by
    refine List.nodup_cons.2 ⟨?_, n1⟩
    intro h
    simp only [List.mem_append, List.mem_cons, List.not_mem_nil, or_false] at h
    rcases h with h | h
    · have := rB _ h; simp only at this; omega
    · exact hk (by cases h; rfl)
  have n3 : (A ++ (Lbl.mk k1 c :: (B ++ [Lbl.mk k2 c]))).Nodup := nodup_append_n hA n2 (fun x hx y hy => by
    have := rA x hx
    simp only [List.mem_append, List.mem_cons, List.not_mem_nil, or_false] at hy
    rcases hy with rfl | hy | rfl
    · simp only; omega
    · have := rB y hy; omega
    · simp only; omega)
  refine nodup_append_n hC n3 (fun x hx y hy => ?_)
  have := rC x hx
  simp only [List.mem_append, List.mem_cons, List.not_mem_nil, or_false] at hy
  rcases hy with hy | rfl | hy | rfl
  · have := rA y hy; omega
  · simp only; omega
  · have := rB y hy; omega
  · simp only; omega

theorem defs_cons_ins (i : Ins) (r : List JI) : defs (JI.ins i :: r) = defs r := rfl
theorem defs_cons_jmp (l : Lbl) (r : List JI) : defs (JI.jmp l :: r) = defs r := rfl
theorem defs_cons_jcc (c : CC) (l : Lbl) (r : List JI) : defs (JI.jcc c l :: r) = defs r := rfl
theorem defs_cons_lbl (l : Lbl) (r : List JI) : defs (JI.lbl l :: r) = l :: defs r := rfl
theorem defs_nil : defs [] = [] := rfl

theorem defs_landCode (c : Nat) (ta tb : ITy) (ca cb : List JI) :
    defs (landCode c ta tb ca cb) = defs ca ++ (defs cb ++ [Lbl.mk .false_ c, Lbl.mk .end_ c]) := by
  simp [landCode, defs_append, defs_J, defs_cons_ins, defs_cons_jmp, defs_cons_jcc, defs_cons_lbl, defs_nil]

theorem defs_lorCode (c : Nat) (ta tb : ITy) (ca cb : List JI) :
    defs (lorCode c ta tb ca cb) = defs ca ++ (defs cb ++ [Lbl.mk .true_ c, Lbl.mk .end_ c]) := by
  simp [lorCode, defs_append, defs_J, defs_cons_ins, defs_cons_jmp, defs_cons_jcc, defs_cons_lbl, defs_nil]

theorem defs_condCode (c : Nat) (tc : ITy) (cc ca cb : List JI) :
    defs (condCode c tc cc ca cb) = defs cc ++ (defs ca ++ (Lbl.mk .else_ c :: (defs cb ++ [Lbl.mk .end_ c]))) := by
  simp [condCode, defs_append, defs_J, defs_cons_ins, defs_cons_jmp, defs_cons_jcc, defs_cons_lbl, defs_nil]

theorem defs_opAssignCodeJ (k : NK) (op : BinOp) (ti tb : ITy) (offA tmp : Int) (cb : List JI) :
    defs (opAssignCodeJ k op ti tb offA tmp cb) = defs cb := by
  simp [opAssignCodeJ, defs_append, defs_J, defs_cons_ins]

/-- what `compileJ` guarantees about its result -/
structure CJ (tys : List ITy) (k0 c0 : Nat) (e : E) (t : ITy) (code : List JI) (k1 c1 : Nat) : Prop where
  k : k0 ≤ k1
  c : c1 = c0 + nlbl e
  ty : ∀ σ : Env, σ.tys = tys → typeOf σ e = some t
  rng : InR c0 c1 (defs code)
  nodup : (defs code).Nodup

theorem CJ.of_J {tys : List ITy} {k0 c0 : Nat} {e : E} {t : ITy} {cd : List Ins} {k1 : Nat} (hn : nlbl e = 0) (hk : k0 ≤ k1)
    (hty : ∀ σ : Env, σ.tys = tys → typeOf σ e = some t) : CJ tys k0 c0 e t (J cd) k1 c0 :=
  ⟨hk, by omega, hty, by rw [defs_J]; exact InR.nil _ _, by rw [defs_J]; exact List.nodup_nil⟩

/-- a leaf that is compiled by `compileX` -/
theorem leaf_of_map {tys : List ITy} {off toff : Nat → Int} {k c : Nat} {e : E} {t : ITy} {code : List JI} {k1 c1 : Nat}
    (h : ((compileX tys off toff k e).map fun (x : ITy × List Ins × Nat) => (x.1, J x.2.1, x.2.2, c)) = some (t, code, k1, c1)) :
    ∃ cd, compileX tys off toff k e = some (t, cd, k1) ∧ code = J cd ∧ c1 = c := by
  simp only [Option.map_eq_some_iff, Prod.mk.injEq] at h
  obtain ⟨⟨t', cd, k'⟩, hx, rfl, rfl, rfl, rfl⟩ := h
  exact ⟨cd, hx, rfl, rfl⟩

theorem compileJ_facts (tys : List ITy) (off toff : Nat → Int) (e : E) : ∀ (k0 c0 : Nat) (t : ITy) (code : List JI) (k1 c1 : Nat),
    compileJ tys off toff k0 c0 e = some (t, code, k1, c1) → CJ tys k0 c0 e t code k1 c1 := by
  induction e with
  | lit t0 v0 =>
    intro k0 c0 t code k1 c1 h
    simp only [compileJ, Option.some.injEq, Prod.mk.injEq] at h
    obtain ⟨rfl, rfl, rfl, rfl⟩ := h
    exact CJ.of_J rfl (Nat.le_refl _) (fun σ _ => rfl)
  | var i =>
    intro k0 c0 t code k1 c1 h
    simp only [compileJ, Option.map_eq_some_iff, Prod.mk.injEq] at h
    obtain ⟨t0, h0, rfl, rfl, rfl, rfl⟩ := h
    exact CJ.of_J rfl (Nat.le_refl _) (fun σ hσ => by simp [typeOf, Env.ty?, hσ, h0])
  | cast t0 e ih =>
    intro k0 c0 t code k1 c1 h
    simp only [compileJ, Option.map_eq_some_iff, Prod.mk.injEq] at h
    obtain ⟨⟨te, cd, k, c⟩, h0, rfl, rfl, rfl, rfl⟩ := h
    have f := ih k0 c0 te cd k c h0
    exact ⟨f.k, by simpa [nlbl] using f.c, fun σ _ => by simp [typeOf], by simpa [defs_append, defs_J] using f.rng,
      by simpa [defs_append, defs_J] using f.nodup⟩
  | un op e ih =>
    intro k0 c0 t code k1 c1 h
    simp only [compileJ, Option.map_eq_some_iff] at h
    obtain ⟨⟨te, cd, k, c⟩, h0, h1⟩ := h
    have f := ih k0 c0 te cd k c h0
    cases op <;> simp only [Prod.mk.injEq] at h1 <;> obtain ⟨rfl, rfl, rfl, rfl⟩ := h1 <;>
      exact ⟨f.k, by simpa [nlbl] using f.c, fun σ hσ => by simp [typeOf, f.ty σ hσ, unopType],
        by simpa [defs_append, defs_J] using f.rng, by simpa [defs_append, defs_J] using f.nodup⟩
  | bin op a b iha ihb =>
    intro k0 c0 t code k1 c1 h
    simp only [compileJ] at h
    cases ha : compileJ tys off toff k0 (if (nodeOf op).2 = true then c0 else c0 + nlbl b) a with
    | none => simp [ha] at h
    | some pa =>
      obtain ⟨ta, ca, ka, c1a⟩ := pa
      simp only [ha] at h
      cases hb : compileJ tys off toff ka (if (nodeOf op).2 = true then c0 + nlbl a else c0) b with
      | none => simp [hb] at h
      | some pb =>
        obtain ⟨tb, cb, kb, c1b⟩ := pb
        simp only [hb, Option.some.injEq, Prod.mk.injEq] at h
        obtain ⟨rfl, rfl, rfl, rfl⟩ := h
        have fa := iha k0 _ ta ca ka c1a ha
        have fb := ihb ka _ tb cb kb c1b hb
        refine ⟨by have := fa.k; have := fb.k; omega, by simp [nlbl], fun σ hσ => by simp [typeOf, fa.ty σ hσ, fb.ty σ hσ], ?_, ?_⟩
        all_goals
          by_cases hs : (nodeOf op).2 = true
          · -- `a > b` is `b < a`: `a` is the right-hand node, generated first
            have ea := fa.c; have eb := fb.c
            simp only [hs, if_true] at ea eb fa fb ⊢
            have ra : InR c0 (c0 + nlbl a) (defs ca) := by have := fa.rng; rwa [ea] at this
            have rb : InR (c0 + nlbl a) (c0 + (nlbl a + nlbl b)) (defs cb) := by
              have := fb.rng; rw [eb] at this; rwa [Nat.add_assoc] at this
            first
            | (by_cases hsh : op.isShift = true <;>
                simp only [hsh, if_true, Bool.false_eq_true, if_false, defs_append, defs_J, defs_cons_ins, List.append_nil] <;>
                exact (ra.mono (Nat.le_refl _) (by omega)).append (rb.mono (by omega) (Nat.le_refl _)))
            | (by_cases hsh : op.isShift = true <;>
                simp only [hsh, if_true, Bool.false_eq_true, if_false, defs_append, defs_J, defs_cons_ins, List.append_nil] <;>
                exact nodup_append_InR fa.nodup fb.nodup ra rb)
          · have hs' : (nodeOf op).2 = false := by simpa using hs
            have ea := fa.c; have eb := fb.c
            simp only [hs', Bool.false_eq_true, if_false] at ea eb fa fb ⊢
            have rb : InR c0 (c0 + nlbl b) (defs cb) := by have := fb.rng; rwa [eb] at this
            have ra : InR (c0 + nlbl b) (c0 + (nlbl a + nlbl b)) (defs ca) := by
              have := fa.rng; rw [ea] at this
              exact this.mono (Nat.le_refl _) (by omega)
            first
            | (by_cases hsh : op.isShift = true <;>
                simp only [hsh, if_true, Bool.false_eq_true, if_false, defs_append, defs_J, defs_cons_ins, List.append_nil] <;>
                exact (rb.mono (Nat.le_refl _) (by omega)).append (ra.mono (by omega) (Nat.le_refl _)))
            | (by_cases hsh : op.isShift = true <;>
                simp only [hsh, if_true, Bool.false_eq_true, if_false, defs_append, defs_J, defs_cons_ins, List.append_nil] <;>
                exact nodup_append_InR fb.nodup fa.nodup rb ra)
  | comma a b iha ihb =>
    intro k0 c0 t code k1 c1 h
    simp only [compileJ] at h
    cases ha : compileJ tys off toff k0 c0 a with
    | none => simp [ha] at h
    | some pa =>
      obtain ⟨ta, ca, ka, c1a⟩ := pa
      simp only [ha, Option.map_eq_some_iff, Prod.mk.injEq] at h
      obtain ⟨⟨tb, cb, kb, c1b⟩, hb, h1, h2, h3, h4⟩ := h
      simp only at h1 h2 h3 h4
      subst h1 h2 h3 h4
      have fa := iha k0 c0 ta ca ka c1a ha
      have fb := ihb ka c1a tb cb kb c1b hb
      have ea := fa.c; have eb := fb.c
      refine ⟨by have := fa.k; have := fb.k; omega, by simp only [nlbl]; omega, fun σ hσ => by simp [typeOf, fb.ty σ hσ], ?_, ?_⟩
      · rw [defs_append]; exact (fa.rng.mono (Nat.le_refl _) (by omega)).append (fb.rng.mono (by omega) (Nat.le_refl _))
      · rw [defs_append]; exact nodup_append_InR fa.nodup fb.nodup fa.rng fb.rng
  | assign i e ih =>
    intro k0 c0 t code k1 c1 h
    simp only [compileJ] at h
    cases hti : tys[i]? with
    | none => simp [hti] at h
    | some ti =>
      cases he : compileJ tys off toff k0 c0 e with
      | none => simp [hti, he] at h
      | some pe =>
        obtain ⟨te, cd, k, c⟩ := pe
        simp only [hti, he, Option.some.injEq, Prod.mk.injEq] at h
        obtain ⟨rfl, rfl, rfl, rfl⟩ := h
        have f := ih k0 c0 te cd k c he
        exact ⟨f.k, by simpa [nlbl] using f.c, fun σ hσ => by simp [typeOf, Env.ty?, hσ, hti],
          by simpa [defs_append, defs_J, defs_cons_ins] using f.rng, by simpa [defs_append, defs_J, defs_cons_ins] using f.nodup⟩
  | opassign op i e ih =>
    intro k0 c0 t code k1 c1 h
    simp only [compileJ] at h
    cases hti : tys[i]? with
    | none => simp [hti] at h
    | some ti =>
      cases he : compileJ tys off toff k0 c0 e with
      | none => simp [hti, he] at h
      | some pe =>
        obtain ⟨te, cd, k, c⟩ := pe
        simp only [hti, he] at h
        split at h
        · simp only [Option.some.injEq, Prod.mk.injEq] at h
          obtain ⟨rfl, rfl, rfl, rfl⟩ := h
          have f := ih k0 c0 te cd k c he
          exact ⟨by have := f.k; omega, by simpa [nlbl] using f.c, fun σ hσ => by simp [typeOf, Env.ty?, hσ, hti],
            by rw [defs_opAssignCodeJ]; exact f.rng, by rw [defs_opAssignCodeJ]; exact f.nodup⟩
        · simp at h
  | preinc i =>
    intro k0 c0 t code k1 c1 h
    obtain ⟨cd, hx, rfl, rfl⟩ := leaf_of_map (e := .preinc i) h
    have f := compileX_facts tys off toff _ k0 t cd k1 hx
    exact CJ.of_J rfl f.2.1 f.2.2
  | predec i =>
    intro k0 c0 t code k1 c1 h
    obtain ⟨cd, hx, rfl, rfl⟩ := leaf_of_map (e := .predec i) h
    have f := compileX_facts tys off toff _ k0 t cd k1 hx
    exact CJ.of_J rfl f.2.1 f.2.2
  | postinc i =>
    intro k0 c0 t code k1 c1 h
    obtain ⟨cd, hx, rfl, rfl⟩ := leaf_of_map (e := .postinc i) h
    have f := compileX_facts tys off toff _ k0 t cd k1 hx
    exact CJ.of_J rfl f.2.1 f.2.2
  | postdec i =>
    intro k0 c0 t code k1 c1 h
    obtain ⟨cd, hx, rfl, rfl⟩ := leaf_of_map (e := .postdec i) h
    have f := compileX_facts tys off toff _ k0 t cd k1 hx
    exact CJ.of_J rfl f.2.1 f.2.2
  | land a b iha ihb =>
    intro k0 c0 t code k1 c1 h
    simp only [compileJ] at h
    cases ha : compileJ tys off toff k0 (c0 + 1) a with
    | none => simp [ha] at h
    | some pa =>
      obtain ⟨ta, ca, ka, c1a⟩ := pa
      simp only [ha, Option.map_eq_some_iff, Prod.mk.injEq] at h
      obtain ⟨⟨tb, cb, kb, c1b⟩, hb, h1, h2, h3, h4⟩ := h
      simp only at h1 h2 h3 h4
      subst h1 h2 h3 h4
      have fa := iha k0 _ ta ca ka c1a ha
      have fb := ihb ka c1a tb cb kb c1b hb
      have ea := fa.c; have eb := fb.c
      refine ⟨by have := fa.k; have := fb.k; omega, by simp only [nlbl]; omega, fun σ _ => by simp [typeOf], ?_, ?_⟩
      · rw [defs_landCode]
        refine (fa.rng.mono (by omega) (by omega)).append ((fb.rng.mono (by omega) (Nat.le_refl _)).append ?_)
        intro l hl
        simp only [List.mem_cons, List.not_mem_nil, or_false] at hl
        rcases hl with rfl | rfl <;> simp only <;> omega
      · rw [defs_landCode]
        exact nodup_land (by decide) (by omega) fa.nodup fb.nodup fa.rng fb.rng
  | lor a b iha ihb =>
    intro k0 c0 t code k1 c1 h
    simp only [compileJ] at h
    cases ha : compileJ tys off toff k0 (c0 + 1) a with
    | none => simp [ha] at h
    | some pa =>
      obtain ⟨ta, ca, ka, c1a⟩ := pa
      simp only [ha, Option.map_eq_some_iff, Prod.mk.injEq] at h
      obtain ⟨⟨tb, cb, kb, c1b⟩, hb, h1, h2, h3, h4⟩ := h
      simp only at h1 h2 h3 h4
      subst h1 h2 h3 h4
      have fa := iha k0 _ ta ca ka c1a ha
      have fb := ihb ka c1a tb cb kb c1b hb
      have ea := fa.c; have eb := fb.c
      refine ⟨by have := fa.k; have := fb.k; omega, by simp only [nlbl]; omega, fun σ _ => by simp [typeOf], ?_, ?_⟩
      · rw [defs_lorCode]
        refine (fa.rng.mono (by omega) (by omega)).append ((fb.rng.mono (by omega) (Nat.le_refl _)).append ?_)
        intro l hl
        simp only [List.mem_cons, List.not_mem_nil, or_false] at hl
        rcases hl with rfl | rfl <;> simp only <;> omega
      · rw [defs_lorCode]
        exact nodup_land (by decide) (by omega) fa.nodup fb.nodup fa.rng fb.rng
  | cond cnd a b ihc iha ihb =>
    intro k0 c0 t code k1 c1 h
    simp only [compileJ] at h
    cases hc : compileJ tys off toff k0 (c0 + 1) cnd with
    | none => simp [hc] at h
    | some pc =>
      obtain ⟨tc, cc, kc, c1c⟩ := pc
      simp only [hc] at h
      cases ha : compileJ tys off toff kc c1c a with
      | none => simp [ha] at h
      | some pa =>
        obtain ⟨ta, ca, ka, c1a⟩ := pa
        simp only [ha, Option.map_eq_some_iff, Prod.mk.injEq] at h
        obtain ⟨⟨tb, cb, kb, c1b⟩, hb, h1, h2, h3, h4⟩ := h
        simp only at h1 h2 h3 h4
        subst h1 h2 h3 h4
        have fc := ihc k0 _ tc cc kc c1c hc
        have fa := iha kc c1c ta ca ka c1a ha
        have fb := ihb ka c1a tb cb kb c1b hb
        have ec := fc.c; have ea := fa.c; have eb := fb.c
        refine ⟨by have := fc.k; have := fa.k; have := fb.k; omega, by simp only [nlbl]; omega,
          fun σ hσ => by simp [typeOf, fa.ty σ hσ, fb.ty σ hσ], ?_, ?_⟩
        · rw [defs_condCode]
          simp only [defs_append, defs_J, List.append_nil]
          refine (fc.rng.mono (by omega) (by omega)).append ((fa.rng.mono (by omega) (by omega)).append ?_)
          intro l hl
          simp only [List.mem_cons, List.mem_append, List.not_mem_nil, or_false] at hl
          rcases hl with rfl | hl | rfl
          · simp only; omega
          · have := fb.rng l hl; omega
          · simp only; omega
        · rw [defs_condCode]
          simp only [defs_append, defs_J, List.append_nil]
          exact nodup_cond (k1 := .else_) (k2 := .end_) (by decide) (by omega) (by omega) fc.nodup fa.nodup fb.nodup fc.rng fa.rng fb.rng

/-! ### `compileJ` extends `compileX` -/

theorem J_opAssignCode (k : NK) (op : BinOp) (ti tb : ITy) (offA tmp : Int) (cb : List Ins) :
    opAssignCodeJ k op ti tb offA tmp (J cb) = J (opAssignCode k op ti tb offA tmp cb) := by
  simp [opAssignCodeJ, opAssignCode, J, List.map_append]

/-- **on the expressions `compileX` handles, `compileJ` gives the same code** (as a jump-free program), the same type, the
    same temporaries, and draws no label number -/
theorem compileJ_of_compileX (tys : List ITy) (off toff : Nat → Int) (e : E) : ∀ (k c : Nat) (t : ITy) (code : List Ins) (k1 : Nat),
    compileX tys off toff k e = some (t, code, k1) → compileJ tys off toff k c e = some (t, J code, k1, c) ∧ nlbl e = 0 := by
  induction e with
  | lit t0 v0 =>
    intro k c t code k1 h
    simp only [compileX, Option.some.injEq, Prod.mk.injEq] at h
    obtain ⟨rfl, rfl, rfl⟩ := h
    exact ⟨rfl, rfl⟩
  | var i =>
    intro k c t code k1 h
    simp only [compileX, Option.map_eq_some_iff, Prod.mk.injEq] at h
    obtain ⟨t0, h0, rfl, rfl, rfl⟩ := h
    exact ⟨by simp [compileJ, h0], rfl⟩
  | cast t0 e ih =>
    intro k c t code k1 h
    simp only [compileX, Option.map_eq_some_iff, Prod.mk.injEq] at h
    obtain ⟨⟨te, cd, k'⟩, h0, rfl, rfl, rfl⟩ := h
    obtain ⟨e1, e2⟩ := ih k c te cd k' h0
    exact ⟨by simp [compileJ, e1, J_append], by simpa [nlbl] using e2⟩
  | un op e ih =>
    intro k c t code k1 h
    simp only [compileX, Option.map_eq_some_iff] at h
    obtain ⟨⟨te, cd, k'⟩, h0, h1⟩ := h
    obtain ⟨e1, e2⟩ := ih k c te cd k' h0
    cases op <;> simp only [Prod.mk.injEq] at h1 <;> obtain ⟨rfl, rfl, rfl⟩ := h1 <;>
      exact ⟨by simp [compileJ, e1, J_append], by simpa [nlbl] using e2⟩
  | bin op a b iha ihb =>
    intro k c t code k1 h
    simp only [compileX] at h
    cases ha : compileX tys off toff k a with
    | none => simp [ha] at h
    | some pa =>
      obtain ⟨ta, ca, ka⟩ := pa
      simp only [ha] at h
      cases hb : compileX tys off toff ka b with
      | none => simp [hb] at h
      | some pb =>
        obtain ⟨tb, cb, kb⟩ := pb
        simp only [hb, Option.some.injEq, Prod.mk.injEq] at h
        obtain ⟨rfl, rfl, rfl⟩ := h
        have na := (iha k c ta ca ka ha).2
        have nb := (ihb ka c tb cb kb hb).2
        have ea := fun c' => (iha k c' ta ca ka ha).1
        have eb := fun c' => (ihb ka c' tb cb kb hb).1
        refine ⟨?_, by simp [nlbl, na, nb]⟩
        simp only [compileJ, ea, eb, na, nb, Nat.add_zero]
        by_cases hs : (nodeOf op).2 = true <;> by_cases hsh : op.isShift = true <;>
          simp [hs, hsh, J_append, J_cons, J_nil]
  | comma a b iha ihb =>
    intro k c t code k1 h
    simp only [compileX] at h
    cases ha : compileX tys off toff k a with
    | none => simp [ha] at h
    | some pa =>
      obtain ⟨ta, ca, ka⟩ := pa
      simp only [ha, Option.map_eq_some_iff, Prod.mk.injEq] at h
      obtain ⟨⟨tb, cb, kb⟩, hb, rfl, rfl, rfl⟩ := h
      obtain ⟨ea, na⟩ := iha k c ta ca ka ha
      obtain ⟨eb, nb⟩ := ihb ka c tb cb kb hb
      exact ⟨by simp [compileJ, ea, eb, J_append], by simp [nlbl, na, nb]⟩
  | assign i e ih =>
    intro k c t code k1 h
    simp only [compileX] at h
    cases hti : tys[i]? with
    | none => simp [hti] at h
    | some ti =>
      cases he : compileX tys off toff k e with
      | none => simp [hti, he] at h
      | some pe =>
        obtain ⟨te, cd, k'⟩ := pe
        simp only [hti, he, Option.some.injEq, Prod.mk.injEq] at h
        obtain ⟨rfl, rfl, rfl⟩ := h
        obtain ⟨e1, e2⟩ := ih k c te cd k' he
        exact ⟨by simp [compileJ, hti, e1, J_append, J_cons, J_nil], by simpa [nlbl] using e2⟩
  | opassign op i e ih =>
    intro k c t code k1 h
    simp only [compileX] at h
    cases hti : tys[i]? with
    | none => simp [hti] at h
    | some ti =>
      cases he : compileX tys off toff k e with
      | none => simp [hti, he] at h
      | some pe =>
        obtain ⟨te, cd, k'⟩ := pe
        simp only [hti, he] at h
        split at h
        · rename_i hcomp
          simp only [Option.some.injEq, Prod.mk.injEq] at h
          obtain ⟨rfl, rfl, rfl⟩ := h
          obtain ⟨e1, e2⟩ := ih k c te cd k' he
          exact ⟨by simp [compileJ, hti, e1, hcomp, J_opAssignCode], by simpa [nlbl] using e2⟩
        · simp at h
  | preinc i => intro k c t code k1 h; exact ⟨by simp [compileJ, h], rfl⟩
  | predec i => intro k c t code k1 h; exact ⟨by simp [compileJ, h], rfl⟩
  | postinc i => intro k c t code k1 h; exact ⟨by simp [compileJ, h], rfl⟩
  | postdec i => intro k c t code k1 h; exact ⟨by simp [compileJ, h], rfl⟩
  | land a b => intro k c t code k1 h; simp [compileX] at h
  | lor a b => intro k c t code k1 h; simp [compileX] at h
  | cond cnd a b => intro k c t code k1 h; simp [compileX] at h

/-- … and needs the same stack depth -/
theorem depthJ_of_straight (e : E) (h : straight e = true) : depthJ e = depthX e := by
  induction e with
  | lit _ _ | var _ | preinc _ | predec _ | postinc _ | postdec _ => rfl
  | cast _ e ih | un _ e ih | assign _ e ih | opassign _ _ e ih => simp only [straight] at h; simp [depthJ, depthX, ih h]
  | bin op a b iha ihb | comma a b iha ihb =>
    simp only [straight, Bool.and_eq_true] at h; simp [depthJ, depthX, iha h.1, ihb h.2]
  | land _ _ | lor _ _ | cond _ _ _ => simp [straight] at h

end ChibiVerif.C01
