/-
C18 — all processing orders of one file.  `preprocess2` reads the tokens of a file from top to bottom: a directive is obeyed
at its turn; any other token is either passed on at its turn or becomes part of a macro body (`store`) and is passed on later —
any number of times, at any later moment, also after the end of the file (a macro of a header expanded in the includer).
`Sched` generates exactly these event orders; the hypotheses of `C18_line_directive_order_independent` hold in all of them.
-/
import ChibiVerif.Lemmas.LineNoMarkers

namespace ChibiVerif.LineNo
open ChibiVerif.Spec.Line (Dir inForce presumedLineAt presumedFileAt)

def Ev.off : Ev → Nat
  | .tok o => o
  | .lineDir o _ _ => o
  | .lineMac o => o
  | .fileMac o => o

/-- the line (as `add_line_numbers` computes it) an event's token is on -/
def Ev.lineIn (text : List Nat) (e : Ev) : Nat := lineNoOf text e.off

/-- the items of a file in file order: lines do not decrease, and a directive has its line(s) to itself -/
def FileOrder (text : List Nat) (items : List Ev) : Prop :=
  items.Pairwise (fun a b => a.lineIn text ≤ b.lineIn text ∧
    ((a.isDir = true ∨ b.isDir = true) → a.lineIn text < b.lineIn text))

instance (text : List Nat) (items : List Ev) : Decidable (FileOrder text items) := by
  unfold FileOrder; infer_instance

/-- `Sched rest bag evs`: with the items `rest` of the file still unread and the tokens `bag` sitting in macro bodies,
    `preprocess2` can meet the events `evs` (in this order) from now on -/
inductive Sched : List Ev → List Ev → List Ev → Prop
  | done (bag : List Ev) : Sched [] bag []
  | now (e : Ev) (rest bag evs : List Ev) : Sched rest bag evs → Sched (e :: rest) bag (e :: evs)
  | store (e : Ev) (rest bag evs : List Ev) : e.isDir = false → Sched rest (e :: bag) evs → Sched (e :: rest) bag evs
  | expand (e : Ev) (rest bag evs : List Ev) : e ∈ bag → Sched rest bag evs → Sched rest bag (e :: evs)

/-- what the positional specification says `preprocess2` reports for a probe event, over the directives `dirs` of the file -/
def specOut (text : List Nat) (name : String) (dirs : List Dir) (e : Ev) : Out :=
  let l := e.lineIn text
  let line : Int := presumedLineAt dirs l + (if (inForce dirs l).isSome then 1 else 0)
  match e with
  | .fileMac _ => .file (presumedFileAt name dirs l)
  | .lineMac _ => .line line
  | _ => .tok line (presumedFileAt name dirs l)

theorem dirsOf_single_noDir (text : List Nat) (e : Ev) (h : e.isDir = false) : dirsOf text [e] = [] :=
  dirsOf_noDir text [e] (by intro x hx; simp at hx; subst hx; exact h)

theorem mem_dirsOf (text : List Nat) (evs : List Ev) (d : Dir) (h : d ∈ dirsOf text evs) :
    ∃ e ∈ evs, e.isDir = true ∧ e.lineIn text = d.line := by
  simp only [dirsOf, List.mem_filterMap] at h
  obtain ⟨e, he, hd⟩ := h
  cases e <;> simp [Ev.dir?] at hd
  subst hd
  exact ⟨_, he, rfl, rfl⟩

theorem fileOrder_dirs_ascending (text : List Nat) (items : List Ev) (h : FileOrder text items) :
    (dirsOf text items).Pairwise (fun a c => a.line < c.line) := by
  unfold dirsOf
  refine List.Pairwise.filterMap _ ?_ h
  intro a a' hR b hb b' hb'
  cases a <;> simp [Ev.dir?] at hb
  cases a' <;> simp [Ev.dir?] at hb'
  subst hb hb'
  exact hR.2 (Or.inl rfl)

/-- one probe event, met after the events `sofar`, against the specification over the directives of the whole file -/
theorem probe_positional (text : List Nat) (name : String) (fileNo : Nat) (sofar : List Ev) (later : List Dir) (e : Ev)
    (he : e.isDir = false)
    (hasc : (dirsOf text sofar ++ later).Pairwise (fun a c => a.line < c.line))
    (hlater : ∀ d ∈ later, e.lineIn text ≤ d.line) :
    (runFile text (newFile name fileNo) (sofar ++ [e])).getLast? = some (specOut text name (dirsOf text sofar ++ later) e) := by
  have hm := markerAt_positional name fileNo (dirsOf text sofar) later (e.lineIn text) hasc hlater
  have hline := reportedLineAt_eq (dirsOf text sofar ++ later) (e.lineIn text)
  unfold reportedLineAt at hline
  cases e with
  | lineDir o n nm => simp [Ev.isDir] at he
  | tok o =>
    rw [runFile_last_tok, stateAfter_eq_pushDirs]
    simp only [Ev.lineIn, Ev.off] at hm hline
    rw [hm.1, hm.2, hline]; rfl
  | lineMac o =>
    rw [runFile_last_lineMac, stateAfter_eq_pushDirs]
    simp only [Ev.lineIn, Ev.off] at hm hline
    rw [hm.1, hline]; rfl
  | fileMac o =>
    rw [runFile_last_fileMac, stateAfter_eq_pushDirs]
    simp only [Ev.lineIn, Ev.off] at hm
    rw [hm.2]; rfl

theorem sched_positional (text : List Nat) (name : String) (fileNo : Nat) (rest bag evs : List Ev) (hs : Sched rest bag evs) :
    ∀ (sofar consumed : List Ev),
      dirsOf text sofar = dirsOf text consumed →
      (∀ b ∈ bag, b ∈ consumed ∧ b.isDir = false) →
      FileOrder text (consumed ++ rest) →
      ∀ (pre : List Ev) (e : Ev) (post : List Ev), evs = pre ++ e :: post → e.isDir = false →
        (runFile text (newFile name fileNo) (sofar ++ pre ++ [e])).getLast?
          = some (specOut text name (dirsOf text (consumed ++ rest)) e) := by
  induction hs with
  | done bag => intro _ _ _ _ _ pre e post h; simp at h
  | now e0 rest bag evs _ ih =>
    intro sofar consumed h1 h2 h3 pre e post hsplit he
    have h3' : FileOrder text ((consumed ++ [e0]) ++ rest) := by simpa using h3
    cases pre with
    | nil =>
      simp only [List.nil_append, List.cons.injEq] at hsplit
      obtain ⟨rfl, _⟩ := hsplit
      have hd : dirsOf text (consumed ++ e0 :: rest) = dirsOf text sofar ++ dirsOf text rest := by
        rw [dirsOf_append, h1, show e0 :: rest = [e0] ++ rest from rfl, dirsOf_append, dirsOf_single_noDir text e0 he]; rfl
      rw [hd, List.append_nil]
      refine probe_positional text name fileNo sofar (dirsOf text rest) e0 he ?_ ?_
      · rw [← hd]; exact fileOrder_dirs_ascending text _ h3
      · intro d hd'
        obtain ⟨x, hx, _, hxl⟩ := mem_dirsOf text rest d hd'
        have := (List.pairwise_append.mp h3).2.1
        have := (List.pairwise_cons.mp this).1 x hx
        omega
    | cons p pre' =>
      simp only [List.cons_append, List.cons.injEq] at hsplit
      obtain ⟨rfl, hsplit⟩ := hsplit
      have := ih (sofar ++ [e0]) (consumed ++ [e0]) (by rw [dirsOf_append, dirsOf_append, h1])
        (fun b hb => ⟨by simp [(h2 b hb).1], (h2 b hb).2⟩) h3' pre' e post hsplit he
      simpa using this
  | store e0 rest bag evs hnd _ ih =>
    intro sofar consumed h1 h2 h3 pre e post hsplit he
    have h3' : FileOrder text ((consumed ++ [e0]) ++ rest) := by simpa using h3
    have := ih sofar (consumed ++ [e0]) (by rw [dirsOf_append, dirsOf_single_noDir text e0 hnd, List.append_nil, h1])
      (fun b hb => by
        simp only [List.mem_cons] at hb
        rcases hb with rfl | hb
        · exact ⟨by simp, hnd⟩
        · exact ⟨by simp [(h2 b hb).1], (h2 b hb).2⟩) h3' pre e post hsplit he
    simpa using this
  | expand e0 rest bag evs hmem _ ih =>
    intro sofar consumed h1 h2 h3 pre e post hsplit he
    have he0 := h2 e0 hmem
    cases pre with
    | nil =>
      simp only [List.nil_append, List.cons.injEq] at hsplit
      obtain ⟨rfl, _⟩ := hsplit
      have hd : dirsOf text (consumed ++ rest) = dirsOf text sofar ++ dirsOf text rest := by rw [dirsOf_append, h1]
      rw [hd, List.append_nil]
      refine probe_positional text name fileNo sofar (dirsOf text rest) e0 he ?_ ?_
      · rw [← hd]; exact fileOrder_dirs_ascending text _ h3
      · intro d hd'
        obtain ⟨x, hx, hxd, hxl⟩ := mem_dirsOf text rest d hd'
        have := (List.pairwise_append.mp h3).2.2 e0 he0.1 x hx
        have := this.2 (Or.inr hxd)
        omega
    | cons p pre' =>
      simp only [List.cons_append, List.cons.injEq] at hsplit
      obtain ⟨rfl, hsplit⟩ := hsplit
      have := ih (sofar ++ [e0]) consumed
        (by rw [dirsOf_append, dirsOf_single_noDir text e0 he0.2, List.append_nil, h1]) h2 h3 pre' e post hsplit he
      simpa using this

end ChibiVerif.LineNo
