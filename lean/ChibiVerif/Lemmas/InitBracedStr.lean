/-
C05/C13: the braced-string branch of `initializer2` (C11 6.7.9p14-15, `bracedStr`): what its guard says, and that the branch is
`initializer2` on the same literal without the braces.
-/
import ChibiVerif.Model.Init

namespace ChibiVerif.Init

theorem consumeEnd_length {r rest : List ITok} (h : consumeEnd r = some rest) : rest.length + 1 ≤ r.length := by
  unfold consumeEnd at h
  split at h
  · cases h; simp
  · cases h; simp only [List.length_cons]; omega
  · cases h

theorem isIntNotBool_isInteger {elem : Ty} (h : elem.isIntNotBool = true) : elem.isInteger = true := by
  unfold Ty.isIntNotBool at h
  split at h
  · rfl
  · cases h

/-- the guard of the braced-string branch, spelled out -/
theorem bracedStr_some {elem : Ty} {r : List ITok} {id : Nat} {bytes : List Nat} {esz : Nat} {rest : List ITok}
    (h : bracedStr elem r = some (id, bytes, esz, rest)) :
    ∃ tail, r = .str id bytes esz :: tail ∧ consumeEnd tail = some rest ∧ elem.isIntNotBool = true ∧
      elem.size = (esz : Int) := by
  unfold bracedStr at h
  split at h
  · rename_i id' bytes' esz' tail
    split at h
    · rename_i hg
      simp only [Bool.and_eq_true, beq_iff_eq] at hg
      split at h
      · rename_i rest' hce
        cases h
        exact ⟨tail, rfl, hce, hg.1, hg.2⟩
      · cases h
    · cases h
  · cases h

theorem bracedStr_length {elem : Ty} {r : List ITok} {id : Nat} {bytes : List Nat} {esz : Nat} {rest : List ITok}
    (h : bracedStr elem r = some (id, bytes, esz, rest)) : rest.length + 2 ≤ r.length := by
  obtain ⟨tail, rfl, hce, _, _⟩ := bracedStr_some h
  have := consumeEnd_length hce
  simp only [List.length_cons]; omega

/-- with the guard, `{ "…" }` is parsed as the literal alone (followed by what follows the `}`) -/
theorem initializer2_array_bracedStr {f : Nat} {elem : Ty} {n : Nat} {r : List ITok} {id : Nat} {bytes : List Nat} {esz : Nat}
    {rest : List ITok} (init : Init) (h : bracedStr elem r = some (id, bytes, esz, rest)) :
    initializer2 (f+1) (.array elem n) (.lbrace :: r) init =
      initializer2 (f+1) (.array elem n) (.str id bytes esz :: rest) init := by
  obtain ⟨_, _, _, hi, _⟩ := bracedStr_some h
  rw [initializer2, initializer2]
  simp only [h, isIntNotBool_isInteger hi, ↓reduceIte]

theorem initializer2_inc_bracedStr {f : Nat} {elem : Ty} {r : List ITok} {id : Nat} {bytes : List Nat} {esz : Nat}
    {rest : List ITok} (init : Init) (h : bracedStr elem r = some (id, bytes, esz, rest)) :
    initializer2 (f+1) (.inc elem) (.lbrace :: r) init =
      initializer2 (f+1) (.inc elem) (.str id bytes esz :: rest) init := by
  obtain ⟨_, _, _, hi, _⟩ := bracedStr_some h
  rw [initializer2, initializer2]
  simp only [h, isIntNotBool_isInteger hi, ↓reduceIte]

/-- without the guard, `{` starts `array_initializer1` as before -/
theorem initializer2_array_brace_none {f : Nat} {elem : Ty} {n : Nat} {r : List ITok} (init : Init)
    (h : bracedStr elem r = none) :
    initializer2 (f+1) (.array elem n) (.lbrace :: r) init = arrayInit1 f elem (.lbrace :: r) init := by
  rw [initializer2]
  simp only [h]

theorem initializer2_inc_brace_none {f : Nat} {elem : Ty} {r : List ITok} (init : Init)
    (h : bracedStr elem r = none) :
    initializer2 (f+1) (.inc elem) (.lbrace :: r) init = arrayInit1 f elem (.lbrace :: r) init := by
  rw [initializer2]
  simp only [h]

end ChibiVerif.Init
