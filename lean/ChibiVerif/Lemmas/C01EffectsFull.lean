/-
C01: facts about the specification `evalE` for the FULL expression type (`&&`, `||`, `?:` included) needed by
`C01_value_full` — the counterparts of `evalE_frm`, `evalE_agree`, `swap_eval` (Lemmas/C01Effects.lean, which assume
`straight e`).

With conditionally evaluated operands a variable in `wr e` need not be written, so "the resulting stores agree on `wr e`"
(the conclusion of `evalE_agree`) is false (`0 && (x = 1)` from two stores that differ at `x`).  The right statement is
`Loc`: after evaluating `e` from two stores that agree on `rd e`, every variable is either equal in both results, or
untouched in both.
-/
import ChibiVerif.Lemmas.C01Effects

namespace ChibiVerif.C01
open ChibiVerif.X86 ChibiVerif.Asm ChibiVerif.Spec.IntSpec ChibiVerif.Gen.CommonType ChibiVerif.C01Codegen

/-- **an evaluation changes at most the variables in `wr e`** (never the types or the number of variables) — every form -/
theorem evalE_frm_all (e : E) : ∀ (σ : Env) (v : Int) (σ' : Env), evalE σ e = some (v, σ') → Frm (wr e) σ σ' := by
  induction e with
  | lit t v0 =>
    intro σ v σ' h
    simp only [evalE] at h
    split at h
    · simp only [Option.some.injEq, Prod.mk.injEq] at h; rw [← h.2]; exact Frm.refl _ _
    · simp at h
  | var i =>
    intro σ v σ' h
    simp only [evalE, Option.map_eq_some_iff, Prod.mk.injEq] at h
    obtain ⟨_, _, _, rfl⟩ := h
    exact Frm.refl _ _
  | un op e ih =>
    intro σ v σ' h
    simp only [evalE, Option.bind_eq_bind, Option.bind_eq_some_iff] at h
    obtain ⟨t, _, ⟨v1, σ1⟩, he, x, _, h⟩ := h
    simp only [Option.some.injEq, Prod.mk.injEq] at h
    rw [← h.2]; exact ih σ v1 σ1 he
  | cast t e ih =>
    intro σ v σ' h
    simp only [evalE, Option.bind_eq_bind, Option.bind_eq_some_iff] at h
    obtain ⟨⟨v1, σ1⟩, he, h⟩ := h
    simp only [Option.some.injEq, Prod.mk.injEq] at h
    rw [← h.2]; exact ih σ v1 σ1 he
  | bin op a b iha ihb =>
    intro σ v σ' h
    simp only [evalE, Option.bind_eq_bind, Option.bind_eq_some_iff] at h
    obtain ⟨ta, _, tb, _, ⟨va, σ1⟩, hea, ⟨vb, σ2⟩, heb, x, _, h⟩ := h
    simp only [Option.some.injEq, Prod.mk.injEq] at h
    rw [← h.2]; exact (iha σ va σ1 hea).trans (ihb σ1 vb σ2 heb)
  | comma a b iha ihb =>
    intro σ v σ' h
    simp only [evalE, Option.bind_eq_bind, Option.bind_eq_some_iff] at h
    obtain ⟨⟨va, σ1⟩, hea, h⟩ := h
    exact (iha σ va σ1 hea).trans (ihb σ1 v σ' h)
  | assign i e ih =>
    intro σ v σ' h
    simp only [evalE, Option.bind_eq_bind, Option.bind_eq_some_iff] at h
    obtain ⟨t, _, ⟨v1, σ1⟩, he, h⟩ := h
    simp only [Option.some.injEq, Prod.mk.injEq] at h
    rw [← h.2]
    exact ((ih σ v1 σ1 he).trans (Frm.set σ1 i _)).mono (fun j hj => by
      simp only [wr, List.mem_append, List.mem_cons, List.not_mem_nil, or_false] at hj ⊢; exact hj.symm)
  | opassign op i e ih =>
    intro σ v σ' h
    simp only [evalE, Option.bind_eq_bind, Option.bind_eq_some_iff] at h
    obtain ⟨tx, _, te, _, ⟨v1, σ1⟩, he, x, _, r, _, h⟩ := h
    simp only [Option.some.injEq, Prod.mk.injEq] at h
    rw [← h.2]
    exact ((ih σ v1 σ1 he).trans (Frm.set σ1 i _)).mono (fun j hj => by
      simp only [wr, List.mem_append, List.mem_cons, List.not_mem_nil, or_false] at hj ⊢; exact hj.symm)
  | preinc i =>
    intro σ v σ' h
    simp only [evalE, Option.bind_eq_bind, Option.bind_eq_some_iff] at h
    obtain ⟨tx, _, x, _, r, _, h⟩ := h
    simp only [Option.some.injEq, Prod.mk.injEq] at h
    rw [← h.2]; exact Frm.set σ i _
  | predec i =>
    intro σ v σ' h
    simp only [evalE, Option.bind_eq_bind, Option.bind_eq_some_iff] at h
    obtain ⟨tx, _, x, _, r, _, h⟩ := h
    simp only [Option.some.injEq, Prod.mk.injEq] at h
    rw [← h.2]; exact Frm.set σ i _
  | postinc i =>
    intro σ v σ' h
    simp only [evalE, Option.bind_eq_bind, Option.bind_eq_some_iff] at h
    obtain ⟨tx, _, x, _, r, _, h⟩ := h
    simp only [Option.some.injEq, Prod.mk.injEq] at h
    rw [← h.2]; exact Frm.set σ i _
  | postdec i =>
    intro σ v σ' h
    simp only [evalE, Option.bind_eq_bind, Option.bind_eq_some_iff] at h
    obtain ⟨tx, _, x, _, r, _, h⟩ := h
    simp only [Option.some.injEq, Prod.mk.injEq] at h
    rw [← h.2]; exact Frm.set σ i _
  | land a b iha ihb =>
    intro σ v σ' h
    simp only [evalE, Option.bind_eq_bind, Option.bind_eq_some_iff] at h
    obtain ⟨⟨va, σ1⟩, hea, h⟩ := h
    simp only at h
    split at h
    · simp only [Option.some.injEq, Prod.mk.injEq] at h
      rw [← h.2]; exact (iha σ va σ1 hea).mono (fun j hj => by simp [wr, hj])
    · simp only [Option.bind_eq_some_iff] at h
      obtain ⟨⟨vb, σ2⟩, heb, h⟩ := h
      simp only [Option.some.injEq, Prod.mk.injEq] at h
      rw [← h.2]; exact (iha σ va σ1 hea).trans (ihb σ1 vb σ2 heb)
  | lor a b iha ihb =>
    intro σ v σ' h
    simp only [evalE, Option.bind_eq_bind, Option.bind_eq_some_iff] at h
    obtain ⟨⟨va, σ1⟩, hea, h⟩ := h
    simp only at h
    split at h
    · simp only [Option.some.injEq, Prod.mk.injEq] at h
      rw [← h.2]; exact (iha σ va σ1 hea).mono (fun j hj => by simp [wr, hj])
    · simp only [Option.bind_eq_some_iff] at h
      obtain ⟨⟨vb, σ2⟩, heb, h⟩ := h
      simp only [Option.some.injEq, Prod.mk.injEq] at h
      rw [← h.2]; exact (iha σ va σ1 hea).trans (ihb σ1 vb σ2 heb)
  | cond c a b ihc iha ihb =>
    intro σ v σ' h
    simp only [evalE, Option.bind_eq_bind, Option.bind_eq_some_iff] at h
    obtain ⟨t, _, ⟨vc, σ1⟩, hec, h⟩ := h
    simp only at h
    split at h
    · simp only [Option.bind_eq_some_iff] at h
      obtain ⟨⟨x, σ2⟩, hea, h⟩ := h
      simp only [Option.some.injEq, Prod.mk.injEq] at h
      rw [← h.2]
      exact ((ihc σ vc σ1 hec).trans (iha σ1 x σ2 hea)).mono (fun j hj => by
        simp only [wr, List.mem_append] at hj ⊢; rcases hj with h | h <;> simp [h])
    · simp only [Option.bind_eq_some_iff] at h
      obtain ⟨⟨x, σ2⟩, heb, h⟩ := h
      simp only [Option.some.injEq, Prod.mk.injEq] at h
      rw [← h.2]
      exact ((ihc σ vc σ1 hec).trans (ihb σ1 x σ2 heb)).mono (fun j hj => by
        simp only [wr, List.mem_append] at hj ⊢; rcases hj with h | h <;> simp [h])

/-- every variable is equal in the two result stores, or untouched in both -/
def Loc (σ1 σ2 σ1' σ2' : Env) : Prop :=
  ∀ i : Nat, σ1'.vals[i]? = σ2'.vals[i]? ∨ (σ1'.vals[i]? = σ1.vals[i]? ∧ σ2'.vals[i]? = σ2.vals[i]?)

theorem Loc.refl (σ1 σ2 : Env) : Loc σ1 σ2 σ1 σ2 := fun _ => Or.inr ⟨rfl, rfl⟩

theorem Loc.trans {a1 a2 b1 b2 c1 c2 : Env} (h1 : Loc a1 a2 b1 b2) (h2 : Loc b1 b2 c1 c2) : Loc a1 a2 c1 c2 := by
  intro i
  rcases h2 i with h | ⟨e1, e2⟩
  · exact Or.inl h
  · rcases h1 i with h | ⟨f1, f2⟩
    · exact Or.inl (by rw [e1, e2, h])
    · exact Or.inr ⟨e1.trans f1, e2.trans f2⟩

/-- agreement on `R` survives a pair of evaluations related by `Loc` -/
theorem Agr.loc {R : List Nat} {σ1 σ2 σ1' σ2' : Env} (hag : Agr R σ1 σ2) (f1 : σ1'.tys = σ1.tys ∧ σ1'.vals.length = σ1.vals.length)
    (f2 : σ2'.tys = σ2.tys ∧ σ2'.vals.length = σ2.vals.length) (hl : Loc σ1 σ2 σ1' σ2') : Agr R σ1' σ2' := by
  refine ⟨f1.1.trans (hag.tys.trans f2.1.symm), f1.2.trans (hag.len.trans f2.2.symm), ?_⟩
  intro i hi
  rcases hl i with h | ⟨e1, e2⟩
  · exact h
  · rw [e1, e2]; exact hag.on i hi

theorem Loc.set {σ1 σ2 σ1' σ2' : Env} (i : Nat) (v : Int) (hlen : σ1'.vals.length = σ2'.vals.length)
    (hl : Loc σ1 σ2 σ1' σ2') : Loc σ1 σ2 (σ1'.set i v) (σ2'.set i v) := by
  intro j
  simp only [Env.set, List.getElem?_set, hlen]
  by_cases h : i = j
  · simp [h]
  · simp only [h, if_false]; exact hl j

/-- **an evaluation depends only on the variables it reads** — every form: from a store that agrees with `σ1` on `R ⊇ rd e`,
    `e` has the same value, and each variable is afterwards equal in both stores or untouched in both -/
theorem evalE_agree_all (e : E) : ∀ (R : List Nat) (σ1 σ2 : Env) (v : Int) (σ1' : Env), (∀ i, i ∈ rd e → i ∈ R) → Agr R σ1 σ2 →
    evalE σ1 e = some (v, σ1') → ∃ σ2', evalE σ2 e = some (v, σ2') ∧ Loc σ1 σ2 σ1' σ2' := by
  induction e with
  | lit t v0 =>
    intro R σ1 σ2 v σ1' _ _ h
    simp only [evalE] at h ⊢
    split at h
    · rename_i hr
      simp only [Option.some.injEq, Prod.mk.injEq] at h
      obtain ⟨rfl, rfl⟩ := h
      exact ⟨σ2, by simp [hr], Loc.refl _ _⟩
    · simp at h
  | var i =>
    intro R σ1 σ2 v σ1' hsub hag h
    simp only [evalE, Env.val?, Option.map_eq_some_iff, Prod.mk.injEq] at h ⊢
    obtain ⟨v0, h0, rfl, rfl⟩ := h
    exact ⟨σ2, ⟨v0, by rw [← hag.on i (hsub i (by simp [rd]))]; exact h0, rfl, rfl⟩, Loc.refl _ _⟩
  | un op e ih =>
    intro R σ1 σ2 v σ1' hsub hag h
    simp only [evalE, Option.bind_eq_bind, Option.bind_eq_some_iff] at h ⊢
    obtain ⟨t, ht, ⟨v1, σ1e⟩, he, x, hx, h⟩ := h
    simp only [Option.some.injEq, Prod.mk.injEq] at h
    obtain ⟨σ2e, he2, hw⟩ := ih R σ1 σ2 v1 σ1e hsub hag he
    refine ⟨σ2e, ⟨t, by rw [← typeOf_congr σ1 σ2 hag.tys]; exact ht, (v1, σ2e), he2, x, hx, by simp [h.1]⟩, ?_⟩
    rw [← h.2]; exact hw
  | cast t e ih =>
    intro R σ1 σ2 v σ1' hsub hag h
    simp only [evalE, Option.bind_eq_bind, Option.bind_eq_some_iff] at h ⊢
    obtain ⟨⟨v1, σ1e⟩, he, h⟩ := h
    simp only [Option.some.injEq, Prod.mk.injEq] at h
    obtain ⟨σ2e, he2, hw⟩ := ih R σ1 σ2 v1 σ1e hsub hag he
    refine ⟨σ2e, ⟨(v1, σ2e), he2, by simp [h.1]⟩, ?_⟩
    rw [← h.2]; exact hw
  | bin op a b iha ihb =>
    intro R σ1 σ2 v σ1' hsub hag h
    simp only [evalE, Option.bind_eq_bind, Option.bind_eq_some_iff] at h ⊢
    obtain ⟨ta, hta, tb, htb, ⟨va, σ1a⟩, hea, ⟨vb, σ1b⟩, heb, x, hx, h⟩ := h
    simp only [Option.some.injEq, Prod.mk.injEq] at h heb hx
    obtain ⟨σ2a, hea2, hwa⟩ := iha R σ1 σ2 va σ1a (fun i hi => hsub i (by simp [rd, hi])) hag hea
    have f1a := evalE_frm_all a σ1 va σ1a hea
    have f2a := evalE_frm_all a σ2 va σ2a hea2
    have hagb : Agr R σ1a σ2a := hag.loc ⟨f1a.tys, f1a.len⟩ ⟨f2a.tys, f2a.len⟩ hwa
    obtain ⟨σ2b, heb2, hwb⟩ := ihb R σ1a σ2a vb σ1b (fun i hi => hsub i (by simp [rd, hi])) hagb heb
    refine ⟨σ2b, ⟨ta, by rw [← typeOf_congr σ1 σ2 hag.tys]; exact hta, tb, by rw [← typeOf_congr σ1 σ2 hag.tys]; exact htb,
      (va, σ2a), hea2, (vb, σ2b), heb2, x, hx, by simp [h.1]⟩, ?_⟩
    rw [← h.2]; exact hwa.trans hwb
  | comma a b iha ihb =>
    intro R σ1 σ2 v σ1' hsub hag h
    simp only [evalE, Option.bind_eq_bind, Option.bind_eq_some_iff] at h ⊢
    obtain ⟨⟨va, σ1a⟩, hea, heb⟩ := h
    simp only at heb
    obtain ⟨σ2a, hea2, hwa⟩ := iha R σ1 σ2 va σ1a (fun i hi => hsub i (by simp [rd, hi])) hag hea
    have f1a := evalE_frm_all a σ1 va σ1a hea
    have f2a := evalE_frm_all a σ2 va σ2a hea2
    have hagb : Agr R σ1a σ2a := hag.loc ⟨f1a.tys, f1a.len⟩ ⟨f2a.tys, f2a.len⟩ hwa
    obtain ⟨σ2b, heb2, hwb⟩ := ihb R σ1a σ2a v σ1' (fun i hi => hsub i (by simp [rd, hi])) hagb heb
    exact ⟨σ2b, ⟨(va, σ2a), hea2, heb2⟩, hwa.trans hwb⟩
  | assign i e ih =>
    intro R σ1 σ2 v σ1' hsub hag h
    simp only [evalE, Option.bind_eq_bind, Option.bind_eq_some_iff] at h ⊢
    obtain ⟨t, ht, ⟨v1, σ1e⟩, he, h⟩ := h
    simp only [Option.some.injEq, Prod.mk.injEq] at h
    obtain ⟨σ2e, he2, hw⟩ := ih R σ1 σ2 v1 σ1e hsub hag he
    have f1 := evalE_frm_all e σ1 v1 σ1e he
    have f2 := evalE_frm_all e σ2 v1 σ2e he2
    refine ⟨σ2e.set i (convert t v1), ⟨t, by simpa [Env.ty?, ← hag.tys] using ht, (v1, σ2e), he2, by simp [h.1]⟩, ?_⟩
    rw [← h.2]
    exact hw.set i _ (f1.len.trans (hag.len.trans f2.len.symm))
  | opassign op i e ih =>
    intro R σ1 σ2 v σ1' hsub hag h
    simp only [evalE, Option.bind_eq_bind, Option.bind_eq_some_iff] at h ⊢
    obtain ⟨tx, htx, te, hte, ⟨v1, σ1e⟩, he, x, hx, r, hr, h⟩ := h
    simp only [Option.some.injEq, Prod.mk.injEq] at h hx hr
    obtain ⟨σ2e, he2, hw⟩ := ih R σ1 σ2 v1 σ1e (fun j hj => hsub j (by simp [rd, hj])) hag he
    have f1 := evalE_frm_all e σ1 v1 σ1e he
    have f2 := evalE_frm_all e σ2 v1 σ2e he2
    have hage : Agr R σ1e σ2e := hag.loc ⟨f1.tys, f1.len⟩ ⟨f2.tys, f2.len⟩ hw
    have hx2 : σ2e.val? i = some x := by
      simp only [Env.val?] at hx ⊢
      rw [← hage.on i (hsub i (by simp [rd]))]; exact hx
    refine ⟨σ2e.set i r, ⟨tx, by simpa [Env.ty?, ← hag.tys] using htx, te, by rw [← typeOf_congr σ1 σ2 hag.tys]; exact hte,
      (v1, σ2e), he2, x, hx2, r, hr, by simp [h.1]⟩, ?_⟩
    rw [← h.2]
    exact hw.set i _ (f1.len.trans (hag.len.trans f2.len.symm))
  | preinc i =>
    intro R σ1 σ2 v σ1' hsub hag h
    simp only [evalE, Option.bind_eq_bind, Option.bind_eq_some_iff] at h ⊢
    obtain ⟨tx, htx, x, hx, r, hr, h⟩ := h
    simp only [Option.some.injEq, Prod.mk.injEq] at h
    refine ⟨σ2.set i r, ⟨tx, by simpa [Env.ty?, ← hag.tys] using htx, x,
      by simp only [Env.val?] at hx ⊢; rw [← hag.on i (hsub i (by simp [rd]))]; exact hx, r, hr, by simp [h.1]⟩, ?_⟩
    rw [← h.2]
    exact (Loc.refl σ1 σ2).set i _ hag.len
  | predec i =>
    intro R σ1 σ2 v σ1' hsub hag h
    simp only [evalE, Option.bind_eq_bind, Option.bind_eq_some_iff] at h ⊢
    obtain ⟨tx, htx, x, hx, r, hr, h⟩ := h
    simp only [Option.some.injEq, Prod.mk.injEq] at h
    refine ⟨σ2.set i r, ⟨tx, by simpa [Env.ty?, ← hag.tys] using htx, x,
      by simp only [Env.val?] at hx ⊢; rw [← hag.on i (hsub i (by simp [rd]))]; exact hx, r, hr, by simp [h.1]⟩, ?_⟩
    rw [← h.2]
    exact (Loc.refl σ1 σ2).set i _ hag.len
  | postinc i =>
    intro R σ1 σ2 v σ1' hsub hag h
    simp only [evalE, Option.bind_eq_bind, Option.bind_eq_some_iff] at h ⊢
    obtain ⟨tx, htx, x, hx, r, hr, h⟩ := h
    simp only [Option.some.injEq, Prod.mk.injEq] at h
    refine ⟨σ2.set i r, ⟨tx, by simpa [Env.ty?, ← hag.tys] using htx, x,
      by simp only [Env.val?] at hx ⊢; rw [← hag.on i (hsub i (by simp [rd]))]; exact hx, r, hr, by simp [h.1]⟩, ?_⟩
    rw [← h.2]
    exact (Loc.refl σ1 σ2).set i _ hag.len
  | postdec i =>
    intro R σ1 σ2 v σ1' hsub hag h
    simp only [evalE, Option.bind_eq_bind, Option.bind_eq_some_iff] at h ⊢
    obtain ⟨tx, htx, x, hx, r, hr, h⟩ := h
    simp only [Option.some.injEq, Prod.mk.injEq] at h
    refine ⟨σ2.set i r, ⟨tx, by simpa [Env.ty?, ← hag.tys] using htx, x,
      by simp only [Env.val?] at hx ⊢; rw [← hag.on i (hsub i (by simp [rd]))]; exact hx, r, hr, by simp [h.1]⟩, ?_⟩
    rw [← h.2]
    exact (Loc.refl σ1 σ2).set i _ hag.len
  | land a b iha ihb =>
    intro R σ1 σ2 v σ1' hsub hag h
    simp only [evalE, Option.bind_eq_bind, Option.bind_eq_some_iff] at h ⊢
    obtain ⟨⟨va, σ1a⟩, hea, h⟩ := h
    simp only at h
    obtain ⟨σ2a, hea2, hwa⟩ := iha R σ1 σ2 va σ1a (fun i hi => hsub i (by simp [rd, hi])) hag hea
    have f1a := evalE_frm_all a σ1 va σ1a hea
    have f2a := evalE_frm_all a σ2 va σ2a hea2
    have hagb : Agr R σ1a σ2a := hag.loc ⟨f1a.tys, f1a.len⟩ ⟨f2a.tys, f2a.len⟩ hwa
    by_cases hz : va = 0
    · simp only [hz, if_true, Option.some.injEq, Prod.mk.injEq] at h
      obtain ⟨rfl, rfl⟩ := h
      exact ⟨σ2a, ⟨(va, σ2a), hea2, by simp [hz]⟩, hwa⟩
    · simp only [hz, if_false, Option.bind_eq_some_iff] at h
      obtain ⟨⟨vb, σ1b⟩, heb, h⟩ := h
      simp only [Option.some.injEq, Prod.mk.injEq] at h
      obtain ⟨σ2b, heb2, hwb⟩ := ihb R σ1a σ2a vb σ1b (fun i hi => hsub i (by simp [rd, hi])) hagb heb
      refine ⟨σ2b, ⟨(va, σ2a), hea2, ?_⟩, ?_⟩
      · simp only [hz, if_false, Option.bind_eq_some_iff]
        exact ⟨(vb, σ2b), heb2, by rw [← h.1]⟩
      · rw [← h.2]; exact hwa.trans hwb
  | lor a b iha ihb =>
    intro R σ1 σ2 v σ1' hsub hag h
    simp only [evalE, Option.bind_eq_bind, Option.bind_eq_some_iff] at h ⊢
    obtain ⟨⟨va, σ1a⟩, hea, h⟩ := h
    simp only at h
    obtain ⟨σ2a, hea2, hwa⟩ := iha R σ1 σ2 va σ1a (fun i hi => hsub i (by simp [rd, hi])) hag hea
    have f1a := evalE_frm_all a σ1 va σ1a hea
    have f2a := evalE_frm_all a σ2 va σ2a hea2
    have hagb : Agr R σ1a σ2a := hag.loc ⟨f1a.tys, f1a.len⟩ ⟨f2a.tys, f2a.len⟩ hwa
    by_cases hz : va ≠ 0
    · rw [if_pos hz] at h
      simp only [Option.some.injEq, Prod.mk.injEq] at h
      obtain ⟨rfl, rfl⟩ := h
      exact ⟨σ2a, ⟨(va, σ2a), hea2, by rw [if_pos hz]⟩, hwa⟩
    · rw [if_neg hz] at h
      simp only [Option.bind_eq_some_iff] at h
      obtain ⟨⟨vb, σ1b⟩, heb, h⟩ := h
      simp only [Option.some.injEq, Prod.mk.injEq] at h
      obtain ⟨σ2b, heb2, hwb⟩ := ihb R σ1a σ2a vb σ1b (fun i hi => hsub i (by simp [rd, hi])) hagb heb
      refine ⟨σ2b, ⟨(va, σ2a), hea2, ?_⟩, ?_⟩
      · rw [if_neg hz]
        simp only [Option.bind_eq_some_iff]
        exact ⟨(vb, σ2b), heb2, by rw [← h.1]⟩
      · rw [← h.2]; exact hwa.trans hwb
  | cond c a b ihc iha ihb =>
    intro R σ1 σ2 v σ1' hsub hag h
    simp only [evalE, Option.bind_eq_bind, Option.bind_eq_some_iff] at h ⊢
    obtain ⟨t, ht, ⟨vc, σ1c⟩, hec, h⟩ := h
    simp only at h
    obtain ⟨σ2c, hec2, hwc⟩ := ihc R σ1 σ2 vc σ1c (fun i hi => hsub i (by simp [rd, hi])) hag hec
    have f1c := evalE_frm_all c σ1 vc σ1c hec
    have f2c := evalE_frm_all c σ2 vc σ2c hec2
    have hagc : Agr R σ1c σ2c := hag.loc ⟨f1c.tys, f1c.len⟩ ⟨f2c.tys, f2c.len⟩ hwc
    have ht2 : typeOf σ2 (.cond c a b) = some t := by rw [← typeOf_congr σ1 σ2 hag.tys]; exact ht
    by_cases hz : vc ≠ 0
    · rw [if_pos hz] at h
      simp only [Option.bind_eq_some_iff] at h
      obtain ⟨⟨x, σ1x⟩, hex, h⟩ := h
      simp only [Option.some.injEq, Prod.mk.injEq] at h
      obtain ⟨σ2x, hex2, hwx⟩ := iha R σ1c σ2c x σ1x (fun i hi => hsub i (by simp [rd, hi])) hagc hex
      refine ⟨σ2x, ⟨t, ht2, (vc, σ2c), hec2, ?_⟩, ?_⟩
      · rw [if_pos hz]
        simp only [Option.bind_eq_some_iff]
        exact ⟨(x, σ2x), hex2, by rw [← h.1]⟩
      · rw [← h.2]; exact hwc.trans hwx
    · rw [if_neg hz] at h
      simp only [Option.bind_eq_some_iff] at h
      obtain ⟨⟨x, σ1x⟩, hex, h⟩ := h
      simp only [Option.some.injEq, Prod.mk.injEq] at h
      obtain ⟨σ2x, hex2, hwx⟩ := ihb R σ1c σ2c x σ1x (fun i hi => hsub i (by simp [rd, hi])) hagc hex
      refine ⟨σ2x, ⟨t, ht2, (vc, σ2c), hec2, ?_⟩, ?_⟩
      · rw [if_neg hz]
        simp only [Option.bind_eq_some_iff]
        exact ⟨(x, σ2x), hex2, by rw [← h.1]⟩
      · rw [← h.2]; exact hwc.trans hwx

/-- **unsequenced operands commute** (C11 6.5p2), every form: if neither operand modifies what the other reads or modifies,
    evaluating the right operand first gives the same two values and the same final store -/
theorem swap_eval_all (a b : E) (σ σ1 σ2 : Env) (va vb : Int)
    (hd1 : disjointL (wr a) (rd b ++ wr b) = true) (hd2 : disjointL (wr b) (rd a ++ wr a) = true)
    (hea : evalE σ a = some (va, σ1)) (heb : evalE σ1 b = some (vb, σ2)) :
    ∃ σb, evalE σ b = some (vb, σb) ∧ evalE σb a = some (va, σ2) := by
  have d1 := disjointL_spec hd1
  have d2 := disjointL_spec hd2
  have fa := evalE_frm_all a σ va σ1 hea
  have fb := evalE_frm_all b σ1 vb σ2 heb
  -- b from σ instead of σ1
  have ag1 : Agr (rd b) σ1 σ := ⟨fa.tys, fa.len, fun i hi => fa.same i (fun hw => d1 i hw (List.mem_append_left _ hi))⟩
  obtain ⟨σb, heb', hwb⟩ := evalE_agree_all b (rd b) σ1 σ vb σ2 (fun _ h => h) ag1 heb
  have fb' := evalE_frm_all b σ vb σb heb'
  -- a from σb instead of σ
  have ag2 : Agr (rd a) σ σb :=
    ⟨fb'.tys.symm, fb'.len.symm, fun i hi => (fb'.same i (fun hw => d2 i hw (List.mem_append_left _ hi))).symm⟩
  obtain ⟨σab, hea', hwa⟩ := evalE_agree_all a (rd a) σ σb va σ1 (fun _ h => h) ag2 hea
  have fa' := evalE_frm_all a σb va σab hea'
  refine ⟨σb, heb', ?_⟩
  have : σab = σ2 := by
    apply env_ext
    · rw [fa'.tys, fb'.tys, fb.tys, fa.tys]
    · intro i
      by_cases hia : i ∈ wr a
      · have hib : i ∉ wr b := fun hw => d1 i hia (List.mem_append_right _ hw)
        rw [fb.same i hib]
        rcases hwa i with h | ⟨e1, e2⟩
        · exact h.symm
        · rw [e2, e1, fb'.same i hib]
      · rw [fa'.same i hia]
        by_cases hib : i ∈ wr b
        · rcases hwb i with h | ⟨e1, e2⟩
          · exact h.symm
          · rw [e2, e1, fa.same i hia]
        · rw [fb'.same i hib, fb.same i hib, fa.same i hia]
  rw [← this]; exact hea'

end ChibiVerif.C01
