/-
Lemmas about the argument-parser model (Model/C14Args.lean), for ANY `take_arg` list `ta` and ladder `tbl` that pass
the table check `inSync ta tbl`:

* `consumes_eq_contains`  — `take_arg(s)` ⇔ the arm `s` selects evaluates `argv[++i]`;
* `optRun_good`           — pass 2 after a successful pass 1 never evaluates `argv[++i]` on the last word: no
                            `nullDeref`, and no NULL is ever stored in a StringArray;
* `optRun_append`         — parsing `args ++ tl` is parsing `args`, then `tl` from the state reached (used for the
                            re-parse of the driver's argv by the cc1 child).
-/
import ChibiVerif.Model.C14Args

namespace ChibiVerif.C14Args

/-! ### the if-ladder -/

theorem firstArm_some {tbl : List Arm} {s : String} {a : Arm} (h : firstArm tbl s = some a) :
    a ∈ tbl ∧ a.matches s = true := by
  unfold firstArm at h
  exact ⟨List.mem_of_find?_eq_some h, by simpa using List.find?_some h⟩

theorem consumes_eq_contains {ta : List String} {tbl : List Arm} (hs : inSync ta tbl = true) (s : String) :
    consumes tbl s = ta.contains s := by
  unfold inSync at hs
  rw [Bool.and_eq_true] at hs
  obtain ⟨hA, hB⟩ := hs
  by_cases hc : ta.contains s = true
  · rw [hc]
    exact List.all_eq_true.mp hB s (by simpa using hc)
  · have hc' : ta.contains s = false := by simpa using hc
    rw [hc']
    unfold consumes
    cases hf : firstArm tbl s with
    | none => rfl
    | some a =>
      obtain ⟨hmem, hmatch⟩ := firstArm_some hf
      have hg := List.all_eq_true.mp hA a hmem
      unfold armGuarded at hg
      cases hr : a.readsNext with
      | false => exact hr
      | true =>
        exfalso
        rw [hr] at hg
        simp only [Bool.not_true, Bool.false_or] at hg
        unfold Arm.matches at hmatch
        obtain ⟨t, ht, hh⟩ := List.any_eq_true.mp hmatch
        have := List.all_eq_true.mp hg t ht
        cases t with
        | eq u =>
          simp only [Test.holds, decide_eq_true_eq] at hh
          subst hh
          simp only at this
          rw [this] at hc'
          cases hc'
        | pre u => simp at this

/-! ### no NULL is read or stored while the next word exists or is not asked for -/

/-- no StringArray holds a NULL -/
def St.noNull (st : St) : Prop := ∀ e ∈ st.arrs, ∀ x ∈ e.2, x ≠ none

/-- the result of running (part of) the loop is not a NULL dereference and keeps the arrays free of NULLs -/
def Good : Except Outcome St → Prop
  | .ok st => st.noNull
  | .error o => o.isNullDeref = false

theorem evalSrc_none {cur : String} {next : Option String} {s : Src} (h : evalSrc cur next s = none) :
    s.isNext = true ∧ next = none := by
  cases s <;> simp [evalSrc] at h
  exact ⟨rfl, h⟩

theorem getAssoc_setAssoc_mem {α : Type} (k : String) (v : α) (l : List (String × α)) :
    ∀ e ∈ setAssoc k v l, e ∈ l ∨ e = (k, v) := by
  induction l with
  | nil => intro e he; simp [setAssoc] at he; exact Or.inr he
  | cons x r ih =>
    intro e he
    obtain ⟨k', v'⟩ := x
    simp only [setAssoc] at he
    split at he
    · rename_i hk
      simp only [List.mem_cons] at he
      rcases he with he | he
      · right; rw [he, hk]
      · left; exact List.mem_cons_of_mem _ he
    · simp only [List.mem_cons] at he
      rcases he with he | he
      · left; rw [he]; exact List.mem_cons_self
      · rcases ih e he with h | h
        · left; exact List.mem_cons_of_mem _ h
        · right; exact h

theorem getAssoc_mem {α : Type} {k : String} {l : List (String × α)} {v : α} (h : getAssoc k l = some v) :
    (k, v) ∈ l := by
  induction l with
  | nil => simp [getAssoc] at h
  | cons x r ih =>
    obtain ⟨k', v'⟩ := x
    simp only [getAssoc] at h
    split at h
    · rename_i hk
      injection h with h
      rw [← hk, ← h]; exact List.mem_cons_self
    · exact List.mem_cons_of_mem _ (ih h)

theorem St.arr_noNull {st : St} (h : st.noNull) (a : String) : ∀ x ∈ st.arr a, x ≠ none := by
  intro x hx
  unfold St.arr at hx
  cases hg : getAssoc a st.arrs with
  | none => rw [hg] at hx; simp at hx
  | some l =>
    rw [hg] at hx
    exact h _ (getAssoc_mem hg) x hx

theorem St.push_noNull {st : St} (h : st.noNull) (a : String) (w : String) : (st.push a (some w)).noNull := by
  intro e he x hx
  unfold St.push at he
  rcases getAssoc_setAssoc_mem _ _ _ e he with h1 | h1
  · exact h e h1 x hx
  · subst h1
    simp only [List.mem_append, List.mem_singleton] at hx
    rcases hx with hx | hx
    · exact St.arr_noNull h a x hx
    · rw [hx]; simp

theorem execStmt_good (xt : List (String × FileType)) (cur : String) (next : Option String) (st : St) (s : Stmt)
    (hn : next ≠ none ∨ s.readsNext = false) (hst : st.noNull) : Good (execStmt xt cur next st s) := by
  have hev : ∀ x, s.src = some x → ∃ w, evalSrc cur next x = some w := by
    intro x hx
    cases he : evalSrc cur next x with
    | some w => exact ⟨w, rfl⟩
    | none =>
      exfalso
      obtain ⟨h1, h2⟩ := evalSrc_none he
      rcases hn with hn | hn
      · exact hn h2
      · simp [Stmt.readsNext, hx, h1] at hn
  cases s with
  | setFlag v b => exact hst
  | setStr v x => exact hst
  | push a x =>
    obtain ⟨w, hw⟩ := hev x rfl
    simp only [execStmt, hw]
    exact St.push_noNull hst a w
  | call f x =>
    obtain ⟨w, hw⟩ := hev x rfl
    simp only [execStmt, hw]
    exact St.push_noNull hst f w
  | setX x =>
    obtain ⟨w, hw⟩ := hev x rfl
    simp only [execStmt, hw]
    cases lookupX xt w with
    | some t => exact hst
    | none => rfl
  | appendMT q x =>
    obtain ⟨w, hw⟩ := hev x rfl
    simp only [execStmt, hw]
    exact hst
  | usage n => rfl
  | exit0 => rfl

theorem execBody_good (xt : List (String × FileType)) (cur : String) (next : Option String) (body : List Stmt) :
    ∀ st : St, (next ≠ none ∨ body.any Stmt.readsNext = false) → st.noNull → Good (match execBody xt cur next st body with
      | .ok st' => .ok st' | .error o => .error o) := by
  induction body with
  | nil => intro st _ hst; exact hst
  | cons s r ih =>
    intro st hn hst
    have hn1 : next ≠ none ∨ s.readsNext = false := by
      rcases hn with h | h
      · exact Or.inl h
      · right; simp only [List.any_cons, Bool.or_eq_false_iff] at h; exact h.1
    have hn2 : next ≠ none ∨ r.any Stmt.readsNext = false := by
      rcases hn with h | h
      · exact Or.inl h
      · right; simp only [List.any_cons, Bool.or_eq_false_iff] at h; exact h.2
    have h1 := execStmt_good xt cur next st s hn1 hst
    simp only [execBody]
    cases he : execStmt xt cur next st s with
    | ok st' =>
      rw [he] at h1
      exact ih st' hn2 h1
    | error o =>
      rw [he] at h1
      exact h1

/-- the loop body: result as a plain `Except Outcome St`, and the consumed flag is the table's `consumes` -/
theorem stepOpt_spec (tbl : List Arm) (xt : List (String × FileType)) (cur : String) (next : Option String) (st : St)
    (hn : next ≠ none ∨ consumes tbl cur = false) (hst : st.noNull) :
    match stepOpt tbl xt cur next st with
    | .ok (st', c) => st'.noNull ∧ c = consumes tbl cur
    | .error o => o.isNullDeref = false := by
  unfold stepOpt consumes
  cases hf : firstArm tbl cur with
  | none =>
    by_cases hd : isDashWord cur = true
    · simp only [hd, if_true]; rfl
    · simp only [hd]; exact ⟨St.push_noNull hst _ cur, rfl⟩
  | some arm =>
    simp only
    have hn' : next ≠ none ∨ arm.body.any Stmt.readsNext = false := by
      rcases hn with h | h
      · exact Or.inl h
      · right; simpa [consumes, hf, Arm.readsNext] using h
    have := execBody_good xt cur next arm.body st hn' hst
    cases he : execBody xt cur next st arm.body with
    | ok st' => rw [he] at this; exact ⟨this, rfl⟩
    | error o => rw [he] at this; exact this

/-- **pass 2 after pass 1.**  If the tables are in step and pass 1 accepted the words, pass 2 never reads the NULL
    behind the last word: it does not end in `nullDeref`, and no NULL is stored in any StringArray. -/
theorem optRun_good {ta : List String} {tbl : List Arm} (hs : inSync ta tbl = true) (xt : List (String × FileType)) :
    ∀ (args : List String) (st : St), guardPass ta args = true → st.noNull → Good (optRun tbl xt args st) := by
  intro args
  induction args using guardPass.induct ta with
  | case1 => intro st _ hst; exact hst
  | case2 a =>
    intro st hg hst
    simp only [guardPass, Bool.not_eq_true'] at hg
    have hc : consumes tbl a = false := by rw [consumes_eq_contains hs]; exact hg
    have := stepOpt_spec tbl xt a none st (Or.inr hc) hst
    simp only [optRun]
    cases he : stepOpt tbl xt a none st with
    | ok p => obtain ⟨st', c⟩ := p; rw [he] at this; exact this.1
    | error o => rw [he] at this; exact this
  | case3 a b r hin ih =>
    intro st hg hst
    simp only [guardPass, hin, if_true] at hg
    have := stepOpt_spec tbl xt a (some b) st (Or.inl (by simp)) hst
    simp only [optRun]
    cases he : stepOpt tbl xt a (some b) st with
    | ok p =>
      obtain ⟨st', c⟩ := p
      rw [he] at this
      obtain ⟨h1, h2⟩ := this
      rw [consumes_eq_contains hs, hin] at h2
      subst h2
      exact ih st' hg h1
    | error o => rw [he] at this; exact this
  | case4 a b r hin ih =>
    intro st hg hst
    simp only [guardPass, hin] at hg
    have hg' : guardPass ta (b :: r) = true := by simpa using hg
    have := stepOpt_spec tbl xt a (some b) st (Or.inl (by simp)) hst
    simp only [optRun]
    cases he : stepOpt tbl xt a (some b) st with
    | ok p =>
      obtain ⟨st', c⟩ := p
      rw [he] at this
      obtain ⟨h1, h2⟩ := this
      rw [consumes_eq_contains hs] at h2
      have hin' : ta.contains a = false := by simpa using hin
      rw [hin'] at h2
      subst h2
      exact ih st' hg' h1
    | error o => rw [he] at this; exact this

/-! ### appending words (the cc1 child parses the driver's argv followed by `-cc1 -cc1-input … -cc1-output …`) -/

theorem evalSrc_next_irrelevant {cur : String} {n1 n2 : Option String} {s : Src} (h : s.isNext = false) :
    evalSrc cur n1 s = evalSrc cur n2 s := by
  cases s <;> simp [evalSrc, Src.isNext] at h ⊢

theorem execStmt_next_irrelevant (xt : List (String × FileType)) (cur : String) (n1 n2 : Option String) (st : St)
    (s : Stmt) (h : s.readsNext = false) : execStmt xt cur n1 st s = execStmt xt cur n2 st s := by
  cases s with
  | setFlag v b => rfl
  | usage n => rfl
  | exit0 => rfl
  | setStr v x => simp only [execStmt, evalSrc_next_irrelevant (n1 := n1) (n2 := n2) (by simpa [Stmt.readsNext, Stmt.src] using h)]
  | push v x => simp only [execStmt, evalSrc_next_irrelevant (n1 := n1) (n2 := n2) (by simpa [Stmt.readsNext, Stmt.src] using h)]
  | call v x => simp only [execStmt, evalSrc_next_irrelevant (n1 := n1) (n2 := n2) (by simpa [Stmt.readsNext, Stmt.src] using h)]
  | setX x => simp only [execStmt, evalSrc_next_irrelevant (n1 := n1) (n2 := n2) (by simpa [Stmt.readsNext, Stmt.src] using h)]
  | appendMT q x => simp only [execStmt, evalSrc_next_irrelevant (n1 := n1) (n2 := n2) (by simpa [Stmt.readsNext, Stmt.src] using h)]

theorem execBody_next_irrelevant (xt : List (String × FileType)) (cur : String) (n1 n2 : Option String)
    (body : List Stmt) (h : body.any Stmt.readsNext = false) :
    ∀ st, execBody xt cur n1 st body = execBody xt cur n2 st body := by
  induction body with
  | nil => intro st; rfl
  | cons s r ih =>
    intro st
    simp only [List.any_cons, Bool.or_eq_false_iff] at h
    simp only [execBody, execStmt_next_irrelevant xt cur n1 n2 st s h.1]
    cases execStmt xt cur n2 st s with
    | ok st' => exact ih h.2 st'
    | error o => rfl

theorem stepOpt_next_irrelevant (tbl : List Arm) (xt : List (String × FileType)) (cur : String) (n1 n2 : Option String)
    (st : St) (h : consumes tbl cur = false) : stepOpt tbl xt cur n1 st = stepOpt tbl xt cur n2 st := by
  unfold stepOpt
  unfold consumes at h
  cases hf : firstArm tbl cur with
  | none => rfl
  | some arm =>
    rw [hf] at h
    simp only
    rw [execBody_next_irrelevant xt cur n1 n2 arm.body (by simpa [Arm.readsNext] using h)]

/-- the consumed flag of a successful step is the table's -/
theorem stepOpt_flag {tbl : List Arm} {xt : List (String × FileType)} {cur : String} {next : Option String} {st st' : St}
    {c : Bool} (h : stepOpt tbl xt cur next st = .ok (st', c)) : c = consumes tbl cur := by
  unfold stepOpt at h
  unfold consumes
  cases hf : firstArm tbl cur with
  | none =>
    rw [hf] at h
    simp only at h
    split at h
    · cases h
    · injection h with h; injection h with _ h2; exact h2.symm
  | some arm =>
    rw [hf] at h
    simp only at h
    cases he : execBody xt cur next st arm.body with
    | ok s2 => rw [he] at h; injection h with h; injection h with _ h2; exact h2.symm
    | error o => rw [he] at h; cases h

def bindRun (r : Except Outcome St) (f : St → Except Outcome St) : Except Outcome St :=
  match r with
  | .ok st => f st
  | .error o => .error o

theorem guardPass_append {ta : List String} (tl : List String) :
    ∀ args : List String, guardPass ta args = true → guardPass ta (args ++ tl) = guardPass ta tl := by
  intro args
  induction args using guardPass.induct ta with
  | case1 => intro _; rfl
  | case2 a =>
    intro hg
    simp only [guardPass, Bool.not_eq_true'] at hg
    cases tl with
    | nil => simp only [List.append_nil, guardPass, hg]; rfl
    | cons t tl' => simp only [List.cons_append, List.nil_append, guardPass, hg, Bool.false_eq_true, if_false]
  | case3 a b r hin ih =>
    intro hg
    simp only [guardPass, hin, if_true] at hg
    simp only [List.cons_append, guardPass, hin, if_true]
    exact ih hg
  | case4 a b r hin ih =>
    intro hg
    simp only [guardPass, hin] at hg
    have hg' : guardPass ta (b :: r) = true := by simpa using hg
    have := ih hg'
    simp only [List.cons_append] at this ⊢
    simp only [guardPass, hin]
    simpa using this

theorem optRun_append {ta : List String} {tbl : List Arm} (hs : inSync ta tbl = true) (xt : List (String × FileType))
    (tl : List String) :
    ∀ (args : List String) (st : St), guardPass ta args = true →
      optRun tbl xt (args ++ tl) st = bindRun (optRun tbl xt args st) (optRun tbl xt tl) := by
  intro args
  induction args using guardPass.induct ta with
  | case1 => intro st _; rfl
  | case2 a =>
    intro st hg
    simp only [guardPass, Bool.not_eq_true'] at hg
    have hc : consumes tbl a = false := by rw [consumes_eq_contains hs]; exact hg
    cases tl with
    | nil =>
      simp only [List.append_nil, optRun]
      cases he : stepOpt tbl xt a none st with
      | ok p => obtain ⟨st', c⟩ := p; simp [bindRun]
      | error o => rfl
    | cons t tl' =>
      simp only [List.cons_append, List.nil_append, optRun]
      rw [stepOpt_next_irrelevant tbl xt a (some t) none st hc]
      cases he : stepOpt tbl xt a none st with
      | ok p =>
        obtain ⟨st', c⟩ := p
        have := stepOpt_flag he
        rw [hc] at this
        subst this
        rfl
      | error o => rfl
  | case3 a b r hin ih =>
    intro st hg
    simp only [guardPass, hin, if_true] at hg
    simp only [List.cons_append, optRun]
    cases he : stepOpt tbl xt a (some b) st with
    | ok p =>
      obtain ⟨st', c⟩ := p
      have := stepOpt_flag he
      rw [consumes_eq_contains hs, hin] at this
      subst this
      exact ih st' hg
    | error o => rfl
  | case4 a b r hin ih =>
    intro st hg
    simp only [guardPass, hin] at hg
    have hg' : guardPass ta (b :: r) = true := by simpa using hg
    simp only [List.cons_append, optRun]
    cases he : stepOpt tbl xt a (some b) st with
    | ok p =>
      obtain ⟨st', c⟩ := p
      have := stepOpt_flag he
      have hin' : ta.contains a = false := by simpa using hin
      rw [consumes_eq_contains hs, hin'] at this
      subst this
      have := ih st' hg'
      simpa using this
    | error o => rfl

/-! ### `error()` / `usage()` / `exit()` inside the loop never look like a normal return -/

def Outcome.isOk : Outcome → Bool
  | .ok _ => true
  | _ => false

theorem execStmt_error_not_ok (xt : List (String × FileType)) (cur : String) (next : Option String) (st : St) (s : Stmt)
    (o : Outcome) (h : execStmt xt cur next st s = .error o) : o.isOk = false := by
  cases s with
  | setFlag v b => cases h
  | setStr v x => cases h
  | push a x => cases h
  | call f x =>
    simp only [execStmt] at h
    cases he : evalSrc cur next x <;> rw [he] at h <;> simp only at h
    · injection h with h; subst h; rfl
    · cases h
  | setX x =>
    simp only [execStmt] at h
    cases he : evalSrc cur next x <;> rw [he] at h <;> simp only at h
    · injection h with h; subst h; rfl
    · rename_i w
      cases hl : lookupX xt w <;> rw [hl] at h <;> simp only at h
      · injection h with h; subst h; rfl
      · cases h
  | appendMT q x =>
    simp only [execStmt] at h
    cases he : evalSrc cur next x <;> rw [he] at h <;> simp only at h
    · by_cases hq : q = true
      · simp only [hq, if_true] at h; injection h with h; subst h; rfl
      · simp only [hq] at h
        cases hm : st.str "opt_MT" <;> rw [hm] at h <;> simp only at h
        · cases h
        · injection h with h; subst h; rfl
    · cases h
  | usage n => injection h with h; subst h; rfl
  | exit0 => injection h with h; subst h; rfl

theorem execBody_error_not_ok (xt : List (String × FileType)) (cur : String) (next : Option String) (body : List Stmt) :
    ∀ (st : St) (o : Outcome), execBody xt cur next st body = .error o → o.isOk = false := by
  induction body with
  | nil => intro st o h; cases h
  | cons s r ih =>
    intro st o h
    simp only [execBody] at h
    cases he : execStmt xt cur next st s with
    | ok st' => rw [he] at h; exact ih st' o h
    | error o' => rw [he] at h; injection h with h; subst h; exact execStmt_error_not_ok xt cur next st s _ he

theorem stepOpt_error_not_ok (tbl : List Arm) (xt : List (String × FileType)) (cur : String) (next : Option String)
    (st : St) (o : Outcome) (h : stepOpt tbl xt cur next st = .error o) : o.isOk = false := by
  unfold stepOpt at h
  cases hf : firstArm tbl cur with
  | none =>
    rw [hf] at h
    simp only at h
    by_cases hd : isDashWord cur = true
    · simp only [hd, if_true] at h; injection h with h; subst h; rfl
    · simp only [hd] at h; cases h
  | some arm =>
    rw [hf] at h
    simp only at h
    cases he : execBody xt cur next st arm.body with
    | ok st' => rw [he] at h; cases h
    | error o' => rw [he] at h; injection h with h; subst h; exact execBody_error_not_ok xt cur next _ st _ he

theorem optRun_error_not_ok (tbl : List Arm) (xt : List (String × FileType)) :
    ∀ (args : List String) (st : St) (o : Outcome), optRun tbl xt args st = .error o → o.isOk = false := by
  intro args st
  induction args, st using optRun.induct tbl xt with
  | case1 st => intro o h; cases h
  | case2 a st st' c he => intro o h; simp only [optRun, he] at h; cases h
  | case3 a st o' he =>
    intro o h; simp only [optRun, he] at h; injection h with h; subst h; exact stepOpt_error_not_ok _ _ _ _ _ _ he
  | case4 a b r st st' he ih => intro o h; simp only [optRun, he] at h; exact ih o h
  | case5 a b r st st' he ih => intro o h; simp only [optRun, he] at h; exact ih o h
  | case6 a b r st o' he =>
    intro o h; simp only [optRun, he] at h; injection h with h; subst h; exact stepOpt_error_not_ok _ _ _ _ _ _ he

end ChibiVerif.C14Args
