/-
C03 — label discipline of the emitted code: `genStmt` defines every unique label of the tree
exactly once, numbers its own `.L.begin/.L.else/.L.end` labels from the monotone `count()`
interval it consumes, and jumps only to labels that are defined in the same function.
-/
import ChibiVerif.Lemmas.StmtParse

set_option linter.unusedSimpArgs false
namespace ChibiVerif.Ctl
open ChibiVerif.Spec.Ctl (Val SStmt Event SState truth)

theorem labelsOf_append (a b : List CIns) : labelsOf (a ++ b) = labelsOf a ++ labelsOf b := by
  simp [labelsOf, List.filterMap_append]

theorem targetsOf_append (a b : List CIns) : targetsOf (a ++ b) = targetsOf a ++ targetsOf b := by
  simp [targetsOf, List.filterMap_append]

theorem labelsOf_cons_label (l : Lbl) (r : List CIns) : labelsOf (.label l :: r) = l :: labelsOf r := by
  simp [labelsOf]

theorem labelsOf_ladderEnt (w : Bool) (e : CaseEnt) : labelsOf (ladderEnt w e) = [] := by
  unfold ladderEnt
  simp only []
  by_cases h1 : e.lo = e.hi
  · rw [if_pos h1]
    by_cases h2 : fits32 (if w = true then e.lo else sext32 e.lo) = true
    · rw [if_pos h2]; rfl
    · rw [if_neg h2]; rfl
  · rw [if_neg h1]
    by_cases h2 : fits32 (if w = true then e.lo else sext32 e.lo) = true <;>
      by_cases h3 : fits32 (if w = true then e.hi - e.lo else sext32 (e.hi - e.lo)) = true
    · rw [if_pos h2, if_pos h3]; rfl
    · rw [if_pos h2, if_neg h3]; rfl
    · rw [if_neg h2, if_pos h3]; rfl
    · rw [if_neg h2, if_neg h3]; rfl

theorem labelsOf_ladder (w : Bool) (cs : List CaseEnt) (d : Option Nat) (b : Nat) :
    labelsOf (ladder w cs d b) = [] := by
  unfold ladder
  rw [labelsOf_append, labelsOf_append]
  have h1 : labelsOf (cs.flatMap (ladderEnt w)) = [] := by
    induction cs with
    | nil => rfl
    | cons e r ih => rw [List.flatMap_cons, labelsOf_append, labelsOf_ladderEnt, ih]; rfl
  rw [h1]
  cases d <;> simp [labelsOf]

theorem labelsOf_callOpt (o : Option Nat) : labelsOf (callOpt o) = [] := by
  cases o <;> rfl

@[simp] theorem labelsOf_nil : labelsOf [] = [] := rfl
@[simp] theorem labelsOf_cons (i : CIns) (r : List CIns) :
    labelsOf (i :: r) = (match i with | .label l => [l] | _ => []) ++ labelsOf r := by
  cases i <;> simp [labelsOf]

theorem nodup_app {A B : List Lbl} (hA : A.Nodup) (hB : B.Nodup) (h : ∀ x, x ∈ A → x ∈ B → False) :
    (A ++ B).Nodup := by
  rw [List.nodup_append]
  exact ⟨hA, hB, fun x hx y hy e => h x hx (e ▸ hy)⟩

/-- a label numbered by `count()` in the half-open interval `[c, c1)` -/
def CountLbl (c c1 : Nat) (l : Lbl) : Prop :=
  ∃ k, c ≤ k ∧ k < c1 ∧ (l = .begin_ k ∨ l = .else_ k ∨ l = .end_ k)

theorem CountLbl.mono {c c1 c' c1' : Nat} {l : Lbl} (h : CountLbl c c1 l) (h1 : c' ≤ c) (h2 : c1 ≤ c1') :
    CountLbl c' c1' l := by
  obtain ⟨k, a, b, e⟩ := h
  exact ⟨k, by omega, by omega, e⟩

structure GenLabels (st : Stmt) (c : Nat) : Prop where
  le : c ≤ (genStmt st c).2
  nodup : (labelsOf (genStmt st c).1).Nodup
  char : ∀ l ∈ labelsOf (genStmt st c).1, (∃ n ∈ defs st, l = .u n) ∨ CountLbl c (genStmt st c).2 l
  defd : ∀ n ∈ defs st, Lbl.u n ∈ labelsOf (genStmt st c).1

theorem genLabels_prefix {s st' : Stmt} {l c : Nat}
    (hg : genStmt st' c = (.label (.u l) :: (genStmt s c).1, (genStmt s c).2))
    (hd : defs st' = l :: defs s) (hn : (defs st').Nodup) (A : GenLabels s c) : GenLabels st' c := by
  rw [hd, List.nodup_cons] at hn
  refine ⟨by rw [hg]; exact A.le, ?_, ?_, ?_⟩
  · rw [hg]
    simp only [labelsOf_cons, List.singleton_append, List.nodup_cons]
    refine ⟨?_, A.nodup⟩
    intro hm
    rcases A.char _ hm with ⟨n, hn', e⟩ | ⟨k, _, _, h3⟩
    · cases e; exact hn.1 hn'
    · rcases h3 with h | h | h <;> cases h
  · intro x hx
    rw [hg] at hx ⊢
    simp only [labelsOf_cons, List.singleton_append, List.mem_cons] at hx
    rcases hx with rfl | hx
    · exact Or.inl ⟨l, by simp [hd], rfl⟩
    · rcases A.char x hx with ⟨n, hn', rfl⟩ | h
      · exact Or.inl ⟨n, by simp [hd, hn'], rfl⟩
      · exact Or.inr h
  · intro n hn'
    rw [hd, List.mem_cons] at hn'
    rw [hg]
    simp only [labelsOf_cons, List.singleton_append, List.mem_cons]
    rcases hn' with rfl | hn'
    · exact Or.inl rfl
    · exact Or.inr (A.defd n hn')

theorem not_char_of_count {D : List Nat} {c c1 k : Nat} {l : Lbl} (hk : k < c)
    (hl : l = .begin_ k ∨ l = .else_ k ∨ l = .end_ k)
    (h : (∃ n ∈ D, l = .u n) ∨ CountLbl c c1 l) : False := by
  rcases h with ⟨n, _, e⟩ | ⟨k', h1, _, h3⟩
  · rcases hl with h | h | h <;> rw [h] at e <;> cases e
  · rcases hl with h | h | h <;> rcases h3 with h' | h' | h' <;> rw [h] at h' <;> cases h' <;> omega

theorem not_char_of_u {D : List Nat} {c c1 n : Nat} (hn : n ∉ D)
    (h : (∃ m ∈ D, Lbl.u n = .u m) ∨ CountLbl c c1 (.u n)) : False := by
  rcases h with ⟨m, hm, e⟩ | ⟨k', _, _, h3⟩
  · cases e; exact hn hm
  · rcases h3 with h | h | h <;> cases h

theorem gen_labels (st : Stmt) : ∀ c, (defs st).Nodup → GenLabels st c := by
  induction st with
  | skip => intro c _; exact ⟨Nat.le_refl _, by simp [genStmt, labelsOf], by simp [genStmt, labelsOf], by simp [defs]⟩
  | seq a b iha ihb =>
    intro c hn
    simp only [defs, List.nodup_append] at hn
    obtain ⟨hna, hnb, hdis⟩ := hn
    have A := iha c hna
    have B := ihb (genStmt a c).2 hnb
    refine ⟨?_, ?_, ?_, ?_⟩
    · simp only [genStmt]; exact Nat.le_trans A.le B.le
    · simp only [genStmt, labelsOf_append, List.nodup_append]
      refine ⟨A.nodup, B.nodup, ?_⟩
      intro x hx y hy hxy
      subst hxy
      rcases A.char x hx with ⟨n, hn, rfl⟩ | ⟨k, h1, h2, h3⟩
      · rcases B.char _ hy with ⟨m, hm, e⟩ | ⟨k, h1, h2, h3⟩
        · cases e; exact hdis n hn n hm rfl
        · rcases h3 with h | h | h <;> cases h
      · rcases B.char x hy with ⟨m, hm, e⟩ | ⟨k', h1', h2', h3'⟩
        · subst e; rcases h3 with h | h | h <;> cases h
        · rcases h3 with h | h | h <;> rcases h3' with h' | h' | h' <;> subst h <;> cases h' <;> omega
    · intro l hl
      simp only [genStmt, labelsOf_append, List.mem_append] at hl ⊢
      rcases hl with hl | hl
      · rcases A.char l hl with ⟨n, hn, rfl⟩ | h
        · exact Or.inl ⟨n, by simp [defs, hn], rfl⟩
        · exact Or.inr (h.mono (Nat.le_refl _) B.le)
      · rcases B.char l hl with ⟨n, hn, rfl⟩ | h
        · exact Or.inl ⟨n, by simp [defs, hn], rfl⟩
        · exact Or.inr (h.mono A.le (Nat.le_refl _))
    · intro n hn
      simp only [defs, List.mem_append] at hn
      simp only [genStmt, labelsOf_append, List.mem_append]
      rcases hn with hn | hn
      · exact Or.inl (A.defd n hn)
      · exact Or.inr (B.defd n hn)
  | marker k => intro c _; exact ⟨Nat.le_refl _, by simp [genStmt], by simp [genStmt], by simp [defs]⟩
  | ret => intro c _; exact ⟨Nat.le_refl _, by simp [genStmt], by simp [genStmt], by simp [defs]⟩
  | goto_ k t => intro c _; exact ⟨Nat.le_refl _, by simp [genStmt], by simp [genStmt], by simp [defs]⟩
  | gotoN l => intro c _; exact ⟨Nat.le_refl _, by simp [genStmt], by simp [genStmt], by simp [defs]⟩
  | gotoVal l t => intro c _; exact ⟨Nat.le_refl _, by simp [genStmt], by simp [genStmt], by simp [defs]⟩
  | gotoValN l => intro c _; exact ⟨Nat.le_refl _, by simp [genStmt], by simp [genStmt], by simp [defs]⟩
  | block s ih =>
    intro c hn
    have A := ih c hn
    exact ⟨A.le, A.nodup, A.char, A.defd⟩
  | case_ l lo hi s ih =>
    intro c hn
    exact genLabels_prefix (by simp [genStmt]) rfl hn (ih c (by simp only [defs, List.nodup_cons] at hn; exact hn.2))
  | default_ l s ih =>
    intro c hn
    exact genLabels_prefix (by simp [genStmt]) rfl hn (ih c (by simp only [defs, List.nodup_cons] at hn; exact hn.2))
  | label l u s ih =>
    intro c hn
    exact genLabels_prefix (by simp [genStmt]) rfl hn (ih c (by simp only [defs, List.nodup_cons] at hn; exact hn.2))
  | switch_ w u k cases dflt brk body ih =>
    intro c hn
    simp only [defs, List.nodup_append] at hn
    obtain ⟨hnb, _, hdis⟩ := hn
    have hbrk : brk ∉ defs body := fun hm => hdis brk hm brk (by simp) rfl
    have A := ih c hnb
    have hl : labelsOf (genStmt (.switch_ w u k cases dflt brk body) c).1 = labelsOf (genStmt body c).1 ++ [.u brk] := by
      simp [genStmt, labelsOf_append, labelsOf_ladder]
    refine ⟨A.le, ?_, ?_, ?_⟩
    · rw [hl]
      exact nodup_app A.nodup (by simp) (fun x hx hx' => by
        simp only [List.mem_singleton] at hx'; subst hx'
        exact not_char_of_u hbrk (A.char _ hx))
    · intro x hx
      rw [hl, List.mem_append, List.mem_singleton] at hx
      rcases hx with hx | rfl
      · rcases A.char x hx with ⟨n, hn', rfl⟩ | h
        · exact Or.inl ⟨n, by simp [defs, hn'], rfl⟩
        · exact Or.inr h
      · exact Or.inl ⟨brk, by simp [defs], rfl⟩
    · intro n hn'
      simp only [defs, List.mem_append, List.mem_singleton] at hn'
      rw [hl, List.mem_append, List.mem_singleton]
      rcases hn' with hn' | rfl
      · exact Or.inl (A.defd n hn')
      · exact Or.inr rfl
  | for_ i cnd inc brk cont body ih =>
    intro c hn
    simp only [defs, List.nodup_append] at hn
    obtain ⟨hnb, hcb, hdis⟩ := hn
    have hbrk : brk ∉ defs body := fun hm => hdis brk hm brk (by simp) rfl
    have hcont : cont ∉ defs body := fun hm => hdis cont hm cont (by simp) rfl
    have hne : cont ≠ brk := by
      intro e; subst e; simp at hcb
    have A := ih (c + 1) hnb
    have hl : labelsOf (genStmt (.for_ i cnd inc brk cont body) c).1 =
        .begin_ c :: (labelsOf (genStmt body (c + 1)).1 ++ [.u cont, .u brk]) := by
      cases cnd <;> simp [genStmt, labelsOf_append, labelsOf_callOpt, cmpZero]
    have hc : c ≤ (genStmt body (c + 1)).2 := by have := A.le; omega
    refine ⟨hc, ?_, ?_, ?_⟩
    · rw [hl, List.nodup_cons]
      refine ⟨?_, nodup_app A.nodup (by simp [hne]) ?_⟩
      · intro hm
        simp only [List.mem_append, List.mem_cons, List.not_mem_nil, or_false] at hm
        rcases hm with hm | hm | hm
        · exact not_char_of_count (Nat.lt_succ_self c) (Or.inl rfl) (A.char _ hm)
        · cases hm
        · cases hm
      · intro x hx hx'
        simp only [List.mem_cons, List.not_mem_nil, or_false] at hx'
        rcases hx' with rfl | rfl
        · exact not_char_of_u hcont (A.char _ hx)
        · exact not_char_of_u hbrk (A.char _ hx)
    · intro x hx
      rw [hl] at hx
      simp only [List.mem_cons, List.mem_append, List.not_mem_nil, or_false] at hx
      rcases hx with rfl | hx | rfl | rfl
      · exact Or.inr ⟨c, Nat.le_refl _, by have := A.le; simp only [genStmt]; omega, Or.inl rfl⟩
      · rcases A.char x hx with ⟨n, hn', rfl⟩ | h
        · exact Or.inl ⟨n, by simp [defs, hn'], rfl⟩
        · exact Or.inr (h.mono (Nat.le_succ c) (Nat.le_refl _))
      · exact Or.inl ⟨cont, by simp [defs], rfl⟩
      · exact Or.inl ⟨brk, by simp [defs], rfl⟩
    · intro n hn'
      simp only [defs, List.mem_append, List.mem_cons, List.not_mem_nil, or_false] at hn'
      rw [hl]
      simp only [List.mem_cons, List.mem_append, List.not_mem_nil, or_false]
      rcases hn' with hn' | rfl | rfl
      · exact Or.inr (Or.inl (A.defd n hn'))
      · exact Or.inr (Or.inr (Or.inl rfl))
      · exact Or.inr (Or.inr (Or.inr rfl))
  | doWhile brk cont body k ih =>
    intro c hn
    simp only [defs, List.nodup_append] at hn
    obtain ⟨hnb, hcb, hdis⟩ := hn
    have hbrk : brk ∉ defs body := fun hm => hdis brk hm brk (by simp) rfl
    have hcont : cont ∉ defs body := fun hm => hdis cont hm cont (by simp) rfl
    have hne : cont ≠ brk := by
      intro e; subst e; simp at hcb
    have A := ih (c + 1) hnb
    have hl : labelsOf (genStmt (.doWhile brk cont body k) c).1 =
        .begin_ c :: (labelsOf (genStmt body (c + 1)).1 ++ [.u cont, .u brk]) := by
      simp [genStmt, labelsOf_append, cmpZero]
    have hc : c ≤ (genStmt body (c + 1)).2 := by have := A.le; omega
    refine ⟨hc, ?_, ?_, ?_⟩
    · rw [hl, List.nodup_cons]
      refine ⟨?_, nodup_app A.nodup (by simp [hne]) ?_⟩
      · intro hm
        simp only [List.mem_append, List.mem_cons, List.not_mem_nil, or_false] at hm
        rcases hm with hm | hm | hm
        · exact not_char_of_count (Nat.lt_succ_self c) (Or.inl rfl) (A.char _ hm)
        · cases hm
        · cases hm
      · intro x hx hx'
        simp only [List.mem_cons, List.not_mem_nil, or_false] at hx'
        rcases hx' with rfl | rfl
        · exact not_char_of_u hcont (A.char _ hx)
        · exact not_char_of_u hbrk (A.char _ hx)
    · intro x hx
      rw [hl] at hx
      simp only [List.mem_cons, List.mem_append, List.not_mem_nil, or_false] at hx
      rcases hx with rfl | hx | rfl | rfl
      · exact Or.inr ⟨c, Nat.le_refl _, by have := A.le; simp only [genStmt]; omega, Or.inl rfl⟩
      · rcases A.char x hx with ⟨n, hn', rfl⟩ | h
        · exact Or.inl ⟨n, by simp [defs, hn'], rfl⟩
        · exact Or.inr (h.mono (Nat.le_succ c) (Nat.le_refl _))
      · exact Or.inl ⟨cont, by simp [defs], rfl⟩
      · exact Or.inl ⟨brk, by simp [defs], rfl⟩
    · intro n hn'
      simp only [defs, List.mem_append, List.mem_cons, List.not_mem_nil, or_false] at hn'
      rw [hl]
      simp only [List.mem_cons, List.mem_append, List.not_mem_nil, or_false]
      rcases hn' with hn' | rfl | rfl
      · exact Or.inr (Or.inl (A.defd n hn'))
      · exact Or.inr (Or.inr (Or.inl rfl))
      · exact Or.inr (Or.inr (Or.inr rfl))
  | ifte k t e iht ihe =>
    intro c hn
    simp only [defs, List.nodup_append] at hn
    obtain ⟨hna, hnb, hdis⟩ := hn
    have A := iht (c + 1) hna
    have B := ihe (genStmt t (c + 1)).2 hnb
    have hl : labelsOf (genStmt (.ifte k t e) c).1 =
        labelsOf (genStmt t (c + 1)).1 ++ (.else_ c :: (labelsOf (genStmt e (genStmt t (c + 1)).2).1 ++ [.end_ c])) := by
      simp [genStmt, labelsOf_append, cmpZero]
    have hA := A.le
    have hB := B.le
    have hc : c ≤ (genStmt e (genStmt t (c + 1)).2).2 := by omega
    have hBchar : ∀ x ∈ labelsOf (genStmt e (genStmt t (c + 1)).2).1,
        (∃ n ∈ defs e, x = .u n) ∨ CountLbl (c + 1) (genStmt e (genStmt t (c + 1)).2).2 x :=
      fun x hx => (B.char x hx).imp id (fun h => h.mono hA (Nat.le_refl _))
    refine ⟨hc, ?_, ?_, ?_⟩
    · rw [hl]
      refine nodup_app A.nodup ?_ ?_
      · rw [List.nodup_cons]
        refine ⟨?_, nodup_app B.nodup (by simp) ?_⟩
        · intro hm
          simp only [List.mem_append, List.mem_singleton] at hm
          rcases hm with hm | hm
          · exact not_char_of_count (Nat.lt_succ_self c) (Or.inr (Or.inl rfl)) (hBchar _ hm)
          · cases hm
        · intro x hx hx'
          simp only [List.mem_singleton] at hx'; subst hx'
          exact not_char_of_count (Nat.lt_succ_self c) (Or.inr (Or.inr rfl)) (hBchar _ hx)
      · intro x hx hx'
        simp only [List.mem_cons, List.mem_append, List.not_mem_nil, or_false] at hx'
        rcases hx' with rfl | hx' | rfl
        · exact not_char_of_count (Nat.lt_succ_self c) (Or.inr (Or.inl rfl)) (A.char _ hx)
        · rcases A.char x hx with ⟨n, hn, rfl⟩ | ⟨k1, h1, h2, h3⟩
          · rcases B.char _ hx' with ⟨m, hm, e'⟩ | ⟨k2, _, _, h3'⟩
            · cases e'; exact hdis n hn n hm rfl
            · rcases h3' with h | h | h <;> cases h
          · rcases B.char x hx' with ⟨m, hm, e'⟩ | ⟨k2, h1', h2', h3'⟩
            · subst e'; rcases h3 with h | h | h <;> cases h
            · rcases h3 with h | h | h <;> rcases h3' with h' | h' | h' <;> subst h <;> cases h' <;> omega
        · exact not_char_of_count (Nat.lt_succ_self c) (Or.inr (Or.inr rfl)) (A.char _ hx)
    · intro x hx
      rw [hl] at hx
      simp only [List.mem_cons, List.mem_append, List.not_mem_nil, or_false] at hx
      rcases hx with hx | rfl | hx | rfl
      · rcases A.char x hx with ⟨n, hn', rfl⟩ | h
        · exact Or.inl ⟨n, by simp [defs, hn'], rfl⟩
        · exact Or.inr (h.mono (Nat.le_succ c) hB)
      · exact Or.inr ⟨c, Nat.le_refl _, by simp only [genStmt]; omega, Or.inr (Or.inl rfl)⟩
      · rcases B.char x hx with ⟨n, hn', rfl⟩ | h
        · exact Or.inl ⟨n, by simp [defs, hn'], rfl⟩
        · exact Or.inr (h.mono (by omega) (Nat.le_refl _))
      · exact Or.inr ⟨c, Nat.le_refl _, by simp only [genStmt]; omega, Or.inr (Or.inr rfl)⟩
    · intro n hn'
      simp only [defs, List.mem_append] at hn'
      rw [hl]
      simp only [List.mem_cons, List.mem_append, List.not_mem_nil, or_false]
      rcases hn' with hn' | hn'
      · exact Or.inl (A.defd n hn')
      · exact Or.inr (Or.inr (Or.inl (B.defd n hn')))

/-! ### jump targets -/

@[simp] theorem targetsOf_nil : targetsOf [] = [] := rfl
@[simp] theorem targetsOf_cons (i : CIns) (r : List CIns) :
    targetsOf (i :: r) = (match i with
      | .jmp l => [l] | .je l => [l] | .jne l => [l] | .jbe l => [l] | .lea l => [l] | _ => []) ++ targetsOf r := by
  cases i <;> simp [targetsOf]

theorem targetsOf_callOpt (o : Option Nat) : targetsOf (callOpt o) = [] := by
  cases o <;> rfl

theorem targetsOf_ladderEnt (w : Bool) (e : CaseEnt) : targetsOf (ladderEnt w e) = [.u e.lbl] := by
  unfold ladderEnt
  simp only []
  by_cases h1 : e.lo = e.hi
  · rw [if_pos h1]
    by_cases h2 : fits32 (if w = true then e.lo else sext32 e.lo) = true
    · rw [if_pos h2]; rfl
    · rw [if_neg h2]; rfl
  · rw [if_neg h1]
    by_cases h2 : fits32 (if w = true then e.lo else sext32 e.lo) = true <;>
      by_cases h3 : fits32 (if w = true then e.hi - e.lo else sext32 (e.hi - e.lo)) = true
    · rw [if_pos h2, if_pos h3]; rfl
    · rw [if_pos h2, if_neg h3]; rfl
    · rw [if_neg h2, if_pos h3]; rfl
    · rw [if_neg h2, if_neg h3]; rfl

theorem targetsOf_ladder (w : Bool) (cs : List CaseEnt) (d : Option Nat) (b : Nat) :
    ∀ t ∈ targetsOf (ladder w cs d b), (∃ e ∈ cs, t = .u e.lbl) ∨ (∃ x, d = some x ∧ t = .u x) ∨ t = .u b := by
  intro t ht
  unfold ladder at ht
  rw [targetsOf_append, targetsOf_append, List.mem_append, List.mem_append] at ht
  rcases ht with (ht | ht) | ht
  · left
    induction cs with
    | nil => simp at ht
    | cons e r ih =>
      rw [List.flatMap_cons, targetsOf_append, List.mem_append, targetsOf_ladderEnt] at ht
      rcases ht with ht | ht
      · exact ⟨e, by simp, by simpa using ht⟩
      · obtain ⟨e', he', h⟩ := ih ht
        exact ⟨e', by simp [he'], h⟩
  · cases d with
    | none => simp at ht
    | some x =>
      simp at ht
      subst ht
      exact Or.inr (Or.inl ⟨x, rfl, rfl⟩)
  · simp at ht
    exact Or.inr (Or.inr ht)

theorem caseEnts_defs (st : Stmt) : (∀ e ∈ caseEnts st, e.lbl ∈ defs st) ∧ (∀ d ∈ dflts st, d ∈ defs st) := by
  induction st with
  | seq a b iha ihb =>
    constructor
    · intro e he
      simp only [caseEnts, List.mem_append] at he
      simp only [defs, List.mem_append]
      exact he.imp (iha.1 e) (ihb.1 e)
    · intro d hd
      simp only [dflts, List.mem_append] at hd
      simp only [defs, List.mem_append]
      exact hd.imp (iha.2 d) (ihb.2 d)
  | ifte k a b iha ihb =>
    constructor
    · intro e he
      simp only [caseEnts, List.mem_append] at he
      simp only [defs, List.mem_append]
      exact he.imp (iha.1 e) (ihb.1 e)
    · intro d hd
      simp only [dflts, List.mem_append] at hd
      simp only [defs, List.mem_append]
      exact hd.imp (iha.2 d) (ihb.2 d)
  | block s ih => exact ih
  | for_ i c n b ct body ih =>
    exact ⟨fun e he => by simp only [defs, List.mem_append]; exact Or.inl (ih.1 e he),
           fun d hd => by simp only [defs, List.mem_append]; exact Or.inl (ih.2 d hd)⟩
  | doWhile b ct body k ih =>
    exact ⟨fun e he => by simp only [defs, List.mem_append]; exact Or.inl (ih.1 e he),
           fun d hd => by simp only [defs, List.mem_append]; exact Or.inl (ih.2 d hd)⟩
  | case_ l lo hi s ih =>
    constructor
    · intro e he
      simp only [caseEnts, List.mem_cons] at he
      simp only [defs, List.mem_cons]
      rcases he with rfl | he
      · exact Or.inl rfl
      · exact Or.inr (ih.1 e he)
    · intro d hd
      simp only [defs, List.mem_cons]
      exact Or.inr (ih.2 d hd)
  | default_ l s ih =>
    constructor
    · intro e he
      simp only [defs, List.mem_cons]
      exact Or.inr (ih.1 e he)
    · intro d hd
      simp only [dflts, List.mem_cons] at hd
      simp only [defs, List.mem_cons]
      rcases hd with rfl | hd
      · exact Or.inl rfl
      · exact Or.inr (ih.2 d hd)
  | label l u s ih =>
    exact ⟨fun e he => by simp only [defs, List.mem_cons]; exact Or.inr (ih.1 e he),
           fun d hd => by simp only [defs, List.mem_cons]; exact Or.inr (ih.2 d hd)⟩
  | _ => exact ⟨by simp [caseEnts], by simp [dflts]⟩

/-- every user goto / label address of `st` is resolved to a label of the set `U` -/
def GotoOK (U : List Nat) : Stmt → Prop
  | .seq a b => GotoOK U a ∧ GotoOK U b
  | .block s => GotoOK U s
  | .ifte _ t e => GotoOK U t ∧ GotoOK U e
  | .for_ _ _ _ _ _ body => GotoOK U body
  | .doWhile _ _ body _ => GotoOK U body
  | .switch_ _ _ _ _ _ _ body => GotoOK U body
  | .case_ _ _ _ s => GotoOK U s
  | .default_ _ s => GotoOK U s
  | .label _ _ s => GotoOK U s
  | .goto_ (.user _) t => t ∈ U
  | .gotoVal _ t => t ∈ U
  | .gotoN _ => False
  | .gotoValN _ => False
  | _ => True

/-- where a jump of the code of `st` may go: a label defined in the same code, the break /
    continue label of the enclosing construct, a resolved user label, the function's return label -/
def TargetOK (U : List Nat) (b ct : Option Nat) (code : List CIns) (t : Lbl) : Prop :=
  t ∈ labelsOf code ∨ (∃ n, t = .u n ∧ (b = some n ∨ ct = some n ∨ n ∈ U)) ∨ t = .ret

theorem TargetOK.weaken {U : List Nat} {b ct b' ct' : Option Nat} {sub code : List CIns} {t : Lbl}
    (h : TargetOK U b' ct' sub t) (hl : ∀ l ∈ labelsOf sub, l ∈ labelsOf code)
    (hb : ∀ n, b' = some n → Lbl.u n ∈ labelsOf code ∨ b = some n)
    (hc : ∀ n, ct' = some n → Lbl.u n ∈ labelsOf code ∨ ct = some n) : TargetOK U b ct code t := by
  rcases h with h | ⟨n, rfl, h | h | h⟩ | h
  · exact Or.inl (hl t h)
  · rcases hb n h with h | h
    · exact Or.inl h
    · exact Or.inr (Or.inl ⟨n, rfl, Or.inl h⟩)
  · rcases hc n h with h | h
    · exact Or.inl h
    · exact Or.inr (Or.inl ⟨n, rfl, Or.inr (Or.inl h)⟩)
  · exact Or.inr (Or.inl ⟨n, rfl, Or.inr (Or.inr h)⟩)
  · exact Or.inr (Or.inr h)

theorem gen_targets (U : List Nat) (st : Stmt) : ∀ (c : Nat) (b ct : Option Nat), Bound b ct st → GotoOK U st →
    (defs st).Nodup → ∀ t ∈ targetsOf (genStmt st c).1, TargetOK U b ct (genStmt st c).1 t := by
  induction st with
  | skip => intro c b ct _ _ _ t ht; simp [genStmt] at ht
  | marker k => intro c b ct _ _ _ t ht; simp [genStmt] at ht
  | ret => intro c b ct _ _ _ t ht; simp [genStmt] at ht; exact Or.inr (Or.inr ht)
  | gotoN l => intro c b ct _ hg; exact absurd hg (by simp [GotoOK])
  | gotoValN l => intro c b ct _ hg; exact absurd hg (by simp [GotoOK])
  | gotoVal l u =>
    intro c b ct _ hg _ t ht
    simp [genStmt] at ht
    exact Or.inr (Or.inl ⟨u, ht, Or.inr (Or.inr hg)⟩)
  | goto_ k u =>
    intro c b ct hb hg _ t ht
    simp [genStmt] at ht
    cases k with
    | brk => exact Or.inr (Or.inl ⟨u, ht, Or.inl hb⟩)
    | cont => exact Or.inr (Or.inl ⟨u, ht, Or.inr (Or.inl hb)⟩)
    | user l => exact Or.inr (Or.inl ⟨u, ht, Or.inr (Or.inr hg)⟩)
  | block s ih =>
    intro c b ct hb hg hn t ht
    exact ih c b ct hb hg hn t ht
  | seq x y ihx ihy =>
    intro c b ct hb hg hn t ht
    simp only [defs, List.nodup_append] at hn
    simp only [genStmt, targetsOf_append, List.mem_append] at ht
    rcases ht with ht | ht
    · exact (ihx c b ct hb.1 hg.1 hn.1 t ht).weaken (by intro l hl; simp [genStmt, labelsOf_append, hl])
        (fun n h => Or.inr h) (fun n h => Or.inr h)
    · exact (ihy _ b ct hb.2 hg.2 hn.2.1 t ht).weaken (by intro l hl; simp [genStmt, labelsOf_append, hl])
        (fun n h => Or.inr h) (fun n h => Or.inr h)
  | case_ l lo hi s ih =>
    intro c b ct hb hg hn t ht
    simp only [defs, List.nodup_cons] at hn
    simp only [genStmt, targetsOf_cons, List.nil_append] at ht
    exact (ih c b ct hb hg hn.2 t ht).weaken (by intro l hl; simp [genStmt, hl])
      (fun n h => Or.inr h) (fun n h => Or.inr h)
  | default_ l s ih =>
    intro c b ct hb hg hn t ht
    simp only [defs, List.nodup_cons] at hn
    simp only [genStmt, targetsOf_cons, List.nil_append] at ht
    exact (ih c b ct hb hg hn.2 t ht).weaken (by intro l hl; simp [genStmt, hl])
      (fun n h => Or.inr h) (fun n h => Or.inr h)
  | label l u s ih =>
    intro c b ct hb hg hn t ht
    simp only [defs, List.nodup_cons] at hn
    simp only [genStmt, targetsOf_cons, List.nil_append] at ht
    exact (ih c b ct hb hg hn.2 t ht).weaken (by intro l hl; simp [genStmt, hl])
      (fun n h => Or.inr h) (fun n h => Or.inr h)
  | ifte k x y ihx ihy =>
    intro c b ct hb hg hn t ht
    simp only [defs, List.nodup_append] at hn
    simp only [genStmt, targetsOf_append, targetsOf_cons, targetsOf_nil, cmpZero, List.mem_append, List.mem_cons,
      List.nil_append, List.append_nil, List.not_mem_nil, or_false, false_or] at ht
    rcases ht with ((rfl | ht) | rfl) | ht
    · exact Or.inl (by simp [genStmt, labelsOf_append, cmpZero])
    · exact (ihx _ b ct hb.1 hg.1 hn.1 t ht).weaken (by intro l hl; simp [genStmt, labelsOf_append, hl])
        (fun n h => Or.inr h) (fun n h => Or.inr h)
    · exact Or.inl (by simp [genStmt, labelsOf_append, cmpZero])
    · exact (ihy _ b ct hb.2 hg.2 hn.2.1 t ht).weaken (by intro l hl; simp [genStmt, labelsOf_append, hl])
        (fun n h => Or.inr h) (fun n h => Or.inr h)
  | doWhile brk cont body k ih =>
    intro c b ct hb hg hn t ht
    simp only [defs, List.nodup_append] at hn
    simp only [genStmt, targetsOf_append, targetsOf_cons, targetsOf_nil, cmpZero, List.mem_append, List.mem_cons,
      List.nil_append, List.append_nil, List.not_mem_nil, or_false, false_or] at ht
    rcases ht with ht | rfl
    · refine (ih _ _ _ hb hg hn.1 t ht).weaken (by intro l hl; simp [genStmt, labelsOf_append, hl]) ?_ ?_
      · intro n h; cases h; exact Or.inl (by simp [genStmt, labelsOf_append, cmpZero])
      · intro n h; cases h; exact Or.inl (by simp [genStmt, labelsOf_append, cmpZero])
    · exact Or.inl (by simp [genStmt, labelsOf_append, cmpZero])
  | for_ i cnd inc brk cont body ih =>
    intro c b ct hb hg hn t ht
    simp only [defs, List.nodup_append] at hn
    have hlab : ∀ l, l ∈ labelsOf (genStmt (.for_ i cnd inc brk cont body) c).1 ↔
        l = .begin_ c ∨ l ∈ labelsOf (genStmt body (c + 1)).1 ∨ l = .u cont ∨ l = .u brk := by
      intro l
      cases cnd <;> simp [genStmt, labelsOf_append, labelsOf_callOpt, cmpZero]
    have htar : t ∈ targetsOf (genStmt body (c + 1)).1 ∨ t = .begin_ c ∨ t = .u brk := by
      cases cnd with
      | none =>
        simp [genStmt, targetsOf_append, targetsOf_callOpt] at ht
        rcases ht with h | h
        · exact Or.inl h
        · exact Or.inr (Or.inl h)
      | some kk =>
        simp [genStmt, targetsOf_append, targetsOf_callOpt, cmpZero] at ht
        rcases ht with h | h | h
        · exact Or.inr (Or.inr h)
        · exact Or.inl h
        · exact Or.inr (Or.inl h)
    rcases htar with ht | rfl | rfl
    · refine (ih _ _ _ hb hg hn.1 t ht).weaken (by intro l hl; rw [hlab]; simp [hl]) ?_ ?_
      · intro n h; cases h; exact Or.inl (by rw [hlab]; simp)
      · intro n h; cases h; exact Or.inl (by rw [hlab]; simp)
    · exact Or.inl (by rw [hlab]; simp)
    · exact Or.inl (by rw [hlab]; simp)
  | switch_ w u k cases dflt brk body ih =>
    intro c b ct hb hg hn t ht
    simp only [defs, List.nodup_append] at hn
    obtain ⟨hbb, hcases, hdf⟩ := hb
    have hlab : ∀ l, l ∈ labelsOf (genStmt (.switch_ w u k cases dflt brk body) c).1 ↔
        l ∈ labelsOf (genStmt body c).1 ∨ l = .u brk := by
      intro l; simp [genStmt, labelsOf_append, labelsOf_ladder]
    have G := gen_labels body c hn.1
    simp only [genStmt, targetsOf_append, targetsOf_cons, targetsOf_nil, List.mem_append, List.mem_cons,
      List.nil_append, List.append_nil, List.not_mem_nil, or_false, false_or] at ht
    rcases ht with ht | ht
    · rcases targetsOf_ladder w cases dflt brk t ht with ⟨e, he, rfl⟩ | ⟨x, rfl, rfl⟩ | rfl
      · exact Or.inl (by rw [hlab]; exact Or.inl (G.defd _ ((caseEnts_defs body).1 e ((hcases e).1 he))))
      · exact Or.inl (by rw [hlab]; exact Or.inl (G.defd _ ((caseEnts_defs body).2 x hdf)))
      · exact Or.inl (by rw [hlab]; exact Or.inr rfl)
    · refine (ih _ _ _ hbb hg hn.1 t ht).weaken (by intro l hl; rw [hlab]; exact Or.inl hl) ?_ (fun n h => Or.inr h)
      intro n h; cases h; exact Or.inl (by rw [hlab]; exact Or.inr rfl)

/-! ### `resolve_goto_labels` -/

theorem lookupLabel_mem {L : List (Nat × Nat)} {l u : Nat} (h : lookupLabel L l = some u) :
    ∃ p ∈ L, p.2 = u := by
  unfold lookupLabel at h
  cases hf : L.find? (fun p => p.1 == l) with
  | none => rw [hf] at h; cases h
  | some p =>
    rw [hf] at h
    simp only [Option.map_some, Option.some.injEq] at h
    exact ⟨p, List.mem_of_find?_eq_some hf, h⟩

structure RInv (U : List Nat) (st st' : Stmt) : Prop where
  goto : GotoOK U st'
  defs : defs st' = defs st
  cases : caseEnts st' = caseEnts st
  dflts : dflts st' = dflts st
  erase : erase st' = erase st
  bound : ∀ b c, Bound b c st → Bound b c st'

theorem RInv.refl_of {U : List Nat} {st : Stmt} (h : GotoOK U st) : RInv U st st :=
  ⟨h, rfl, rfl, rfl, rfl, fun _ _ h => h⟩

theorem resolve_inv (U : List Nat) (L : List (Nat × Nat)) (hL : ∀ p ∈ L, p.2 ∈ U) (st : Stmt) :
    ∀ st', resolve L st = .ok st' → RInv U st st' := by
  induction st with
  | skip => intro st' h; simp only [resolve, Except.ok.injEq] at h; subst h; exact .refl_of trivial
  | marker k => intro st' h; simp only [resolve, Except.ok.injEq] at h; subst h; exact .refl_of trivial
  | ret => intro st' h; simp only [resolve, Except.ok.injEq] at h; subst h; exact .refl_of trivial
  | goto_ k t =>
    intro st' h
    cases k with
    | brk => simp only [resolve, Except.ok.injEq] at h; subst h; exact .refl_of trivial
    | cont => simp only [resolve, Except.ok.injEq] at h; subst h; exact .refl_of trivial
    | user l =>
      simp only [resolve] at h
      split at h
      · cases h
      · rename_i u hu
        simp only [Except.ok.injEq] at h
        subst h
        obtain ⟨p, hp, rfl⟩ := lookupLabel_mem hu
        exact ⟨hL p hp, rfl, rfl, rfl, rfl, fun _ _ _ => trivial⟩
  | gotoN l =>
    intro st' h
    simp only [resolve] at h
    split at h
    · cases h
    · rename_i u hu
      simp only [Except.ok.injEq] at h
      subst h
      obtain ⟨p, hp, rfl⟩ := lookupLabel_mem hu
      exact ⟨hL p hp, rfl, rfl, rfl, rfl, fun _ _ _ => trivial⟩
  | gotoVal l t =>
    intro st' h
    simp only [resolve] at h
    split at h
    · cases h
    · rename_i u hu
      simp only [Except.ok.injEq] at h
      subst h
      obtain ⟨p, hp, rfl⟩ := lookupLabel_mem hu
      exact ⟨hL p hp, rfl, rfl, rfl, rfl, fun _ _ _ => trivial⟩
  | gotoValN l =>
    intro st' h
    simp only [resolve] at h
    split at h
    · cases h
    · rename_i u hu
      simp only [Except.ok.injEq] at h
      subst h
      obtain ⟨p, hp, rfl⟩ := lookupLabel_mem hu
      exact ⟨hL p hp, rfl, rfl, rfl, rfl, fun _ _ _ => trivial⟩
  | seq a b iha ihb =>
    intro st' h
    simp only [resolve] at h
    split at h
    · cases h
    · rename_i a' ha
      split at h
      · cases h
      · rename_i b' hb
        simp only [Except.ok.injEq] at h
        subst h
        have A := iha _ ha
        have B := ihb _ hb
        exact ⟨⟨A.goto, B.goto⟩, by simp [defs, A.defs, B.defs], by simp [caseEnts, A.cases, B.cases],
          by simp [dflts, A.dflts, B.dflts], by simp [erase, A.erase, B.erase],
          fun b c hb => ⟨A.bound b c hb.1, B.bound b c hb.2⟩⟩
  | ifte k a b iha ihb =>
    intro st' h
    simp only [resolve] at h
    split at h
    · cases h
    · rename_i a' ha
      split at h
      · cases h
      · rename_i b' hb
        simp only [Except.ok.injEq] at h
        subst h
        have A := iha _ ha
        have B := ihb _ hb
        exact ⟨⟨A.goto, B.goto⟩, by simp [defs, A.defs, B.defs], by simp [caseEnts, A.cases, B.cases],
          by simp [dflts, A.dflts, B.dflts], by simp [erase, A.erase, B.erase],
          fun b c hb => ⟨A.bound b c hb.1, B.bound b c hb.2⟩⟩
  | block s ih =>
    intro st' h
    simp only [resolve] at h
    split at h
    · cases h
    · rename_i s' hs
      simp only [Except.ok.injEq] at h
      subst h
      have A := ih _ hs
      exact ⟨A.goto, by simp [defs, A.defs], by simp [caseEnts, A.cases], by simp [dflts, A.dflts],
        by simp [erase, A.erase], fun b c hb => A.bound b c hb⟩
  | for_ i cn inc brk cont body ih =>
    intro st' h
    simp only [resolve] at h
    split at h
    · cases h
    · rename_i s' hs
      simp only [Except.ok.injEq] at h
      subst h
      have A := ih _ hs
      exact ⟨A.goto, by simp [defs, A.defs], by simp [caseEnts, A.cases], by simp [dflts, A.dflts],
        by simp [erase, A.erase], fun b c hb => A.bound _ _ hb⟩
  | doWhile brk cont body k ih =>
    intro st' h
    simp only [resolve] at h
    split at h
    · cases h
    · rename_i s' hs
      simp only [Except.ok.injEq] at h
      subst h
      have A := ih _ hs
      exact ⟨A.goto, by simp [defs, A.defs], by simp [caseEnts, A.cases], by simp [dflts, A.dflts],
        by simp [erase, A.erase], fun b c hb => A.bound _ _ hb⟩
  | case_ l lo hi s ih =>
    intro st' h
    simp only [resolve] at h
    split at h
    · cases h
    · rename_i s' hs
      simp only [Except.ok.injEq] at h
      subst h
      have A := ih _ hs
      exact ⟨A.goto, by simp [defs, A.defs], by simp [caseEnts, A.cases], by simp [dflts, A.dflts],
        by simp [erase, A.erase], fun b c hb => A.bound b c hb⟩
  | default_ l s ih =>
    intro st' h
    simp only [resolve] at h
    split at h
    · cases h
    · rename_i s' hs
      simp only [Except.ok.injEq] at h
      subst h
      have A := ih _ hs
      exact ⟨A.goto, by simp [defs, A.defs], by simp [caseEnts, A.cases], by simp [dflts, A.dflts],
        by simp [erase, A.erase], fun b c hb => A.bound b c hb⟩
  | label l u s ih =>
    intro st' h
    simp only [resolve] at h
    split at h
    · cases h
    · rename_i s' hs
      simp only [Except.ok.injEq] at h
      subst h
      have A := ih _ hs
      exact ⟨A.goto, by simp [defs, A.defs], by simp [caseEnts, A.cases], by simp [dflts, A.dflts],
        by simp [erase, A.erase], fun b c hb => A.bound b c hb⟩
  | switch_ w u k cs d brk body ih =>
    intro st' h
    simp only [resolve] at h
    split at h
    · cases h
    · rename_i s' hs
      simp only [Except.ok.injEq] at h
      subst h
      have A := ih _ hs
      exact ⟨A.goto, by simp [defs, A.defs], by simp [caseEnts, A.cases], by simp [dflts, A.dflts],
        by simp [erase, A.erase], fun b c hb => ⟨A.bound _ _ hb.1, by rw [A.cases]; exact hb.2.1, by rw [A.dflts]; exact hb.2.2⟩⟩

end ChibiVerif.Ctl
