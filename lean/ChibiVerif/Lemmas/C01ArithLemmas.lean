/-
C01: the value each operator sequence leaves in `%rax` (`OpKind.fn`, `UnKind.fn`) is the C11 result
(`Spec.IntSpec.arith` / `unop`) whenever C11 defines it — arithmetic on `BitVec 32` / `BitVec 64`.
-/
import ChibiVerif.Lemmas.C01OpLemmas

namespace ChibiVerif.C01
open ChibiVerif.X86 ChibiVerif.Asm ChibiVerif.Spec.IntSpec ChibiVerif.Gen.CommonType ChibiVerif.C01Codegen

/-! ### `Represents` for the four computation types, in terms of `toInt` / `toNat` -/

theorem rep_i32 (r : BitVec 64) (v : Int) : Represents .i32 r v ↔ (r.setWidth 32).toInt = v := by
  unfold_spec; bv_ints
theorem rep_u32 (r : BitVec 64) (v : Int) : Represents .u32 r v ↔ ((r.setWidth 32).toNat : Int) = v := by
  unfold_spec; bv_ints
theorem rep_i64 (r : BitVec 64) (v : Int) : Represents .i64 r v ↔ r.toInt = v := by
  unfold_spec; bv_ints
theorem rep_u64 (r : BitVec 64) (v : Int) : Represents .u64 r v ↔ (r.toNat : Int) = v := by
  unfold_spec; bv_ints

theorem rep_i32_zext (y : BitVec 32) (v : Int) : Represents .i32 (y.setWidth 64) v ↔ y.toInt = v := by
  rw [rep_i32, setWidth_32_64_32]
theorem rep_u32_zext (y : BitVec 32) (v : Int) : Represents .u32 (y.setWidth 64) v ↔ (y.toNat : Int) = v := by
  rw [rep_u32, setWidth_32_64_32]


/-! ### core facts on `BitVec 32` / `BitVec 64` (one per instruction kind and signedness) -/

/-- bounds of `toInt`/`toNat`, `toInt`/`toNat` of `+ - *` as `bmod`/`%`, split, omega -/
macro "ints32" a:ident b:ident : tactic => `(tactic| (
  have h1 := @BitVec.toInt_lt 32 $a; have h2 := @BitVec.le_toInt 32 $a
  have h3 := @BitVec.toInt_lt 32 $b; have h4 := @BitVec.le_toInt 32 $b
  have h5 := ($a).isLt; have h6 := ($b).isLt
  simp only [BitVec.toInt_add, BitVec.toInt_sub, BitVec.toInt_mul, BitVec.toNat_add, BitVec.toNat_sub, BitVec.toNat_mul,
    Int.bmod_def] at *
  simp at *
  repeat' split
  all_goals omega))

macro "ints64" a:ident b:ident : tactic => `(tactic| (
  have h1 := @BitVec.toInt_lt 64 $a; have h2 := @BitVec.le_toInt 64 $a
  have h3 := @BitVec.toInt_lt 64 $b; have h4 := @BitVec.le_toInt 64 $b
  have h5 := ($a).isLt; have h6 := ($b).isLt
  simp only [BitVec.toInt_add, BitVec.toInt_sub, BitVec.toInt_mul, BitVec.toNat_add, BitVec.toNat_sub, BitVec.toNat_mul,
    Int.bmod_def] at *
  simp at *
  repeat' split
  all_goals omega))

theorem add_s32 (a b : BitVec 32) (h : -2147483648 ≤ a.toInt + b.toInt ∧ a.toInt + b.toInt ≤ 2147483647) :
    (a + b).toInt = a.toInt + b.toInt := by ints32 a b
theorem sub_s32 (a b : BitVec 32) (h : -2147483648 ≤ a.toInt - b.toInt ∧ a.toInt - b.toInt ≤ 2147483647) :
    (a - b).toInt = a.toInt - b.toInt := by ints32 a b
theorem mul_s32 (a b : BitVec 32) (h : -2147483648 ≤ a.toInt * b.toInt ∧ a.toInt * b.toInt ≤ 2147483647) :
    (a * b).toInt = a.toInt * b.toInt := by ints32 a b
theorem add_u32 (a b : BitVec 32) : ((a + b).toNat : Int) = ((a.toNat : Int) + b.toNat) % 4294967296 := by ints32 a b
theorem sub_u32 (a b : BitVec 32) : ((a - b).toNat : Int) = ((a.toNat : Int) - b.toNat) % 4294967296 := by ints32 a b
theorem mul_u32 (a b : BitVec 32) : ((a * b).toNat : Int) = ((a.toNat : Int) * b.toNat) % 4294967296 := by
  simp [BitVec.toNat_mul]

theorem add_s64 (a b : BitVec 64)
    (h : -9223372036854775808 ≤ a.toInt + b.toInt ∧ a.toInt + b.toInt ≤ 9223372036854775807) :
    (a + b).toInt = a.toInt + b.toInt := by ints64 a b
theorem sub_s64 (a b : BitVec 64)
    (h : -9223372036854775808 ≤ a.toInt - b.toInt ∧ a.toInt - b.toInt ≤ 9223372036854775807) :
    (a - b).toInt = a.toInt - b.toInt := by ints64 a b
theorem mul_s64 (a b : BitVec 64)
    (h : -9223372036854775808 ≤ a.toInt * b.toInt ∧ a.toInt * b.toInt ≤ 9223372036854775807) :
    (a * b).toInt = a.toInt * b.toInt := by ints64 a b
theorem add_u64 (a b : BitVec 64) : ((a + b).toNat : Int) = ((a.toNat : Int) + b.toNat) % 18446744073709551616 := by
  ints64 a b
theorem sub_u64 (a b : BitVec 64) : ((a - b).toNat : Int) = ((a.toNat : Int) - b.toNat) % 18446744073709551616 := by
  ints64 a b
theorem mul_u64 (a b : BitVec 64) : ((a * b).toNat : Int) = ((a.toNat : Int) * b.toNat) % 18446744073709551616 := by
  simp [BitVec.toNat_mul]

/-! bit patterns: `toBits`/`ofBits` of the Spec are `toNat` / `toInt` of the register -/

theorem toBits_i32 (x : BitVec 32) : toBits .i32 x.toInt = x.toNat := by
  have := x.isLt; simp [toBits, ITy.bits, BitVec.toInt_eq_toNat_cond]; split <;> omega
theorem toBits_u32 (x : BitVec 32) : toBits .u32 (x.toNat : Int) = x.toNat := by
  have := x.isLt; simp [toBits, ITy.bits]; omega
theorem toBits_i64 (x : BitVec 64) : toBits .i64 x.toInt = x.toNat := by
  have := x.isLt; simp [toBits, ITy.bits, BitVec.toInt_eq_toNat_cond]; split <;> omega
theorem toBits_u64 (x : BitVec 64) : toBits .u64 (x.toNat : Int) = x.toNat := by
  have := x.isLt; simp [toBits, ITy.bits]; omega
theorem ofBits_i32 (x : BitVec 32) : ofBits .i32 x.toNat = x.toInt := by
  simp [ofBits, wrap, ITy.signed, ITy.bits, BitVec.toInt_eq_toNat_bmod]
theorem ofBits_u32 (x : BitVec 32) : ofBits .u32 x.toNat = (x.toNat : Int) := by
  have := x.isLt; simp [ofBits, wrap, ITy.signed, ITy.bits]; omega
theorem ofBits_i64 (x : BitVec 64) : ofBits .i64 x.toNat = x.toInt := by
  simp [ofBits, wrap, ITy.signed, ITy.bits, BitVec.toInt_eq_toNat_bmod]
theorem ofBits_u64 (x : BitVec 64) : ofBits .u64 x.toNat = (x.toNat : Int) := by
  have := x.isLt; simp [ofBits, wrap, ITy.signed, ITy.bits]; omega

/-- the 0/1 result of `setcc; movzb` represents the `int` 0/1 of a C relational operator -/
theorem rep_b64 (c : Bool) : Represents .i32 (b64 c) (b2i c) := by
  cases c <;> simp [b64, b2i, Represents, ITy.inRange, ITy.min, ITy.max, ITy.signed, ITy.bits]

theorem ofInt32_toInt_of_range (q : Int) (h : -2147483648 ≤ q ∧ q ≤ 2147483647) : (BitVec.ofInt 32 q).toInt = q := by
  rw [BitVec.toInt_ofInt, Int.bmod_def]; simp; split <;> omega
theorem ofInt64_toInt_of_range (q : Int) (h : -9223372036854775808 ≤ q ∧ q ≤ 9223372036854775807) :
    (BitVec.ofInt 64 q).toInt = q := by
  rw [BitVec.toInt_ofInt, Int.bmod_def]; simp; split <;> omega

/-- `kind` leaves the C11 value of `a op b` (computed in type `t`) in `%rax`, and does not fault, whenever C11 defines it -/
def OpKind.Computes (kind : OpKind) (op : BinOp) (t : ITy) : Prop :=
  ∀ (r d : BitVec 64) (va vb x : Int), Represents t r va → Represents t d vb → arith op t va vb = some x →
    ∃ y, kind.fn r d = some y ∧ Represents (binopType op t t) y x

macro "c_s32" lem:term : tactic => `(tactic| (
  intro r d va vb x ha hb hx
  refine ⟨_, rfl, ?_⟩
  rw [rep_i32] at ha hb
  show Represents .i32 (BitVec.setWidth 64 _) x
  rw [rep_i32_zext]
  generalize BitVec.setWidth 32 r = a at *
  generalize BitVec.setWidth 32 d = b at *
  subst ha hb
  simp [arith, fit, ITy.inRange, ITy.min, ITy.max, ITy.signed, ITy.bits] at hx
  obtain ⟨hr, hx⟩ := hx
  subst hx
  exact $lem _ _ hr))

macro "c_u32" lem:term : tactic => `(tactic| (
  intro r d va vb x ha hb hx
  refine ⟨_, rfl, ?_⟩
  rw [rep_u32] at ha hb
  show Represents .u32 (BitVec.setWidth 64 _) x
  rw [rep_u32_zext]
  generalize BitVec.setWidth 32 r = a at *
  generalize BitVec.setWidth 32 d = b at *
  subst ha hb
  simp [arith, fit, ITy.signed, ITy.bits, wrap] at hx
  subst hx
  exact $lem _ _))

macro "c_s64" lem:term : tactic => `(tactic| (
  intro r d va vb x ha hb hx
  refine ⟨_, rfl, ?_⟩
  rw [rep_i64] at ha hb
  show Represents .i64 _ x
  rw [rep_i64]
  subst ha hb
  simp [arith, fit, ITy.inRange, ITy.min, ITy.max, ITy.signed, ITy.bits] at hx
  obtain ⟨hr, hx⟩ := hx
  subst hx
  exact $lem _ _ hr))

macro "c_u64" lem:term : tactic => `(tactic| (
  intro r d va vb x ha hb hx
  refine ⟨_, rfl, ?_⟩
  rw [rep_u64] at ha hb
  show Represents .u64 _ x
  rw [rep_u64]
  subst ha hb
  simp [arith, fit, ITy.signed, ITy.bits, wrap] at hx
  subst hx
  exact $lem _ _))

theorem add_i32 : OpKind.add32.Computes .add .i32 := by c_s32 add_s32
theorem sub_i32 : OpKind.sub32.Computes .sub .i32 := by c_s32 sub_s32
theorem mul_i32 : OpKind.mul32.Computes .mul .i32 := by c_s32 mul_s32
theorem add_u32' : OpKind.add32.Computes .add .u32 := by c_u32 add_u32
theorem sub_u32' : OpKind.sub32.Computes .sub .u32 := by c_u32 sub_u32
theorem mul_u32' : OpKind.mul32.Computes .mul .u32 := by c_u32 mul_u32
theorem add_i64 : OpKind.add64.Computes .add .i64 := by c_s64 add_s64
theorem sub_i64 : OpKind.sub64.Computes .sub .i64 := by c_s64 sub_s64
theorem mul_i64 : OpKind.mul64.Computes .mul .i64 := by c_s64 mul_s64
theorem add_u64' : OpKind.add64.Computes .add .u64 := by c_u64 add_u64
theorem sub_u64' : OpKind.sub64.Computes .sub .u64 := by c_u64 sub_u64
theorem mul_u64' : OpKind.mul64.Computes .mul .u64 := by c_u64 mul_u64

/-! bitwise -/
macro "c_bit_s32" lem:term : tactic => `(tactic| (
  intro r d va vb x ha hb hx
  refine ⟨_, rfl, ?_⟩
  rw [rep_i32] at ha hb
  show Represents .i32 (BitVec.setWidth 64 _) x
  rw [rep_i32_zext]
  generalize BitVec.setWidth 32 r = a at *
  generalize BitVec.setWidth 32 d = b at *
  subst ha hb
  simp only [arith, toBits_i32, ← $lem, ofBits_i32, Option.some.injEq] at hx
  exact hx))
macro "c_bit_u32" lem:term : tactic => `(tactic| (
  intro r d va vb x ha hb hx
  refine ⟨_, rfl, ?_⟩
  rw [rep_u32] at ha hb
  show Represents .u32 (BitVec.setWidth 64 _) x
  rw [rep_u32_zext]
  generalize BitVec.setWidth 32 r = a at *
  generalize BitVec.setWidth 32 d = b at *
  subst ha hb
  simp only [arith, toBits_u32, ← $lem, ofBits_u32, Option.some.injEq] at hx
  exact hx))
macro "c_bit_s64" lem:term : tactic => `(tactic| (
  intro r d va vb x ha hb hx
  refine ⟨_, rfl, ?_⟩
  rw [rep_i64] at ha hb
  show Represents .i64 _ x
  rw [rep_i64]
  subst ha hb
  simp only [arith, toBits_i64, ← $lem, ofBits_i64, Option.some.injEq] at hx
  exact hx))
macro "c_bit_u64" lem:term : tactic => `(tactic| (
  intro r d va vb x ha hb hx
  refine ⟨_, rfl, ?_⟩
  rw [rep_u64] at ha hb
  show Represents .u64 _ x
  rw [rep_u64]
  subst ha hb
  simp only [arith, toBits_u64, ← $lem, ofBits_u64, Option.some.injEq] at hx
  exact hx))

theorem and_i32 : OpKind.and32.Computes .band .i32 := by c_bit_s32 BitVec.toNat_and
theorem or_i32 : OpKind.or32.Computes .bor .i32 := by c_bit_s32 BitVec.toNat_or
theorem xor_i32 : OpKind.xor32.Computes .bxor .i32 := by c_bit_s32 BitVec.toNat_xor
theorem and_u32 : OpKind.and32.Computes .band .u32 := by c_bit_u32 BitVec.toNat_and
theorem or_u32 : OpKind.or32.Computes .bor .u32 := by c_bit_u32 BitVec.toNat_or
theorem xor_u32 : OpKind.xor32.Computes .bxor .u32 := by c_bit_u32 BitVec.toNat_xor
theorem and_i64 : OpKind.and64.Computes .band .i64 := by c_bit_s64 BitVec.toNat_and
theorem or_i64 : OpKind.or64.Computes .bor .i64 := by c_bit_s64 BitVec.toNat_or
theorem xor_i64 : OpKind.xor64.Computes .bxor .i64 := by c_bit_s64 BitVec.toNat_xor
theorem and_u64 : OpKind.and64.Computes .band .u64 := by c_bit_u64 BitVec.toNat_and
theorem or_u64 : OpKind.or64.Computes .bor .u64 := by c_bit_u64 BitVec.toNat_or
theorem xor_u64 : OpKind.xor64.Computes .bxor .u64 := by c_bit_u64 BitVec.toNat_xor

theorem div_i32 : OpKind.divs32.Computes .div .i32 := by
  intro r d va vb x ha hb hx
  rw [rep_i32] at ha hb
  simp only [OpKind.fn]
  generalize BitVec.setWidth 32 r = a at *
  generalize BitVec.setWidth 32 d = b at *
  subst ha hb
  simp [arith, fit, ITy.inRange, ITy.min, ITy.max, ITy.signed, ITy.bits] at hx
  obtain ⟨hb0, hr, hx⟩ := hx
  subst hx
  have c2 : ¬ (a.toInt.tdiv b.toInt < -2 ^ 31 ∨ a.toInt.tdiv b.toInt ≥ 2 ^ 31) := by omega
  rw [if_neg hb0, if_neg c2]
  refine ⟨_, rfl, ?_⟩
  show Represents .i32 (BitVec.setWidth 64 _) _
  rw [rep_i32_zext]
  exact ofInt32_toInt_of_range _ hr

theorem mod_i32 : OpKind.mods32.Computes .mod .i32 := by
  intro r d va vb x ha hb hx
  rw [rep_i32] at ha hb
  simp only [OpKind.fn]
  generalize BitVec.setWidth 32 r = a at *
  generalize BitVec.setWidth 32 d = b at *
  subst ha hb
  simp [arith, fit, ITy.inRange, ITy.min, ITy.max, ITy.signed, ITy.bits] at hx
  obtain ⟨hb0, hr, hx⟩ := hx
  subst hx
  have c2 : ¬ (a.toInt.tdiv b.toInt < -2 ^ 31 ∨ a.toInt.tdiv b.toInt ≥ 2 ^ 31) := by omega
  rw [if_neg hb0, if_neg c2]
  refine ⟨_, rfl, ?_⟩
  show Represents .i32 (BitVec.setWidth 64 _) _
  rw [rep_i32_zext]
  rw [← BitVec.toInt_srem, BitVec.ofInt_toInt]

theorem div_i64 : OpKind.divs64.Computes .div .i64 := by
  intro r d va vb x ha hb hx
  rw [rep_i64] at ha hb
  simp only [OpKind.fn]
  generalize r = a at *
  generalize d = b at *
  subst ha hb
  simp [arith, fit, ITy.inRange, ITy.min, ITy.max, ITy.signed, ITy.bits] at hx
  obtain ⟨hb0, hr, hx⟩ := hx
  subst hx
  have c2 : ¬ (a.toInt.tdiv b.toInt < -2 ^ 63 ∨ a.toInt.tdiv b.toInt ≥ 2 ^ 63) := by omega
  rw [if_neg hb0, if_neg c2]
  refine ⟨_, rfl, ?_⟩
  show Represents .i64 _ _
  rw [rep_i64]
  exact ofInt64_toInt_of_range _ hr

theorem mod_i64 : OpKind.mods64.Computes .mod .i64 := by
  intro r d va vb x ha hb hx
  rw [rep_i64] at ha hb
  simp only [OpKind.fn]
  generalize r = a at *
  generalize d = b at *
  subst ha hb
  simp [arith, fit, ITy.inRange, ITy.min, ITy.max, ITy.signed, ITy.bits] at hx
  obtain ⟨hb0, hr, hx⟩ := hx
  subst hx
  have c2 : ¬ (a.toInt.tdiv b.toInt < -2 ^ 63 ∨ a.toInt.tdiv b.toInt ≥ 2 ^ 63) := by omega
  rw [if_neg hb0, if_neg c2]
  refine ⟨_, rfl, ?_⟩
  show Represents .i64 _ _
  rw [rep_i64]
  rw [← BitVec.toInt_srem, BitVec.ofInt_toInt]

theorem div_u32 : OpKind.divu32.Computes .div .u32 := by
  intro r d va vb x ha hb hx
  rw [rep_u32] at ha hb
  simp only [OpKind.fn]
  generalize BitVec.setWidth 32 r = a at *
  generalize BitVec.setWidth 32 d = b at *
  subst ha hb
  simp [arith, fit, ITy.signed, ITy.bits, wrap] at hx
  obtain ⟨hb0, hx⟩ := hx
  subst hx
  rw [if_neg hb0]
  refine ⟨_, rfl, ?_⟩
  show Represents .u32 (BitVec.setWidth 64 _) _
  rw [rep_u32_zext]
  have h1 := a.isLt
  have h2 := Nat.div_le_self a.toNat b.toNat
  have h3 := Nat.mod_lt a.toNat (Nat.pos_of_ne_zero hb0)
  have h4 := b.isLt
  have e : (↑a.toNat : Int).tmod ↑b.toNat = ((a.toNat % b.toNat : Nat) : Int) := rfl
  simp only [e] at *
  simp [BitVec.toNat_ofNat]
  try omega
theorem mod_u32 : OpKind.modu32.Computes .mod .u32 := by
  intro r d va vb x ha hb hx
  rw [rep_u32] at ha hb
  simp only [OpKind.fn]
  generalize BitVec.setWidth 32 r = a at *
  generalize BitVec.setWidth 32 d = b at *
  subst ha hb
  simp [arith, fit, ITy.signed, ITy.bits, wrap] at hx
  obtain ⟨hb0, hx⟩ := hx
  subst hx
  rw [if_neg hb0]
  refine ⟨_, rfl, ?_⟩
  show Represents .u32 (BitVec.setWidth 64 _) _
  rw [rep_u32_zext]
  have h1 := a.isLt
  have h2 := Nat.div_le_self a.toNat b.toNat
  have h3 := Nat.mod_lt a.toNat (Nat.pos_of_ne_zero hb0)
  have h4 := b.isLt
  have e : (↑a.toNat : Int).tmod ↑b.toNat = ((a.toNat % b.toNat : Nat) : Int) := rfl
  simp only [e] at *
  simp [BitVec.toNat_ofNat]
  try omega
theorem div_u64 : OpKind.divu64.Computes .div .u64 := by
  intro r d va vb x ha hb hx
  rw [rep_u64] at ha hb
  simp only [OpKind.fn]
  generalize r = a at *
  generalize d = b at *
  subst ha hb
  simp [arith, fit, ITy.signed, ITy.bits, wrap] at hx
  obtain ⟨hb0, hx⟩ := hx
  subst hx
  rw [if_neg hb0]
  refine ⟨_, rfl, ?_⟩
  show Represents .u64 _ _
  rw [rep_u64]
  have h1 := a.isLt
  have h2 := Nat.div_le_self a.toNat b.toNat
  have h3 := Nat.mod_lt a.toNat (Nat.pos_of_ne_zero hb0)
  have h4 := b.isLt
  have e : (↑a.toNat : Int).tmod ↑b.toNat = ((a.toNat % b.toNat : Nat) : Int) := rfl
  simp only [e] at *
  simp [BitVec.toNat_ofNat]
  try omega
theorem mod_u64 : OpKind.modu64.Computes .mod .u64 := by
  intro r d va vb x ha hb hx
  rw [rep_u64] at ha hb
  simp only [OpKind.fn]
  generalize r = a at *
  generalize d = b at *
  subst ha hb
  simp [arith, fit, ITy.signed, ITy.bits, wrap] at hx
  obtain ⟨hb0, hx⟩ := hx
  subst hx
  rw [if_neg hb0]
  refine ⟨_, rfl, ?_⟩
  show Represents .u64 _ _
  rw [rep_u64]
  have h1 := a.isLt
  have h2 := Nat.div_le_self a.toNat b.toNat
  have h3 := Nat.mod_lt a.toNat (Nat.pos_of_ne_zero hb0)
  have h4 := b.isLt
  have e : (↑a.toNat : Int).tmod ↑b.toNat = ((a.toNat % b.toNat : Nat) : Int) := rfl
  simp only [e] at *
  simp [BitVec.toNat_ofNat]
  try omega

/-! relational: the result is the `int` 0/1 -/
theorem rep_b64' (c1 c2 : Prop) [Decidable c1] [Decidable c2] (h : c1 ↔ c2) :
    Represents .i32 (b64 (decide c1)) (b2i (decide c2)) := by
  have : decide c1 = decide c2 := by simp [h]
  rw [this]; exact rep_b64 _

theorem eq_iff_toInt {n : Nat} (a b : BitVec n) : a = b ↔ a.toInt = b.toInt := BitVec.toInt_inj.symm
theorem ne_iff_toInt {n : Nat} (a b : BitVec n) : a ≠ b ↔ a.toInt ≠ b.toInt := not_congr (eq_iff_toInt a b)
theorem eq_iff_toNatI {n : Nat} (a b : BitVec n) : a = b ↔ (a.toNat : Int) = b.toNat := by
  rw [BitVec.toNat_eq]; omega
theorem ne_iff_toNatI {n : Nat} (a b : BitVec n) : a ≠ b ↔ (a.toNat : Int) ≠ b.toNat := not_congr (eq_iff_toNatI a b)
theorem lt_iff_toNatI {n : Nat} (a b : BitVec n) : a.toNat < b.toNat ↔ (a.toNat : Int) < b.toNat := by omega
theorem le_iff_toNatI {n : Nat} (a b : BitVec n) : a.toNat ≤ b.toNat ↔ (a.toNat : Int) ≤ b.toNat := by omega

macro "rel_close" : tactic => `(tactic| (
  apply rep_b64'
  first
    | exact Iff.rfl | exact eq_iff_toInt _ _ | exact ne_iff_toInt _ _ | exact eq_iff_toNatI _ _
    | exact ne_iff_toNatI _ _ | exact lt_iff_toNatI _ _ | exact le_iff_toNatI _ _))

macro "c_rel32" rep:term : tactic => `(tactic| (
  intro r d va vb x ha hb hx
  refine ⟨_, rfl, ?_⟩
  rw [$rep:term] at ha hb
  simp only [arith, Option.some.injEq] at hx
  subst ha hb hx
  show Represents .i32 (b64 _) (b2i _)
  rel_close))
macro "c_rel64" rep:term : tactic => `(tactic| (
  intro r d va vb x ha hb hx
  refine ⟨_, rfl, ?_⟩
  rw [$rep:term] at ha hb
  simp only [arith, Option.some.injEq] at hx
  subst ha hb hx
  show Represents .i32 (b64 _) (b2i _)
  rel_close))

theorem eq_i32 : OpKind.eq32.Computes .eq .i32 := by c_rel32 rep_i32
theorem ne_i32 : OpKind.ne32.Computes .ne .i32 := by c_rel32 rep_i32
theorem lt_i32 : OpKind.lts32.Computes .lt .i32 := by c_rel32 rep_i32
theorem le_i32 : OpKind.les32.Computes .le .i32 := by c_rel32 rep_i32
theorem eq_u32 : OpKind.eq32.Computes .eq .u32 := by c_rel32 rep_u32
theorem ne_u32 : OpKind.ne32.Computes .ne .u32 := by c_rel32 rep_u32
theorem lt_u32 : OpKind.ltu32.Computes .lt .u32 := by c_rel32 rep_u32
theorem le_u32 : OpKind.leu32.Computes .le .u32 := by c_rel32 rep_u32
theorem eq_i64 : OpKind.eq64.Computes .eq .i64 := by c_rel64 rep_i64
theorem ne_i64 : OpKind.ne64.Computes .ne .i64 := by c_rel64 rep_i64
theorem lt_i64 : OpKind.lts64.Computes .lt .i64 := by c_rel64 rep_i64
theorem le_i64 : OpKind.les64.Computes .le .i64 := by c_rel64 rep_i64
theorem eq_u64 : OpKind.eq64.Computes .eq .u64 := by c_rel64 rep_u64
theorem ne_u64 : OpKind.ne64.Computes .ne .u64 := by c_rel64 rep_u64
theorem lt_u64 : OpKind.ltu64.Computes .lt .u64 := by c_rel64 rep_u64
theorem le_u64 : OpKind.leu64.Computes .le .u64 := by c_rel64 rep_u64

/-! shifts: the count is the value of the right operand whatever its type -/

def OpKind.ComputesShift (kind : OpKind) (op : BinOp) (t : ITy) : Prop :=
  ∀ (t2 : ITy) (r d : BitVec 64) (va vb x : Int), Represents t r va → Represents t2 d vb → arith op t va vb = some x →
    ∃ y, kind.fn r d = some y ∧ Represents t y x

theorem shift_count (t2 : ITy) (d : BitVec 64) (vb : Int) (h : Represents t2 d vb) (h0 : 0 ≤ vb) (h1 : vb < 64) :
    ((d.setWidth 8).toNat : Int) = vb := by
  cases t2 <;> unfold_spec <;> bv_ints

theorem shl_s32 (a : BitVec 32) (c : Nat) (h0 : 0 ≤ a.toInt) (h : a.toInt * 2 ^ c ≤ 2147483647) :
    (a <<< c).toInt = a.toInt * 2 ^ c := by
  have e : a.toInt = (a.toNat : Int) := by
    rw [BitVec.toInt_eq_toNat_cond] at h0 ⊢; have := a.isLt; split <;> omega
  rw [e] at h ⊢
  rw [BitVec.toInt_eq_toNat_cond, BitVec.toNat_shiftLeft, Nat.shiftLeft_eq]
  have hc : ((a.toNat * 2 ^ c : Nat) : Int) = (a.toNat : Int) * 2 ^ c := by simp [Int.natCast_mul, Int.natCast_pow]
  generalize (a.toNat : Int) * 2 ^ c = P at *
  generalize a.toNat * 2 ^ c = Q at *
  simp
  split <;> omega

theorem shl_s64 (a : BitVec 64) (c : Nat) (h0 : 0 ≤ a.toInt) (h : a.toInt * 2 ^ c ≤ 9223372036854775807) :
    (a <<< c).toInt = a.toInt * 2 ^ c := by
  have e : a.toInt = (a.toNat : Int) := by
    rw [BitVec.toInt_eq_toNat_cond] at h0 ⊢; have := a.isLt; split <;> omega
  rw [e] at h ⊢
  rw [BitVec.toInt_eq_toNat_cond, BitVec.toNat_shiftLeft, Nat.shiftLeft_eq]
  have hc : ((a.toNat * 2 ^ c : Nat) : Int) = (a.toNat : Int) * 2 ^ c := by simp [Int.natCast_mul, Int.natCast_pow]
  generalize (a.toNat : Int) * 2 ^ c = P at *
  generalize a.toNat * 2 ^ c = Q at *
  simp
  split <;> omega

theorem shl_u (n : Nat) (a : BitVec n) (c : Nat) : ((a <<< c).toNat : Int) = ((a.toNat : Int) * 2 ^ c) % ((2 ^ n : Nat) : Int) := by
  rw [BitVec.toNat_shiftLeft, Nat.shiftLeft_eq]
  simp [Int.natCast_mul, Int.natCast_pow]

theorem shr_u (n : Nat) (a : BitVec n) (c : Nat) : ((a >>> c).toNat : Int) = (a.toNat : Int) >>> c := by
  rw [BitVec.toNat_ushiftRight]; rfl


theorem shl_i32 : OpKind.shl32.ComputesShift .shl .i32 := by
  intro t2 r d va vb x ha hb hx
  rw [rep_i32] at ha
  simp [arith, ITy.signed, ITy.bits, ITy.max, wrap] at hx
  obtain ⟨⟨hv0, hv1⟩, hx⟩ := hx
  have hc := shift_count t2 d vb hb hv0 (by omega)
  have hm : (d.setWidth 8).toNat % 32 = vb.toNat := by omega
  refine ⟨_, rfl, ?_⟩
  show Represents .i32 (BitVec.setWidth 64 _) x
  rw [rep_i32_zext]
  rw [hm]
  subst ha
  obtain ⟨h0, h1, hx⟩ := hx
  subst hx
  exact shl_s32 _ _ h0 h1
theorem shl_i64 : OpKind.shl64.ComputesShift .shl .i64 := by
  intro t2 r d va vb x ha hb hx
  rw [rep_i64] at ha
  simp [arith, ITy.signed, ITy.bits, ITy.max, wrap] at hx
  obtain ⟨⟨hv0, hv1⟩, hx⟩ := hx
  have hc := shift_count t2 d vb hb hv0 (by omega)
  have hm : (d.setWidth 8).toNat % 64 = vb.toNat := by omega
  refine ⟨_, rfl, ?_⟩
  show Represents .i64 _ x
  rw [rep_i64]
  rw [hm]
  subst ha
  obtain ⟨h0, h1, hx⟩ := hx
  subst hx
  exact shl_s64 _ _ h0 h1
theorem shl_u32 : OpKind.shl32.ComputesShift .shl .u32 := by
  intro t2 r d va vb x ha hb hx
  rw [rep_u32] at ha
  simp [arith, ITy.signed, ITy.bits, ITy.max, wrap] at hx
  obtain ⟨⟨hv0, hv1⟩, hx⟩ := hx
  have hc := shift_count t2 d vb hb hv0 (by omega)
  have hm : (d.setWidth 8).toNat % 32 = vb.toNat := by omega
  refine ⟨_, rfl, ?_⟩
  show Represents .u32 (BitVec.setWidth 64 _) x
  rw [rep_u32_zext]
  rw [hm]
  subst ha
  subst hx
  exact shl_u 32 _ _
theorem shl_u64 : OpKind.shl64.ComputesShift .shl .u64 := by
  intro t2 r d va vb x ha hb hx
  rw [rep_u64] at ha
  simp [arith, ITy.signed, ITy.bits, ITy.max, wrap] at hx
  obtain ⟨⟨hv0, hv1⟩, hx⟩ := hx
  have hc := shift_count t2 d vb hb hv0 (by omega)
  have hm : (d.setWidth 8).toNat % 64 = vb.toNat := by omega
  refine ⟨_, rfl, ?_⟩
  show Represents .u64 _ x
  rw [rep_u64]
  rw [hm]
  subst ha
  subst hx
  exact shl_u 64 _ _
theorem shr_i32 : OpKind.sar32.ComputesShift .shr .i32 := by
  intro t2 r d va vb x ha hb hx
  rw [rep_i32] at ha
  simp [arith, ITy.signed, ITy.bits, ITy.max, wrap] at hx
  obtain ⟨⟨hv0, hv1⟩, hx⟩ := hx
  have hc := shift_count t2 d vb hb hv0 (by omega)
  have hm : (d.setWidth 8).toNat % 32 = vb.toNat := by omega
  refine ⟨_, rfl, ?_⟩
  show Represents .i32 (BitVec.setWidth 64 _) x
  rw [rep_i32_zext]
  rw [hm]
  subst ha
  subst hx
  exact BitVec.toInt_sshiftRight
theorem shr_i64 : OpKind.sar64.ComputesShift .shr .i64 := by
  intro t2 r d va vb x ha hb hx
  rw [rep_i64] at ha
  simp [arith, ITy.signed, ITy.bits, ITy.max, wrap] at hx
  obtain ⟨⟨hv0, hv1⟩, hx⟩ := hx
  have hc := shift_count t2 d vb hb hv0 (by omega)
  have hm : (d.setWidth 8).toNat % 64 = vb.toNat := by omega
  refine ⟨_, rfl, ?_⟩
  show Represents .i64 _ x
  rw [rep_i64]
  rw [hm]
  subst ha
  subst hx
  exact BitVec.toInt_sshiftRight
theorem shr_u32 : OpKind.shr32.ComputesShift .shr .u32 := by
  intro t2 r d va vb x ha hb hx
  rw [rep_u32] at ha
  simp [arith, ITy.signed, ITy.bits, ITy.max, wrap] at hx
  obtain ⟨⟨hv0, hv1⟩, hx⟩ := hx
  have hc := shift_count t2 d vb hb hv0 (by omega)
  have hm : (d.setWidth 8).toNat % 32 = vb.toNat := by omega
  refine ⟨_, rfl, ?_⟩
  show Represents .u32 (BitVec.setWidth 64 _) x
  rw [rep_u32_zext]
  rw [hm]
  subst ha
  subst hx
  exact shr_u 32 _ _
theorem shr_u64 : OpKind.shr64.ComputesShift .shr .u64 := by
  intro t2 r d va vb x ha hb hx
  rw [rep_u64] at ha
  simp [arith, ITy.signed, ITy.bits, ITy.max, wrap] at hx
  obtain ⟨⟨hv0, hv1⟩, hx⟩ := hx
  have hc := shift_count t2 d vb hb hv0 (by omega)
  have hm : (d.setWidth 8).toNat % 64 = vb.toNat := by omega
  refine ⟨_, rfl, ?_⟩
  show Represents .u64 _ x
  rw [rep_u64]
  rw [hm]
  subst ha
  subst hx
  exact shr_u 64 _ _

/-! ### unary operators -/

inductive UnKind where
  | neg | not | lognot32 | lognot64
  deriving DecidableEq, Repr

def UnKind.all : List UnKind := [.neg, .not, .lognot32, .lognot64]

def UnKind.seq : UnKind → List Ins
  | .neg => [⟨"neg", [.r "%rax"]⟩]
  | .not => [⟨"not", [.r "%rax"]⟩]
  | .lognot32 => [⟨"cmp", [.i 0, .r "%eax"]⟩, ⟨"sete", [.r "%al"]⟩, ⟨"movzx", [.r "%al", .r "%rax"]⟩]
  | .lognot64 => [⟨"cmp", [.i 0, .r "%rax"]⟩, ⟨"sete", [.r "%al"]⟩, ⟨"movzx", [.r "%al", .r "%rax"]⟩]

def classifyUn (is : List Ins) : Option UnKind := UnKind.all.find? (fun k => k.seq == is)

theorem classifyUn_sound {is : List Ins} {k : UnKind} (h : classifyUn is = some k) : is = k.seq := by
  unfold classifyUn at h
  have := List.find?_some h
  simp at this
  exact this.symm

def UnKind.fn (k : UnKind) (r : BitVec 64) : BitVec 64 :=
  match k with
  | .neg => -r
  | .not => ~~~r
  | .lognot32 => b64 (r.setWidth 32 = 0)
  | .lognot64 => b64 (r = 0)

/-- **effect of every unary sequence, for every machine state** -/
theorem UnKind.effect (k : UnKind) (s : State) :
    ∃ s', X86.run k.seq s = some s' ∧ s'.get .rax = k.fn (s.get .rax) := by
  cases k
  case neg => exact ⟨_, rfl, rfl⟩
  case not => exact ⟨_, rfl, rfl⟩
  case lognot32 =>
    refine ⟨_, rfl, ?_⟩
    show ((BitVec.ofNat 64 _).setWidth 8).setWidth 64 = _
    rw [low8_write]
    simp [State.cond, State.flags, State.src, State.getW, UnKind.fn, b64, sub_eq_zero_iff]
    split <;> simp
  case lognot64 =>
    refine ⟨_, rfl, ?_⟩
    show ((BitVec.ofNat 64 _).setWidth 8).setWidth 64 = _
    rw [low8_write]
    simp [State.cond, State.flags, State.src, State.getW, UnKind.fn, b64, sub_eq_zero_iff]
    split <;> simp

/-- `-` and `~` on an operand already promoted to `t` ∈ {int, unsigned, long, unsigned long} -/
theorem neg_computes (t : ITy) (ht : t = .i32 ∨ t = .u32 ∨ t = .i64 ∨ t = .u64) (r : BitVec 64) (v x : Int)
    (h : Represents t r v) (hx : unop .neg t v = some x) : Represents t (UnKind.neg.fn r) x := by
  rcases ht with rfl | rfl | rfl | rfl <;>
    (simp [unop, promote, ITy.rank, fit, ITy.signed, ITy.inRange, ITy.min, ITy.max, ITy.bits, convert, wrap] at hx
     simp only [UnKind.fn]
     unfold_spec
     bv_ints')

theorem not_computes (t : ITy) (ht : t = .i32 ∨ t = .u32 ∨ t = .i64 ∨ t = .u64) (r : BitVec 64) (v x : Int)
    (h : Represents t r v) (hx : unop .bitnot t v = some x) : Represents t (UnKind.not.fn r) x := by
  rcases ht with rfl | rfl | rfl | rfl <;>
    (simp [unop, promote, ITy.rank, ITy.signed, ITy.inRange, ITy.min, ITy.max, ITy.bits, convert, wrap, toBits, ofBits] at hx
     simp only [UnKind.fn]
     unfold_spec
     bv_ints')

/-- `!` on an operand of any integer type (not promoted): 32-bit compare for types of at most 4 bytes -/
theorem lognot_computes (t : ITy) (r : BitVec 64) (v : Int) (h : Represents t r v) :
    Represents .i32 ((if t.size = 8 then UnKind.lognot64 else UnKind.lognot32).fn r) (b2i (v = 0)) := by
  cases t <;> simp only [ITy.size, UnKind.fn] <;> simp <;> apply rep_b64' <;> unfold_spec <;> bv_ints'


/-! ### postfix `++` / `--` (parse.c `new_inc_dec`) -/

/-- the old rewriting `(T)((x += addend) - addend)`, every step with its C11 meaning (`compound` = `op=`, `binop`, `convert`) -/
def postfixBySubtraction (T : ITy) (x addend : Int) : Option (Int × Int) :=
  match compound .add T .i32 x addend with
  | none => none
  | some r =>
    match binop .add T .i32 r (-addend) with
    | none => none
    | some y => some (convert T y, r)

/-- the rewriting for operands whose `+=` can saturate: `tmp1 = &A, tmp2 = *tmp1, *tmp1 = tmp2 + addend, tmp2` -/
def postfixByTemporary (T : ITy) (x addend : Int) : Option (Int × Int) :=
  match compound .add T .i32 x addend with
  | none => none
  | some r => some (x, r)

/-- value and stored value of `x++` (addend 1) / `x--` (addend -1) as chibicc computes them.  `viaObject` = the operand is
    an ordinary object (not a bit-field member, not `_Atomic`): `new_inc_dec` takes the temporary route for `_Bool` (and
    floating) operands only in that case. -/
def chibiPostfix (T : ITy) (viaObject : Bool) (x addend : Int) : Option (Int × Int) :=
  if T = .bool ∧ viaObject then postfixByTemporary T x addend else postfixBySubtraction T x addend

/-- C11 6.5.2.4p2: the result is the value of the operand; the stored value is that of `x += addend` -/
def specPostfix (T : ITy) (x addend : Int) : Option (Int × Int) :=
  match compound .add T .i32 x addend with
  | none => none
  | some r => some (x, r)

/-- `(T)((x += a) - a)` is the old value of `x` for every integer type except `_Bool` -/
theorem incdec_value (T : ITy) (hT : T ≠ .bool) (x addend : Int) (hx : T.inRange x)
    (ha : addend = 1 ∨ addend = -1) (res : Int × Int) (h : specPostfix T x addend = some res) :
    postfixBySubtraction T x addend = some res := by
  unfold specPostfix at h; unfold postfixBySubtraction
  cases hc : compound .add T .i32 x addend with
  | none => simp [hc] at h
  | some r =>
    simp only [hc, Option.some.injEq] at h ⊢
    subst h
    have key : ∃ y, binop .add T .i32 r (-addend) = some y ∧ convert T y = x := by
      rcases ha with rfl | rfl <;> cases T <;> first | exact absurd rfl hT | skip
      all_goals
        simp [compound, binop, binopOperandType, BinOp.isShift, usualArith, promote, ITy.rank,
          ITy.signed, ITy.min, ITy.max, ITy.bits, ITy.toUnsigned, arith, fit, ITy.inRange, convert, wrap,
          Int.bmod_def] at hc hx ⊢
      all_goals (first | refine ⟨_, ⟨?_, rfl⟩, ?_⟩ | refine ⟨_, rfl, ?_⟩ | skip)
      all_goals (revert hc hx; bv_ints')
    obtain ⟨y, hy, hcv⟩ := key
    simp [hy, hcv]
end ChibiVerif.C01
