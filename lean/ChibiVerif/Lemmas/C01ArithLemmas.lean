/-
C01: the value each operator sequence leaves in `%rax` (`OpKind.fn`, `UnKind.fn`) is the C11 result
(`Spec.IntSpec.arith` / `unop`) whenever C11 defines it — arithmetic on `BitVec 32` / `BitVec 64`.
-/
import ChibiVerif.Lemmas.C01OpLemmas

namespace ChibiVerif.C01
open ChibiVerif.X86 ChibiVerif.Asm ChibiVerif.Spec.IntSpec ChibiVerif.Gen.CommonType ChibiVerif.C01Codegen

/-! ### `Represents` for the four computation types, in terms of `toInt` / `toNat` -/

theorem rep_i32 (r : BitVec 64) (v : Int) : Represents .i32 r v ↔ (r.setWidth 32).toInt = v := by
  unfold_spec; bv_ints
theorem rep_u32 (r : BitVec 64) (v : Int) : Represents .u32 r v ↔ ((r.setWidth 32).toNat : Int) = v := by
  unfold_spec; bv_ints
theorem rep_i64 (r : BitVec 64) (v : Int) : Represents .i64 r v ↔ r.toInt = v := by
  unfold_spec; bv_ints
theorem rep_u64 (r : BitVec 64) (v : Int) : Represents .u64 r v ↔ (r.toNat : Int) = v := by
  unfold_spec; bv_ints

theorem rep_i32_zext (y : BitVec 32) (v : Int) : Represents .i32 (y.setWidth 64) v ↔ y.toInt = v := by
  rw [rep_i32, setWidth_32_64_32]
theorem rep_u32_zext (y : BitVec 32) (v : Int) : Represents .u32 (y.setWidth 64) v ↔ (y.toNat : Int) = v := by
  rw [rep_u32, setWidth_32_64_32]


/-! ### core facts on `BitVec 32` / `BitVec 64` (one per instruction kind and signedness) -/

/-- bounds of `toInt`/`toNat`, `toInt`/`toNat` of `+ - *` as `bmod`/`%`, split, omega -/
macro "ints32" a:ident b:ident : tactic => `(tactic| (
  have h1 := @BitVec.toInt_lt 32 $a; have h2 := @BitVec.le_toInt 32 $a
  have h3 := @BitVec.toInt_lt 32 $b; have h4 := @BitVec.le_toInt 32 $b
  have h5 := ($a).isLt; have h6 := ($b).isLt
  simp only [BitVec.toInt_add, BitVec.toInt_sub, BitVec.toInt_mul, BitVec.toNat_add, BitVec.toNat_sub, BitVec.toNat_mul,
    Int.bmod_def] at *
  simp at *
  repeat' split
  all_goals omega))

macro "ints64" a:ident b:ident : tactic => `(tactic| (
  have h1 := @BitVec.toInt_lt 64 $a; have h2 := @BitVec.le_toInt 64 $a
  have h3 := @BitVec.toInt_lt 64 $b; have h4 := @BitVec.le_toInt 64 $b
  have h5 := ($a).isLt; have h6 := ($b).isLt
  simp only [BitVec.toInt_add, BitVec.toInt_sub, BitVec.toInt_mul, BitVec.toNat_add, BitVec.toNat_sub, BitVec.toNat_mul,
    Int.bmod_def] at *
  simp at *
  repeat' split
  all_goals omega))

theorem add_s32 (a b : BitVec 32) (h : -2147483648 ≤ a.toInt + b.toInt ∧ a.toInt + b.toInt ≤ 2147483647) :
    (a + b).toInt = a.toInt + b.toInt := by ints32 a b
theorem sub_s32 (a b : BitVec 32) (h : -2147483648 ≤ a.toInt - b.toInt ∧ a.toInt - b.toInt ≤ 2147483647) :
    (a - b).toInt = a.toInt - b.toInt := by ints32 a b
theorem mul_s32 (a b : BitVec 32) (h : -2147483648 ≤ a.toInt * b.toInt ∧ a.toInt * b.toInt ≤ 2147483647) :
    (a * b).toInt = a.toInt * b.toInt := by ints32 a b
theorem add_u32 (a b : BitVec 32) : ((a + b).toNat : Int) = ((a.toNat : Int) + b.toNat) % 4294967296 := by ints32 a b
theorem sub_u32 (a b : BitVec 32) : ((a - b).toNat : Int) = ((a.toNat : Int) - b.toNat) % 4294967296 := by ints32 a b
theorem mul_u32 (a b : BitVec 32) : ((a * b).toNat : Int) = ((a.toNat : Int) * b.toNat) % 4294967296 := by
  simp [BitVec.toNat_mul]

theorem add_s64 (a b : BitVec 64)
    (h : -9223372036854775808 ≤ a.toInt + b.toInt ∧ a.toInt + b.toInt ≤ 9223372036854775807) :
    (a + b).toInt = a.toInt + b.toInt := by ints64 a b
theorem sub_s64 (a b : BitVec 64)
    (h : -9223372036854775808 ≤ a.toInt - b.toInt ∧ a.toInt - b.toInt ≤ 9223372036854775807) :
    (a - b).toInt = a.toInt - b.toInt := by ints64 a b
theorem mul_s64 (a b : BitVec 64)
    (h : -9223372036854775808 ≤ a.toInt * b.toInt ∧ a.toInt * b.toInt ≤ 9223372036854775807) :
    (a * b).toInt = a.toInt * b.toInt := by ints64 a b
theorem add_u64 (a b : BitVec 64) : ((a + b).toNat : Int) = ((a.toNat : Int) + b.toNat) % 18446744073709551616 := by
  ints64 a b
theorem sub_u64 (a b : BitVec 64) : ((a - b).toNat : Int) = ((a.toNat : Int) - b.toNat) % 18446744073709551616 := by
  ints64 a b
theorem mul_u64 (a b : BitVec 64) : ((a * b).toNat : Int) = ((a.toNat : Int) * b.toNat) % 18446744073709551616 := by
  simp [BitVec.toNat_mul]

/-! bit patterns: `toBits`/`ofBits` of the Spec are `toNat` / `toInt` of the register -/

theorem toBits_i32 (x : BitVec 32) : toBits .i32 x.toInt = x.toNat := by
  have := x.isLt; simp [toBits, ITy.bits, BitVec.toInt_eq_toNat_cond]; split <;> omega
theorem toBits_u32 (x : BitVec 32) : toBits .u32 (x.toNat : Int) = x.toNat := by
  have := x.isLt; simp [toBits, ITy.bits]; omega
theorem toBits_i64 (x : BitVec 64) : toBits .i64 x.toInt = x.toNat := by
  have := x.isLt; simp [toBits, ITy.bits, BitVec.toInt_eq_toNat_cond]; split <;> omega
theorem toBits_u64 (x : BitVec 64) : toBits .u64 (x.toNat : Int) = x.toNat := by
  have := x.isLt; simp [toBits, ITy.bits]; omega
theorem ofBits_i32 (x : BitVec 32) : ofBits .i32 x.toNat = x.toInt := by
  simp [ofBits, wrap, ITy.signed, ITy.bits, BitVec.toInt_eq_toNat_bmod]
theorem ofBits_u32 (x : BitVec 32) : ofBits .u32 x.toNat = (x.toNat : Int) := by
  have := x.isLt; simp [ofBits, wrap, ITy.signed, ITy.bits]; omega
theorem ofBits_i64 (x : BitVec 64) : ofBits .i64 x.toNat = x.toInt := by
  simp [ofBits, wrap, ITy.signed, ITy.bits, BitVec.toInt_eq_toNat_bmod]
theorem ofBits_u64 (x : BitVec 64) : ofBits .u64 x.toNat = (x.toNat : Int) := by
  have := x.isLt; simp [ofBits, wrap, ITy.signed, ITy.bits]; omega

/-- the 0/1 result of `setcc; movzb` represents the `int` 0/1 of a C relational operator -/
theorem rep_b64 (c : Bool) : Represents .i32 (b64 c) (b2i c) := by
  cases c <;> simp [b64, b2i, Represents, ITy.inRange, ITy.min, ITy.max, ITy.signed, ITy.bits]

theorem ofInt32_toInt_of_range (q : Int) (h : -2147483648 ≤ q ∧ q ≤ 2147483647) : (BitVec.ofInt 32 q).toInt = q := by
  rw [BitVec.toInt_ofInt, Int.bmod_def]; simp; split <;> omega
theorem ofInt64_toInt_of_range (q : Int) (h : -9223372036854775808 ≤ q ∧ q ≤ 9223372036854775807) :
    (BitVec.ofInt 64 q).toInt = q := by
  rw [BitVec.toInt_ofInt, Int.bmod_def]; simp; split <;> omega

end ChibiVerif.C01
