/-
C03 — the two specification machines for `SStmt` agree on the structured fragment:
whenever the big-step machine `Spec.Ctl.exec` (ControlSpec.lean) answers, the small-step continuation machine
`Spec.Ctl.execG` (ControlSpecG.lean) gives the same answer (outcome, oracle position, trace); a `timeout σ'` of
`exec` is a state the small-step machine passes through.

Plan: `Steps` = reflexive-transitive closure of `step`; `Post` says what a result of `exec` means for the
small-step machine started at `(s, k, σ)`; `MProp n` (statements) and `LProp n` (flattened item lists, for
the bodies of `switch`) are proved together by induction on the fuel of `exec`.
-/
import ChibiVerif.Spec.ControlSpecG

set_option linter.unusedSimpArgs false
set_option linter.unusedVariables false

namespace ChibiVerif.Spec.Ctl

/-! ### multi-step reachability of the small-step machine -/

inductive Steps (ω : Nat → Val) (fb : SStmt) : SStmt → Cont → SState → SStmt → Cont → SState → Prop
  | refl (s : SStmt) (k : Cont) (σ : SState) : Steps ω fb s k σ s k σ
  | head {s k σ s1 k1 σ1 s2 k2 σ2} : step ω fb s k σ = .next s1 k1 σ1 → Steps ω fb s1 k1 σ1 s2 k2 σ2 →
      Steps ω fb s k σ s2 k2 σ2

section
variable {ω : Nat → Val} {fb : SStmt}

theorem Steps.trans {s k σ s1 k1 σ1 s2 k2 σ2} (h1 : Steps ω fb s k σ s1 k1 σ1)
    (h2 : Steps ω fb s1 k1 σ1 s2 k2 σ2) : Steps ω fb s k σ s2 k2 σ2 := by
  induction h1 with
  | refl => exact h2
  | head hs _ ih => exact .head hs (ih h2)

theorem Steps.one {s k σ s1 k1 σ1} (h : step ω fb s k σ = .next s1 k1 σ1) : Steps ω fb s k σ s1 k1 σ1 :=
  .head h (.refl _ _ _)

theorem run_of_steps_done {s k σ s2 k2 σ2} (h : Steps ω fb s k σ s2 k2 σ2) {m2 : Nat} {o : Outcome} {σ' : SState}
    (hr : run ω fb m2 s2 k2 σ2 = .done o σ') : ∃ m, run ω fb m s k σ = .done o σ' := by
  induction h with
  | refl => exact ⟨m2, hr⟩
  | head hs _ ih =>
    obtain ⟨m, hm⟩ := ih hr
    exact ⟨m + 1, by simp only [run, hs]; exact hm⟩

theorem run_of_steps_timeout {s k σ s2 k2 σ2} (h : Steps ω fb s k σ s2 k2 σ2) :
    ∃ m, run ω fb m s k σ = .timeout σ2 := by
  induction h with
  | refl s k σ => exact ⟨0, by cases s <;> rfl⟩
  | head hs _ ih =>
    obtain ⟨m, hm⟩ := ih
    exact ⟨m + 1, by simp only [run, hs]; exact hm⟩

end

/-! ### what a result of `exec` means for the small-step machine -/

/-- the machine started at `(s, k, σ)`, relative to the base continuation `kb`:
    normal completion arrives at `(skip, kb)`; `break`/`continue` arrive at the jump statement under a
    continuation that resolves the jump like `kb` does; `timeout σ'` is a state passed through -/
def Post (ω : Nat → Val) (fb : SStmt) (s : SStmt) (k : Cont) (σ : SState) (kb : Cont) : Res → Prop
  | .done .normal σ' => Steps ω fb s k σ .skip kb σ'
  | .done .brk σ' => ∃ k2, Steps ω fb s k σ .break_ k2 σ' ∧ breakK k2 = breakK kb
  | .done .cont σ' => ∃ k2, Steps ω fb s k σ .continue_ k2 σ' ∧ contK k2 = contK kb
  | .done .ret σ' => ∃ k2, Steps ω fb s k σ .ret k2 σ'
  | .timeout σ' => ∃ s' k', Steps ω fb s k σ s' k' σ'
  | .unsupported => True

/-- `seq`: the second statement runs iff the first completes normally -/
def seqK (ra : Res) (f : SState → Res) : Res :=
  match ra with
  | .done .normal σ1 => f σ1
  | r => r

/-- a loop body: normal completion and `continue` go on with `f`, `break` leaves the loop -/
def loopK (rb : Res) (f : SState → Res) : Res :=
  match rb with
  | .done .normal σ2 => f σ2
  | .done .cont σ2 => f σ2
  | .done .brk σ2 => .done .normal σ2
  | r => r

/-- a `switch` body: `break` leaves the switch -/
def swR (r0 : Res) : Res :=
  match r0 with
  | .done .brk σ2 => .done .normal σ2
  | r => r

def swSel (ω : Nat → Val) (n : Nat) (σ1 : SState) : Option (List SStmt) → Res
  | none => .done .normal σ1
  | some rest => swR (exec ω n (seqOf rest) σ1)

section
variable {ω : Nat → Val} {fb : SStmt}

theorem Post_steps {s k σ s1 k1 σ1 kb} {r : Res} (h1 : Steps ω fb s k σ s1 k1 σ1)
    (h2 : Post ω fb s1 k1 σ1 kb r) : Post ω fb s k σ kb r := by
  cases r with
  | unsupported => trivial
  | timeout σ' =>
    obtain ⟨s', k', h⟩ := h2
    exact ⟨s', k', h1.trans h⟩
  | done o σ' =>
    cases o with
    | normal => exact h1.trans h2
    | brk => obtain ⟨k2, h, hb⟩ := h2; exact ⟨k2, h1.trans h, hb⟩
    | cont => obtain ⟨k2, h, hb⟩ := h2; exact ⟨k2, h1.trans h, hb⟩
    | ret => obtain ⟨k2, h⟩ := h2; exact ⟨k2, h1.trans h⟩

theorem Post_timeout_self (s : SStmt) (k : Cont) (σ : SState) (kb : Cont) : Post ω fb s k σ kb (.timeout σ) :=
  ⟨s, k, .refl _ _ _⟩

theorem post_seqK {s k σ kb} {ra : Res} {f : SState → Res} (hra : Post ω fb s k σ k ra)
    (hb : breakK k = breakK kb) (hc : contK k = contK kb)
    (hn : ∀ σ1, Post ω fb .skip k σ1 kb (f σ1)) : Post ω fb s k σ kb (seqK ra f) := by
  cases ra with
  | unsupported => trivial
  | timeout σ' => exact hra
  | done o σ' =>
    cases o with
    | normal => exact Post_steps hra (hn σ')
    | brk => obtain ⟨k2, h, hb2⟩ := hra; exact ⟨k2, h, hb2.trans hb⟩
    | cont => obtain ⟨k2, h, hc2⟩ := hra; exact ⟨k2, h, hc2.trans hc⟩
    | ret => exact hra

theorem step_break {k2 k : Cont} (σ : SState) (h : breakK k2 = some k) : step ω fb .break_ k2 σ = .next .skip k σ := by
  simp only [step, h]

theorem step_continue {k2 k : Cont} (σ : SState) (h : contK k2 = some k) :
    step ω fb .continue_ k2 σ = .next .skip k σ := by
  simp only [step, h]

theorem post_loopK {body K σ k} {rb : Res} {f : SState → Res} (hrb : Post ω fb body K σ K rb)
    (hb : breakK K = some k) (hc : contK K = some K)
    (hn : ∀ σ2, Post ω fb .skip K σ2 k (f σ2)) : Post ω fb body K σ k (loopK rb f) := by
  cases rb with
  | unsupported => trivial
  | timeout σ' => exact hrb
  | done o σ' =>
    cases o with
    | normal => exact Post_steps hrb (hn σ')
    | brk =>
      obtain ⟨k2, h, hb2⟩ := hrb
      exact h.trans (Steps.one (step_break σ' (hb2.trans hb)))
    | cont =>
      obtain ⟨k2, h, hc2⟩ := hrb
      exact Post_steps (h.trans (Steps.one (step_continue σ' (hc2.trans hc)))) (hn σ')
    | ret => exact hrb

theorem post_swR {s k' σ k} {r0 : Res} (h0 : Post ω fb s k' σ (.swK k) r0) : Post ω fb s k' σ k (swR r0) := by
  cases r0 with
  | unsupported => trivial
  | timeout σ' => exact h0
  | done o σ' =>
    cases o with
    | normal => exact Steps.trans h0 (Steps.one rfl)
    | brk =>
      obtain ⟨k2, h, hb2⟩ := h0
      exact h.trans (Steps.one (step_break σ' hb2))
    | cont => obtain ⟨k2, h, hc2⟩ := h0; exact ⟨k2, h, hc2⟩
    | ret => exact h0

end

/-! ### unfolding `exec` -/

theorem exec_fuel0 (ω : Nat → Val) (s : SStmt) (σ : SState) : exec ω 0 s σ = .timeout σ := by
  cases s <;> rfl

theorem exec_seq (ω : Nat → Val) (n : Nat) (a b : SStmt) (σ : SState) :
    exec ω (n + 1) (.seq a b) σ = seqK (exec ω n a σ) (exec ω n b) := rfl

theorem exec_ifte (ω : Nat → Val) (n : Nat) (c : Nat) (t e : SStmt) (σ : SState) :
    exec ω (n + 1) (.ifte c t e) σ =
      if truth (σ.call ω (.c c)).1 then exec ω n t (σ.call ω (.c c)).2 else exec ω n e (σ.call ω (.c c)).2 := rfl

theorem exec_for_none (ω : Nat → Val) (n : Nat) (inc : Option Nat) (body : SStmt) (σ : SState) :
    exec ω (n + 1) (.for_ none none inc body) σ =
      loopK (exec ω n body σ) (fun σ2 => exec ω n (.for_ none none inc body) (σ2.emitOpt inc)) := rfl

theorem exec_for_some (ω : Nat → Val) (n : Nat) (c : Nat) (inc : Option Nat) (body : SStmt) (σ : SState) :
    exec ω (n + 1) (.for_ none (some c) inc body) σ =
      if truth (σ.call ω (.c c)).1 then
        loopK (exec ω n body (σ.call ω (.c c)).2)
          (fun σ2 => exec ω n (.for_ none (some c) inc body) (σ2.emitOpt inc))
      else .done .normal (σ.call ω (.c c)).2 := rfl

theorem exec_doWhile (ω : Nat → Val) (n : Nat) (body : SStmt) (c : Nat) (σ : SState) :
    exec ω (n + 1) (.doWhile body c) σ =
      loopK (exec ω n body σ) (fun σ2 =>
        if truth (σ2.call ω (.c c)).1 then exec ω n (.doWhile body c) (σ2.call ω (.c c)).2
        else .done .normal (σ2.call ω (.c c)).2) := rfl

theorem exec_switch (ω : Nat → Val) (n : Nat) (w u : Bool) (key : Nat) (body : SStmt) (σ : SState) :
    exec ω (n + 1) (.switch_ w u key body) σ =
      if switchOK w u (items body) then
        swSel ω n (σ.call ω (.inp key)).2 (select w u (σ.call ω (.inp key)).1 (items body))
      else .unsupported := rfl

/-! ### structured statements, item lists -/

theorem structured_items' (s : SStmt) : structured s = true → ∀ it ∈ items s, structured it = true := by
  induction s with
  | skip => intro _ it h; simp [items] at h
  | seq a b iha ihb =>
    intro h it hit
    simp only [structured, Bool.and_eq_true] at h
    simp only [items, List.mem_append] at hit
    rcases hit with hit | hit
    · exact iha h.1 it hit
    · exact ihb h.2 it hit
  | block s ih => intro h it hit; exact ih h it hit
  | _ => intro h it hit; simp only [items, List.mem_singleton] at hit; subst hit; exact h

theorem dropUntil_some (p : SStmt → Bool) : ∀ (l r : List SStmt), dropUntil p l = some r →
    ∃ it post, r = it :: post ∧ ∀ x ∈ r, x ∈ l := by
  intro l
  induction l with
  | nil => intro r h; simp [dropUntil] at h
  | cons a t ih =>
    intro r h
    simp only [dropUntil] at h
    by_cases hp : p a = true
    · simp only [hp, if_true, Option.some.injEq] at h
      subst h
      exact ⟨a, t, rfl, fun x hx => hx⟩
    · simp only [hp] at h
      obtain ⟨it, post, hr, hsub⟩ := ih r h
      exact ⟨it, post, hr, fun x hx => List.mem_cons_of_mem _ (hsub x hx)⟩

theorem dropUntil_append (p : SStmt → Bool) : ∀ (l1 l2 : List SStmt), dropUntil p (l1 ++ l2) =
    match dropUntil p l1 with
    | some r => some (r ++ l2)
    | none => dropUntil p l2 := by
  intro l1
  induction l1 with
  | nil => intro l2; simp [dropUntil]
  | cons a t ih =>
    intro l2
    simp only [List.cons_append, dropUntil]
    by_cases hp : p a = true
    · simp [hp]
    · simp only [hp]
      exact ih l2

/-! ### continuations up to the innermost non-`seq` frame -/

/-- the items still to be executed before the innermost loop/switch frame is reached -/
def kitems : Cont → List SStmt
  | .seq s k => items s ++ kitems k
  | .stop => []
  | .forK _ _ _ _ => []
  | .doK _ _ _ => []
  | .swK _ => []

/-- the innermost non-`seq` frame -/
def kbase : Cont → Cont
  | .seq _ k => kbase k
  | .stop => .stop
  | .forK c i b k => .forK c i b k
  | .doK b c k => .doK b c k
  | .swK k => .swK k

theorem breakK_kbase (k : Cont) : breakK (kbase k) = breakK k := by
  induction k with
  | seq s k ih => exact ih
  | _ => rfl

theorem contK_kbase (k : Cont) : contK (kbase k) = contK k := by
  induction k with
  | seq s k ih => exact ih
  | _ => rfl

/-! ### `find` for `case`/`default` targets against `select` -/

/-- the item predicate `select` uses for a target -/
def tp (t : Target) : SStmt → Bool :=
  match t with
  | .case_ w u v => hasCase w u v
  | .dflt => hasDefault
  | .lbl _ => fun _ => false

/-- `Pre it s'`: `s'` is `it` without a non-empty initial part of its `case`/`default` prefix -/
inductive Pre : SStmt → SStmt → Prop
  | case0 (lo hi : Val) (s : SStmt) : Pre (.case_ lo hi s) s
  | dflt0 (s : SStmt) : Pre (.default_ s) s
  | caseS (lo hi : Val) {s s' : SStmt} : Pre s s' → Pre (.case_ lo hi s) s'
  | dfltS {s s' : SStmt} : Pre s s' → Pre (.default_ s) s'

theorem pre_exec (ω : Nat → Val) {it s' : SStmt} (h : Pre it s') : ∀ (n : Nat) (σ : SState),
    exec ω n it σ = .timeout σ ∨ ∃ m, m < n ∧ exec ω m s' σ = exec ω n it σ := by
  induction h with
  | case0 lo hi s =>
    intro n σ
    cases n with
    | zero => exact .inl rfl
    | succ n => exact .inr ⟨n, Nat.lt_succ_self n, rfl⟩
  | dflt0 s =>
    intro n σ
    cases n with
    | zero => exact .inl rfl
    | succ n => exact .inr ⟨n, Nat.lt_succ_self n, rfl⟩
  | caseS lo hi _ ih =>
    intro n σ
    cases n with
    | zero => exact .inl rfl
    | succ n =>
      rcases ih n σ with h | ⟨m, hm, he⟩
      · exact .inl h
      · exact .inr ⟨m, Nat.lt_succ_of_lt hm, he⟩
  | dfltS _ ih =>
    intro n σ
    cases n with
    | zero => exact .inl rfl
    | succ n =>
      rcases ih n σ with h | ⟨m, hm, he⟩
      · exact .inl h
      · exact .inr ⟨m, Nat.lt_succ_of_lt hm, he⟩

theorem pre_structured {it s' : SStmt} (h : Pre it s') : structured it = true → structured s' = true := by
  induction h with
  | case0 lo hi s => exact id
  | dflt0 s => exact id
  | caseS lo hi _ ih => exact ih
  | dfltS _ ih => exact ih

theorem hitLabel_of_not_enters (t : Target) (ht : t.enters = false) (l : Nat) : t.hitLabel l = false := by
  cases t <;> simp [Target.enters, Target.hitLabel] at *

theorem nfc_find (t : Target) (ht : t.enters = false) : ∀ (s : SStmt), noFreeCase s = true →
    ∀ k, find t s k = none := by
  intro s
  induction s with
  | seq a b iha ihb =>
    intro h k
    simp only [noFreeCase, Bool.and_eq_true] at h
    simp only [find, iha h.1, ihb h.2]
  | block s ih => intro h k; simp only [find]; exact ih h k
  | ifte c a b iha ihb =>
    intro h k
    simp only [noFreeCase, Bool.and_eq_true] at h
    simp only [find, iha h.1, ihb h.2]
  | for_ i c inc body ih => intro h k; simp only [find]; exact ih h _
  | doWhile body c ih => intro h k; simp only [find]; exact ih h _
  | switch_ w u key body ih => intro h k; simp [find, ht]
  | case_ lo hi s ih => intro h; simp [noFreeCase] at h
  | default_ s ih => intro h; simp [noFreeCase] at h
  | label l s ih =>
    intro h k
    simp only [find, hitLabel_of_not_enters t ht l]
    exact ih h k
  | _ => intro h k; rfl

theorem find_item (t : Target) (ht : t.enters = false) : ∀ (it : SStmt) (k : Cont),
    noFreeCase (core it) = true →
    (tp t it = false → find t it k = none) ∧
    (tp t it = true → ∃ s', find t it k = some (s', k) ∧ Pre it s') := by
  intro it
  induction it with
  | case_ lo hi s ih =>
    intro k h
    have ih' := ih k h
    cases t with
    | lbl l => simp [Target.enters] at ht
    | case_ w u v =>
      by_cases hm : caseMatches w u lo hi v = true
      · refine ⟨fun hf => ?_, fun _ => ⟨s, ?_, Pre.case0 lo hi s⟩⟩
        · simp [tp, hasCase, hm] at hf
        · simp [find, Target.hitCase, hm]
      · have hm' : caseMatches w u lo hi v = false := by simpa using hm
        have htp : tp (.case_ w u v) (.case_ lo hi s) = tp (.case_ w u v) s := by simp [tp, hasCase, hm']
        have hfd : find (.case_ w u v) (.case_ lo hi s) k = find (.case_ w u v) s k := by
          simp [find, Target.hitCase, hm']
        rw [htp, hfd]
        refine ⟨ih'.1, fun hp => ?_⟩
        obtain ⟨s', h1, h2⟩ := ih'.2 hp
        exact ⟨s', h1, Pre.caseS lo hi h2⟩
    | dflt =>
      have htp : tp .dflt (.case_ lo hi s) = tp .dflt s := by simp [tp, hasDefault]
      have hfd : find .dflt (.case_ lo hi s) k = find .dflt s k := by simp [find, Target.hitCase]
      rw [htp, hfd]
      refine ⟨ih'.1, fun hp => ?_⟩
      obtain ⟨s', h1, h2⟩ := ih'.2 hp
      exact ⟨s', h1, Pre.caseS lo hi h2⟩
  | default_ s ih =>
    intro k h
    have ih' := ih k h
    cases t with
    | lbl l => simp [Target.enters] at ht
    | case_ w u v =>
      have htp : tp (.case_ w u v) (.default_ s) = tp (.case_ w u v) s := by simp [tp, hasCase]
      have hfd : find (.case_ w u v) (.default_ s) k = find (.case_ w u v) s k := by
        simp [find, Target.hitDflt]
      rw [htp, hfd]
      refine ⟨ih'.1, fun hp => ?_⟩
      obtain ⟨s', h1, h2⟩ := ih'.2 hp
      exact ⟨s', h1, Pre.dfltS h2⟩
    | dflt =>
      refine ⟨fun hf => ?_, fun _ => ⟨s, ?_, Pre.dflt0 s⟩⟩
      · simp [tp, hasDefault] at hf
      · simp [find, Target.hitDflt]
  | _ =>
    intro k h
    have hn := nfc_find t ht _ h k
    refine ⟨fun _ => hn, fun hp => ?_⟩
    exfalso
    cases t <;> simp [tp, hasCase, hasDefault] at hp

theorem find_items_single (t : Target) (ht : t.enters = false) (s : SStmt) (hi : items s = [s]) (k : Cont)
    (h : ∀ it ∈ items s, noFreeCase (core it) = true) :
    (dropUntil (tp t) (items s) = none → find t s k = none) ∧
    (∀ it post, dropUntil (tp t) (items s) = some (it :: post) →
      ∃ s' k', find t s k = some (s', k') ∧ kitems k' = post ++ kitems k ∧ kbase k' = kbase k ∧ Pre it s') := by
  rw [hi] at h ⊢
  have hit := find_item t ht s k (h s (by simp))
  simp only [dropUntil]
  refine ⟨fun hn => hit.1 (by simpa using hn), fun it post hsome => ?_⟩
  split at hsome
  · rename_i hp
    simp only [Option.some.injEq, List.cons.injEq] at hsome
    obtain ⟨h1, h2⟩ := hsome
    subst h1; subst h2
    obtain ⟨s', hf, hpre⟩ := hit.2 hp
    exact ⟨s', k, hf, by simp, rfl, hpre⟩
  · simp at hsome

/-- `find` in a statement all of whose items have a core without free `case`: it finds nothing iff no item
    prefix has a hit; else it lands behind the hit in the first such item, the continuation holding the
    items after it -/
theorem find_items (t : Target) (ht : t.enters = false) : ∀ (s : SStmt) (k : Cont),
    (∀ it ∈ items s, noFreeCase (core it) = true) →
    (dropUntil (tp t) (items s) = none → find t s k = none) ∧
    (∀ it post, dropUntil (tp t) (items s) = some (it :: post) →
      ∃ s' k', find t s k = some (s', k') ∧ kitems k' = post ++ kitems k ∧ kbase k' = kbase k ∧ Pre it s') := by
  intro s
  induction s with
  | skip =>
    intro k _
    refine ⟨fun _ => rfl, fun it post h => ?_⟩
    simp [items, dropUntil] at h
  | seq a b iha ihb =>
    intro k h
    have ha := iha (.seq b k) (fun it hit => h it (by simp only [items, List.mem_append]; exact .inl hit))
    have hb := ihb k (fun it hit => h it (by simp only [items, List.mem_append]; exact .inr hit))
    simp only [items, dropUntil_append]
    cases hd : dropUntil (tp t) (items a) with
    | none =>
      have hfa := ha.1 hd
      simp only [find, hfa]
      exact hb
    | some r =>
      obtain ⟨it1, post1, hr, _⟩ := dropUntil_some _ _ _ hd
      subst hr
      obtain ⟨s', k', hf, hki, hkb, hpre⟩ := ha.2 it1 post1 hd
      refine ⟨fun hn => by simp at hn, fun it post hsome => ?_⟩
      simp only [List.cons_append, Option.some.injEq, List.cons.injEq] at hsome
      obtain ⟨h1, h2⟩ := hsome
      subst h1; subst h2
      refine ⟨s', k', by simp only [find, hf], ?_, ?_, hpre⟩
      · rw [hki]; simp only [kitems, List.append_assoc]
      · rw [hkb]; rfl
  | block s ih => intro k h; exact ih k h
  | _ => intro k h; exact find_items_single t ht _ rfl k h

/-! ### `switchOK` gives `switchOKG` -/

theorem nfc_free : ∀ (s : SStmt), noFreeCase s = true → freeCases s = [] ∧ freeDefaults s = 0 := by
  intro s
  induction s with
  | seq a b iha ihb =>
    intro h
    simp only [noFreeCase, Bool.and_eq_true] at h
    simp [freeCases, freeDefaults, iha h.1, ihb h.2]
  | block s ih => intro h; exact ih h
  | ifte c a b iha ihb =>
    intro h
    simp only [noFreeCase, Bool.and_eq_true] at h
    simp [freeCases, freeDefaults, iha h.1, ihb h.2]
  | for_ i c inc body ih => intro h; exact ih h
  | doWhile body c ih => intro h; exact ih h
  | case_ lo hi s ih => intro h; simp [noFreeCase] at h
  | default_ s ih => intro h; simp [noFreeCase] at h
  | label l s ih => intro h; exact ih h
  | _ => intro h; exact ⟨rfl, rfl⟩

theorem free_item : ∀ (it : SStmt), noFreeCase (core it) = true →
    freeCases it = prefixCases it ∧ freeDefaults it = prefixDefaults it := by
  intro it
  induction it with
  | case_ lo hi s ih =>
    intro h
    have := ih h
    simp [freeCases, prefixCases, freeDefaults, prefixDefaults, this.1, this.2]
  | default_ s ih =>
    intro h
    have := ih h
    simp [freeCases, prefixCases, freeDefaults, prefixDefaults, this.1, this.2]
  | _ =>
    intro h
    have := nfc_free _ h
    simp only [core] at this
    simp [prefixCases, prefixDefaults, this.1, this.2]

theorem free_items_single (s : SStmt) (hi : items s = [s]) (h : ∀ it ∈ items s, noFreeCase (core it) = true) :
    freeCases s = (items s).flatMap prefixCases ∧ freeDefaults s = ((items s).map prefixDefaults).sum := by
  rw [hi] at h ⊢
  have := free_item s (h s (by simp))
  simp [this.1, this.2]

theorem free_items : ∀ (s : SStmt), (∀ it ∈ items s, noFreeCase (core it) = true) →
    freeCases s = (items s).flatMap prefixCases ∧ freeDefaults s = ((items s).map prefixDefaults).sum := by
  intro s
  induction s with
  | skip => intro _; simp [items, freeCases, freeDefaults]
  | seq a b iha ihb =>
    intro h
    have ha := iha (fun it hit => h it (by simp only [items, List.mem_append]; exact .inl hit))
    have hb := ihb (fun it hit => h it (by simp only [items, List.mem_append]; exact .inr hit))
    simp [items, freeCases, freeDefaults, ha.1, ha.2, hb.1, hb.2, List.flatMap_append, List.sum_append]
  | block s ih => intro h; exact ih h
  | _ => intro h; exact free_items_single _ rfl h

theorem switchOK_cores {w u : Bool} {its : List SStmt} (h : switchOK w u its = true) :
    ∀ it ∈ its, noFreeCase (core it) = true := by
  simp only [switchOK, Bool.and_eq_true, List.all_eq_true] at h
  exact h.1.1.1

theorem switchOKG_of_switchOK {w u : Bool} {body : SStmt} (h : switchOK w u (items body) = true) :
    switchOKG w u body = true := by
  have hf := free_items body (switchOK_cores h)
  simp only [switchOK, Bool.and_eq_true] at h
  simp only [switchOKG, hf.1, hf.2, Bool.and_eq_true]
  exact ⟨⟨h.1.1.2, h.1.2⟩, h.2⟩

/-! ### the simulation, by induction on the fuel of `exec` -/

/-- statements -/
def MProp (ω : Nat → Val) (fb : SStmt) (n : Nat) : Prop :=
  ∀ (s : SStmt) (k : Cont) (σ : SState), structured s = true → Post ω fb s k σ k (exec ω n s σ)

/-- a statement together with the `seq` frames on top of its continuation, as one flat item list -/
def LProp (ω : Nat → Val) (fb : SStmt) (n : Nat) : Prop :=
  ∀ (s : SStmt) (k : Cont) (σ : SState), (∀ it ∈ items s ++ kitems k, structured it = true) →
    Post ω fb s k σ (kbase k) (exec ω n (seqOf (items s ++ kitems k)) σ)

section
variable {ω : Nat → Val} {fb : SStmt}

theorem M_zero : MProp ω fb 0 := by
  intro s k σ _
  rw [exec_fuel0]
  exact Post_timeout_self s k σ k

theorem L_zero : LProp ω fb 0 := by
  intro s k σ _
  rw [exec_fuel0]
  exact Post_timeout_self s k σ _

/-- the body of a `switch` entered behind a label of the item `it` -/
theorem switch_body (n : Nat) (hM : ∀ m, m ≤ n → MProp ω fb m) (hL : ∀ m, m ≤ n → LProp ω fb m)
    {it s' : SStmt} {post : List SStmt} {k' : Cont} (σ1 : SState)
    (hpre : Pre it s') (hit : structured it = true) (hpost : ∀ x ∈ post, structured x = true)
    (hk : kitems k' = post) :
    Post ω fb s' k' σ1 (kbase k') (exec ω n (seqOf (it :: post)) σ1) := by
  cases n with
  | zero => rw [exec_fuel0]; exact Post_timeout_self _ _ _ _
  | succ n' =>
    show Post ω fb s' k' σ1 (kbase k') (exec ω (n' + 1) (.seq it (seqOf post)) σ1)
    rw [exec_seq]
    rcases pre_exec ω hpre n' σ1 with ht | ⟨m, hm, he⟩
    · rw [ht]; exact Post_timeout_self _ _ _ _
    · rw [← he]
      refine post_seqK (hM m (by omega) s' k' σ1 (pre_structured hpre hit)) (breakK_kbase k').symm
        (contK_kbase k').symm (fun σ2 => ?_)
      have := hL n' (Nat.le_succ n') .skip k' σ2 (by
        intro x hx
        simp only [items, List.nil_append, hk] at hx
        exact hpost x hx)
      simpa only [items, List.nil_append, hk] using this

theorem M_switch (n : Nat) (hM : ∀ m, m ≤ n → MProp ω fb m) (hL : ∀ m, m ≤ n → LProp ω fb m)
    (w u : Bool) (key : Nat) (body : SStmt) (k : Cont) (σ : SState)
    (hs : structured (.switch_ w u key body) = true) :
    Post ω fb (.switch_ w u key body) k σ k (exec ω (n + 1) (.switch_ w u key body) σ) := by
  simp only [structured, Bool.and_eq_true] at hs
  obtain ⟨hok, hsb⟩ := hs
  have hG : switchOKG w u body = true := switchOKG_of_switchOK hok
  have hnf := switchOK_cores hok
  have hstr := structured_items' body hsb
  rw [exec_switch, if_pos hok]
  -- the common part: `find` has landed at `(s', k')` behind a label of `it`
  have common : ∀ (t : Target) (it : SStmt) (post : List SStmt), t.enters = false →
      dropUntil (tp t) (items body) = some (it :: post) →
      ∃ s' k', find t body (.swK k) = some (s', k') ∧
        Post ω fb s' k' (σ.call ω (.inp key)).2 k
          (swR (exec ω n (seqOf (it :: post)) (σ.call ω (.inp key)).2)) := by
    intro t it post ht hd
    obtain ⟨_, _, _, hsub⟩ := dropUntil_some _ _ _ hd
    obtain ⟨s', k', hf, hki, hkb, hpre⟩ := (find_items t ht body (.swK k) hnf).2 it post hd
    refine ⟨s', k', hf, post_swR ?_⟩
    have hki' : kitems k' = post := by rw [hki]; simp [kitems]
    have hkb' : kbase k' = .swK k := by rw [hkb]; rfl
    rw [← hkb']
    exact switch_body n hM hL _ hpre (hstr it (hsub it (by simp)))
      (fun x hx => hstr x (hsub x (List.mem_cons_of_mem _ hx))) hki'
  cases hc : dropUntil (hasCase w u (σ.call ω (.inp key)).1) (items body) with
  | some rest =>
    obtain ⟨it, post, hr, _⟩ := dropUntil_some _ _ _ hc
    subst hr
    have hsel : select w u (σ.call ω (.inp key)).1 (items body) = some (it :: post) := by
      simp only [select, hc]
    obtain ⟨s', k', hf, hp⟩ := common (.case_ w u (σ.call ω (.inp key)).1) it post rfl hc
    rw [hsel]
    have hstep : step ω fb (.switch_ w u key body) k σ = .next s' k' (σ.call ω (.inp key)).2 := by
      simp only [step, hG, if_true, hf]
    exact Post_steps (Steps.one hstep) hp
  | none =>
    have hf1 : find (.case_ w u (σ.call ω (.inp key)).1) body (.swK k) = none :=
      (find_items (.case_ w u (σ.call ω (.inp key)).1) rfl body (.swK k) hnf).1 hc
    cases hd : dropUntil hasDefault (items body) with
    | some rest =>
      obtain ⟨it, post, hr, _⟩ := dropUntil_some _ _ _ hd
      subst hr
      have hsel : select w u (σ.call ω (.inp key)).1 (items body) = some (it :: post) := by
        simp only [select, hc, hd]
      obtain ⟨s', k', hf, hp⟩ := common .dflt it post rfl hd
      rw [hsel]
      have hstep : step ω fb (.switch_ w u key body) k σ = .next s' k' (σ.call ω (.inp key)).2 := by
        simp only [step, hG, if_true, hf1, hf]
      exact Post_steps (Steps.one hstep) hp
    | none =>
      have hf2 : find .dflt body (.swK k) = none := (find_items .dflt rfl body (.swK k) hnf).1 hd
      have hsel : select w u (σ.call ω (.inp key)).1 (items body) = none := by
        simp only [select, hc, hd]
      rw [hsel]
      have hstep : step ω fb (.switch_ w u key body) k σ = .next .skip k (σ.call ω (.inp key)).2 := by
        simp only [step, hG, if_true, hf1, hf2]
      exact Steps.one hstep

theorem M_for_none (n : Nat) (ih : MProp ω fb n) (c inc : Option Nat) (body : SStmt) (k : Cont) (σ : SState)
    (hs : structured body = true) :
    Post ω fb (.for_ none c inc body) k σ k (exec ω (n + 1) (.for_ none c inc body) σ) := by
  have hloop : ∀ σ1, Post ω fb body (.forK c inc body k) σ1 k
      (loopK (exec ω n body σ1) (fun σ2 => exec ω n (.for_ none c inc body) (σ2.emitOpt inc))) := by
    intro σ1
    refine post_loopK (ih body (.forK c inc body k) σ1 hs) rfl rfl (fun σ2 => ?_)
    exact Post_steps (Steps.one rfl) (ih (.for_ none c inc body) k (σ2.emitOpt inc) hs)
  cases c with
  | none =>
    rw [exec_for_none]
    exact Post_steps (Steps.one rfl) (hloop σ)
  | some c =>
    rw [exec_for_some]
    by_cases ht : truth (σ.call ω (.c c)).1 = true
    · rw [if_pos ht]
      have hstep : step ω fb (.for_ none (some c) inc body) k σ =
          .next body (.forK (some c) inc body k) (σ.call ω (.c c)).2 := by
        simp only [step, ht, if_true]
      exact Post_steps (Steps.one hstep) (hloop _)
    · rw [if_neg ht]
      have hstep : step ω fb (.for_ none (some c) inc body) k σ = .next .skip k (σ.call ω (.c c)).2 := by
        simp only [step, ht]
        rfl
      exact Steps.one hstep

theorem M_doWhile (n : Nat) (ih : MProp ω fb n) (body : SStmt) (c : Nat) (k : Cont) (σ : SState)
    (hs : structured body = true) :
    Post ω fb (.doWhile body c) k σ k (exec ω (n + 1) (.doWhile body c) σ) := by
  rw [exec_doWhile]
  refine Post_steps (Steps.one rfl) ?_
  refine post_loopK (ih body (.doK body c k) σ hs) rfl rfl (fun σ2 => ?_)
  by_cases ht : truth (σ2.call ω (.c c)).1 = true
  · simp only [ht, if_true]
    have hstep : step ω fb .skip (.doK body c k) σ2 = .next (.doWhile body c) k (σ2.call ω (.c c)).2 := by
      simp only [step, ht, if_true]
    exact Post_steps (Steps.one hstep) (ih (.doWhile body c) k _ hs)
  · simp only [ht]
    have hstep : step ω fb .skip (.doK body c k) σ2 = .next .skip k (σ2.call ω (.c c)).2 := by
      simp only [step, ht]
      rfl
    exact Steps.one hstep

theorem M_ifte (n : Nat) (ih : MProp ω fb n) (c : Nat) (t e : SStmt) (k : Cont) (σ : SState)
    (hs : structured (.ifte c t e) = true) :
    Post ω fb (.ifte c t e) k σ k (exec ω (n + 1) (.ifte c t e) σ) := by
  simp only [structured, Bool.and_eq_true] at hs
  rw [exec_ifte]
  by_cases ht : truth (σ.call ω (.c c)).1 = true
  · rw [if_pos ht]
    have hstep : step ω fb (.ifte c t e) k σ = .next t k (σ.call ω (.c c)).2 := by
      simp only [step, ht, if_true]
    exact Post_steps (Steps.one hstep) (ih t k _ hs.1)
  · rw [if_neg ht]
    have hstep : step ω fb (.ifte c t e) k σ = .next e k (σ.call ω (.c c)).2 := by
      simp only [step, ht]
      rfl
    exact Post_steps (Steps.one hstep) (ih e k _ hs.2)

theorem M_succ (n : Nat) (hM : ∀ m, m ≤ n → MProp ω fb m) (hL : ∀ m, m ≤ n → LProp ω fb m) :
    MProp ω fb (n + 1) := by
  have ih := hM n (Nat.le_refl n)
  intro s k σ hs
  cases s with
  | skip => exact Steps.refl _ _ _
  | marker m => exact Steps.one rfl
  | seq a b =>
    simp only [structured, Bool.and_eq_true] at hs
    rw [exec_seq]
    refine Post_steps (Steps.one rfl) ?_
    exact post_seqK (ih a (.seq b k) σ hs.1) rfl rfl
      (fun σ1 => Post_steps (Steps.one rfl) (ih b k σ1 hs.2))
  | block s => exact Post_steps (Steps.one rfl) (ih s k σ hs)
  | ifte c t e => exact M_ifte n ih c t e k σ hs
  | for_ i c inc body =>
    cases i with
    | some i => exact Post_steps (Steps.one rfl) (ih (.for_ none c inc body) k (σ.emit (.m i)) hs)
    | none => exact M_for_none n ih c inc body k σ hs
  | doWhile body c => exact M_doWhile n ih body c k σ hs
  | switch_ w u key body => exact M_switch n hM hL w u key body k σ hs
  | case_ lo hi s => exact Post_steps (Steps.one rfl) (ih s k σ hs)
  | default_ s => exact Post_steps (Steps.one rfl) (ih s k σ hs)
  | break_ => exact ⟨k, Steps.refl _ _ _, rfl⟩
  | continue_ => exact ⟨k, Steps.refl _ _ _, rfl⟩
  | goto_ l => simp [structured] at hs
  | gotoVal l => simp [structured] at hs
  | label l s => exact Post_steps (Steps.one rfl) (ih s k σ hs)
  | ret => exact ⟨k, Steps.refl _ _ _⟩

/-! the list version -/

def isz : SStmt → Nat
  | .seq a b => isz a + isz b + 2
  | .block s => isz s + 1
  | _ => 1

def kmu : Cont → Nat
  | .seq s k => isz s + 1 + kmu k
  | _ => 0

theorem isz_pos (s : SStmt) : 0 < isz s := by
  cases s <;> simp [isz]

theorem L_item (n : Nat) (hM : MProp ω fb n) (hL : LProp ω fb n) (s : SStmt) (k : Cont) (σ : SState)
    (hi : items s = [s]) (hst : ∀ it ∈ items s ++ kitems k, structured it = true) :
    Post ω fb s k σ (kbase k) (exec ω (n + 1) (seqOf (items s ++ kitems k)) σ) := by
  rw [hi] at hst ⊢
  show Post ω fb s k σ (kbase k) (exec ω (n + 1) (.seq s (seqOf (kitems k))) σ)
  rw [exec_seq]
  refine post_seqK (hM s k σ (hst s (by simp))) (breakK_kbase k).symm (contK_kbase k).symm (fun σ1 => ?_)
  have := hL .skip k σ1 (by
    intro x hx
    simp only [items, List.nil_append] at hx
    exact hst x (by simp [hx]))
  simpa only [items, List.nil_append] using this

theorem L_succ (n : Nat) (hM : MProp ω fb n) (hL : LProp ω fb n) : LProp ω fb (n + 1) := by
  have key : ∀ (N : Nat) (s : SStmt) (k : Cont), isz s + kmu k ≤ N → ∀ (σ : SState),
      (∀ it ∈ items s ++ kitems k, structured it = true) →
      Post ω fb s k σ (kbase k) (exec ω (n + 1) (seqOf (items s ++ kitems k)) σ) := by
    intro N
    induction N with
    | zero => intro s k h; have := isz_pos s; omega
    | succ N ihN =>
      intro s k hsz σ hst
      cases s with
      | skip =>
        cases k with
        | seq s2 k2 =>
          refine Post_steps (Steps.one rfl) ?_
          exact ihN s2 k2 (by simp only [isz, kmu] at hsz; omega) σ hst
        | stop => exact Steps.refl _ _ _
        | forK c i b k2 => exact Steps.refl _ _ _
        | doK b c k2 => exact Steps.refl _ _ _
        | swK k2 => exact Steps.refl _ _ _
      | seq a b =>
        refine Post_steps (Steps.one rfl) ?_
        have := ihN a (.seq b k) (by simp only [isz, kmu] at hsz ⊢; omega) σ
          (by simpa only [items, kitems, List.append_assoc] using hst)
        simpa only [items, kitems, kbase, List.append_assoc] using this
      | block s =>
        exact Post_steps (Steps.one rfl) (ihN s k (by simp only [isz] at hsz; omega) σ hst)
      | _ => exact L_item n hM hL _ k σ rfl hst
  intro s k σ hst
  exact key _ s k (Nat.le_refl _) σ hst

theorem ML_all (n : Nat) : MProp ω fb n ∧ LProp ω fb n := by
  induction n using Nat.strongRecOn with
  | _ n ih =>
    cases n with
    | zero => exact ⟨M_zero, L_zero⟩
    | succ n =>
      exact ⟨M_succ n (fun m hm => (ih m (Nat.lt_succ_of_le hm)).1) (fun m hm => (ih m (Nat.lt_succ_of_le hm)).2),
        L_succ n (ih n (Nat.lt_succ_self n)).1 (ih n (Nat.lt_succ_self n)).2⟩

end

/-! ### the statements -/

/-- the simulation for an arbitrary function body `fb` and continuation `k` -/
theorem exec_post (ω : Nat → Val) (fb : SStmt) (n : Nat) (s : SStmt) (k : Cont) (σ : SState)
    (hs : structured s = true) : Post ω fb s k σ k (exec ω n s σ) :=
  (ML_all (ω := ω) (fb := fb) n).1 s k σ hs

/-- on the structured fragment the two machines agree: whenever the big-step machine terminates, the small-step
    machine terminates with the same outcome, oracle position and trace -/
theorem exec_execG_done (ω : Nat → Val) (s : SStmt) (hs : structured s = true) (n : Nat) (σ σ' : SState) (o : Outcome)
    (h : exec ω n s σ = .done o σ') : ∃ m, execG ω m s σ = .done o σ' := by
  have hp := exec_post ω s n s .stop σ hs
  rw [h] at hp
  unfold execG
  cases o with
  | normal => exact run_of_steps_done hp (m2 := 1) rfl
  | brk =>
    obtain ⟨k2, hst, hb⟩ := hp
    have hb' : breakK k2 = none := hb
    exact run_of_steps_done hst (m2 := 1) (by simp only [run, step, hb'])
  | cont =>
    obtain ⟨k2, hst, hc⟩ := hp
    have hc' : contK k2 = none := hc
    exact run_of_steps_done hst (m2 := 1) (by simp only [run, step, hc'])
  | ret =>
    obtain ⟨k2, hst⟩ := hp
    exact run_of_steps_done hst (m2 := 1) rfl

/-- the prefix version: a state at which the big-step machine runs out of fuel is one the small-step machine
    passes through -/
theorem exec_execG_timeout (ω : Nat → Val) (s : SStmt) (hs : structured s = true) (n : Nat) (σ σ' : SState)
    (h : exec ω n s σ = .timeout σ') : ∃ m, execG ω m s σ = .timeout σ' := by
  have hp := exec_post ω s n s .stop σ hs
  rw [h] at hp
  obtain ⟨s', k', hst⟩ := hp
  exact run_of_steps_timeout hst

/-- every structured statement satisfies the constraints of the small-step machine, in any function body -/
theorem structured_okStmt (fb : SStmt) : ∀ s : SStmt, structured s = true → okStmt fb s = true := by
  intro s
  induction s with
  | seq a b iha ihb =>
    intro h
    simp only [structured, Bool.and_eq_true] at h
    simp only [okStmt, Bool.and_eq_true]
    exact ⟨iha h.1, ihb h.2⟩
  | ifte c a b iha ihb =>
    intro h
    simp only [structured, Bool.and_eq_true] at h
    simp only [okStmt, Bool.and_eq_true]
    exact ⟨iha h.1, ihb h.2⟩
  | block s ih => intro h; exact ih h
  | for_ i c n b ih => intro h; exact ih h
  | doWhile b c ih => intro h; exact ih h
  | switch_ w u k b ih =>
    intro h
    simp only [structured, Bool.and_eq_true] at h
    simp only [okStmt, Bool.and_eq_true]
    exact ⟨switchOKG_of_switchOK h.1, ih h.2⟩
  | case_ lo hi s ih => intro h; exact ih h
  | default_ s ih => intro h; exact ih h
  | label l s ih => intro h; exact ih h
  | goto_ l => intro h; simp [structured] at h
  | gotoVal l => intro h; simp [structured] at h
  | _ => intro _; rfl

theorem structured_validG (s : SStmt) (h : structured s = true) : validG s = true := structured_okStmt s s h

end ChibiVerif.Spec.Ctl
