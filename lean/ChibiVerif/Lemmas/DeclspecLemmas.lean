/-
Helper lemmas for the `declspec` part of C08 (Props/C08.lean).

The loop of `declspec` is a finite automaton: its state is the counter, the accepted states are the keys of the
regenerated `switchTable` (plus the initial counter), a keyword whose new counter value is not a key ends the run with a
diagnostic.  All facts about it are obtained from *whole-table* `decide`s over (states × keywords), lifted to arbitrary
keyword sequences by induction:

* `run_perm`      — swapping two adjacent keywords does not change the outcome from any accepted state  ⇒  the outcome
                    depends only on the multiset;
* `run_canon`     — every accepted run without a repeated `signed`/`unsigned` ends in a state whose C11 multiset
                    (`canonTable`) is a permutation of the keywords read  ⇒  nothing outside the C11 table is accepted and
                    no sequence of keywords wraps the 2-bit counters into a valid code.

Core Lean only.
-/
import ChibiVerif.Model.Layout
import ChibiVerif.Spec.LayoutSpec

namespace ChibiVerif.Layout
open ChibiVerif.Gen.Declspec ChibiVerif.Spec.Layout

deriving instance DecidableEq for Except

/-- initial state and every state the switch accepts -/
def states : List (Nat × TyName) := (initCounter, initTy) :: switchTable

theorem lookup_mem {α β : Type} [BEq α] [LawfulBEq α] {a : α} {b : β} :
    ∀ {l : List (α × β)}, l.lookup a = some b → (a, b) ∈ l
  | [], h => by simp [List.lookup] at h
  | (a', b') :: l, h => by
    simp only [List.lookup] at h
    split at h
    · rename_i heq
      have : a = a' := by simpa using heq
      cases h
      simp [this]
    · exact List.mem_cons_of_mem _ (lookup_mem h)

theorem step_mem_states {c : Nat} {k : Kw} {s : Nat × TyName} (h : declspecStep c k = .ok s) : s ∈ states := by
  unfold declspecStep at h
  split at h
  · rename_i t ht
    cases h
    exact List.mem_cons_of_mem _ (lookup_mem ht)
  · cases h

theorem run_cons (s : Nat × TyName) (k : Kw) (ks : List Kw) :
    declspecRun s (k :: ks) = (match declspecStep s.1 k with
      | .ok s' => declspecRun s' ks
      | .error d => .error d) := rfl

/-- whole-table fact: from every accepted state, two keywords commute -/
theorem swap_table : ∀ s ∈ states, ∀ k1 ∈ Kw.all, ∀ k2 ∈ Kw.all,
    declspecRun s [k1, k2] = declspecRun s [k2, k1] := by
  decide +kernel

theorem Kw.mem_all (k : Kw) : k ∈ Kw.all := by cases k <;> decide

theorem run_append (s : Nat × TyName) (a b : List Kw) :
    declspecRun s (a ++ b) = (match declspecRun s a with
      | .ok s' => declspecRun s' b
      | .error d => .error d) := by
  induction a generalizing s with
  | nil => rfl
  | cons k ks ih =>
    simp only [List.cons_append, run_cons]
    cases declspecStep s.1 k with
    | ok s' => exact ih s'
    | error d => rfl

theorem run_swap {s : Nat × TyName} (hs : s ∈ states) (k1 k2 : Kw) (l : List Kw) :
    declspecRun s (k1 :: k2 :: l) = declspecRun s (k2 :: k1 :: l) := by
  have h := swap_table s hs k1 (Kw.mem_all k1) k2 (Kw.mem_all k2)
  have e1 : k1 :: k2 :: l = [k1, k2] ++ l := rfl
  have e2 : k2 :: k1 :: l = [k2, k1] ++ l := rfl
  rw [e1, e2, run_append, run_append, h]

/-- the outcome of the loop depends only on the multiset of keywords -/
theorem run_perm {l₁ l₂ : List Kw} (p : l₁.Perm l₂) : ∀ s ∈ states, declspecRun s l₁ = declspecRun s l₂ := by
  induction p with
  | nil => intro s _; rfl
  | cons k _ ih =>
    intro s _
    simp only [run_cons]
    cases h : declspecStep s.1 k with
    | ok s' => exact ih s' (step_mem_states h)
    | error d => rfl
  | swap k1 k2 l => intro s hs; exact run_swap hs k2 k1 l
  | trans _ _ ih1 ih2 => intro s hs; rw [ih1 s hs, ih2 s hs]

theorem init_mem_states : (initCounter, initTy) ∈ states := List.mem_cons_self ..

theorem decode_perm {l₁ l₂ : List Kw} (p : l₁.Perm l₂) : declspecDecode l₁ = declspecDecode l₂ := by
  unfold declspecDecode
  rw [run_perm p _ init_mem_states]

/-- whole-table fact: every C11 multiset, read in the order the table lists it, is decoded to its type -/
theorem table_decoded : ∀ e ∈ c11Table, declspecDecode e.1 = .ok e.2 := by
  decide +kernel

theorem c11Type_some {ks : List Kw} {t : TyName} (h : c11Type ks = some t) :
    ∃ e ∈ c11Table, e.1.Perm ks ∧ e.2 = t := by
  unfold c11Type at h
  cases hf : c11Table.find? (fun e => e.1.isPerm ks) with
  | none => rw [hf] at h; cases h
  | some e =>
    rw [hf] at h
    refine ⟨e, List.mem_of_find?_eq_some hf, ?_, by simpa using h⟩
    have hb : e.1.isPerm ks = true := @List.find?_some _ (fun e => e.1.isPerm ks) e c11Table hf
    exact List.isPerm_iff.mp hb

/-! ### nothing but the C11 multisets is accepted -/

/-- (counter, type, multiset) reached by each C11 entry, plus the initial state with the empty multiset -/
def canonTable : List (Nat × TyName × List Kw) :=
  (initCounter, initTy, []) :: c11Table.filterMap fun e =>
    match declspecRun (initCounter, initTy) e.1 with
    | .ok s => some (s.1, s.2, e.1)
    | .error _ => none

def isSign (k : Kw) : Bool := k == .signed || k == .unsigned

/-- one step from a canonical state stays canonical, with the keyword added to the multiset, unless the keyword is a
    `signed`/`unsigned` that the multiset already has (`counter |= …` is idempotent; excluded by `NoDupSign`) -/
def checkStep (p : Nat × TyName × List Kw) (k : Kw) : Bool :=
  match declspecStep p.1 k with
  | .error _ => true
  | .ok s' =>
    (isSign k && p.2.2.contains k) ||
      canonTable.any fun q => q.1 == s'.1 && q.2.1 == s'.2 && q.2.2.isPerm (p.2.2 ++ [k])

theorem step_table : ∀ p ∈ canonTable, ∀ k ∈ Kw.all, checkStep p k = true := by
  decide +kernel

/-- no repeated `signed` / `unsigned` (C11 6.7.2p2 lists no such multiset; chibicc's `counter |= SIGNED` does not notice) -/
def NoDupSign (ks : List Kw) : Prop := ks.count .signed ≤ 1 ∧ ks.count .unsigned ≤ 1

instance (ks : List Kw) : Decidable (NoDupSign ks) := by unfold NoDupSign; exact inferInstance

theorem run_canon (ks : List Kw) : ∀ (pre : List Kw) (s s' : Nat × TyName),
    (∃ p ∈ canonTable, p.1 = s.1 ∧ p.2.1 = s.2 ∧ p.2.2.Perm pre) →
    NoDupSign (pre ++ ks) → declspecRun s ks = .ok s' →
    ∃ p ∈ canonTable, p.1 = s'.1 ∧ p.2.1 = s'.2 ∧ p.2.2.Perm (pre ++ ks) := by
  induction ks with
  | nil =>
    intro pre s s' hp _ hrun
    simp only [declspecRun] at hrun
    cases hrun
    simpa using hp
  | cons k ks ih =>
    intro pre s s' ⟨p, hpm, hp1, hp2, hpp⟩ hnd hrun
    rw [run_cons] at hrun
    cases hstep : declspecStep s.1 k with
    | error d => rw [hstep] at hrun; cases hrun
    | ok s1 =>
      rw [hstep] at hrun
      have hc := step_table p hpm k (Kw.mem_all k)
      unfold checkStep at hc
      rw [hp1, hstep] at hc
      simp only [Bool.or_eq_true, Bool.and_eq_true, List.any_eq_true] at hc
      have hnot : ¬ (isSign k = true ∧ p.2.2.contains k = true) := by
        rintro ⟨hsg, hcon⟩
        have hmem : k ∈ pre := hpp.mem_iff.mp (by simpa using hcon)
        have hcnt : 2 ≤ (pre ++ k :: ks).count k := by
          rw [List.count_append, List.count_cons_self]
          have := List.count_pos_iff.mpr hmem
          omega
        unfold isSign at hsg
        simp only [Bool.or_eq_true, beq_iff_eq] at hsg
        rcases hsg with rfl | rfl
        · have := hnd.1; omega
        · have := hnd.2; omega
      rcases hc with hc | ⟨q, hqm, ⟨hq1, hq2⟩, hq3⟩
      · exact absurd hc hnot
      · have hq3' : q.2.2.Perm (p.2.2 ++ [k]) := List.isPerm_iff.mp hq3
        have hpre : q.2.2.Perm (pre ++ [k]) := hq3'.trans (List.Perm.append_right _ hpp)
        have := ih (pre ++ [k]) s1 s' ⟨q, hqm, by simpa using hq1, by simpa using hq2, hpre⟩
          (by simpa using hnd) hrun
        simpa using this

/-- canonical states with a non-empty multiset are C11 entries -/
theorem canon_is_c11 : ∀ p ∈ canonTable, p.2.2 = [] ∨ ∃ e ∈ c11Table, e.1 = p.2.2 ∧ e.2 = p.2.1 := by
  decide +kernel

/-- two C11 entries with the same multiset name the same type -/
theorem c11_functional : ∀ e₁ ∈ c11Table, ∀ e₂ ∈ c11Table, e₁.1.isPerm e₂.1 = true → e₁.2 = e₂.2 := by
  decide +kernel

theorem c11Type_of_perm {ks : List Kw} {e : List Kw × TyName} (he : e ∈ c11Table) (hp : e.1.Perm ks) :
    c11Type ks = some e.2 := by
  unfold c11Type
  cases hf : c11Table.find? (fun e => e.1.isPerm ks) with
  | none =>
    have := List.find?_eq_none.mp hf e he
    simp [List.isPerm_iff.mpr hp] at this
  | some e' =>
    have hb : e'.1.isPerm ks = true := @List.find?_some _ (fun e => e.1.isPerm ks) e' c11Table hf
    have h1 : e'.1.Perm ks := List.isPerm_iff.mp hb
    have h2 := c11_functional e' (List.mem_of_find?_eq_some hf) e he (List.isPerm_iff.mpr (h1.trans hp.symm))
    simp [h2]

/-- an accepted non-empty sequence without repeated signed/unsigned is a permutation of a C11 multiset naming the
    type that was returned -/
theorem accepted_is_c11 {ks : List Kw} {t : TyName} (hne : ks ≠ []) (hnd : NoDupSign ks)
    (h : declspecDecode ks = .ok t) : c11Type ks = some t := by
  unfold declspecDecode at h
  cases hrun : declspecRun (initCounter, initTy) ks with
  | error d => rw [hrun] at h; cases h
  | ok s =>
    rw [hrun] at h
    have ht : s.2 = t := by cases h; rfl
    obtain ⟨p, hpm, _, hp2, hpp⟩ := run_canon ks [] (initCounter, initTy) s
      ⟨(initCounter, initTy, []), List.mem_cons_self .., rfl, rfl, List.Perm.refl _⟩ (by simpa using hnd) hrun
    simp only [List.nil_append] at hpp
    rcases canon_is_c11 p hpm with hnil | ⟨e, hem, he1, he2⟩
    · rw [hnil] at hpp
      exact absurd hpp.nil_eq.symm hne
    · have := c11Type_of_perm hem (he1 ▸ hpp)
      rw [this, he2, hp2, ht]

/-! ### repeated `signed` / `unsigned` are ignored (`counter |= …`) -/

/-- drop every `signed` after the first and every `unsigned` after the first; `seen` = keywords already read -/
def collapseFrom : List Kw → List Kw → List Kw
  | _, [] => []
  | seen, k :: ks => if isSign k && seen.contains k then collapseFrom seen ks else k :: collapseFrom (seen ++ [k]) ks

/-- the sequence with repeated `signed`/`unsigned` removed -/
def collapse (ks : List Kw) : List Kw := collapseFrom [] ks

/-- whole-table fact: in a canonical state whose multiset has `signed` (`unsigned`), reading it again changes nothing -/
theorem idem_table : ∀ p ∈ canonTable, ∀ k ∈ Kw.all, (isSign k && p.2.2.contains k) = true →
    declspecStep p.1 k = .ok (p.1, p.2.1) := by
  decide +kernel

theorem noDup_collapseFrom (ks : List Kw) : ∀ seen, NoDupSign seen → NoDupSign (seen ++ collapseFrom seen ks) := by
  induction ks with
  | nil => intro seen h; simpa [collapseFrom] using h
  | cons k ks ih =>
    intro seen h
    unfold collapseFrom
    split
    · exact ih seen h
    · rename_i hc
      have : NoDupSign (seen ++ [k]) := by
        unfold NoDupSign at h ⊢
        simp only [List.count_append, List.count_cons, List.count_nil]
        simp only [Bool.and_eq_true, not_and, Bool.not_eq_true] at hc
        by_cases hs : isSign k = true
        · have hnc := hc hs
          have hnm : k ∉ seen := by simpa using hnc
          have h0 : seen.count k = 0 := List.count_eq_zero.mpr hnm
          unfold isSign at hs
          simp only [Bool.or_eq_true, beq_iff_eq] at hs
          rcases hs with rfl | rfl
          · simp only [beq_self_eq_true, if_true] at *
            constructor
            · omega
            · have : (Kw.signed == Kw.unsigned) = false := by decide
              simp [this]; exact h.2
          · simp only [beq_self_eq_true, if_true] at *
            constructor
            · have : (Kw.unsigned == Kw.signed) = false := by decide
              simp [this]; exact h.1
            · omega
        · unfold isSign at hs
          simp only [Bool.or_eq_true, beq_iff_eq, not_or] at hs
          have h1 : (k == Kw.signed) = false := by simpa using hs.1
          have h2 : (k == Kw.unsigned) = false := by simpa using hs.2
          simp [h1, h2]; exact h
      have := ih (seen ++ [k]) this
      simpa using this

theorem run_collapse (ks : List Kw) : ∀ (seen : List Kw) (s : Nat × TyName),
    (∃ p ∈ canonTable, p.1 = s.1 ∧ p.2.1 = s.2 ∧ p.2.2.Perm seen) → NoDupSign seen →
    declspecRun s ks = declspecRun s (collapseFrom seen ks) := by
  induction ks with
  | nil => intro seen s _ _; rfl
  | cons k ks ih =>
    intro seen s ⟨p, hpm, hp1, hp2, hpp⟩ hnd
    unfold collapseFrom
    split
    · rename_i hc
      have hc' : (isSign k && p.2.2.contains k) = true := by
        simp only [Bool.and_eq_true] at hc ⊢
        refine ⟨hc.1, ?_⟩
        have : k ∈ seen := by simpa using hc.2
        simpa using hpp.mem_iff.mpr this
      have hst := idem_table p hpm k (Kw.mem_all k) hc'
      rw [run_cons, ← hp1, hst]
      have hs : (p.1, p.2.1) = s := by rw [hp1, hp2]
      simp only [hs]
      exact ih seen s ⟨p, hpm, hp1, hp2, hpp⟩ hnd
    · rename_i hc
      rw [run_cons, run_cons]
      cases hstep : declspecStep s.1 k with
      | error d => rfl
      | ok s1 =>
        simp only
        have hck := step_table p hpm k (Kw.mem_all k)
        unfold checkStep at hck
        rw [hp1, hstep] at hck
        simp only [Bool.or_eq_true, List.any_eq_true, Bool.and_eq_true] at hck
        have hnot : ¬ (isSign k = true ∧ p.2.2.contains k = true) := by
          rintro ⟨h1, h2⟩
          apply hc
          simp only [Bool.and_eq_true]
          refine ⟨h1, ?_⟩
          have : k ∈ p.2.2 := by simpa using h2
          simpa using hpp.mem_iff.mp this
        rcases hck with hck | ⟨q, hqm, ⟨hq1, hq2⟩, hq3⟩
        · exact absurd hck hnot
        · have hq3' : q.2.2.Perm (p.2.2 ++ [k]) := List.isPerm_iff.mp hq3
          have hnd' : NoDupSign (seen ++ [k]) := by
            have := noDup_collapseFrom [k] seen hnd
            unfold collapseFrom at this
            simp only [hc] at this
            simpa [collapseFrom] using this
          exact ih (seen ++ [k]) s1 ⟨q, hqm, by simpa using hq1, by simpa using hq2,
            hq3'.trans (List.Perm.append_right _ hpp)⟩ hnd'

theorem decode_collapse (ks : List Kw) : declspecDecode ks = declspecDecode (collapse ks) := by
  unfold declspecDecode collapse
  rw [run_collapse ks [] (initCounter, initTy)
    ⟨(initCounter, initTy, []), List.mem_cons_self .., rfl, rfl, List.Perm.refl _⟩ (by decide)]

theorem noDup_collapse (ks : List Kw) : NoDupSign (collapse ks) := by
  have := noDup_collapseFrom ks [] (by decide)
  simpa [collapse] using this

theorem collapse_ne_nil {ks : List Kw} (h : ks ≠ []) : collapse ks ≠ [] := by
  cases ks with
  | nil => exact absurd rfl h
  | cons k ks =>
    unfold collapse collapseFrom
    simp


end ChibiVerif.Layout
