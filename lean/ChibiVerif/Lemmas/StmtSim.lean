/-
C03 — forward simulation, generic part: the relation `SimRes` between a result of `Spec.exec` and
runs of the machine, the induction statement `SimStmt`, and the two lemmas that execute the
items of a `switch` body entered at a label in the prefix of an item.
-/
import ChibiVerif.Lemmas.StmtSwitch

set_option linter.unusedSimpArgs false
namespace ChibiVerif.Ctl
open ChibiVerif.Spec.Ctl

/-- what the machine does for a result of the specification: `p` = start of the statement's code,
    `pe` = its end; `b`/`ct` = break / continue labels of the enclosing constructs -/
def SimRes (ω : Nat → Val) (P : Prog) (b ct : Option Nat) (p pe : Nat) (σ : SState) : Res → Prop
  | .done .normal σ' => Runs ω P (p, σ) (pe, σ')
  | .done .brk σ' => ∃ bl q, b = some bl ∧ P[q]? = some (.label (.u bl)) ∧ Runs ω P (p, σ) (q, σ')
  | .done .cont σ' => ∃ cl q, ct = some cl ∧ P[q]? = some (.label (.u cl)) ∧ Runs ω P (p, σ) (q, σ')
  | .done .ret σ' => ∃ q, P[q]? = some (.label .ret) ∧ Runs ω P (p, σ) (q, σ')
  | .timeout σ' => ∃ q, Runs ω P (p, σ) (q, σ')
  | .unsupported => True

/-- prepend machine steps -/
theorem SimRes.prepend {ω : Nat → Val} {P : Prog} {b ct : Option Nat} {p0 p pe : Nat} {σ0 σ : SState} {r : Res}
    (h0 : Runs ω P (p0, σ0) (p, σ)) (h : SimRes ω P b ct p pe σ r) : SimRes ω P b ct p0 pe σ0 r := by
  cases r with
  | unsupported => trivial
  | timeout σ' => obtain ⟨q, hq⟩ := h; exact ⟨q, h0.trans hq⟩
  | done o σ' =>
    cases o with
    | normal => exact h0.trans h
    | brk => obtain ⟨bl, q, h1, h2, h3⟩ := h; exact ⟨bl, q, h1, h2, h0.trans h3⟩
    | cont => obtain ⟨bl, q, h1, h2, h3⟩ := h; exact ⟨bl, q, h1, h2, h0.trans h3⟩
    | ret => obtain ⟨q, h2, h3⟩ := h; exact ⟨q, h2, h0.trans h3⟩

/-- a result that is not `normal` does not mention the end of the code -/
theorem SimRes.abrupt {ω : Nat → Val} {P : Prog} {b ct : Option Nat} {p pe pe' : Nat} {σ : SState} {r : Res}
    (hr : ∀ σ', r ≠ .done .normal σ') (h : SimRes ω P b ct p pe σ r) : SimRes ω P b ct p pe' σ r := by
  cases r with
  | unsupported => trivial
  | timeout σ' => exact h
  | done o σ' =>
    cases o with
    | normal => exact absurd rfl (hr σ')
    | brk => exact h
    | cont => exact h
    | ret => exact h

theorem CodeAt.cast {P : Prog} {p p' : Nat} {code : List CIns} (h : CodeAt P p code) (e : p = p') :
    CodeAt P p' code := e ▸ h

/-- extend the end of the code by steps that do not touch the state -/
theorem SimRes.extend {ω : Nat → Val} {P : Prog} {b ct : Option Nat} {p pe pe' : Nat} {σ : SState} {r : Res}
    (he : ∀ σ', Runs ω P (pe, σ') (pe', σ')) (h : SimRes ω P b ct p pe σ r) : SimRes ω P b ct p pe' σ r := by
  cases r with
  | unsupported => trivial
  | timeout σ' => exact h
  | done o σ' =>
    cases o with
    | normal => exact Runs.trans h (he σ')
    | brk => exact h
    | cont => exact h
    | ret => exact h

theorem SimRes.timeout_refl {ω : Nat → Val} {P : Prog} {b ct : Option Nat} {p pe : Nat} {σ : SState} :
    SimRes ω P b ct p pe σ (.timeout σ) := ⟨p, Runs.refl ω P _⟩

/-- the statement proved by induction on the fuel -/
def SimStmt (ω : Nat → Val) (n : Nat) : Prop :=
  ∀ (st : Stmt) (σ : SState) (P : Prog) (p c0 : Nat) (b ct : Option Nat),
    CodeAt P p (genStmt st c0).1 → UniqueLabels P → Bound b ct st →
    (∀ bl, b = some bl → ∃ q : Nat, P[q]? = some (CIns.label (.u bl))) →
    (∀ cl, ct = some cl → ∃ q : Nat, P[q]? = some (CIns.label (.u cl))) →
    (∃ q : Nat, P[q]? = some (CIns.label .ret)) →
    SimRes ω P b ct p (p + (genStmt st c0).1.length) σ (exec ω n (erase st) σ)

theorem exec_zero (ω : Nat → Val) (s : SStmt) (σ : SState) : exec ω 0 s σ = .timeout σ := by
  cases s <;> rfl


/-! ### entering an item of a switch body at one of its prefix labels -/

theorem exec_prefix (ω : Nat → Val) (it : Stmt) : ∀ (m : Nat) (σ : SState),
    exec ω m (erase it) σ =
      if m < (pfxLabels it).length then .timeout σ
      else exec ω (m - (pfxLabels it).length) (erase (coreT it)) σ := by
  induction it with
  | case_ l lo hi s ih =>
    intro m σ
    cases m with
    | zero => simp [exec_zero, pfxLabels]
    | succ m =>
      simp only [erase, exec, pfxLabels, coreT, List.length_cons, ih m σ, Nat.add_lt_add_iff_right, Nat.add_sub_add_right]
  | default_ l s ih =>
    intro m σ
    cases m with
    | zero => simp [exec_zero, pfxLabels]
    | succ m =>
      simp only [erase, exec, pfxLabels, coreT, List.length_cons, ih m σ, Nat.add_lt_add_iff_right, Nat.add_sub_add_right]
  | _ => intro m σ; simp [pfxLabels, coreT]

theorem runs_labels {ω : Nat → Val} {P : Prog} {q : Nat} {σ : SState} (ls : List Nat)
    (h : CodeAt P q (ls.map (fun l => CIns.label (.u l)))) :
    ∀ k j, j + k = ls.length → Runs ω P (q + j, σ) (q + ls.length, σ) := by
  intro k
  induction k with
  | zero => intro j hj; rw [show j = ls.length by omega]; exact Runs.refl ω P _
  | succ k ih =>
    intro j hj
    have hget := h.get j (by simp; omega)
    have hlt : j < ls.length := by omega
    rw [List.getElem?_map, List.getElem?_eq_getElem hlt] at hget
    simp only [Option.map_some] at hget
    exact (Runs.label hget).trans (by rw [Nat.add_assoc]; exact ih (j + 1) (by omega))

theorem item_sim (ω : Nat → Val) (n : Nat) (IH : ∀ m, m ≤ n → SimStmt ω m) :
    ∀ m, m ≤ n → ∀ (it : Stmt) (σ : SState) (P : Prog) (q c0 j : Nat) (b ct : Option Nat),
      j ≤ (pfxLabels it).length → CodeAt P q (genStmt it c0).1 → UniqueLabels P → Bound b ct it →
      (∀ bl, b = some bl → ∃ q : Nat, P[q]? = some (CIns.label (.u bl))) →
      (∀ cl, ct = some cl → ∃ q : Nat, P[q]? = some (CIns.label (.u cl))) →
      (∃ q : Nat, P[q]? = some (CIns.label .ret)) →
      SimRes ω P b ct (q + j) (q + (genStmt it c0).1.length) σ (exec ω m (erase it) σ) := by
  intro m hm it σ P q c0 j b ct hj hcode hu hb HB HC HR
  rw [exec_prefix]
  by_cases hlt : m < (pfxLabels it).length
  · simp only [hlt, if_true]; exact SimRes.timeout_refl
  · simp only [hlt, if_false]
    rw [gen_prefix it c0] at hcode ⊢
    simp only [List.length_append, List.length_map] at hcode ⊢
    have hrun := runs_labels (ω := ω) (σ := σ) (pfxLabels it) hcode.left ((pfxLabels it).length - j) j (by omega)
    have hcore := IH (m - (pfxLabels it).length) (by omega) (coreT it) σ P (q + (pfxLabels it).length) c0 b ct
      (by have := hcode.right; simpa using this) hu (bound_core it hb) HB HC HR
    rw [Nat.add_assoc] at hcore
    exact SimRes.prepend hrun hcore

/-- the remaining items of the body, the first one entered at offset `j` of its prefix -/
theorem seq_sim (ω : Nat → Val) (n : Nat) (IH : ∀ m, m ≤ n → SimStmt ω m) :
    ∀ (its : List Stmt) (m : Nat), m ≤ n → ∀ (σ : SState) (P : Prog) (q c0 j : Nat) (b ct : Option Nat),
      (match its with | [] => j = 0 | it :: _ => j ≤ (pfxLabels it).length) →
      CodeAt P q (genList its c0).1 → UniqueLabels P → (∀ it ∈ its, Bound b ct it) →
      (∀ bl, b = some bl → ∃ q : Nat, P[q]? = some (CIns.label (.u bl))) →
      (∀ cl, ct = some cl → ∃ q : Nat, P[q]? = some (CIns.label (.u cl))) →
      (∃ q : Nat, P[q]? = some (CIns.label .ret)) →
      SimRes ω P b ct (q + j) (q + (genList its c0).1.length) σ (exec ω m (seqOf (its.map erase)) σ) := by
  intro its
  induction its with
  | nil =>
    intro m hm σ P q c0 j b ct hj hcode hu hb HB HC HR
    simp only at hj
    subst hj
    cases m with
    | zero => rw [exec_zero]; exact SimRes.timeout_refl
    | succ m => simp only [List.map_nil, seqOf, exec, genList, List.length_nil]; exact Runs.refl ω P _
  | cons it rest ih =>
    intro m hm σ P q c0 j b ct hj hcode hu hb HB HC HR
    cases m with
    | zero => rw [exec_zero]; exact SimRes.timeout_refl
    | succ m =>
      simp only [List.map_cons, seqOf, exec, genList, List.length_append] at hcode ⊢
      have hx := item_sim ω n IH m (by omega) it σ P q c0 j b ct hj hcode.left hu (hb it (by simp)) HB HC HR
      cases hr : exec ω m (erase it) σ with
      | unsupported => trivial
      | timeout σ' => rw [hr] at hx; exact hx
      | done o σ1 =>
        rw [hr] at hx
        cases o with
        | normal =>
          have hy := ih m (by omega) σ1 P (q + (genStmt it c0).1.length) (genStmt it c0).2 0 b ct
            (by cases rest <;> simp) hcode.right hu (fun it' h => hb it' (List.mem_cons_of_mem _ h)) HB HC HR
          rw [Nat.add_zero, Nat.add_assoc] at hy
          exact SimRes.prepend hx hy
        | brk => exact hx
        | cont => exact hx
        | ret => exact hx

end ChibiVerif.Ctl
