/-
C14, contents of the outputs: loop invariant of main.c's input loop over all inputs and all fault
schedules (used by `C14_no_partial_output` and `C14_success_outputs`).
-/
import ChibiVerif.Model.DriverProc
import ChibiVerif.Lemmas.DriverProcLemmas
import ChibiVerif.Lemmas.DriverProcConcurrent

set_option linter.unusedSimpArgs false
set_option linter.unusedVariables false
set_option linter.unusedSectionVars false

namespace ChibiVerif.DriverProc

variable {P : Type} [DecidableEq P]

/-! ### macro steps of `doActs` on an explicit head action -/

def mkY (t : P) (r : List (Act P)) (y : DState P × FS P) : DState P × FS P :=
  (({ y.1 with acts := r, nTemp := y.1.nTemp + 1, tmpfiles := y.1.tmpfiles ++ [t] }).emit (.mkstemp t),
   y.2.set t ⟨.empty, []⟩)

theorem doActs_mktemp (env : Env P) (r : List (Act P)) (y : DState P × FS P) (t : P)
    (h : env.fresh y.1.nTemp = some t) : doActs env (.mktemp :: r) y = doActs env r (mkY t r y) := by
  simp [doActs, doAct, h, mkY]

def runS (env : Env P) (prog : Prog) (i : List P) (o : Option P) (r : List (Act P)) (y : DState P × FS P) : DState P :=
  ((({ y.1 with acts := r }).emit (.spawn prog i o)).bump prog).emit
    (.wait prog (env.sched prog (y.1.count prog)).status)

def runF (env : Env P) (prog : Prog) (i : List P) (o : Option P) (y : DState P × FS P) : FS P :=
  childEffect env.mode prog (env.sched prog (y.1.count prog)) y.2 i o

theorem doActs_run (env : Env P) (prog : Prog) (inp : Ref P) (out : Option (Ref P)) (r : List (Act P))
    (y : DState P × FS P) (i : P) (o : Option P)
    (hi : resolve y.1.tmpfiles inp = some i) (ho : resolveOut y.1.tmpfiles out = some o) :
    doActs env (.run prog inp out :: r) y =
      if (env.sched prog (y.1.count prog)).status.wait = 0 then doActs env r (runS env prog [i] o r y, runF env prog [i] o y)
      else .error ((runS env prog [i] o r y).exitWith 1, runF env prog [i] o y) := by
  have hc : (DState.count { y.1 with acts := r } prog) = y.1.count prog := by cases prog <;> rfl
  have hc2 : ((({ y.1 with acts := r }).emit (Event.spawn prog [i] o)).count prog) = y.1.count prog := by
    cases prog <;> rfl
  simp only [doActs, doAct, hi, ho, runS, runF, hc]
  by_cases hw : (env.sched prog (y.1.count prog)).status.wait = 0 <;> simp [hw]

theorem doActs_pushLd (env : Env P) (ref : Ref P) (r : List (Act P)) (y : DState P × FS P) (p : P)
    (h : resolve y.1.tmpfiles ref = some p) :
    doActs env (.pushLd ref :: r) y = doActs env r ({ y.1 with acts := r, ldArgs := y.1.ldArgs ++ [p] }, y.2) := by
  simp [doActs, doAct, h]

section proj
variable (env : Env P) (prog : Prog) (i : List P) (o : Option P) (r : List (Act P)) (y : DState P × FS P) (t : P)

@[simp] theorem mkY_tmpfiles : (mkY t r y).1.tmpfiles = y.1.tmpfiles ++ [t] := rfl
@[simp] theorem mkY_nTemp : (mkY t r y).1.nTemp = y.1.nTemp + 1 := rfl
@[simp] theorem mkY_ldArgs : (mkY t r y).1.ldArgs = y.1.ldArgs := rfl
@[simp] theorem mkY_nCc1 : (mkY t r y).1.nCc1 = y.1.nCc1 := rfl
@[simp] theorem mkY_count : (mkY t r y).1.count prog = y.1.count prog := by cases prog <;> rfl
@[simp] theorem mkY_log : (mkY t r y).1.log = y.1.log ++ [.mkstemp t] := rfl
@[simp] theorem mkY_fs : (mkY t r y).2 = y.2.set t ⟨.empty, []⟩ := rfl
@[simp] theorem runS_tmpfiles : (runS env prog i o r y).tmpfiles = y.1.tmpfiles := by cases prog <;> rfl
@[simp] theorem runS_nTemp : (runS env prog i o r y).nTemp = y.1.nTemp := by cases prog <;> rfl
@[simp] theorem runS_ldArgs : (runS env prog i o r y).ldArgs = y.1.ldArgs := by cases prog <;> rfl
@[simp] theorem runS_log : (runS env prog i o r y).log =
    y.1.log ++ [.spawn prog i o, .wait prog (env.sched prog (y.1.count prog)).status] := by
  cases prog <;> simp [runS, DState.emit, DState.bump]
theorem runS_nCc1 : (runS env prog i o r y).nCc1 = y.1.nCc1 + (if prog = .cc1 then 1 else 0) := by
  cases prog <;> simp [runS, DState.emit, DState.bump]
@[simp] theorem exitWith_tmpfiles (s : DState P) (c : Nat) : (s.exitWith c).tmpfiles = s.tmpfiles := rfl
@[simp] theorem exitWith_log (s : DState P) (c : Nat) : (s.exitWith c).log = s.log := rfl
end proj

/-! ### generic facts about the events of a run -/

/-- every `wait` event carries a status the schedule chose; every `error` event comes from a `fail`
    action; a failed mkstemp is a `none` of the environment -/
def LogOK (env : Env P) (acts : List (Act P)) (lo hi : Nat) (l : List (Event P)) : Prop :=
  ∀ e ∈ l, match e with
    | .wait prog st => ∃ k, st = (env.sched prog k).status
    | .error why => Act.fail why ∈ acts
    | .mkstempFailed => ∃ k, lo ≤ k ∧ k < hi ∧ env.fresh k = none
    | _ => True

theorem doActs_logOK (env : Env P) (acts : List (Act P)) :
    ∀ (y : DState P × FS P) (all : List (Act P)) (hi : Nat), (∀ a ∈ acts, a ∈ all) →
      y.1.nTemp + mkCount acts ≤ hi → LogOK env all 0 hi y.1.log →
      match doActs env acts y with
      | .ok z => LogOK env all 0 hi z.1.log
      | .error e => LogOK env all 0 hi e.1.log := by
  induction acts with
  | nil => intro y all hi _ _ h; simpa [doActs] using h
  | cons a r ih =>
    intro y all hi hsub hcnt hlog
    have hr : ∀ a ∈ r, a ∈ all := fun x hx => hsub x (by simp [hx])
    cases a with
    | mktemp =>
      simp only [mkCount] at hcnt
      cases hf : env.fresh y.1.nTemp with
      | none =>
        simp only [doActs, doAct, hf]
        intro e he
        simp only [DState.emit, DState.exitWith, List.mem_append, List.mem_singleton] at he
        rcases he with he | rfl
        · exact hlog e he
        · exact ⟨y.1.nTemp, Nat.zero_le _, by omega, hf⟩
      | some t =>
        rw [doActs_mktemp env r y t hf]
        apply ih _ all hi hr (by simp; omega)
        intro e he
        simp only [mkY_log, List.mem_append, List.mem_singleton] at he
        rcases he with he | rfl
        · exact hlog e he
        · trivial
    | run prog inp out =>
      have hcnt' : y.1.nTemp + mkCount r ≤ hi := by simpa [mkCount] using hcnt
      cases hi' : resolve y.1.tmpfiles inp with
      | none => simp only [doActs, doAct, hi']; exact hlog
      | some i =>
        cases ho : resolveOut y.1.tmpfiles out with
        | none => simp only [doActs, doAct, hi', ho]; exact hlog
        | some o =>
          rw [doActs_run env prog inp out r y i o hi' ho]
          have hl : LogOK env all 0 hi (runS env prog [i] o r y).log := by
            intro e he
            simp only [runS_log, List.mem_append, List.mem_cons, List.not_mem_nil, or_false] at he
            rcases he with he | rfl | rfl
            · exact hlog e he
            · trivial
            · exact ⟨_, rfl⟩
          by_cases hw : (env.sched prog (y.1.count prog)).status.wait = 0
          · rw [if_pos hw]
            exact ih (runS env prog [i] o r y, runF env prog [i] o y) all hi hr (by simpa using hcnt') hl
          · rw [if_neg hw]
            simpa using hl
    | pushLd ref =>
      have hcnt' : y.1.nTemp + mkCount r ≤ hi := by simpa [mkCount] using hcnt
      cases hp : resolve y.1.tmpfiles ref with
      | none => simp only [doActs, doAct, hp]; exact hlog
      | some p =>
        rw [doActs_pushLd env ref r y p hp]
        exact ih _ all hi hr hcnt' hlog
    | link o =>
      have hcnt' : y.1.nTemp + mkCount r ≤ hi := by simpa [mkCount] using hcnt
      simp only [doActs, doAct]
      by_cases hl : y.1.ldArgs.isEmpty = true
      · simp only [hl, if_true]
        exact ih _ all hi hr hcnt' hlog
      · simp only [hl, if_false]
        have hl2 : LogOK env all 0 hi (y.1.log ++ [Event.spawn Prog.ld y.1.ldArgs (some o)] ++
            [Event.wait Prog.ld (env.sched Prog.ld y.1.nLd).status]) := by
          intro e he
          simp only [List.mem_append, List.mem_singleton] at he
          rcases he with (he | rfl) | rfl
          · exact hlog e he
          · trivial
          · exact ⟨_, rfl⟩
        by_cases hw : (env.sched Prog.ld y.1.nLd).status.wait = 0
        · simp only [hw, if_true]
          exact ih _ all hi hr (by simpa [DState.emit, DState.bump] using hcnt')
            (by simpa [DState.emit, DState.bump] using hl2)
        · simp only [hw, if_false]
          simpa [DState.emit, DState.bump, DState.exitWith] using hl2
    | fail why =>
      simp only [doActs, doAct]
      intro e he
      simp only [DState.emit, DState.exitWith, List.mem_append, List.mem_singleton] at he
      rcases he with he | rfl
      · exact hlog e he
      · exact hsub _ (by simp)

/-! ### the setting of the content theorems -/

/-- the command ends with a linker run -/
def linking (cmd : Cmd P) : Prop := cmd.mode = .link ∧ cmd.depsOnly = false

/-- assumptions on the environment and the command under which contents are predictable -/
structure Setup (env : Env P) (cmd : Cmd P) (fs₀ : FS P) (ts : List P) : Prop where
  mode : env.mode = cmd.mode
  /-- mkstemp hands out `ts` in order … -/
  fresh : ∀ k t, ts[k]? = some t → env.fresh k = some t
  /-- … and does not fail while the command needs temporaries -/
  enough : totalTemps cmd cmd.inputs ≤ ts.length
  /-- mkstemp names are fresh: pairwise distinct, not named on the command line, not existing before -/
  nodup : ts.Nodup
  notInput : ∀ t ∈ ts, t ∉ cmd.inputs.map (·.path)
  notReq : ∀ t ∈ ts, t ∉ requested cmd
  absent : ∀ t ∈ ts, fs₀.get t = none
  /-- the requested outputs are pairwise distinct and none of them is an input -/
  reqNodup : (requested cmd).Nodup
  reqNotInput : ∀ p ∈ requested cmd, p ∉ cmd.inputs.map (·.path)

/-- number of inputs among `l` that run the front end -/
def cCount (cmd : Cmd P) (l : List (Input P)) : Nat :=
  (l.filter (fun u => decide (effKind cmd.mode u.kind = .C))).length

/-- loop invariant: the configuration after the inputs `pre` were processed without failure -/
structure LoopInv (cmd : Cmd P) (fs₀ : FS P) (ts : List P) (pre : List (Input P)) (y : DState P × FS P) : Prop where
  tmps : y.1.tmpfiles = ts.take (totalTemps cmd pre)
  ntemp : y.1.nTemp = totalTemps cmd pre
  ncc1 : y.1.nCc1 = cCount cmd pre
  units : ∀ u ∈ pre, isUnit cmd u = true →
    y.2.get (unitOutput cmd u) = some ⟨unitCls cmd, fs₀.origins u.path⟩
  frame : ∀ p, p ∉ y.1.tmpfiles → (∀ u ∈ pre, isUnit cmd u = true → unitOutput cmd u ≠ p) → y.2.get p = fs₀.get p
  ldOrig : linking cmd → y.1.ldArgs.map y.2.origins = pre.map (fun u => fs₀.origins u.path)
  ldWhere : ∀ p ∈ y.1.ldArgs, p ∈ y.1.tmpfiles ∨ p ∈ cmd.inputs.map (·.path)

omit [DecidableEq P] in
theorem totalTemps_append (cmd : Cmd P) (a b : List (Input P)) :
    totalTemps cmd (a ++ b) = totalTemps cmd a + totalTemps cmd b := by
  induction a with
  | nil => simp [totalTemps]
  | cons x r ih => simp [totalTemps, ih]; omega

omit [DecidableEq P] in
theorem cCount_append (cmd : Cmd P) (a b : List (Input P)) :
    cCount cmd (a ++ b) = cCount cmd a + cCount cmd b := by
  simp [cCount, List.filter_append]

omit [DecidableEq P] in
theorem take_succ_of_get {ts : List P} {n : Nat} {t : P} (h : ts[n]? = some t) :
    ts.take (n + 1) = ts.take n ++ [t] := by
  rw [List.take_add_one, h]; rfl

omit [DecidableEq P] in
theorem not_mem_take_of_nodup {ts : List P} {n : Nat} {t : P} (hnd : ts.Nodup) (h : ts[n]? = some t) :
    t ∉ ts.take n := by
  intro hm
  have hd : t ∈ ts.drop n := by
    have : (ts.drop n)[0]? = some t := by simpa using h
    exact List.mem_of_getElem? this
  have := List.take_append_drop n ts
  rw [← this] at hnd
  exact (List.nodup_append.mp hnd).2.2 t hm t hd rfl

omit [DecidableEq P] in
theorem resolve_tmp_append {tf l : List P} {n j : Nat} (h : tf.length = n) :
    resolve (tf ++ l) (.tmp (n + j)) = l[j]? := by
  simp only [resolve]
  rw [List.getElem?_append_right (by omega)]
  congr 1; omega

/-- what a successfully processed input `u` did to the configuration -/
structure UnitOK (env : Env P) (cmd : Cmd P) (ts : List P) (n : Nat) (u : Input P)
    (y z : DState P × FS P) : Prop where
  tmps : z.1.tmpfiles = ts.take (n + planTemps cmd u)
  ntemp : z.1.nTemp = n + planTemps cmd u
  ncc1 : z.1.nCc1 = y.1.nCc1 + (if effKind cmd.mode u.kind = .C then 1 else 0)
  frame : ∀ p, p ∉ z.1.tmpfiles ∨ p ∈ y.1.tmpfiles → (isUnit cmd u = true → p ≠ unitOutput cmd u) → z.2.get p = y.2.get p
  unit : isUnit cmd u = true → z.2.get (unitOutput cmd u) = some ⟨unitCls cmd, y.2.origins u.path⟩
  ld : linking cmd → ∃ q, z.1.ldArgs = y.1.ldArgs ++ [q] ∧ z.2.origins q = y.2.origins u.path ∧
        (q ∈ z.1.tmpfiles ∨ q = u.path)
  ld' : ¬ linking cmd → ∀ q ∈ z.1.ldArgs, q ∈ y.1.ldArgs ∨ q = u.path

/-- the path the cc1 child of unit `u` writes that is not a temporary: the `-o` file under `-E`, the `.s` file under
    `-S`; nothing under `-M` -/
def cc1Out (cmd : Cmd P) (u : Input P) : Option P :=
  if cmd.depsOnly then none
  else match cmd.mode with
    | .E => cmd.out
    | .S => some (unitOutput cmd u)
    | _ => none

/-- what is known when processing `u` ended in `exit(1)` -/
def UnitFail (env : Env P) (cmd : Cmd P) (ts : List P) (u : Input P) (y e : DState P × FS P) : Prop :=
  ∀ st, e.1.log.getLast? = some (.wait .cc1 st) →
    effKind cmd.mode u.kind = .C ∧ st = (env.sched .cc1 y.1.nCc1).status ∧
    (∀ t ∈ e.1.tmpfiles, t ∈ ts) ∧ (∀ t ∈ y.1.tmpfiles, t ∈ e.1.tmpfiles) ∧
    (∀ p, p ∉ e.1.tmpfiles → e.2.get p =
      if (env.sched .cc1 y.1.nCc1).leaves = .complete ∧ cc1Out cmd u = some p
      then some ⟨unitCls cmd, y.2.origins u.path⟩ else y.2.get p)

theorem childEffect_ok {mode : Mode} {prog : Prog} {oc : Outcome} {fs : FS P} {i : List P} {o : P}
    (h : oc.status.wait = 0) : childEffect mode prog oc fs i (some o) = fs.set o (childOut mode prog fs i) := by
  simp [childEffect, h]

theorem childEffect_cc1_fail {mode : Mode} {oc : Outcome} {fs : FS P} {i : List P} {o : Option P}
    (h : ¬ oc.status.wait = 0) (hl : oc.leaves ≠ .complete) : childEffect mode .cc1 oc fs i o = fs := by
  cases o <;> simp [childEffect, h, hl]

omit [DecidableEq P] in
theorem getLast_ne {l : List (Event P)} {a b : Event P} (h : a ≠ b) : (l ++ [a]).getLast? ≠ some b := by
  simp [List.getLast?_append, h]

theorem isUnit_deps {cmd : Cmd P} {u : Input P} (h : isUnit cmd u = true) : cmd.depsOnly = false := by
  unfold isUnit at h
  cases hd : cmd.depsOnly with
  | false => rfl
  | true => simp [hd] at h

theorem isUnit_not_link {cmd : Cmd P} {u : Input P} (h : isUnit cmd u = true) : cmd.mode ≠ .link := by
  intro hm
  have hd := isUnit_deps h
  unfold isUnit at h
  rw [hm, hd] at h
  cases hk : effKind Mode.link u.kind <;> simp [hk] at h

theorem isUnit_not_linking {cmd : Cmd P} {u : Input P} (h : isUnit cmd u = true) : ¬ linking cmd :=
  fun hl => isUnit_not_link h hl.1

theorem unitOutput_requested {cmd : Cmd P} {u : Input P} (hu : u ∈ cmd.inputs) (h : isUnit cmd u = true) :
    unitOutput cmd u ∈ requested cmd := by
  unfold requested
  rw [if_neg (by simp [isUnit_deps h]), if_neg (isUnit_not_link h)]
  exact List.mem_map.mpr ⟨u, List.mem_filter.mpr ⟨hu, h⟩, rfl⟩

/-! ### existential summaries of the macro steps -/

theorem mk_step (env : Env P) (r : List (Act P)) (y : DState P × FS P) (t : P)
    (h : env.fresh y.1.nTemp = some t) :
    ∃ z, doActs env (.mktemp :: r) y = doActs env r z ∧ z.1.tmpfiles = y.1.tmpfiles ++ [t] ∧
      z.1.nTemp = y.1.nTemp + 1 ∧ z.1.ldArgs = y.1.ldArgs ∧ z.1.nCc1 = y.1.nCc1 ∧
      z.2 = y.2.set t ⟨.empty, []⟩ :=
  ⟨mkY t r y, doActs_mktemp env r y t h, rfl, rfl, rfl, rfl, rfl⟩

theorem push_step (env : Env P) (ref : Ref P) (r : List (Act P)) (y : DState P × FS P) (p : P)
    (h : resolve y.1.tmpfiles ref = some p) :
    ∃ z, doActs env (.pushLd ref :: r) y = doActs env r z ∧ z.1.tmpfiles = y.1.tmpfiles ∧
      z.1.nTemp = y.1.nTemp ∧ z.1.ldArgs = y.1.ldArgs ++ [p] ∧ z.1.nCc1 = y.1.nCc1 ∧ z.2 = y.2 :=
  ⟨_, doActs_pushLd env ref r y p h, rfl, rfl, rfl, rfl, rfl⟩

theorem run_step (env : Env P) (prog : Prog) (inp : Ref P) (out : Option (Ref P)) (r : List (Act P))
    (y : DState P × FS P) (i : P) (o : Option P)
    (hi : resolve y.1.tmpfiles inp = some i) (ho : resolveOut y.1.tmpfiles out = some o) :
    (∃ z, doActs env (.run prog inp out :: r) y = doActs env r z ∧
      (env.sched prog (y.1.count prog)).status.wait = 0 ∧
      z.1.tmpfiles = y.1.tmpfiles ∧ z.1.nTemp = y.1.nTemp ∧ z.1.ldArgs = y.1.ldArgs ∧
      z.1.nCc1 = y.1.nCc1 + (if prog = .cc1 then 1 else 0) ∧
      z.2 = childEffect env.mode prog (env.sched prog (y.1.count prog)) y.2 [i] o) ∨
    (∃ e, doActs env (.run prog inp out :: r) y = .error e ∧
      ¬ (env.sched prog (y.1.count prog)).status.wait = 0 ∧
      e.1.tmpfiles = y.1.tmpfiles ∧
      e.2 = childEffect env.mode prog (env.sched prog (y.1.count prog)) y.2 [i] o ∧
      e.1.log = y.1.log ++ [.spawn prog [i] o, .wait prog (env.sched prog (y.1.count prog)).status]) := by
  rw [doActs_run env prog inp out r y i o hi ho]
  by_cases hw : (env.sched prog (y.1.count prog)).status.wait = 0
  · left
    rw [if_pos hw]
    exact ⟨_, rfl, hw, runS_tmpfiles .., runS_nTemp .., runS_ldArgs .., runS_nCc1 .., rfl⟩
  · right
    rw [if_neg hw]
    exact ⟨_, rfl, hw, by simp, rfl, by simp⟩

/-! ### the dispatch tables with mode and kind as explicit arguments -/

def isUnitMK (o : Bool) : Mode → Kind → Bool
  | .E, .C => o
  | .S, .C => true
  | .c, .C => true
  | .c, .asm => true
  | _, _ => false

theorem isUnit_eq {cmd : Cmd P} {u : Input P} {m : Mode} {k : Kind} (hd : cmd.depsOnly = false) (hm : cmd.mode = m)
    (hk : effKind cmd.mode u.kind = k) : isUnit cmd u = isUnitMK cmd.out.isSome m k := by
  unfold isUnit; rw [hk, hm, hd]; rfl

def planTempsMK : Kind → Mode → Nat
  | .C, .c => 1
  | .C, .link => 2
  | .asm, .link => 1
  | _, _ => 0

theorem planTemps_eq {cmd : Cmd P} {u : Input P} {m : Mode} {k : Kind} (hd : cmd.depsOnly = false) (hm : cmd.mode = m)
    (hk : effKind cmd.mode u.kind = k) : planTemps cmd u = planTempsMK k m := by
  unfold planTemps; rw [hk, hm, hd]; rfl

def planMK (cmd : Cmd P) (n : Nat) (i : Input P) : Kind → Mode → List (Act P)
  | .lib, _ => [.pushLd (.path i.path)]
  | .unknown, _ => [.fail .unknownExt]
  | .obj, _ => [.pushLd (.path i.path)]
  | .asm, .S => []
  | .asm, .E => []
  | .asm, .c => [.run .as (.path i.path) (some (.path (unitOutput cmd i)))]
  | .asm, .link => [.mktemp, .run .as (.path i.path) (some (.tmp n)), .pushLd (.tmp n)]
  | .C, .E => [.run .cc1 (.path i.path) (cmd.out.map .path)]
  | .C, .S => [.run .cc1 (.path i.path) (some (.path (unitOutput cmd i)))]
  | .C, .c => [.mktemp, .run .cc1 (.path i.path) (some (.tmp n)),
               .run .as (.tmp n) (some (.path (unitOutput cmd i)))]
  | .C, .link => [.mktemp, .mktemp, .run .cc1 (.path i.path) (some (.tmp n)),
                  .run .as (.tmp n) (some (.tmp (n + 1))), .pushLd (.tmp (n + 1))]

theorem plan_eq {cmd : Cmd P} {u : Input P} {n : Nat} {m : Mode} {k : Kind} (hd : cmd.depsOnly = false) (hm : cmd.mode = m)
    (hk : effKind cmd.mode u.kind = k) : plan cmd n u = planMK cmd n u k m := by
  unfold plan; rw [hk]
  cases k <;> simp only [planMK, hd] <;> rw [hm] <;> cases m <;> rfl

/-- the loop body under `-M` -/
def planD (i : Input P) : Kind → List (Act P)
  | .lib => [.pushLd (.path i.path)]
  | .unknown => [.fail .unknownExt]
  | .obj => [.pushLd (.path i.path)]
  | .asm => []
  | .C => [.run .cc1 (.path i.path) none]

theorem plan_deps {cmd : Cmd P} {u : Input P} {n : Nat} {k : Kind} (hd : cmd.depsOnly = true)
    (hk : effKind cmd.mode u.kind = k) : plan cmd n u = planD u k := by
  unfold plan; rw [hk]
  cases k <;> simp only [planD, hd] <;> rfl

theorem planTemps_deps {cmd : Cmd P} {u : Input P} (hd : cmd.depsOnly = true) : planTemps cmd u = 0 := by
  unfold planTemps; simp [hd]

theorem isUnit_depsOnly {cmd : Cmd P} {u : Input P} (hd : cmd.depsOnly = true) : isUnit cmd u = false := by
  unfold isUnit; simp [hd]

section unit
variable (env : Env P) (cmd : Cmd P) (fs₀ : FS P) (ts : List P) (S : Setup env cmd fs₀ ts)
  (pre : List (Input P)) (u : Input P) (post : List (Input P)) (hin : cmd.inputs = pre ++ u :: post)
include S hin

theorem unit_local :
    totalTemps cmd pre + planTemps cmd u ≤ ts.length ∧ u.path ∉ ts ∧
    (isUnit cmd u = true → unitOutput cmd u ∉ ts ∧ unitOutput cmd u ≠ u.path) := by
  have hu : u ∈ cmd.inputs := by rw [hin]; simp
  have hup : u.path ∈ cmd.inputs.map (·.path) := List.mem_map.mpr ⟨u, hu, rfl⟩
  refine ⟨?_, fun h => S.notInput _ h hup, fun h => ⟨fun ht => S.notReq _ ht (unitOutput_requested hu h), ?_⟩⟩
  · have := S.enough
    rw [hin, totalTemps_append] at this
    simp only [totalTemps] at this
    omega
  · intro e
    exact S.reqNotInput _ (unitOutput_requested hu h) (e ▸ hup)

omit S hin in
theorem effKind_E {k : Kind} (h : effKind Mode.E k ≠ .lib) : effKind Mode.E k = .C := by
  by_cases hl : k = .lib
  · simp [effKind, hl] at h
  · simp [effKind, hl]

/-- one iteration of the input loop: either it completes (`UnitOK`) and the run continues with the
    rest, or the driver exits (`UnitFail`) -/
theorem unit_step (rest : List (Act P)) (y : DState P × FS P) (hI : LoopInv cmd fs₀ ts pre y) :
    (∃ z, doActs env (plan cmd (totalTemps cmd pre) u ++ rest) y = doActs env rest z ∧
        UnitOK env cmd ts (totalTemps cmd pre) u y z) ∨
    (∃ e, doActs env (plan cmd (totalTemps cmd pre) u ++ rest) y = .error e ∧ UnitFail env cmd ts u y e) := by
  obtain ⟨hn, hupts, hout⟩ := unit_local env cmd fs₀ ts S pre u post hin
  have htm := hI.tmps
  have hnt := hI.ntemp
  have hlen : y.1.tmpfiles.length = totalTemps cmd pre := by rw [htm, List.length_take]; omega
  have hsub : ∀ t ∈ y.1.tmpfiles, t ∈ ts := fun t h => by rw [htm] at h; exact List.mem_of_mem_take h
  have hmode := S.mode
  -- the trivial shapes first
  have pushCase : plan cmd (totalTemps cmd pre) u = [.pushLd (.path u.path)] → isUnit cmd u = false →
      planTemps cmd u = 0 → effKind cmd.mode u.kind ≠ .C →
      ∃ z, doActs env (plan cmd (totalTemps cmd pre) u ++ rest) y = doActs env rest z ∧
        UnitOK env cmd ts (totalTemps cmd pre) u y z := by
    intro hp hu hpt hk
    rw [hp]
    obtain ⟨z, hz, h1, h2, h3, h4, h5⟩ := push_step env (.path u.path) rest y u.path rfl
    refine ⟨z, hz, ⟨by rw [h1, hpt]; exact htm, by rw [h2, hpt]; exact hnt, by simp [h4, hk], ?_, by simp [hu], ?_, ?_⟩⟩
    · intro p _ _; rw [h5]
    · intro _; exact ⟨u.path, h3, by rw [h5], Or.inr rfl⟩
    · intro _ q hq; rw [h3] at hq; simpa using hq
  have hfailC : effKind cmd.mode u.kind = .C → ∀ (e : DState P × FS P) (y1 : DState P × FS P) (i : P) (o : Option P),
      i = u.path → (∀ q, o = some q → q ∈ y1.1.tmpfiles ∨ cc1Out cmd u = some q) → (∀ q, cc1Out cmd u = some q → o = some q) →
      y1.1.nCc1 = y.1.nCc1 → (∀ t ∈ y1.1.tmpfiles, t ∈ ts) → (∀ t ∈ y.1.tmpfiles, t ∈ y1.1.tmpfiles) →
      (∀ p, p ∉ y1.1.tmpfiles → y1.2.get p = y.2.get p) →
      ¬ (env.sched .cc1 (y1.1.count .cc1)).status.wait = 0 → e.1.tmpfiles = y1.1.tmpfiles →
      e.2 = childEffect env.mode .cc1 (env.sched .cc1 (y1.1.count .cc1)) y1.2 [i] o →
      e.1.log = y1.1.log ++ [.spawn .cc1 [i] o, .wait .cc1 (env.sched .cc1 (y1.1.count .cc1)).status] →
      UnitFail env cmd ts u y e := by
    intro hk e y1 i o hi hoT hoC hc hs1 hs2 hfr hw h1 h5 h6 st hst
    subst hi
    rw [h6] at hst
    simp only [List.getLast?_append, List.getLast?_cons_cons, List.getLast?_singleton, Option.some_or,
      Option.some.injEq, Event.wait.injEq, true_and] at hst
    refine ⟨hk, ?_, by rw [h1]; exact hs1, by rw [h1]; exact hs2, ?_⟩
    · rw [← hst]; show _ = (env.sched Prog.cc1 y.1.nCc1).status; rw [← hc]; rfl
    · intro p hp
      rw [h1] at hp
      have hcnt : (env.sched .cc1 (y1.1.count .cc1)) = env.sched .cc1 y.1.nCc1 := by
        show env.sched .cc1 y1.1.nCc1 = _
        rw [hc]
      rw [h5, hcnt]
      have hwx' : ¬ (env.sched .cc1 y.1.nCc1).status.wait = 0 := by rw [← hcnt]; exact hw
      by_cases hlv : (env.sched .cc1 y.1.nCc1).leaves = .complete
      · -- the one late failure: the output was written completely
        have horg : y1.2.origins u.path = y.2.origins u.path :=
          FS.origins_congr (hfr _ (fun h => hupts (hs1 _ h)))
        by_cases hcp : cc1Out cmd u = some p
        · rw [if_pos ⟨hlv, hcp⟩, hoC p hcp]
          simp only [childEffect, hlv, or_true, if_true, FS.get_set_self]
          have hm2 : cmd.mode = .E ∨ cmd.mode = .S := by
            unfold cc1Out at hcp
            split at hcp
            · cases hcp
            · cases hm : cmd.mode <;> simp [hm] at hcp ⊢
          simp only [childOut, List.flatMap_cons, List.flatMap_nil, List.append_nil, horg, hmode]
          rcases hm2 with hm | hm <;> simp [unitCls, hm]
        · rw [if_neg (fun h => hcp h.2)]
          cases o with
          | none => simp only [childEffect]; exact hfr p hp
          | some q =>
            have hqp : p ≠ q := by
              rcases hoT q rfl with hq | hq
              · exact fun e => hp (e ▸ hq)
              · exact fun e => hcp (e ▸ hq)
            simp only [childEffect, hlv, or_true, if_true]
            rw [FS.get_set_ne _ _ hqp]
            exact hfr p hp
      · rw [if_neg (fun h => hlv h.1), childEffect_cc1_fail hwx' hlv]
        exact hfr p hp
  by_cases hdT : cmd.depsOnly = true
  · -- `-M`: no temporaries, no units, no linking
    have hpt : planTemps cmd u = 0 := planTemps_deps hdT
    have hu : isUnit cmd u = false := isUnit_depsOnly hdT
    have hnl : ¬ linking cmd := fun h => by rw [h.2] at hdT; cases hdT
    cases hk : effKind cmd.mode u.kind with
    | lib => left; exact pushCase (by rw [plan_deps hdT hk]; rfl) hu hpt (by simp [hk])
    | obj => left; exact pushCase (by rw [plan_deps hdT hk]; rfl) hu hpt (by simp [hk])
    | unknown =>
      right
      rw [plan_deps hdT hk]
      refine ⟨_, by simp only [planD, List.cons_append, List.nil_append, doActs, doAct]; rfl, ?_⟩
      intro st hst
      simp [DState.emit, DState.exitWith] at hst
    | asm =>
      left
      rw [plan_deps hdT hk]
      simp only [planD, List.nil_append]
      refine ⟨y, rfl, ⟨by rw [hpt]; exact htm, by rw [hpt]; exact hnt, by simp [hk], fun _ _ _ => rfl, by simp [hu], ?_, ?_⟩⟩
      · intro h; exact absurd h hnl
      · intro _ q hq; exact Or.inl hq
    | C =>
      rw [plan_deps hdT hk]
      simp only [planD, List.cons_append, List.nil_append]
      rcases run_step env .cc1 (.path u.path) none rest y u.path none rfl rfl with
        ⟨z, hz, hw, h1, h2, h3, h4, h5⟩ | ⟨e, he, hw, h1, h5, h6⟩
      · left
        refine ⟨z, hz, ⟨by rw [h1, hpt]; exact htm, by rw [h2, hpt]; exact hnt, by simp [h4, hk], ?_, by simp [hu], ?_, ?_⟩⟩
        · intro p _ _; rw [h5]; rfl
        · intro h; exact absurd h hnl
        · intro _ q hq; rw [h3] at hq; exact Or.inl hq
      · right
        exact ⟨e, he, hfailC hk e y u.path none rfl (by intro q h; cases h) (by intro q h; simp [cc1Out, hdT] at h) rfl hsub
          (fun _ h => h) (fun _ _ => rfl) hw h1 h5 h6⟩
  have hd : cmd.depsOnly = false := by simpa using hdT
  cases hk : effKind cmd.mode u.kind with
  | lib =>
    left
    exact pushCase (by rw [plan_eq hd rfl hk]; rfl) (by rw [isUnit_eq hd rfl hk]; cases cmd.mode <;> rfl)
      (by rw [planTemps_eq hd rfl hk]; cases cmd.mode <;> rfl) (by simp [hk])
  | obj =>
    left
    exact pushCase (by rw [plan_eq hd rfl hk]; rfl) (by rw [isUnit_eq hd rfl hk]; cases cmd.mode <;> rfl)
      (by rw [planTemps_eq hd rfl hk]; cases cmd.mode <;> rfl) (by simp [hk])
  | unknown =>
    right
    rw [plan_eq hd rfl hk]
    refine ⟨_, by simp only [planMK, List.cons_append, List.nil_append, doActs, doAct]; rfl, ?_⟩
    intro st hst
    simp [DState.emit, DState.exitWith] at hst
  | asm =>
    cases hm : cmd.mode with
    | E => rw [hm] at hk; have := effKind_E (k := u.kind) (by rw [hk]; simp); rw [hk] at this; cases this
    | S =>
      left
      have hpl : plan cmd (totalTemps cmd pre) u = [] := by rw [plan_eq hd hm hk]; rfl
      have hpt : planTemps cmd u = 0 := by rw [planTemps_eq hd hm hk]; rfl
      have hu : isUnit cmd u = false := by rw [isUnit_eq hd hm hk]; rfl
      rw [hpl]
      refine ⟨y, rfl, ⟨by rw [hpt]; exact htm, by rw [hpt]; exact hnt, by simp [hk], fun _ _ _ => rfl, by simp [hu], ?_, ?_⟩⟩
      · intro h; have := h.1; rw [hm] at this; cases this
      · intro _ q hq; exact Or.inl hq
    | c =>
      have hpl : plan cmd (totalTemps cmd pre) u = [.run .as (.path u.path) (some (.path (unitOutput cmd u)))] := by
        rw [plan_eq hd hm hk]; rfl
      have hpt : planTemps cmd u = 0 := by rw [planTemps_eq hd hm hk]; rfl
      have hu : isUnit cmd u = true := by rw [isUnit_eq hd hm hk]; rfl
      rw [hpl]
      rcases run_step env .as (.path u.path) (some (.path (unitOutput cmd u))) rest y u.path (some (unitOutput cmd u)) rfl rfl with
        ⟨z, hz, hw, h1, h2, h3, h4, h5⟩ | ⟨e, he, hw, h1, h5, h6⟩
      · left
        refine ⟨z, hz, ⟨by rw [h1, hpt]; exact htm, by rw [h2, hpt]; exact hnt, by simp [h4, hk], ?_, ?_, ?_, ?_⟩⟩
        · intro p _ hp; rw [h5, childEffect_ok hw]; exact FS.get_set_ne _ _ (hp hu)
        · intro _; rw [h5, childEffect_ok hw, FS.get_set_self]; simp [childOut, unitCls, hm]
        · intro h; have := h.1; rw [hm] at this; cases this
        · intro _ q hq; rw [h3] at hq; exact Or.inl hq
      · right
        refine ⟨e, he, ?_⟩
        intro st hst
        rw [h6] at hst
        simp at hst
    | link =>
      have hpl : plan cmd (totalTemps cmd pre) u =
          [.mktemp, .run .as (.path u.path) (some (.tmp (totalTemps cmd pre))), .pushLd (.tmp (totalTemps cmd pre))] := by
        rw [plan_eq hd hm hk]; rfl
      have hpt : planTemps cmd u = 1 := by rw [planTemps_eq hd hm hk]; rfl
      have hu : isUnit cmd u = false := by rw [isUnit_eq hd hm hk]; rfl
      rw [hpl]
      obtain ⟨t, ht⟩ : ∃ t, ts[totalTemps cmd pre]? = some t := ⟨ts[totalTemps cmd pre]'(by omega), List.getElem?_eq_getElem _⟩
      have htnew : t ∉ y.1.tmpfiles := by rw [htm]; exact not_mem_take_of_nodup S.nodup ht
      have htts : t ∈ ts := List.mem_of_getElem? ht
      obtain ⟨y1, hy1, a1, a2, a3, a4, a5⟩ := mk_step env
        (.run .as (.path u.path) (some (.tmp (totalTemps cmd pre))) :: .pushLd (.tmp (totalTemps cmd pre)) :: rest) y t
        (by rw [hnt]; exact S.fresh _ t ht)
      have hres : resolve y1.1.tmpfiles (.tmp (totalTemps cmd pre)) = some t := by
        rw [a1]; simpa using resolve_tmp_append (tf := y.1.tmpfiles) (l := [t]) (j := 0) hlen
      simp only [List.cons_append, List.nil_append]
      rw [hy1]
      rcases run_step env .as (.path u.path) (some (.tmp (totalTemps cmd pre))) (.pushLd (.tmp (totalTemps cmd pre)) :: rest)
          y1 u.path (some t) rfl (by simp [resolveOut, hres]) with
        ⟨y2, hy2, hw, b1, b2, b3, b4, b5⟩ | ⟨e, he, hw, b1, b5, b6⟩
      · left
        rw [hy2]
        obtain ⟨z, hz, c1, c2, c3, c4, c5⟩ := push_step env (.tmp (totalTemps cmd pre)) rest y2 t (by rw [b1]; exact hres)
        have hup : u.path ≠ t := fun e => hupts (e ▸ htts)
        refine ⟨z, hz, ⟨?_, by rw [c2, b2, a2, hnt, hpt], by simp [c4, b4, a4, hk], ?_, by simp [hu], ?_, ?_⟩⟩
        · rw [c1, b1, a1, htm, hpt, take_succ_of_get ht]
        · intro p hp _
          have hpt' : p ≠ t := by
            rcases hp with hp | hp
            · intro e; apply hp; rw [c1, b1, a1, e]; simp
            · intro e; exact htnew (e ▸ hp)
          rw [c5, b5, childEffect_ok hw, a5, FS.get_set_ne _ _ hpt', FS.get_set_ne _ _ hpt']
        · intro _
          refine ⟨t, by rw [c3, b3, a3], ?_, Or.inl (by rw [c1, b1, a1]; simp)⟩
          rw [c5, b5, childEffect_ok hw, a5]
          simp [FS.origins, FS.get_set_self, childOut, FS.get_set_ne _ _ hup]
        · intro h; exact absurd ⟨hm, hd⟩ h
      · right
        refine ⟨e, he, ?_⟩
        intro st hst
        rw [b6] at hst
        simp at hst
  | C =>
    have hfailC := hfailC hk
    cases hm : cmd.mode with
    | E =>
      have hpl : plan cmd (totalTemps cmd pre) u = [.run .cc1 (.path u.path) (cmd.out.map .path)] := by
        rw [plan_eq hd hm hk]; rfl
      have hpt : planTemps cmd u = 0 := by rw [planTemps_eq hd hm hk]; rfl
      have hu : isUnit cmd u = cmd.out.isSome := by rw [isUnit_eq hd hm hk]; rfl
      have hro : resolveOut y.1.tmpfiles (cmd.out.map Ref.path) = some cmd.out := by cases cmd.out <;> rfl
      rw [hpl]
      rcases run_step env .cc1 (.path u.path) (cmd.out.map .path) rest y u.path cmd.out rfl hro with
        ⟨z, hz, hw, h1, h2, h3, h4, h5⟩ | ⟨e, he, hw, h1, h5, h6⟩
      · left
        refine ⟨z, hz, ⟨by rw [h1, hpt]; exact htm, by rw [h2, hpt]; exact hnt, by simp [h4, hk], ?_, ?_, ?_, ?_⟩⟩
        · intro p _ hp
          rw [h5]
          cases ho : cmd.out with
          | none => rfl
          | some o =>
            rw [childEffect_ok hw]
            exact FS.get_set_ne _ _ (by have := hp (by rw [hu, ho]; rfl); simpa [unitOutput, ho] using this)
        · intro hu'
          rw [hu] at hu'
          cases ho : cmd.out with
          | none => rw [ho] at hu'; cases hu'
          | some o =>
            rw [h5, ho, childEffect_ok hw]
            simp [unitOutput, ho, FS.get_set_self, childOut, unitCls, hm, hmode]
        · intro h; have := h.1; rw [hm] at this; cases this
        · intro _ q hq; rw [h3] at hq; exact Or.inl hq
      · right
        exact ⟨e, he, hfailC e y u.path cmd.out rfl (by intro q h; right; simp [cc1Out, hd, hm, h])
          (by intro q h; simpa [cc1Out, hd, hm] using h) rfl hsub (fun _ h => h) (fun _ _ => rfl) hw h1 h5 h6⟩
    | S =>
      have hpl : plan cmd (totalTemps cmd pre) u = [.run .cc1 (.path u.path) (some (.path (unitOutput cmd u)))] := by
        rw [plan_eq hd hm hk]; rfl
      have hpt : planTemps cmd u = 0 := by rw [planTemps_eq hd hm hk]; rfl
      have hu : isUnit cmd u = true := by rw [isUnit_eq hd hm hk]; rfl
      rw [hpl]
      rcases run_step env .cc1 (.path u.path) (some (.path (unitOutput cmd u))) rest y u.path (some (unitOutput cmd u)) rfl rfl with
        ⟨z, hz, hw, h1, h2, h3, h4, h5⟩ | ⟨e, he, hw, h1, h5, h6⟩
      · left
        refine ⟨z, hz, ⟨by rw [h1, hpt]; exact htm, by rw [h2, hpt]; exact hnt, by simp [h4, hk], ?_, ?_, ?_, ?_⟩⟩
        · intro p _ hp; rw [h5, childEffect_ok hw]; exact FS.get_set_ne _ _ (hp hu)
        · intro _; rw [h5, childEffect_ok hw, FS.get_set_self]; simp [childOut, unitCls, hm, hmode]
        · intro h; have := h.1; rw [hm] at this; cases this
        · intro _ q hq; rw [h3] at hq; exact Or.inl hq
      · right
        exact ⟨e, he, hfailC e y u.path _ rfl (by intro q h; right; simpa [cc1Out, hd, hm] using h)
          (by intro q h; simpa [cc1Out, hd, hm] using h) rfl hsub (fun _ h => h) (fun _ _ => rfl) hw h1 h5 h6⟩
    | c =>
      have hpl : plan cmd (totalTemps cmd pre) u =
          [.mktemp, .run .cc1 (.path u.path) (some (.tmp (totalTemps cmd pre))),
           .run .as (.tmp (totalTemps cmd pre)) (some (.path (unitOutput cmd u)))] := by
        rw [plan_eq hd hm hk]; rfl
      have hpt : planTemps cmd u = 1 := by rw [planTemps_eq hd hm hk]; rfl
      have hu : isUnit cmd u = true := by rw [isUnit_eq hd hm hk]; rfl
      rw [hpl]
      obtain ⟨t, ht⟩ : ∃ t, ts[totalTemps cmd pre]? = some t := ⟨ts[totalTemps cmd pre]'(by omega), List.getElem?_eq_getElem _⟩
      have htnew : t ∉ y.1.tmpfiles := by rw [htm]; exact not_mem_take_of_nodup S.nodup ht
      have htts : t ∈ ts := List.mem_of_getElem? ht
      have hup : u.path ≠ t := fun e => hupts (e ▸ htts)
      have hot : unitOutput cmd u ≠ t := fun e => (hout hu).1 (e ▸ htts)
      obtain ⟨y1, hy1, a1, a2, a3, a4, a5⟩ := mk_step env
        (.run .cc1 (.path u.path) (some (.tmp (totalTemps cmd pre))) ::
         .run .as (.tmp (totalTemps cmd pre)) (some (.path (unitOutput cmd u))) :: rest) y t
        (by rw [hnt]; exact S.fresh _ t ht)
      have hres : resolve y1.1.tmpfiles (.tmp (totalTemps cmd pre)) = some t := by
        rw [a1]; simpa using resolve_tmp_append (tf := y.1.tmpfiles) (l := [t]) (j := 0) hlen
      have hs1 : ∀ x ∈ y1.1.tmpfiles, x ∈ ts := by
        intro x hx; rw [a1] at hx; simp only [List.mem_append, List.mem_singleton] at hx
        rcases hx with hx | rfl
        · exact hsub x hx
        · exact htts
      simp only [List.cons_append, List.nil_append]
      rw [hy1]
      rcases run_step env .cc1 (.path u.path) (some (.tmp (totalTemps cmd pre)))
          (.run .as (.tmp (totalTemps cmd pre)) (some (.path (unitOutput cmd u))) :: rest)
          y1 u.path (some t) rfl (by simp [resolveOut, hres]) with
        ⟨y2, hy2, hw, b1, b2, b3, b4, b5⟩ | ⟨e, he, hw, b1, b5, b6⟩
      · rw [hy2]
        rcases run_step env .as (.tmp (totalTemps cmd pre)) (some (.path (unitOutput cmd u))) rest
            y2 t (some (unitOutput cmd u)) (by rw [b1]; exact hres) rfl with
          ⟨z, hz, hw2, c1, c2, c3, c4, c5⟩ | ⟨e, he, hw2, c1, c5, c6⟩
        · left
          refine ⟨z, hz, ⟨?_, by rw [c2, b2, a2, hnt, hpt], by simp [c4, b4, a4, hk], ?_, ?_, ?_, ?_⟩⟩
          · rw [c1, b1, a1, htm, hpt, take_succ_of_get ht]
          · intro p hp hpo
            have hpt' : p ≠ t := by
              rcases hp with hp | hp
              · intro e; apply hp; rw [c1, b1, a1, e]; simp
              · intro e; exact htnew (e ▸ hp)
            rw [c5, childEffect_ok hw2, FS.get_set_ne _ _ (hpo hu), b5, childEffect_ok hw, a5,
              FS.get_set_ne _ _ hpt', FS.get_set_ne _ _ hpt']
          · intro _
            rw [c5, childEffect_ok hw2, FS.get_set_self, b5, childEffect_ok hw, a5]
            simp [FS.origins, FS.get_set_self, childOut, unitCls, hm, FS.get_set_ne _ _ hup]
          · intro h; have := h.1; rw [hm] at this; cases this
          · intro _ q hq; rw [c3, b3, a3] at hq; exact Or.inl hq
        · right
          refine ⟨e, he, ?_⟩
          intro st hst
          rw [c6] at hst
          simp at hst
      · right
        refine ⟨e, he, hfailC e y1 u.path (some t) rfl (by intro q h; injection h with h; left; rw [a1, ← h]; simp)
          (by intro q h; simp [cc1Out, hd, hm] at h) a4 hs1 (fun x hx => by rw [a1]; simp [hx]) ?_ hw b1 b5 b6⟩
        intro p hp
        rw [a5]
        exact FS.get_set_ne _ _ (fun e => hp (by rw [a1, e]; simp))
    | link =>
      have hpl : plan cmd (totalTemps cmd pre) u =
          [.mktemp, .mktemp, .run .cc1 (.path u.path) (some (.tmp (totalTemps cmd pre))),
           .run .as (.tmp (totalTemps cmd pre)) (some (.tmp (totalTemps cmd pre + 1))),
           .pushLd (.tmp (totalTemps cmd pre + 1))] := by
        rw [plan_eq hd hm hk]; rfl
      have hpt : planTemps cmd u = 2 := by rw [planTemps_eq hd hm hk]; rfl
      have hu : isUnit cmd u = false := by rw [isUnit_eq hd hm hk]; rfl
      rw [hpl]
      obtain ⟨t, ht⟩ : ∃ t, ts[totalTemps cmd pre]? = some t := ⟨ts[totalTemps cmd pre]'(by omega), List.getElem?_eq_getElem _⟩
      obtain ⟨t', ht'⟩ : ∃ t, ts[totalTemps cmd pre + 1]? = some t :=
        ⟨ts[totalTemps cmd pre + 1]'(by omega), List.getElem?_eq_getElem _⟩
      have htnew : t ∉ y.1.tmpfiles := by rw [htm]; exact not_mem_take_of_nodup S.nodup ht
      have htnew' : t' ∉ ts.take (totalTemps cmd pre + 1) := not_mem_take_of_nodup S.nodup ht'
      rw [take_succ_of_get ht] at htnew'
      have htt' : t' ≠ t := fun e => htnew' (by rw [e]; simp)
      have htnew'' : t' ∉ y.1.tmpfiles := by rw [htm]; exact fun h => htnew' (by simp [h])
      have htts : t ∈ ts := List.mem_of_getElem? ht
      have htts' : t' ∈ ts := List.mem_of_getElem? ht'
      have hup : u.path ≠ t := fun e => hupts (e ▸ htts)
      have hup' : u.path ≠ t' := fun e => hupts (e ▸ htts')
      obtain ⟨y1, hy1, a1, a2, a3, a4, a5⟩ := mk_step env
        (.mktemp :: .run .cc1 (.path u.path) (some (.tmp (totalTemps cmd pre))) ::
         .run .as (.tmp (totalTemps cmd pre)) (some (.tmp (totalTemps cmd pre + 1))) ::
         .pushLd (.tmp (totalTemps cmd pre + 1)) :: rest) y t
        (by rw [hnt]; exact S.fresh _ t ht)
      obtain ⟨y1', hy1', a1', a2', a3', a4', a5'⟩ := mk_step env
        (.run .cc1 (.path u.path) (some (.tmp (totalTemps cmd pre))) ::
         .run .as (.tmp (totalTemps cmd pre)) (some (.tmp (totalTemps cmd pre + 1))) ::
         .pushLd (.tmp (totalTemps cmd pre + 1)) :: rest) y1 t'
        (by rw [a2, hnt]; exact S.fresh _ t' ht')
      have htf : y1'.1.tmpfiles = y.1.tmpfiles ++ [t, t'] := by rw [a1', a1]; simp
      have hres : resolve y1'.1.tmpfiles (.tmp (totalTemps cmd pre)) = some t := by
        rw [htf]; simpa using resolve_tmp_append (tf := y.1.tmpfiles) (l := [t, t']) (j := 0) hlen
      have hres' : resolve y1'.1.tmpfiles (.tmp (totalTemps cmd pre + 1)) = some t' := by
        rw [htf]; simpa using resolve_tmp_append (tf := y.1.tmpfiles) (l := [t, t']) (j := 1) hlen
      have hs1 : ∀ x ∈ y1'.1.tmpfiles, x ∈ ts := by
        intro x hx; rw [htf] at hx; simp only [List.mem_append, List.mem_cons, List.not_mem_nil, or_false] at hx
        rcases hx with hx | rfl | rfl
        · exact hsub x hx
        · exact htts
        · exact htts'
      simp only [List.cons_append, List.nil_append]
      rw [hy1, hy1']
      rcases run_step env .cc1 (.path u.path) (some (.tmp (totalTemps cmd pre)))
          (.run .as (.tmp (totalTemps cmd pre)) (some (.tmp (totalTemps cmd pre + 1))) ::
           .pushLd (.tmp (totalTemps cmd pre + 1)) :: rest)
          y1' u.path (some t) rfl (by simp [resolveOut, hres]) with
        ⟨y2, hy2, hw, b1, b2, b3, b4, b5⟩ | ⟨e, he, hw, b1, b5, b6⟩
      · rw [hy2]
        rcases run_step env .as (.tmp (totalTemps cmd pre)) (some (.tmp (totalTemps cmd pre + 1)))
            (.pushLd (.tmp (totalTemps cmd pre + 1)) :: rest)
            y2 t (some t') (by rw [b1]; exact hres) (by rw [b1]; simp [resolveOut, hres']) with
          ⟨y3, hy3, hw2, c1, c2, c3, c4, c5⟩ | ⟨e, he, hw2, c1, c5, c6⟩
        · left
          rw [hy3]
          obtain ⟨z, hz, d1, d2, d3, d4, d5⟩ := push_step env (.tmp (totalTemps cmd pre + 1)) rest y3 t'
            (by rw [c1, b1]; exact hres')
          refine ⟨z, hz, ⟨?_, by rw [d2, c2, b2, a2', a2, hnt, hpt], by simp [d4, c4, b4, a4', a4, hk], ?_,
            by simp [hu], ?_, ?_⟩⟩
          · rw [d1, c1, b1, htf, htm, hpt, show totalTemps cmd pre + 2 = (totalTemps cmd pre + 1) + 1 from rfl,
              take_succ_of_get ht', take_succ_of_get ht]
            simp
          · intro p hp _
            have hpt' : p ≠ t ∧ p ≠ t' := by
              rcases hp with hp | hp
              · constructor <;> (intro e; apply hp; rw [d1, c1, b1, htf, e]; simp)
              · exact ⟨fun e => htnew (e ▸ hp), fun e => htnew'' (e ▸ hp)⟩
            rw [d5, c5, childEffect_ok hw2, FS.get_set_ne _ _ hpt'.2, b5, childEffect_ok hw,
              FS.get_set_ne _ _ hpt'.1, a5', FS.get_set_ne _ _ hpt'.2, a5, FS.get_set_ne _ _ hpt'.1]
          · intro _
            refine ⟨t', by rw [d3, c3, b3, a3', a3], ?_, Or.inl (by rw [d1, c1, b1, htf]; simp)⟩
            rw [d5, c5, childEffect_ok hw2, b5, childEffect_ok hw, a5', a5]
            simp [FS.origins, FS.get_set_self, childOut, FS.get_set_ne _ _ hup, FS.get_set_ne _ _ hup',
              FS.get_set_ne _ _ htt'.symm]
          · intro h; exact absurd ⟨hm, hd⟩ h
        · right
          refine ⟨e, he, ?_⟩
          intro st hst
          rw [c6] at hst
          simp at hst
      · right
        refine ⟨e, he, hfailC e y1' u.path (some t) rfl (by intro q h; injection h with h; left; rw [htf, ← h]; simp)
          (by intro q h; simp [cc1Out, hd, hm] at h) (by rw [a4', a4]) hs1 (fun x hx => by rw [htf]; simp [hx]) ?_ hw b1 b5 b6⟩
        intro p hp
        rw [htf] at hp
        rw [a5', a5]
        rw [FS.get_set_ne _ _ (fun e => hp (by rw [e]; simp)), FS.get_set_ne _ _ (fun e => hp (by rw [e]; simp))]

omit [DecidableEq P] in
omit S hin in
theorem mem_take_mono {l : List P} {a b : Nat} (h : a ≤ b) {x : P} (hx : x ∈ l.take a) : x ∈ l.take b := by
  have : (l.take b).take a = l.take a := by rw [List.take_take, Nat.min_eq_left h]
  rw [← this] at hx
  exact List.mem_of_mem_take hx

/-- earlier units' outputs differ from the output of `u` -/
theorem unit_out_distinct (hu : isUnit cmd u = true) :
    ∀ v ∈ pre, isUnit cmd v = true → unitOutput cmd v ≠ unitOutput cmd u := by
  have hnd := S.reqNodup
  unfold requested at hnd
  rw [if_neg (by simp [isUnit_deps hu]), if_neg (isUnit_not_link hu), hin, List.filter_append, List.map_append] at hnd
  simp only [List.filter_cons, hu, if_true, List.map_cons] at hnd
  intro v hv hvu e
  have h1 : unitOutput cmd v ∈ (pre.filter (isUnit cmd)).map (unitOutput cmd) :=
    List.mem_map.mpr ⟨v, List.mem_filter.mpr ⟨hv, hvu⟩, rfl⟩
  exact (List.nodup_append.mp hnd).2.2 _ h1 _ (by simp) e

theorem loopInv_step (y z : DState P × FS P) (hI : LoopInv cmd fs₀ ts pre y)
    (hU : UnitOK env cmd ts (totalTemps cmd pre) u y z) : LoopInv cmd fs₀ ts (pre ++ [u]) z := by
  obtain ⟨hn, hupts, hout⟩ := unit_local env cmd fs₀ ts S pre u post hin
  have huin : u ∈ cmd.inputs := by rw [hin]; simp
  have htot : totalTemps cmd (pre ++ [u]) = totalTemps cmd pre + planTemps cmd u := by
    rw [totalTemps_append]; simp [totalTemps]
  have hzsub : ∀ x ∈ z.1.tmpfiles, x ∈ ts := fun x hx => by rw [hU.tmps] at hx; exact List.mem_of_mem_take hx
  have hyz : ∀ x ∈ y.1.tmpfiles, x ∈ z.1.tmpfiles := fun x hx => by
    rw [hI.tmps] at hx; rw [hU.tmps]; exact mem_take_mono (Nat.le_add_right _ _) hx
  have hreq_ts : ∀ v ∈ cmd.inputs, isUnit cmd v = true → unitOutput cmd v ∉ ts :=
    fun v hv hvu ht => S.notReq _ ht (unitOutput_requested hv hvu)
  have hpre_in : ∀ v ∈ pre, v ∈ cmd.inputs := fun v hv => by rw [hin]; simp [hv]
  have hupath : y.2.origins u.path = fs₀.origins u.path := by
    apply FS.origins_congr
    apply hI.frame
    · intro h; exact hupts (by rw [hI.tmps] at h; exact List.mem_of_mem_take h)
    · intro v hv hvu e
      exact S.reqNotInput _ (unitOutput_requested (hpre_in v hv) hvu) (e ▸ List.mem_map.mpr ⟨u, huin, rfl⟩)
  refine ⟨by rw [htot]; exact hU.tmps, by rw [htot]; exact hU.ntemp, ?_, ?_, ?_, ?_, ?_⟩
  · rw [hU.ncc1, hI.ncc1, cCount_append]
    simp only [cCount, List.filter_cons, List.filter_nil]
    by_cases hk : effKind cmd.mode u.kind = .C <;> simp [hk]
  · intro v hv hvu
    rcases List.mem_append.mp hv with hv | hv
    · rw [hU.frame _ (Or.inl (fun h => hreq_ts v (hpre_in v hv) hvu (hzsub _ h)))
        (fun hu => unit_out_distinct env cmd fs₀ ts S pre u post hin hu v hv hvu)]
      exact hI.units v hv hvu
    · simp only [List.mem_singleton] at hv
      subst hv
      rw [hU.unit hvu, hupath]
  · intro p hp hne
    rw [hU.frame p (Or.inl hp) (fun hu e => hne u (by simp) hu e.symm)]
    exact hI.frame p (fun h => hp (hyz p h)) (fun v hv hvu => hne v (by simp [hv]) hvu)
  · intro hm
    obtain ⟨q, hq1, hq2, _⟩ := hU.ld hm
    rw [hq1, List.map_append, List.map_append, ← hI.ldOrig hm]
    congr 1
    · apply List.map_congr_left
      intro x hx
      apply FS.origins_congr
      apply hU.frame
      · rcases hI.ldWhere x hx with h | h
        · exact Or.inr h
        · exact Or.inl (fun hz => S.notInput x (hzsub x hz) h)
      · intro hu; exact absurd hm (isUnit_not_linking hu)
    · simp [hq2, hupath]
  · intro q hq
    by_cases hm : linking cmd
    · obtain ⟨q', hq1, _, hq3⟩ := hU.ld hm
      rw [hq1] at hq
      rcases List.mem_append.mp hq with h | h
      · rcases hI.ldWhere q h with h | h
        · exact Or.inl (hyz q h)
        · exact Or.inr h
      · simp only [List.mem_singleton] at h
        subst h
        rcases hq3 with h | h
        · exact Or.inl h
        · exact Or.inr (h ▸ List.mem_map.mpr ⟨u, huin, rfl⟩)
    · rcases hU.ld' hm q hq with h | h
      · rcases hI.ldWhere q h with h | h
        · exact Or.inl (hyz q h)
        · exact Or.inr h
      · exact Or.inr (h ▸ List.mem_map.mpr ⟨u, huin, rfl⟩)

end unit

/-! ### the whole loop -/

/-- what is known about a run that ended in `exit(1)` right after a failing front end -/
def FailInfo (env : Env P) (cmd : Cmd P) (fs₀ : FS P) (ts : List P) (e : DState P × FS P) : Prop :=
  ∀ st, e.1.log.getLast? = some (.wait .cc1 st) →
    ∃ (pre : List (Input P)) (u : Input P) (post : List (Input P)) (y : DState P × FS P),
      cmd.inputs = pre ++ u :: post ∧ LoopInv cmd fs₀ ts pre y ∧ UnitFail env cmd ts u y e

/-- what is known about a run that reached `return 0` -/
def Final (cmd : Cmd P) (fs₀ : FS P) (ts : List P) (z : DState P × FS P) : Prop :=
  ∃ y : DState P × FS P, LoopInv cmd fs₀ ts cmd.inputs y ∧ z.1.tmpfiles = y.1.tmpfiles ∧
    z.2 = (if cmd.mode = .link ∧ cmd.depsOnly = false ∧ y.1.ldArgs ≠ [] then
             y.2.set (cmd.out.getD cmd.aout) ⟨.exe, y.1.ldArgs.flatMap (fun p => y.2.origins p)⟩
           else y.2)

theorem loop_lemma (env : Env P) (cmd : Cmd P) (fs₀ : FS P) (ts : List P) (S : Setup env cmd fs₀ ts) :
    ∀ (post pre : List (Input P)) (y : DState P × FS P), cmd.inputs = pre ++ post →
      LoopInv cmd fs₀ ts pre y →
      match doActs env (compileLoop cmd (totalTemps cmd pre) post) y with
      | .ok z => Final cmd fs₀ ts z
      | .error e => FailInfo env cmd fs₀ ts e := by
  intro post
  induction post with
  | nil =>
    intro pre y hin hI
    have hpre : pre = cmd.inputs := by simpa using hin.symm
    subst hpre
    simp only [compileLoop]
    by_cases hm : cmd.mode = .link ∧ cmd.depsOnly = false
    · simp only [hm, and_self, if_true, doActs, doAct]
      by_cases hl : y.1.ldArgs.isEmpty = true
      · simp only [hl, if_true]
        refine ⟨y, hI, rfl, ?_⟩
        have : y.1.ldArgs = [] := by simpa using hl
        simp [this]
      · simp only [hl, if_false]
        by_cases hw : (env.sched Prog.ld y.1.nLd).status.wait = 0
        · simp only [hw, if_true]
          refine ⟨y, hI, rfl, ?_⟩
          have : y.1.ldArgs ≠ [] := by simpa using hl
          simp [hm.1, hm.2, this, childEffect, hw, childOut]
        · simp only [hw, if_false]
          intro st hst
          simp [DState.emit, DState.bump, DState.exitWith] at hst
    · simp only [hm, if_false, doActs]
      refine ⟨y, hI, rfl, ?_⟩
      rw [if_neg (fun h => hm ⟨h.1, h.2.1⟩)]
  | cons u post ih =>
    intro pre y hin hI
    simp only [compileLoop]
    rcases unit_step env cmd fs₀ ts S pre u post hin (compileLoop cmd (totalTemps cmd pre + planTemps cmd u) post) y hI with
      ⟨z, hz, hU⟩ | ⟨e, he, hF⟩
    · rw [hz]
      have hI' := loopInv_step env cmd fs₀ ts S pre u post hin y z hI hU
      have htot : totalTemps cmd (pre ++ [u]) = totalTemps cmd pre + planTemps cmd u := by
        rw [totalTemps_append]; simp [totalTemps]
      have := ih (pre ++ [u]) z (by rw [hin]; simp) hI'
      rw [htot] at this
      exact this
    · rw [he]
      intro st hst
      exact ⟨pre, u, post, y, hin, hI, hF⟩

theorem loopInv_init (cmd : Cmd P) (fs₀ : FS P) (ts : List P) : LoopInv cmd fs₀ ts [] (init cmd, fs₀) where
  tmps := by simp [init, totalTemps]
  ntemp := rfl
  ncc1 := rfl
  units := by simp
  frame := fun _ _ _ => rfl
  ldOrig := fun _ => rfl
  ldWhere := by simp [init]

theorem compileLoop_mkCount (cmd : Cmd P) (n : Nat) (l : List (Input P)) :
    mkCount (compileLoop cmd n l) = totalTemps cmd l := by
  induction l generalizing n with
  | nil => simp only [compileLoop, totalTemps]; split <;> rfl
  | cons i r ih => simp [compileLoop, mkCount_append, plan_mkCount, ih, totalTemps]

/-- commands the driver does not reject outright -/
def Accepted (cmd : Cmd P) : Prop :=
  cmd.inputs ≠ [] ∧ multiO cmd = false ∧ ∀ u ∈ cmd.inputs, effKind cmd.mode u.kind ≠ .unknown

theorem compile_accepted {cmd : Cmd P} (h : Accepted cmd) : compile cmd = compileLoop cmd 0 cmd.inputs := by
  unfold compile
  have h1 : cmd.inputs.isEmpty = false := by
    cases hi : cmd.inputs with
    | nil => exact absurd hi h.1
    | cons a r => rfl
  simp [h1, h.2.1]

theorem plan_no_fail (cmd : Cmd P) (n : Nat) (u : Input P) (why : DrvErr)
    (h : Act.fail why ∈ plan cmd n u) : effKind cmd.mode u.kind = .unknown := by
  cases hd : cmd.depsOnly with
  | true =>
    cases hk : effKind cmd.mode u.kind <;>
      first | rfl | (rw [plan_deps hd hk] at h; simp [planD] at h)
  | false =>
    cases hk : effKind cmd.mode u.kind <;> cases hm : cmd.mode <;>
      first | rfl | (rw [plan_eq hd hm hk] at h; simp [planMK] at h)

theorem compileLoop_no_fail (cmd : Cmd P) (n : Nat) (l : List (Input P)) (why : DrvErr)
    (h : Act.fail why ∈ compileLoop cmd n l) : ∃ u ∈ l, effKind cmd.mode u.kind = .unknown := by
  induction l generalizing n with
  | nil => simp only [compileLoop] at h; split at h <;> simp at h
  | cons i r ih =>
    simp only [compileLoop, List.mem_append] at h
    rcases h with h | h
    · exact ⟨i, by simp, plan_no_fail cmd n i why h⟩
    · obtain ⟨u, hu, hk⟩ := ih _ h
      exact ⟨u, by simp [hu], hk⟩

end ChibiVerif.DriverProc
