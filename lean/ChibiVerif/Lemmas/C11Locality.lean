/-
Locality of the literal readers (Model/Literals.lean `lexLiteral`): the literal token at the start of a text is
determined by the first line of the text — every loop of tokenize()'s literal arms stops at the first newline at the
latest — with two exceptions that the statements carry as hypotheses:
  * `string_literal_end` steps over a newline that directly follows a backslash (`if (*p == '\\' && p[1]) p++;`);
  * `read_char_literal` looks for the closing quote with `strchr`, which does not stop at a newline.
Used by Props/C11.lean `C11_text_first_line`, `C11_text_transparent`.
-/
import ChibiVerif.Lemmas.LiteralsReaderLemmas

set_option linter.unusedSimpArgs false
set_option linter.unusedVariables false

namespace ChibiVerif.Lemmas.Locality
open ChibiVerif.Gen.Literals
open ChibiVerif.Spec.Literals
open ChibiVerif.Literals
open ChibiVerif.Lemmas.Literals
open ChibiVerif.Lemmas.Readers

/-- two texts that agree up to and including a newline at index `m` -/
structure Agree (x y : List Byte) (m : Nat) : Prop where
  eq : ∀ k, k ≤ m → byteAt x k = byteAt y k
  lf : byteAt x m = 10#8
  lx : m < x.length
  ly : m < y.length

theorem Agree.lfy {x y : List Byte} {m : Nat} (h : Agree x y m) : byteAt y m = 10#8 := by
  rw [← h.eq m (Nat.le_refl _)]; exact h.lf

theorem agree_append (l r1 r2 : List Byte) : Agree (l ++ 10#8 :: r1) (l ++ 10#8 :: r2) l.length := by
  refine ⟨?_, ?_, by simp, by simp⟩
  · intro k hk
    by_cases h : k < l.length
    · rw [byteAt_append_left _ _ _ h, byteAt_append_left _ _ _ h]
    · have : k = l.length + 0 := by omega
      rw [this, byteAt_append_right, byteAt_append_right]; rfl
  · have := byteAt_append_right l (10#8 :: r1) 0
    simp only [Nat.add_zero] at this
    rw [this]; rfl

theorem take_agree (l r1 r2 : List Byte) (n : Nat) (hn : n ≤ l.length) :
    (l ++ 10#8 :: r1).take n = (l ++ 10#8 :: r2).take n := by
  rw [List.take_append_of_le_length hn, List.take_append_of_le_length hn]

theorem Agree.drop {x y : List Byte} {m : Nat} (h : Agree x y m) (j : Nat) (hj : j ≤ m) :
    Agree (x.drop j) (y.drop j) (m - j) := by
  refine ⟨?_, ?_, ?_, ?_⟩
  · intro k hk
    rw [byteAt_drop, byteAt_drop]
    exact h.eq _ (by omega)
  · rw [byteAt_drop]
    have : j + (m - j) = m := by omega
    rw [this]; exact h.lf
  · have := h.lx; simp only [List.length_drop]; omega
  · have := h.ly; simp only [List.length_drop]; omega

-- ------------------------------------------------------------------ facts about the newline byte

theorem lf_facts : isXDigit (10#8 : Byte) = false ∧ isOctDigit (10#8 : Byte) = false ∧ isDigit (10#8 : Byte) = false ∧
    isAlnum (10#8 : Byte) = false ∧ (10#8 : Byte) ≠ 120#8 ∧ (10#8 : Byte) ≠ 92#8 ∧ (10#8 : Byte) ≠ 34#8 ∧
    (10#8 : Byte) ≠ 39#8 ∧ (10#8 : Byte) ≠ 0#8 ∧ (10#8 : Byte) ≠ 46#8 := by decide

-- ------------------------------------------------------------------ matchText (prefix tests)

theorem matchText_agree {x y : List Byte} {m : Nat} (h : Agree x y m) : ∀ (pat : List Nat) (k : Nat), k ≤ m →
    (∀ c ∈ pat, (BitVec.ofNat 8 c : Byte) ≠ 10#8) → matchText x k pat false = matchText y k pat false := by
  intro pat
  induction pat with
  | nil => intro k _ _; rfl
  | cons c cs ih =>
    intro k hk hpat
    have ha := h.eq k hk
    have hc : (BitVec.ofNat 8 c : Byte) ≠ 10#8 := hpat c (by simp)
    simp only [matchText, ha]
    by_cases hkm : k = m
    · subst hkm
      have hl := h.lfy
      have : (byteAt y k == (BitVec.ofNat 8 c : Byte)) = false := by
        rw [hl]; simpa using fun h' => hc h'.symm
      simp [this]
    · rw [ih (k + 1) (by omega) (fun c' hc' => hpat c' (List.mem_cons_of_mem _ hc'))]

/-- a matched pattern without a newline byte lies before the newline -/
theorem matchText_before {x : List Byte} {m : Nat} (hlf : byteAt x m = 10#8) : ∀ (pat : List Nat) (k : Nat), k ≤ m →
    (∀ c ∈ pat, (BitVec.ofNat 8 c : Byte) ≠ 10#8) → matchText x k pat false = true → k + pat.length ≤ m := by
  intro pat
  induction pat with
  | nil => intro k hk _ _; simpa using hk
  | cons c cs ih =>
    intro k hk hpat hm
    have hc : (BitVec.ofNat 8 c : Byte) ≠ 10#8 := hpat c (by simp)
    simp only [matchText, Bool.and_eq_true, if_false, Bool.false_eq_true, beq_iff_eq] at hm
    have hkm : k ≠ m := by
      intro e; subst e
      rw [hlf] at hm
      exact hc hm.1.2.symm
    have := ih (k + 1) (by omega) (fun c' hc' => hpat c' (List.mem_cons_of_mem _ hc')) hm.2
    simp only [List.length_cons]; omega

-- ------------------------------------------------------------------ decode_utf8

theorem lf_not_cont : (((10#8 : Byte).zeroExtend 32).sshiftRight 6 ≠ 2#32) := by decide

theorem decodeCont_agree {x y : List Byte} {n : Nat} (heq : ∀ k, k ≤ n → byteAt x k = byteAt y k)
    (hlf : byteAt x n = 10#8) : ∀ (fuel i : Nat) (c : BitVec 32), i ≤ n →
    decodeCont x fuel i c = decodeCont y fuel i c := by
  intro fuel
  induction fuel with
  | zero => intro i c _; rfl
  | succ fuel ih =>
    intro i c hi
    have e := heq i hi
    simp only [decodeCont, e]
    split
    · rfl
    · rename_i hc
      have hin : i ≠ n := by
        intro e'; subst e'
        rw [← e, hlf] at hc
        exact hc lf_not_cont
      exact ih (i + 1) _ (by omega)

theorem decodeUtf8_agree {x y : List Byte} {n : Nat} (h : Agree x y n) : decodeUtf8 x = decodeUtf8 y := by
  have e0 := h.eq 0 (Nat.zero_le _)
  by_cases hn : n = 0
  · subst hn
    have hx := h.lf
    have hy := h.lfy
    simp [decodeUtf8, hx, hy]
  · have el : decodeLead x = decodeLead y := by simp only [decodeLead, e0]
    unfold decodeUtf8
    rw [el, e0]
    split
    · rfl
    · cases decodeLead y with
      | none => rfl
      | some v =>
        obtain ⟨len, c⟩ := v
        simp only
        rw [decodeCont_agree h.eq h.lf _ 1 _ (by omega)]

theorem decodeAt_agree {x y : List Byte} {m : Nat} (h : Agree x y m) (i : Nat) (hi : i ≤ m) :
    decodeAt x i = decodeAt y i := by
  unfold decodeAt
  rw [decodeUtf8_agree (h.drop i hi)]

-- ------------------------------------------------------------------ read_escaped_char

theorem hexLoop_agree {x y : List Byte} {n : Nat} (heq : ∀ k, k ≤ n → byteAt x k = byteAt y k)
    (hlf : byteAt x n = 10#8) : ∀ (f1 f2 i : Nat) (c : BitVec 32), i ≤ n → n - i < f1 → n - i < f2 →
    hexLoop x f1 i c = hexLoop y f2 i c := by
  intro f1
  induction f1 with
  | zero => intro f2 i c _ h1 _; omega
  | succ f1 ih =>
    intro f2 i c hi h1 h2
    cases f2 with
    | zero => omega
    | succ f2 =>
      have e := heq i hi
      simp only [hexLoop, e]
      by_cases hin : i = n
      · subst hin
        have : byteAt y i = 10#8 := by rw [← e]; exact hlf
        simp [this, lf_facts.1]
      · split
        · exact ih f2 (i + 1) _ (by omega) (by omega) (by omega)
        · rfl

theorem readEscapedChar_agree {x y : List Byte} {n : Nat} (h : Agree x y n) :
    readEscapedChar x = readEscapedChar y := by
  have e0 := h.eq 0 (Nat.zero_le _)
  have hy := h.lfy
  have lx := h.lx
  have ly := h.ly
  obtain ⟨f1, f2, f3, f4, f5, f6, f7, f8, f9, f10⟩ := lf_facts
  unfold readEscapedChar
  simp only [e0]
  by_cases ho : isOctDigit (byteAt y 0) = true
  · have hn1 : 1 ≤ n := by
      apply Nat.pos_of_ne_zero; intro e; subst e; rw [hy] at ho; simp [f2] at ho
    have e1 := h.eq 1 hn1
    simp only [ho, if_true, e1]
    by_cases ho1 : isOctDigit (byteAt y 1) = true
    · have hn2 : 2 ≤ n := by
        apply Nat.lt_of_le_of_ne hn1; intro e; subst e; rw [hy] at ho1; simp [f2] at ho1
      have e2 := h.eq 2 hn2
      simp only [ho1, if_true, e2]
    · simp only [ho1, if_false, Bool.false_eq_true]
  · simp only [ho, if_false, Bool.false_eq_true]
    by_cases hx : byteAt y 0 = 120#8
    · have hn1 : 1 ≤ n := by
        apply Nat.pos_of_ne_zero; intro e; subst e; rw [hy] at hx; exact f5 hx
      have e1 := h.eq 1 hn1
      simp only [hx, if_true, e1]
      split
      · rfl
      · rw [hexLoop_agree h.eq h.lf (x.length + 1) (y.length + 1) 1 0 hn1 (by omega) (by omega)]
    · simp only [hx, if_false, Bool.false_eq_true]

-- ------------------------------------------------------------------ string_literal_end

theorem strEnd_agree {x y : List Byte} {m : Nat} (h : Agree x y m) (hb : m = 0 ∨ byteAt x (m - 1) ≠ 92#8) :
    ∀ (f1 f2 i : Nat), i ≤ m → m - i < f1 → m - i < f2 →
    strEnd x f1 i = strEnd y f2 i ∧ ∀ e, strEnd x f1 i = .ok e → e < m := by
  obtain ⟨g1, g2, g3, g4, g5, g6, g7, g8, g9, g10⟩ := lf_facts
  intro f1
  induction f1 with
  | zero => intro f2 i _ h1 _; omega
  | succ f1 ih =>
    intro f2 i hi h1 h2
    cases f2 with
    | zero => omega
    | succ f2 =>
      have e := h.eq i hi
      by_cases him : i = m
      · subst him
        have hx := h.lf
        have hy := h.lfy
        simp [strEnd, hx, hy, g7]
      · have e1 := h.eq (i + 1) (by omega)
        simp only [strEnd, e, e1]
        split
        · rename_i hq
          refine ⟨rfl, ?_⟩
          intro e' he'
          have : i = e' := by simpa using he'
          omega
        · split
          · exact ⟨rfl, fun e' he' => by simp at he'⟩
          · split
            · rename_i hbs
              have hi2 : i + 2 ≤ m := by
                rcases hb with hb | hb
                · omega
                · have : i ≠ m - 1 := by
                    intro e'; rw [← e', e] at hb; exact hb hbs.1
                  omega
              exact ih f2 (i + 2) hi2 (by omega) (by omega)
            · exact ih f2 (i + 1) (by omega) (by omega) (by omega)

-- ------------------------------------------------------------------ the reader loops

theorem narrowLoop_agree {x y : List Byte} {m : Nat} (h : Agree x y m) (endp : Nat) (he : endp ≤ m) :
    ∀ (f i : Nat) (acc : List Nat), narrowLoop x endp f i acc = narrowLoop y endp f i acc := by
  intro f
  induction f with
  | zero => intro i acc; rfl
  | succ f ih =>
    intro i acc
    simp only [narrowLoop]
    by_cases hi : i < endp
    · have e := h.eq i (by omega)
      have er := readEscapedChar_agree (h.drop (i + 1) (by omega))
      simp only [hi, if_true, e, er]
      split
      · cases readEscapedChar (y.drop (i + 1)) with
        | error err => rfl
        | ok v => obtain ⟨c, n⟩ := v; simp only [bind, Except.bind]; exact ih _ _
      · exact ih _ _
    · simp only [hi, if_false]

theorem utf16Loop_agree {x y : List Byte} {m : Nat} (h : Agree x y m) (endp : Nat) (he : endp ≤ m) :
    ∀ (f i : Nat) (acc : List Nat), utf16Loop x endp f i acc = utf16Loop y endp f i acc := by
  intro f
  induction f with
  | zero => intro i acc; rfl
  | succ f ih =>
    intro i acc
    rw [utf16Loop, utf16Loop]
    by_cases hi : i < endp
    · have e := h.eq i (by omega)
      have er := readEscapedChar_agree (h.drop (i + 1) (by omega))
      have ed := decodeAt_agree h i (by omega)
      rw [if_pos hi, if_pos hi, e, er, ed]
      by_cases hq : byteAt y i = 92#8
      · rw [if_pos hq, if_pos hq]
        cases readEscapedChar (y.drop (i + 1)) with
        | error err => simp only [bind, Except.bind]
        | ok v => obtain ⟨c, n⟩ := v; simp only [bind, Except.bind]; exact ih _ _
      · rw [if_neg hq, if_neg hq]
        cases decodeAt y i with
        | error err => simp only [bind, Except.bind]
        | ok v => obtain ⟨c, n⟩ := v; simp only [bind, Except.bind]; exact ih _ _
    · rw [if_neg hi, if_neg hi]

theorem utf32Loop_agree {x y : List Byte} {m : Nat} (h : Agree x y m) (endp : Nat) (he : endp ≤ m) :
    ∀ (f i : Nat) (acc : List Nat), utf32Loop x endp f i acc = utf32Loop y endp f i acc := by
  intro f
  induction f with
  | zero => intro i acc; rfl
  | succ f ih =>
    intro i acc
    rw [utf32Loop, utf32Loop]
    by_cases hi : i < endp
    · have e := h.eq i (by omega)
      have er := readEscapedChar_agree (h.drop (i + 1) (by omega))
      have ed := decodeAt_agree h i (by omega)
      rw [if_pos hi, if_pos hi, e, er, ed]
      by_cases hq : byteAt y i = 92#8
      · rw [if_pos hq, if_pos hq]
        cases readEscapedChar (y.drop (i + 1)) with
        | error err => simp only [bind, Except.bind]
        | ok v => obtain ⟨c, n⟩ := v; simp only [bind, Except.bind]; exact ih _ _
      · rw [if_neg hq, if_neg hq]
        cases decodeAt y i with
        | error err => simp only [bind, Except.bind]
        | ok v => obtain ⟨c, n⟩ := v; simp only [bind, Except.bind]; exact ih _ _
    · rw [if_neg hi, if_neg hi]

theorem readString_agree {x y : List Byte} {m : Nat} (h : Agree x y m) (hb : m = 0 ∨ byteAt x (m - 1) ≠ 92#8)
    (htake : ∀ n, n ≤ m → x.take n = y.take n) (r : StrReader) (ty : Ty) (q : Nat) (hq : q + 1 ≤ m) :
    readString r ty x q = readString r ty y q := by
  have hs := strEnd_agree h hb (x.length + 2) (y.length + 2) (q + 1) hq (by have := h.lx; omega) (by have := h.ly; omega)
  unfold readString stringLiteralEnd
  rw [← hs.1]
  cases hse : strEnd x (x.length + 2) (q + 1) with
  | error err => rfl
  | ok endp =>
    have hlt := hs.2 endp hse
    simp only [bind, Except.bind]
    have ht := htake (endp + 1) (by omega)
    cases r with
    | narrow => simp only [narrowLoop_agree h endp (by omega), ht]
    | utf16 => simp only [utf16Loop_agree h endp (by omega), ht]
    | utf32 => simp only [utf32Loop_agree h endp (by omega), ht]

-- ------------------------------------------------------------------ read_char_literal

theorem findQuote_mono (p : List Byte) : ∀ (f j e : Nat), findQuote p f j = some e → ∀ k, findQuote p (f + k) j = some e := by
  intro f
  induction f with
  | zero => intro j e h; simp [findQuote] at h
  | succ f ih =>
    intro j e h k
    have : f + 1 + k = (f + k) + 1 := by omega
    rw [this]
    simp only [findQuote] at h ⊢
    split
    · rename_i hj; simp [hj] at h
    · rename_i hj
      simp only [hj, if_false] at h
      split
      · rename_i hq; simpa [hq] using h
      · rename_i hq
        simp only [hq, if_false] at h
        exact ih _ _ h k

/-- `y` ends with the newline: a quote found in `y` is found in `x` -/
theorem findQuote_agree {x y : List Byte} {m : Nat} (h : Agree x y m) (hy : y.length = m + 1) :
    ∀ (f j e : Nat), findQuote y f j = some e → findQuote x f j = some e := by
  intro f
  induction f with
  | zero => intro j e h'; simp [findQuote] at h'
  | succ f ih =>
    intro j e h'
    simp only [findQuote] at h' ⊢
    by_cases hj : j ≥ y.length
    · simp [hj] at h'
    · simp only [hj, if_false] at h'
      have hjm : j ≤ m := by omega
      have hjx : ¬ j ≥ x.length := by have := h.lx; omega
      have e' := h.eq j hjm
      simp only [hjx, if_false, e']
      split
      · rename_i hq; simpa [hq] using h'
      · rename_i hq
        simp only [hq, if_false] at h'
        exact ih _ _ h'

theorem readCharLiteral_agree {x y : List Byte} {m : Nat} (h : Agree x y m) (hy : y.length = m + 1) (q : Nat)
    (hq : q + 1 ≤ m) (hne : readCharLiteral y q ≠ .error .unclosedChar) :
    readCharLiteral x q = readCharLiteral y q := by
  obtain ⟨g1, g2, g3, g4, g5, g6, g7, g8, g9, g10⟩ := lf_facts
  have e := h.eq (q + 1) hq
  have hlx := h.lx
  unfold readCharLiteral at hne ⊢
  simp only [e] at hne ⊢
  -- the two early exits
  by_cases h0 : byteAt y (q + 1) = 0#8
  · simp [h0, throw, throwThe, MonadExceptOf.throw, bind, Except.bind] at hne
  · simp only [h0, if_false, pure, Except.pure, bind, Except.bind] at hne ⊢
    by_cases hbs : byteAt y (q + 1) = 92#8
    · have hq2 : q + 2 ≤ m := by
        apply Nat.lt_of_le_of_ne hq
        intro e'
        have hl := h.lfy
        rw [← e'] at hl
        rw [hl] at hbs; exact g6 hbs
      have e2 := h.eq (q + 1 + 1) hq2
      have er := readEscapedChar_agree (h.drop (q + 1 + 1) hq2)
      simp only [hbs, true_and, if_true, e2, er] at hne ⊢
      split
      · rfl
      · rename_i h1
        simp only [h1, if_false] at hne
        cases hre : readEscapedChar (y.drop (q + 1 + 1)) with
        | error err => rfl
        | ok v =>
          simp only [hre] at hne ⊢
          cases hf : findQuote y (y.length + 1) (q + 1 + 1 + v.2) with
          | none => simp [hf, throw, throwThe, MonadExceptOf.throw] at hne
          | some e' =>
            have := findQuote_mono x _ _ _ (findQuote_agree h hy _ _ _ hf) (x.length - y.length)
            have hl : y.length + 1 + (x.length - y.length) = x.length + 1 := by omega
            rw [hl] at this
            simp only [this]
    · have ed := decodeAt_agree h (q + 1) hq
      simp only [hbs, false_and, if_false, ed] at hne ⊢
      cases hre : decodeAt y (q + 1) with
      | error err => rfl
      | ok v =>
        simp only [hre] at hne ⊢
        cases hf : findQuote y (y.length + 1) (q + 1 + v.2) with
        | none => simp [hf, throw, throwThe, MonadExceptOf.throw] at hne
        | some e' =>
          have := findQuote_mono x _ _ _ (findQuote_agree h hy _ _ _ hf) (x.length - y.length)
          have hl : y.length + 1 + (x.length - y.length) = x.length + 1 := by omega
          rw [hl] at this
          simp only [this]

-- ------------------------------------------------------------------ pp-numbers

theorem ppNumberLoop_agree {x y : List Byte} {m : Nat} (h : Agree x y m) :
    ∀ (f1 f2 i : Nat), i ≤ m → m - i < f1 → m - i < f2 →
    ppNumberLoop x f1 i = ppNumberLoop y f2 i ∧ ppNumberLoop x f1 i ≤ m := by
  obtain ⟨g1, g2, g3, g4, g5, g6, g7, g8, g9, g10⟩ := lf_facts
  intro f1
  induction f1 with
  | zero => intro f2 i _ h1 _; omega
  | succ f1 ih =>
    intro f2 i hi h1 h2
    cases f2 with
    | zero => omega
    | succ f2 =>
      have e := h.eq i hi
      by_cases him : i = m
      · subst him
        have hx := h.lf
        have hy := h.lfy
        have nx : ¬ (byteAt x i = 101#8 ∨ byteAt x i = 69#8 ∨ byteAt x i = 112#8 ∨ byteAt x i = 80#8) := by
          rw [hx]; decide
        have ny : ¬ (byteAt y i = 101#8 ∨ byteAt y i = 69#8 ∨ byteAt y i = 112#8 ∨ byteAt y i = 80#8) := by
          rw [hy]; decide
        have ax : ¬ (isAlnum (byteAt x i) = true ∨ byteAt x i = 46#8) := by rw [hx]; decide
        have ay : ¬ (isAlnum (byteAt y i) = true ∨ byteAt y i = 46#8) := by rw [hy]; decide
        have rx : ppNumberLoop x (f1 + 1) i = i := by
          simp only [ppNumberLoop, nx, ax, false_and, and_false, if_false]
        have ry : ppNumberLoop y (f2 + 1) i = i := by
          simp only [ppNumberLoop, ny, ay, false_and, and_false, if_false]
        rw [rx, ry]
        exact ⟨rfl, Nat.le_refl _⟩
      · have e1 := h.eq (i + 1) (by omega)
        simp only [ppNumberLoop, e, e1]
        split
        · rename_i hc
          have hi2 : i + 2 ≤ m := by
            have : i + 1 ≠ m := by
              intro e'
              have hy := h.lfy
              rw [← e'] at hy
              rcases hc.2.2.2 with hp | hp <;> rw [hy] at hp <;> revert hp <;> decide
            omega
          exact ih f2 (i + 2) hi2 (by omega) (by omega)
        · split
          · exact ih f2 (i + 1) (by omega) (by omega) (by omega)
          · exact ⟨rfl, hi⟩

-- ------------------------------------------------------------------ tokenize(): the literal arms

theorem prefixes_no_lf :
    (∀ e ∈ stringPrefixes, ∀ c ∈ e.1 ++ [34], (BitVec.ofNat 8 c : Byte) ≠ 10#8) ∧
    (∀ e ∈ charPrefixes, ∀ c ∈ e.1 ++ [39], (BitVec.ofNat 8 c : Byte) ≠ 10#8) := by decide

theorem find?_congr' {α : Type} {p q : α → Bool} : ∀ (l : List α), (∀ a ∈ l, p a = q a) → l.find? p = l.find? q := by
  intro l
  induction l with
  | nil => intro _; rfl
  | cons a l ih =>
    intro h
    simp only [List.find?_cons, h a (by simp)]
    rw [ih (fun b hb => h b (List.mem_cons_of_mem _ hb))]

/-- **Locality of the literal arms of tokenize().**  `l` is a line that does not end in a backslash; if the literal at
    the start of `l` followed by a newline is complete on the line (no "unclosed char literal"), then the same token is
    read whatever text follows the newline. -/
theorem lexLiteral_line (l r : List Byte) (hb : l.getLast? ≠ some 92#8)
    (hne : lexLiteral (l ++ [10#8]) ≠ .error .unclosedChar) :
    lexLiteral (l ++ 10#8 :: r) = lexLiteral (l ++ [10#8]) := by
  obtain ⟨g1, g2, g3, g4, g5, g6, g7, g8, g9, g10⟩ := lf_facts
  have h : Agree (l ++ 10#8 :: r) (l ++ [10#8]) l.length := agree_append l r []
  have htake : ∀ n, n ≤ l.length → (l ++ 10#8 :: r).take n = (l ++ [10#8]).take n := fun n hn => take_agree l r [] n hn
  have hy : (l ++ [10#8]).length = l.length + 1 := by simp
  have hb' : l.length = 0 ∨ byteAt (l ++ 10#8 :: r) (l.length - 1) ≠ 92#8 := by
    by_cases hl : l.length = 0
    · left; exact hl
    · right
      have hlt : l.length - 1 < l.length := by omega
      rw [byteAt_append_left _ _ _ hlt]
      intro hc
      apply hb
      rw [List.getLast?_eq_getElem?]
      simp only [byteAt, List.getD_eq_getElem?_getD] at hc
      rw [List.getElem?_eq_getElem hlt] at hc ⊢
      simpa using hc
  generalize hx : l ++ 10#8 :: r = x at h htake hb' ⊢
  generalize hyy : l ++ [10#8] = y at h htake hy hne ⊢
  generalize hm : l.length = m at h htake hy hb' ⊢
  have e0 := h.eq 0 (Nat.zero_le _)
  unfold lexLiteral at hne ⊢
  -- the condition of the number arm
  have econd : (isDigit (byteAt x 0) || (decide (byteAt x 0 = 46#8) && isDigit (byteAt x 1))) =
      (isDigit (byteAt y 0) || (decide (byteAt y 0 = 46#8) && isDigit (byteAt y 1))) := by
    by_cases hm0 : m = 0
    · subst hm0
      have hx0 := h.lf
      have hy0 := h.lfy
      simp [hx0, hy0, g3]
    · rw [e0, h.eq 1 (by omega)]
  simp only [econd] at hne ⊢
  split
  · -- pp-number
    rename_i hnum
    have hm1 : 1 ≤ m := by
      apply Nat.pos_of_ne_zero
      intro e; subst e
      rw [h.lfy] at hnum
      simp [g3] at hnum
    have hpp := ppNumberLoop_agree h (x.length + 1) (y.length + 1) 1 hm1 (by have := h.lx; omega) (by have := h.ly; omega)
    have hn : ppNumberLen x = ppNumberLen y := hpp.1
    have ht : x.take (ppNumberLen y) = y.take (ppNumberLen y) := by
      apply htake; rw [← hn]; exact hpp.2
    rw [hn, ht]
  · -- string and character literals
    have es : stringPrefixes.find? (fun e => startsWithStr x (e.1 ++ [34])) =
        stringPrefixes.find? (fun e => startsWithStr y (e.1 ++ [34])) := by
      apply find?_congr'
      intro e he
      exact matchText_agree h _ 0 (Nat.zero_le _) (prefixes_no_lf.1 e he)
    have ec : charPrefixes.find? (fun e => startsWithStr x (e.1 ++ [39])) =
        charPrefixes.find? (fun e => startsWithStr y (e.1 ++ [39])) := by
      apply find?_congr'
      intro e he
      exact matchText_agree h _ 0 (Nat.zero_le _) (prefixes_no_lf.2 e he)
    rename_i hnum
    simp only [hnum, if_false] at hne
    simp only [es, ec] at hne ⊢
    cases hfs : stringPrefixes.find? (fun e => startsWithStr y (e.1 ++ [34])) with
    | some v =>
      obtain ⟨pre, rd, ty⟩ := v
      have hmem := List.mem_of_find?_eq_some hfs
      have hmatch : startsWithStr y (pre ++ [34]) = true := by
        have := List.find?_some hfs
        simpa using this
      have hq := matchText_before h.lfy (pre ++ [34]) 0 (Nat.zero_le _) (prefixes_no_lf.1 _ hmem) hmatch
      simp only [List.length_append, List.length_singleton, Nat.zero_add] at hq
      simp only
      rw [readString_agree h hb' htake rd ty pre.length hq]
    | none =>
      simp only [hfs] at hne ⊢
      cases hfc : charPrefixes.find? (fun e => startsWithStr y (e.1 ++ [39])) with
      | some v =>
        obtain ⟨pre, ty, post⟩ := v
        have hmem := List.mem_of_find?_eq_some hfc
        have hmatch : startsWithStr y (pre ++ [39]) = true := by
          have := List.find?_some hfc
          simpa using this
        have hq := matchText_before h.lfy (pre ++ [39]) 0 (Nat.zero_le _) (prefixes_no_lf.2 _ hmem) hmatch
        simp only [List.length_append, List.length_singleton, Nat.zero_add] at hq
        simp only [hfc] at hne ⊢
        have hrc : readCharLiteral y pre.length ≠ .error .unclosedChar := by
          intro hc
          apply hne
          simp [hc, bind, Except.bind]
        rw [readCharLiteral_agree h hy pre.length hq hrc]
      | none => rfl

end ChibiVerif.Lemmas.Locality
