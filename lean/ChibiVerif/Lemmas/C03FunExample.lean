/-
C03 × C01: the concrete function of the non-vacuity examples of Props/C03Fun.lean and its frame.
-/
import ChibiVerif.Model.C03Fun
import ChibiVerif.Lemmas.C01EffectsValue

namespace ChibiVerif.C03Fun
open ChibiVerif.C01 ChibiVerif.X86 ChibiVerif.X86J ChibiVerif.Asm ChibiVerif.Spec.IntSpec

/-- the function of the non-vacuity examples, over `signed char v0; unsigned v1;`:
    `while (v0) { v1 += v0; if (v1 == 2U) { v0++; continue; } v0++; }  do v1 = v1 * 3U; while (0);  for (v0 = 0; v1 < 10U; v1++) if (v1 == 5U) break;
     switch (v1) { case 4: v0 = 1; default: ++v1; case 5 ... 9: v1 += 10; break; case -4294967286: v1 = 0; }
     return v1 || v0 ? 7L : v1;` -/
def exBody : FStmt :=
  .seq (.for_ none (.var 0) none
          (.seq (.expr (.opassign .add 1 (.var 0)))
            (.seq (.ifte (.bin .eq (.var 1) (.lit .u32 2)) (.seq (.expr (.postinc 0)) (.seq .cont .skip)) .skip)
              (.seq (.expr (.postinc 0)) .skip))))
    (.seq (.doWhile (.expr (.assign 1 (.bin .mul (.var 1) (.lit .u32 3)))) (.lit .i32 0))
      (.seq (.for_ (some (.assign 0 (.lit .i32 0))) (.bin .lt (.var 1) (.lit .u32 10)) (some (.postinc 1))
              (.ifte (.bin .eq (.var 1) (.lit .u32 5)) .brk .skip))
        (.seq (.switch_ (.var 1)
                (.seq (.case_ 4 4 (.expr (.assign 0 (.lit .i32 1))))
                  (.seq (.default_ (.expr (.preinc 1)))
                    (.seq (.case_ 5 9 (.expr (.opassign .add 1 (.lit .i32 10))))
                      (.seq .brk
                        (.seq (.case_ (-4294967286) (-4294967286) (.expr (.assign 1 (.lit .i32 0)))) .skip))))))
          (.seq (.ret (.cond (.lor (.var 1) (.var 0)) (.lit .i64 7) (.var 1))) .skip))))

/-- the frame of C01's examples (`%rsp` = 0x1000, `%rbp` = 0x2000, `v0` at -1(%rbp), `v1` at -8(%rbp)) with six hidden temporaries
    at -16 … -56(%rbp) -/
theorem exFFrame : FrameX exEnv exXOff exXToff 6 (depthF exBody) exXState :=
  ⟨by decide, lay_of_layoutOK exEnv.tys exXOff exXToff 6 0x1000 (by decide) _ _ (by decide) (by decide), exXFrame.2.2⟩

end ChibiVerif.C03Fun
