/-
Lemmas about Model/IfUnparse.lean: the C11 grammar of Spec/IfGrammar.lean derives the minimally parenthesised printing of a
well-formed tree, at the nonterminal of the tree's outermost construct; and every tree the grammar derives is well-formed.
Core Lean only.
-/
import ChibiVerif.Model.IfUnparse
import ChibiVerif.Spec.IfGrammar

namespace ChibiVerif.IfParse
open ChibiVerif.PPExpr ChibiVerif.Spec.IfGrammar

/-- the nonterminal of a position: 0 … 10 the levels, 11 conditional-expression, ≥ 12 expression -/
def ntOf (k : Nat) : NT := if k ≤ 10 then .lvl k else if k = 11 then .cond else .expr

theorem ntOf_succ {k : Nat} {ts : List PTok} {t : PT} (h : Derives (ntOf k) ts t) : Derives (ntOf (k+1)) ts t := by
  by_cases h1 : k + 1 ≤ 10
  · have h0 : k ≤ 10 := by omega
    simp only [ntOf, h0, h1, if_true] at h ⊢
    exact .up h
  · by_cases h2 : k = 10
    · subst h2
      exact .condUp h
    · by_cases h3 : k = 11
      · subst h3
        exact .exprUp h
      · have e1 : ntOf k = .expr := by
          unfold ntOf; rw [if_neg (by omega), if_neg h3]
        have e2 : ntOf (k+1) = .expr := by
          unfold ntOf; rw [if_neg h1, if_neg (by omega)]
        rw [e2]; rw [e1] at h; exact h

theorem ntOf_le {k k' : Nat} {ts : List PTok} {t : PT} (h : Derives (ntOf k) ts t) (hk : k ≤ k') : Derives (ntOf k') ts t := by
  induction hk with
  | refl => exact h
  | step _ ih => exact ntOf_succ ih

theorem prec_le (t : PT) : t.prec ≤ 12 := by
  cases t with
  | num => exact Nat.zero_le _
  | un => exact Nat.zero_le _
  | bin op _ _ => cases op <;> simp [PT.prec, binLevel]
  | cond => simp [PT.prec]
  | comma => simp [PT.prec]

/-- an operand printed for a position that allows levels ≤ `k` is derived at that position -/
theorem atLvl_derives {t : PT} (h : Derives (ntOf t.prec) (unparse t) t) (k : Nat) : Derives (ntOf k) (atLvl k t (unparse t)) t := by
  unfold atLvl
  by_cases hk : t.prec ≤ k
  · rw [if_pos hk]; exact ntOf_le h hk
  · rw [if_neg hk]
    have he : Derives .expr (unparse t) t := ntOf_le (k' := 12) h (prec_le t)
    have h0 : Derives (ntOf 0) (parens (unparse t)) t := Derives.paren he
    exact ntOf_le h0 (Nat.zero_le _)

theorem unSym_mem {op : UnOp} : (unSym op, op) ∈ c11Unary := by cases op <;> decide

theorem binSym_mem (op : BinOp) : ∃ d, binLevel op = d + 1 ∧ d + 1 ≤ 10 ∧ (binSym op, op) ∈ c11Ops (d+1) := by
  cases op
  · exact ⟨0, rfl, by decide, by decide⟩
  · exact ⟨0, rfl, by decide, by decide⟩
  · exact ⟨0, rfl, by decide, by decide⟩
  · exact ⟨1, rfl, by decide, by decide⟩
  · exact ⟨1, rfl, by decide, by decide⟩
  · exact ⟨2, rfl, by decide, by decide⟩
  · exact ⟨2, rfl, by decide, by decide⟩
  · exact ⟨3, rfl, by decide, by decide⟩
  · exact ⟨3, rfl, by decide, by decide⟩
  · exact ⟨3, rfl, by decide, by decide⟩
  · exact ⟨3, rfl, by decide, by decide⟩
  · exact ⟨4, rfl, by decide, by decide⟩
  · exact ⟨4, rfl, by decide, by decide⟩
  · exact ⟨5, rfl, by decide, by decide⟩
  · exact ⟨6, rfl, by decide, by decide⟩
  · exact ⟨7, rfl, by decide, by decide⟩
  · exact ⟨8, rfl, by decide, by decide⟩
  · exact ⟨9, rfl, by decide, by decide⟩

theorem ntOf_lvl {k : Nat} (h : k ≤ 10) : ntOf k = .lvl k := by unfold ntOf; rw [if_pos h]

/-- the grammar derives the printing of a well-formed tree, at the nonterminal of its outermost construct -/
theorem derives_unparse (t : PT) (h : t.WF = true) : Derives (ntOf t.prec) (unparse t) t := by
  induction t with
  | num v u => exact .num v u
  | un op e ih =>
    simp only [PT.WF, Bool.and_eq_true, bne_iff_ne, ne_eq] at h
    have he := atLvl_derives (ih h.2) 0
    have : unTree op e = .un op e := by cases op <;> first | rfl | exact absurd rfl h.1
    have hd := Derives.unop (unSym_mem (op := op)) he
    rw [this] at hd
    exact hd
  | bin op a b iha ihb =>
    simp only [PT.WF, Bool.and_eq_true, bne_iff_ne, ne_eq] at h
    obtain ⟨d, hl, hd10, hm⟩ := binSym_mem op
    have ha := atLvl_derives (iha h.1.2) (binLevel op)
    have hb := atLvl_derives (ihb h.2) (binLevel op - 1)
    have hbt : binTree op a b = .bin op a b := by
      cases op <;> first | rfl | exact absurd rfl h.1.1.1 | exact absurd rfl h.1.1.2
    show Derives (ntOf (binLevel op)) (atLvl (binLevel op) a (unparse a) ++ .punct (binSym op) :: atLvl (binLevel op - 1) b (unparse b)) _
    rw [hl] at ha hb ⊢
    rw [Nat.add_sub_cancel] at hb
    rw [ntOf_lvl hd10] at ha ⊢
    rw [ntOf_lvl (by omega)] at hb
    have := Derives.binop hm ha hb
    rw [hbt] at this
    exact this
  | cond c a b ihc iha ihb =>
    simp only [PT.WF, Bool.and_eq_true] at h
    have hc := atLvl_derives (ihc h.1.1) 10
    have ha : Derives .expr (unparse a) a := ntOf_le (k' := 12) (iha h.1.2) (prec_le a)
    have hb := atLvl_derives (ihb h.2) 11
    exact Derives.cond hc ha hb
  | comma a b iha ihb =>
    simp only [PT.WF, Bool.and_eq_true] at h
    have ha := atLvl_derives (iha h.1) 11
    have hb : Derives .expr (unparse b) b := ntOf_le (k' := 12) (ihb h.2) (prec_le b)
    exact Derives.comma ha hb

theorem derives_unparseTop (t : PT) (h : t.WF = true) : Derives .cond (unparseTop t) t :=
  atLvl_derives (derives_unparse t h) 11

theorem unTree_wf (op : UnOp) (t : PT) (h : t.WF = true) : (unTree op t).WF = true := by
  cases op <;> simp [unTree, PT.WF, h]

theorem binTree_wf (op : BinOp) (a b : PT) (ha : a.WF = true) (hb : b.WF = true) : (binTree op a b).WF = true := by
  cases op <;> simp [binTree, PT.WF, ha, hb]

/-- every tree the grammar derives is well-formed (`unTree`, `binTree` build no unary-plus node and no `>` / `>=` node) -/
theorem derives_wf {nt : NT} {ts : List PTok} {t : PT} (h : Derives nt ts t) : t.WF = true := by
  induction h with
  | num v u => rfl
  | paren _ ih => exact ih
  | unop _ _ ih => exact unTree_wf _ _ ih
  | up _ ih => exact ih
  | binop _ _ _ iha ihb => exact binTree_wf _ _ _ iha ihb
  | condUp _ ih => exact ih
  | cond _ _ _ ihc iha ihb => simp [PT.WF, ihc, iha, ihb]
  | exprUp _ ih => exact ih
  | comma _ _ iha ihb => simp [PT.WF, iha, ihb]

end ChibiVerif.IfParse
