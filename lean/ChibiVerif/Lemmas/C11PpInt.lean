/-
`convert_pp_int` as translated from tokenize.c (Gen/PpNumGen.lean `convertPpInt`, with libc `strtoul` as a parameter):
the integer-constant theorems of Props/C11.lean proved about the GENERATED definition, for every `strtoul` that satisfies the
contract `StrtoulSpec`, with the token standing inside its text (`pre ++ token ++ post`, as the C function is called);
the Lean model of glibc's `strtoul` and the digit loop of the hand model satisfy the contract.
-/
import ChibiVerif.Model.PpNumber
import ChibiVerif.Lemmas.LiteralsReaderLemmas

set_option linter.unusedSimpArgs false
set_option linter.unusedVariables false

namespace ChibiVerif.Lemmas.PpInt
open ChibiVerif.Gen.Literals
open ChibiVerif.Spec.Literals
open ChibiVerif.Literals
open ChibiVerif.PpNumber
open ChibiVerif.Lemmas.Literals
open ChibiVerif.Lemmas.Readers

namespace G
export ChibiVerif.Gen.PpNum (convertPpInt convertPpInt_sel1 convertPpInt_sel2 tolower isdigit isalnum strchrLit)
end G

-- ------------------------------------------------------------------ the two ladders only look at the text from the cursor on

theorem sel1_drop (p : List Byte) (q : Nat) :
    G.convertPpInt_sel1 p q = (q + (G.convertPpInt_sel1 (p.drop q) 0).1, (G.convertPpInt_sel1 (p.drop q) 0).2) := by
  unfold ChibiVerif.Gen.PpNum.convertPpInt_sel1
  simp only [byteAt_drop, Nat.add_zero, Nat.zero_add]
  repeat' split
  all_goals rfl

theorem sel2_drop (p : List Byte) (q : Nat) :
    G.convertPpInt_sel2 p q = (q + (G.convertPpInt_sel2 (p.drop q) 0).1, (G.convertPpInt_sel2 (p.drop q) 0).2) := by
  unfold ChibiVerif.Gen.PpNum.convertPpInt_sel2
  simp only [byteAt_drop, Nat.add_zero, Nat.zero_add]
  repeat' split
  all_goals rfl

/-- the suffix ladder reads at most three bytes -/
theorem sel2_window (r : List Byte) :
    G.convertPpInt_sel2 r 0 = G.convertPpInt_sel2 [byteAt r 0, byteAt r 1, byteAt r 2] 0 := by
  unfold ChibiVerif.Gen.PpNum.convertPpInt_sel2
  rfl

-- ------------------------------------------------------------------ the models of `strtoul` satisfy the contract

theorem xdigit_ne_zero (d : Byte) : isXDigit d = true → d ≠ 0#8 := by
  revert d; apply forall_byte; decide +kernel

theorem byteAt_ne_zero_lt (p : List Byte) (i : Nat) (h : byteAt p i ≠ 0#8) : i < p.length := by
  apply Nat.lt_of_not_le
  intro hle
  apply h
  simp [byteAt, List.getD_eq_getElem?_getD, List.getElem?_eq_none hle]

/-- a run of hexadecimal digits read from the text lies inside the text -/
theorem run_inside (p : List Byte) (i : Nat) (ds : List Byte) (hb : ∀ k, k < ds.length → byteAt p (i + k) = ds.getD k 0#8)
    (hd : ∀ d ∈ ds, isXDigit d = true) : ds.length < p.length + 1 := by
  cases hl : ds.length with
  | zero => omega
  | succ n =>
    have hk : n < ds.length := by omega
    have h1 := hb n hk
    have hmem : ds.getD n 0#8 ∈ ds := by
      rw [List.getD_eq_getElem?_getD, List.getElem?_eq_getElem hk]; simp
    have hne : byteAt p (i + n) ≠ 0#8 := by rw [h1]; exact xdigit_ne_zero _ (hd _ hmem)
    have := byteAt_ne_zero_lt p (i + n) hne
    omega

theorem digits_fold (base : Nat) (ds : List Byte) :
    ds.foldl (fun a d => a * base + hexDigitValue d.toNat) 0 = digitsValue base (ds.map (fun d => hexDigitValue d.toNat)) := by
  simp [digitsValue, List.foldl_map]

theorem strtoulH_spec : StrtoulSpec strtoulH := by
  constructor
  intro p i base ds _ _ hne hb hd hend _
  have hrun := run_inside p i ds hb (fun d h => (hd d h).1)
  have hdig := strtoulDigits_spec p base ds (p.length + 1) i 0 hrun hb hd hend
  unfold strtoulH ChibiVerif.Literals.strtoul saturate
  simp only [hdig, digits_fold]

theorem strtoulC_spec : StrtoulSpec strtoulC := by
  constructor
  intro p i base ds _ _ hne hb hd hend hpre
  have hrun := run_inside p i ds hb (fun d h => (hd d h).1)
  have hdig := strtoulDigits_spec p base ds (p.length + 1) i 0 hrun hb hd hend
  have hlen : 0 < ds.length := by cases ds with | nil => exact absurd rfl hne | cons _ _ => simp
  unfold strtoulC
  simp only [hpre, if_false, hdig, digits_fold]
  have : ¬ (i + ds.length = i) := by omega
  simp only [this, if_false]

/-- outside the one case the digit loop does not model (a second `0x` in base 16) the two models of `strtoul` agree whenever
    there is a digit to read -/
theorem strtoulC_eq_strtoulH (p : List Byte) (i base : Nat)
    (hpre : ¬ (base = 16 ∧ byteAt p i = 48#8 ∧ (byteAt p (i + 1) = 120#8 ∨ byteAt p (i + 1) = 88#8)))
    (hdig : (strtoulDigits p base (p.length + 1) i 0).2 ≠ i) : strtoulC p i base = strtoulH p i base := by
  unfold strtoulC strtoulH ChibiVerif.Literals.strtoul saturate
  simp only [hpre, if_false, hdig]

-- ------------------------------------------------------------------ byte-level facts (all 256 values)

theorem isxdigit_eq (b : Byte) : ChibiVerif.Gen.LitReaders.isxdigit b = isXDigit b := rfl

/-- a byte that is not alphanumeric (the byte after a pp-number token) passes none of the tests of `convert_pp_int` -/
theorem nonalnum_facts1 (b : Byte) : isAlnum b = false →
    digitVal b = none ∧ isXDigit b = false ∧
    G.tolower b ≠ G.tolower 120#8 ∧ G.tolower b ≠ G.tolower 98#8 ∧ G.tolower b ≠ G.tolower 108#8 ∧ G.tolower b ≠ G.tolower 117#8 := by
  revert b; apply forall_byte; decide +kernel

theorem nonalnum_facts2 (b : Byte) : isAlnum b = false →
    b ≠ 76#8 ∧ b ≠ 108#8 ∧ b ≠ 85#8 ∧ b ≠ 117#8 ∧ b ≠ 120#8 ∧ b ≠ 88#8 := by
  revert b; apply forall_byte; decide +kernel

theorem nonalnum_facts3 (b : Byte) : isAlnum b = false →
    b.signExtend 32 ≠ 0x4C#32 ∧ b.signExtend 32 ≠ 0x6C#32 ∧ b.signExtend 32 ≠ 0x55#32 ∧ b.signExtend 32 ≠ 0x75#32 := by
  revert b; apply forall_byte; decide +kernel

theorem dec_first_facts (d : Byte) : (49 ≤ d.toNat ∧ d.toNat ≤ 57) →
    G.tolower d ≠ G.tolower 48#8 ∧ d.signExtend 32 ≠ 0x30#32 := by
  revert d; apply forall_byte; decide +kernel

theorem oct_next_facts (y : Byte) : isOctDigit y = true →
    G.tolower y ≠ G.tolower 120#8 ∧ G.tolower y ≠ G.tolower 98#8 ∧ y ≠ 120#8 ∧ y ≠ 88#8 := by
  revert y; apply forall_byte; decide +kernel

theorem xdigit_not_x (y : Byte) : isXDigit y = true → y ≠ 120#8 ∧ y ≠ 88#8 := by
  revert y; apply forall_byte; decide +kernel

-- ------------------------------------------------------------------ the prefix ladder on the four kinds of spelling

theorem sel1_hex (x d : Byte) (rest : List Byte) (hx : x = 120#8 ∨ x = 88#8) (hd : isXDigit d = true) :
    G.convertPpInt_sel1 (48#8 :: x :: d :: rest) 0 = (2, 16) := by
  have hd' : ChibiVerif.Gen.LitReaders.isxdigit d = true := hd
  rcases hx with rfl | rfl <;>
    simp [ChibiVerif.Gen.PpNum.convertPpInt_sel1, byteAt_zero, byteAt_succ, hd', ChibiVerif.Gen.PpNum.tolower]

theorem sel1_bin (x d : Byte) (rest : List Byte) (hx : x = 98#8 ∨ x = 66#8) (hd : d = 48#8 ∨ d = 49#8) :
    G.convertPpInt_sel1 (48#8 :: x :: d :: rest) 0 = (2, 2) := by
  rcases hx with rfl | rfl <;> rcases hd with rfl | rfl <;>
    simp [ChibiVerif.Gen.PpNum.convertPpInt_sel1, byteAt_zero, byteAt_succ, ChibiVerif.Gen.PpNum.tolower,
      ChibiVerif.Gen.LitReaders.isxdigit]

theorem sel1_oct (rest : List Byte) (h1 : G.tolower (byteAt rest 0) ≠ G.tolower 120#8)
    (h2 : G.tolower (byteAt rest 0) ≠ G.tolower 98#8) : G.convertPpInt_sel1 (48#8 :: rest) 0 = (0, 8) := by
  have e1 : byteAt (48#8 :: rest) 1 = byteAt rest 0 := byteAt_succ _ _ 0
  simp [ChibiVerif.Gen.PpNum.convertPpInt_sel1, byteAt_zero, e1, h1, h2]

theorem sel1_dec (d : Byte) (rest : List Byte) (hd : 49 ≤ d.toNat ∧ d.toNat ≤ 57) :
    G.convertPpInt_sel1 (d :: rest) 0 = (0, 10) := by
  obtain ⟨f1, f2⟩ := dec_first_facts d hd
  simp [ChibiVerif.Gen.PpNum.convertPpInt_sel1, byteAt_zero, f1, f2]

-- ------------------------------------------------------------------ the suffix ladder on the 23 suffix spellings

theorem nonalnum_lower (b : Byte) : isAlnum b = false → G.tolower b ≠ 108#8 ∧ G.tolower b ≠ 117#8 := by
  revert b; apply forall_byte; decide +kernel

theorem tolower_lits : G.tolower 76#8 = 108#8 ∧ G.tolower 108#8 = 108#8 ∧ G.tolower 85#8 = 117#8 ∧ G.tolower 117#8 = 117#8 := by
  decide

/-- the bytes and flags of `suffixSpellings`, spelled out -/
def sfxTable : List (List Byte × Bool × Bool) := [
  ([], false, false), ([117#8], false, true), ([85#8], false, true), ([108#8], true, false), ([76#8], true, false),
  ([108#8, 108#8], true, false), ([76#8, 76#8], true, false),
  ([117#8, 108#8], true, true), ([117#8, 76#8], true, true), ([85#8, 108#8], true, true), ([85#8, 76#8], true, true),
  ([108#8, 117#8], true, true), ([108#8, 85#8], true, true), ([76#8, 117#8], true, true), ([76#8, 85#8], true, true),
  ([117#8, 108#8, 108#8], true, true), ([117#8, 76#8, 76#8], true, true), ([85#8, 108#8, 108#8], true, true),
  ([85#8, 76#8, 76#8], true, true), ([108#8, 108#8, 117#8], true, true), ([108#8, 108#8, 85#8], true, true),
  ([76#8, 76#8, 117#8], true, true), ([76#8, 76#8, 85#8], true, true)]

theorem sfxTable_eq : suffixSpellings.map (fun e => (sfxBytes e.1, e.2.hasL, e.2.hasU)) = sfxTable := by decide +kernel

theorem sel2_table : ∀ t ∈ sfxTable, ∀ post : List Byte, isAlnum (byteAt post 0) = false →
    G.convertPpInt_sel2 (t.1 ++ post) 0 = (t.1.length, t.2.1, t.2.2) := by
  intro t ht post hp
  obtain ⟨a1, a2, a3, a4, a5, a6⟩ := nonalnum_facts2 _ hp
  obtain ⟨c1, c2, c3, c4⟩ := nonalnum_facts3 _ hp
  obtain ⟨d1, d2⟩ := nonalnum_lower _ hp
  obtain ⟨t1, t2, t3, t4⟩ := tolower_lits
  rw [sel2_window]
  simp only [sfxTable, List.mem_cons, List.mem_nil_iff, or_false] at ht
  rcases ht with rfl | rfl | rfl | rfl | rfl | rfl | rfl | rfl | rfl | rfl | rfl | rfl | rfl | rfl | rfl | rfl | rfl | rfl |
    rfl | rfl | rfl | rfl | rfl <;>
  simp [ChibiVerif.Gen.PpNum.convertPpInt_sel2, byteAt_zero, byteAt_succ, a1, a2, a3, a4, c1, c2, c3, c4, d1, d2, t1, t2, t3, t4]

theorem sel2_suffix (e : String × Suffix) (he : e ∈ suffixSpellings) (post : List Byte)
    (hp : isAlnum (byteAt post 0) = false) :
    G.convertPpInt_sel2 (sfxBytes e.1 ++ post) 0 = ((sfxBytes e.1).length, e.2.hasL, e.2.hasU) := by
  have hm : (sfxBytes e.1, e.2.hasL, e.2.hasU) ∈ sfxTable := by
    rw [← sfxTable_eq]; exact List.mem_map.mpr ⟨e, he, rfl⟩
  exact sel2_table _ hm post hp

-- ------------------------------------------------------------------ the whole function on `pre ++ front ++ digits ++ suffix ++ post`

theorem saturate_lt (v : Nat) (h : v < 2 ^ 64) : saturate v = BitVec.ofNat 64 v := by
  unfold saturate; simp [h]

theorem convertPpInt_parts (f : List Byte → Nat → Nat → BitVec 64 × Nat) (hf : StrtoulSpec f)
    (pre front ds sfx post : List Byte) (base : Nat) (l u : Bool) (hb2 : 2 ≤ base) (hb16 : base ≤ 16) (hne : ds ≠ [])
    (hbase : G.convertPpInt_sel1 (front ++ (ds ++ (sfx ++ post))) 0 = (front.length, base))
    (hds : ∀ d ∈ ds, isXDigit d = true ∧ hexDigitValue d.toNat < base)
    (hnext : ∀ x, digitVal (byteAt (sfx ++ post) 0) = some x → ¬ x < base)
    (hpre : ¬ (base = 16 ∧ byteAt (ds ++ (sfx ++ post)) 0 = 48#8 ∧
      (byteAt (ds ++ (sfx ++ post)) 1 = 120#8 ∨ byteAt (ds ++ (sfx ++ post)) 1 = 88#8)))
    (hsfx : G.convertPpInt_sel2 (sfx ++ post) 0 = (sfx.length, l, u))
    (hv : digitsValue base (ds.map (fun d => hexDigitValue d.toNat)) < 2 ^ 64) :
    G.convertPpInt f (pre ++ (front ++ ds ++ sfx) ++ post) pre.length (front ++ ds ++ sfx).length =
      some (BitVec.ofNat 64 (digitsValue base (ds.map (fun d => hexDigitValue d.toNat))),
            intLitType base l u (BitVec.ofNat 64 (digitsValue base (ds.map (fun d => hexDigitValue d.toNat))))) := by
  have hp0 : pre ++ (front ++ ds ++ sfx) ++ post = pre ++ (front ++ (ds ++ (sfx ++ post))) := by simp [List.append_assoc]
  have hp1 : pre ++ (front ++ ds ++ sfx) ++ post = (pre ++ front) ++ (ds ++ (sfx ++ post)) := by simp [List.append_assoc]
  have hp2 : pre ++ (front ++ ds ++ sfx) ++ post = (pre ++ front ++ ds) ++ (sfx ++ post) := by simp [List.append_assoc]
  have l1 : (pre ++ front).length = pre.length + front.length := by simp
  have l2 : (pre ++ front ++ ds).length = pre.length + front.length + ds.length := by simp [Nat.add_assoc]
  -- the prefix ladder
  have h1 : G.convertPpInt_sel1 (pre ++ (front ++ ds ++ sfx) ++ post) pre.length = (pre.length + front.length, base) := by
    rw [sel1_drop, hp0, List.drop_left, hbase]
  -- strtoul
  have h2 : f (pre ++ (front ++ ds ++ sfx) ++ post) (pre.length + front.length) base =
      (saturate (digitsValue base (ds.map (fun d => hexDigitValue d.toNat))), pre.length + front.length + ds.length) := by
    apply hf.digits _ _ _ ds hb2 hb16 hne
    · intro k hk
      rw [hp1, ← l1, byteAt_append_right, byteAt_append_left _ _ _ hk]; rfl
    · exact hds
    · rw [hp2, ← l2, ← Nat.add_zero (pre ++ front ++ ds).length, byteAt_append_right]; exact hnext
    · rw [hp1, ← l1]
      have e0 := byteAt_append_right (pre ++ front) (ds ++ (sfx ++ post)) 0
      have e1 := byteAt_append_right (pre ++ front) (ds ++ (sfx ++ post)) 1
      rw [Nat.add_zero] at e0
      rw [e0, e1]; exact hpre
  -- the suffix ladder
  have h3 : G.convertPpInt_sel2 (pre ++ (front ++ ds ++ sfx) ++ post) (pre.length + front.length + ds.length) =
      (pre.length + front.length + ds.length + sfx.length, l, u) := by
    rw [sel2_drop, hp2, ← l2, List.drop_left, hsfx]
  unfold ChibiVerif.Gen.PpNum.convertPpInt
  simp only [h1, h2, h3, saturate_lt _ hv]
  have : ¬ (pre.length + front.length + ds.length + sfx.length ≠ pre.length + (front ++ ds ++ sfx).length) := by
    simp only [List.length_append]; omega
  simp only [this, if_false]

theorem byteAt_nil (k : Nat) : byteAt ([] : List Byte) k = 0#8 := by simp [byteAt]

/-- first byte of `suffix ++ post`: a suffix letter or the non-alphanumeric byte after the token -/
theorem after_digits (e : String × Suffix) (he : e ∈ suffixSpellings) (post : List Byte)
    (hp : isAlnum (byteAt post 0) = false) :
    (∀ x, digitVal (byteAt (sfxBytes e.1 ++ post) 0) = some x → ¬ x < 17) ∧
    G.tolower (byteAt (sfxBytes e.1 ++ post) 0) ≠ G.tolower 120#8 ∧ G.tolower (byteAt (sfxBytes e.1 ++ post) 0) ≠ G.tolower 98#8 ∧
    byteAt (sfxBytes e.1 ++ post) 0 ≠ 120#8 ∧ byteAt (sfxBytes e.1 ++ post) 0 ≠ 88#8 := by
  have key : ∀ t ∈ sfxTable, t.1 = [] ∨
      ((∀ x, digitVal (byteAt t.1 0) = some x → ¬ x < 17) ∧ G.tolower (byteAt t.1 0) ≠ G.tolower 120#8 ∧
        G.tolower (byteAt t.1 0) ≠ G.tolower 98#8 ∧ byteAt t.1 0 ≠ 120#8 ∧ byteAt t.1 0 ≠ 88#8 ∧ 0 < t.1.length) := by
    decide +kernel
  have hm : (sfxBytes e.1, e.2.hasL, e.2.hasU) ∈ sfxTable := by
    rw [← sfxTable_eq]; exact List.mem_map.mpr ⟨e, he, rfl⟩
  rcases key _ hm with h | ⟨k1, k2, k3, k4, k5, k6⟩
  · simp only at h
    rw [h, List.nil_append]
    obtain ⟨n1, _, n3, n4, _, _⟩ := nonalnum_facts1 _ hp
    obtain ⟨_, _, _, _, m5, m6⟩ := nonalnum_facts2 _ hp
    exact ⟨fun x hx => by rw [n1] at hx; exact absurd hx (by simp), n3, n4, m5, m6⟩
  · simp only at k1 k2 k3 k4 k5 k6
    rw [byteAt_append_left _ _ _ k6]
    exact ⟨k1, k2, k3, k4, k5⟩

/-- **the value/type theorem on the generated `convert_pp_int`**, for every `strtoul` that satisfies the contract and every
    context of the token -/
theorem int_value_gen (f : List Byte → Nat → Nat → BitVec 64 × Nat) (hf : StrtoulSpec f) (pre post : List Byte)
    (hpost : isAlnum (byteAt post 0) = false) (base : Nat) (front ds : List Byte) (h : IntSpelling base front ds)
    (e : String × Suffix) (he : e ∈ suffixSpellings)
    (hv : digitsValue base (ds.map (fun d => hexDigitValue d.toNat)) < 2 ^ 64) :
    G.convertPpInt f (pre ++ (front ++ ds ++ sfxBytes e.1) ++ post) pre.length (front ++ ds ++ sfxBytes e.1).length =
      some (BitVec.ofNat 64 (digitsValue base (ds.map (fun d => hexDigitValue d.toNat))),
            intLitType base e.2.hasL e.2.hasU (BitVec.ofNat 64 (digitsValue base (ds.map (fun d => hexDigitValue d.toNat))))) := by
  have hs := sel2_suffix e he post hpost
  obtain ⟨g1, g2, g3, g4, g5⟩ := after_digits e he post hpost
  cases h with
  | hex x d ds hx hd =>
    apply convertPpInt_parts f hf pre _ _ _ post 16 _ _ (by omega) (by omega) (by simp) ?_
      (fun y hy => ⟨hd y hy, hex_facts y (hd y hy)⟩) (fun x hx' hlt => g1 x hx' (by omega)) ?_ hs hv
    · simp only [List.cons_append, List.nil_append, List.length_cons, List.length_nil]
      exact sel1_hex x d _ hx (hd d (by simp))
    · intro hc
      obtain ⟨_, h0, h1⟩ := hc
      simp only [List.cons_append, byteAt_zero] at h0
      cases ds with
      | nil =>
        have e1 : byteAt (d :: ([] ++ (sfxBytes e.1 ++ post))) 1 = byteAt (sfxBytes e.1 ++ post) 0 := by
          rw [List.nil_append]; exact byteAt_succ _ _ 0
        simp only [List.cons_append] at h1
        rw [e1] at h1
        rcases h1 with h1 | h1
        · exact g4 h1
        · exact g5 h1
      | cons y ys =>
        have e1 : byteAt (d :: (y :: ys ++ (sfxBytes e.1 ++ post))) 1 = y := by
          rw [List.cons_append]; exact (byteAt_succ _ _ 0).trans (byteAt_zero _ _)
        simp only [List.cons_append] at h1 e1
        rw [e1] at h1
        have := xdigit_not_x y (hd y (by simp))
        rcases h1 with h1 | h1
        · exact this.1 h1
        · exact this.2 h1
  | bin x d ds hx hd =>
    have hb : ∀ y ∈ d :: ds, isXDigit y = true ∧ hexDigitValue y.toNat < 2 := by
      intro y hy; rcases hd y hy with rfl | rfl <;> decide
    apply convertPpInt_parts f hf pre _ _ _ post 2 _ _ (by omega) (by omega) (by simp) ?_ hb
      (fun x hx' hlt => g1 x hx' (by omega)) (by intro hc; omega) hs hv
    simp only [List.cons_append, List.nil_append, List.length_cons, List.length_nil]
    exact sel1_bin x d _ hx (hd d (by simp))
  | oct ds hd =>
    have hb : ∀ y ∈ 48#8 :: ds, isXDigit y = true ∧ hexDigitValue y.toNat < 8 := by
      intro y hy
      rcases List.mem_cons.mp hy with rfl | hy
      · decide
      · exact ⟨(oct_facts y (hd y hy)).1, (oct_facts y (hd y hy)).2.1⟩
    apply convertPpInt_parts f hf pre _ _ _ post 8 _ _ (by omega) (by omega) (by simp) ?_ hb
      (fun x hx' hlt => g1 x hx' (by omega)) (by intro hc; omega) hs hv
    simp only [List.nil_append, List.cons_append, List.length_nil]
    apply sel1_oct
    · cases ds with
      | nil => simpa using g2
      | cons y ys => simp only [List.cons_append, byteAt_zero]; exact (oct_next_facts y (hd y (by simp))).1
    · cases ds with
      | nil => simpa using g3
      | cons y ys => simp only [List.cons_append, byteAt_zero]; exact (oct_next_facts y (hd y (by simp))).2.1
  | dec d ds hd0 hd =>
    have hb : ∀ y ∈ d :: ds, isXDigit y = true ∧ hexDigitValue y.toNat < 10 := by
      intro y hy
      rcases List.mem_cons.mp hy with rfl | hy
      · have : ChibiVerif.Literals.isDigit y = true := by simp [ChibiVerif.Literals.isDigit]; omega
        exact dec_facts y this
      · exact dec_facts y (hd y hy)
    apply convertPpInt_parts f hf pre _ _ _ post 10 _ _ (by omega) (by omega) (by simp) ?_ hb
      (fun x hx' hlt => g1 x hx' (by omega)) (by intro hc; omega) hs hv
    simp only [List.nil_append, List.cons_append, List.length_nil]
    exact sel1_dec d _ hd0

-- ------------------------------------------------------------------ hand model = translation (whole tokens, digit-loop `strtoul`)

theorem tolower_eq (b : Byte) : G.tolower b = toLower b := rfl

/-- the NUL test of `matchText` is implied by the comparison with a non-NUL pattern byte -/
theorem nul_test (a : Byte) :
    (decide (a ≠ 0#8) && (toLower a == toLower 48#8)) = (toLower a == toLower 48#8) ∧
    (decide (a ≠ 0#8) && (toLower a == toLower 120#8)) = (toLower a == toLower 120#8) ∧
    (decide (a ≠ 0#8) && (toLower a == toLower 98#8)) = (toLower a == toLower 98#8) ∧
    (decide (a ≠ 0#8) && (a == 48#8)) = (a == 48#8) := by
  revert a; apply forall_byte; decide +kernel

theorem sext_char (b : Byte) :
    (b.signExtend 32 = 0x30#32 ↔ b = 48#8) ∧ (b.signExtend 32 = 0x31#32 ↔ b = 49#8) ∧ (b.signExtend 32 = 0x4C#32 ↔ b = 76#8) ∧
    (b.signExtend 32 = 0x6C#32 ↔ b = 108#8) ∧ (b.signExtend 32 = 0x55#32 ↔ b = 85#8) ∧ (b.signExtend 32 = 0x75#32 ↔ b = 117#8) := by
  revert b; apply forall_byte; decide +kernel

theorem c2_bridge (c : Byte) :
    ((c.signExtend 32 = 0x30#32 ∨ c.signExtend 32 = 0x31#32) ↔ ([48, 49].contains c.toNat = true)) ∧
    ((c.signExtend 32 = 0x30#32) ↔ ((c == 48#8) = true)) := by
  revert c; apply forall_byte; decide +kernel

theorem detectBase_eq (p : List Byte) :
    detectBase p = ((G.convertPpInt_sel1 p 0).2, (G.convertPpInt_sel1 p 0).1) := by
  obtain ⟨n48, _, _, c48⟩ := nul_test (byteAt p 0)
  obtain ⟨_, n120, n98, _⟩ := nul_test (byteAt p 1)
  have g1 : (toLower (byteAt p 0) = toLower 48#8) ↔ ((toLower (byteAt p 0) == toLower 48#8) = true) := beq_iff_eq.symm
  have g2 : (toLower (byteAt p 1) = toLower 120#8) ↔ ((toLower (byteAt p 1) == toLower 120#8) = true) := beq_iff_eq.symm
  have g3 : (toLower (byteAt p 1) = toLower 98#8) ↔ ((toLower (byteAt p 1) == toLower 98#8) = true) := beq_iff_eq.symm
  have g4 := (c2_bridge (byteAt p 2)).1
  have g5 := (c2_bridge (byteAt p 0)).2
  unfold detectBase ChibiVerif.Gen.PpNum.convertPpInt_sel1
  simp only [basePrefixes, defaultBase, List.find?, matchText, nextOk, Nat.zero_add, List.length_cons, List.length_nil,
    Bool.and_true, tolower_eq, isxdigit_eq, Nat.reduceAdd, if_true, Bool.false_eq_true, if_false, n48, n120, n98, c48, g1, g2, g3, g4, g5]
  generalize (toLower (byteAt p 0) == toLower 48#8) = x1
  generalize (toLower (byteAt p 1) == toLower 120#8) = x2
  generalize (toLower (byteAt p 1) == toLower 98#8) = x3
  generalize isXDigit (byteAt p 2) = x4
  generalize [48, 49].contains (byteAt p 2).toNat = x5
  generalize (byteAt p 0 == 48#8) = x6
  cases x1 <;> cases x2 <;> cases x3 <;> cases x4 <;> cases x5 <;> cases x6 <;> rfl

theorem find_ite {α : Type} (q : α → Bool) (a : α) (l : List α) :
    (a :: l).find? q = if q a = true then some a else l.find? q := by
  cases h : q a <;> simp [List.find?, h]

theorem nul_cs (x : Byte) :
    (decide (x ≠ 0#8) && (x == 76#8)) = (x == 76#8) ∧ (decide (x ≠ 0#8) && (x == 108#8)) = (x == 108#8) ∧
    (decide (x ≠ 0#8) && (x == 85#8)) = (x == 85#8) ∧ (decide (x ≠ 0#8) && (x == 117#8)) = (x == 117#8) ∧
    (decide (x ≠ 0#8) && (toLower x == toLower 108#8)) = (toLower x == toLower 108#8) ∧
    (decide (x ≠ 0#8) && (toLower x == toLower 117#8)) = (toLower x == toLower 117#8) := by
  revert x; apply forall_byte; decide +kernel

theorem matchSuffix_eq (p : List Byte) (i : Nat) :
    G.convertPpInt_sel2 p i = (i + (matchSuffix p i).1, (matchSuffix p i).2) := by
  obtain ⟨a1, a2, a3, a4, a5, a6⟩ := nul_cs (byteAt p i)
  obtain ⟨b1, b2, b3, b4, b5, b6⟩ := nul_cs (byteAt p (i + 1))
  obtain ⟨c1, c2, c3, c4, c5, c6⟩ := nul_cs (byteAt p (i + 2))
  obtain ⟨_, _, s1, s2, s3, s4⟩ := sext_char (byteAt p i)
  unfold matchSuffix ChibiVerif.Gen.PpNum.convertPpInt_sel2
  simp only [suffixArms, find_ite, List.any_cons, List.any_nil, matchText, Bool.or_false, Bool.and_true, Nat.add_assoc, Nat.reduceAdd,
    tolower_eq, if_true, Bool.false_eq_true, if_false, a1, a2, a3, a4, a5, a6, b1, b2, b3, b4, b5, b6,
    c1, c2, c3, c4, c5, c6, s1, s2, s3, s4, Bool.or_eq_true, Bool.and_eq_true, beq_iff_eq, or_assoc, List.find?_nil]
  split
  · rfl
  · split
    · rfl
    · split
      · rfl
      · split
        · rfl
        · split
          · rfl
          · rfl

/-- **the hand model of `convert_pp_int` is the translated function** (on a token given as its own text, with the digit loop
    of the hand model as `strtoul`) -/
theorem translated_int (tok : List Byte) :
    ChibiVerif.Literals.convertPpInt tok = G.convertPpInt strtoulH tok 0 tok.length := by
  unfold ChibiVerif.Literals.convertPpInt ChibiVerif.Gen.PpNum.convertPpInt strtoulH
  rw [detectBase_eq]
  generalize G.convertPpInt_sel1 tok 0 = s1
  obtain ⟨q1, base⟩ := s1
  simp only
  generalize ChibiVerif.Literals.strtoul tok q1 base = r
  obtain ⟨v, i⟩ := r
  simp only [matchSuffix_eq]
  generalize matchSuffix tok i = m
  obtain ⟨n, l, u⟩ := m
  simp only [Nat.zero_add]

end ChibiVerif.Lemmas.PpInt
