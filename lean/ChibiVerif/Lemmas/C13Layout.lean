/-
C13 — the division sites of struct_decl / union_decl (parse.c) on Model/Layout.lean.

`align_to(n, 0)` and `bits / (sz * 8)` with `sz == 0` are SIGFPE in cc1; the model makes them the outcome
`Fail.divByZero`.  This file characterises EXACTLY which member lists reach one of the three sites, and shows
that type descriptions whose aggregates carry a positive `aligned(n)` (or none) and whose bit-fields have a scalar
type never reach them (at any nesting depth).  Core Lean only.
-/
import ChibiVerif.Model.Layout

namespace ChibiVerif.C13Layout
open ChibiVerif.Layout ChibiVerif.Gen.Declspec

instance : Inhabited Fail := ⟨.divByZero⟩

/-! ## the three sites of struct_decl -/

/-- site 1/2 of `struct_decl`: the member is a bit-field whose type has size 0 (`align_to(bits, sz * 8)`,
    `bits / (sz * 8)`), or a plain member of a struct that is not packed whose alignment is 0
    (`align_to(bits, mem->align * 8)`) -/
def memDivSite (packed : Bool) (m : Mem) : Bool :=
  match m.bitWidth with
  | some _ => decide (m.size * 8 = 0)
  | none => !packed && decide (m.align * 8 = 0)

/-- `ty->align` after the member loop of `struct_decl` -/
def structAlign (packed : Bool) : Int → List Mem → Int
  | a, [] => a
  | a, m :: ms => structAlign packed (stepAlign packed a m) ms

/-- `ty->align` after the member loop of `union_decl` -/
def unionAlign (packed : Bool) (a0 : Int) (ms : List Mem) : Int := (unionLoop packed (STRUCT_INIT_SIZE : Nat) a0 ms).2

theorem alignToE_error (n a : Int) (e : Fail) : alignToE n a = .error e ↔ a = 0 := by
  unfold alignToE
  by_cases h : a = 0
  · simp [h]
  · simp [h]

theorem alignToE_ok (n a : Int) (h : a ≠ 0) : alignToE n a = .ok (alignTo n a) := by
  simp [alignToE, h]

theorem placeMember_error (packed : Bool) (bits : Int) (m : Mem) :
    (∃ e, placeMember packed bits m = .error e) ↔ memDivSite packed m = true := by
  unfold placeMember memDivSite
  cases hb : m.bitWidth with
  | none =>
    simp only
    cases packed with
    | true => simp [alignToE]
    | false =>
      by_cases h : m.align * 8 = 0
      · simp [alignToE, h]
      · simp [alignToE, h]
  | some w =>
    simp only
    by_cases h : m.size * 8 = 0
    · by_cases hw : w = 0
      · simp [hw, alignToE, h]
      · simp [hw, h]
    · by_cases hw : w = 0
      · simp [hw, alignToE, h]
      · simp [hw, h]

theorem structLoop_error (packed : Bool) : ∀ (ms : List Mem) (bits align : Int),
    (∃ e, structLoop packed bits align ms = .error e) ↔ ms.any (memDivSite packed) = true
  | [], bits, align => by simp [structLoop]
  | m :: ms, bits, align => by
    have hp := placeMember_error packed bits m
    simp only [structLoop, structStep, List.any_cons, Bool.or_eq_true]
    cases hpm : placeMember packed bits m with
    | error e =>
      have : memDivSite packed m = true := hp.1 ⟨e, hpm⟩
      simp [this]
    | ok r =>
      obtain ⟨b, p⟩ := r
      have hn : ¬ memDivSite packed m = true := by
        intro h; obtain ⟨e, he⟩ := hp.2 h; rw [hpm] at he; cases he
      have ih := structLoop_error packed ms b (stepAlign packed align m)
      simp only [hn]
      rw [← ih]
      cases hl : structLoop packed b (stepAlign packed align m) ms with
      | error e => simp
      | ok r => obtain ⟨b', a', ps⟩ := r; simp

theorem structLoop_ok_align (packed : Bool) : ∀ (ms : List Mem) (bits align b' a' : Int) (ps : List Placed),
    structLoop packed bits align ms = .ok (b', a', ps) → a' = structAlign packed align ms
  | [], bits, align, b', a', ps, h => by
    simp only [structLoop, Except.ok.injEq, Prod.mk.injEq] at h
    simp [structAlign, h.2.1]
  | m :: ms, bits, align, b', a', ps, h => by
    simp only [structLoop, structStep] at h
    cases hpm : placeMember packed bits m with
    | error e => simp [hpm] at h
    | ok r =>
      obtain ⟨b, p⟩ := r
      simp only [hpm] at h
      cases hl : structLoop packed b (stepAlign packed align m) ms with
      | error e => simp [hl] at h
      | ok r =>
        obtain ⟨b2, a2, ps2⟩ := r
        simp only [hl, Except.ok.injEq, Prod.mk.injEq] at h
        have := structLoop_ok_align packed ms b (stepAlign packed align m) b2 a2 ps2 hl
        simp only [structAlign]
        rw [← h.2.1, this]

/-- **exact characterisation** of the SIGFPE sites of `struct_decl` -/
theorem structLayout_error_iff (packed : Bool) (a0 : Int) (ms : List Mem) :
    structLayout packed a0 ms = .error .divByZero ↔
      (ms.any (memDivSite packed) = true ∨ structAlign packed a0 ms * 8 = 0) := by
  unfold structLayout
  have he := structLoop_error packed ms 0 a0
  cases hl : structLoop packed 0 a0 ms with
  | error e =>
    have : ms.any (memDivSite packed) = true := he.1 ⟨e, hl⟩
    cases e
    simp [this]
  | ok r =>
    obtain ⟨bits, align, ps⟩ := r
    have hn : ¬ ms.any (memDivSite packed) = true := by
      intro h; obtain ⟨e, he'⟩ := he.2 h; rw [hl] at he'; cases he'
    have ha := structLoop_ok_align packed ms 0 a0 bits align ps hl
    simp only [hn]
    rw [← ha]
    by_cases h0 : align * 8 = 0
    · simp [alignToE, h0]
    · simp [alignToE, h0]

theorem structLayout_ok_align (packed : Bool) (a0 : Int) (ms : List Mem) (l : Layout)
    (h : structLayout packed a0 ms = .ok l) : l.align = structAlign packed a0 ms := by
  unfold structLayout at h
  cases hl : structLoop packed 0 a0 ms with
  | error e => simp [hl] at h
  | ok r =>
    obtain ⟨bits, align, ps⟩ := r
    simp only [hl] at h
    have ha := structLoop_ok_align packed ms 0 a0 bits align ps hl
    by_cases h0 : align * 8 = 0
    · simp [alignToE, h0] at h
    · simp only [alignToE, h0, if_false, Except.ok.injEq] at h
      rw [← h, ha]

/-- **exact characterisation** of the SIGFPE site of `union_decl` (`align_to(ty->size, ty->align)`) -/
theorem unionLayout_error_iff (packed : Bool) (a0 : Int) (ms : List Mem) :
    unionLayout packed a0 ms = .error .divByZero ↔ unionAlign packed a0 ms = 0 := by
  unfold unionLayout unionAlign
  simp only
  by_cases h0 : (unionLoop packed (STRUCT_INIT_SIZE : Nat) a0 ms).2 = 0
  · simp [alignToE, h0]
  · simp [alignToE, h0]

theorem unionLayout_ok_align (packed : Bool) (a0 : Int) (ms : List Mem) (l : Layout)
    (h : unionLayout packed a0 ms = .ok l) : l.align = unionAlign packed a0 ms := by
  unfold unionLayout at h
  simp only at h
  by_cases h0 : (unionLoop packed (STRUCT_INIT_SIZE : Nat) a0 ms).2 = 0
  · simp [alignToE, h0] at h
  · simp only [alignToE, h0, if_false, Except.ok.injEq] at h
    rw [← h]; rfl

/-! ## `ty->align` only grows -/

theorem stepAlign_ge (packed : Bool) (a : Int) (m : Mem) : a ≤ stepAlign packed a m := by
  unfold stepAlign
  split
  · exact Int.le_refl _
  · split
    · rename_i h; simp only [Bool.and_eq_true, Bool.not_eq_true', decide_eq_true_eq] at h; omega
    · exact Int.le_refl _

theorem structAlign_ge (packed : Bool) : ∀ (ms : List Mem) (a : Int), a ≤ structAlign packed a ms
  | [], a => Int.le_refl _
  | m :: ms, a => Int.le_trans (stepAlign_ge packed a m) (structAlign_ge packed ms _)

theorem unionStep_ge (packed : Bool) (s a : Int) (m : Mem) : a ≤ (unionStep packed s a m).2 := by
  unfold unionStep
  split
  · exact Int.le_refl _
  · simp only
    split
    · rename_i h; simp only [Bool.and_eq_true, Bool.not_eq_true', decide_eq_true_eq] at h; omega
    · exact Int.le_refl _

theorem unionLoop_ge (packed : Bool) : ∀ (ms : List Mem) (s a : Int), a ≤ (unionLoop packed s a ms).2
  | [], s, a => Int.le_refl _
  | m :: ms, s, a => by
    simp only [unionLoop]
    exact Int.le_trans (unionStep_ge packed s a m) (unionLoop_ge packed ms _ _)

/-- a struct whose `aligned(n)` is positive (or absent: 1) and whose members do not hit site 1/2 is laid out -/
theorem structLayout_ok (packed : Bool) (a0 : Int) (ms : List Mem) (ha : 0 < a0)
    (hm : ms.any (memDivSite packed) = false) : ∃ l, structLayout packed a0 ms = .ok l ∧ 0 < l.align := by
  cases h : structLayout packed a0 ms with
  | ok l =>
    refine ⟨l, rfl, ?_⟩
    rw [structLayout_ok_align packed a0 ms l h]
    exact Int.lt_of_lt_of_le ha (structAlign_ge packed ms a0)
  | error e =>
    cases e
    rcases (structLayout_error_iff packed a0 ms).1 h with h1 | h1
    · rw [hm] at h1; cases h1
    · have := structAlign_ge packed ms a0; omega

theorem unionLayout_ok (packed : Bool) (a0 : Int) (ms : List Mem) (ha : 0 < a0) :
    ∃ l, unionLayout packed a0 ms = .ok l ∧ 0 < l.align := by
  cases h : unionLayout packed a0 ms with
  | ok l =>
    refine ⟨l, rfl, ?_⟩
    rw [unionLayout_ok_align packed a0 ms l h]
    exact Int.lt_of_lt_of_le ha (unionLoop_ge packed ms _ a0)
  | error e =>
    cases e
    have h1 := (unionLayout_error_iff packed a0 ms).1 h
    have := unionLoop_ge packed ms (STRUCT_INIT_SIZE : Nat) a0
    unfold unionAlign at h1; omega

/-! ## whole type descriptions -/

/-- the declared type of a bit-field is a scalar (C11 6.7.2.1p5 asks for `_Bool`, `int`, `unsigned`; chibicc accepts
    every type and divides by its size) -/
def isScalar : Ty → Bool
  | .prim _ => true
  | .enum => true
  | .ptr => true
  | _ => false

mutual
  /-- no aggregate of the description (at any depth) has `aligned(n)` with `n ≤ 0` or a bit-field whose declared type
      is not a scalar -/
  def tySafe : Ty → Bool
    | .prim _ => true
    | .enum => true
    | .ptr => true
    | .arr e _ => tySafe e
    | .flex e => tySafe e
    | .struct _ al ms => (match al with | some n => decide (0 < n) | none => true) && msSafe ms
    | .union _ al ms => (match al with | some n => decide (0 < n) | none => true) && msSafe ms
  def asSafe : Aligns → Bool
    | .nil => true
    | .const _ rest => asSafe rest
    | .type t rest => tySafe t && asSafe rest
  def msSafe : Members → Bool
    | .nil => true
    | .cons d as ty rest => asSafe as && tySafe ty && (d.bitWidth.isNone || isScalar ty) && msSafe rest
end

theorem prim_pos (t : TyName) : 0 < primSize t ∧ 0 < primAlign t := by
  cases t <;> decide

theorem scalar_size_pos (t : Ty) (h : isScalar t = true) (s _a : Int) (hs : t.sizeAlign = .ok (s, _a)) : 0 < s := by
  cases t with
  | prim t =>
    simp only [Ty.sizeAlign, Except.ok.injEq, Prod.mk.injEq] at hs
    rw [← hs.1]; exact (prim_pos t).1
  | enum =>
    simp only [Ty.sizeAlign, Except.ok.injEq, Prod.mk.injEq] at hs
    rw [← hs.1]; decide
  | ptr =>
    simp only [Ty.sizeAlign, Except.ok.injEq, Prod.mk.injEq] at hs
    rw [← hs.1]; decide
  | arr _ _ => cases h
  | flex _ => cases h
  | struct _ _ _ => cases h
  | union _ _ _ => cases h

theorem getD_pos (al : Option Int) (h : (match al with | some n => decide (0 < n) | none => true) = true) :
    0 < al.getD ((STRUCT_INIT_ALIGN : Nat) : Int) := by
  cases al with
  | none => decide
  | some n => simpa using h

theorem alignasCombine_nonneg (acc new : Int) (h : 0 ≤ acc) : 0 ≤ alignasCombine acc new := by
  unfold alignasCombine; split <;> omega

theorem memberAlign_pos (attr a : Int) (h1 : 0 ≤ attr) (h2 : 0 < a) : 0 < memberAlign attr a := by
  unfold memberAlign; split <;> omega

/-- what the member list of a safe description looks like to struct_decl/union_decl -/
def MemsGood (l : List Mem) : Prop := ∀ m ∈ l, 0 < m.align ∧ (m.bitWidth.isSome = true → 0 < m.size)

theorem memsGood_noSite (packed : Bool) (l : List Mem) (h : MemsGood l) : l.any (memDivSite packed) = false := by
  rw [Bool.eq_false_iff]
  intro hc
  rw [List.any_eq_true] at hc
  obtain ⟨m, hm, hs⟩ := hc
  have := h m hm
  unfold memDivSite at hs
  cases hb : m.bitWidth with
  | none =>
    simp only [hb, Bool.and_eq_true, Bool.not_eq_true', decide_eq_true_eq] at hs
    omega
  | some w =>
    simp only [hb, decide_eq_true_eq] at hs
    have := this.2 (by simp [hb])
    omega

mutual
  theorem ty_safe_ok : ∀ (t : Ty), tySafe t = true → ∃ s a, t.sizeAlign = .ok (s, a) ∧ 0 < a
    | .prim t, _ => ⟨_, _, rfl, (prim_pos t).2⟩
    | .enum, _ => ⟨_, _, rfl, by decide⟩
    | .ptr, _ => ⟨_, _, rfl, by decide⟩
    | .arr e n, h => by
      simp only [tySafe] at h
      obtain ⟨s, a, hs, ha⟩ := ty_safe_ok e h
      exact ⟨s * n, a, by simp [Ty.sizeAlign, hs, bind, Except.bind, pure, Except.pure], ha⟩
    | .flex e, h => by
      simp only [tySafe] at h
      obtain ⟨s, a, hs, ha⟩ := ty_safe_ok e h
      exact ⟨s * 0, a, by simp [Ty.sizeAlign, hs, bind, Except.bind, pure, Except.pure], ha⟩
    | .struct p al ms, h => by
      simp only [tySafe, Bool.and_eq_true] at h
      obtain ⟨l, hl, hg⟩ := ms_safe_ok ms h.2
      obtain ⟨lay, hlay, hpos⟩ := structLayout_ok p (al.getD ((STRUCT_INIT_ALIGN : Nat) : Int)) l (getD_pos al h.1)
        (memsGood_noSite p l hg)
      exact ⟨lay.size, lay.align, by simp [Ty.sizeAlign, hl, hlay, bind, Except.bind, pure, Except.pure], hpos⟩
    | .union p al ms, h => by
      simp only [tySafe, Bool.and_eq_true] at h
      obtain ⟨l, hl, _⟩ := ms_safe_ok ms h.2
      obtain ⟨lay, hlay, hpos⟩ := unionLayout_ok p (al.getD ((STRUCT_INIT_ALIGN : Nat) : Int)) l (getD_pos al h.1)
      exact ⟨lay.size, lay.align, by simp [Ty.sizeAlign, hl, hlay, bind, Except.bind, pure, Except.pure], hpos⟩
  theorem as_safe_ok : ∀ (as : Aligns), asSafe as = true → ∀ acc : Int, 0 ≤ acc → ∃ r, as.eval acc = .ok r ∧ 0 ≤ r
    | .nil, _, acc, hacc => ⟨acc, rfl, hacc⟩
    | .const n rest, h, acc, hacc => by
      simp only [asSafe] at h
      obtain ⟨r, hr, hr0⟩ := as_safe_ok rest h _ (alignasCombine_nonneg acc (alignasOfConst n) hacc)
      exact ⟨r, by simp [Aligns.eval, hr], hr0⟩
    | .type t rest, h, acc, hacc => by
      simp only [asSafe, Bool.and_eq_true] at h
      obtain ⟨s, a, hs, _⟩ := ty_safe_ok t h.1
      obtain ⟨r, hr, hr0⟩ := as_safe_ok rest h.2 _ (alignasCombine_nonneg acc (alignasOfType s a) hacc)
      exact ⟨r, by simp [Aligns.eval, hs, bind, Except.bind, hr], hr0⟩
  theorem ms_safe_ok : ∀ (ms : Members), msSafe ms = true → ∃ l, ms.toMems = .ok l ∧ MemsGood l
    | .nil, _ => ⟨[], rfl, by intro m hm; cases hm⟩
    | .cons d as ty rest, h => by
      simp only [msSafe, Bool.and_eq_true, Bool.or_eq_true] at h
      obtain ⟨⟨⟨has, hty⟩, hbf⟩, hrest⟩ := h
      obtain ⟨r, hr, hr0⟩ := as_safe_ok as has 0 (Int.le_refl 0)
      obtain ⟨s, a, hs, ha⟩ := ty_safe_ok ty hty
      obtain ⟨tl, htl, hg⟩ := ms_safe_ok rest hrest
      refine ⟨{ size := s, align := memberAlign r a, bitWidth := d.bitWidth, named := d.named } :: tl,
        by simp [Members.toMems, hr, hs, htl, bind, Except.bind, pure, Except.pure], ?_⟩
      intro m hm
      rcases List.mem_cons.1 hm with rfl | hm
      · refine ⟨memberAlign_pos r a hr0 ha, ?_⟩
        intro hb
        simp only at hb
        rcases hbf with hn | hsc
        · rw [Option.isNone_iff_eq_none] at hn; rw [hn] at hb; cases hb
        · exact scalar_size_pos ty hsc s a hs
      · exact hg m hm
end

/-- a safe description has a layout: no SIGFPE site is reached at any depth -/
theorem layout_safe_ok (t : Ty) (h : tySafe t = true) : ∃ l, t.layout = .ok l := by
  cases t with
  | struct p al ms =>
    simp only [tySafe, Bool.and_eq_true] at h
    obtain ⟨l, hl, hg⟩ := ms_safe_ok ms h.2
    obtain ⟨lay, hlay, _⟩ := structLayout_ok p (al.getD ((STRUCT_INIT_ALIGN : Nat) : Int)) l (getD_pos al h.1)
      (memsGood_noSite p l hg)
    exact ⟨lay, by simp [Ty.layout, hl, hlay, bind, Except.bind]⟩
  | union p al ms =>
    simp only [tySafe, Bool.and_eq_true] at h
    obtain ⟨l, hl, _⟩ := ms_safe_ok ms h.2
    obtain ⟨lay, hlay, _⟩ := unionLayout_ok p (al.getD ((STRUCT_INIT_ALIGN : Nat) : Int)) l (getD_pos al h.1)
    exact ⟨lay, by simp [Ty.layout, hl, hlay, bind, Except.bind]⟩
  | prim t =>
    obtain ⟨s, a, hs, _⟩ := ty_safe_ok (.prim t) h
    exact ⟨{ size := s, align := a, placed := [] }, by simp [Ty.layout, hs, bind, Except.bind, pure, Except.pure]⟩
  | enum =>
    obtain ⟨s, a, hs, _⟩ := ty_safe_ok .enum h
    exact ⟨{ size := s, align := a, placed := [] }, by simp [Ty.layout, hs, bind, Except.bind, pure, Except.pure]⟩
  | ptr =>
    obtain ⟨s, a, hs, _⟩ := ty_safe_ok .ptr h
    exact ⟨{ size := s, align := a, placed := [] }, by simp [Ty.layout, hs, bind, Except.bind, pure, Except.pure]⟩
  | arr e n =>
    obtain ⟨s, a, hs, _⟩ := ty_safe_ok (.arr e n) h
    exact ⟨{ size := s, align := a, placed := [] }, by simp [Ty.layout, hs, bind, Except.bind, pure, Except.pure]⟩
  | flex e =>
    obtain ⟨s, a, hs, _⟩ := ty_safe_ok (.flex e) h
    exact ⟨{ size := s, align := a, placed := [] }, by simp [Ty.layout, hs, bind, Except.bind, pure, Except.pure]⟩

end ChibiVerif.C13Layout
