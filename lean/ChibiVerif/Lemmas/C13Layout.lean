/-
C13 — the division sites of struct_decl / union_decl (parse.c) on Model/Layout.lean.

`align_to(n, 0)` and `bits / (sz * 8)` with `sz == 0` are SIGFPE in cc1; the model makes them the outcome
`Fail.divByZero`.  This file characterises EXACTLY which member lists reach one of the three sites, and shows
that member lists with positive alignments and bit-fields of non-zero size never reach them.  (Whole type descriptions:
Lemmas/LayoutTotal.lean of C08, on the model that follows the parser's checks of fixes 04ba5b8 / fb20c9b.)  Core Lean only.
-/
import ChibiVerif.Model.Layout

namespace ChibiVerif.C13Layout
open ChibiVerif.Layout ChibiVerif.Gen.Declspec

instance : Inhabited Fail := ⟨.divByZero⟩

/-! ## the three sites of struct_decl -/

/-- site 1/2 of `struct_decl`: the member is a bit-field whose type has size 0 (`align_to(bits, sz * 8)`,
    `bits / (sz * 8)`), or a plain member of a struct that is not packed whose alignment is 0
    (`align_to(bits, mem->align * 8)`) -/
def memDivSite (packed : Bool) (m : Mem) : Bool :=
  match m.bitWidth with
  | some _ => decide (m.size * 8 = 0)
  | none => !packed && decide (m.align * 8 = 0)

/-- `ty->align` after the member loop of `struct_decl` -/
def structAlign (packed : Bool) : Int → List Mem → Int
  | a, [] => a
  | a, m :: ms => structAlign packed (stepAlign packed a m) ms

/-- `ty->align` after the member loop of `union_decl` -/
def unionAlign (packed : Bool) (a0 : Int) (ms : List Mem) : Int := (unionLoop packed (STRUCT_INIT_SIZE : Nat) a0 ms).2

theorem alignToE_error (n a : Int) (e : Fail) : alignToE n a = .error e ↔ a = 0 := by
  unfold alignToE
  by_cases h : a = 0
  · simp [h]
  · simp [h]

theorem alignToE_ok (n a : Int) (h : a ≠ 0) : alignToE n a = .ok (alignTo n a) := by
  simp [alignToE, h]

theorem placeMember_error (packed : Bool) (bits : Int) (m : Mem) :
    (∃ e, placeMember packed bits m = .error e) ↔ memDivSite packed m = true := by
  unfold placeMember memDivSite
  cases hb : m.bitWidth with
  | none =>
    simp only
    cases packed with
    | true => simp [alignToE]
    | false =>
      by_cases h : m.align * 8 = 0
      · simp [alignToE, h]
      · simp [alignToE, h]
  | some w =>
    simp only
    by_cases h : m.size * 8 = 0
    · by_cases hw : w = 0
      · simp [hw, alignToE, h]
      · simp [hw, h]
    · by_cases hw : w = 0
      · simp [hw, alignToE, h]
      · simp [hw, h]

theorem structLoop_error (packed : Bool) : ∀ (ms : List Mem) (bits align : Int),
    (∃ e, structLoop packed bits align ms = .error e) ↔ ms.any (memDivSite packed) = true
  | [], bits, align => by simp [structLoop]
  | m :: ms, bits, align => by
    have hp := placeMember_error packed bits m
    simp only [structLoop, structStep, List.any_cons, Bool.or_eq_true]
    cases hpm : placeMember packed bits m with
    | error e =>
      have : memDivSite packed m = true := hp.1 ⟨e, hpm⟩
      simp [this]
    | ok r =>
      obtain ⟨b, p⟩ := r
      have hn : ¬ memDivSite packed m = true := by
        intro h; obtain ⟨e, he⟩ := hp.2 h; rw [hpm] at he; cases he
      have ih := structLoop_error packed ms b (stepAlign packed align m)
      simp only [hn]
      rw [← ih]
      cases hl : structLoop packed b (stepAlign packed align m) ms with
      | error e => simp
      | ok r => obtain ⟨b', a', ps⟩ := r; simp

theorem structLoop_ok_align (packed : Bool) : ∀ (ms : List Mem) (bits align b' a' : Int) (ps : List Placed),
    structLoop packed bits align ms = .ok (b', a', ps) → a' = structAlign packed align ms
  | [], bits, align, b', a', ps, h => by
    simp only [structLoop, Except.ok.injEq, Prod.mk.injEq] at h
    simp [structAlign, h.2.1]
  | m :: ms, bits, align, b', a', ps, h => by
    simp only [structLoop, structStep] at h
    cases hpm : placeMember packed bits m with
    | error e => simp [hpm] at h
    | ok r =>
      obtain ⟨b, p⟩ := r
      simp only [hpm] at h
      cases hl : structLoop packed b (stepAlign packed align m) ms with
      | error e => simp [hl] at h
      | ok r =>
        obtain ⟨b2, a2, ps2⟩ := r
        simp only [hl, Except.ok.injEq, Prod.mk.injEq] at h
        have := structLoop_ok_align packed ms b (stepAlign packed align m) b2 a2 ps2 hl
        simp only [structAlign]
        rw [← h.2.1, this]

/-- **exact characterisation** of the SIGFPE sites of `struct_decl` -/
theorem structLayout_error_iff (packed : Bool) (a0 : Int) (ms : List Mem) :
    structLayout packed a0 ms = .error .divByZero ↔
      (ms.any (memDivSite packed) = true ∨ structAlign packed a0 ms * 8 = 0) := by
  unfold structLayout
  have he := structLoop_error packed ms 0 a0
  cases hl : structLoop packed 0 a0 ms with
  | error e =>
    have : ms.any (memDivSite packed) = true := he.1 ⟨e, hl⟩
    cases e
    simp [this]
  | ok r =>
    obtain ⟨bits, align, ps⟩ := r
    have hn : ¬ ms.any (memDivSite packed) = true := by
      intro h; obtain ⟨e, he'⟩ := he.2 h; rw [hl] at he'; cases he'
    have ha := structLoop_ok_align packed ms 0 a0 bits align ps hl
    simp only [hn]
    rw [← ha]
    by_cases h0 : align * 8 = 0
    · simp [alignToE, h0]
    · simp [alignToE, h0]

theorem structLayout_ok_align (packed : Bool) (a0 : Int) (ms : List Mem) (l : Layout)
    (h : structLayout packed a0 ms = .ok l) : l.align = structAlign packed a0 ms := by
  unfold structLayout at h
  cases hl : structLoop packed 0 a0 ms with
  | error e => simp [hl] at h
  | ok r =>
    obtain ⟨bits, align, ps⟩ := r
    simp only [hl] at h
    have ha := structLoop_ok_align packed ms 0 a0 bits align ps hl
    by_cases h0 : align * 8 = 0
    · simp [alignToE, h0] at h
    · simp only [alignToE, h0, if_false, Except.ok.injEq] at h
      rw [← h, ha]

/-- **exact characterisation** of the SIGFPE site of `union_decl` (`align_to(ty->size, ty->align)`) -/
theorem unionLayout_error_iff (packed : Bool) (a0 : Int) (ms : List Mem) :
    unionLayout packed a0 ms = .error .divByZero ↔ unionAlign packed a0 ms = 0 := by
  unfold unionLayout unionAlign
  simp only
  by_cases h0 : (unionLoop packed (STRUCT_INIT_SIZE : Nat) a0 ms).2 = 0
  · simp [alignToE, h0]
  · simp [alignToE, h0]

theorem unionLayout_ok_align (packed : Bool) (a0 : Int) (ms : List Mem) (l : Layout)
    (h : unionLayout packed a0 ms = .ok l) : l.align = unionAlign packed a0 ms := by
  unfold unionLayout at h
  simp only at h
  by_cases h0 : (unionLoop packed (STRUCT_INIT_SIZE : Nat) a0 ms).2 = 0
  · simp [alignToE, h0] at h
  · simp only [alignToE, h0, if_false, Except.ok.injEq] at h
    rw [← h]; rfl

/-! ## `ty->align` only grows -/

theorem stepAlign_ge (packed : Bool) (a : Int) (m : Mem) : a ≤ stepAlign packed a m := by
  unfold stepAlign
  split
  · exact Int.le_refl _
  · split
    · rename_i h; simp only [Bool.and_eq_true, Bool.not_eq_true', decide_eq_true_eq] at h; omega
    · exact Int.le_refl _

theorem structAlign_ge (packed : Bool) : ∀ (ms : List Mem) (a : Int), a ≤ structAlign packed a ms
  | [], a => Int.le_refl _
  | m :: ms, a => Int.le_trans (stepAlign_ge packed a m) (structAlign_ge packed ms _)

theorem unionStep_ge (packed : Bool) (s a : Int) (m : Mem) : a ≤ (unionStep packed s a m).2 := by
  unfold unionStep
  split
  · exact Int.le_refl _
  · simp only
    split
    · rename_i h; simp only [Bool.and_eq_true, Bool.not_eq_true', decide_eq_true_eq] at h; omega
    · exact Int.le_refl _

theorem unionLoop_ge (packed : Bool) : ∀ (ms : List Mem) (s a : Int), a ≤ (unionLoop packed s a ms).2
  | [], s, a => Int.le_refl _
  | m :: ms, s, a => by
    simp only [unionLoop]
    exact Int.le_trans (unionStep_ge packed s a m) (unionLoop_ge packed ms _ _)

/-- a struct whose `aligned(n)` is positive (or absent: 1) and whose members do not hit site 1/2 is laid out -/
theorem structLayout_ok (packed : Bool) (a0 : Int) (ms : List Mem) (ha : 0 < a0)
    (hm : ms.any (memDivSite packed) = false) : ∃ l, structLayout packed a0 ms = .ok l ∧ 0 < l.align := by
  cases h : structLayout packed a0 ms with
  | ok l =>
    refine ⟨l, rfl, ?_⟩
    rw [structLayout_ok_align packed a0 ms l h]
    exact Int.lt_of_lt_of_le ha (structAlign_ge packed ms a0)
  | error e =>
    cases e
    rcases (structLayout_error_iff packed a0 ms).1 h with h1 | h1
    · rw [hm] at h1; cases h1
    · have := structAlign_ge packed ms a0; omega

theorem unionLayout_ok (packed : Bool) (a0 : Int) (ms : List Mem) (ha : 0 < a0) :
    ∃ l, unionLayout packed a0 ms = .ok l ∧ 0 < l.align := by
  cases h : unionLayout packed a0 ms with
  | ok l =>
    refine ⟨l, rfl, ?_⟩
    rw [unionLayout_ok_align packed a0 ms l h]
    exact Int.lt_of_lt_of_le ha (unionLoop_ge packed ms _ a0)
  | error e =>
    cases e
    have h1 := (unionLayout_error_iff packed a0 ms).1 h
    have := unionLoop_ge packed ms (STRUCT_INIT_SIZE : Nat) a0
    unfold unionAlign at h1; omega

end ChibiVerif.C13Layout
