/-
C06, argument conversions: the argument loop of parse.c `funcall()` (Model/C06Args.lean over the translated
`Gen.Funcall.argStep`) against C11 6.5.2.2 (Spec/C06ArgsSpec.lean), for parameter and argument lists of any length.
-/
import ChibiVerif.Model.C06Args
import ChibiVerif.Spec.C06ArgsSpec

namespace ChibiVerif.C06Args
open ChibiVerif.Gen.CommonType ChibiVerif.Gen.Funcall
open ChibiVerif.Spec.IntSpec ChibiVerif.Spec.FpC11 ChibiVerif.Spec.CallArgs

/-- the chibicc `Type` descriptor of a passable C type -/
def descrS : STy → TyD
  | .arith a => descrA a
  | .ptr => ty_ptr
  | .enum => ty_enum
  | .agg u sz => ⟨if u then .TY_UNION else .TY_STRUCT, sz, false, false⟩

/-- integer types of rank below `int`: the promotion changes the type but not the register image (`C06_arg_promote`) -/
def narrowInt : STy → Bool
  | .arith (.int t) => decide (t.rank < ITy.i32.rank)
  | _ => false

/-- argument of type `a` wrapped in `casts` is passed with the type `t` the specification asks for: the converted type is
    `t`; or `t` is a struct/union type and the argument is handed over unchanged (6.5.2.2p2: it has that type); or `a` is an
    integer type narrower than `int`, `t = int` and no cast was inserted -/
def passedAs (a : STy) (casts : List TyD) (t : STy) : Bool :=
  match t with
  | .agg .. => casts.isEmpty
  | _ => tyAfter (descrS a) casts == descrS t || (casts.isEmpty && narrowInt a && t == .arith (.int .i32))

def allPassed : List STy → List (List TyD) → List STy → Bool
  | [], [], [] => true
  | a :: as, c :: cs, t :: ts => passedAs a c t && allPassed as cs ts
  | _, _, _ => false

/-- the outcome of `funcall()` is the outcome 6.5.2.2 prescribes -/
def agrees (spec : Except Diag (List STy)) (impl : Except String (List (List TyD))) (args : List STy) : Prop :=
  match spec, impl with
  | .error .tooFew, .error m => m = "too few arguments"
  | .error .tooMany, .error m => m = "too many arguments"
  | .ok ts, .ok cs => allPassed args cs ts = true
  | _, _ => False

theorem passedTypes_cons (p a : STy) (ps as : List STy) (v : Bool) :
    passedTypes (p :: ps) v (a :: as) = (passedTypes ps v as).map (p :: ·) := by
  simp only [passedTypes, List.length_cons, Nat.add_lt_add_iff_right, List.drop_succ_cons]
  split
  · rfl
  · split <;> rfl

theorem descrS_agg_kind (t : STy) :
    ((descrS t).kind != Kind.TY_STRUCT && (descrS t).kind != Kind.TY_UNION) = (match t with | .agg .. => false | _ => true) := by
  cases t with
  | arith a => cases a with
    | int t => cases t <;> rfl
    | f32 => rfl
    | f64 => rfl
    | f80 => rfl
  | ptr => rfl
  | enum => rfl
  | agg u sz => cases u <;> rfl

theorem descrS_float (t : STy) : ((descrS t).kind == Kind.TY_FLOAT) = (t == .arith .f32) := by
  cases t with
  | arith a => cases a with
    | int t => cases t <;> rfl
    | f32 => rfl
    | f64 => rfl
    | f80 => rfl
  | ptr => rfl
  | enum => rfl
  | agg u sz => cases u <;> rfl

/-- a trailing argument -/
theorem passedAs_tail (a : STy) :
    passedAs a (if a == .arith .f32 then [ty_double] else []) (defaultPromote a) = true := by
  cases a with
  | arith x => cases x with
    | int t => cases t <;> decide
    | f32 => decide
    | f64 => decide
    | f80 => decide
  | ptr => decide
  | enum => decide
  | agg u sz => simp [passedAs, defaultPromote]

def nonAgg : STy → Bool
  | .agg .. => false
  | _ => true

theorem argStep_tail (a : STy) :
    argStep true none (descrS a) = .ok (if a == .arith .f32 then [ty_double] else []) false := by
  simp only [argStep, Option.isSome_none, Bool.not_false, Bool.not_true, Bool.and_false, Bool.false_eq_true, if_false,
    descrS_float]
  split <;> rfl

theorem argStep_many (d : TyD) : argStep false none d = .diag "too many arguments" := by
  simp [argStep]

theorem argStep_param (v : Bool) (p a : STy) :
    argStep v (some (descrS p)) (descrS a) = .ok (if nonAgg p then [descrS p] else []) true := by
  simp only [argStep, Option.isSome_some, Bool.not_true, Bool.false_and, Bool.false_eq_true, if_false, descrS_agg_kind]
  cases p <;> rfl

theorem loop_tail_cons (a : STy) (ds : List TyD) :
    funcallLoop true [] (descrS a :: ds) =
      (funcallLoop true [] ds).map ((if a == .arith .f32 then [ty_double] else []) :: ·) := by
  simp only [funcallLoop, List.head?_nil, argStep_tail, Bool.false_eq_true, if_false]

theorem loop_param_cons (v : Bool) (p a : STy) (ps ds : List TyD) :
    funcallLoop v (descrS p :: ps) (descrS a :: ds) =
      (funcallLoop v ps ds).map ((if nonAgg p then [descrS p] else []) :: ·) := by
  simp only [funcallLoop, List.head?_cons, argStep_param, if_true, List.tail_cons]

theorem passedAs_param' (a p : STy) : passedAs a (if nonAgg p then [descrS p] else []) p = true := by
  cases p <;> simp [passedAs, tyAfter, nonAgg]

theorem loop_tail (as : List STy) :
    ∃ cs, funcallLoop true [] (as.map descrS) = .ok cs ∧ allPassed as cs (as.map defaultPromote) = true := by
  induction as with
  | nil => exact ⟨[], by simp [funcallLoop, afterLoop], rfl⟩
  | cons a as ih =>
    obtain ⟨cs, h, hp⟩ := ih
    refine ⟨(if a == .arith .f32 then [ty_double] else []) :: cs, ?_, ?_⟩
    · rw [List.map_cons, loop_tail_cons, h]; rfl
    · simp only [List.map_cons, allPassed, passedAs_tail, hp, Bool.and_self]

/-- **the argument loop against 6.5.2.2**, any parameter list, any argument list -/
theorem funcall_agrees (ps as : List STy) (v : Bool) :
    agrees (passedTypes ps v as) (funcallLoop v (ps.map descrS) (as.map descrS)) as := by
  induction as generalizing ps with
  | nil =>
    cases ps with
    | nil => simp [agrees, passedTypes, funcallLoop, afterLoop, allPassed]
    | cons p ps => simp [agrees, passedTypes, funcallLoop, afterLoop]
  | cons a as ih =>
    cases ps with
    | nil =>
      cases v with
      | false => simp [agrees, passedTypes, funcallLoop, argStep_many]
      | true =>
        obtain ⟨cs, h, h2⟩ := loop_tail (a :: as)
        simp only [List.map_nil]
        rw [h]
        simpa [agrees, passedTypes] using h2
    | cons p ps =>
      rw [passedTypes_cons, List.map_cons, List.map_cons, loop_param_cons]
      have ih' := ih ps
      have hp := passedAs_param' a p
      cases hs : passedTypes ps v as with
      | error d =>
        rw [hs] at ih'
        cases hi : funcallLoop v (ps.map descrS) (as.map descrS) with
        | error m =>
          rw [hi] at ih'
          cases d <;> simpa [agrees, Except.map] using ih'
        | ok cs => rw [hi] at ih'; cases d <;> simp [agrees] at ih'
      | ok ts =>
        rw [hs] at ih'
        cases hi : funcallLoop v (ps.map descrS) (as.map descrS) with
        | error m => rw [hi] at ih'; simp [agrees] at ih'
        | ok cs =>
          rw [hi] at ih'
          simp only [agrees] at ih'
          simp [agrees, Except.map, allPassed, hp, ih']

end ChibiVerif.C06Args
