/-
C05, parser = specification: the simulation step for the struct and union functions (`struct_initializer2`,
`struct_initializer1`, `union_initializer`).
-/
import ChibiVerif.Lemmas.InitSimArr

namespace ChibiVerif.InitSpec
open ChibiVerif.Init

theorem cursorIn_struct_some {root : Ty} {top : Bool} {p : List Nat} {ms : Members} {sz : Nat} {fl0 : Bool} {i j : Nat}
    (ht : subTy root p = some (.struct ms sz fl0)) (hn : nextNamed ms ms.length i = some j) :
    cursorIn root top p i = some (p ++ [j]) := by
  simp [cursorIn, ht, hn]

theorem cursorIn_struct_none {root : Ty} {top : Bool} {p : List Nat} {ms : Members} {sz : Nat} {fl0 : Bool} {i : Nat}
    (ht : subTy root p = some (.struct ms sz fl0)) (hn : nextNamed ms ms.length i = none) :
    cursorIn root top p i = next root top p.reverse := by
  simp [cursorIn, ht, hn]

theorem cursorIn_struct_congr {root : Ty} {top : Bool} {p : List Nat} {ms : Members} {sz : Nat} {fl0 : Bool} {i i' : Nat}
    (ht : subTy root p = some (.struct ms sz fl0)) (hn : nextNamed ms ms.length i = nextNamed ms ms.length i') :
    cursorIn root top p i = cursorIn root top p i' := by
  simp only [cursorIn, ht, hn]

theorem cursorIn_union {root : Ty} {top : Bool} {p : List Nat} {ms : Members} {sz : Nat} {fl0 : Bool}
    (ht : subTy root p = some (.union ms sz fl0)) (i : Nat) : cursorIn root top p i = next root top p.reverse := by
  simp [cursorIn, ht]

theorem childTy_struct {ms : Members} {sz : Nat} {fl0 : Bool} {k : Nat} {mi : MemInfo} {t : Ty} (h : ms[k]? = some (mi, t)) :
    childTy (.struct ms sz fl0) k = some t := by
  simp [childTy, h]

theorem childTy_union {ms : Members} {sz : Nat} {fl0 : Bool} {k : Nat} {mi : MemInfo} {t : Ty} (h : ms[k]? = some (mi, t)) :
    childTy (.union ms sz fl0) k = some t := by
  simp [childTy, h]

/-- members `0 .. mem-1` are unnamed bit-fields: the first participating member is found from `mem` on -/
theorem nextNamed_prefix {ms : Members} : ∀ (mem : Nat), (∀ j, j < mem → ∃ mi t, ms[j]? = some (mi, t) ∧ unnamedBf mi = true) →
    nextNamed ms ms.length 0 = nextNamed ms ms.length mem
  | 0, _ => rfl
  | mem+1, h => by
    rw [nextNamed_prefix mem (fun j hj => h j (by omega))]
    obtain ⟨mi, t, hm, hu⟩ := h mem (by omega)
    exact nextNamed_skip hm hu

/-- an initializer without braces for (a part of) a struct/union that an expression of struct/union type initialised -/
theorem initItem_tok_xover {g : Nat} {root : Ty} {top : Bool} {obj : Init} {p : List Nat} {tok : ITok} {r : List ITok} {fl : Flags}
    {t : Ty} {c : Init} {res : Result} (hb : tok ≠ .lbrace) (ht : subTy root p = some t) (hs : stopsAt t tok = false)
    (hg : getAt obj p = some c) (ha : hasAggExpr c = true) (hr : initItem g root top obj [p] (tok :: r) fl = .ok res) :
    res.fl.clean = false := by
  cases hc : res.fl.clean with
  | false => rfl
  | true =>
    exfalso
    rw [initItem_tok _ _ _ _ _ _ _ _ hb] at hr
    obtain ⟨q, hq, hr⟩ := bind_eq_ok hr
    obtain ⟨obj', _, hr⟩ := bind_eq_ok hr
    obtain ⟨k, s, rfl⟩ := descend_below ht hs hq
    have := (Flags.clean_mk (Flags.clean_join (initList_clean _ _ _ _ _ _ _ _ _ hr hc)).2).2.1
    rw [exprAbove_below hg ha] at this
    cases this

theorem hasAggExpr_struct_none (cs : List Init) : hasAggExpr (.struct none cs) = false := rfl

theorem struct_expr_none {e : Option Expr} {cs : List Init} (h : hasAggExpr (.struct e cs) = false) : e = none := by
  cases e <;> simp [hasAggExpr] at h ⊢

theorem union_expr_none {e : Option Expr} {m : Option Nat} {cs : List Init} (h : hasAggExpr (.union e m cs) = false) : e = none := by
  cases e <;> simp [hasAggExpr] at h ⊢

theorem sim_struct2 {f : Nat} (ih : Sim f) : Struct2St (f+1) := by
  intro root top obj p ms sz fl0 c toks mem c' toks' hA h
  obtain ⟨e, cs, rfl, hms⟩ := struct_of_shaped hA.shapedc
  rw [structInit2] at h
  cases hm : ms[mem]? with
  | none =>
    simp only [hm] at h
    cases h
    refine ⟨hA.shapedc, fun hM _ g fl => ⟨g, ?_⟩⟩
    simp only [After, hM, cursorIn_struct_none hA.sub (nextNamed_past hm)]
    exact Imp.refl _
  | some m =>
    obtain ⟨mi, mty⟩ := m
    simp only [hm] at h
    split at h
    · rename_i hend
      cases h
      refine ⟨hA.shapedc, fun hM _ g fl => ⟨g, ?_⟩⟩
      simp only [After, hM]
      exact Imp.of_eq (initList_stopped _ _ _ _ _ _ _ _ (Or.inl hend))
    · rename_i hend
      split at h
      · rename_i hu
        obtain ⟨hs', himp⟩ := ih.struct2 (top := top) hA h
        refine ⟨hs', fun hM hE g fl => ?_⟩
        obtain ⟨g', h'⟩ := himp hM hE g fl
        refine ⟨g', ?_⟩
        have hu' : unnamedBf mi = true := hu
        rw [cursorIn_struct_congr hA.sub (nextNamed_skip hm hu')]
        exact h'
      · rename_i hu
        simp only [Bool.false_eq_true, ↓reduceIte] at h
        obtain ⟨toks1, hcomma, h⟩ := bind_eq_ok h
        have htoks := skipTok_ok hcomma
        subst htoks
        split at h
        · rename_i hd
          cases h
          refine ⟨hA.shapedc, fun hM _ g fl => ⟨g, ?_⟩⟩
          simp only [After, hM]
          exact Imp.of_eq (initList_stopped _ _ _ _ _ _ _ _ (Or.inr ⟨toks1, rfl, hd⟩))
        · rename_i hd
          obtain ⟨cm, hcm, h⟩ := bind_eq_ok h
          obtain ⟨⟨cm', toks2⟩, hinit, h⟩ := bind_eq_ok h
          simp only at h
          have hk : (Init.struct e cs).children[mem]? = some cm := getChild_ok hcm
          have hAm := hA.child (childTy_struct hm) hk
          obtain ⟨hsm, himp1⟩ := ih.init2 (top := top) hAm hinit
          -- the shape of the result does not depend on the specification's object
          have hs1 : shaped (.struct ms sz fl0) ((Init.struct e cs).setChild mem cm') = true := by
            simp only [Init.setChild, Init.withChildren, Init.children, shaped]
            exact shapedMs_set ms cs mem mi mty cm' hms hm hsm
          obtain ⟨hs', _⟩ := ih.struct2 (top := top) (At.root hA.ok hs1) h
          refine ⟨hs', fun hM hE g fl => ?_⟩
          have he := struct_expr_none hE
          subst he
          obtain ⟨e1, hA1, hM1⟩ := hA.set_child (childTy_struct hm) hk hsm
          rw [setAtM_one_struct] at hA1 hM1 e1
          obtain ⟨_, himp2⟩ := ih.struct2 (top := top) hA1 h
          cases g with
          | zero => exact ⟨0, Imp.of_error rfl⟩
          | succ g =>
            obtain ⟨g1, h1⟩ := himp1 g fl
            obtain ⟨g2, h2⟩ := himp2 hM1 rfl g1 fl
            refine ⟨g2, ?_⟩
            have hne : consumeEnd (ITok.comma :: toks1) = none := consumeEnd_none_of_isEnd (by simpa using hend)
            have hu' : unnamedBf mi = false := Bool.eq_false_iff.mpr hu
            have e0 : Imp (initList (g+1) root top obj (cursorIn root top p mem) (.comma :: toks1) false fl)
                (initItem g root top obj [p ++ [mem]] toks1 fl) := by
              refine Imp.of_item hne (Imp.of_eq ?_)
              have hd' : isDesg toks1 = false := by simpa using hd
              simp [skipTok, ok_bind, pathsOf, hd', cursorIn_struct_some hA.sub (nextNamed_here hm hu')]
            refine e0.trans ?_
            simp only [After] at h1 h2 ⊢
            rw [List.reverse_append, List.reverse_singleton, List.singleton_append, next_snoc] at h1
            have e3 : setAtM (setAtM obj (p ++ [mem]) cm') p c' = setAtM obj p c' := by rw [e1, setAtM_over hA]
            rw [e3] at h2
            exact h1.trans h2


theorem firstSub_struct (root : Ty) (top : Bool) (p : List Nat) (ms : Members) (sz : Nat) (fl0 : Bool) :
    firstSub root top p (.struct ms sz fl0) = nextNamed ms ms.length 0 := rfl

theorem firstSub_union (root : Ty) (top : Bool) (p : List Nat) (ms : Members) (sz : Nat) (fl0 : Bool) :
    firstSub root top p (.union ms sz fl0) = nextNamed ms ms.length 0 := rfl

theorem startable_not_isEnd {tok : ITok} {r : List ITok} (h : startable tok = true) : isEnd (tok :: r) = false := by
  cases he : isEnd (tok :: r) with
  | false => rfl
  | true => rw [isEnd_not_startable he] at h; cases h

theorem startable_not_isDesg {tok : ITok} {r : List ITok} (h : startable tok = true) : isDesg (tok :: r) = false := by
  cases he : isDesg (tok :: r) with
  | false => rfl
  | true => rw [isDesg_not_startable he] at h; cases h

theorem sim_struct20 {f : Nat} (ih : Sim f) : Struct20St (f+1) := by
  intro root top obj p ms sz fl0 c tok r mem c' toks' hA hb hst hns hpre h
  obtain ⟨e, cs, rfl, hms⟩ := struct_of_shaped hA.shapedc
  rw [structInit2] at h
  cases hm : ms[mem]? with
  | none =>
    simp only [hm] at h
    cases h
    refine ⟨hA.shapedc, fun g fl => ⟨g, ?_⟩⟩
    have hfs : firstSub root top p (.struct ms sz fl0) = none := by
      rw [firstSub_struct, nextNamed_prefix mem hpre, nextNamed_past hm]
    exact Imp.of_lhs_error (initItem_descend_none hb hA.sub hns hfs)
  | some m =>
    obtain ⟨mi, mty⟩ := m
    simp only [hm, startable_not_isEnd hst, Bool.false_eq_true, ↓reduceIte] at h
    split at h
    · rename_i hu
      have hu' : unnamedBf mi = true := hu
      refine ih.struct20 (top := top) hA hb hst hns (fun j hj => ?_) h
      by_cases hj' : j < mem
      · exact hpre j hj'
      · have : j = mem := by omega
        subst this
        exact ⟨mi, mty, hm, hu'⟩
    · rename_i hu
      have hu' : unnamedBf mi = false := Bool.eq_false_iff.mpr hu
      simp only [pure_bind', startable_not_isDesg hst, Bool.false_eq_true, ↓reduceIte] at h
      obtain ⟨cm, hcm, h⟩ := bind_eq_ok h
      obtain ⟨⟨cm', toks2⟩, hinit, h⟩ := bind_eq_ok h
      simp only at h
      have hk : (Init.struct e cs).children[mem]? = some cm := getChild_ok hcm
      have hAm := hA.child (childTy_struct hm) hk
      obtain ⟨hsm, himp1⟩ := ih.init2 (top := top) hAm hinit
      have hs1 : shaped (.struct ms sz fl0) ((Init.struct e cs).setChild mem cm') = true := by
        simp only [Init.setChild, Init.withChildren, Init.children, shaped]
        exact shapedMs_set ms cs mem mi mty cm' hms hm hsm
      obtain ⟨hs', _⟩ := ih.struct2 (top := top) (At.root hA.ok hs1) h
      refine ⟨hs', fun g fl => ?_⟩
      cases e with
      | some e0 =>
        refine ⟨0, fun res hres hcl => ?_⟩
        rw [initItem_tok_xover hb hA.sub hns hA.get rfl hres] at hcl
        cases hcl
      | none =>
        obtain ⟨e1, hA1, hM1⟩ := hA.set_child (childTy_struct hm) hk hsm
        rw [setAtM_one_struct] at hA1 hM1 e1
        obtain ⟨_, himp2⟩ := ih.struct2 (top := top) hA1 h
        obtain ⟨g1, h1⟩ := himp1 g fl
        obtain ⟨g2, h2⟩ := himp2 hM1 rfl g1 fl
        refine ⟨g2, ?_⟩
        have hfs : firstSub root top p (.struct ms sz fl0) = some mem := by
          rw [firstSub_struct, nextNamed_prefix mem hpre, nextNamed_here hm hu']
        have h0 := initItem_descend_step (g := g) (obj := obj) (r := r) (fl := fl) hb hA.sub hns hfs
        simp only [After] at h1 h2 ⊢
        rw [List.reverse_append, List.reverse_singleton, List.singleton_append, next_snoc] at h1
        have e3 : setAtM (setAtM obj (p ++ [mem]) cm') p c' = setAtM obj p c' := by rw [e1, setAtM_over hA]
        rw [e3] at h2
        exact (h0.trans h1).trans h2


theorem subOk_union_named {ms : Members} {sz : Nat} {fl0 : Bool} (h : subOk (.union ms sz fl0) = true) :
    ∃ k, nextNamed ms ms.length 0 = some k ∧ firstNamed ms ms.length 0 = k ∧ ms.isEmpty = false := by
  simp only [subOk, Bool.and_eq_true] at h
  cases hn : nextNamed ms ms.length 0 with
  | none => simp [hn] at h
  | some k =>
    refine ⟨k, rfl, firstNamed_spec ms _ 0 k hn, ?_⟩
    cases ms with
    | nil => simp [nextNamed] at hn
    | cons _ _ => rfl

theorem sim_union0 {f : Nat} (ih : Sim f) : Union0St (f+1) := by
  intro root top obj p ms sz fl0 c tok r c' toks' hA hb hst hns h
  obtain ⟨e, m, cs, rfl, hms⟩ := union_of_shaped hA.shapedc
  obtain ⟨k, hnn, hfn, hne⟩ := subOk_union_named hA.ok
  unfold unionInit at h
  split at h
  · rename_i heq; cases heq; exact absurd rfl hb
  · simp only [hne, Bool.false_eq_true, ↓reduceIte, hfn] at h
    split at h
    · rename_i heq; cases heq; exact absurd rfl hb
    · obtain ⟨mty, hmty, h⟩ := bind_eq_ok h
      obtain ⟨ck, hck, h⟩ := bind_eq_ok h
      obtain ⟨⟨ck', rest⟩, hinit, h⟩ := bind_eq_ok h
      cases h
      obtain ⟨mi, hm⟩ := memTy_ok hmty
      have hk : (Init.union e m cs).children[k]? = some ck := by
        have := getChild_ok hck
        simpa [Init.setMem, Init.children] using this
      have hAk := hA.child (childTy_union hm) hk
      obtain ⟨hsk, himp1⟩ := ih.init2 (top := top) hAk hinit
      have hs' : shaped (.union ms sz fl0) (((Init.union e m cs).setMem k).setChild k ck') = true := by
        simp only [Init.setMem, Init.setChild, Init.withChildren, Init.children, shaped, Bool.and_eq_true]
        exact ⟨shapedMs_set ms cs k mi mty ck' hms hm hsk, by simp⟩
      refine ⟨hs', fun g fl => ?_⟩
      cases e with
      | some e0 =>
        refine ⟨0, fun res hres hcl => ?_⟩
        rw [initItem_tok_xover hb hA.sub hns hA.get rfl hres] at hcl
        cases hcl
      | none =>
        obtain ⟨e1, _, _⟩ := hA.set_child (childTy_union hm) hk hsk
        rw [setAtM_one_union] at e1
        obtain ⟨g1, h1⟩ := himp1 g fl
        refine ⟨g1, ?_⟩
        have hfs : firstSub root top p (.union ms sz fl0) = some k := by rw [firstSub_union, hnn]
        have h0 := initItem_descend_step (g := g) (obj := obj) (r := r) (fl := fl) hb hA.sub hns hfs
        simp only [After] at h1 ⊢
        rw [List.reverse_append, List.reverse_singleton, List.singleton_append, next_snoc, cursorIn_union hA.sub, e1] at h1
        exact h0.trans h1


theorem cursorIn_struct_root {ms : Members} {sz : Nat} {fl0 : Bool} (top : Bool) (i : Nat) :
    cursorIn (.struct ms sz fl0) top [] i = (nextNamed ms ms.length i).map (fun j => [j]) := by
  cases hn : nextNamed ms ms.length i with
  | none => rw [cursorIn_struct_none rfl hn]; simp [next_nil]
  | some j => rw [cursorIn_struct_some rfl hn]; simp

theorem desigPaths_bracket_struct (ms : Members) (sz : Nat) (fl0 : Bool) (top : Bool) (d : Nat) (toks : List ITok)
    (h : isBracket toks = true) : ∃ e, desigPaths (.struct ms sz fl0) top d [[]] toks = .error e := by
  cases d with
  | zero => exact ⟨_, rfl⟩
  | succ d =>
    cases toks with
    | nil => simp [isBracket] at h
    | cons t r =>
      cases t <;> simp [isBracket] at h
      · rw [desigPaths]; simp [headTy, subTy]
      · rw [desigPaths]; simp [headTy, subTy]

theorem isDesg_not_dot {toks : List ITok} (hd : isDesg toks = true) (hn : ∀ n r, toks ≠ .dot n :: r) : isBracket toks = true := by
  rcases isDesg_cases hd with h | ⟨n, r, h⟩
  · exact h
  · exact absurd h (hn n r)

theorem sim_struct1loop {f : Nat} (ih : Sim f) : Struct1LoopSt (f+1) := by
  intro ms sz fl0 c toks mem first c' rest ho hs h
  obtain ⟨e, cs, rfl, hms⟩ := struct_of_shaped hs
  have hA := fun top => At.root (top := top) ho hs
  rw [structInit1Loop] at h
  cases hce : consumeEnd toks with
  | some rest0 =>
    simp only [hce] at h
    cases h
    refine ⟨hs, fun _ top g fl => ?_⟩
    cases g with
    | zero => exact Imp.of_error rfl
    | succ g => rw [initList_end _ _ _ _ _ _ _ _ _ hce]; exact Imp.refl _
  | none =>
    simp only [hce] at h
    rw [ite_bind_pull] at h
    obtain ⟨toks1, hfirst, h⟩ := bind_eq_ok h
    split at h
    · -- `.name` designator
      rename_i name r
      obtain ⟨⟨k, anon⟩, hsd, h⟩ := bind_eq_ok h
      obtain ⟨mty, hmty, h⟩ := bind_eq_ok h
      obtain ⟨ck, hck, h⟩ := bind_eq_ok h
      obtain ⟨⟨ck', tok2⟩, hd, h⟩ := bind_eq_ok h
      simp only at hmty hck hd h
      obtain ⟨mi, hm⟩ := memTy_ok hmty
      have hk : (Init.struct e cs).children[k]? = some ck := getChild_ok hck
      have hAk := fun top => (hA top).child (childTy_struct hm) hk
      obtain ⟨hsk, _⟩ := ih.desg (top := false) (hAk false) hd
      have hs1 : shaped (.struct ms sz fl0) ((Init.struct e cs).setChild k ck') = true := by
        simp only [Init.setChild, Init.withChildren, Init.children, shaped]
        exact shapedMs_set ms cs k mi mty ck' hms hm hsk
      obtain ⟨hs', himp2⟩ := ih.struct1loop ho hs1 h
      refine ⟨hs', fun hE top g fl => ?_⟩
      have he := struct_expr_none hE
      subst he
      obtain ⟨_, himp1⟩ := ih.desg (top := top) (hAk top) hd
      cases g with
      | zero => exact Imp.of_error rfl
      | succ g =>
        refine Imp.of_item hce ?_
        rw [hfirst, ok_bind]
        simp only [pathsOf, isDesg, ↓reduceIte]
        obtain ⟨j, mi', t', hkj, hmj, hcase⟩ := structDesignator_spec name ms 0 k anon hsd
        have hkj' : k = j := by omega
        subst hkj'
        rw [hm] at hmj
        cases hmj
        have key : ∀ d, Imp (afterDesg g (.struct ms sz fl0) top (.struct none cs) fl
              (desigPaths (.struct ms sz fl0) top (d + 1) [[]] (.dot name :: r))) (.ok ⟨c', rest, fl⟩) := by
          intro d
          rcases hcase with ⟨ha, hfm⟩ | ⟨ha, hagg, mp, hfm1, hfm⟩
          · subst ha
            rw [desigPaths_dot (p := []) (t := .struct ms sz fl0) d r rfl (by rw [findMember]; exact hfm) rfl]
            obtain ⟨g1, h1⟩ := himp1 g d fl
            simp only [Bool.false_eq_true, ↓reduceIte] at h1
            simp only [List.nil_append, After, List.reverse_cons, List.reverse_nil, next_snoc, setAtM_one_struct] at h1 ⊢
            exact h1.trans (himp2 rfl top g1 fl)
          · subst ha
            rw [desigPaths_dot (p := []) (t := .struct ms sz fl0) d r rfl (by rw [findMember]; exact hfm) rfl]
            obtain ⟨g1, h1⟩ := himp1 g (d+1) fl
            simp only [↓reduceIte] at h1
            rw [desigPaths_dot (p := [] ++ [k]) d r (hAk false).sub hfm1 hagg] at h1
            simp only [List.nil_append, After, List.reverse_cons, List.reverse_nil, next_snoc, setAtM_one_struct,
              List.cons_append] at h1 ⊢
            exact h1.trans (himp2 rfl top g1 fl)
        exact key _
    · -- positional
      rename_i hnd
      split at h
      · rename_i hlt
        obtain ⟨mty, hmty, h⟩ := bind_eq_ok h
        obtain ⟨cm, hcm, h⟩ := bind_eq_ok h
        obtain ⟨⟨cm', toks2⟩, hinit, h⟩ := bind_eq_ok h
        simp only at h
        obtain ⟨mi, hm⟩ := memTy_ok hmty
        have hk : (Init.struct e cs).children[skipUnnamedBf ms ms.length mem]? = some cm := getChild_ok hcm
        have hAm := fun top => (hA top).child (childTy_struct hm) hk
        obtain ⟨hsm, _⟩ := ih.init2 (top := false) (hAm false) hinit
        have hs1 : shaped (.struct ms sz fl0) ((Init.struct e cs).setChild (skipUnnamedBf ms ms.length mem) cm') = true := by
          simp only [Init.setChild, Init.withChildren, Init.children, shaped]
          exact shapedMs_set ms cs _ mi mty cm' hms hm hsm
        obtain ⟨hs', himp2⟩ := ih.struct1loop ho hs1 h
        refine ⟨hs', fun hE top g fl => ?_⟩
        have he := struct_expr_none hE
        subst he
        obtain ⟨_, himp1⟩ := ih.init2 (top := top) (hAm top) hinit
        cases g with
        | zero => exact Imp.of_error rfl
        | succ g =>
          refine Imp.of_item hce ?_
          rw [hfirst, ok_bind]
          by_cases hdg : isDesg toks1 = true
          · simp only [pathsOf, hdg, ↓reduceIte]
            obtain ⟨e', he'⟩ := desigPaths_bracket_struct ms sz fl0 top (toks1.length + 1) toks1 (isDesg_not_dot hdg hnd)
            rw [he']; exact Imp.of_error rfl
          · have hnn := skipUnnamedBf_spec ms ms.length mem (by omega)
            simp only [hlt, ↓reduceIte] at hnn
            simp only [pathsOf, hdg, Bool.false_eq_true, ↓reduceIte, cursorIn_struct_root, hnn, Option.map_some, pure_bind']
            obtain ⟨g1, h1⟩ := himp1 g fl
            simp only [List.nil_append, After, List.reverse_cons, List.reverse_nil, next_snoc, setAtM_one_struct] at h1
            exact h1.trans (himp2 rfl top g1 fl)
      · rename_i hlt
        obtain ⟨toks2, hskip, h⟩ := bind_eq_ok h
        obtain ⟨hs', himp2⟩ := ih.struct1loop ho hs h
        refine ⟨hs', fun hE top g fl => ?_⟩
        cases g with
        | zero => exact Imp.of_error rfl
        | succ g =>
          refine Imp.of_item hce ?_
          rw [hfirst, ok_bind]
          by_cases hdg : isDesg toks1 = true
          · simp only [pathsOf, hdg, ↓reduceIte]
            obtain ⟨e', he'⟩ := desigPaths_bracket_struct ms sz fl0 top (toks1.length + 1) toks1 (isDesg_not_dot hdg hnd)
            rw [he']; exact Imp.of_error rfl
          · have hnn := skipUnnamedBf_spec ms ms.length mem (by omega)
            simp only [hlt, ↓reduceIte] at hnn
            simp only [pathsOf, hdg, Bool.false_eq_true, ↓reduceIte, cursorIn_struct_root, hnn, Option.map_none, pure_bind']
            rw [initItem_excess]
            intro res hres hcl
            obtain ⟨r', hr', hres⟩ := bind_eq_ok hres
            have := skipExcess_fuel hskip hr'
            subst this
            have hc2 : cursorIn (.struct ms sz fl0) top [] (skipUnnamedBf ms ms.length mem) = none := by
              have hp : ms[skipUnnamedBf ms ms.length mem]? = none := List.getElem?_eq_none (by omega)
              rw [cursorIn_struct_root, nextNamed_past hp]; rfl
            have := himp2 hE top g fl
            rw [hc2] at this
            exact this res hres hcl

theorem sim_struct1 {f : Nat} (ih : Sim f) : Struct1St (f+1) := by
  intro ms sz fl0 c toks c' rest ho hs h
  rw [structInit1] at h
  obtain ⟨inner, hsk, h⟩ := bind_eq_ok h
  have := skipTok_ok hsk
  subst this
  obtain ⟨hs', himp⟩ := ih.struct1loop ho hs h
  refine ⟨hs', inner, rfl, fun hE top g fl => ?_⟩
  have : firstCursor (.struct ms sz fl0) = cursorIn (.struct ms sz fl0) top [] 0 := by
    rw [cursorIn_struct_root]; rfl
  rw [this]
  exact himp hE top g fl


theorem isEnd_cases {toks : List ITok} (h : isEnd toks = true) :
    (∃ r, toks = .rbrace :: r) ∨ (∃ r, toks = .comma :: .rbrace :: r) := by
  unfold isEnd at h
  split at h
  · exact Or.inl ⟨_, rfl⟩
  · exact Or.inr ⟨_, rfl⟩
  · cases h

theorem parseAssign_isEnd {toks : List ITok} (h : isEnd toks = true) : ∃ e, parseAssign toks = .error e := by
  rcases isEnd_cases h with ⟨r, rfl⟩ | ⟨r, rfl⟩ <;> exact ⟨_, rfl⟩

/-- at the end of a list `initializer2` consumes nothing and changes nothing (it succeeds for arrays only) -/
theorem init2_nothing {f : Nat} {ty : Ty} {toks : List ITok} {c c' : Init} {toks' : List ITok} (hs : shaped ty c = true)
    (ho : subOk ty = true) (he : isEnd toks = true) (h : initializer2 f ty toks c = .ok (c', toks')) : c' = c ∧ toks' = toks := by
  obtain ⟨e, hpa⟩ := parseAssign_isEnd he
  have hsb : startsBrace toks = false := by
    rcases isEnd_cases he with ⟨r, rfl⟩ | ⟨r, rfl⟩ <;> rfl
  cases f with
  | zero => cases h
  | succ f =>
    cases ty with
    | inc => simp [subOk] at ho
    | scalar sz k =>
      rw [initializer2] at h
      · rw [hpa] at h; cases h
      · intro r hr; subst hr; simp [isEnd] at he
    | struct ms sz fl0 =>
      rw [initializer2] at h
      simp only [hsb, Bool.false_eq_true, ↓reduceIte, hpa] at h
      cases h
    | union ms sz fl0 =>
      rw [initializer2] at h
      simp only [hsb, Bool.false_eq_true, ↓reduceIte, hpa] at h
      cases h
    | array elem len =>
      obtain ⟨cs, rfl, hlen, hall⟩ := arr_of_shaped hs
      have h2 : arrayInit2 f elem toks (.arr cs) 0 = .ok (c', toks') := by
        rcases isEnd_cases he with ⟨r, rfl⟩ | ⟨r, rfl⟩
        · rw [initializer2] at h
          · exact h
          · intro _ _ _ _ hh; cases hh
          · intro _ hh; cases hh
        · rw [initializer2] at h
          · exact h
          · intro _ _ _ _ hh; cases hh
          · intro _ hh; cases hh
      cases f with
      | zero => cases h2
      | succ f =>
        rw [arrayInit2] at h2
        · simp only [pure_bind'] at h2
          cases f with
          | zero => cases h2
          | succ f =>
            rw [arrayInit2Loop] at h2
            simp only [he, Bool.not_true, Bool.and_false, Bool.false_eq_true, ↓reduceIte] at h2
            cases h2
            exact ⟨rfl, rfl⟩
        · intro hh; cases hh

theorem strip_comma_rbrace {tok2 rest : List ITok}
    (h : skipTok .rbrace "}" (match tok2 with | .comma :: t => t | t => t) = .ok rest) : consumeEnd tok2 = some rest := by
  split at h
  · have := skipTok_ok h; subst this; rfl
  · rename_i hn
    have := skipTok_ok h; subst this; rfl

theorem firstCursor_union {ms : Members} {sz : Nat} {fl0 : Bool} {k : Nat} (h : nextNamed ms ms.length 0 = some k) :
    firstCursor (.union ms sz fl0) = some [k] := by
  simp [firstCursor, h]

theorem desigPaths_bracket_union (ms : Members) (sz : Nat) (fl0 : Bool) (top : Bool) (d : Nat) (toks : List ITok)
    (h : isBracket toks = true) : ∃ e, desigPaths (.union ms sz fl0) top d [[]] toks = .error e := by
  cases d with
  | zero => exact ⟨_, rfl⟩
  | succ d =>
    cases toks with
    | nil => simp [isBracket] at h
    | cons t r =>
      cases t <;> simp [isBracket] at h
      · rw [desigPaths]; simp [headTy, subTy]
      · rw [desigPaths]; simp [headTy, subTy]

theorem set_same {α : Type} {cs : List α} {k : Nat} {c : α} (h : cs[k]? = some c) : cs.set k c = cs := by
  obtain ⟨hlt, hc⟩ := List.getElem?_eq_some_iff.mp h
  subst hc
  exact List.set_getElem_self hlt

/-- the end of a union's list after its one initializer -/
theorem union_finish {g1 : Nat} {ms : Members} {sz : Nat} {fl0 : Bool} {top : Bool} {c1 : Init} {cur : Option (List Nat)}
    {tok2 rest : List ITok} {fl : Flags} {res : Result} {e : Option Expr} {k : Nat} {cs : List Init}
    (hc1 : c1 = .union e (some k) cs) (hce : consumeEnd tok2 = some rest)
    (h : initList g1 (.union ms sz fl0) top c1 cur tok2 false fl = .ok res) :
    defaultMember (.union ms sz fl0) res.obj = c1 ∧ res.rest = rest ∧ res.fl = fl := by
  cases g1 with
  | zero => cases h
  | succ g1 =>
    rw [initList_end _ _ _ _ _ _ _ _ _ hce] at h
    cases h
    subst hc1
    exact ⟨rfl, rfl, rfl⟩

theorem next_union_member {ms : Members} {sz : Nat} {fl0 : Bool} (top : Bool) (k : Nat) :
    next (.union ms sz fl0) top ([] ++ [k]).reverse = none := by
  have h := next_snoc (.union ms sz fl0) top [] k
  simp only [List.reverse_nil] at h
  simp only [List.nil_append, List.reverse_cons, List.reverse_nil]
  rw [h, cursorIn_union rfl]
  exact next_nil _ _

theorem sim_unionrest {f : Nat} (ih : Sim f) : UnionRestSt (f+1) := by
  intro ms sz fl0 c toks c' rest ho hs h
  obtain ⟨e, m, cs, rfl, hms⟩ := union_of_shaped hs
  rw [unionRest] at h
  cases hce : consumeEnd toks with
  | some rest0 =>
    simp only [hce] at h
    cases h
    refine ⟨hs, fun k cs0 hc => ⟨⟨k, cs0, hc⟩, fun top g fl res hres _ => ?_⟩⟩
    cases g with
    | zero => cases hres
    | succ g => rw [initList_end _ _ _ _ _ _ _ _ _ hce] at hres; cases hres; exact ⟨rfl, rfl, rfl⟩
  | none =>
    simp only [hce] at h
    obtain ⟨toks1, hcomma, h⟩ := bind_eq_ok h
    have hfirst : (if false = true then pure toks else skipTok ITok.comma "," toks) = .ok toks1 := by simpa using hcomma
    split at h
    · -- a designated initializer
      rename_i name r
      obtain ⟨⟨k', anon⟩, hsd, h⟩ := bind_eq_ok h
      obtain ⟨mty, hmty, h⟩ := bind_eq_ok h
      simp only at hmty h
      obtain ⟨mi, hm⟩ := memTy_ok hmty
      have hom : subOk mty = true := by
        simp only [subOk, Bool.and_eq_true] at ho
        exact subOkMs_get ms k' mi mty ho.1.2 hm
      -- the node after `if (mem != init->mem) reset; init->mem = mem`
      obtain ⟨cs1, hinit1, hms1, hsame⟩ : ∃ cs1, ((if (Init.union e m cs).mem? = some k' then Init.union e m cs
          else (Init.union e m cs).setChild k' (newInit mty false)).setMem k') = .union e (some k') cs1 ∧ shapedMs ms cs1 = true ∧
          (m = some k' → cs1 = cs) := by
        by_cases hmk : m = some k'
        · refine ⟨cs, ?_, hms, fun _ => rfl⟩
          simp [Init.mem?, hmk, Init.setMem]
        · refine ⟨cs.set k' (newInit mty false), ?_, shapedMs_set ms cs k' mi mty _ hms hm (shaped_newInit mty hom), fun h' => absurd h' hmk⟩
          simp [Init.mem?, hmk, Init.setMem, Init.setChild, Init.withChildren, Init.children]
      rw [hinit1] at h
      obtain ⟨ck, hck, h⟩ := bind_eq_ok h
      obtain ⟨⟨ck', tok2⟩, hd, hur⟩ := bind_eq_ok h
      simp only at hck hd hur
      have hk : cs1[k']? = some ck := by simpa [Init.children] using getChild_ok hck
      have hsk : shaped mty ck = true := shapedMs_get ms cs1 k' mi mty ck hms1 hm hk
      obtain ⟨hsk', _⟩ := ih.desg (top := false) (At.root hom hsk) hd
      have hnode : (Init.union e (some k') cs1).setChild k' ck' = .union e (some k') (cs1.set k' ck') := rfl
      rw [hnode] at hur
      have hs1 : shaped (.union ms sz fl0) (.union e (some k') (cs1.set k' ck')) = true := by
        simp only [shaped, Bool.and_eq_true]
        exact ⟨shapedMs_set ms cs1 k' mi mty ck' hms1 hm hsk', by simp⟩
      obtain ⟨hshape, hrestspec⟩ := ih.unionrest ho hs1 hur
      refine ⟨hshape, fun k cs0 hc => ?_⟩
      cases hc
      obtain ⟨hform, hsp⟩ := hrestspec k' (cs1.set k' ck') rfl
      refine ⟨hform, fun top g fl res hres hcl => ?_⟩
      cases g with
      | zero => cases hres
      | succ g =>
      replace hres := initList_item_imp _ _ _ _ _ _ _ _ hce hres hcl
      rw [hfirst, ok_bind] at hres
      simp only [pathsOf, isDesg, ↓reduceIte, List.length_cons] at hres
      obtain ⟨j, mi', t', hkj, hmj, hcase⟩ := structDesignator_spec name ms 0 k' anon hsd
      have hkj' : k' = j := by omega
      subst hkj'
      rw [hm] at hmj
      cases hmj
      by_cases hkk : k = k'
      · -- the member initialised so far
        subst hkk
        have hcs1 : cs1 = cs := hsame rfl
        subst hcs1
        have hAk := (At.root (top := top) ho hs).child (childTy_union hm) (show (Init.union none (some k) cs1).children[k]? = some ck by
          simpa [Init.children] using hk)
        obtain ⟨_, himp1⟩ := ih.desg (top := top) hAk hd
        have fin : ∀ g1, After (.union ms sz fl0) top (.union none (some k) cs1) ([] ++ [k]) ck' tok2 fl g1 = .ok res →
            res.obj = c' ∧ res.rest = rest ∧ res.fl = fl := by
          intro g1 hh
          simp only [After] at hh
          rw [next_union_member top k] at hh
          have e1 : setAtM (.union none (some k) cs1) ([] ++ [k]) ck' = .union none (some k) (cs1.set k ck') := by
            simp [setAtM]
          rw [e1] at hh
          exact hsp top g1 fl res hh hcl
        rcases hcase with ⟨ha, hfm⟩ | ⟨ha, hagg, mp, hfm1, hfm⟩
        · subst ha
          rw [desigPaths_dot (p := []) (t := .union ms sz fl0) _ r rfl (by rw [findMember]; exact hfm) rfl] at hres
          obtain ⟨g1, h1⟩ := himp1 g (r.length + 1) fl
          simp only [Bool.false_eq_true, ↓reduceIte] at h1
          exact fin g1 (h1 res hres hcl)
        · subst ha
          rw [desigPaths_dot (p := []) (t := .union ms sz fl0) _ r rfl (by rw [findMember]; exact hfm) rfl] at hres
          obtain ⟨g1, h1⟩ := himp1 g ((r.length + 1) + 1) fl
          simp only [↓reduceIte] at h1
          rw [desigPaths_dot (p := [] ++ [k]) _ r hAk.sub hfm1 hagg] at h1
          simp only [List.nil_append, List.cons_append] at h1 hres
          exact fin g1 (h1 res hres hcl)
      · -- another member: the specification's run notes the switch (`over`)
        exfalso
        have hdirty : ∀ (mp : List Nat) (d : Nat), (desigPaths (.union ms sz fl0) top d [[] ++ (k' :: mp)] r >>= fun pt =>
            initItem g (.union ms sz fl0) top (.union none (some k) cs) pt.1 pt.2 fl) = .ok res → False := by
          intro mp d hh
          obtain ⟨⟨ps, t⟩, hdp, hitem⟩ := bind_eq_ok hh
          obtain ⟨hl, hpre⟩ := desigPaths_inv _ _ _ _ _ _ _ hdp
          have hne : ps ≠ [] := by intro h0; rw [h0] at hl; simp at hl
          have := initItem_switch_dirty (k := k') hne hkk (fun q hq => by
            obtain ⟨p, hp, s', rfl⟩ := hpre q hq
            simp only [List.mem_singleton] at hp
            subst hp
            exact ⟨mp ++ s', by simp⟩) hitem
          rw [hcl] at this; cases this
        rcases hcase with ⟨_, hfm⟩ | ⟨_, _, mp, _, hfm⟩
        · rw [desigPaths_dot (p := []) (t := .union ms sz fl0) _ r rfl (by rw [findMember]; exact hfm) rfl] at hres
          exact hdirty [] _ hres
        · rw [desigPaths_dot (p := []) (t := .union ms sz fl0) _ r rfl (by rw [findMember]; exact hfm) rfl] at hres
          exact hdirty mp _ hres
    · -- an excess element
      rename_i hnd
      obtain ⟨toks2, hskip, hur⟩ := bind_eq_ok h
      obtain ⟨hshape, hrestspec⟩ := ih.unionrest ho hs hur
      refine ⟨hshape, fun k cs0 hc => ?_⟩
      obtain ⟨hform, hsp⟩ := hrestspec k cs0 hc
      refine ⟨hform, fun top g fl res hres hcl => ?_⟩
      cases g with
      | zero => cases hres
      | succ g =>
      replace hres := initList_item_imp _ _ _ _ _ _ _ _ hce hres hcl
      rw [hfirst, ok_bind] at hres
      by_cases hdg : isDesg toks1 = true
      · exfalso
        have hbr : isBracket toks1 = true := isDesg_not_dot hdg (fun n r hh => hnd n r hh)
        obtain ⟨e', he'⟩ := desigPaths_bracket_union ms sz fl0 top (toks1.length + 1) toks1 hbr
        simp only [pathsOf, hdg, ↓reduceIte, he'] at hres
        cases hres
      · simp only [pathsOf, hdg, Bool.false_eq_true, ↓reduceIte, pure_bind'] at hres
        rw [initItem_excess] at hres
        obtain ⟨r', hr', hres⟩ := bind_eq_ok hres
        have := skipExcess_fuel hskip hr'
        subst this
        exact hsp top g fl res hres hcl

theorem unionRest_end {f : Nat} {ms : Members} {toks rest0 : List ITok} {init c' : Init} {rest : List ITok}
    (hce : consumeEnd toks = some rest0) (h : unionRest f ms toks init = .ok (c', rest)) : c' = init ∧ rest = rest0 := by
  cases f with
  | zero => cases h
  | succ f =>
    rw [unionRest] at h
    simp only [hce] at h
    cases h
    exact ⟨rfl, rfl⟩

theorem sim_union1 {f : Nat} (ih : Sim f) : Union1St (f+1) := by
  intro ms sz fl0 c inner c' rest ho hs h
  obtain ⟨e, m, cs, rfl, hms⟩ := union_of_shaped hs
  obtain ⟨k0, hnn, hfn, hne⟩ := subOk_union_named ho
  have hA := fun top => At.root (top := top) ho hs
  unfold unionInit at h
  split at h
  · -- `{ .name …`
    rename_i name r heq
    cases heq
    obtain ⟨⟨k, anon⟩, hsd, h⟩ := bind_eq_ok h
    obtain ⟨mty, hmty, h⟩ := bind_eq_ok h
    obtain ⟨ck, hck, h⟩ := bind_eq_ok h
    obtain ⟨⟨ck', tok2⟩, hd, hur⟩ := bind_eq_ok h
    simp only at hur
    obtain ⟨mi, hm⟩ := memTy_ok hmty
    have hk : (Init.union e m cs).children[k]? = some ck := by
      have := getChild_ok hck
      simpa [Init.setMem, Init.children] using this
    have hAk := fun top => (hA top).child (childTy_union hm) hk
    obtain ⟨hsk, _⟩ := ih.desg (top := false) (hAk false) hd
    have hs' : shaped (.union ms sz fl0) (((Init.union e m cs).setMem k).setChild k ck') = true := by
      simp only [Init.setMem, Init.setChild, Init.withChildren, Init.children, shaped, Bool.and_eq_true]
      exact ⟨shapedMs_set ms cs k mi mty ck' hms hm hsk, by simp⟩
    refine ⟨(ih.unionrest ho hs' hur).1, fun hz top g fl res hres hcl => ?_⟩
    have hz' : e = none ∧ m = none := by
      simp only [newInit, Init.union.injEq] at hz
      exact ⟨hz.1, hz.2.1⟩
    obtain ⟨he, hmn⟩ := hz'
    subst he hmn
    obtain ⟨_, himp1⟩ := ih.desg (top := top) (hAk top) hd
    cases g with
    | zero => cases hres
    | succ g =>
      replace hres := initList_item_imp _ _ _ _ _ _ _ _ (by rfl) hres hcl
      simp only [↓reduceIte, pure_bind', pathsOf, isDesg] at hres
      obtain ⟨j, mi', t', hkj, hmj, hcase⟩ := structDesignator_spec name ms 0 k anon hsd
      have hkj' : k = j := by omega
      subst hkj'
      rw [hm] at hmj
      cases hmj
      have fin : ∀ g1, initList g1 (.union ms sz fl0) top (setAtM (.union none none cs) ([] ++ [k]) ck')
            (next (.union ms sz fl0) top ([] ++ [k]).reverse) tok2 false fl = .ok res →
          defaultMember (.union ms sz fl0) res.obj = c' ∧ res.rest = rest ∧ res.fl = fl := by
        intro g1 hh
        have e1 : setAtM (.union none none cs) ([] ++ [k]) ck' = ((Init.union none none cs).setMem k).setChild k ck' := by
          simp only [List.nil_append]; exact setAtM_one_union none none cs k ck'
        rw [e1, next_union_member top k] at hh
        obtain ⟨⟨k2, cs2, hform⟩, hsp⟩ := (ih.unionrest ho hs' hur).2 k (cs.set k ck') rfl
        obtain ⟨q2, q3, q4⟩ := hsp top g1 fl res hh hcl
        refine ⟨?_, q3, q4⟩
        rw [q2, hform]; rfl
      rcases hcase with ⟨ha, hfm⟩ | ⟨ha, hagg, mp, hfm1, hfm⟩
      · subst ha
        rw [desigPaths_dot (p := []) (t := .union ms sz fl0) _ r rfl (by rw [findMember]; exact hfm) rfl] at hres
        obtain ⟨g1, h1⟩ := himp1 g (r.length + 1) fl
        simp only [Bool.false_eq_true, ↓reduceIte] at h1
        exact fin g1 (h1 res hres hcl)
      · subst ha
        rw [desigPaths_dot (p := []) (t := .union ms sz fl0) _ r rfl (by rw [findMember]; exact hfm) rfl] at hres
        obtain ⟨g1, h1⟩ := himp1 g ((r.length + 1) + 1) fl
        simp only [↓reduceIte] at h1
        rw [desigPaths_dot (p := [] ++ [k]) _ r (hAk false).sub hfm1 hagg] at h1
        simp only [List.nil_append, List.cons_append] at h1 hres
        exact fin g1 (h1 res hres hcl)
  · -- the first named member
    rename_i hnd
    simp only [hne, Bool.false_eq_true, ↓reduceIte, hfn] at h
    obtain ⟨mty, hmty, h⟩ := bind_eq_ok h
    obtain ⟨ck, hck, h⟩ := bind_eq_ok h
    obtain ⟨⟨ck', tok2⟩, hinit, hur⟩ := bind_eq_ok h
    simp only at hur
    obtain ⟨mi, hm⟩ := memTy_ok hmty
    have hk : (Init.union e m cs).children[k0]? = some ck := by
      have := getChild_ok hck
      simpa [Init.setMem, Init.children] using this
    have hAk := fun top => (hA top).child (childTy_union hm) hk
    obtain ⟨hsk, _⟩ := ih.init2 (top := false) (hAk false) hinit
    have hs' : shaped (.union ms sz fl0) (((Init.union e m cs).setMem k0).setChild k0 ck') = true := by
      simp only [Init.setMem, Init.setChild, Init.withChildren, Init.children, shaped, Bool.and_eq_true]
      exact ⟨shapedMs_set ms cs k0 mi mty ck' hms hm hsk, by simp⟩
    refine ⟨(ih.unionrest ho hs' hur).1, fun hz top g fl res hres hcl => ?_⟩
    have hz' : e = none ∧ m = none := by
      simp only [newInit, Init.union.injEq] at hz
      exact ⟨hz.1, hz.2.1⟩
    obtain ⟨he, hmn⟩ := hz'
    subst he hmn
    obtain ⟨_, himp1⟩ := ih.init2 (top := top) (hAk top) hinit
    rw [firstCursor_union hnn] at hres
    cases g with
    | zero => cases hres
    | succ g =>
      cases hce : consumeEnd inner with
      | some rest0 =>
        -- an empty list: the parser's `initializer2` consumed nothing
        rw [initList_end _ _ _ _ _ _ _ _ _ hce] at hres
        cases hres
        obtain ⟨e1, e2⟩ := init2_nothing (hAk false).shapedc (hAk false).ok (consumeEnd_some_isEnd hce) hinit
        subst e1 e2
        obtain ⟨q1, q2⟩ := unionRest_end hce hur
        subst q1 q2
        simp only [Init.children] at hk
        refine ⟨?_, rfl, rfl⟩
        simp [defaultMember, hnn, Init.setMem, Init.setChild, Init.withChildren, Init.children, set_same hk]
      | none =>
        replace hres := initList_item_imp _ _ _ _ _ _ _ _ hce hres hcl
        simp only [↓reduceIte, pure_bind'] at hres
        by_cases hdg : isDesg inner = true
        · exfalso
          have hbr : isBracket inner = true :=
            isDesg_not_dot hdg (fun n r hh => hnd n r (by rw [hh]))
          obtain ⟨e', he'⟩ := desigPaths_bracket_union ms sz fl0 top (inner.length + 1) inner hbr
          simp only [pathsOf, hdg, ↓reduceIte, he'] at hres
          cases hres
        · simp only [pathsOf, hdg, Bool.false_eq_true, ↓reduceIte, pure_bind'] at hres
          obtain ⟨g1, h1⟩ := himp1 g fl
          have hh := h1 res hres hcl
          simp only [After] at hh
          have e1 : setAtM (.union none none cs) ([] ++ [k0]) ck' = ((Init.union none none cs).setMem k0).setChild k0 ck' := by
            simp only [List.nil_append]; exact setAtM_one_union none none cs k0 ck'
          rw [e1, next_union_member top k0] at hh
          obtain ⟨⟨k2, cs2, hform⟩, hsp⟩ := (ih.unionrest ho hs' hur).2 k0 (cs.set k0 ck') rfl
          obtain ⟨q2, q3, q4⟩ := hsp top g1 fl res hh hcl
          refine ⟨?_, q3, q4⟩
          rw [q2, hform]; rfl

end ChibiVerif.InitSpec
