/-
C17 — kernel-checked witness that `rehash` must NOT be replaced by an in-place purge that walks
the buckets from 0 (seeded change C17d; not a defect of /repo).

The alternative `rehash` below is the seeded code, line by line:

    static void purge_tombstones(HashMap *map, int nkeys) {
      for (i = 0; i < capacity; i++) if (buckets[i].key == TOMBSTONE) buckets[i] = {};
      for (i = 0; i < capacity; i++) {
        ent = buckets[i];  if (!ent.key) continue;
        buckets[i] = {};
        for (j = 0;; j++) { dst = &buckets[(hash(ent.key) + j) % capacity]; if (!dst->key) { *dst = ent; break; } }
      }
      map->used = nkeys;
    }
    rehash: … if (cap == map->capacity) { purge_tombstones(map, nkeys); return; } …copy into a fresh table…

Re-seating in place is sound for a cluster that does not wrap (an entry only moves towards its
home, into a bucket the walk has already passed).  For a cluster that wraps around the end of
the array the walk meets the *tail* of the cluster (buckets 0, 1, …) before its *head* (the last
buckets): the tail entry finds its old bucket again — every bucket between its home and the end
of the array is still occupied — and stays; later the head entries move back over the cleared
tombstone, which leaves an EMPTY bucket between the tail entry's home and the tail entry.  That
breaks invariant (I2) "no empty slot on the probe path of a stored key" (`WF`), the entry is
unreachable, `get` answers "absent" for a name whose last operation was a definition, and after
`#undef` (a no-op now) the next purge makes the name reappear.

`Props/C17.lean` (`C17_rehash_spec`) proves that the real `rehash` re-establishes `WF` for every
well-formed table, wrapping or not.
-/
import ChibiVerif.Lemmas.HashMapLemmas

namespace ChibiVerif.Findings.C17
open ChibiVerif.HashMap
open ChibiVerif.Gen.HashMap (INIT_SIZE HIGH_WATERMARK LOW_WATERMARK)

variable {α β : Type} [DecidableEq α]

/-- first loop of `purge_tombstones`: tombstones become empty buckets -/
def clearTombs (b : List (Slot α β)) : List (Slot α β) :=
  b.map fun s => match s with | .tomb => .empty | s => s

/-- `for (j = 0;; j++)`: the first empty bucket on the probe path of hash `hk` (the C loop has no
    bound; it terminates because bucket `i` was emptied just before; fuel = capacity) -/
def seatLoop (b : List (Slot α β)) (hk : Nat) : Nat → Nat → Option Nat
  | 0, _ => none
  | n + 1, j =>
    let idx := (hk + j) % b.length
    match HM.slotAt b idx with
    | .empty => some idx
    | _ => seatLoop b hk n (j + 1)

/-- second loop of `purge_tombstones`: buckets `i, i+1, …` (`n` left), each live entry taken out
    and put back into the first empty bucket of its probe sequence -/
def purgeWalk (h : α → Nat) : Nat → Nat → List (Slot α β) → Except Crash (List (Slot α β))
  | 0, _, b => .ok b
  | n + 1, i, b =>
    match HM.slotAt b i with
    | .full k v =>
      let b1 := b.set i .empty
      match seatLoop b1 (h k) b1.length 0 with
      | some idx => purgeWalk h n (i + 1) (b1.set idx (.full k v))
      | none => .error .unreachable
    | _ => purgeWalk h n (i + 1) b

/-- `rehash` of the seeded change: same count, same capacity computation; in place when the
    capacity stays, the real copying `rehash` otherwise -/
def rehashInPlace (h : α → Nat) (m : HM α β) : Except Crash (HM α β) := do
  let nkeys := (HM.liveEntries m.buckets).length
  if m.buckets.isEmpty then throw .assertCap
  let cap := HM.growCap nkeys (nkeys + 2) m.buckets.length
  if cap = 0 then throw .assertCap
  if cap = m.buckets.length then
    let b ← purgeWalk h m.buckets.length 0 (clearTombs m.buckets)
    pure ⟨b, nkeys⟩
  else HM.rehash h m

/-- `hashmap_put2` with the in-place `rehash` (identical to `HM.put` otherwise) -/
def putInPlace (h : α → Nat) (m : HM α β) (k : α) (v : β) : Except Crash (HM α β) := do
  let m ←
    if m.buckets.isEmpty then pure (⟨List.replicate INIT_SIZE .empty, m.used⟩ : HM α β)
    else if m.used * 100 / m.buckets.length ≥ HIGH_WATERMARK then rehashInPlace h m
    else pure m
  let p ← HM.insLoop m.buckets (h k) k m.buckets.length 0 none
  pure (HM.applyIns m k v p)

def runInPlace (h : α → Nat) : HM α β → List (Op α β) → Except Crash (HM α β × List (Option β))
  | m, [] => .ok (m, [])
  | m, .put k v :: ops => do runInPlace h (← putInPlace h m k v) ops
  | m, .del k :: ops => do runInPlace h (← m.delete h k) ops
  | m, .get k :: ops => do
    let a ← m.get h k
    let (m', outs) ← runInPlace h m ops
    pure (m', a :: outs)

/-! ### State level: one purge of a wrapping cluster -/

/-- 16 buckets, name `n` hashes to bucket `n mod 16`.  The cluster starts at bucket 14 and wraps:
    bucket 14 a tombstone (name 14, undefined), bucket 15 name 30 (home 14, displaced by one),
    bucket 0 name 15 (home 15, displaced over the end of the array). -/
def wrapState : HM Nat Nat :=
  ⟨[.full 15 3, .empty, .empty, .empty, .empty, .empty, .empty, .empty,
    .empty, .empty, .empty, .empty, .empty, .empty, .tomb, .full 30 2], 3⟩

/-- the state satisfies the representation invariant and holds `15 ↦ 3`, `30 ↦ 2` -/
theorem C17_wrap_state_wf :
    WF (fun k => k) wrapState ∧ absGet wrapState 15 = some 3 ∧ absGet wrapState 30 = some 2 ∧
    (HM.get (fun k => k) wrapState 15).toOption = some (some 3) := by decide

/-- what one in-place purge makes of it: name 30 moves back to bucket 14, bucket 15 becomes EMPTY,
    name 15 stays in bucket 0 — behind an empty bucket on its own probe path -/
theorem C17_inplace_purge_result :
    (rehashInPlace (fun k => k) wrapState).toOption =
      some ⟨[.full 15 3, .empty, .empty, .empty, .empty, .empty, .empty, .empty,
             .empty, .empty, .empty, .empty, .empty, .empty, .full 30 2, .empty], 2⟩ := by decide

/-- **The in-place walk from bucket 0 breaks the invariant on a wrapping cluster.**  After the
    purge the table is no longer well formed (I2 fails for name 15: its home bucket 15 is empty,
    the name sits in bucket 0), the name is still stored (`absGet`) but a lookup answers
    "absent"; the real `rehash` on the same state gives a well-formed table in which the lookup
    answers `3`. -/
theorem C17_inplace_purge_breaks_probe_path :
    ((rehashInPlace (fun k => k) wrapState).toOption.map fun m1 =>
        decide (WF (fun k => k) m1)) = some false ∧
    ((rehashInPlace (fun k => k) wrapState).toOption.map fun m1 =>
        (HM.slotAt m1.buckets 15, HM.slotAt m1.buckets 0)) = some (.empty, .full 15 3) ∧
    ((rehashInPlace (fun k => k) wrapState).toOption.map fun m1 => absGet m1 15) = some (some 3) ∧
    ((rehashInPlace (fun k => k) wrapState).toOption.map fun m1 =>
        (HM.get (fun k => k) m1 15).toOption) = some (some none) ∧
    ((HM.rehash (fun k => k) wrapState).toOption.map fun m2 =>
        decide (WF (fun k => k) m2)) = some true ∧
    ((HM.rehash (fun k => k) wrapState).toOption.map fun m2 =>
        ((HM.get (fun k => k) m2 15).toOption, (HM.get (fun k => k) m2 30).toOption)) =
      some (some (some 3), some (some 2)) := by decide

/-- the same purge on the same cluster one bucket further down (no wrap) is harmless: this is why
    the change survives every history whose clusters stay inside the array -/
theorem C17_inplace_purge_fine_without_wrap :
    let m : HM Nat Nat :=
      ⟨[.empty, .empty, .empty, .empty, .empty, .empty, .empty, .empty,
        .empty, .empty, .empty, .empty, .empty, .tomb, .full 29 2, .full 14 3], 3⟩
    ((rehashInPlace (fun k => k) m).toOption.map fun m1 => decide (WF (fun k => k) m1)) = some true ∧
    ((rehashInPlace (fun k => k) m).toOption.map fun m1 =>
        ((HM.get (fun k => k) m1 14).toOption, (HM.get (fun k => k) m1 29).toOption)) =
      some (some (some 3), some (some 2)) := by decide

/-! ### History level: a defined name is lost, and an undefined name comes back -/

/-- define 14, 30, 15 (cluster 14 → 15 → 0), undefine 14, then nine define/undefine cycles over
    distinct names (homes 1 … 9): `used` reaches 12 of 16 (75 %) with 2 live names (12 %), so the
    next definition purges without growing -/
def wrapChurn : List (Op Nat Nat) :=
  [.put 14 1, .put 30 2, .put 15 3, .del 14,
   .put 1 1, .del 1, .put 2 1, .del 2, .put 3 1, .del 3, .put 4 1, .del 4, .put 5 1, .del 5,
   .put 6 1, .del 6, .put 7 1, .del 7, .put 8 1, .del 8, .put 9 1, .del 9,
   .put 10 1]

/-- … then undefine 15 and churn again (homes 1 … 9) until the next purge -/
def wrapChurn2 : List (Op Nat Nat) :=
  [.del 15,
   .put 33 1, .del 33, .put 34 1, .del 34, .put 35 1, .del 35, .put 36 1, .del 36, .put 37 1,
   .del 37, .put 38 1, .del 38, .put 39 1, .del 39, .put 40 1, .del 40, .put 41 1, .del 41,
   .put 42 1]

def answersOf (r : Except Crash (HM Nat Nat × List (Option Nat))) : Option (List (Option Nat)) :=
  r.toOption.map (·.2)

set_option maxRecDepth 16000 in
/-- **A defined name is lost.**  With the in-place purge, `get 15` after the churn answers
    "absent" although the last operation on 15 was `put 15 3`; the dictionary and the code as it
    is answer `3`.  (Name 30 is still found by both.) -/
theorem C17_inplace_purge_loses_key :
    answersOf (runInPlace (fun k => k) HM.empty (wrapChurn ++ [.get 15, .get 30]))
      = some [none, some 2] ∧
    (arun AMap.empty (wrapChurn ++ [.get 15, .get 30])).2 = [some 3, some 2] ∧
    answersOf (run (fun k => k) HM.empty (wrapChurn ++ [.get 15, .get 30]))
      = some [some 3, some 2] := by decide

set_option maxRecDepth 32000 in
/-- **An undefined name comes back.**  `del 15` cannot find the entry (a no-op); the next purge
    re-seats the stale entry in its now empty home bucket and `get 15` answers `3` although the
    last operation on 15 was a delete. -/
theorem C17_inplace_purge_resurrects_key :
    answersOf (runInPlace (fun k => k) HM.empty (wrapChurn ++ wrapChurn2 ++ [.get 15]))
      = some [some 3] ∧
    (arun AMap.empty (wrapChurn ++ wrapChurn2 ++ [.get 15])).2 = [none] ∧
    answersOf (run (fun k => k) HM.empty (wrapChurn ++ wrapChurn2 ++ [.get 15]))
      = some [none] := by decide

end ChibiVerif.Findings.C17
