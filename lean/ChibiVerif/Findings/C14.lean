/-
C14 — kernel-checked witnesses of two ORIGINAL defects of main.c's input loop, both repaired in /repo by
`fix:` commits (Model/DriverProc.lean models the repaired code, Props/C14.lean proves it correct).
This file keeps the pre-fix loop as `planOld`/`compileOld` and shows by evaluation in the kernel (`decide`)
that it violated "on success exactly the requested outputs exist", whereas the repaired loop does not.

(A) `.s` input when linking.  Pre-fix:

      if (type == FILE_ASM) { if (!opt_S) assemble(input, output); continue; }

    with `output = opt_o ? opt_o : replace_extn(input, ".o")`: the object went to `<stem>.o` (or INTO the
    `-o` file) and was never pushed to `ld_args`.  `chibicc a.c b.s` left an unrequested `b.o` and linked
    `a.out` from `a.c` alone.
(B) linker inputs when not linking.  Pre-fix: `if (ld_args.len > 0) run_linker(&ld_args, opt_o ? opt_o : "a.out");`
    in every mode, and `.o`, `.a`, `.so` and `-l…` inputs are pushed to `ld_args` in every mode: `chibicc -c a.c b.o`
    ran the linker and created `a.out`.
-/
import ChibiVerif.Model.DriverProc

namespace ChibiVerif.Findings.C14
open ChibiVerif.DriverProc

variable {P : Type} [DecidableEq P]

/-- the pre-fix loop body: differs from `plan` in the `.s` arm only -/
def planOld (cmd : Cmd P) (n : Nat) (i : Input P) : List (Act P) :=
  match effKind cmd.mode i.kind with
  | .asm =>
    match cmd.mode with
    | .S => []
    | _ => [.run .as (.path i.path) (some (.path (unitOutput cmd i)))]
  | _ => plan cmd n i

def planTempsOld (cmd : Cmd P) (i : Input P) : Nat :=
  match effKind cmd.mode i.kind with
  | .asm => 0
  | _ => planTemps cmd i

/-- the pre-fix tail: the linker runs whenever `ld_args` is not empty -/
def compileLoopOld (cmd : Cmd P) : Nat → List (Input P) → List (Act P)
  | _, [] => [.link (cmd.out.getD cmd.aout)]
  | n, i :: r => planOld cmd n i ++ compileLoopOld cmd (n + planTempsOld cmd i) r

def runOld (env : Env P) (cmd : Cmd P) (fs : FS P) : DState P × FS P :=
  let s : DState P := { acts := compileLoopOld cmd 0 cmd.inputs, tmpfiles := [], ldArgs := [] }
  iter env (fuel s) (s, fs)

private def noFaults (m : Mode) : Env Nat := { mode := m, sched := fun _ _ => .ok, fresh := fun k => some (100 + k) }

/-- `chibicc a.c b.s` — paths: a.c = 1, b.s = 2, b.o = 22, a.out = 99 -/
private def cmdA : Cmd Nat :=
  { mode := .link, out := none, aout := 99, inputs := [⟨1, .C, 11, 12⟩, ⟨2, .asm, 21, 22⟩] }
private def fsA : FS Nat := [(1, ⟨.orig, [1]⟩), (2, ⟨.orig, [2]⟩)]

/-- (A), pre-fix: status 0, an unrequested `b.o` exists, and `a.out` does not contain `b.s` -/
theorem C14_repaired_asm_when_linking_old :
    (runOld (noFaults .link) cmdA fsA).1.phase = .done 0 ∧
    (runOld (noFaults .link) cmdA fsA).2.get 22 = some ⟨.obj, [2]⟩ ∧
    (runOld (noFaults .link) cmdA fsA).2.get 99 = some ⟨.exe, [1]⟩ ∧
    requested cmdA = [99] := by decide

/-- (A), repaired: only `a.out` is created, linked from both inputs -/
theorem C14_repaired_asm_when_linking_new :
    (runCmd (noFaults .link) cmdA fsA).1.phase = .done 0 ∧
    (runCmd (noFaults .link) cmdA fsA).2.get 22 = none ∧
    (runCmd (noFaults .link) cmdA fsA).2.get 99 = some ⟨.exe, [1, 2]⟩ := by decide

/-- `chibicc -o prog a.c b.s` pre-fix: the assembler wrote `b.s`'s object INTO `prog` (path 50) before the
    linker replaced it -/
theorem C14_repaired_asm_when_linking_old_o :
    (.spawn .as [2] (some 50) : Event Nat) ∈ (runOld (noFaults .link) { cmdA with out := some 50 } fsA).1.log := by
  decide

/-- `chibicc -c a.c b.o` — b.o = 3 -/
private def cmdB : Cmd Nat :=
  { mode := .c, out := none, aout := 99, inputs := [⟨1, .C, 11, 12⟩, ⟨3, .obj, 31, 32⟩] }
private def fsB : FS Nat := [(1, ⟨.orig, [1]⟩), (3, ⟨.orig, [3]⟩)]

/-- (B), pre-fix: the linker ran and created `a.out` although `-c` was given -/
theorem C14_repaired_linker_input_not_linking_old :
    (.spawn .ld [3] (some 99) : Event Nat) ∈ (runOld (noFaults .c) cmdB fsB).1.log ∧
    (runOld (noFaults .c) cmdB fsB).2.get 99 = some ⟨.exe, [3]⟩ ∧
    requested cmdB = [12] := by decide

/-- (B), repaired: no linker run, only `a.o` is created -/
theorem C14_repaired_linker_input_not_linking_new :
    (runCmd (noFaults .c) cmdB fsB).2.get 99 = none ∧
    (runCmd (noFaults .c) cmdB fsB).2.get 12 = some ⟨.obj, [1]⟩ ∧
    (∀ e ∈ (runCmd (noFaults .c) cmdB fsB).1.log, ∀ i o, e ≠ .spawn .ld i o) := by
  refine ⟨by decide, by decide, ?_⟩
  intro e he i o h
  subst h
  revert he
  have : (runCmd (noFaults .c) cmdB fsB).1.log.all (fun e => match e with | .spawn .ld _ _ => false | _ => true) = true := by
    decide
  intro he
  have := List.all_eq_true.mp this _ he
  simp at this

end ChibiVerif.Findings.C14
