/-
C14 — kernel-checked witnesses of three ORIGINAL defects of main.c's argument parser and of cc1's dependency output,
all repaired in /repo by `fix:` commits (f14f730, 3aee6b1, b04aa01).  The pre-fix tables are written out here and run
through the SAME semantics as the regenerated ones (Model/C14Args.lean `parseWith`, Model/C14Compose.lean `cc1Steps`),
and the table checks that prove `C14_args_total` / `C14_deps_written_last` on the repaired text are shown to FAIL on them.

(A) f14f730: `take_arg` did not list `-MQ`, `-D`, `-U`.  `chibicc x.c -D` passed the NULL behind argv to `define()`.
(B) 3aee6b1: `take_arg` listed `-I`, but the ladder had only the joined form `-I<dir>`: the pass that checks for missing
    arguments skipped the word after a bare `-I`, the option loop did not, and `chibicc x.c -I -D` again passed NULL to
    `define()` (SIGSEGV on the real binary); `-L`, `-cc1-input`, `-cc1-output` evaluated `argv[++i]` without being listed:
    `chibicc x.c -L` stored a NULL in `ld_extra_args`, which cut the linker's command line short.
(C) b04aa01: cc1 wrote the dependency file right after `preprocess()`, before `parse()`/`codegen()`: `chibicc -c -MD bad.c`
    (syntax error) exited with status 1 and left `bad.d` behind; and the write was never checked (`-MF /dev/full`: status 0).
-/
import ChibiVerif.Model.C14Compose

namespace ChibiVerif.Findings.C14
open ChibiVerif.C14Args ChibiVerif.C14Compose
open ChibiVerif.Gen.C14Args

/-- the ladder before 3aee6b1: no separate-form arm for `-I` -/
def ladderOld : List Arm := ladder.filter (fun a => a.tests != [.eq "-I"])

/-- `take_arg`'s list before f14f730 … -/
def takeArgA : List String := ["-o", "-I", "-idirafter", "-include", "-x", "-MF", "-MT", "-Xlinker"]
/-- … and between f14f730 and 3aee6b1 -/
def takeArgB : List String := ["-o", "-I", "-idirafter", "-include", "-x", "-MF", "-MT", "-MQ", "-Xlinker", "-D", "-U"]

/-- (A) `chibicc x.c -D`, `-U`, `-MQ` before f14f730: NULL dereference; the table check fails -/
theorem C14_repaired_missing_arg_D :
    parseWith takeArgA ladderOld optXTable st0 ["x.c", "-D"] = .nullDeref "define" ∧
    parseWith takeArgA ladderOld optXTable st0 ["x.c", "-U"] = .nullDeref "undef_macro" ∧
    parseWith takeArgA ladderOld optXTable st0 ["x.c", "-MQ"] = .nullDeref "quote_makefile" ∧
    inSync takeArgA ladderOld = false := by decide

/-- (B) `chibicc x.c -I -D` (also `-I -U`, `-I -x`, `-I -MQ`) between f14f730 and 3aee6b1: the two passes fall out of step -/
theorem C14_repaired_bare_I :
    parseWith takeArgB ladderOld optXTable st0 ["x.c", "-I", "-D"] = .nullDeref "define" ∧
    parseWith takeArgB ladderOld optXTable st0 ["x.c", "-I", "-x"] = .nullDeref "parse_opt_x" ∧
    parseWith takeArgB ladderOld optXTable st0 ["x.c", "-D"] = .usage 1 ∧
    inSync takeArgB ladderOld = false ∧
    unguardedArms takeArgB ladderOld = [[.eq "-cc1-input"], [.eq "-cc1-output"], [.eq "-L"]] := by decide

/-- (B) `chibicc x.c -L` before 3aee6b1: the NULL lands in `ld_extra_args` and truncates the linker's command line
    (everything after `-L`, the inputs included, is gone) -/
theorem C14_repaired_trailing_L :
    (match parseWith takeArgB ladderOld optXTable st0 ["x.c", "-L"] with
     | .ok st => (st.arr "ld_extra_args", (ldArgv st "/lib" "/gcc" ["/tmp/t1"] "a.out").getLast?)
     | _ => ([], none)) = ([some "-L", none], some "-L") := by decide

/-- repaired: the same words are `usage(1)`, and `-I dir` is an include directory -/
theorem C14_repaired_args_new :
    parseArgs ["x.c", "-D"] = .usage 1 ∧ parseArgs ["x.c", "-L"] = .usage 1 ∧ parseArgs ["x.c", "-I"] = .usage 1 ∧
    (match parseArgs ["x.c", "-I", "-D"] with
     | .ok st => (st.arr "include_paths", st.arr "input_paths")
     | _ => ([], [])) = ([some "-D"], [some "x.c"]) := by decide

/-- (C) cc1 after `preprocess()` before b04aa01: `print_dependencies()` opened and wrote the file at once -/
def cc1PlanOld : List Cc1Step := [
  .ifAny ["opt_M", "opt_MD"] [.collectDeps, .writeDeps, .ifAny ["opt_M"] [.ret]],
  .ifAny ["opt_E"] [.printTokens, .ret],
  .parse,
  .codegen,
  .writeOutput
]

/-- (C) under `-MD` the dependency file was written BEFORE the steps that can fail; the discipline check fails -/
theorem C14_repaired_deps_before_parse :
    (cc1Steps (flagFn (false, true, false)) cc1PlanOld).1 = [.collectDeps, .writeDeps, .parse, .codegen, .writeOutput] ∧
    traceOK true (cc1Steps (flagFn (false, true, false)) cc1PlanOld).1 = false ∧
    traceOK true (cc1Trace (flagFn (false, true, false))) = true := by decide

end ChibiVerif.Findings.C14
