/-
C18 — kernel-checked witnesses.

KNOWN FINDINGS (chibicc as it is now deviates from the property; see known_findings.json):

* `C18-line-after-splice` — a token that follows a backslash-newline inside its logical line is reported on the line
  where the logical line began: `remove_backslash_newline` writes the removed newlines back only after the next
  unremoved newline, so they are counted too late.  Witness `int a = \⏎ __LINE__;`: chibicc 1, C11 5.1.1.2/6.10.8.1 and
  gcc 2.  Region: `Spec.Line.spliceBefore bytes off` (a splice precedes the token on its own logical line).
  By `C18_line_formula` the error is exactly the number of such splices, for every token of every file.

* `C18-line-directive-off-by-one` — `read_line_marker` sets `line_delta = N - line_no(directive)`, so the line after
  `#line N` is numbered N+1; C11 6.10.4p3 (and gcc) number it N.  test/line.c asserts the N+1.  Region: every token
  of a file after a `#line N`, `#line N "f"` or `# N "f"` directive in that file (`stateAfter … ≠` the fresh File).
  Further observations INSIDE this region (same cause: the `#line` state lives in `File.line_delta`/`display_name`
  and is applied late), all confirmed on the binary and not reported separately:
    - diagnostics after `# 7 "foo.c"` print the REAL file name with the SHIFTED line (`t.c:8:` — `verror_at` is given
      `tok->file->name`, not `display_name`); `.loc` likewise keeps the real file number with the shifted line;
    - diagnostics raised while preprocessing (`#error`, bad directives: before `preprocess` adds `line_delta`) print
      the unshifted physical line, diagnostics raised by the parser the shifted one;
    - a token copied from a macro body defined BEFORE the directive and used after it gets the delta of the time of use;
    - tokens synthesised by `##`, `#`, `__LINE__` … live in a fresh `File` (delta 0) and are never shifted.

REPAIRED DEFECT (fixed in /repo by a `fix:` commit; the model follows the repaired code):

* tokens synthesised by `paste`, `new_str_token`, `new_num_token` kept `line_no = 1` (their one-line private buffer),
  so a diagnostic or `.loc` for a pasted / stringized / `__LINE__`-made token said line 1.  Now they take the template
  token's `line_no`.  `synthTokOld` below is the pre-fix behaviour.

* `convert_universal_chars` rewrote `\u000a` / `\U0000000a` into a real '\n' — also inside comments, where the spelling is
  legal — so `/* \u000a */` shifted the number of every later line of the file by one.  Now it leaves that name alone
  (`c && c != '\n'`), and `C18_ucn_lines_kept` holds without hypothesis.  `convertUCNAuxOld` below is the pre-fix pass.
-/
import ChibiVerif.Props.C18

namespace ChibiVerif.Findings.C18
open ChibiVerif.LineNo ChibiVerif.Props.C18
open ChibiVerif.Spec.Line (physLine pendingSplices spliceBefore presumedLine)

/-- `int a = \⏎ __LINE__;⏎` — `__LINE__` starts at offset 11, on physical line 2 -/
def spliceWitness : List Nat :=
  [105, 110, 116, 32, 97, 32, 61, 32, 92, 10, 32, 95, 95, 76, 73, 78, 69, 95, 95, 59, 10]

/-- the witness lies in the region, chibicc computes 1, the physical line is 2 -/
theorem C18_splice_witness :
    tokenStart spliceWitness 11 = true ∧ spliceBefore spliceWitness 11 = true ∧
    lineNoAt spliceWitness 11 = 1 ∧ physLine spliceWitness 11 = 2 := by decide

/-- known finding `C18-line-after-splice`: the full statement is false -/
theorem C18_finding_line_after_splice : ¬ C18_line_Statement := by
  intro h
  have := h spliceWitness 11 (by decide)
  revert this; decide

/-- the same through what is reported: `__LINE__` there evaluates to 1 -/
theorem C18_splice_witness_reported :
    (runFile (sourceText spliceWitness) (newFile "t.c" 1) [.lineMac (posMap spliceWitness 11)]) = [.line 1] := by
  decide

/-- `#line 100⏎x⏎` — `x` at offset 10 is the line right after the directive -/
def lineDirWitness : List Nat := [35, 108, 105, 110, 101, 32, 49, 48, 48, 10, 120, 10]

/-- known finding `C18-line-directive-off-by-one`: the full `#line` statement is false (reported 101, presumed 100) -/
theorem C18_finding_line_directive_off_by_one : ¬ C18_line_directive_Statement := by
  intro h
  have := h lineDirWitness (newFile "t.c" 1) [] [] 0 100 none 10 (by simp) (by decide) (by decide) (by decide) (by decide)
  revert this; decide

/-- pre-fix `paste` / `new_str_token` / `new_num_token`: `line_no` 1 from `add_line_numbers` on the private buffer -/
def synthTokOld (tmpl : TokInfo) : TokInfo := { file := .synth tmpl.file.base, lineNo := 1 }

/-- repaired defect: for a template on line 8 the old code located the synthesised token on line 1, the repaired code on 8 -/
theorem C18_fixed_synth_token_line :
    (synthTokOld { file := .input 0, lineNo := 8 }).lineNo = 1 ∧
    (synthTok { file := .input 0, lineNo := 8 }).lineNo = 8 := by decide

/-- pre-fix `convert_universal_chars`: `if (c)` instead of `if (c && c != '\n')` — a universal character name for U+000A was
    rewritten into a real newline, also inside comments -/
def convertUCNAuxOld : Nat → List Nat → Nat → List (Nat × Nat)
  | 0, _, _ => []
  | _ + 1, [], _ => []
  | f + 1, a :: rest, s =>
    if a = BSL then
      match rest with
      | [] => [(a, s)]
      | b :: rest' =>
        if b = 117 then
          let c := readUniversalChar rest' 4 0
          if c ≠ 0 then (encodeUtf8 c).map (·, s) ++ convertUCNAuxOld f (rest'.drop 4) (s + 6)
          else (a, s) :: convertUCNAuxOld f rest (s + 1)
        else if b = 85 then
          let c := readUniversalChar rest' 8 0
          if c ≠ 0 then (encodeUtf8 c).map (·, s) ++ convertUCNAuxOld f (rest'.drop 8) (s + 10)
          else (a, s) :: convertUCNAuxOld f rest (s + 1)
        else (a, s) :: (b, s + 1) :: convertUCNAuxOld f rest' (s + 2)
    else (a, s) :: convertUCNAuxOld f rest (s + 1)

/-- `/* \u000a */⏎x⏎` (valid C: a comment may contain anything) — `x` is at file offset 13, physical line 2 -/
def ucnWitness : List Nat := [47, 42, 32, 92, 117, 48, 48, 48, 97, 32, 42, 47, 10, 120, 10]

/-- repaired defect: the old pass numbered `x` 3 (its text had a newline more before `x`); the repaired pass numbers it 2 -/
theorem C18_fixed_ucn_newline_in_comment :
    let old := convertUCNAuxOld ((sourceText ucnWitness).length + 1) (sourceText ucnWitness) 0
    lineNoOf (old.map (·.1)) (old.findIdx (fun e => e.2 == posMap ucnWitness 13)) = 3 ∧
    lineNoFinal ucnWitness 13 = 2 ∧ physLine ucnWitness 13 = 2 := by decide

end ChibiVerif.Findings.C18
