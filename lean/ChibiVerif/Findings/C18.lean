/-
C18 — kernel-checked witnesses.

KNOWN FINDINGS (chibicc as it is now deviates from the property; see known_findings.json):

* `C18-line-after-splice` — a token that follows a backslash-newline inside its logical line is reported on the line
  where the logical line began: `remove_backslash_newline` writes the removed newlines back only after the next
  unremoved newline, so they are counted too late.  Witness `int a = \⏎ __LINE__;`: chibicc 1, C11 5.1.1.2/6.10.8.1 and
  gcc 2.  Region: `Spec.Line.spliceBefore bytes off` (a splice precedes the token on its own logical line).
  By `C18_line_formula` the error is exactly the number of such splices, for every token of every file.

* `C18-line-directive-off-by-one` — `read_line_marker` sets `line_delta = N - line_no(directive)`, so the line after
  `#line N` is numbered N+1; C11 6.10.4p3 (and gcc) number it N.  test/line.c asserts the N+1.  Region: every token
  of a file after a `#line N`, `#line N "f"` or `# N "f"` directive in that file (`stateAfter … ≠` the fresh File).
  Further observations INSIDE this region (same cause: the `#line` state lives in `File.line_delta`/`display_name`
  and is applied late), all confirmed on the binary and not reported separately:
    - diagnostics after `# 7 "foo.c"` print the REAL file name with the SHIFTED line (`t.c:8:` — `verror_at` is given
      `tok->file->name`, not `display_name`); `.loc` likewise keeps the real file number with the shifted line;
    - diagnostics raised while preprocessing (`#error`, bad directives: before `preprocess` adds `line_delta`) print
      the unshifted physical line, diagnostics raised by the parser the shifted one;
    - a token copied from a macro body defined BEFORE the directive and used after it gets the delta of the time of use;
    - tokens synthesised by `##`, `#`, `__LINE__` … live in a fresh `File` (delta 0) and are never shifted.

REPAIRED DEFECT (fixed in /repo by a `fix:` commit; the model follows the repaired code):

* tokens synthesised by `paste`, `new_str_token`, `new_num_token` kept `line_no = 1` (their one-line private buffer),
  so a diagnostic or `.loc` for a pasted / stringized / `__LINE__`-made token said line 1.  Now they take the template
  token's `line_no`.  `synthTokOld` below is the pre-fix behaviour.
-/
import ChibiVerif.Props.C18

namespace ChibiVerif.Findings.C18
open ChibiVerif.LineNo ChibiVerif.Props.C18
open ChibiVerif.Spec.Line (physLine pendingSplices spliceBefore presumedLine)

/-- `int a = \⏎ __LINE__;⏎` — `__LINE__` starts at offset 11, on physical line 2 -/
def spliceWitness : List Nat :=
  [105, 110, 116, 32, 97, 32, 61, 32, 92, 10, 32, 95, 95, 76, 73, 78, 69, 95, 95, 59, 10]

/-- the witness lies in the region, chibicc computes 1, the physical line is 2 -/
theorem C18_splice_witness :
    tokenStart spliceWitness 11 = true ∧ spliceBefore spliceWitness 11 = true ∧
    lineNoAt spliceWitness 11 = 1 ∧ physLine spliceWitness 11 = 2 := by decide

/-- known finding `C18-line-after-splice`: the full statement is false -/
theorem C18_finding_line_after_splice : ¬ C18_line_Statement := by
  intro h
  have := h spliceWitness 11 (by decide)
  revert this; decide

/-- the same through what is reported: `__LINE__` there evaluates to 1 -/
theorem C18_splice_witness_reported :
    (runFile (sourceText spliceWitness) (newFile "t.c" 1) [.lineMac (posMap spliceWitness 11)]) = [.line 1] := by
  decide

/-- `#line 100⏎x⏎` — `x` at offset 10 is the line right after the directive -/
def lineDirWitness : List Nat := [35, 108, 105, 110, 101, 32, 49, 48, 48, 10, 120, 10]

/-- known finding `C18-line-directive-off-by-one`: the full `#line` statement is false (reported 101, presumed 100) -/
theorem C18_finding_line_directive_off_by_one : ¬ C18_line_directive_Statement := by
  intro h
  have := h lineDirWitness (newFile "t.c" 1) [] [] 0 100 none 10 (by simp) (by decide) (by decide) (by decide) (by decide)
  revert this; decide

/-- pre-fix `paste` / `new_str_token` / `new_num_token`: `line_no` 1 from `add_line_numbers` on the private buffer -/
def synthTokOld (tmpl : TokInfo) : TokInfo := { file := .synth tmpl.file.base, lineNo := 1 }

/-- repaired defect: for a template on line 8 the old code located the synthesised token on line 1, the repaired code on 8 -/
theorem C18_fixed_synth_token_line :
    (synthTokOld { file := .input 0, lineNo := 8 }).lineNo = 1 ∧
    (synthTok { file := .input 0, lineNo := 8 }).lineNo = 8 := by decide

/-- the hypothesis `noNewlineUCN` of `C18_ucn_lines_kept` / `C18_line_final_partial` is needed: `"\u000a"⏎x` (not valid C:
    6.4.3p2) — `convert_universal_chars` writes a real newline, and `x` (file offset 9, physical line 2) is numbered 3.
    Not a finding (the input violates a constraint); recorded so that the hypothesis is seen to be sharp. -/
theorem C18_ucn_newline_shifts :
    let f := [34, 92, 117, 48, 48, 48, 97, 34, 10, 120, 10]
    noNewlineUCN (sourceText f) = false ∧ lineNoAt f 9 = 2 ∧ lineNoFinal f 9 = 3 := by decide

end ChibiVerif.Findings.C18
