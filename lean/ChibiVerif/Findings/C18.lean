/-
C18 — kernel-checked witnesses.

KNOWN FINDINGS (chibicc as it is now deviates from the property; see known_findings.json):

* `C18-line-after-splice` — a token that follows a backslash-newline inside its logical line is reported on the line
  where the logical line began: `remove_backslash_newline` writes the removed newlines back only after the next
  unremoved newline, so they are counted too late.  Witness `int a = \⏎ __LINE__;`: chibicc 1, C11 5.1.1.2/6.10.8.1 and
  gcc 2.  Region: `Spec.Line.spliceBefore bytes off` (a splice precedes the token on its own logical line).
  By `C18_line_formula` the error is exactly the number of such splices, for every token of every file.

* `C18-line-directive-off-by-one` — `read_line_marker` sets `line_delta = N - line_no(directive)`, so the line after
  `#line N` is numbered N+1; C11 6.10.4p3 (and gcc) number it N.  test/line.c asserts the N+1.  Region: every token
  of a file BELOW a `#line N`, `#line N "f"` or `# N "f"` directive of that file (`Spec.Line.inForce dirs line ≠ none`;
  `C18_line_directive_order_independent` / `C18_line_directive_all_schedules`: there, and only there, the reported line is the
  C11 presumed line plus one).
  Further observations INSIDE this region (same cause: the delta is relative to the directive's own line and is added to
  `line_no` only at the end of `preprocess`), all confirmed on the binary and not reported separately:
    - diagnostics after `# 7 "foo.c"` print the REAL file name with the SHIFTED line (`t.c:8:` — `verror_at` is given
      `tok->file->name`, not `display_name`); `.loc` likewise keeps the real file number with the shifted line;
    - diagnostics raised while preprocessing (`#error`, bad directives: before `preprocess` adds `line_delta`) print
      the unshifted physical line, diagnostics raised by the parser the shifted one;
    - tokens synthesised by `##`, `#`, `__LINE__` … live in a fresh `File` (no markers) and are never shifted.

REPAIRED DEFECT (fixed in /repo by a `fix:` commit; the model follows the repaired code):

* `#line` was retroactive: `read_line_marker` stored `line_delta` / `display_name` in the `File`, and `preprocess2` gave them to
  EVERY token of that file passed on afterwards — also to tokens read earlier, such as the body of a macro defined above the
  directive and expanded below it.  `#define RET return 0;` (line 1) … `#line 1` (line 10) … `int main(void) { RET }` emitted
  `.loc 1 -8` (1 + (1 − 10)), which the assembler rejects.  Now each `File` keeps its directives with their line
  (`LineMarker`) and a token takes the one in force at its own line (`line_marker_at`).  `runFileOld` below is the pre-fix
  behaviour; the repaired code satisfies `C18_line_directive_positional` / `C18_line_directive_not_retroactive`.

* tokens synthesised by `paste`, `new_str_token`, `new_num_token` kept `line_no = 1` (their one-line private buffer),
  so a diagnostic or `.loc` for a pasted / stringized / `__LINE__`-made token said line 1.  Now they take the template
  token's `line_no`.  `synthTokOld` below is the pre-fix behaviour.

* `convert_universal_chars` rewrote `\u000a` / `\U0000000a` into a real '\n' — also inside comments, where the spelling is
  legal — so `/* \u000a */` shifted the number of every later line of the file by one.  Now it leaves that name alone
  (`c && c != '\n'`), and `C18_ucn_lines_kept` holds without hypothesis.  `convertUCNAuxOld` below is the pre-fix pass.
-/
import ChibiVerif.Props.C18

namespace ChibiVerif.Findings.C18
open ChibiVerif.LineNo ChibiVerif.Props.C18
open ChibiVerif.Spec.Line (physLine pendingSplices spliceBefore presumedLine)

/-- `int a = \⏎ __LINE__;⏎` — `__LINE__` starts at offset 11, on physical line 2 -/
def spliceWitness : List Nat :=
  [105, 110, 116, 32, 97, 32, 61, 32, 92, 10, 32, 95, 95, 76, 73, 78, 69, 95, 95, 59, 10]

/-- the witness lies in the region, chibicc computes 1, the physical line is 2 -/
theorem C18_splice_witness :
    tokenStart spliceWitness 11 = true ∧ spliceBefore spliceWitness 11 = true ∧
    lineNoAt spliceWitness 11 = 1 ∧ physLine spliceWitness 11 = 2 := by decide

/-- known finding `C18-line-after-splice`: the full statement is false -/
theorem C18_finding_line_after_splice : ¬ C18_line_Statement := by
  intro h
  have := h spliceWitness 11 (by decide)
  revert this; decide

/-- the same through what is reported: `__LINE__` there evaluates to 1 -/
theorem C18_splice_witness_reported :
    (runFile (sourceText spliceWitness) (newFile "t.c" 1) [.lineMac (posMap spliceWitness 11)]) = [.line 1] := by
  decide

/-- `#line 100⏎x⏎` — `x` at offset 10 is the line right after the directive -/
def lineDirWitness : List Nat := [35, 108, 105, 110, 101, 32, 49, 48, 48, 10, 120, 10]

/-- known finding `C18-line-directive-off-by-one`: the full `#line` statement is false (reported 101, presumed 100) -/
theorem C18_finding_line_directive_off_by_one : ¬ C18_line_directive_Statement := by
  intro h
  have := h lineDirWitness (newFile "t.c" 1) [] [] 0 100 none 10 (by simp [dirsOf]) (by decide) (by decide) (by decide)
    (by decide) (by decide)
  revert this; decide

/-- pre-fix `preprocess2` pass-through, `line_macro`, `file_macro`: `tok->line_delta = tok->file->line_delta;
    tok->filename = tok->file->display_name;` — the state of the FILE at the time the token is passed on -/
def runFileOld (text : List Nat) : File → List Ev → List Out
  | _, [] => []
  | f, .tok off :: r => .tok ((lineNoOf text off : Int) + f.lineDelta) f.displayName :: runFileOld text f r
  | f, .lineDir off n name :: r => runFileOld text (readLineMarker f (lineNoOf text off) n name) r
  | f, .lineMac off :: r => .line ((lineNoOf text off : Int) + f.lineDelta) :: runFileOld text f r
  | f, .fileMac _ :: r => .file f.displayName :: runFileOld text f r

/-- `#define RET return 0;⏎` + 8 blank lines + `#line 1⏎` (line 10) + `int main(void) { RET }⏎` (line 11) -/
def retroWitness : List Nat :=
  [35, 100, 101, 102, 105, 110, 101, 32, 82, 69, 84, 32, 114, 101, 116, 117, 114, 110, 32, 48, 59, 10,
   10, 10, 10, 10, 10, 10, 10, 10, 35, 108, 105, 110, 101, 32, 49, 10,
   105, 110, 116, 32, 109, 97, 105, 110, 40, 118, 111, 105, 100, 41, 32, 123, 32, 82, 69, 84, 32, 125, 10]

/-- the order in which `preprocess2` meets things in that file: the directive (`#` at offset 30), `int` (offset 38, line 11), …,
    then — expanding `RET` — the body token `return` (offset 12, line 1) -/
def retroEvents : List Ev := [.lineDir (posMap retroWitness 30) 1 none, .tok (posMap retroWitness 38), .tok (posMap retroWitness 12)]

/-- repaired defect: on this input the old code reported the macro-body token `return` on line −8 (`.loc 1 -8`) although the
    only directive operand is 1 — so `C18_line_directive_positional` was false for it; the repaired code reports line 1, the
    physical line of the token -/
theorem C18_fixed_line_directive_retroactive :
    (∀ off n nm, Ev.lineDir off n nm ∈ retroEvents → 1 ≤ n) ∧
    runFileOld (sourceText retroWitness) (newFile "t.c" 1) retroEvents = [.tok 2 "t.c", .tok (-8) "t.c"] ∧
    ¬ (∀ l nm, Out.tok l nm ∈ runFileOld (sourceText retroWitness) (newFile "t.c" 1) retroEvents → 1 ≤ l) ∧
    runFile (sourceText retroWitness) (newFile "t.c" 1) retroEvents = [.tok 2 "t.c", .tok 1 "t.c"] ∧
    physLine retroWitness 12 = 1 := by
  have hrun : runFileOld (sourceText retroWitness) (newFile "t.c" 1) retroEvents = [.tok 2 "t.c", .tok (-8) "t.c"] := by
    decide
  refine ⟨?_, hrun, ?_, by decide, by decide⟩
  · intro off n nm h
    simp [retroEvents] at h
    omega
  · intro h
    have := h (-8) "t.c" (by rw [hrun]; simp)
    omega

/-- pre-fix `paste` / `new_str_token` / `new_num_token`: `line_no` 1 from `add_line_numbers` on the private buffer -/
def synthTokOld (tmpl : TokInfo) : TokInfo := { file := .synth tmpl.file.base, lineNo := 1 }

/-- repaired defect: for a template on line 8 the old code located the synthesised token on line 1, the repaired code on 8 -/
theorem C18_fixed_synth_token_line :
    (synthTokOld { file := .input 0, lineNo := 8 }).lineNo = 1 ∧
    (synthTok { file := .input 0, lineNo := 8 }).lineNo = 8 := by decide

/-- pre-fix `convert_universal_chars`: `if (c)` instead of `if (c && c != '\n')` — a universal character name for U+000A was
    rewritten into a real newline, also inside comments -/
def convertUCNAuxOld : Nat → List Nat → Nat → List (Nat × Nat)
  | 0, _, _ => []
  | _ + 1, [], _ => []
  | f + 1, a :: rest, s =>
    if a = BSL then
      match rest with
      | [] => [(a, s)]
      | b :: rest' =>
        if b = 117 then
          let c := readUniversalChar rest' 4 0
          if c ≠ 0 then (encodeUtf8 c).map (·, s) ++ convertUCNAuxOld f (rest'.drop 4) (s + 6)
          else (a, s) :: convertUCNAuxOld f rest (s + 1)
        else if b = 85 then
          let c := readUniversalChar rest' 8 0
          if c ≠ 0 then (encodeUtf8 c).map (·, s) ++ convertUCNAuxOld f (rest'.drop 8) (s + 10)
          else (a, s) :: convertUCNAuxOld f rest (s + 1)
        else (a, s) :: (b, s + 1) :: convertUCNAuxOld f rest' (s + 2)
    else (a, s) :: convertUCNAuxOld f rest (s + 1)

/-- `/* \u000a */⏎x⏎` (valid C: a comment may contain anything) — `x` is at file offset 13, physical line 2 -/
def ucnWitness : List Nat := [47, 42, 32, 92, 117, 48, 48, 48, 97, 32, 42, 47, 10, 120, 10]

/-- repaired defect: the old pass numbered `x` 3 (its text had a newline more before `x`); the repaired pass numbers it 2 -/
theorem C18_fixed_ucn_newline_in_comment :
    let old := convertUCNAuxOld ((sourceText ucnWitness).length + 1) (sourceText ucnWitness) 0
    lineNoOf (old.map (·.1)) (old.findIdx (fun e => e.2 == posMap ucnWitness 13)) = 3 ∧
    lineNoFinal ucnWitness 13 = 2 ∧ physLine ucnWitness 13 = 2 := by decide

end ChibiVerif.Findings.C18
