/-
C11 — kernel-checked witnesses.

No open finding.  Recorded here:
 * the identification `long long` = `long` that every C11 type statement carries (two different
   C11 types, one chibicc type);
 * what chibicc does in the region excluded from `C11_int_type` (decimal constant above
   LLONG_MAX without `u`: C11 gives it no standard type; chibicc types it `long`);
 * the repaired defect of preprocess.c `getStringKind` (fix commit in /repo): with the pre-fix test
   (`!strcmp(tok->loc, "u8")`, which compares the rest of the file and is never true) a `u8"…"` token
   was classified like `u"…"`, so the constraint violation `u8"a" u"b"` (6.4.5p2) was not diagnosed
   and `join_adjacent_string_literals` copied 4 bytes into a 3-byte buffer.
 * (not modelled, kept as a regression program in corpus/C11/001-wchar-header.c: include/stddef.h
   declared `wchar_t` as `unsigned int` while `L'x'` has type `int`.)
 * the statement `C11_text_transparent` was first written down with weaker hypotheses
   (`C11_text_transparent_Statement`, kept below as `TransparentAsFirstStated`); it is false.  The three
   minimal counterexamples (each reproduced on the real tokenizer through the in-process harness, and replayed
   by the `file` operations of checklib/C11.py on every run) are the reason for the hypotheses
   `LiteralOnFirstLine` and "not inside/in front of a BOM" of the proved theorem.  None of them is a defect
   with respect to C11: a character constant that contains a new-line is undefined (6.4.4.4), a BOM is not part
   of the standard's source character set, `\u005c` is a constraint violation (6.4.3p2).
 * (third session) the latitude of `C11_ppnumber_maximal`: with the full identifier-nondigit class of 6.4.2.1 (`_` included) the
   scan of tokenize() is not maximal — `1_0` is one pp-number for C11 and `1` followed by the identifier `_0` for chibicc.
   No valid constant contains `_`; the difference shows only when `_0` is a macro name (stringification / expansion).
 * (third session, reported to the lead as an accepts-invalid observation, outside the quantifier of C11 which ranges over
   literal spellings): because libc `strtoul` in base 16 skips a `0x` prefix of its own, `convert_pp_int` accepts the pp-number
   `0x0x1f` (not an integer constant; gcc: "invalid suffix") as the `int` 31; the digit-loop model of `strtoul` that the hand
   model uses answers "not an integer constant" there, the libc model `strtoulC` answers what the real code answers.
-/
import ChibiVerif.Model.Literals
import ChibiVerif.Model.Text
import ChibiVerif.Model.PpNumber
import ChibiVerif.Spec.PpNumberSpec

namespace ChibiVerif.Findings.C11
open ChibiVerif.Gen.Literals
open ChibiVerif.Spec.Literals
open ChibiVerif.Literals

/-- `1L` and `1LL` have different C11 types and the same chibicc type -/
theorem C11_long_long_is_long :
    litType true .l 1 = some .long ∧ litType true .ll 1 = some .llong ∧ IntType.long ≠ IntType.llong ∧
    collapse .long = collapse .llong ∧ collapse .ulong = collapse .ullong := by decide

/-- 9223372036854775808 (decimal, no suffix) has no type in the C11 list; the ladder answers `long` -/
theorem C11_decimal_above_llong_max :
    litType true .none (2 ^ 63) = none ∧ intLitType 10 false false (BitVec.ofNat 64 (2 ^ 63)) = .ty_long := by decide

/-- pre-fix `getStringKind`: the `u8` test never succeeded -/
def getStringKindOld (t : StrTok) : Except LitErr StrKind :=
  if byteAt t.src 0 = 34#8 then .ok .none
  else if byteAt t.src 0 = 117#8 then .ok .utf16
  else if byteAt t.src 0 = 85#8 then .ok .utf32
  else if byteAt t.src 0 = 76#8 then .ok .wide
  else .error .unreachable

def resolveKindOld : StrKind → Ty → List StrTok → Except LitErr (StrKind × Ty)
  | kind, basety, [] => .ok (kind, basety)
  | kind, basety, t :: ts => do
    let k ← getStringKindOld t
    if kind = .none then resolveKindOld k t.elem ts
    else if k ≠ .none ∧ kind ≠ k then .error .nonStandardConcat
    else resolveKindOld kind basety ts

def bytesOf (l : List Nat) : List Byte := l.map (BitVec.ofNat 8)

/-- `u8"a"` and `u"b"` as the tokenizer reads them -/
def tokU8a : StrTok := ⟨.ty_char, [97], 5, bytesOf [117, 56, 34, 97, 34]⟩
def tokUb : StrTok := ⟨.ty_ushort, [98], 4, bytesOf [117, 34, 98, 34]⟩

theorem C11_tokens_read :
    lexLiteral (bytesOf [117, 56, 34, 97, 34]) = .ok (.str tokU8a) ∧
    lexLiteral (bytesOf [117, 34, 98, 34]) = .ok (.str tokUb) := by decide

/-- **Witness of the repaired defect.**  Pre-fix: the run `u8"a" u"b"` passes the first pass with kind
    UTF-16 and element type `char` (so nothing is widened and the second pass copies a 4-byte token into
    a `char` buffer of 3); current code: diagnosed. -/
theorem C11_fixed_u8_kind_witness :
    (getStringKindOld tokU8a >>= fun k => resolveKindOld k tokU8a.elem [tokUb]) = .ok (.utf16, .ty_char) ∧
    joinStrings [tokU8a, tokUb] = .error .nonStandardConcat := by decide

-- ------------------------------------------------------------------ splice transparency as first stated is false

open ChibiVerif.Text in
/-- `C11_text_transparent_Statement` as it stood while it was open -/
def TransparentAsFirstStated : Prop :=
  ∀ (a b : List Byte), BSL ∉ a → CR ∉ a → CR ∉ b → 0#8 ∉ a → 0#8 ∉ b →
    lexLiteral (phase12 (a ++ BSL :: LF :: b)) = lexLiteral (phase12 (a ++ b))

open ChibiVerif.Text in
/-- **counterexample 1** (minimal: 3 bytes): `'` / newline `'`.  `read_char_literal` closes the constant with `strchr`,
    which runs over newlines; `remove_backslash_newline` re-inserts the deleted newline after the next one, so the token
    (value 10 in both cases) is one byte longer. -/
theorem C11_splice_witness_char :
    lexLiteral (phase12 ([39#8] ++ BSL :: LF :: [10#8, 39#8])) = .ok (.chr 10#64 .ty_int 4) ∧
    lexLiteral (phase12 ([39#8] ++ [10#8, 39#8])) = .ok (.chr 10#64 .ty_int 3) := by decide

open ChibiVerif.Text in
/-- **counterexample 2**: a splice in front of (or inside) a UTF-8 BOM: `tokenize_file` tests for the BOM before it
    removes splices, so the BOM is not skipped and the text no longer starts with the literal `1`. -/
theorem C11_splice_witness_bom :
    lexLiteral (phase12 ([] ++ BSL :: LF :: [0xEF#8, 0xBB#8, 0xBF#8, 0x31#8])) = .error .notALiteral ∧
    lexLiteral (phase12 ([0xEF#8, 0xBB#8] ++ BSL :: LF :: [0xBF#8, 0x31#8])) = .error .notALiteral ∧
    lexLiteral (phase12 ([] ++ [0xEF#8, 0xBB#8, 0xBF#8, 0x31#8])) = .ok (.int 1#64 .ty_int 1) := by decide

open ChibiVerif.Text in
/-- **counterexample 3**: `"\u005c` newline `abc"`: `convert_universal_chars` (which runs after the splices are removed)
    produces a backslash in front of the newline and `string_literal_end` steps over the pair; with one more splice on
    the first line the re-inserted newline ends the literal: "unclosed string literal". -/
theorem C11_splice_witness_ucn_backslash :
    lexLiteral (phase12 ([0x22#8] ++ BSL :: LF :: [92#8, 0x75#8, 0x30#8, 0x30#8, 0x35#8, 0x63#8, 10#8, 0x61#8, 0x22#8])) =
      .error .unclosedString ∧
    lexLiteral (phase12 ([0x22#8] ++ [92#8, 0x75#8, 0x30#8, 0x30#8, 0x35#8, 0x63#8, 10#8, 0x61#8, 0x22#8])) =
      .ok (.str ⟨.ty_char, [10, 0x61], 5, [0x22#8, 92#8, 10#8, 0x61#8, 0x22#8]⟩) := by decide

/-- the statement as first written is false (witness 1) -/
theorem C11_text_transparent_as_first_stated_is_false : ¬ TransparentAsFirstStated := by
  intro h
  have h1 := h [39#8] [10#8, 39#8] (by decide) (by decide) (by decide) (by decide) (by decide)
  rw [C11_splice_witness_char.1, C11_splice_witness_char.2] at h1
  exact absurd h1 (by decide)

-- ------------------------------------------------------------------ pp-numbers: the stated latitude; strtoul's own 0x prefix

open ChibiVerif.Spec.PpNumber in
/-- **latitude of `C11_ppnumber_maximal`.**  `1_0` is a pp-number of 6.4.8 when identifier-nondigit includes `_` (6.4.2.1), and the
    translated scan stops after `1` -/
theorem C11_ppnumber_latitude :
    PPNumber isNondigitC11 [0x31#8, 0x5F#8, 0x30#8] ∧
    ChibiVerif.Gen.PpNum.ppNumberStart [0x31#8, 0x5F#8, 0x30#8] 0 = true ∧
    ChibiVerif.Gen.PpNum.ppNumberEnd [0x31#8, 0x5F#8, 0x30#8] 0 = 1 := by
  refine ⟨?_, by decide, by decide⟩
  exact .appDigit [0x31#8, 0x5F#8] 0x30#8 (.appNondigit [0x31#8] 0x5F#8 (.digit 0x31#8 (by decide)) (by decide)) (by decide)

/-- `0x0x1f`: the translated `convert_pp_int` with the libc model of `strtoul` accepts it as the `int` 31 (so does the real
    code: `int 307830783166` of the check's protocol); with the digit loop of the hand model it is not an integer constant -/
theorem C11_strtoul_second_prefix :
    ChibiVerif.PpNumber.convertPpIntC [48#8, 120#8, 48#8, 120#8, 0x31#8, 0x66#8] 0 6 = some (31#64, .ty_int) ∧
    convertPpInt [48#8, 120#8, 48#8, 120#8, 0x31#8, 0x66#8] = none := by decide

end ChibiVerif.Findings.C11
