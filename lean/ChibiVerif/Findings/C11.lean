/-
C11 — kernel-checked witnesses.

No open finding.  Recorded here:
 * the identification `long long` = `long` that every C11 type statement carries (two different
   C11 types, one chibicc type);
 * what chibicc does in the region excluded from `C11_int_type` (decimal constant above
   LLONG_MAX without `u`: C11 gives it no standard type; chibicc types it `long`);
 * the repaired defect of preprocess.c `getStringKind` (fix commit in /repo): with the pre-fix test
   (`!strcmp(tok->loc, "u8")`, which compares the rest of the file and is never true) a `u8"…"` token
   was classified like `u"…"`, so the constraint violation `u8"a" u"b"` (6.4.5p2) was not diagnosed
   and `join_adjacent_string_literals` copied 4 bytes into a 3-byte buffer.
 * (not modelled, kept as a regression program in corpus/C11/001-wchar-header.c: include/stddef.h
   declared `wchar_t` as `unsigned int` while `L'x'` has type `int`.)
-/
import ChibiVerif.Model.Literals

namespace ChibiVerif.Findings.C11
open ChibiVerif.Gen.Literals
open ChibiVerif.Spec.Literals
open ChibiVerif.Literals

/-- `1L` and `1LL` have different C11 types and the same chibicc type -/
theorem C11_long_long_is_long :
    litType true .l 1 = some .long ∧ litType true .ll 1 = some .llong ∧ IntType.long ≠ IntType.llong ∧
    collapse .long = collapse .llong ∧ collapse .ulong = collapse .ullong := by decide

/-- 9223372036854775808 (decimal, no suffix) has no type in the C11 list; the ladder answers `long` -/
theorem C11_decimal_above_llong_max :
    litType true .none (2 ^ 63) = none ∧ intLitType 10 false false (BitVec.ofNat 64 (2 ^ 63)) = .ty_long := by decide

/-- pre-fix `getStringKind`: the `u8` test never succeeded -/
def getStringKindOld (t : StrTok) : Except LitErr StrKind :=
  if byteAt t.src 0 = 34#8 then .ok .none
  else if byteAt t.src 0 = 117#8 then .ok .utf16
  else if byteAt t.src 0 = 85#8 then .ok .utf32
  else if byteAt t.src 0 = 76#8 then .ok .wide
  else .error .unreachable

def resolveKindOld : StrKind → Ty → List StrTok → Except LitErr (StrKind × Ty)
  | kind, basety, [] => .ok (kind, basety)
  | kind, basety, t :: ts => do
    let k ← getStringKindOld t
    if kind = .none then resolveKindOld k t.elem ts
    else if k ≠ .none ∧ kind ≠ k then .error .nonStandardConcat
    else resolveKindOld kind basety ts

def bytesOf (l : List Nat) : List Byte := l.map (BitVec.ofNat 8)

/-- `u8"a"` and `u"b"` as the tokenizer reads them -/
def tokU8a : StrTok := ⟨.ty_char, [97], 5, bytesOf [117, 56, 34, 97, 34]⟩
def tokUb : StrTok := ⟨.ty_ushort, [98], 4, bytesOf [117, 34, 98, 34]⟩

theorem C11_tokens_read :
    lexLiteral (bytesOf [117, 56, 34, 97, 34]) = .ok (.str tokU8a) ∧
    lexLiteral (bytesOf [117, 34, 98, 34]) = .ok (.str tokUb) := by decide

/-- **Witness of the repaired defect.**  Pre-fix: the run `u8"a" u"b"` passes the first pass with kind
    UTF-16 and element type `char` (so nothing is widened and the second pass copies a 4-byte token into
    a `char` buffer of 3); current code: diagnosed. -/
theorem C11_fixed_u8_kind_witness :
    (getStringKindOld tokU8a >>= fun k => resolveKindOld k tokU8a.elem [tokUb]) = .ok (.utf16, .ty_char) ∧
    joinStrings [tokU8a, tokUb] = .error .nonStandardConcat := by decide

end ChibiVerif.Findings.C11
