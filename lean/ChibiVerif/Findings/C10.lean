/-
C10 — kernel-checked witnesses (known finding C10-ppif-int-result-shift, repaired defects).
-/
import ChibiVerif.Model.PPExpr

namespace ChibiVerif.Findings.C10
open ChibiVerif.CondIncl ChibiVerif.PPExpr

/-- `(1 < 2) << 40` -/
def shiftWitness : Expr := .bin .shl (.bin .lt (.num 1 false) (.num 2 false)) (.num 40 false)

/-- C11 6.10.1p4: the controlling expression `(1 < 2) << 40` is nonzero … -/
theorem C10_witness_shift_spec : ev shiftWitness [] = .ok true := by decide

/-- … chibicc types `1 < 2` as `int`, reduces the shifted value to 32 bits and finds it zero -/
theorem C10_witness_shift_code : evC shiftWitness [] = .ok false := by decide

end ChibiVerif.Findings.C10
