/-
C10 — kernel-checked witnesses.

1. KNOWN FINDING `C10-ppif-int-result-shift` (open): in #if, chibicc types the results of
   `< <= > >= == != ! && ||` as `int` (type.c `add_type`), not intmax_t (C11 6.10.1p4); `eval`
   reduces every result to the node's type, so shifting such a result left loses the bits above 31.
   `#if (1 < 2) << 40` is false.  `Props/C10.lean` proves `C10_ifexpr_partial` /
   `C10_groups_c11_partial` outside the region `intResultOverflows`; here: the negation of the full
   statements.

2. Witnesses of defects REPAIRED in /repo by `fix:` commits (the models in Model/ follow the
   repaired code; the pre-fix behaviour is re-modelled here only to keep the witnesses checkable):
   * include-guard detection without depth tracking (0179c7c),
   * -idirafter directories searched before the system directories,
   * the single global `include_next_idx` (a cache hit did not update it; `search_include_next`
     left it at the directory found),
   * a null directive glued to the next line,
   * an include cycle ran until memory was exhausted (b453bf4: nesting limit 200).

3. The one place where the include-guard shortcut is observable: at the nesting limit.
-/
import ChibiVerif.Props.C10

namespace ChibiVerif.Findings.C10
open ChibiVerif.CondIncl ChibiVerif.PPExpr ChibiVerif.IncludeSearch ChibiVerif.Spec.CondIncl
open ChibiVerif.Props.C10 ChibiVerif.IncludeDepth

-- ================================================================== 1. known finding (open)

/-- `(1 < 2) << 40` -/
def shiftWitness : Expr := .bin .shl (.bin .lt (.num 1 false) (.num 2 false)) (.num 40 false)

/-- C11 6.10.1p4: the controlling expression `(1 < 2) << 40` is nonzero … -/
theorem C10_witness_shift_spec : ev shiftWitness [] = .ok true := by decide

/-- … chibicc types `1 < 2` as `int`, reduces the shifted value to 32 bits and finds it zero … -/
theorem C10_witness_shift_code : evC shiftWitness [] = .ok false := by decide

/-- … and the witness lies in the region excluded by `C10_ifexpr_partial` -/
theorem C10_witness_shift_in_region : intResultOverflows [] shiftWitness = true := by decide

/-- **finding**: the full statement about #if arithmetic is false for the code as it is -/
theorem C10_finding_ifexpr : ¬ C10_ifexpr_Statement := by
  intro h
  have := h [] shiftWitness (by decide)
  rw [C10_witness_shift_spec, C10_witness_shift_code] at this
  exact absurd this (by decide)

/-- `#if (1 < 2) << 40` / `yes` / `#else` / `no` / `#endif` -/
def shiftUnit : List (Line Expr Body) :=
  [.opens (.ifE shiftWitness), .plain (.text ["yes"]), .part (.els false), .plain (.text ["no"]), .endif false]

/-- **finding**: chibicc selects `no`, C11 6.10.1 selects `yes` -/
theorem C10_finding_groups_c11 : ¬ C10_groups_c11_Statement := by
  intro h
  have h1 : condMachine evC shiftUnit [] = .ok ⟨[], [["no"]]⟩ := by decide
  have h2 : groups ev shiftUnit [] = .ok ⟨[], [["yes"]]⟩ := by decide
  have := h shiftUnit [] (by decide)
  rw [h1, h2] at this
  exact absurd this (by decide)

/-- the region is a sufficient condition, not an exact one, and no region short of "the two evaluators differ" can be
    exact: `(1 < 2) << 40 || 1` and `((1 < 2) << 40) * 0 == 0` lie in the region (the shifted comparison result is evaluated
    and loses its bit), yet the truth value of the whole expression is the same – whether a lost bit reaches the result
    depends on the values around it -/
theorem C10_region_not_exact :
    let w1 : Expr := .bin .lor shiftWitness (.num 1 false)
    let w2 : Expr := .bin .eq (.bin .mul shiftWitness (.num 0 false)) (.num 0 false)
    intResultOverflows [] w1 = true ∧ evC w1 [] = ev w1 [] ∧ intResultOverflows [] w2 = true ∧ evC w2 [] = ev w2 [] := by decide

/-- neighbours of the witness outside the region agree (shift by 30; multiplication instead of shift) -/
theorem C10_witness_shift_neighbours :
    evC (.bin .shl (.bin .lt (.num 1 false) (.num 2 false)) (.num 30 false)) [] = .ok true ∧
    evC (.bin .eq (.bin .mul (.bin .lt (.num 1 false) (.num 2 false)) (.num (2^40) false)) (.num (2^40) false)) [] = .ok true := by
  decide

-- ================================================================== 2a. repaired: include-guard detection

variable {ε β : Type}

/-- the detector before the fix: `#ifndef G` / `#define G` at the top and *some* `#endif` as the last
    line (it tested `equal(tok, "if")` on the `#` token, so nested conditionals were never stepped
    over, and an #else of the guard was not noticed) -/
def detectGuardOld : List (Line ε β) → Option String
  | .opens (.ifndef g false) :: .plain (.define g' _) :: rest =>
    if g = g' then
      (match rest.getLast? with
       | some (.endif false) => some g
       | _ => none)
    else none
  | _ => none

/-- `#ifndef G / #define G / a / #endif / y / #if 1 / b / #endif` -/
def earlyClosed : List (Line Bool Unit) :=
  [.opens (.ifndef "G" false), .plain (.define "G" ()), .plain (.text ["a"]), .endif false,
   .plain (.text ["y"]), .opens (.ifE true), .plain (.text ["b"]), .endif false]

/-- the old detector remembered this file as guarded by `G`, although with `G` defined it still
    emits `y` and `b`: a second #include dropped them.  The repaired detector rejects it. -/
theorem C10_fixed_guard_detection :
    detectGuardOld earlyClosed = some "G" ∧
    condMachine (fun b _ => .ok b) earlyClosed [("G", ())] = .ok ⟨[("G", ())], [["y"], ["b"]]⟩ ∧
    detectGuard earlyClosed = none := by decide

-- ================================================================== 2b. repaired: -idirafter before system

/-- `include_paths` before the fix: parse_args appended the -idirafter directories itself, and main
    called add_default_include_paths afterwards -/
def includePathsOld (c : Config) : List String := c.iDirs ++ c.idirafter ++ c.sysDirs

/-- `#include <h.h>` with `-idirafter d`, `h.h` both in `d` and in the system directory `S`: the old
    order opens `d/h.h`, the documented order (and the repaired code) `S/h.h` -/
theorem C10_fixed_idirafter_order :
    firstExisting (fun p => p == "d/h.h" || p == "S/h.h") (includePathsOld ⟨[], ["S"], ["d"]⟩) "h.h" = some "d/h.h" ∧
    firstExisting (fun p => p == "d/h.h" || p == "S/h.h") (includePaths ⟨[], ["S"], ["d"]⟩) "h.h" = some "S/h.h" ∧
    Spec.IncludeSearch.search (fun p => p == "d/h.h" || p == "S/h.h") ⟨[], ["S"], ["d"]⟩ "." false "h.h" = some "S/h.h" := by
  decide

-- ================================================================== 2c. repaired: global include_next_idx

/-- pre-fix `search_include_paths`: a cache *miss* sets the global `include_next_idx` to the index
    after the directory found; a cache *hit* leaves it alone -/
def searchIncludePathsOld (fsx : String → Bool) (paths : List String) (st : Cache × Nat) (name : String) :
    Option String × (Cache × Nat) :=
  match st.1.get name with
  | some p => (some p, st)
  | none =>
    let i := paths.findIdx (fun d => fsx (joinPath d name))
    if i < paths.length then (some (joinPath (paths.getD i "") name), ((name, joinPath (paths.getD i "") name) :: st.1, i + 1))
    else (none, st)

/-- pre-fix `search_include_next`: continue from the global index -/
def searchIncludeNextOld (fsx : String → Bool) (paths : List String) (idx : Nat) (name : String) : Option String :=
  firstExisting fsx (paths.drop idx) name

/-- -IA -IB -IC; A/x.h, B/x.h, C/y.h.  The main file includes <x.h>, <y.h>, <x.h>; A/x.h says
    `#include_next <x.h>`.  First time: found at index 0, the global is 1, #include_next finds B/x.h.
    Then <y.h> moves the global to 3.  Second <x.h>: cache hit, the global stays 3, #include_next
    starts behind the end of the list and finds nothing ("cannot open file") – the cache changed the
    answer.  The repaired `search_include_next` (directory of the current file) finds B/x.h both times. -/
theorem C10_fixed_include_next_global :
    let fsx : String → Bool := fun p => p == "A/x.h" || p == "B/x.h" || p == "C/y.h"
    let paths := ["A", "B", "C"]
    let s1 := searchIncludePathsOld fsx paths ([], 0) "x.h"
    let n1 := searchIncludeNextOld fsx paths s1.2.2 "x.h"
    let s2 := searchIncludePathsOld fsx paths s1.2 "y.h"
    let s3 := searchIncludePathsOld fsx paths s2.2 "x.h"
    let n3 := searchIncludeNextOld fsx paths s3.2.2 "x.h"
    s1.1 = some "A/x.h" ∧ n1 = some "B/x.h" ∧ s3.1 = some "A/x.h" ∧ n3 = none ∧
    searchIncludeNext fsx paths "x.h" "A/x.h" = some "B/x.h" := by decide

/-- … and it left the index *at* the directory found: from B/x.h a further `#include_next <x.h>`
    found B/x.h again (unbounded recursion), where the repaired code reaches C/x.h -/
theorem C10_fixed_include_next_self :
    let fsx : String → Bool := fun p => p == "A/x.h" || p == "B/x.h" || p == "C/x.h"
    firstExisting fsx (["A", "B", "C"].drop 1) "x.h" = some "B/x.h" ∧       -- old: index stays 1 after finding B/x.h
    searchIncludeNext fsx ["A", "B", "C"] "x.h" "B/x.h" = some "C/x.h" := by decide

-- ================================================================== 2e. repaired: include cycles

/-- the file system in which every path names the one-line file `#include "f"` (old machine) -/
def cycleFS : FS ε β := fun _ => some [.incl true "f"]
/-- … and for the machine with the nesting limit -/
def cycleXFS : XFS ε β := fun _ => some [.base (.incl true "f")]

theorem cycleXFS_resolve (paths : List String) (cache : Cache) (file : String) :
    (resolveInclude (cycleXFS : XFS ε β).has paths cache file true "f").1 = joinPath (dirname file) "f" := by
  have ha : isAbs "f" = false := by decide
  simp [resolveInclude, ha, XFS.has, cycleXFS]

/-- before b453bf4 (`runInc`, no nesting limit): the cycle exhausts every step budget – cc1 included until
    memory was exhausted -/
theorem C10_fixed_include_cycle_old (ev : ε → Defs β → Except Diag Bool) (paths : List String) :
    ∀ (fuel : Nat) (file : String) (s : IState β), s.once = [] → s.guards = [] →
      runInc ev (cycleFS : FS ε β) paths true fuel [(file, .incl true "f")] .proc s = .error .outOfFuel
  | 0, _, _, _, _ => rfl
  | fuel + 1, file, s, ho, hg => by
    simp only [runInc, stepInc, includeFile, ho, hg, guardOf, List.find?_nil, Option.map_none, List.contains_nil,
      Bool.false_eq_true, if_false, Bool.and_false, FS.get, cycleFS, List.map_cons, List.map_nil, detectGuard,
      ILine.toLine, List.append_nil]
    exact C10_fixed_include_cycle_old ev paths fuel _ _ rfl rfl

/-- since b453bf4: for EVERY nesting limit `r` the cycle ends with the located diagnostic (at line 1 of the
    innermost file opened) -/
theorem C10_fixed_include_cycle (ev : ε → Defs β → Except Diag Bool) (xp : Xp β) (paths : List String) (b : Bool) :
    ∀ (r : Nat) (file : String) (s : IState β), s.once = [] → s.guards = [] →
      ∃ f, runAt ev xp (cycleXFS : XFS ε β) paths b r file [.base (.incl true "f")] .proc s = .error (.nestedTooDeeply f 1)
  | 0, file, s, ho, hg => by
    refine ⟨file, ?_⟩
    simp [runAt, runLines, preStep, inclTarget, mkTarget, shortcutFires, ho, hg, guardOf]
  | r + 1, file, s, ho, hg => by
    obtain ⟨f, hf⟩ := C10_fixed_include_cycle ev xp paths b r (joinPath (dirname file) "f")
      ({ s with cache := (resolveInclude (cycleXFS : XFS ε β).has paths s.cache file true "f").2 } : IState β) ho hg
    refine ⟨f, ?_⟩
    simp only [runAt, runLines, preStep, inclTarget, mkTarget, shortcutFires, ho, hg, guardOf, List.find?_nil, Option.map_none,
      List.contains_nil, Bool.and_false, Bool.or_false, Bool.false_eq_true, if_false, cycleXFS_resolve,
      openFile, XFS.get, cycleXFS, List.map_cons, List.map_nil, detectGuard, XLine.toLine, ILine.toLine]
    rw [ho, hg] at hf
    rw [hf]

-- ================================================================== 3. the shortcut at the nesting limit

/-- m.c: `#include "g.h"`, `#include "a.h"`; a.h: `#include "g.h"`; g.h guarded.  With nesting limit 1 the
    second `#include "g.h"` stands in a file of depth 1: include_file's guard shortcut returns before the nesting
    test, plain textual inclusion is refused.  This is the only way in which `C10_shortcuts_graph` fails to be an
    equivalence (with the real limit: a guarded header named again from a file at depth 200). -/
theorem C10_shortcut_at_limit :
    let fs : XFS Bool Unit := XFS.ofTable [("m.c", [.base (.incl true "g.h"), .base (.incl true "a.h")]),
      ("./a.h", [.base (.incl true "g.h")]),
      ("./g.h", [.base (.c (.opens (.ifndef "G" false))), .base (.c (.plain (.define "G" ()))), .base (.c (.plain (.text ["g"]))),
        .base (.c (.endif false))])]
    let xp : Xp Unit := fun _ _ ts => .ok ts
    includeRun (fun b _ => .ok b) xp fs [] [] [] "m.c" true 1 = .ok ⟨[("G", ())], [["g"]]⟩ ∧
    includeRun (fun b _ => .ok b) xp fs [] [] [] "m.c" false 1 = .error (.nestedTooDeeply "./a.h" 1) ∧
    includeRun (fun b _ => .ok b) xp fs [] [] [] "m.c" false 2 = .ok ⟨[("G", ())], [["g"]]⟩ := by decide +kernel

-- ================================================================== 2d. repaired: null directive glued to the next line

/-- how the pre-fix code read `#` *newline* `else …`: as the directive `#else` (it looked at the
    token after `#` without checking that it is on the same line) -/
def glueNull : List (Line Bool Unit) → List (Line Bool Unit)
  | .plain .other :: .plain (.text ("else" :: _)) :: rest => .part (.els true) :: glueNull rest
  | l :: rest => l :: glueNull rest
  | [] => []

/-- `#if 1 / a / # / else b / #endif / c`: the text line `else b` was taken for `#else`, so `b` was lost -/
theorem C10_fixed_null_directive :
    let u : List (Line Bool Unit) := [.opens (.ifE true), .plain (.text ["a"]), .plain .other,
      .plain (.text ["else", "b"]), .endif false, .plain (.text ["c"])]
    condMachine (fun b _ => .ok b) (glueNull u) [] = .ok ⟨[], [["a"], ["c"]]⟩ ∧
    condMachine (fun b _ => .ok b) u [] = .ok ⟨[], [["a"], ["else", "b"], ["c"]]⟩ := by decide

end ChibiVerif.Findings.C10
