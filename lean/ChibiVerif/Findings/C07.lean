/- C07: kernel-checked witnesses (every `theorem` here is closed by `decide`: the kernel evaluates the translated folder). -/
import ChibiVerif.Props.C07
import ChibiVerif.Props.C07Float

namespace ChibiVerif.Findings.C07
open ChibiVerif.Host ChibiVerif.Gen.ConstEval ChibiVerif.Spec.Const ChibiVerif.ConstElab ChibiVerif.ConstEvalLemmas
open ChibiVerif.Props.C07

/-! ## Repaired: `is_const_expr` evaluated the condition of a `?:` sitting in an unevaluated operand of `&&` / `||` -/

/-- `1 || (1/0 ? 1 : 2)` -/
def unevaluatedCond : CExpr :=
  .lor (.lit .i32 1) (.cond (.bin .div (.lit .i32 1) (.lit .i32 0)) (.lit .i32 1) (.lit .i32 2))

/-- it is an integer constant expression with the value 1 (C11 6.6p3 footnote 115: the right operand is not evaluated), the
    folder agrees, and `is_const_expr` now accepts it (`int a[1 || (1/0 ? 1 : 2)];` was rejected with the division
    diagnostic before the fix; regression witness) -/
theorem C07_fixed_unevaluated_cond :
    Spec.Const.eval unevaluatedCond = some 1 ∧ eval2 .wrapping noFp (elabE unevaluatedCond) false = .ok 1#64 ∧
    isConstExpr .wrapping noFp (elabE unevaluatedCond) = .ok true := by decide

/-! ## The host arithmetic of the folder: C11-defined `unsigned long` expressions execute host-undefined signed overflow -/

/-- `0x7fffffffffffffffUL + 1` has the C11 value 2^63; the folder computes it as `int64_t + int64_t`: undefined in the host's
    abstract machine (strict), the right bits on a wrapping host -/
theorem C07_host_signed_overflow :
    Spec.Const.eval (.bin .add (.lit .u64 9223372036854775807) (.lit .i32 1)) = some 9223372036854775808 ∧
    eval2 .strict noFp (elabE (.bin .add (.lit .u64 9223372036854775807) (.lit .i32 1))) false
      = .error (.hostUB "signed overflow in +") ∧
    eval2 .wrapping noFp (elabE (.bin .add (.lit .u64 9223372036854775807) (.lit .i32 1))) false
      = .ok (BitVec.ofInt 64 9223372036854775808) := by decide

/-- same for `-`, `*`, unary `-` and `<<` on `unsigned long` -/
theorem C07_host_signed_overflow_others :
    eval2 .strict noFp (elabE (.bin .sub (.lit .u64 9223372036854775808) (.lit .u64 1))) false = .error (.hostUB "signed overflow in -") ∧
    eval2 .strict noFp (elabE (.bin .mul (.lit .u64 4294967296) (.lit .u64 4294967296))) false = .error (.hostUB "signed overflow in *") ∧
    eval2 .strict noFp (elabE (.un .neg (.lit .u64 9223372036854775808))) false = .error (.hostUB "signed overflow in unary -") ∧
    eval2 .strict noFp (elabE (.bin .shl (.lit .u64 1) (.lit .i32 63))) false = .error (.hostUB "signed overflow in <<") := by decide

/-! ## Repaired defects of the pinned tree (regression witnesses: these now evaluate to the C11 value) -/

/-- `long x = -1 + 0;` folded to 4294967295 -/
theorem C07_fixed_minus_one :
    eval2 .wrapping noFp (elabE (.bin .add (.un .neg (.lit .i32 1)) (.lit .i32 0))) false = .ok (BitVec.ofInt 64 (-1)) := by decide
/-- `~0u >> 1` folded to 0xffffffff -/
theorem C07_fixed_not_shr :
    eval2 .wrapping noFp (elabE (.bin .shr (.un .bitnot (.lit .u32 0)) (.lit .i32 1))) false = .ok 2147483647#64 := by decide
/-- `(_Bool)256` folded to 0 -/
theorem C07_fixed_bool_cast : eval2 .wrapping noFp (elabE (.cast .bool (.lit .i32 256))) false = .ok 1#64 := by decide
/-- `int x = 1/0;` killed cc1 with SIGFPE -/
theorem C07_fixed_div_zero :
    eval2 .wrapping noFp (elabE (.bin .div (.lit .i32 1) (.lit .i32 0))) false
      = .error (.diag "division by zero in a constant expression") := by decide
/-- `int a[7 % 4]` became a VLA -/
theorem C07_fixed_mod_const : isConstExpr .wrapping noFp (elabE (.bin .mod (.lit .i32 7) (.lit .i32 4))) = .ok true := by decide
/-- `static _Bool b = 2;` stored 2 -/
theorem C07_fixed_bool_init : storeGvar .wrapping noFp (descr .bool) (elabE (.lit .i32 2)) 2#64 = .ok 1#64 := by decide

/-! ## Floating folding, kernel-evaluated on the software FPU (`SoftFp.softHost`: real binary32 / binary64 / x87 formats) -/

section float
open ChibiVerif.Spec.ConstF ChibiVerif.SoftFp
set_option maxRecDepth 100000

/-- `1.8e19` as the tokenizer holds it (a `double` constant: fval = 0x403e f9cc d8a1 c508 0000) -/
def c1_8e19 : AExpr := .flit .f64 0x403ef9ccd8a1c5080000#80

/-- **Repaired (6a09034)**: `static unsigned long a = 1.8e19;` (a floating initializer of an unsigned long object, no cast node)
    was folded through `int64_t` — `eval2` on the raw floating node, the x86 integer indefinite 0x8000000000000000 — while the
    run-time conversion gives 18000000000000000000.  `write_gvar_data` now converts such an initializer with
    `(uint64_t)eval_double(init->expr)`: the scalar path stores the C11 value; the old path, still expressible in the model,
    does not (regression witness). -/
theorem C07_fixed_float_init_u64 :
    storeGvarScalar .wrapping softHost (descr .u64) (elabA c1_8e19) = .ok 18000000000000000000#64 ∧
    (eval2 .wrapping softHost (elabA c1_8e19) true >>= fun v => storeGvar .wrapping softHost (descr .u64) (elabA c1_8e19) v)
      = .ok 0x8000000000000000#64 := by decide

/-- **Repaired (d20bf97)**: `(unsigned long)1.8e19` and `(unsigned long)9223372036854775808.0` fold to the run-time value
    (the ND_CAST arm converts a floating operand of an unsigned 8-byte cast with `(uint64_t)eval_double`) -/
theorem C07_fixed_cast_u64 :
    eval2 .wrapping softHost (elabA (.cast (.int .u64) c1_8e19)) false = .ok 18000000000000000000#64 ∧
    eval2 .wrapping softHost (elabA (.cast (.int .u64) (.flit .f64 0x403e8000000000000000#80))) false = .ok 9223372036854775808#64 ∧
    Spec.ConstF.eval ops (.cast (.int .u64) c1_8e19) = some (.int 18000000000000000000) := by decide

/-- instances of `C07_fold_float` on the real formats: `1.0f / 3.0f` (one single-precision division, 0x3eaaaaab),
    `0.1 + 0.2` (0x3fd3333333333334, not 0.3), `(float)16777217` (rounds to 16777216), `0.1f == 0.1` (false) -/
theorem C07_float_instances :
    storeGvarF32 .wrapping softHost (elabA (.bin .div (.flit .f32 0x3fff8000000000000000#80) (.flit .f32 0x4000c000000000000000#80)))
      = .ok 0x3eaaaaab#32 ∧
    storeGvarF64 .wrapping softHost (elabA (.bin .add (.flit .f64 0x3ffbccccccccccccd000#80) (.flit .f64 0x3ffcccccccccccccd000#80)))
      = .ok 0x3fd3333333333334#64 ∧
    storeGvarF32 .wrapping softHost (elabA (.cast (.flt .f32) (.ilit .i32 16777217))) = .ok 0x4b800000#32 ∧
    eval2 .wrapping softHost (elabA (.bin .eq (.flit .f32 0x3ffbcccccd0000000000#80) (.flit .f64 0x3ffbccccccccccccd000#80))) false = .ok 0#64 := by
  decide

end float

end ChibiVerif.Findings.C07
