/- C07: kernel-checked witnesses -/
import ChibiVerif.Model.ConstElab

namespace ChibiVerif.Findings.C07
open ChibiVerif.Host ChibiVerif.Gen.ConstEval ChibiVerif.Spec.Const ChibiVerif.ConstElab

end ChibiVerif.Findings.C07
