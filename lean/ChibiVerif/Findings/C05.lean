/-
C05 — kernel-checked witnesses.

1. Known finding `C05-brace-override-keeps-old`: a brace-enclosed initializer list for a sub-object that an earlier initializer of the
   same declaration already initialised must replace that sub-object as a whole (C11 6.7.9p19, p21); parse.c re-uses the existing
   `Initializer` node and only overwrites the members the new list mentions.
      struct In { int a, b; }; struct S { struct In in; int z; } s = { .in = {1, 2}, .in = {3}, 9 };
   model (= chibicc): in.b == 2;  specification (= gcc): in.b == 0.
   The witness lies in the region `InitSpec.BraceOverride`, outside which `C05_parse_spec_partial` is stated.

2. Repaired defect (`fix:` in /repo): `_Bool` bit-field, static storage.  `write_gvar_data` masked the unconverted value while
   `create_lvar_init` assigns (and so converts):
      struct B { _Bool b : 1; } s = { 2 };     pre-fix static: b == 0 (2 & 1), automatic: b == 1
   The repaired arm converts first (`newval != 0`); the witness below shows the pre-fix value and that both back ends now give 1.
-/
import ChibiVerif.Model.Init
import ChibiVerif.Spec.InitSpec
import ChibiVerif.Lemmas.InitLeafLemmas

namespace ChibiVerif.Findings.C05
open ChibiVerif.Init

def tInt : Ty := .scalar 4 .int
def tIn : Ty := .struct [(⟨some "a", 0, none⟩, tInt), (⟨some "b", 4, none⟩, tInt)] 8 false
def tS : Ty := .struct [(⟨some "in", 0, none⟩, tIn), (⟨some "z", 8, none⟩, tInt)] 12 false
def n (v : Int) : ITok := .expr (Expr.num v)

/-- `{ .in = {1, 2}, .in = {3}, 9 }` -/
def overrideToks : List ITok :=
  [.lbrace, .dot "in", .eq, .lbrace, n 1, .comma, n 2, .rbrace, .comma, .dot "in", .eq, .lbrace, n 3, .rbrace, .comma, n 9, .rbrace]

/-- the object a parse result denotes (static back end), as a list of cells -/
def objectOf (r : Except Fail (Init × List ITok)) (ty : Ty) : Option (List Cell) :=
  match r with
  | .ok (t, _) => (staticObject t ty).toOption
  | .error _ => none

/-- the model (the code): `in.b` keeps the 2 of the overridden list -/
theorem C05_finding_brace_override_model :
    objectOf (parseInit tS overrideToks) tS = some ([3,0,0,0, 2,0,0,0, 9,0,0,0].map Cell.byte) := by decide

/-- the specification (6.7.9p19): the second list initialises `in` afresh -/
theorem C05_finding_brace_override_spec :
    objectOf (InitSpec.init tS overrideToks) tS = some ([3,0,0,0, 0,0,0,0, 9,0,0,0].map Cell.byte) := by decide

/-- hence parser ≠ specification on this input, and the input is in the declared region -/
theorem C05_finding_brace_override : parseInit tS overrideToks ≠ InitSpec.init tS overrideToks := by
  intro h
  have h1 := C05_finding_brace_override_model
  rw [h, C05_finding_brace_override_spec] at h1
  revert h1
  decide

theorem C05_finding_brace_override_in_region : InitSpec.BraceOverride tS overrideToks = true := by decide

/-- `struct B { _Bool b : 1; } = { 2 }` -/
def tB : Ty := .struct [(⟨some "b", 0, some (0, 1)⟩, .scalar 1 .bool)] 1 false

theorem C05_repaired_bool_bitfield :
    (u64 2 &&& bfMask 1) <<< 0 = 0 ∧                                                     -- what the pre-fix arm stored
    (staticObject (.struct none [.leaf (some (Expr.num 2))]) tB).toOption = some [Cell.byte 1] ∧
    (autoObject (.struct none [.leaf (some (Expr.num 2))]) tB).toOption = some [Cell.byte 1] := by decide

end ChibiVerif.Findings.C05
