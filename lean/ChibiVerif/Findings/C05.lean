/-
C05 — kernel-checked witnesses.

1. Known finding `C05-brace-override-keeps-old`: a brace-enclosed initializer list for a sub-object that an earlier initializer of the
   same declaration already initialised must replace that sub-object as a whole (C11 6.7.9p19, p21); parse.c re-uses the existing
   `Initializer` node and only overwrites the members the new list mentions.
      struct In { int a, b; }; struct S { struct In in; int z; } s = { .in = {1, 2}, .in = {3}, 9 };
   model (= chibicc): in.b == 2;  specification (= gcc): in.b == 0.
   The witness lies in the region `InitSpec.BraceOverride`, outside which `C05_parse_spec_partial` is stated.

   (Since the builder's deepening the region is exact for unions: a designator for a non-first union member inside fresh
   braces - `union U u = { .b = 2 }` - is no longer counted as a member switch.)

1b. NEW finding (region `InitSpec.AggExprOverride`, reported to the lead): after an initializer that is an expression of struct
   type, a later initializer of the same list for a MEMBER of that struct reached without a member designator is stored in
   the tree but never executed: `struct_initializer2` leaves `init->expr` set, and `create_lvar_init` copies the whole
   expression and ignores the children.
      struct T { int a, b; } y = {5, 6};   struct T x[1] = { [0] = y, [0] = 1 };
   chibicc: x[0] == {5, 6};  gcc (and 6.7.9p19: the later initializer overrides): x[0].a == 1.
   (`designation()` does reset `init->expr` for `.member` designators of a struct - `{ [0] = y, [0].b = 1 }` is right - but not
   for a union, and the positional/elided path never does.)

1c. Note (region `InitSpec.WideRange`): GNU range designators.  chibicc parses the initializer of `[a ... b]` once per element, so
   an elided continuation lands in every element; gcc (the specification) stores one initializer in every element and continues
   after the last:   struct P { int a, b; } x[2] = { [0 ... 1] = 1, 2 };   chibicc x[0].b == 2, gcc x[0].b == 0.
   No C11 semantics; the general theorem `C05_parse_spec_partial` leaves the region out (it covers ranges whose initializer is
   brace-enclosed, a string literal or one expression for the whole element: there chibicc and gcc agree).

1d. Note (region `InitSpec.FlexReinit`): a second initializer for the flexible array member of the declared object (GNU: static
   initialization of a flexible array member; no C11 semantics, gcc is the judge).  gcc lets the array grow with every
   initializer; parse.c fixes the length when the first initializer reaches the member (`count_array_init_elements` in
   `array_initializer1/2`, or the length of a string literal) and skips what lies beyond as excess elements:
      struct S { int a; int f[]; } s = { 1, {1}, .f = 2, 3 };     chibicc: f = {2}, sizeof 8;   gcc: f = {2, 3}, 12 bytes
   (also `{ .f = {1, 2}, .f[1] = 5, 6 }`, `{ 1, {5}, .a = 7, 2, 3 }`).  A designator INTO the unresolved member (`.f[2] = 9` as its
   first initializer) is rejected by chibicc ("array designator index exceeds array bounds"; gcc accepts).  The general theorem
   `C05_parse_spec_partial` covers every declared struct with flexible array member outside the region.

1e. The relocation cursor of `write_gvar_data` (Model/InitCursor.lean): an aggregate arm that returns the cursor it was given
   instead of the cursor of its recursive calls loses relocations.  One witness per arm (array, struct, union); the seeded
   change C05b was the union arm.

1f. Repaired defect (`fix:` e1837fd in /repo, former known finding C05-union-second-initializer): `union_initializer` accepted exactly
   one initializer in a brace-enclosed list - `union V { int a; long b; } v = { 1, .b = 2 };` (C11 6.7.9p19: the last one wins)
   was rejected with "expected '}'".  Now `union_rest` loops over the rest of the list: a designated initializer selects the
   member, the last one wins, a member other than the one initialised so far starts from zero, other initializers are excess
   elements; the model is `unionRest`.  Kernel-checked: the witnesses, what the pre-fix tail did, and on every list `{ t₁ … t₅`
   over `} , 1 .a .b` and `{ t₁ … t₄` over `} , 1 .s .q .a` for `union { int a; struct { int p, q; } s; long b; }` the parser
   accepts whatever the specification accepts and builds the specification's tree (also where the specification's run switches
   the union's member, which it flags `over`).

2. Repaired defect (`fix:` in /repo): `_Bool` bit-field, static storage.  `write_gvar_data` masked the unconverted value while
   `create_lvar_init` assigns (and so converts):
      struct B { _Bool b : 1; } s = { 2 };     pre-fix static: b == 0 (2 & 1), automatic: b == 1
   The repaired arm converts first (`newval != 0`); the witness below shows the pre-fix value and that both back ends now give 1.

3. Repaired defect (`fix:` 8f0968b in /repo): a GNU empty union.  `union_initializer` dereferenced `init->ty->members` (NULL);
   now `union E {} e = {};` skips excess elements through `struct_initializer1`, an initializer without braces consumes nothing, and
   `create_lvar_init` emits no assignment.
4. Repaired defect (braced string literal, C11 6.7.9p14-15): "An array of character type may be initialized by a character string
   literal …, optionally enclosed in braces."  `char s[6] = {"abc"};` used to be parsed as a list whose first initializer - the
   address of the literal - went into `s[0]`, and `char t[] = {"abcd"}` got one element.  `initializer2` now has the braced-string
   branch (model: `bracedStr`; specification: `InitSpec.bracedLit`), also for wide literals and `{ "…", }`; a literal of another
   element width (`int a[] = {"abc"}`) and `_Bool` arrays keep the list meaning.
-/
import ChibiVerif.Model.Init
import ChibiVerif.Spec.InitSpec
import ChibiVerif.Lemmas.InitLeafLemmas
import ChibiVerif.Model.InitCursor

namespace ChibiVerif.Findings.C05
open ChibiVerif.Init

def tInt : Ty := .scalar 4 .int
def tIn : Ty := .struct [(⟨some "a", 0, none⟩, tInt), (⟨some "b", 4, none⟩, tInt)] 8 false
def tS : Ty := .struct [(⟨some "in", 0, none⟩, tIn), (⟨some "z", 8, none⟩, tInt)] 12 false
def n (v : Int) : ITok := .expr (Expr.num v)

/-- `{ .in = {1, 2}, .in = {3}, 9 }` -/
def overrideToks : List ITok :=
  [.lbrace, .dot "in", .eq, .lbrace, n 1, .comma, n 2, .rbrace, .comma, .dot "in", .eq, .lbrace, n 3, .rbrace, .comma, n 9, .rbrace]

/-- the object a parse result denotes (static back end), as a list of cells -/
def objectOf (r : Except Fail (Init × List ITok)) (ty : Ty) : Option (List Cell) :=
  match r with
  | .ok (t, _) => (staticObject t ty).toOption
  | .error _ => none

/-- the model (the code): `in.b` keeps the 2 of the overridden list -/
theorem C05_finding_brace_override_model :
    objectOf (parseInit tS overrideToks) tS = some ([3,0,0,0, 2,0,0,0, 9,0,0,0].map Cell.byte) := by decide

/-- the specification (6.7.9p19): the second list initialises `in` afresh -/
theorem C05_finding_brace_override_spec :
    objectOf (InitSpec.init tS overrideToks) tS = some ([3,0,0,0, 0,0,0,0, 9,0,0,0].map Cell.byte) := by decide

/-- hence parser ≠ specification on this input, and the input is in the declared region -/
theorem C05_finding_brace_override : parseInit tS overrideToks ≠ InitSpec.init tS overrideToks := by
  intro h
  have h1 := C05_finding_brace_override_model
  rw [h, C05_finding_brace_override_spec] at h1
  revert h1
  decide

theorem C05_finding_brace_override_in_region : InitSpec.BraceOverride tS overrideToks = true := by decide

/-- `struct B { _Bool b : 1; } = { 2 }` -/
def tB : Ty := .struct [(⟨some "b", 0, some (0, 1)⟩, .scalar 1 .bool)] 1 false

theorem C05_repaired_bool_bitfield :
    (u64 2 &&& bfMask 1) <<< 0 = 0 ∧                                                     -- what the pre-fix arm stored
    (staticObject (.struct none [.leaf (some (Expr.num 2))]) tB).toOption = some [Cell.byte 1] ∧
    (autoObject (.struct none [.leaf (some (Expr.num 2))]) tB).toOption = some [Cell.byte 1] := by decide


/-! ### region AggExprOverride -/

/-- an expression of type `struct In` (a variable `y`) -/
def yExpr : Expr := { ival := 1, nz := true, f32 := 0, f64 := 0, f80 := 0, isStruct := true }
def tArr : Ty := .array tIn 1
/-- `{ [0] = y, [0] = 1 }` -/
def aggToks : List ITok := [.lbrace, .idx 0, .eq, .expr yExpr, .comma, .idx 0, .eq, n 1, .rbrace]

def aggModelTree : Init := .arr [.struct (some yExpr) [.leaf (some (Expr.num 1)), .leaf none]]
def aggSpecTree : Init := .arr [.struct none [.leaf (some (Expr.num 1)), .leaf none]]

/-- the model (the code): the node keeps the expression `y`, and the automatic object is a copy of `y` - the `1` is lost -/
theorem C05_finding_agg_expr_override_model :
    (parseInit tArr aggToks).toOption.map (fun p => Init.beq p.1 aggModelTree) = some true ∧
    ((parseInit tArr aggToks).toOption.bind (fun p => (autoObject p.1 tArr).toOption)) =
      some ((List.range 8).map (fun k => Cell.sym "$struct" 1 k)) := by decide

/-- the specification (6.7.9p19, gcc): the second initializer is for `x[0].a`; nothing of `y` is left in the tree -/
theorem C05_finding_agg_expr_override_spec :
    (InitSpec.init tArr aggToks).toOption.map (fun p => Init.beq p.1 aggSpecTree) = some true ∧
    ((InitSpec.init tArr aggToks).toOption.bind (fun p => (autoObject p.1 tArr).toOption)) =
      some ([1,0,0,0, 0,0,0,0].map Cell.byte) := by decide

/-- parser ≠ specification on this input (which is outside `BraceOverride`) -/
theorem C05_finding_agg_expr_override :
    (match parseInit tArr aggToks, InitSpec.init tArr aggToks with
      | .ok p, .ok q => Init.beq p.1 q.1
      | _, _ => true) = false := by decide

/-- the input lies in the declared region, and in no other -/
theorem C05_finding_agg_expr_override_in_region :
    InitSpec.AggExprOverride tArr aggToks = true ∧ InitSpec.BraceOverride tArr aggToks = false ∧
      InitSpec.WideRange tArr aggToks = false := by decide

/-! ### region WideRange -/

def tArr2 : Ty := .array tIn 2
/-- `{ [0 ... 1] = 1, 2 }` -/
def wideToks : List ITok := [.lbrace, .range 0 1, .eq, n 1, .comma, n 2, .rbrace]

theorem C05_note_wide_range :
    objectOf (parseInit tArr2 wideToks) tArr2 = some ([1,0,0,0, 2,0,0,0, 1,0,0,0, 2,0,0,0].map Cell.byte) ∧
    objectOf (InitSpec.init tArr2 wideToks) tArr2 = some ([1,0,0,0, 0,0,0,0, 1,0,0,0, 2,0,0,0].map Cell.byte) ∧
    InitSpec.WideRange tArr2 wideToks = true := by decide

/-! ### region FlexReinit -/

/-- `struct S { int a; int f[]; }` -/
def tFlex : Ty := .struct [(⟨some "a", 0, none⟩, tInt), (⟨some "f", 4, none⟩, .array tInt 0)] 4 true
/-- `{ 1, {1}, .f = 2, 3 }` -/
def flexToks : List ITok := [.lbrace, n 1, .comma, .lbrace, n 1, .rbrace, .comma, .dot "f", .eq, n 2, .comma, n 3, .rbrace]

/-- the object of a parse result under the type `initializer()` gives it -/
def objectOfR (r : Except Fail (Init × List ITok)) (ty : Ty) : Option (List Cell) :=
  match r with
  | .ok (t, _) => (staticObject t (resolveTy ty t)).toOption
  | .error _ => none

/-- chibicc (the model): the first initializer `{1}` fixed the length 1, the `3` is an excess element; the specification (gcc):
    the array grows to 2 elements; the input lies in the region `FlexReinit` and in no other -/
theorem C05_note_flex_reinit :
    objectOfR (parseInit tFlex flexToks) tFlex = some ([1,0,0,0, 2,0,0,0].map Cell.byte) ∧
    objectOfR (InitSpec.init tFlex flexToks) tFlex = some ([1,0,0,0, 2,0,0,0, 3,0,0,0].map Cell.byte) ∧
    InitSpec.FlexReinit tFlex flexToks = true ∧ InitSpec.BraceOverride tFlex flexToks = false ∧
      InitSpec.AggExprOverride tFlex flexToks = false ∧ InitSpec.WideRange tFlex flexToks = false := by decide

/-- the first initializers of a flexible member are outside the region: `{ 1, 2, 3 }` (elided), `{ .f = {2, 3}, .a = 1 }` -/
theorem C05_note_flex_first :
    InitSpec.FlexReinit tFlex [.lbrace, n 1, .comma, n 2, .comma, n 3, .rbrace] = false ∧
    InitSpec.FlexReinit tFlex [.lbrace, .dot "f", .eq, .lbrace, n 2, .comma, n 3, .rbrace, .comma, .dot "a", .eq, n 1, .rbrace] = false ∧
    objectOfR (parseInit tFlex [.lbrace, n 1, .comma, n 2, .comma, n 3, .rbrace]) tFlex
      = some ([1,0,0,0, 2,0,0,0, 3,0,0,0].map Cell.byte) := by decide

/-! ### the relocation cursor of write_gvar_data -/

def tPtr : Ty := .scalar 8 .ptr
def addr (l : String) : Init := .leaf (some { ival := 0, nz := true, f32 := 0, f64 := 0, f80 := 0, label := some l })
/-- `void *a[2] = {&x, &y}; … z = &z` inside `struct { void *a[2]; void *z; }` -/
def tCurA : Ty := .struct [(⟨some "a", 0, none⟩, .array tPtr 2), (⟨some "z", 16, none⟩, tPtr)] 24 false
def iCurA : Init := .struct none [.arr [addr "x", addr "y"], addr "z"]
/-- `struct { struct { void *p; void *q; } s; void *z; }` -/
def tCurS : Ty := .struct [(⟨some "s", 0, none⟩, .struct [(⟨some "p", 0, none⟩, tPtr), (⟨some "q", 8, none⟩, tPtr)] 16 false),
  (⟨some "z", 16, none⟩, tPtr)] 24 false
def iCurS : Init := .struct none [.struct none [addr "x", addr "y"], addr "z"]
/-- `struct { union { void *p; long n; } u; void *z; }` -/
def tCurU : Ty := .struct [(⟨some "u", 0, none⟩, .union [(⟨some "p", 0, none⟩, tPtr), (⟨some "n", 0, none⟩, .scalar 8 .int)] 8 false),
  (⟨some "z", 8, none⟩, tPtr)] 16 false
def iCurU : Init := .struct none [.union none (some 0) [addr "x", .leaf none], addr "z"]

def relocLabels (r : Except Fail Image) : Option (List String) := r.toOption.map (fun im => im.relocs.map (·.label))

/-- with the cursor handed on by every arm all relocations are linked; an arm that returns the cursor it was given unlinks the
    relocations written inside it as soon as another one follows -/
theorem C05_cursor_arms :
    relocLabels (gvarInitC Arms.code iCurA tCurA) = some ["x", "y", "z"] ∧
    relocLabels (gvarInitC ⟨false, true, true⟩ iCurA tCurA) = some ["z"] ∧            -- array arm keeps its cursor
    relocLabels (gvarInitC Arms.code iCurS tCurS) = some ["x", "y", "z"] ∧
    relocLabels (gvarInitC ⟨true, false, true⟩ iCurS tCurS) = some ["z"] ∧            -- struct arm
    relocLabels (gvarInitC Arms.code iCurU tCurU) = some ["x", "z"] ∧
    relocLabels (gvarInitC ⟨true, true, false⟩ iCurU tCurU) = some ["z"] := by decide   -- union arm (seeded C05b)

/-! ### repaired: a union's list with more than one initializer (`union_rest`, /repo e1837fd) -/

/-- `union { int a; struct { int p, q; } s; long b; }` -/
def tUni : Ty := .union [(⟨some "a", 0, none⟩, tInt),
  (⟨some "s", 0, none⟩, .struct [(⟨some "p", 0, none⟩, tInt), (⟨some "q", 4, none⟩, tInt)] 8 false),
  (⟨some "b", 0, none⟩, .scalar 8 .int)] 8 false

def allListsF (alphabet : List ITok) : Nat → List (List ITok)
  | 0 => [[]]
  | k+1 => (allListsF alphabet k).flatMap (fun l => alphabet.map (fun t => t :: l))

/-- the parser accepts what the specification accepts, with the specification's tree and rest -/
def unionAgrees (ty : Ty) (toks : List ITok) : Bool :=
  match parseInit ty toks, InitSpec.initFull ty toks with
  | .ok (p, pr), .ok r => Init.beq p r.obj && pr == r.rest
  | .error _, .ok _ => false
  | _, .error _ => true

/-- `{1, .b = 2}` and `{.a = 1, .b = 2}` give b == 2, `{.s.p = 1, .a = 1, .s.q = 2}` gives s == {0, 2} (the member starts from
    zero again), as the specification (and gcc) say; the pre-fix tail `consume(","); skip("}")` stopped at the designator -/
theorem C05_repaired_union_second :
    objectOf (parseInit tUni [.lbrace, n 1, .comma, .dot "b", .eq, n 2, .rbrace]) tUni = some ([2,0,0,0, 0,0,0,0].map Cell.byte) ∧
    objectOf (InitSpec.init tUni [.lbrace, n 1, .comma, .dot "b", .eq, n 2, .rbrace]) tUni = some ([2,0,0,0, 0,0,0,0].map Cell.byte) ∧
    objectOf (parseInit tUni [.lbrace, .dot "a", .eq, n 1, .comma, .dot "b", .eq, n 2, .rbrace]) tUni
      = some ([2,0,0,0, 0,0,0,0].map Cell.byte) ∧
    objectOf (parseInit tUni [.lbrace, .dot "s", .dot "p", .eq, n 1, .comma, .dot "a", .eq, n 1, .comma, .dot "s", .dot "q", .eq, n 2, .rbrace]) tUni
      = some ([0,0,0,0, 2,0,0,0].map Cell.byte) ∧
    objectOf (InitSpec.init tUni [.lbrace, .dot "s", .dot "p", .eq, n 1, .comma, .dot "a", .eq, n 1, .comma, .dot "s", .dot "q", .eq, n 2, .rbrace]) tUni
      = some ([0,0,0,0, 2,0,0,0].map Cell.byte) ∧
    (skipTok .rbrace "}" [.dot "b", .eq, n 2, .rbrace]).toOption.isNone = true := by         -- the pre-fix tail after `1 ,`: "expected '}'"
  decide +kernel

def alphaUniA : List ITok := [.rbrace, .comma, n 1, .dot "a", .dot "b"]
def alphaUniS : List ITok := [.rbrace, .comma, n 1, .dot "s", .dot "q", .dot "a"]

/-- exhaustive scopes (they include the lists on which the specification's run switches the union's member, which it notes as `over`
    and `C05_parse_spec_partial` therefore does not speak about): every list `{ t₁ … t₅` over `} , 1 .a .b` (3125
    lists, e.g. `{ 1 , .b 1 }`, `{ .a 1 , 1 }`) and every list `{ t₁ … t₄` over `} , 1 .s .q .a` (1296 lists, designators into the
    struct member) that does not start with the GNU empty list `{}` (which chibicc rejects for a union): the parser accepts what
    the specification accepts, builds its tree and stops where it stops.  (Evaluated by the compiler also for `{ t₁ … t₆` over
    `} , 1 .a .s .q .b =`, 262144 lists: same result.) -/
theorem C05_union_scope :
    ((allListsF alphaUniA 5).map (fun l => ITok.lbrace :: l)).all (fun l => isEnd l.tail || unionAgrees tUni l) = true ∧
    ((allListsF alphaUniS 4).map (fun l => ITok.lbrace :: l)).all (fun l => isEnd l.tail || unionAgrees tUni l) = true := by
  decide +kernel

/-- non-vacuity: lists of the first scope switch the member (`{ 1 , .b 1 }`: the specification's run is in `over`, both give b == 1) -/
theorem C05_union_scope_switch :
    InitSpec.BraceOverride tUni [.lbrace, n 1, .comma, .dot "b", n 1, .rbrace] = true ∧
    unionAgrees tUni [.lbrace, n 1, .comma, .dot "b", n 1, .rbrace] = true ∧
    (parseInit tUni [.lbrace, n 1, .comma, .dot "b", n 1, .rbrace]).toOption.isSome = true := by
  decide +kernel

/-! ### repaired: the empty union -/

def tEmptyU : Ty := .union [] 0 false

theorem C05_repaired_empty_union :
    (parseInit tEmptyU [.lbrace, .rbrace]).toOption.map (fun p => (Init.beq p.1 (.union none none []), p.2)) = some (true, []) ∧
    (parseInit tEmptyU [.lbrace, n 1, .comma, n 2, .rbrace]).toOption.map (fun p => (Init.beq p.1 (.union none none []), p.2))
      = some (true, []) ∧                                                                       -- excess elements are skipped
    (initializer2 9 tEmptyU [n 1] (newInit tEmptyU true)).toOption.map (fun p => (Init.beq p.1 (.union none none []), p.2))
      = some (true, [n 1]) ∧                                                                    -- no braces: nothing consumed
    (autoObject (.union none none []) tEmptyU).toOption = some [] ∧
    (staticObject (.union none none []) tEmptyU).toOption = some [] := by decide

/-! ### repaired: a string literal enclosed in braces (6.7.9p14-15) -/

def tChar : Ty := .scalar 1 .int
def tBool : Ty := .scalar 1 .bool
/-- `"abc"` -/
def sAbc : ITok := .str 7 [97, 98, 99, 0] 1
/-- `L"ab"` -/
def sWab : ITok := .str 8 [97, 0, 0, 0, 98, 0, 0, 0, 0, 0, 0, 0] 4

/-- `char s[6] = {"abc"};`, `char s[6] = {"abc",};` and `char t[] = {"abc"};` (4 elements): parser = specification = the
    characters; an `int` array with a narrow literal and a `_Bool` array keep the list meaning (the address in element 0) -/
theorem C05_repaired_braced_string :
    objectOf (parseInit (.array tChar 6) [.lbrace, sAbc, .rbrace]) (.array tChar 6) = some ([97, 98, 99, 0, 0, 0].map Cell.byte) ∧
    objectOf (InitSpec.init (.array tChar 6) [.lbrace, sAbc, .rbrace]) (.array tChar 6) = some ([97, 98, 99, 0, 0, 0].map Cell.byte) ∧
    objectOf (parseInit (.array tChar 6) [.lbrace, sAbc, .comma, .rbrace]) (.array tChar 6)
      = some ([97, 98, 99, 0, 0, 0].map Cell.byte) ∧
    objectOf (InitSpec.init (.array tChar 6) [.lbrace, sAbc, .comma, .rbrace]) (.array tChar 6)
      = some ([97, 98, 99, 0, 0, 0].map Cell.byte) ∧
    (parseInit (.inc tChar) [.lbrace, sAbc, .rbrace]).toOption.map (fun p => (flexLen p.1, p.2)) = some (4, []) ∧
    (InitSpec.init (.inc tChar) [.lbrace, sAbc, .rbrace]).toOption.map (fun p => (flexLen p.1, p.2)) = some (4, []) ∧
    objectOf (parseInit (.array tInt 2) [.lbrace, sWab, .rbrace]) (.array tInt 2) = some ([97, 0, 0, 0, 98, 0, 0, 0].map Cell.byte) ∧
    objectOf (InitSpec.init (.array tInt 2) [.lbrace, sWab, .rbrace]) (.array tInt 2)
      = some ([97, 0, 0, 0, 98, 0, 0, 0].map Cell.byte) ∧
    -- element widths differ / `_Bool`: a list, the first initializer is the address of the literal
    (parseInit (.array tInt 2) [.lbrace, sAbc, .rbrace]).toOption.map (fun p => hasExpr p.1) = some true ∧
    bracedStr tInt [sAbc, .rbrace] = none ∧ InitSpec.bracedLit (.array tInt 2) [sAbc, .rbrace] = none ∧
    bracedStr tBool [sAbc, .rbrace] = none ∧ InitSpec.bracedLit (.array tBool 2) [sAbc, .rbrace] = none ∧
    (parseInit (.array tBool 2) [.lbrace, sAbc, .rbrace]).toOption.map (fun p => (autoObject p.1 (.array tBool 2)).toOption)
      = some (some [Cell.byte 1, Cell.byte 0]) ∧
    (InitSpec.init (.array tBool 2) [.lbrace, sAbc, .rbrace]).toOption.map (fun p => (autoObject p.1 (.array tBool 2)).toOption)
      = some (some [Cell.byte 1, Cell.byte 0]) := by
  decide +kernel

/-- a struct member, after a designator, overriding an earlier initializer (region `over`, as for the literal without braces) -/
def tSM : Ty := .struct [(⟨some "a", 0, none⟩, tInt), (⟨some "s", 4, none⟩, .array tChar 4)] 8 false

theorem C05_repaired_braced_string_member :
    objectOf (parseInit tSM [.lbrace, n 1, .comma, .lbrace, sAbc, .rbrace, .rbrace]) tSM
      = some ([1, 0, 0, 0, 97, 98, 99, 0].map Cell.byte) ∧
    objectOf (InitSpec.init tSM [.lbrace, n 1, .comma, .lbrace, sAbc, .rbrace, .rbrace]) tSM
      = some ([1, 0, 0, 0, 97, 98, 99, 0].map Cell.byte) ∧
    objectOf (InitSpec.init tSM [.lbrace, .dot "s", .eq, .lbrace, sAbc, .comma, .rbrace, .rbrace]) tSM
      = some ([0, 0, 0, 0, 97, 98, 99, 0].map Cell.byte) ∧
    objectOf (parseInit tSM [.lbrace, .dot "s", .eq, .lbrace, sAbc, .comma, .rbrace, .rbrace]) tSM
      = some ([0, 0, 0, 0, 97, 98, 99, 0].map Cell.byte) ∧
    InitSpec.BraceOverride tSM [.lbrace, .dot "s", .eq, .lbrace, n 5, .rbrace, .comma, .dot "s", .eq, .lbrace, sAbc, .rbrace, .rbrace]
      = InitSpec.BraceOverride tSM [.lbrace, .dot "s", .eq, .lbrace, n 5, .rbrace, .comma, .dot "s", .eq, sAbc, .rbrace] := by
  decide +kernel

end ChibiVerif.Findings.C05
