/-
C16 — kernel-checked witnesses (`by decide`) on the interleaving model of Model/Atomics.lean:
concrete schedules for the non-vacuity of the property theorems, and the model-level shape of the
defects that were repaired in /repo (recorded as `fixed:` in known_findings.json).
-/
import ChibiVerif.Model.Atomics

namespace ChibiVerif.Findings.C16
open ChibiVerif.Atomics

/-- `x += 1` on an 8-bit object -/
def incr : Oper .w8 := .rmw (fun c => some (c + 1)) false

def two : Sys .w8 := initSys .w8 .unsigned 0#8 [[incr], [incr]]

/-- thread 0 runs up to its `lock cmpxchg` (7 instructions), thread 1 performs its whole update
    (8 instructions up to and including the locked one), then thread 0 executes its `lock cmpxchg` -/
def schedFail : List Nat := List.replicate 7 0 ++ List.replicate 8 1 ++ [0]

/-- a reachable failed compare-exchange: thread 0's attempt fails (ZF = 0, logged as a read, not a
    commit), the object keeps thread 1's value, and thread 1 committed in between -/
theorem C16_witness_failed_cas :
    let s := exec schedFail two
    s.log.map (fun e => (e.tid, e.kind.isCommit)) = [(0, false), (1, false), (1, true), (0, false)] ∧
    s.cell = 1#8 ∧ s.threads.map (·.zf) = [false, true] ∧ s.threads.map (·.pc) = [.sete, .sete] := by decide

set_option maxRecDepth 8000 in
/-- the same run continued: thread 0 writes the observed value back, goes round the loop, commits;
    no update is lost (2), `x += 1` yields 2 in thread 0 and 1 in thread 1 -/
theorem C16_witness_retry_commits :
    let s := exec (schedFail ++ List.replicate 24 0 ++ List.replicate 9 1) two
    s.terminated = true ∧ s.cell = 2#8 ∧ s.threads.map (·.results) = [[.val 2#8], [.val 1#8]] ∧
    s.log.map (fun e => (e.tid, e.kind.isCommit)) =
      [(0, false), (1, false), (1, true), (0, false), (0, true)] := by decide

/-- repaired defect (to_assign took the plain member path for `s.x += 1` on an `_Atomic` member): a plain load
    followed by a plain store of `old + 1` is two linearization points; two threads lose an update -/
theorem C16_witness_plain_rmw_loses_update :
    let prog : List (Oper .w8) := [.load, .store 1#64]      -- each thread: read 0, write 0 + 1
    let s := exec [0, 1, 0, 0, 1, 1] (initSys .w8 .unsigned 0#8 [prog, prog])
    s.terminated = true ∧ s.cell = 1#8 := by decide

/-- repaired defect (ND_EXCH without the extension): after `xchg %al, (%rdi)` alone, `%eax` holds bits 8..31 of
    the *new* value and the old byte: exchanging 5 into a `signed char` holding -1 leaves 255 in `%eax`, not -1 -/
theorem C16_witness_xchg_needs_extension :
    writeReg .w8 5#64 0xff#8 = 255#64 ∧ loadExt .w8 .signed 0xff#8 = 0xffffffff#64 := by decide

end ChibiVerif.Findings.C16
