/- C12: no open known findings.  (The fixpoint itself is not a theorem; see Props/C12.lean and DESIGN.md.)

   Kernel-checked witness of the repaired defect /repo 7b517d1 (known_findings.json, "fixed: property=C12 7b517d1"):
   eval3 evaluated `eval2(node->lhs, &l1) - eval2(node->rhs, &l2)` — both operands may exit with a diagnostic and C
   leaves their order open, so the gcc-built and the self-compiled compiler diagnosed different operands of
   `&&l - &&l`.  As the audit lists such a site (two operands with exitDiag), the decision function has no verdict
   for it: had the site still been in the source, `C12_no_unsequenced_effects` would not hold. -/
import ChibiVerif.Props.C12

namespace ChibiVerif.Findings.C12
open ChibiVerif.C12Audit

def lhsEff : Eff := ⟨true, false, [0], [1], []⟩
def rhsEff : Eff := ⟨true, false, [2], [1], []⟩
def eval3_before_7b517d1 : Site :=
  ⟨"parse.c", "eval3", 0, "binary -", "eval2(node->lhs, &l1) - eval2(node->rhs, &l2)", [], [lhsEff, rhsEff]⟩

theorem C12_fixed_eval3_operand_order_witness :
    verdict 0 eval3_before_7b517d1 = none ∧ conflict 0 false lhsEff rhsEff = true := by decide

end ChibiVerif.Findings.C12
