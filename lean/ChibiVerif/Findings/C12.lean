/- C12: no known findings.  (The fixpoint half is not a theorem; see Props/C12.lean and DESIGN.md.) -/
import ChibiVerif.Props.C12
