/- C08 — kernel-checked witnesses of known findings (filled in below) -/
import ChibiVerif.Model.Layout
import ChibiVerif.Spec.LayoutSpec

namespace ChibiVerif.Findings.C08
end ChibiVerif.Findings.C08
