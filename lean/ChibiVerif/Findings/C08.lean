/-
C08 — kernel-checked witnesses (`decide`) of the known findings and of the latitude in `declspec`, on the model of the
code as it is now; and of two defects already repaired in /repo (pre-fix loop bodies kept here).

Known findings (known_findings.json), all inside `__attribute__((packed))`; codegen loads a bit-field with one access of
its declared type, so contiguous packed bit-fields that straddle a unit cannot be represented without a larger change:
* C08-packed-bitfield-straddle : `struct __attribute__((packed)) { char a; int b:30; int c:10; }`  chibicc 10/1, psABI/gcc 6/1
* C08-packed-member-alignas    : `struct __attribute__((packed)) { char a; _Alignas(8) int b; }`   chibicc 5/1 (b at 1), gcc 16/8 (b at 8)
* C08-packed-union-bitfield    : `union __attribute__((packed)) { int x:3; char c; }`              chibicc 4/1, gcc 1/1
Each refutes `C08_layout_Statement`; `C08_layout_partial` holds outside the regions.
* C08-huge-struct-overflow     : `struct { char a[1<<28]; char b; }`: `struct_decl` counts bits in a C `int`; the model uses
  unbounded `Int`, so this finding lies outside the model (stated assumption: total bits < 2^31).  `layout32` below redoes
  the non-bit-field arm of the loop with 32-bit wrap-around and reproduces the figures the binary prints.
-/
import ChibiVerif.Props.C08

namespace ChibiVerif.Findings.C08
open ChibiVerif.Layout ChibiVerif.Gen.Declspec ChibiVerif.Spec.Layout ChibiVerif.Props.C08

/-! ### declspec latitude -/

/-- `signed signed` is accepted as `int` (`counter |= SIGNED` is idempotent) although C11 6.7.2p2 lists no multiset with
    two `signed`; so is the empty specifier list (implicit int). -/
theorem C08_finding_dup_sign : ¬ C08_specifiers_reject_Statement := by
  intro h
  have := h [.signed, .signed] (by decide)
  revert this
  decide

theorem C08_dup_sign_witnesses :
    declspecDecode [.signed, .signed] = .ok .int ∧ declspecDecode [.unsigned, .long, .unsigned] = .ok .ulong ∧
    declspecDecode [] = .ok .int ∧ c11Type [.signed, .signed] = none ∧ c11Type [] = none := by decide

/-! ### known findings -/

def w_straddle : List SMem := [⟨1, 1, 0, none, true⟩, ⟨4, 4, 0, some 30, true⟩, ⟨4, 4, 0, some 10, true⟩]
def w_alignas : List SMem := [⟨1, 1, 0, none, true⟩, ⟨4, 4, 8, none, true⟩]
def w_ubf : List SMem := [⟨4, 4, 0, some 3, true⟩, ⟨1, 1, 0, none, true⟩]

/-- C08-packed-bitfield-straddle: the model (= chibicc) gives 10/1 with `b` in the unit at byte 4, the spec (= gcc) 6/1
    with `b` at bits 8..37 -/
theorem C08_finding_packed_bitfield_straddle :
    PackedWithBitfield true w_straddle = true ∧ (∀ m ∈ w_straddle, m.WF) ∧
    structLayout true 1 (w_straddle.map SMem.toMem) = .ok ⟨10, 1, [⟨0, 0⟩, ⟨4, 0⟩, ⟨8, 0⟩]⟩ ∧
    specStruct true none w_straddle = ⟨6, 1, [⟨0, 0, 0⟩, ⟨8, 0, 8⟩, ⟨38, 4, 6⟩]⟩ := by decide

/-- C08-packed-member-alignas -/
theorem C08_finding_packed_member_alignas :
    PackedWithMemberAlign true w_alignas = true ∧ (∀ m ∈ w_alignas, m.WF) ∧
    structLayout true 1 (w_alignas.map SMem.toMem) = .ok ⟨5, 1, [⟨0, 0⟩, ⟨1, 0⟩]⟩ ∧
    specStruct true none w_alignas = ⟨16, 8, [⟨0, 0, 0⟩, ⟨64, 8, 0⟩]⟩ := by decide

/-- C08-packed-union-bitfield -/
theorem C08_finding_packed_union_bitfield :
    PackedUnionBitfield true w_ubf = true ∧ (∀ m ∈ w_ubf, m.WF) ∧
    unionLayout true 1 (w_ubf.map SMem.toMem) = .ok ⟨4, 1, [⟨0, 0⟩, ⟨0, 0⟩]⟩ ∧
    specUnion true none w_ubf = ⟨1, 1, [⟨0, 0, 0⟩, ⟨0, 0, 0⟩]⟩ := by decide

/-- each witness refutes the full statement -/
theorem C08_layout_Statement_false : ¬ C08_layout_Statement := by
  intro h
  have := (h true none w_straddle (by intro n hn; cases hn) (by decide)).1
  revert this
  decide

/-- … and so does the type-level statement (`struct __attribute__((packed)) { char a; _Alignas(8) int b; }`) -/
theorem C08_types_Statement_false : ¬ C08_types_Statement := by
  intro h
  have := h (.struct true none (.cons ⟨none, true⟩ .nil (.prim .char) (.cons ⟨none, true⟩ (.const 8 .nil) (.prim .int) .nil))) (by decide)
  revert this
  decide

/-! ### C08-huge-struct-overflow (outside the `Int` model: 32-bit wrap-around of `bits`) -/

/-- two's-complement wrap of a C `int` -/
def wrap32 (x : Int) : Int := (x + 2147483648) % 4294967296 - 2147483648

def alignTo32 (n a : Int) : Int := wrap32 (Int.tdiv (wrap32 (n + a - 1)) a * a)

/-- the non-packed, non-bit-field arm of `struct_decl` with every `int` operation wrapped -/
def loop32 : Int → List Mem → Int × List Int
  | bits, [] => (bits, [])
  | bits, m :: ms =>
    let b := alignTo32 bits (m.align * 8)
    let r := loop32 (wrap32 (b + wrap32 (m.size * 8))) ms
    (r.1, Int.tdiv b 8 :: r.2)

def w_huge : List SMem := [⟨268435456, 1, 0, none, true⟩, ⟨1, 1, 0, none, true⟩]

/-- psABI: size 268435457, `b` at 268435456 (= 2^31 bits: outside the assumption of the layout theorems);
    with 32-bit `bits` the code computes offsetof(b) = -268435455 and sizeof = -268435453, as the binary prints -/
theorem C08_finding_huge_struct_overflow :
    specStruct false none w_huge = ⟨268435457, 1, [⟨0, 0, 0⟩, ⟨2147483648, 268435456, 0⟩]⟩ ∧
    (2 : Nat) ^ 31 ≤ 8 * (specStruct false none w_huge).size ∧
    loop32 0 (w_huge.map SMem.toMem) = (-2147483632, [0, -268435455]) ∧
    Int.tdiv (alignTo32 (-2147483632) 8) 8 = -268435453 := by decide

/-! ### repaired defects (pre-fix code) -/

/-- `struct_decl` before fix 7580095: unnamed bit-fields raised the alignment -/
def stepAlignOld (packed : Bool) (align : Int) (m : Mem) : Int :=
  if !packed && align < m.align then m.align else align

/-- `struct { char a; int :3; }` was 4/4; psABI 3.1.2: unnamed bit-fields do not affect the alignment, 2/1 -/
theorem C08_fixed_unnamed_bitfield_align :
    let ms : List SMem := [⟨1, 1, 0, none, true⟩, ⟨4, 4, 0, some 3, false⟩]
    (ms.map SMem.toMem).foldl (stepAlignOld false) 1 = 4 ∧
    specStruct false none ms = ⟨2, 1, [⟨0, 0, 0⟩, ⟨8, 0, 8⟩]⟩ ∧
    structLayout false 1 (ms.map SMem.toMem) = .ok ⟨2, 1, [⟨0, 0⟩, ⟨0, 8⟩]⟩ := by decide

/-- `struct_decl` before fix 1addb5f: the packed arm did `mem->offset = bits / 8` without rounding `bits` up to a byte:
    `struct __attribute__((packed)) { char a:3; char b; }` put `b` at offset 0, on top of `a`; now (and in gcc) 1 -/
theorem C08_fixed_packed_overlap :
    Int.tdiv 3 8 = 0 ∧
    structLayout true 1 ([⟨1, 1, 0, some 3, true⟩, ⟨1, 1, 0, none, true⟩].map SMem.toMem) = .ok ⟨2, 1, [⟨0, 0⟩, ⟨1, 0⟩]⟩ ∧
    specStruct true none [⟨1, 1, 0, some 3, true⟩, ⟨1, 1, 0, none, true⟩] = ⟨2, 1, [⟨0, 0, 0⟩, ⟨8, 1, 0⟩]⟩ := by decide

/-- `union_decl` before the packed fix (9b0faa6): `if (ty->align < mem->align) ty->align = mem->align;` ignored `is_packed` -/
def unionStepOld (size align : Int) (m : Mem) : Int × Int :=
  match m.bitWidth, m.named with
  | some w, false => (if size < Int.tdiv (w + 7) 8 then Int.tdiv (w + 7) 8 else size, align)
  | _, _ => (if size < m.size then m.size else size, if align < m.align then m.align else align)

/-- `union __attribute__((packed)) { int a; char b; }` was 4/4; gcc 4/1 -/
theorem C08_fixed_packed_union :
    let ms : List SMem := [⟨4, 4, 0, none, true⟩, ⟨1, 1, 0, none, true⟩]
    (ms.map SMem.toMem).foldl (fun s m => unionStepOld s.1 s.2 m) (0, 1) = (4, 4) ∧
    specUnion true none ms = ⟨4, 1, [⟨0, 0, 0⟩, ⟨0, 0, 0⟩]⟩ ∧
    unionLayout true 1 (ms.map SMem.toMem) = .ok ⟨4, 1, [⟨0, 0⟩, ⟨0, 0⟩]⟩ := by decide

end ChibiVerif.Findings.C08
