/-
C08 — kernel-checked witnesses (`decide`) of the known findings and of the latitude in `declspec`, on the model of the
code as it is now; and of defects already repaired in /repo (pre-fix loop bodies / pre-fix inputs to the loops kept here).

Known findings (known_findings.json), all inside `__attribute__((packed))`; codegen loads a bit-field with one access of
its declared type, so contiguous packed bit-fields that straddle a unit cannot be represented without a larger change:
* C08-packed-bitfield-straddle : `struct __attribute__((packed)) { char a; int b:30; int c:10; }`  chibicc 10/1, psABI/gcc 6/1
* C08-packed-member-alignas    : `struct __attribute__((packed)) { char a; _Alignas(8) int b; }`   chibicc 5/1 (b at 1), gcc 16/8 (b at 8)
* C08-packed-union-bitfield    : `union __attribute__((packed)) { int x:3; char c; }`              chibicc 4/1, gcc 1/1
Each refutes `C08_layout_Statement`; `C08_layout_partial` holds outside the regions.
* C08-huge-struct-overflow     : `struct { char a[1<<28]; char b; }`: `struct_decl` counts bits in a C `int`.  Model/Layout32.lean
  redoes the loops with every `int` operation explicit: strict mode reports the signed overflow, wrap mode reproduces the
  figures the binary prints; `C08_layout_int_partial` shows that below 256 MiB nothing overflows.
-/
import ChibiVerif.Props.C08

namespace ChibiVerif.Findings.C08
open ChibiVerif.Layout ChibiVerif.Gen.Declspec ChibiVerif.Spec.Layout ChibiVerif.Props.C08

/-! ### declspec latitude -/

/-- `signed signed` is accepted as `int` (`counter |= SIGNED` is idempotent) although C11 6.7.2p2 lists no multiset with
    two `signed`; so is the empty specifier list (implicit int). -/
theorem C08_finding_dup_sign : ¬ C08_specifiers_reject_Statement := by
  intro h
  have := h [.signed, .signed] (by decide)
  revert this
  decide

theorem C08_dup_sign_witnesses :
    declspecDecode [.signed, .signed] = .ok .int ∧ declspecDecode [.unsigned, .long, .unsigned] = .ok .ulong ∧
    declspecDecode [] = .ok .int ∧ c11Type [.signed, .signed] = none ∧ c11Type [] = none := by decide

/-! ### known findings -/

def w_straddle : List SMem := [⟨1, 1, 0, none, true⟩, ⟨4, 4, 0, some 30, true⟩, ⟨4, 4, 0, some 10, true⟩]
def w_alignas : List SMem := [⟨1, 1, 0, none, true⟩, ⟨4, 4, 8, none, true⟩]
def w_ubf : List SMem := [⟨4, 4, 0, some 3, true⟩, ⟨1, 1, 0, none, true⟩]

/-- C08-packed-bitfield-straddle: the model (= chibicc) gives 10/1 with `b` in the unit at byte 4, the spec (= gcc) 6/1
    with `b` at bits 8..37 -/
theorem C08_finding_packed_bitfield_straddle :
    PackedWithBitfield true w_straddle = true ∧ (∀ m ∈ w_straddle, m.WF) ∧
    structLayout true 1 (w_straddle.map SMem.toMem) = .ok ⟨10, 1, [⟨0, 0⟩, ⟨4, 0⟩, ⟨8, 0⟩]⟩ ∧
    specStruct true none w_straddle = ⟨6, 1, [⟨0, 0, 0⟩, ⟨8, 0, 8⟩, ⟨38, 4, 6⟩]⟩ := by decide

/-- C08-packed-member-alignas -/
theorem C08_finding_packed_member_alignas :
    PackedWithMemberAlign true w_alignas = true ∧ (∀ m ∈ w_alignas, m.WF) ∧
    structLayout true 1 (w_alignas.map SMem.toMem) = .ok ⟨5, 1, [⟨0, 0⟩, ⟨1, 0⟩]⟩ ∧
    specStruct true none w_alignas = ⟨16, 8, [⟨0, 0, 0⟩, ⟨64, 8, 0⟩]⟩ := by decide

/-- C08-packed-union-bitfield -/
theorem C08_finding_packed_union_bitfield :
    PackedUnionBitfield true w_ubf = true ∧ (∀ m ∈ w_ubf, m.WF) ∧
    unionLayout true 1 (w_ubf.map SMem.toMem) = .ok ⟨4, 1, [⟨0, 0⟩, ⟨0, 0⟩]⟩ ∧
    specUnion true none w_ubf = ⟨1, 1, [⟨0, 0, 0⟩, ⟨0, 0, 0⟩]⟩ := by decide

/-- each witness refutes the full statement -/
theorem C08_layout_Statement_false : ¬ C08_layout_Statement := by
  intro h
  have := (h true none w_straddle (by intro n hn; cases hn) (by decide)).1
  revert this
  decide

/-- … and so does the type-level statement (`struct __attribute__((packed)) { char a; _Alignas(8) int b; }`) -/
theorem C08_types_Statement_false : ¬ C08_types_Statement := by
  intro h
  have := h (.struct true none (.cons ⟨none, true⟩ .nil (.prim .char) (.cons ⟨none, true⟩ (.const 8 .nil) (.prim .int) .nil))) (by decide)
  revert this
  decide

/-! ### C08-huge-struct-overflow (`Model/Layout32.lean`: struct_decl with explicit `int` arithmetic) -/

def w_huge : List SMem := [⟨268435456, 1, 0, none, true⟩, ⟨1, 1, 0, none, true⟩]

/-- `struct { char a[1<<28]; char b; }`: psABI size 268435457, `b` at 268435456 (= 2^31 bits: outside the range of
    `C08_layout_int_partial`).  In the C abstract machine `bits += mem->ty->size * 8` is signed overflow (strict mode:
    `overflow`); the compiled code wraps and computes offsetof(b) = -268435455 and sizeof = -268435453, the figures the
    binary prints (wrap mode) -/
theorem C08_finding_huge_struct_overflow :
    specStruct false none w_huge = ⟨268435457, 1, [⟨0, 0, 0⟩, ⟨2147483648, 268435456, 0⟩]⟩ ∧
    (2 : Nat) ^ 31 ≤ 8 * (specStruct false none w_huge).size ∧
    structLayout32 .strict false 1 (w_huge.map SMem.toMem) = .error .overflow ∧
    structLayout32 .wrap false 1 (w_huge.map SMem.toMem) = .ok ⟨-268435453, 1, [⟨0, 0⟩, ⟨-268435455, 0⟩]⟩ := by
  decide +kernel

/-! ### repaired defects (pre-fix code) -/

/-- `struct_decl` before fix 7580095: unnamed bit-fields raised the alignment -/
def stepAlignOld (packed : Bool) (align : Int) (m : Mem) : Int :=
  if !packed && align < m.align then m.align else align

/-- `struct { char a; int :3; }` was 4/4; psABI 3.1.2: unnamed bit-fields do not affect the alignment, 2/1 -/
theorem C08_fixed_unnamed_bitfield_align :
    let ms : List SMem := [⟨1, 1, 0, none, true⟩, ⟨4, 4, 0, some 3, false⟩]
    (ms.map SMem.toMem).foldl (stepAlignOld false) 1 = 4 ∧
    specStruct false none ms = ⟨2, 1, [⟨0, 0, 0⟩, ⟨8, 0, 8⟩]⟩ ∧
    structLayout false 1 (ms.map SMem.toMem) = .ok ⟨2, 1, [⟨0, 0⟩, ⟨0, 8⟩]⟩ := by decide

/-- `struct_decl` before fix 1addb5f: the packed arm did `mem->offset = bits / 8` without rounding `bits` up to a byte:
    `struct __attribute__((packed)) { char a:3; char b; }` put `b` at offset 0, on top of `a`; now (and in gcc) 1 -/
theorem C08_fixed_packed_overlap :
    Int.tdiv 3 8 = 0 ∧
    structLayout true 1 ([⟨1, 1, 0, some 3, true⟩, ⟨1, 1, 0, none, true⟩].map SMem.toMem) = .ok ⟨2, 1, [⟨0, 0⟩, ⟨1, 0⟩]⟩ ∧
    specStruct true none [⟨1, 1, 0, some 3, true⟩, ⟨1, 1, 0, none, true⟩] = ⟨2, 1, [⟨0, 0, 0⟩, ⟨8, 1, 0⟩]⟩ := by decide

/-- `union_decl` before the packed fix (9b0faa6): `if (ty->align < mem->align) ty->align = mem->align;` ignored `is_packed` -/
def unionStepOld (size align : Int) (m : Mem) : Int × Int :=
  match m.bitWidth, m.named with
  | some w, false => (if size < Int.tdiv (w + 7) 8 then Int.tdiv (w + 7) 8 else size, align)
  | _, _ => (if size < m.size then m.size else size, if align < m.align then m.align else align)

/-- `union __attribute__((packed)) { int a; char b; }` was 4/4; gcc 4/1 -/
theorem C08_fixed_packed_union :
    let ms : List SMem := [⟨4, 4, 0, none, true⟩, ⟨1, 1, 0, none, true⟩]
    (ms.map SMem.toMem).foldl (fun s m => unionStepOld s.1 s.2 m) (0, 1) = (4, 4) ∧
    specUnion true none ms = ⟨4, 1, [⟨0, 0, 0⟩, ⟨0, 0, 0⟩]⟩ ∧
    unionLayout true 1 (ms.map SMem.toMem) = .ok ⟨4, 1, [⟨0, 0⟩, ⟨0, 0⟩]⟩ := by decide

/-! ### repaired: zero divisors in struct_decl / union_decl (fixes 04ba5b8, fb20c9b, 33adb94) -/

/-- before fix 04ba5b8 `attribute_list` did `ty->align = const_expr(..)` unconditionally:
    `struct __attribute__((aligned(0))) S {} s;` ran the loops with `ty->align = 0` and — no member raising it — divided by it (SIGFPE), and so did
    `aligned(4294967296)` after the truncation to `int`; now `aligned(0)` requests nothing and 2^32 is diagnosed -/
theorem C08_fixed_aligned_zero :
    structLayout false 0 [] = .error .divByZero ∧ unionLayout false 0 [] = .error .divByZero ∧
    (Ty.struct false (some 0) .nil).layout = .ok ⟨0, 1, []⟩ ∧ (Ty.union false (some 0) .nil).layout = .ok ⟨0, 1, []⟩ ∧
    (Ty.struct false (some 0) (.cons ⟨none, true⟩ .nil (.prim .char) .nil)).layout = .ok ⟨1, 1, [⟨0, 0⟩]⟩ ∧
    (Ty.struct false (some 4294967296) .nil).layout = .error .badAlign := by decide

/-- before fix fb20c9b a bit-field could have any declared type: `struct S { struct {} a : 1; }` and `struct S { int a[0] : 1; }`
    reached `bits / (sz * 8)` with `sz = 0` (SIGFPE); now "bit-field has non-integer type" -/
theorem C08_fixed_bitfield_type :
    structLayout false 1 [{ size := 0, align := 1, bitWidth := some 1, named := true }] = .error .divByZero ∧
    structLayout false 1 [{ size := 0, align := 4, bitWidth := some 0, named := false }] = .error .divByZero ∧
    (Ty.struct false none (.cons ⟨some 1, true⟩ .nil (.struct false none .nil) .nil)).layout = .error .bitfieldType ∧
    (Ty.struct false none (.cons ⟨some 1, true⟩ .nil (.arr (.prim .int) 0) .nil)).layout = .error .bitfieldType ∧
    (Ty.struct false none (.cons ⟨some 3, true⟩ .nil (.prim .ldouble) .nil)).layout = .error .bitfieldType := by decide

/-- before fix 33adb94 `_Alignas(n)` stored any constant: `struct S { _Alignas(536870912) char c; }` made struct_decl compute
    `mem->align * 8` = 2^32, which is 0 in a 32-bit `int` (SIGFPE in align_to; invisible to the unbounded-`Int` model, which is
    why `C08_align_bound` now proves that no alignment above 2^28 reaches the loops); now the located diagnostic -/
theorem C08_fixed_alignas_wrap :
    int32 (536870912 * 8) = 0 ∧ int32 (1073741824 * 8) = 0 ∧ int32 (268435456 * 8) = -2147483648 ∧
    (Ty.struct false none (.cons ⟨none, true⟩ (.const 536870912 .nil) (.prim .char) .nil)).layout = .error .badAlign ∧
    (Ty.struct false none (.cons ⟨none, true⟩ (.const 1073741824 .nil) (.prim .int) .nil)).layout = .error .badAlign := by decide

end ChibiVerif.Findings.C08
