/-
C13 — kernel-checked witnesses for the abort sites of Props/C13Sites.lean.

All four defects below were found by reading the explicit crash outcomes of the sibling models and running the input on the
real cc1; they are repaired in /repo, the seeds are in corpus/C13 (seeds: the diagnostic now given; regress: accepted now).

  * `struct __attribute__((aligned(0))) S {} s;`, `struct __attribute__((packed,aligned(0))) S {int a;} s;`, the same for
    unions: SIGFPE in struct_decl/union_decl (`align_to(n, 0)`)                                            fix 04ba5b8
  * `struct S { struct {} a : 1; } s;`, `int a[0] : 1`: SIGFPE (`bits / (sz * 8)` with sz = 0)                fix fb20c9b
  * `struct S { long double x : 3; } s = {1};`: "internal error" (read_buf: unreachable())                   fix fb20c9b
  * `union U {} u = {};`: SIGSEGV in union_initializer (`init->mem->next` with `init->mem == NULL`)           fix 8f0968b

The struct_decl-level functions still contain the division sites (they are what C08's model transcribes); the witnesses
below show them on member lists the repaired parser no longer produces.
-/
import ChibiVerif.Lemmas.C13Layout
import ChibiVerif.Lemmas.C13InitBase
import ChibiVerif.Lemmas.C13PP

namespace ChibiVerif.Findings.C13Sites

section Layout
open ChibiVerif.Layout

/-- `aligned(0)` on an empty struct: `align_to(0, 0 * 8)` -/
theorem C13_fixed_aligned0_struct : structLayout false 0 [] = .error .divByZero := by decide
/-- `packed, aligned(0)`: the members do not raise `ty->align` -/
theorem C13_fixed_aligned0_packed : structLayout true 0 [⟨4, 4, none, true⟩] = .error .divByZero := by decide
theorem C13_fixed_aligned0_union : unionLayout false 0 [] = .error .divByZero ∧
    unionLayout true 0 [⟨4, 4, none, true⟩] = .error .divByZero := by decide
/-- a bit-field whose declared type has size 0 (`struct {} a : 1`, `int a[0] : 1`, and the zero-width form) -/
theorem C13_fixed_bitfield_size0 : structLayout false 1 [⟨0, 1, some 1, true⟩] = .error .divByZero ∧
    structLayout false 1 [⟨0, 1, some 0, true⟩] = .error .divByZero := by decide
/-- while `aligned(0)` with a member that raises the alignment was never a problem -/
theorem C13_note_aligned0_harmless : structLayout false 0 [⟨4, 4, none, true⟩] = .ok ⟨4, 4, [⟨0, 0⟩]⟩ := by decide

end Layout

section Init
open ChibiVerif.Init ChibiVerif.C13Init

/-- `long double x : 3` in a static initializer: write_gvar_data → read_buf(…, 16) → unreachable() -/
theorem C13_fixed_ldouble_bitfield :
    gvarInit (.struct none [.leaf (some (Expr.num 1))]) (.struct [(⟨some "x", 0, some (0, 3)⟩, .scalar 16 .flt)] 16 false)
      = .error (.crash "unreachable: read_buf size") := by decide

/-- the hypothesis `tyOK` of `C13_init_nocrash_partial` cannot be dropped on the MODEL: a description with `is_flexible` set
    although its last member is a struct (no declaration produces it) puts a `.flex` node where a struct node is expected,
    and `struct_initializer1` indexes its empty `children` -/
def badTy : Ty := .struct [(⟨some "m", 0, none⟩, .struct [(⟨some "a", 0, none⟩, .scalar 4 .int)] 4 false)] 4 true

theorem C13_init_statement_needs_tyOK :
    tyOK badTy = false ∧ toksOK [.lbrace, .lbrace, .expr (Expr.num 1), .rbrace, .rbrace] = true ∧
    (match initializer2 12 badTy [.lbrace, .lbrace, .expr (Expr.num 1), .rbrace, .rbrace] (newInit badTy true) with
     | .error (.crash w) => w == "children[i] outside the allocated block"
     | _ => false) = true := by decide

end Init

section Incl
open ChibiVerif.CondIncl ChibiVerif.IncludeSearch ChibiVerif.C13PP

/-- the include machine of the model has no depth limit: a file that includes itself exhausts EVERY step budget.  (cc1 did
    the same until it ran out of stack or memory — former known finding C13-recursive-include; since fix b453bf4 it stops at
    depth 200 with "#include nested too deeply", for which the model's `outOfFuel` stands.) -/
theorem C13_note_include_cycle (paths : List String) (fuel : Nat) :
    runInc PPExpr.evC (selfFS : FS PPExpr.Expr PPExpr.Body) paths true fuel [("f", .incl true "f")] .proc
      ⟨⟨⟨[], []⟩, []⟩, [], [], []⟩ = .error .outOfFuel :=
  selfInclude_outOfFuel PPExpr.evC paths fuel "f" _ rfl rfl

end Incl

end ChibiVerif.Findings.C13Sites
