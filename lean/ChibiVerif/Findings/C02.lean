/-
Kernel-checked witnesses of the known findings of C02 (known_findings.json), on the toy FPU of Lemmas/FpToy.lean
(an FPU that meets every contract of `FpuSpec`): the full selection statement `C02_select_Statement` is false.

  C02-u64-to-f32-signed        (float)(unsigned long)2^63: the cell is `cvtsi2ssq %rax, %xmm0`, which reads 2^63 as −2^63;
                               the result has its sign bit set, the C11 result has not.
  C02-fp-to-u64-above-2p63     (unsigned long)x for the double x = 3·2^62: the cell is `cvttsd2siq %xmm0, %rax`, which
                               returns the integer indefinite 0x8000000000000000 because 3·2^62 ≥ 2^63.
  C02-literal-double-rounding  rounding to 64 significant bits (what `strtold` does) and then to 53 is not rounding to 53:
                               2^64 + 2^11 + 1 → 2^64 + 2^11 → 2^64 (tie, to even), but directly → 2^64 + 2^12.
-/
import ChibiVerif.Props.C02

namespace ChibiVerif.Findings.C02
open ChibiVerif.Fp ChibiVerif.Asm ChibiVerif.X86 ChibiVerif.Spec.Fpu ChibiVerif.FpCodegen ChibiVerif.Spec.FpC11
open ChibiVerif.Spec.IntSpec ChibiVerif.Props.C02

/-- a machine state with `%rax = r`, `%xmm0 = x`, empty x87 stack, default control word -/
def st0 (r x : BitVec 64) : FState :=
  ⟨{ regs := fun _ => r, mem := fun _ => 0 }, x, 0, [], 0x37f#16⟩

/-- **C02-u64-to-f32-signed** -/
theorem C02_finding_u64_to_f32_signed : ¬ C02_select_Statement := by
  intro h
  obtain ⟨s', hrun, hhold, _⟩ := h Toy.toy (.int .u64) .f32 (st0 0x8000000000000000#64 0) (.int 9223372036854775808)
    (.f32 (Toy.toy.ofInt32 9223372036854775808)) (Or.inr rfl)
    (by simp [Holds, RInt, ITy.inRange, ITy.min, ITy.max, ITy.signed, ITy.bits, State.get, st0]) rfl
  obtain ⟨s'', hrun', hx, _⟩ := eff_u64f32 Toy.toy (st0 0x8000000000000000#64 0)
  have hs : s' = s'' := Option.some.inj (hrun.symm.trans hrun')
  subst hs
  simp only [Holds] at hhold
  have h1 := Toy.toy.ofInt32_sign 9223372036854775808
  have h2 := Toy.toy.ofInt32_sign (-9223372036854775808)
  rw [← hhold, hx, Toy.toy.cvtsi2ss64_spec] at h1
  have e : (State.get (st0 0x8000000000000000#64 0).x Reg.rax).toInt = -9223372036854775808 := by decide
  rw [e, h2] at h1
  exact absurd h1 (by decide)

/-- the toy double 3·2^62: q = 3, shift 62 -/
def x3p62 : BitVec 64 := BitVec.ofNat 64 (Toy.enc 57 false 3 62)

/-- **C02-fp-to-u64-above-2p63** -/
theorem C02_finding_fp_to_u64_above_2p63 : ¬ C02_select_Statement := by
  intro h
  have hval : Toy.toy.val64 x3p62 = .fin false 3 62 := by decide
  obtain ⟨s', hrun, hhold, _⟩ := h Toy.toy .f64 (.int .u64) (st0 0 x3p62) (.f64 x3p62) (.int 13835058055282163712)
    (Or.inl rfl) (by simp [Holds, st0])
    (by simp only [ChibiVerif.Spec.FpC11.convert, hval, fpToInt]; decide)
  obtain ⟨s'', hrun', hx, _⟩ := eff_f64u64 Toy.toy (st0 0 x3p62)
  have hs : s' = s'' := Option.some.inj (hrun.symm.trans hrun')
  subst hs
  simp only [Holds, RInt] at hhold
  have e : State.get s'.x Reg.rax = 0x8000000000000000#64 := by
    rw [hx, Toy.toy.cvttsd2si64_spec]
    show truncTo 64 (Toy.toy.val64 x3p62) = _
    rw [hval]; decide
  rw [e] at hhold
  exact absurd hhold.2 (by decide)

/-- **C02-literal-double-rounding** (the arithmetic core): round₅₃ ∘ round₆₄ ≠ round₅₃ at 2^64 + 2^11 + 1
    (the literal `18446744073709553665.0`; chibicc gives 0x43f0000000000000, C11/gcc 0x43f0000000000001) -/
theorem C02_finding_literal_double_rounding : ¬ C02_const_Statement := by
  intro h
  exact absurd (h 18446744073709553665).1 (by decide)

/-! ### repaired defects (fix: commits recorded in known_findings.json): the current table, checked -/

/-- (short)ld / (unsigned short)ld / (unsigned)ld reload with the right width and extension, and (unsigned)ld stores 64 bits -/
theorem C02_fixed_f80_cells :
    (Gen.CastTable.f80i16.instrs.getLast? = some ⟨"movswl", [.m (-24) "%rsp", .r "%eax"]⟩) ∧
    (Gen.CastTable.f80u16.instrs.getLast? = some ⟨"movzwl", [.m (-24) "%rsp", .r "%eax"]⟩) ∧
    (Gen.CastTable.f80u32.instrs.contains ⟨"fistpq", [.m (-24) "%rsp"]⟩ = true) := by decide

end ChibiVerif.Findings.C02
